/-
  Shared vocabulary of the tie proofs of the regenerated DIRECTIVE LAYER of go.mod / go.work parsing
  (Generated/FnRule.lean, namespace ModVerif.Generated.Rule), whose pointer graph is a HEAP (`Rule.Heap`), against the
  hand model Model/Modfile/Rule.lean / Work.lean (a VALUE tree whose lines carry an `id`; typed entries carry the
  `lineId` of their syntax line).

  Pointer ↔ id.  Everything is relative to a map `ι : Int → Nat` from line POINTERS to model line ids (the driver's
  `idOf (idsOf name data)`): `RLine ι h p l` says the line object at `p` is `lineG l` and `ι p = l.id`.  `LineInj ι h`: `ι`
  is injective on the allocated line pointers.

  * embeddings model → heap object: `posG`, `comG`, `comsG` (the driver's, Drv/GenRule.lean), `mvG`, `lineG`, `cbG`,
    `lparenG`, `rparenG`, `blockG`, `fileG`;
  * the syntax graph: `RLine`, `RLines`, `RExpr`, `RStmts`, `RepSyn ι h p fs` (line ids pairwise different, block
    pointers pairwise different; garbage objects allowed), frame lemmas (`mono`, `congr`), and
    `RepSyn.setToks`: overwriting the tokens of the line at `p` ↔ `FileSyntax.updateLine (ι p) (token := …)`;
  * token views: `TokView h r pre toks` (the `TokRef` `r` denotes the tokens `toks` of its owner line, after the prefix
    `pre`), with `TokView.len/get/drop/set/make` computing `TokRef.len/get/drop/set/make`, `setToksH` (the heap after a
    token store) and its frame lemmas;
  * typed entries: `TR` (a `Syntax` pointer is an allocated line whose id is the entry's `lineId`), `moduleR … useR`,
    `ROpt`, `REntsL`, `REnts`; `RepTyped` / `RepTypedW` (the `File` / `WorkFile` object);
  * errors: `errStrs` (the error strings of every `RuleErrKind`), `errAbs` (Prop-level counterpart of the driver's
    `kindOf`), `ErrRep`, `ErrsRep`;
  * `RepRS ι h fp errs st syn` / `RepR ι h fp errs st` (go.mod) and `RepWS` / `RepW` (go.work).

  Owner: rule-leaf.  Other agents import this file and do not edit it.  Statements are never changed, only added.
-/
import ModVerif.Generated.FnRule
import ModVerif.Drv.GenRule
import ModVerif.Model.Modfile.Rule
import ModVerif.Model.Modfile.Work
import ModVerif.Proofs.EditRefineTree
import ModVerif.Proofs.TieFnParseHeap
set_option linter.unusedSimpArgs false
set_option linter.unusedVariables false
namespace ModVerif.Tie.FnRuleRep
open ModVerif ModVerif.GoRt ModVerif.Generated
open ModVerif.Modfile.Edit (treeIds mapLinesStmt)

export ModVerif.Drv.GenRule (posG comG comsG posM comM comsM)
export ModVerif.Tie.FnParseHeap (heapGet_ok_iff heapGet_pos heapGet_le_length heapGet_error heapGet_natCast heapAlloc_fst
  heapAlloc_snd heapGet_alloc_new heapGet_alloc_old heapGet_append_old heapGet_alloc_of_le heapSet_of_get heapSet_ok_iff
  heapSet_length heapGet_set_same heapGet_set_other heapGet_set_ok heapGet_listSet_same heapGet_listSet_other set_alloc_last)

/-! ### embeddings and read-back of positions and comments -/

@[simp] theorem posM_posG (p : Modfile.Position) : posM (posG p) = p := by
  cases p; simp [Drv.GenRule.posM, Drv.GenRule.posG]

@[simp] theorem posG_zero : posG {} = (default : Rule.Position) := rfl
@[simp] theorem posG_Line (p : Modfile.Position) : (posG p).Line = (p.line : Int) := rfl
@[simp] theorem posG_LineRune (p : Modfile.Position) : (posG p).LineRune = (p.lineRune : Int) := rfl
@[simp] theorem posG_Byte (p : Modfile.Position) : (posG p).Byte = (p.byte : Int) := rfl

theorem posG_inj {p q : Modfile.Position} (h : posG p = posG q) : p = q := by
  have := congrArg posM h
  simpa using this

@[simp] theorem comM_comG (c : Modfile.Comment) : comM (comG c) = c := by
  cases c; simp [Drv.GenRule.comM, Drv.GenRule.comG]

@[simp] theorem comG_zero : comG {} = (default : Rule.Comment) := rfl
@[simp] theorem comG_Start (c : Modfile.Comment) : (comG c).Start = posG c.start := rfl
@[simp] theorem comG_Token (c : Modfile.Comment) : (comG c).Token = c.token := rfl
@[simp] theorem comG_Suffix (c : Modfile.Comment) : (comG c).Suffix = c.suffix := rfl

theorem comG_inj {c d : Modfile.Comment} (h : comG c = comG d) : c = d := by
  have := congrArg comM h
  simpa using this

@[simp] theorem map_comM_comG (l : List Modfile.Comment) : (l.map comG).map comM = l := by
  induction l with
  | nil => rfl
  | cons a t ih => simp [ih]

@[simp] theorem comsM_comsG (c : Modfile.Comments) : comsM (comsG c) = c := by
  cases c; simp only [Drv.GenRule.comsM, Drv.GenRule.comsG, map_comM_comG]

@[simp] theorem comsG_zero : comsG {} = (default : Rule.Comments) := rfl
@[simp] theorem comsG_Before (c : Modfile.Comments) : (comsG c).Before = c.before.map comG := rfl
@[simp] theorem comsG_Suffix (c : Modfile.Comments) : (comsG c).Suffix = c.suffix.map comG := rfl
@[simp] theorem comsG_After (c : Modfile.Comments) : (comsG c).After = c.after.map comG := rfl

theorem comsG_inj {c d : Modfile.Comments} (h : comsG c = comsG d) : c = d := by
  have := congrArg comsM h
  simpa using this

/-- module.Version -/
def mvG (m : Modfile.ModVersion) : ModVersion := { Path := m.path, Version := m.version }
@[simp] theorem mvG_Path (m : Modfile.ModVersion) : (mvG m).Path = m.path := rfl
@[simp] theorem mvG_Version (m : Modfile.ModVersion) : (mvG m).Version = m.version := rfl
theorem mvG_mk (p v : Bytes) : ({ (default : ModVersion) with Path := p, Version := v } : ModVersion) = mvG { path := p, version := v } := rfl
theorem mvG_mk_path (p : Bytes) : ({ (default : ModVersion) with Path := p } : ModVersion) = mvG { path := p } := rfl

/-! ### the heap objects of model nodes -/

def cbG (c : Modfile.CommentBlock) : Rule.CommentBlock := { Comments := comsG c.comments, Start := posG c.start }

/-- the line object (the `id` is not stored: it is `ι` of the pointer) -/
def lineG (l : Modfile.Line) : Rule.Line :=
  { Comments := comsG l.comments, Start := posG l.start, Token := l.token, InBlock := l.inBlock, End := posG l.«end» }

def lparenG (x : Modfile.LParen) : Rule.LParen := { Comments := comsG x.comments, Pos := posG x.pos }
def rparenG (x : Modfile.RParen) : Rule.RParen := { Comments := comsG x.comments, Pos := posG x.pos }

/-- the block object: its lines are the pointers `ps` -/
def blockG (b : Modfile.LineBlock) (ps : List Int) : Rule.LineBlock :=
  { Comments := comsG b.comments, Start := posG b.start, LParen := lparenG b.lparen, Token := b.token, Line := ps,
    RParen := rparenG b.rparen }

/-- the file object: its statements are `es` -/
def fileG (f : Modfile.FileSyntax) (es : List Rule.Expr) : Rule.FileSyntax :=
  { Name := f.name, Comments := comsG f.comments, Stmt := es }

@[simp] theorem lineG_Comments (l : Modfile.Line) : (lineG l).Comments = comsG l.comments := rfl
@[simp] theorem lineG_Start (l : Modfile.Line) : (lineG l).Start = posG l.start := rfl
@[simp] theorem lineG_Token (l : Modfile.Line) : (lineG l).Token = l.token := rfl
@[simp] theorem lineG_InBlock (l : Modfile.Line) : (lineG l).InBlock = l.inBlock := rfl
@[simp] theorem lineG_End (l : Modfile.Line) : (lineG l).End = posG l.«end» := rfl
@[simp] theorem blockG_Comments (b : Modfile.LineBlock) (ps : List Int) : (blockG b ps).Comments = comsG b.comments := rfl
@[simp] theorem blockG_Start (b : Modfile.LineBlock) (ps : List Int) : (blockG b ps).Start = posG b.start := rfl
@[simp] theorem blockG_Token (b : Modfile.LineBlock) (ps : List Int) : (blockG b ps).Token = b.token := rfl
@[simp] theorem blockG_Line (b : Modfile.LineBlock) (ps : List Int) : (blockG b ps).Line = ps := rfl
@[simp] theorem fileG_Name (f : Modfile.FileSyntax) (es : List Rule.Expr) : (fileG f es).Name = f.name := rfl
@[simp] theorem fileG_Comments (f : Modfile.FileSyntax) (es : List Rule.Expr) : (fileG f es).Comments = comsG f.comments := rfl
@[simp] theorem fileG_Stmt (f : Modfile.FileSyntax) (es : List Rule.Expr) : (fileG f es).Stmt = es := rfl

/-- a token store on the object is a token store on the model line -/
theorem lineG_setToken (l : Modfile.Line) (ts : List Bytes) :
    ({ lineG l with Token := ts } : Rule.Line) = lineG { l with token := ts } := rfl

/-- `lineG` forgets exactly the id -/
theorem lineG_eq_iff {a b : Modfile.Line} : lineG a = lineG b ↔ a = { b with id := a.id } := by
  constructor
  · intro h
    obtain ⟨i, c, s, t, ib, e⟩ := a
    obtain ⟨j, c', s', t', ib', e'⟩ := b
    simp only [lineG, Rule.Line.mk.injEq] at h
    obtain ⟨h1, h2, h3, h4, h5⟩ := h
    have := comsG_inj h1; have := posG_inj h2; have := posG_inj h5
    subst_vars; rfl
  · intro h; rw [h]; rfl

/-- a function on model lines that does not look at the id and keeps it -/
def IdEquiv (g : Modfile.Line → Modfile.Line) : Prop := ∀ (l : Modfile.Line) (i : Nat), g { l with id := i } = { g l with id := i }

theorem IdEquiv.id_eq {g : Modfile.Line → Modfile.Line} (hg : IdEquiv g) (l : Modfile.Line) : (g l).id = l.id := by
  have := hg l l.id
  have e : ({ l with id := l.id } : Modfile.Line) = l := rfl
  rw [e] at this
  rw [this]

theorem IdEquiv.lineG {g : Modfile.Line → Modfile.Line} (hg : IdEquiv g) {a b : Modfile.Line} (h : lineG a = lineG b) :
    lineG (g a) = lineG (g b) := by
  rw [lineG_eq_iff.1 h, hg b a.id]; rfl

theorem IdEquiv_setToken (ts : List Bytes) : IdEquiv (fun l => { l with token := ts }) := fun _ _ => rfl

/-! ### the representation of the syntax graph -/

/-- `ι` is injective on the allocated line pointers -/
def LineInj (ι : Int → Nat) (h : Rule.Heap) : Prop :=
  ∀ p q : Int, 0 < p → p.toNat ≤ h.lines.length → 0 < q → q.toNat ≤ h.lines.length → ι p = ι q → p = q

/-- the line object at `p` is the embedding of `l`, and the id of `l` is `ι p` -/
def RLine (ι : Int → Nat) (h : Rule.Heap) (p : Int) (l : Modfile.Line) : Prop :=
  heapGet h.lines p = .ok (lineG l) ∧ ι p = l.id

def RLines (ι : Int → Nat) (h : Rule.Heap) : List Int → List Modfile.Line → Prop
  | [], [] => True
  | p :: ps, l :: ls => RLine ι h p l ∧ RLines ι h ps ls
  | _, _ => False

/-- the statement `e` of the heap is the model statement `s` -/
def RExpr (ι : Int → Nat) (h : Rule.Heap) : Rule.Expr → Modfile.Expr → Prop
  | .CommentBlock p, .commentBlock c => heapGet h.cbs p = .ok (cbG c)
  | .Line p, .line l => RLine ι h p l
  | .LineBlock p, .lineBlock b => ∃ ps, heapGet h.blocks p = .ok (blockG b ps) ∧ RLines ι h ps b.lines
  | _, _ => False

def RStmts (ι : Int → Nat) (h : Rule.Heap) : List Rule.Expr → List Modfile.Expr → Prop
  | [], [] => True
  | e :: es, s :: ss => RExpr ι h e s ∧ RStmts ι h es ss
  | _, _ => False

def blockPtrs : List Rule.Expr → List Int
  | [] => []
  | .LineBlock p :: es => p :: blockPtrs es
  | _ :: es => blockPtrs es

/-- the graph at `p`, with statement list `es`, is `fs`; block pointers and line ids are pairwise different (hence, `ι`
    being a function, line pointers too) -/
structure RepSynAt (ι : Int → Nat) (h : Rule.Heap) (p : Int) (fs : Modfile.FileSyntax) (es : List Rule.Expr) : Prop where
  file : heapGet h.files p = .ok (fileG fs es)
  stmts : RStmts ι h es fs.stmts
  nodupB : (blockPtrs es).Nodup
  nodupL : (treeIds fs.stmts).Nodup

/-- **the syntax graph at the `*FileSyntax` pointer `p` represents the model tree `fs`** -/
def RepSyn (ι : Int → Nat) (h : Rule.Heap) (p : Int) (fs : Modfile.FileSyntax) : Prop := ∃ es, RepSynAt ι h p fs es

/-! ### elementary facts -/

theorem RLine.pos {ι : Int → Nat} {h : Rule.Heap} {p : Int} {l : Modfile.Line} (r : RLine ι h p l) : 0 < p := heapGet_pos r.1
theorem RLine.le {ι : Int → Nat} {h : Rule.Heap} {p : Int} {l : Modfile.Line} (r : RLine ι h p l) : p.toNat ≤ h.lines.length :=
  heapGet_le_length r.1

theorem RLines.length {ι : Int → Nat} {h : Rule.Heap} : ∀ {ps : List Int} {ls : List Modfile.Line}, RLines ι h ps ls → ps.length = ls.length
  | [], [], _ => rfl
  | _ :: _, _ :: _, r => by simp [RLines.length r.2]
  | [], _ :: _, r => r.elim
  | _ :: _, [], r => r.elim

theorem RStmts.length {ι : Int → Nat} {h : Rule.Heap} : ∀ {es : List Rule.Expr} {ss : List Modfile.Expr}, RStmts ι h es ss → es.length = ss.length
  | [], [], _ => rfl
  | _ :: _, _ :: _, r => by simp [RStmts.length r.2]
  | [], _ :: _, r => r.elim
  | _ :: _, [], r => r.elim

theorem RLines.get {ι : Int → Nat} {h : Rule.Heap} : ∀ {ps : List Int} {ls : List Modfile.Line}, RLines ι h ps ls →
    ∀ (i : Nat) (p : Int) (l : Modfile.Line), ps[i]? = some p → ls[i]? = some l → RLine ι h p l
  | _ :: _, _ :: _, r, 0, p, l, hp, hl => by
    simp only [List.getElem?_cons_zero, Option.some.injEq] at hp hl; subst hp hl; exact r.1
  | _ :: _, _ :: _, r, i + 1, p, l, hp, hl => by
    simp only [List.getElem?_cons_succ] at hp hl; exact RLines.get r.2 i p l hp hl
  | [], [], _, _, _, _, hp, _ => by simp at hp
  | [], _ :: _, r, _, _, _, _, _ => r.elim
  | _ :: _, [], r, _, _, _, _, _ => r.elim

theorem RStmts.get {ι : Int → Nat} {h : Rule.Heap} : ∀ {es : List Rule.Expr} {ss : List Modfile.Expr}, RStmts ι h es ss →
    ∀ (i : Nat) (e : Rule.Expr) (s : Modfile.Expr), es[i]? = some e → ss[i]? = some s → RExpr ι h e s
  | _ :: _, _ :: _, r, 0, e, s, he, hs => by
    simp only [List.getElem?_cons_zero, Option.some.injEq] at he hs; subst he hs; exact r.1
  | _ :: _, _ :: _, r, i + 1, e, s, he, hs => by
    simp only [List.getElem?_cons_succ] at he hs; exact RStmts.get r.2 i e s he hs
  | [], [], _, _, _, _, he, _ => by simp at he
  | [], _ :: _, r, _, _, _, _, _ => r.elim
  | _ :: _, [], r, _, _, _, _, _ => r.elim

theorem RLines.append {ι : Int → Nat} {h : Rule.Heap} : ∀ {ps qs : List Int} {ls ms : List Modfile.Line}, RLines ι h ps ls → RLines ι h qs ms →
    RLines ι h (ps ++ qs) (ls ++ ms)
  | [], _, [], _, _, r2 => r2
  | _ :: _, _, _ :: _, _, r1, r2 => ⟨r1.1, RLines.append r1.2 r2⟩
  | [], _, _ :: _, _, r1, _ => r1.elim
  | _ :: _, _, [], _, r1, _ => r1.elim

theorem RStmts.append {ι : Int → Nat} {h : Rule.Heap} : ∀ {es fs : List Rule.Expr} {ss ts : List Modfile.Expr}, RStmts ι h es ss → RStmts ι h fs ts →
    RStmts ι h (es ++ fs) (ss ++ ts)
  | [], _, [], _, _, r2 => r2
  | _ :: _, _, _ :: _, _, r1, r2 => ⟨r1.1, RStmts.append r1.2 r2⟩
  | [], _, _ :: _, _, r1, _ => r1.elim
  | _ :: _, _, [], _, r1, _ => r1.elim

/-! ### frame lemmas for the syntax graph -/

theorem RLine.mono {ι : Int → Nat} {h h' : Rule.Heap} (hl : ∀ p v, heapGet h.lines p = .ok v → heapGet h'.lines p = .ok v)
    {p : Int} {l : Modfile.Line} (r : RLine ι h p l) : RLine ι h' p l := ⟨hl _ _ r.1, r.2⟩

theorem RLines.mono {ι : Int → Nat} {h h' : Rule.Heap} (hl : ∀ p v, heapGet h.lines p = .ok v → heapGet h'.lines p = .ok v) :
    ∀ {ps : List Int} {ls : List Modfile.Line}, RLines ι h ps ls → RLines ι h' ps ls
  | [], [], _ => trivial
  | _ :: _, _ :: _, r => ⟨r.1.mono hl, RLines.mono hl r.2⟩
  | [], _ :: _, r => r.elim
  | _ :: _, [], r => r.elim

theorem RExpr.mono {ι : Int → Nat} {h h' : Rule.Heap} (hl : ∀ p v, heapGet h.lines p = .ok v → heapGet h'.lines p = .ok v)
    (hb : ∀ p v, heapGet h.blocks p = .ok v → heapGet h'.blocks p = .ok v)
    (hc : ∀ p v, heapGet h.cbs p = .ok v → heapGet h'.cbs p = .ok v) :
    ∀ {e : Rule.Expr} {s : Modfile.Expr}, RExpr ι h e s → RExpr ι h' e s := by
  intro e s r
  cases e <;> cases s <;> simp only [RExpr] at r ⊢ <;> try exact r.elim
  · exact hc _ _ r
  · exact r.mono hl
  · obtain ⟨ps, r1, r2⟩ := r
    exact ⟨ps, hb _ _ r1, r2.mono hl⟩

theorem RStmts.mono {ι : Int → Nat} {h h' : Rule.Heap} (hl : ∀ p v, heapGet h.lines p = .ok v → heapGet h'.lines p = .ok v)
    (hb : ∀ p v, heapGet h.blocks p = .ok v → heapGet h'.blocks p = .ok v)
    (hc : ∀ p v, heapGet h.cbs p = .ok v → heapGet h'.cbs p = .ok v) :
    ∀ {es : List Rule.Expr} {ss : List Modfile.Expr}, RStmts ι h es ss → RStmts ι h' es ss
  | [], [], _ => trivial
  | _ :: _, _ :: _, r => ⟨r.1.mono hl hb hc, RStmts.mono hl hb hc r.2⟩
  | [], _ :: _, r => r.elim
  | _ :: _, [], r => r.elim

/-- a change that keeps `lines`, `blocks`, `cbs` (for instance of a typed list, `mods`, `works`, `files`, `errors`) -/
theorem RStmts.congr {ι : Int → Nat} {h h' : Rule.Heap} (hl : h'.lines = h.lines) (hb : h'.blocks = h.blocks) (hc : h'.cbs = h.cbs)
    {es : List Rule.Expr} {ss : List Modfile.Expr} (r : RStmts ι h es ss) : RStmts ι h' es ss :=
  r.mono (by rw [hl]; exact fun _ _ x => x) (by rw [hb]; exact fun _ _ x => x) (by rw [hc]; exact fun _ _ x => x)

/-- a change of the heap that keeps `files`, `lines`, `blocks`, `cbs` -/
theorem RepSyn.congr {ι : Int → Nat} {h h' : Rule.Heap} (hf : h'.files = h.files) (hl : h'.lines = h.lines) (hb : h'.blocks = h.blocks)
    (hc : h'.cbs = h.cbs) {p : Int} {fs : Modfile.FileSyntax} (r : RepSyn ι h p fs) : RepSyn ι h' p fs := by
  obtain ⟨es, r⟩ := r
  exact ⟨es, by rw [hf]; exact r.file, r.stmts.congr hl hb hc, r.nodupB, r.nodupL⟩

/-- every change that keeps the allocated objects of `files`, `lines`, `blocks`, `cbs` (allocation) -/
theorem RepSyn.mono {ι : Int → Nat} {h h' : Rule.Heap} (hf : ∀ p v, heapGet h.files p = .ok v → heapGet h'.files p = .ok v)
    (hl : ∀ p v, heapGet h.lines p = .ok v → heapGet h'.lines p = .ok v)
    (hb : ∀ p v, heapGet h.blocks p = .ok v → heapGet h'.blocks p = .ok v)
    (hc : ∀ p v, heapGet h.cbs p = .ok v → heapGet h'.cbs p = .ok v)
    {p : Int} {fs : Modfile.FileSyntax} (r : RepSyn ι h p fs) : RepSyn ι h' p fs := by
  obtain ⟨es, r⟩ := r
  exact ⟨es, hf _ _ r.file, r.stmts.mono hl hb hc, r.nodupB, r.nodupL⟩

theorem LineInj.congr {ι : Int → Nat} {h h' : Rule.Heap} (hi : LineInj ι h) (hl : h'.lines.length = h.lines.length) : LineInj ι h' := by
  intro p q a b c d e; rw [hl] at b d; exact hi p q a b c d e

/-! ### ids of the tree are pointers of the graph -/

theorem RLines.mem {ι : Int → Nat} {h : Rule.Heap} : ∀ {ps : List Int} {ls : List Modfile.Line}, RLines ι h ps ls →
    ∀ l ∈ ls, ∃ p, p ∈ ps ∧ RLine ι h p l
  | [], [], _, l, hl => by cases hl
  | p :: _, _ :: _, r, l, hl => by
    rcases List.mem_cons.1 hl with rfl | hl'
    · exact ⟨p, List.mem_cons_self, r.1⟩
    · obtain ⟨q, hq, rq⟩ := RLines.mem r.2 l hl'
      exact ⟨q, List.mem_cons_of_mem _ hq, rq⟩
  | [], _ :: _, r, _, _ => r.elim
  | _ :: _, [], r, _, _ => r.elim

/-- every located line of the tree is an object of the heap -/
theorem RStmts.loc {ι : Int → Nat} {h : Rule.Heap} : ∀ {es : List Rule.Expr} {ss : List Modfile.Expr}, RStmts ι h es ss →
    ∀ q ∈ Modfile.Edit.loc ss, ∃ p, RLine ι h p q.2
  | [], [], _, q, hq => by simp [Modfile.Edit.loc] at hq
  | e :: es, s :: ss, r, q, hq => by
    rw [Modfile.Edit.loc_cons] at hq
    rcases List.mem_append.1 hq with hq1 | hq2
    · cases e <;> cases s <;> simp only [RStmts, RExpr] at r <;> try exact r.1.elim
      · simp [Modfile.Edit.locStmt] at hq1
      · simp only [Modfile.Edit.locStmt, List.mem_singleton] at hq1
        subst hq1
        exact ⟨_, r.1⟩
      · obtain ⟨⟨ps, _, rl⟩, _⟩ := r
        simp only [Modfile.Edit.locStmt, List.mem_map] at hq1
        obtain ⟨l, hl, rfl⟩ := hq1
        obtain ⟨p, _, rp⟩ := rl.mem l hl
        exact ⟨p, rp⟩
    · exact RStmts.loc r.2 q hq2
  | [], _ :: _, r, _, _ => r.elim
  | _ :: _, [], r, _, _ => r.elim

/-- a line of the tree found by its id is an object of the heap; under `LineInj` it is THE object at any allocated pointer
    with that id -/
theorem RepSyn.findLine {ι : Int → Nat} {h : Rule.Heap} {x : Int} {fs : Modfile.FileSyntax} (r : RepSyn ι h x fs) {id : Nat} {l : Modfile.Line}
    (hf : fs.findLine id = some l) : l.id = id ∧ ∃ p, RLine ι h p l := by
  obtain ⟨es, r⟩ := r
  unfold Modfile.FileSyntax.findLine at hf
  have hm := List.mem_of_find?_eq_some hf
  have hid : l.id = id := by simpa using List.find?_some hf
  rw [Modfile.Edit.allLines_eq_loc] at hm
  obtain ⟨q, hq, rfl⟩ := List.mem_map.1 hm
  exact ⟨hid, r.stmts.loc q hq⟩

theorem RepSyn.findLine_at {ι : Int → Nat} {h : Rule.Heap} {x : Int} {fs : Modfile.FileSyntax} (r : RepSyn ι h x fs) (hi : LineInj ι h)
    {p : Int} {l : Modfile.Line} (hp : 0 < p) (hle : p.toNat ≤ h.lines.length) (hf : fs.findLine (ι p) = some l) : RLine ι h p l := by
  obtain ⟨hid, q, rq⟩ := r.findLine hf
  have : q = p := hi q p rq.pos rq.le hp hle (by rw [rq.2, hid])
  subst this; exact rq

/-! ### `heapSet` of a line: the model side is `updateLine` -/

theorem RLines.setLine {ι : Int → Nat} {h : Rule.Heap} {p : Int} {l0 : Modfile.Line} {g : Modfile.Line → Modfile.Line} (hg : IdEquiv g)
    (hi : LineInj ι h) (hget : heapGet h.lines p = .ok (lineG l0)) :
    ∀ {ps : List Int} {ls : List Modfile.Line}, RLines ι h ps ls →
      RLines ι { h with lines := h.lines.set (p.toNat - 1) (lineG (g l0)) } ps
        (ls.map fun l => if l.id == ι p then g l else l)
  | [], [], _ => trivial
  | q :: ps, l :: ls, r => by
    refine ⟨?_, RLines.setLine hg hi hget r.2⟩
    have hp := heapGet_pos hget
    by_cases e : q = p
    · subst e
      have hid : (l.id == ι q) = true := by simp [r.1.2]
      simp only [hid, if_true]
      refine ⟨?_, by rw [hg.id_eq]; exact r.1.2⟩
      show heapGet (h.lines.set (q.toNat - 1) (lineG (g l0))) q = _
      rw [heapGet_listSet_same _ hget]
      have : lineG l = lineG l0 := by have := r.1.1; rw [hget] at this; exact (Except.ok.inj this).symm
      rw [hg.lineG this]
    · have hid : (l.id == ι p) = false := by
        simp only [beq_eq_false_iff_ne, ne_eq]
        intro hc
        exact e (hi q p r.1.pos r.1.le hp (heapGet_le_length hget) (by rw [r.1.2, hc]))
      simp only [hid, Bool.false_eq_true, if_false]
      refine ⟨?_, r.1.2⟩
      show heapGet (h.lines.set (p.toNat - 1) (lineG (g l0))) q = _
      rw [heapGet_listSet_other _ hget e]; exact r.1.1
  | [], _ :: _, r => r.elim
  | _ :: _, [], r => r.elim

theorem RStmts.setLine {ι : Int → Nat} {h : Rule.Heap} {p : Int} {l0 : Modfile.Line} {g : Modfile.Line → Modfile.Line} (hg : IdEquiv g)
    (hi : LineInj ι h) (hget : heapGet h.lines p = .ok (lineG l0)) :
    ∀ {es : List Rule.Expr} {ss : List Modfile.Expr}, RStmts ι h es ss →
      RStmts ι { h with lines := h.lines.set (p.toNat - 1) (lineG (g l0)) } es
        (ss.map (mapLinesStmt fun l => if l.id == ι p then g l else l))
  | [], [], _ => trivial
  | e :: es, s :: ss, r => by
    refine ⟨?_, RStmts.setLine hg hi hget r.2⟩
    have r1 := r.1
    cases e <;> cases s <;> simp only [RExpr, mapLinesStmt] at r1 ⊢ <;> try exact r1.elim
    · exact r1
    · have := RLines.setLine hg hi hget (ps := [_]) (ls := [_]) ⟨r1, trivial⟩
      exact this.1
    · obtain ⟨ps, r2, r3⟩ := r1
      exact ⟨ps, r2, RLines.setLine hg hi hget r3⟩
  | [], _ :: _, r => r.elim
  | _ :: _, [], r => r.elim

/-- **the line object at `p` is overwritten by the image of its content under `g`: the graph now represents
    `fs.updateLine (ι p) g`** (also when the line at `p` is not in the graph: then `updateLine` changes nothing) -/
theorem RepSyn.setLine {ι : Int → Nat} {h : Rule.Heap} {x : Int} {fs : Modfile.FileSyntax} (r : RepSyn ι h x fs) (hi : LineInj ι h) {p : Int}
    {l0 : Modfile.Line} {g : Modfile.Line → Modfile.Line} (hg : IdEquiv g) (hget : heapGet h.lines p = .ok (lineG l0)) :
    RepSyn ι { h with lines := h.lines.set (p.toNat - 1) (lineG (g l0)) } x (fs.updateLine (ι p) g) := by
  obtain ⟨es, r⟩ := r
  refine ⟨es, ?_, ?_, r.nodupB, ?_⟩
  · exact r.file
  · rw [Modfile.Edit.updateLine_stmts fs (ι p) g r.nodupL]
    exact r.stmts.setLine hg hi hget
  · rw [Modfile.Edit.treeIds_updateLine fs (ι p) g r.nodupL hg.id_eq]; exact r.nodupL

/-! ### token views (`TokRef`) -/

/-- the heap after the tokens of the line at `p` were replaced by `ts` -/
def setToksH (h : Rule.Heap) (p : Int) (ts : List Bytes) : Rule.Heap :=
  match heapGet h.lines p with
  | .ok L => { h with lines := h.lines.set (p.toNat - 1) { L with Token := ts } }
  | .error _ => h

theorem setToksH_eq {h : Rule.Heap} {p : Int} {L : Rule.Line} (hg : heapGet h.lines p = .ok L) (ts : List Bytes) :
    setToksH h p ts = { h with lines := h.lines.set (p.toNat - 1) { L with Token := ts } } := by
  simp [setToksH, hg]

/-- all object lists except `lines` are untouched -/
theorem setToksH_frame (h : Rule.Heap) (p : Int) (ts : List Bytes) :
    (setToksH h p ts).cbs = h.cbs ∧ (setToksH h p ts).errors = h.errors ∧ (setToksH h p ts).excludes = h.excludes ∧
    (setToksH h p ts).mods = h.mods ∧ (setToksH h p ts).files = h.files ∧ (setToksH h p ts).gos = h.gos ∧
    (setToksH h p ts).godebugs = h.godebugs ∧ (setToksH h p ts).blocks = h.blocks ∧ (setToksH h p ts).modules = h.modules ∧
    (setToksH h p ts).replaces = h.replaces ∧ (setToksH h p ts).requires = h.requires ∧ (setToksH h p ts).retracts = h.retracts ∧
    (setToksH h p ts).tools = h.tools ∧ (setToksH h p ts).toolchains = h.toolchains ∧ (setToksH h p ts).uses = h.uses ∧
    (setToksH h p ts).works = h.works := by
  unfold setToksH; split <;> simp

@[simp] theorem setToksH_cbs (h : Rule.Heap) (p : Int) (ts : List Bytes) : (setToksH h p ts).cbs = h.cbs := (setToksH_frame h p ts).1
@[simp] theorem setToksH_errors (h : Rule.Heap) (p : Int) (ts : List Bytes) : (setToksH h p ts).errors = h.errors := (setToksH_frame h p ts).2.1
@[simp] theorem setToksH_excludes (h : Rule.Heap) (p : Int) (ts : List Bytes) : (setToksH h p ts).excludes = h.excludes := (setToksH_frame h p ts).2.2.1
@[simp] theorem setToksH_mods (h : Rule.Heap) (p : Int) (ts : List Bytes) : (setToksH h p ts).mods = h.mods := (setToksH_frame h p ts).2.2.2.1
@[simp] theorem setToksH_files (h : Rule.Heap) (p : Int) (ts : List Bytes) : (setToksH h p ts).files = h.files := (setToksH_frame h p ts).2.2.2.2.1
@[simp] theorem setToksH_gos (h : Rule.Heap) (p : Int) (ts : List Bytes) : (setToksH h p ts).gos = h.gos := (setToksH_frame h p ts).2.2.2.2.2.1
@[simp] theorem setToksH_godebugs (h : Rule.Heap) (p : Int) (ts : List Bytes) : (setToksH h p ts).godebugs = h.godebugs := (setToksH_frame h p ts).2.2.2.2.2.2.1
@[simp] theorem setToksH_blocks (h : Rule.Heap) (p : Int) (ts : List Bytes) : (setToksH h p ts).blocks = h.blocks := (setToksH_frame h p ts).2.2.2.2.2.2.2.1
@[simp] theorem setToksH_modules (h : Rule.Heap) (p : Int) (ts : List Bytes) : (setToksH h p ts).modules = h.modules := (setToksH_frame h p ts).2.2.2.2.2.2.2.2.1
@[simp] theorem setToksH_replaces (h : Rule.Heap) (p : Int) (ts : List Bytes) : (setToksH h p ts).replaces = h.replaces := (setToksH_frame h p ts).2.2.2.2.2.2.2.2.2.1
@[simp] theorem setToksH_requires (h : Rule.Heap) (p : Int) (ts : List Bytes) : (setToksH h p ts).requires = h.requires := (setToksH_frame h p ts).2.2.2.2.2.2.2.2.2.2.1
@[simp] theorem setToksH_retracts (h : Rule.Heap) (p : Int) (ts : List Bytes) : (setToksH h p ts).retracts = h.retracts := (setToksH_frame h p ts).2.2.2.2.2.2.2.2.2.2.2.1
@[simp] theorem setToksH_tools (h : Rule.Heap) (p : Int) (ts : List Bytes) : (setToksH h p ts).tools = h.tools := (setToksH_frame h p ts).2.2.2.2.2.2.2.2.2.2.2.2.1
@[simp] theorem setToksH_toolchains (h : Rule.Heap) (p : Int) (ts : List Bytes) : (setToksH h p ts).toolchains = h.toolchains := (setToksH_frame h p ts).2.2.2.2.2.2.2.2.2.2.2.2.2.1
@[simp] theorem setToksH_uses (h : Rule.Heap) (p : Int) (ts : List Bytes) : (setToksH h p ts).uses = h.uses := (setToksH_frame h p ts).2.2.2.2.2.2.2.2.2.2.2.2.2.2.1
@[simp] theorem setToksH_works (h : Rule.Heap) (p : Int) (ts : List Bytes) : (setToksH h p ts).works = h.works := (setToksH_frame h p ts).2.2.2.2.2.2.2.2.2.2.2.2.2.2.2

@[simp] theorem setToksH_lines_length (h : Rule.Heap) (p : Int) (ts : List Bytes) : (setToksH h p ts).lines.length = h.lines.length := by
  unfold setToksH; split <;> simp

/-- the line at `p` after the store -/
theorem heapGet_setToksH_same {h : Rule.Heap} {p : Int} {L : Rule.Line} (hg : heapGet h.lines p = .ok L) (ts : List Bytes) :
    heapGet (setToksH h p ts).lines p = .ok { L with Token := ts } := by
  rw [setToksH_eq hg]; exact heapGet_listSet_same _ hg

/-- every other line is untouched -/
theorem heapGet_setToksH_other (h : Rule.Heap) {p q : Int} (ts : List Bytes) (hq : q ≠ p) :
    heapGet (setToksH h p ts).lines q = heapGet h.lines q := by
  unfold setToksH
  split
  · next L hg => exact heapGet_listSet_other _ hg hq
  · rfl

/-- storing the tokens that are there changes nothing -/
theorem setToksH_self {h : Rule.Heap} {p : Int} {L : Rule.Line} (hg : heapGet h.lines p = .ok L) : setToksH h p L.Token = h := by
  rw [setToksH_eq hg]
  have : ({ L with Token := L.Token } : Rule.Line) = L := rfl
  rw [this]
  obtain ⟨_, hv⟩ := heapGet_ok_iff.1 hg
  obtain ⟨hlt, he⟩ := List.getElem?_eq_some_iff.1 hv
  have : h.lines.set (p.toNat - 1) L = h.lines := by rw [← he]; exact List.set_getElem_self hlt
  rw [this]

/-- a second store at the same line overwrites the first -/
theorem setToksH_setToksH {h : Rule.Heap} {p : Int} {L : Rule.Line} (hg : heapGet h.lines p = .ok L) (ts ts' : List Bytes) :
    setToksH (setToksH h p ts) p ts' = setToksH h p ts' := by
  rw [setToksH_eq (heapGet_setToksH_same hg ts), setToksH_eq hg, setToksH_eq hg]
  simp [List.set_set]

/-- the `TokRef` `r` denotes the tokens `toks` of its owner line, which come after the tokens `pre` of that line -/
def TokView (h : Rule.Heap) (r : Rule.TokRef) (pre toks : List Bytes) : Prop :=
  ∃ L, heapGet h.lines r.owner = .ok L ∧ L.Token = pre ++ toks ∧ r.lo = (pre.length : Int)

theorem TokView.toks_eq {h : Rule.Heap} {r : Rule.TokRef} {pre toks : List Bytes} (v : TokView h r pre toks) :
    Rule.TokRef.toks r h = .ok toks := by
  obtain ⟨L, hg, ht, hlo⟩ := v
  have h1 : (0 : Int) ≤ (pre.length : Int) ∧ (pre.length : Int) ≤ len (pre ++ toks) := by simp [len_eq]; omega
  simp [Rule.TokRef.toks, hg, ht, hlo, sliceFrom, h1, bind, Except.bind, pure, Except.pure]

theorem TokView.len {h : Rule.Heap} {r : Rule.TokRef} {pre toks : List Bytes} (v : TokView h r pre toks) :
    Rule.TokRef.len r h = .ok (toks.length : Int) := by
  simp [Rule.TokRef.len, v.toks_eq, bind, Except.bind, pure, Except.pure, len_eq]

theorem TokView.get {h : Rule.Heap} {r : Rule.TokRef} {pre toks : List Bytes} (v : TokView h r pre toks) {i : Nat} {t : Bytes}
    (hi : toks[i]? = some t) : Rule.TokRef.get r (i : Int) h = .ok t := by
  have h0 : ¬ ((i : Int) < 0) := by omega
  simp [Rule.TokRef.get, v.toks_eq, bind, Except.bind, idxL, h0, hi, pure, Except.pure]

/-- an index outside the view panics (Go: index out of range) -/
theorem TokView.get_none {h : Rule.Heap} {r : Rule.TokRef} {pre toks : List Bytes} (v : TokView h r pre toks) {i : Nat}
    (hi : toks[i]? = none) : Rule.TokRef.get r (i : Int) h = .error .panic := by
  have h0 : ¬ ((i : Int) < 0) := by omega
  simp [Rule.TokRef.get, v.toks_eq, bind, Except.bind, idxL, h0, hi, throw, throwThe, MonadExceptOf.throw]

theorem TokView.drop {h : Rule.Heap} {r : Rule.TokRef} {pre toks : List Bytes} (v : TokView h r pre toks) {j : Nat}
    (hj : j ≤ toks.length) :
    Rule.TokRef.drop r (j : Int) h = .ok { r with lo := r.lo + (j : Int) } ∧
      TokView h { r with lo := r.lo + (j : Int) } (pre ++ toks.take j) (toks.drop j) := by
  constructor
  · have h1 : (0 : Int) ≤ (j : Int) ∧ (j : Int) ≤ GoRt.len toks := by simp [len_eq]; omega
    simp [Rule.TokRef.drop, v.toks_eq, bind, Except.bind, sliceFrom, h1, pure, Except.pure]
  · obtain ⟨L, hg, ht, hlo⟩ := v
    refine ⟨L, hg, ?_, ?_⟩
    · rw [ht, List.append_assoc, List.take_append_drop]
    · simp [hlo, List.length_take, Nat.min_eq_left hj]

/-- `P.Token[k:]` -/
theorem TokView.make {h : Rule.Heap} {p : Int} {L : Rule.Line} (hg : heapGet h.lines p = .ok L) {k : Nat} (hk : k ≤ L.Token.length) :
    Rule.TokRef.make p (k : Int) h = .ok { owner := p, lo := (k : Int) } ∧
      TokView h { owner := p, lo := (k : Int) } (L.Token.take k) (L.Token.drop k) := by
  constructor
  · have h1 : (0 : Int) ≤ (k : Int) ∧ (k : Int) ≤ GoRt.len L.Token := by simp [len_eq]; omega
    simp [Rule.TokRef.make, hg, bind, Except.bind, sliceFrom, h1, pure, Except.pure]
  · exact ⟨L, hg, (List.take_append_drop k L.Token).symm, by simp [List.length_take, Nat.min_eq_left hk]⟩

/-- `v[i] = x`: the heap afterwards is `setToksH` with the `i`-th token of the view replaced, the view denotes the updated
    tokens -/
theorem TokView.set {h : Rule.Heap} {r : Rule.TokRef} {pre toks : List Bytes} (v : TokView h r pre toks) {i : Nat}
    (hi : i < toks.length) (x : Bytes) :
    Rule.TokRef.set r (i : Int) x h = .ok (setToksH h r.owner (pre ++ toks.set i x)) ∧
      TokView (setToksH h r.owner (pre ++ toks.set i x)) r pre (toks.set i x) := by
  obtain ⟨L, hg, ht, hlo⟩ := v
  constructor
  · have h1 : (0 : Int) ≤ (pre.length : Int) ∧ (pre.length : Int) ≤ GoRt.len (pre ++ toks) := by simp [len_eq]; omega
    have h0 : ¬ ((i : Int) < 0) := by omega
    have h2 : (0 : Int) ≤ (pre.length : Int) + (i : Int) ∧ (pre.length : Int) + (i : Int) < GoRt.len (pre ++ toks) := by
      simp [len_eq]; omega
    have h3 : ((pre.length : Int) + (i : Int)).toNat = pre.length + i := by omega
    have h4 : (pre ++ toks).set (pre.length + i) x = pre ++ toks.set i x := by
      rw [List.set_append_right _ _ (by omega)]; simp
    have hs : toks[i]? = some toks[i] := List.getElem?_eq_getElem hi
    rw [setToksH_eq hg]
    simp [Rule.TokRef.set, hg, ht, hlo, bind, Except.bind, sliceFrom, h1, idxL, h0, hs, setIdxL, h2, h3, h4,
      heapSet_of_get _ hg, pure, Except.pure]
  · exact ⟨_, heapGet_setToksH_same hg _, rfl, hlo⟩

/-- a view of ANOTHER line survives the store -/
theorem TokView.setToksH_other {h : Rule.Heap} {r : Rule.TokRef} {pre toks : List Bytes} (v : TokView h r pre toks) {p : Int}
    (ts : List Bytes) (hp : r.owner ≠ p) : TokView (setToksH h p ts) r pre toks := by
  obtain ⟨L, hg, ht, hlo⟩ := v
  exact ⟨L, by rw [heapGet_setToksH_other h ts hp]; exact hg, ht, hlo⟩

/-- a view survives every change of the heap that keeps the owner line -/
theorem TokView.congr {h h' : Rule.Heap} {r : Rule.TokRef} {pre toks : List Bytes} (v : TokView h r pre toks)
    (hl : heapGet h'.lines r.owner = heapGet h.lines r.owner) : TokView h' r pre toks := by
  obtain ⟨L, hg, ht, hlo⟩ := v
  exact ⟨L, by rw [hl]; exact hg, ht, hlo⟩

/-- the view of the arguments of a represented line: `make p k` on `lineG l` -/
theorem TokView.ofLine {h : Rule.Heap} {p : Int} {l : Modfile.Line} (hg : heapGet h.lines p = .ok (lineG l)) {k : Nat}
    (hk : k ≤ l.token.length) :
    Rule.TokRef.make p (k : Int) h = .ok { owner := p, lo := (k : Int) } ∧
      TokView h { owner := p, lo := (k : Int) } (l.token.take k) (l.token.drop k) :=
  TokView.make hg hk

/-- **a token store on a represented graph is `updateLine`** -/
theorem RepSyn.setToks {ι : Int → Nat} {h : Rule.Heap} {x : Int} {fs : Modfile.FileSyntax} (r : RepSyn ι h x fs) (hi : LineInj ι h) {p : Int}
    {l0 : Modfile.Line} (hget : heapGet h.lines p = .ok (lineG l0)) (ts : List Bytes) :
    RepSyn ι (setToksH h p ts) x (fs.updateLine (ι p) fun l => { l with token := ts }) := by
  rw [setToksH_eq hget, lineG_setToken]
  exact r.setLine hi (IdEquiv_setToken ts) hget

theorem LineInj.setToksH {ι : Int → Nat} {h : Rule.Heap} (hi : LineInj ι h) (p : Int) (ts : List Bytes) : LineInj ι (setToksH h p ts) :=
  hi.congr (by simp)

/-! ### errors -/

/-- the error strings (the format literal; wrapped errors `Outer|inner`) the regenerated code produces for each kind; for
    the fixer errors, the strings of the driver's `fixG` -/
def errStrs : Modfile.RuleErrKind → List String
  | .syn k => ["syn:" ++ Drv.Modfile.synKindName k]
  | .unknownBlock => ["unknown block type: %s"]
  | .unknownDirective => ["unknown directive: %s"]
  | .repeatedGo => ["repeated go statement"]
  | .goArgs => ["go directive expects exactly one argument"]
  | .invalidGoVersion => ["invalid go version '%s': must match format 1.23.0"]
  | .repeatedToolchain => ["repeated toolchain statement"]
  | .toolchainArgs => ["toolchain directive expects exactly one argument"]
  | .invalidToolchain => ["invalid toolchain version '%s': must match format go1.23.0 or default"]
  | .repeatedModule => ["repeated module statement"]
  | .moduleUsage => ["usage: module module/path"]
  | .invalidQuotedString => ["invalid quoted string: %v"]
  | .godebugUsage => ["usage: godebug key=value"]
  | .requireUsage => ["usage: %s module/path v1.2.3"]
  | .versionString => ["Error|InvalidVersionError|invalid syntax", "Error|InvalidVersionError|unquoted string cannot contain quote"]
  | .versionNotCanonical => ["Error|InvalidVersionError|must be of the form v1.2.3"]
  | .fixError => ["fix-plain"]
  | .fixModuleError => ["Error|fix-mod"]
  | .invalidModulePath => ["invalid module path"]
  | .pathMajorMismatch => ["InvalidVersionError|should be %s, not %s"]
  | .replaceUsage => ["usage: %s module/path [v1.2.3] => other/module v1.4\n\t or %s module/path [v1.2.3] => ../local/directory"]
  | .replaceAtVersion => ["replacement module must match format 'path version', not 'path@version'"]
  | .replaceNeedsDir => ["replacement module without version must be directory path (rooted or starting with . or ..)"]
  | .replaceWindowsPath => ["replacement directory appears to be Windows path (on a non-windows system)"]
  | .replaceDirWithVersion => ["replacement module directory path %q cannot have version"]
  | .intervalStart => ["expected '[' or version"]
  | .intervalAfterLBracket => ["expected version after '['"]
  | .intervalComma => ["expected ',' after version"]
  | .intervalAfterComma => ["expected version after ','"]
  | .intervalRBracket => ["expected ']' after version"]
  | .tokenAfterVersion => ["unexpected token after version: %q"]
  | .toolArgs => ["tool directive expects exactly one argument"]
  | .useUsage => ["usage: %s local/dir"]
  | .retractNoModule => ["no module directive found, so retract cannot be used"]

/-- **the error value `e` of the regenerated code is an error of kind `k`** (Prop-level counterpart of the driver's `kindOf`) -/
def errAbs (e : Option String) (k : Modfile.RuleErrKind) : Prop := ∃ s, e = some s ∧ s ∈ errStrs k

theorem errAbs_some {s : String} {k : Modfile.RuleErrKind} (h : s ∈ errStrs k) : errAbs (some s) k := ⟨s, rfl, h⟩

/-- an `Error` object / `ErrorList` entry is the model's error: same position, the inner error of that kind -/
def ErrRep (e : Rule.Error) (m : Modfile.RuleErr) : Prop := e.Pos = posG m.pos ∧ errAbs e.Err m.kind

/-- the in-out `errs` of `File.add` ↔ the model's error list (in order) -/
def ErrsRep : List Rule.Error → List Modfile.RuleErr → Prop
  | [], [] => True
  | e :: es, m :: ms => ErrRep e m ∧ ErrsRep es ms
  | _, _ => False

theorem ErrsRep.nil : ErrsRep [] [] := trivial

theorem ErrsRep.append : ∀ {es fs : List Rule.Error} {ms ns : List Modfile.RuleErr}, ErrsRep es ms → ErrsRep fs ns →
    ErrsRep (es ++ fs) (ms ++ ns)
  | [], _, [], _, _, r2 => r2
  | _ :: _, _, _ :: _, _, r1, r2 => ⟨r1.1, ErrsRep.append r1.2 r2⟩
  | [], _, _ :: _, _, r1, _ => r1.elim
  | _ :: _, _, [], _, r1, _ => r1.elim

theorem ErrsRep.snoc {errs : List Rule.Error} {ms : List Modfile.RuleErr} (r : ErrsRep errs ms) {e : Rule.Error} {m : Modfile.RuleErr}
    (he : ErrRep e m) : ErrsRep (errs ++ [e]) (ms ++ [m]) :=
  r.append ⟨he, trivial⟩

/-- appending to `errs` ↔ consing to the model's reversed list -/
theorem ErrsRep.snoc_rev {errs : List Rule.Error} {msRev : List Modfile.RuleErr} (r : ErrsRep errs msRev.reverse) {e : Rule.Error}
    {m : Modfile.RuleErr} (he : ErrRep e m) : ErrsRep (errs ++ [e]) (m :: msRev).reverse := by
  rw [List.reverse_cons]; exact r.snoc he

theorem ErrsRep.length : ∀ {errs : List Rule.Error} {ms : List Modfile.RuleErr}, ErrsRep errs ms → errs.length = ms.length
  | [], [], _ => rfl
  | _ :: _, _ :: _, r => by simp [ErrsRep.length r.2]
  | [], _ :: _, r => r.elim
  | _ :: _, [], r => r.elim

/-! ### typed entries -/

/-- a `Syntax` pointer: an allocated line whose id is the entry's `lineId` -/
structure TR (ι : Int → Nat) (nl : Nat) (syn : Int) (lineId : Nat) : Prop where
  id : ι syn = lineId
  pos : 0 < syn
  le : syn.toNat ≤ nl

def moduleR (ι : Int → Nat) (nl : Nat) (o : Rule.Module) (m : Modfile.Module) : Prop :=
  o.Mod = mvG m.mod ∧ o.Deprecated = m.deprecated ∧ TR ι nl o.Syntax m.lineId
def goR (ι : Int → Nat) (nl : Nat) (o : Rule.Go) (g : Modfile.Go) : Prop := o.Version = g.version ∧ TR ι nl o.Syntax g.lineId
def toolchainR (ι : Int → Nat) (nl : Nat) (o : Rule.Toolchain) (t : Modfile.Toolchain) : Prop := o.Name = t.name ∧ TR ι nl o.Syntax t.lineId
def godebugR (ι : Int → Nat) (nl : Nat) (o : Rule.Godebug) (g : Modfile.Godebug) : Prop :=
  o.Key = g.key ∧ o.Value = g.value ∧ TR ι nl o.Syntax g.lineId
def requireR (ι : Int → Nat) (nl : Nat) (o : Rule.Require) (r : Modfile.Require) : Prop :=
  o.Mod = mvG r.mod ∧ o.Indirect = r.indirect ∧ TR ι nl o.Syntax r.lineId
def excludeR (ι : Int → Nat) (nl : Nat) (o : Rule.Exclude) (x : Modfile.Exclude) : Prop := o.Mod = mvG x.mod ∧ TR ι nl o.Syntax x.lineId
def replaceR (ι : Int → Nat) (nl : Nat) (o : Rule.Replace) (r : Modfile.Replace) : Prop :=
  o.Old = mvG r.old ∧ o.New = mvG r.new ∧ TR ι nl o.Syntax r.lineId
def retractR (ι : Int → Nat) (nl : Nat) (o : Rule.Retract) (r : Modfile.Retract) : Prop :=
  o.VersionInterval.Low = r.interval.low ∧ o.VersionInterval.High = r.interval.high ∧ o.Rationale = r.rationale ∧
    TR ι nl o.Syntax r.lineId
def toolR (ι : Int → Nat) (nl : Nat) (o : Rule.Tool) (t : Modfile.Tool) : Prop := o.Path = t.path ∧ TR ι nl o.Syntax t.lineId
def useR (ι : Int → Nat) (nl : Nat) (o : Rule.Use) (u : Modfile.Use) : Prop :=
  o.Path = u.path ∧ o.ModulePath = u.modulePath ∧ TR ι nl o.Syntax u.lineId

/-- pointer list `ps` into the object list `objs` ↔ model entries `xs` under the relation `R` -/
def REntsL {α β : Type} (objs : List α) (R : α → β → Prop) : List Int → List β → Prop
  | [], [] => True
  | p :: ps, x :: xs => (∃ o, heapGet objs p = .ok o ∧ R o x) ∧ REntsL objs R ps xs
  | _, _ => False

/-- a typed list: pointwise the model's, the pointers pairwise different -/
structure REnts {α β : Type} (objs : List α) (R : α → β → Prop) (ps : List Int) (xs : List β) : Prop where
  rel : REntsL objs R ps xs
  nodup : ps.Nodup

/-- an optional typed entry (`f.Module`, `f.Go`, `f.Toolchain`): nil ↔ none -/
def ROpt {α β : Type} (objs : List α) (R : α → β → Prop) (p : Int) : Option β → Prop
  | none => p = 0
  | some x => ∃ o, heapGet objs p = .ok o ∧ R o x

theorem REntsL.mono {α β : Type} {objs objs' : List α} {R R' : α → β → Prop}
    (ho : ∀ p v, heapGet objs p = .ok v → heapGet objs' p = .ok v) (hR : ∀ o x, R o x → R' o x) :
    ∀ {ps : List Int} {xs : List β}, REntsL objs R ps xs → REntsL objs' R' ps xs
  | [], [], _ => trivial
  | _ :: _, _ :: _, r => ⟨(let ⟨o, h1, h2⟩ := r.1; ⟨o, ho _ _ h1, hR _ _ h2⟩), REntsL.mono ho hR r.2⟩
  | [], _ :: _, r => r.elim
  | _ :: _, [], r => r.elim

theorem REnts.mono {α β : Type} {objs objs' : List α} {R R' : α → β → Prop} {ps : List Int} {xs : List β}
    (ho : ∀ p v, heapGet objs p = .ok v → heapGet objs' p = .ok v) (hR : ∀ o x, R o x → R' o x) (r : REnts objs R ps xs) :
    REnts objs' R' ps xs := ⟨r.rel.mono ho hR, r.nodup⟩

theorem ROpt.mono {α β : Type} {objs objs' : List α} {R R' : α → β → Prop} {p : Int} {x : Option β}
    (ho : ∀ p v, heapGet objs p = .ok v → heapGet objs' p = .ok v) (hR : ∀ o x, R o x → R' o x) (r : ROpt objs R p x) :
    ROpt objs' R' p x := by
  cases x with
  | none => exact r
  | some x => obtain ⟨o, h1, h2⟩ := r; exact ⟨o, ho _ _ h1, hR _ _ h2⟩

theorem REntsL.length {α β : Type} {objs : List α} {R : α → β → Prop} :
    ∀ {ps : List Int} {xs : List β}, REntsL objs R ps xs → ps.length = xs.length
  | [], [], _ => rfl
  | _ :: _, _ :: _, r => by simp [REntsL.length r.2]
  | [], _ :: _, r => r.elim
  | _ :: _, [], r => r.elim

theorem REntsL.get {α β : Type} {objs : List α} {R : α → β → Prop} :
    ∀ {ps : List Int} {xs : List β}, REntsL objs R ps xs →
    ∀ (i : Nat) (p : Int) (x : β), ps[i]? = some p → xs[i]? = some x → ∃ o, heapGet objs p = .ok o ∧ R o x
  | _ :: _, _ :: _, r, 0, p, x, hp, hx => by
    simp only [List.getElem?_cons_zero, Option.some.injEq] at hp hx; subst hp hx; exact r.1
  | _ :: _, _ :: _, r, i + 1, p, x, hp, hx => by
    simp only [List.getElem?_cons_succ] at hp hx; exact REntsL.get r.2 i p x hp hx
  | [], [], _, _, _, _, hp, _ => by simp at hp
  | [], _ :: _, r, _, _, _, _, _ => r.elim
  | _ :: _, [], r, _, _, _, _, _ => r.elim

theorem REntsL.append {α β : Type} {objs : List α} {R : α → β → Prop} :
    ∀ {ps qs : List Int} {xs ys : List β}, REntsL objs R ps xs → REntsL objs R qs ys → REntsL objs R (ps ++ qs) (xs ++ ys)
  | [], _, [], _, _, r2 => r2
  | _ :: _, _, _ :: _, _, r1, r2 => ⟨r1.1, REntsL.append r1.2 r2⟩
  | [], _, _ :: _, _, r1, _ => r1.elim
  | _ :: _, _, [], _, r1, _ => r1.elim

/-- every pointer of a represented typed list is allocated -/
theorem REntsL.mem_alloc {α β : Type} {objs : List α} {R : α → β → Prop} :
    ∀ {ps : List Int} {xs : List β}, REntsL objs R ps xs → ∀ p ∈ ps, 0 < p ∧ p.toNat ≤ objs.length
  | [], [], _, p, hp => by cases hp
  | _ :: _, _ :: _, r, p, hp => by
    rcases List.mem_cons.1 hp with rfl | hp'
    · obtain ⟨o, h1, _⟩ := r.1; exact ⟨heapGet_pos h1, heapGet_le_length h1⟩
    · exact REntsL.mem_alloc r.2 p hp'
  | [], _ :: _, r, _, _ => r.elim
  | _ :: _, [], r, _, _ => r.elim

/-- **`append(f.X, &X{…})`**: a freshly allocated object appended to a typed list -/
theorem REnts.snocAlloc {α β : Type} {objs : List α} {R : α → β → Prop} {ps : List Int} {xs : List β} (r : REnts objs R ps xs)
    (o : α) (x : β) (hR : R o x) :
    REnts (objs ++ [o]) R (ps ++ [((objs.length + 1 : Nat) : Int)]) (xs ++ [x]) := by
  refine ⟨REntsL.append (r.rel.mono (fun _ _ hg => heapGet_alloc_old o hg) (fun _ _ a => a)) ⟨⟨o, heapGet_alloc_new objs o, hR⟩, trivial⟩, ?_⟩
  rw [List.nodup_append]
  refine ⟨r.nodup, by simp, ?_⟩
  intro a ha b hb
  simp only [List.mem_singleton] at hb
  subst hb
  have := (r.rel.mem_alloc a ha).2
  omega

/-- `heapSet` at a pointer that is not in the list -/
theorem REntsL.setOther {α β : Type} {objs : List α} {R : α → β → Prop} {p : Int} {w : α}
    (hw : heapGet objs p = .ok w) (v : α) :
    ∀ {ps : List Int} {xs : List β}, REntsL objs R ps xs → p ∉ ps → REntsL (objs.set (p.toNat - 1) v) R ps xs
  | [], [], _, _ => trivial
  | q :: ps, _ :: _, r, hn => by
    have hne : q ≠ p := fun e => hn (by rw [e]; exact List.mem_cons_self)
    obtain ⟨o, h1, h2⟩ := r.1
    refine ⟨⟨o, ?_, h2⟩, REntsL.setOther hw v r.2 (fun hm => hn (List.mem_cons_of_mem _ hm))⟩
    rw [heapGet_listSet_other _ hw hne]; exact h1
  | [], _ :: _, r, _ => r.elim
  | _ :: _, [], r, _ => r.elim

/-- the object at position `i` of the list is overwritten by an object related to `y` -/
theorem REntsL.setAt {α β : Type} {objs : List α} {R : α → β → Prop} :
    ∀ {ps : List Int} {xs : List β}, REntsL objs R ps xs → ps.Nodup →
    ∀ (i : Nat) (p : Int) (v : α) (y : β), ps[i]? = some p → R v y →
      REntsL (objs.set (p.toNat - 1) v) R ps (xs.set i y)
  | [], [], _, _, _, _, _, _, hp, _ => by simp at hp
  | q :: ps, x :: xs, r, hn, 0, p, v, y, hp, hy => by
    simp only [List.getElem?_cons_zero, Option.some.injEq] at hp; subst hp
    simp only [List.nodup_cons] at hn
    obtain ⟨o, h1, _⟩ := r.1
    exact ⟨⟨v, heapGet_listSet_same _ h1, hy⟩, r.2.setOther h1 _ hn.1⟩
  | q :: ps, x :: xs, r, hn, i + 1, p, v, y, hp, hy => by
    simp only [List.getElem?_cons_succ] at hp
    simp only [List.nodup_cons] at hn
    have hne : q ≠ p := by
      intro e; subst e; exact hn.1 (List.mem_of_getElem? hp)
    obtain ⟨hpos, hlen⟩ := REntsL.mem_alloc r.2 p (List.mem_of_getElem? hp)
    obtain ⟨o, h1, h2⟩ := r.1
    refine ⟨⟨o, ?_, h2⟩, REntsL.setAt r.2 hn.2 i p v y hp hy⟩
    have : ∃ w, heapGet objs p = .ok w := by
      have hlt : p.toNat - 1 < objs.length := by omega
      exact ⟨objs[p.toNat - 1], heapGet_ok_iff.2 ⟨hpos, List.getElem?_eq_getElem hlt⟩⟩
    obtain ⟨w, hw⟩ := this
    rw [heapGet_listSet_other _ hw hne]; exact h1
  | [], _ :: _, r, _, _, _, _, _, _, _ => r.elim
  | _ :: _, [], r, _, _, _, _, _, _, _ => r.elim

/-! ### the typed file -/

/-- the `File` object `o` with the heap `h` represents the typed part of the model file `f` -/
structure RepTyped (ι : Int → Nat) (h : Rule.Heap) (o : Rule.File) (f : Modfile.File) : Prop where
  module : ROpt h.modules (moduleR ι h.lines.length) o.Module f.module
  go : ROpt h.gos (goR ι h.lines.length) o.Go f.go
  toolchain : ROpt h.toolchains (toolchainR ι h.lines.length) o.Toolchain f.toolchain
  godebug : REnts h.godebugs (godebugR ι h.lines.length) o.Godebug f.godebug
  require : REnts h.requires (requireR ι h.lines.length) o.Require f.require
  exclude : REnts h.excludes (excludeR ι h.lines.length) o.Exclude f.exclude
  replace : REnts h.replaces (replaceR ι h.lines.length) o.Replace f.replace
  retract : REnts h.retracts (retractR ι h.lines.length) o.Retract f.retract
  tool : REnts h.tools (toolR ι h.lines.length) o.Tool f.tool

/-- the `WorkFile` object `o` with the heap `h` represents the typed part of the model work file `f` -/
structure RepTypedW (ι : Int → Nat) (h : Rule.Heap) (o : Rule.WorkFile) (f : Modfile.WorkFile) : Prop where
  go : ROpt h.gos (goR ι h.lines.length) o.Go f.go
  toolchain : ROpt h.toolchains (toolchainR ι h.lines.length) o.Toolchain f.toolchain
  godebug : REnts h.godebugs (godebugR ι h.lines.length) o.Godebug f.godebug
  use : REnts h.uses (useR ι h.lines.length) o.Use f.use
  replace : REnts h.replaces (replaceR ι h.lines.length) o.Replace f.replace

/-- the typed part only reads the typed object lists and the NUMBER of lines: it survives every token store -/
theorem RepTyped.setToksH {ι : Int → Nat} {h : Rule.Heap} {o : Rule.File} {f : Modfile.File} (r : RepTyped ι h o f) (p : Int) (ts : List Bytes) :
    RepTyped ι (setToksH h p ts) o f where
  module := by simpa using r.module
  go := by simpa using r.go
  toolchain := by simpa using r.toolchain
  godebug := by simpa using r.godebug
  require := by simpa using r.require
  exclude := by simpa using r.exclude
  replace := by simpa using r.replace
  retract := by simpa using r.retract
  tool := by simpa using r.tool

theorem RepTypedW.setToksH {ι : Int → Nat} {h : Rule.Heap} {o : Rule.WorkFile} {f : Modfile.WorkFile} (r : RepTypedW ι h o f) (p : Int)
    (ts : List Bytes) : RepTypedW ι (setToksH h p ts) o f where
  go := by simpa using r.go
  toolchain := by simpa using r.toolchain
  godebug := by simpa using r.godebug
  use := by simpa using r.use
  replace := by simpa using r.replace

/-- **heap `h` at the `*File` pointer `fp`, with the in-out error list `errs`, represents the model state `st`, the syntax
    graph representing the tree `syn`** (during `parseToFile`'s loop the model keeps the ORIGINAL tree in `st.file.syn`
    and returns the rewritten statements separately; the heap is rewritten in place: hence the separate `syn`) -/
structure RepRS (ι : Int → Nat) (h : Rule.Heap) (fp : Int) (errs : List Rule.Error) (st : Modfile.AddState)
    (syn : Modfile.FileSyntax) : Prop where
  obj : ∃ o, heapGet h.mods fp = .ok o ∧ RepTyped ι h o st.file ∧ RepSyn ι h o.Syntax syn
  inj : LineInj ι h
  errs : ErrsRep errs st.errsRev.reverse

/-- **`RepR`: the heap at `fp` (with `errs`) represents the model state `st`, syntax tree included** -/
def RepR (ι : Int → Nat) (h : Rule.Heap) (fp : Int) (errs : List Rule.Error) (st : Modfile.AddState) : Prop :=
  RepRS ι h fp errs st st.file.syn

/-- go.work -/
structure RepWS (ι : Int → Nat) (h : Rule.Heap) (fp : Int) (errs : List Rule.Error) (st : Modfile.WorkState)
    (syn : Modfile.FileSyntax) : Prop where
  obj : ∃ o, heapGet h.works fp = .ok o ∧ RepTypedW ι h o st.file ∧ RepSyn ι h o.Syntax syn
  inj : LineInj ι h
  errs : ErrsRep errs st.errsRev.reverse

def RepW (ι : Int → Nat) (h : Rule.Heap) (fp : Int) (errs : List Rule.Error) (st : Modfile.WorkState) : Prop :=
  RepWS ι h fp errs st st.file.syn

/-- a token store on a represented state: the tree is updated at the line `ι p`, everything else is kept -/
theorem RepRS.setToks {ι : Int → Nat} {h : Rule.Heap} {fp : Int} {errs : List Rule.Error} {st : Modfile.AddState} {syn : Modfile.FileSyntax}
    (r : RepRS ι h fp errs st syn) {p : Int} {l0 : Modfile.Line} (hget : heapGet h.lines p = .ok (lineG l0)) (ts : List Bytes) :
    RepRS ι (setToksH h p ts) fp errs st (syn.updateLine (ι p) fun l => { l with token := ts }) := by
  obtain ⟨o, ho, rt, rs⟩ := r.obj
  exact ⟨⟨o, by simpa using ho, rt.setToksH p ts, rs.setToks r.inj hget ts⟩, r.inj.setToksH p ts, r.errs⟩

theorem RepWS.setToks {ι : Int → Nat} {h : Rule.Heap} {fp : Int} {errs : List Rule.Error} {st : Modfile.WorkState} {syn : Modfile.FileSyntax}
    (r : RepWS ι h fp errs st syn) {p : Int} {l0 : Modfile.Line} (hget : heapGet h.lines p = .ok (lineG l0)) (ts : List Bytes) :
    RepWS ι (setToksH h p ts) fp errs st (syn.updateLine (ι p) fun l => { l with token := ts }) := by
  obtain ⟨o, ho, rt, rs⟩ := r.obj
  exact ⟨⟨o, by simpa using ho, rt.setToksH p ts, rs.setToks r.inj hget ts⟩, r.inj.setToksH p ts, r.errs⟩


/-! ## additions (v2): token views at integer indices -/

theorem TokView.getI {h : Rule.Heap} {r : Rule.TokRef} {pre toks : List Bytes} (v : TokView h r pre toks) (i : Int) (h0 : 0 ≤ i) {t : Bytes}
    (hi : toks[i.toNat]? = some t) : Rule.TokRef.get r i h = .ok t := by
  have := v.get hi
  rwa [Int.toNat_of_nonneg h0] at this

theorem TokView.getI_none {h : Rule.Heap} {r : Rule.TokRef} {pre toks : List Bytes} (v : TokView h r pre toks) (i : Int) (h0 : 0 ≤ i)
    (hi : toks[i.toNat]? = none) : Rule.TokRef.get r i h = .error .panic := by
  have := v.get_none hi
  rwa [Int.toNat_of_nonneg h0] at this

theorem TokView.dropI {h : Rule.Heap} {r : Rule.TokRef} {pre toks : List Bytes} (v : TokView h r pre toks) (j : Int) (h0 : 0 ≤ j)
    (hj : j.toNat ≤ toks.length) :
    Rule.TokRef.drop r j h = .ok { r with lo := r.lo + j } ∧
      TokView h { r with lo := r.lo + j } (pre ++ toks.take j.toNat) (toks.drop j.toNat) := by
  have := v.drop hj
  rwa [Int.toNat_of_nonneg h0] at this

theorem TokView.setI {h : Rule.Heap} {r : Rule.TokRef} {pre toks : List Bytes} (v : TokView h r pre toks) (i : Int) (h0 : 0 ≤ i)
    (hi : i.toNat < toks.length) (x : Bytes) :
    Rule.TokRef.set r i x h = .ok (setToksH h r.owner (pre ++ toks.set i.toNat x)) ∧
      TokView (setToksH h r.owner (pre ++ toks.set i.toNat x)) r pre (toks.set i.toNat x) := by
  have := v.set hi x
  rwa [Int.toNat_of_nonneg h0] at this

/-- the heap of a view is `setToksH` of itself with the tokens it denotes -/
theorem TokView.setToksH_self {h : Rule.Heap} {r : Rule.TokRef} {pre toks : List Bytes} (v : TokView h r pre toks) :
    setToksH h r.owner (pre ++ toks) = h := by
  obtain ⟨L, hg, ht, _⟩ := v
  rw [← ht]; exact FnRuleRep.setToksH_self hg

/-- a second store through a view of the same line -/
theorem TokView.setToksH_twice {h : Rule.Heap} {r : Rule.TokRef} {pre toks : List Bytes} (v : TokView h r pre toks) (ts ts' : List Bytes) :
    setToksH (setToksH h r.owner ts) r.owner ts' = setToksH h r.owner ts' := by
  obtain ⟨L, hg, _, _⟩ := v
  exact setToksH_setToksH hg ts ts'

/-- after a store of the whole token list, a view of the same line with any split of the new tokens -/
theorem TokView.afterStore {h : Rule.Heap} {r : Rule.TokRef} {pre toks : List Bytes} (v : TokView h r pre toks) (pre' toks' : List Bytes)
    (lo' : Int) (hlo : lo' = (pre'.length : Int)) :
    TokView (setToksH h r.owner (pre' ++ toks')) { r with lo := lo' } pre' toks' := by
  obtain ⟨L, hg, _, _⟩ := v
  exact ⟨_, heapGet_setToksH_same hg _, rfl, hlo⟩

theorem TokView.owner_get {h : Rule.Heap} {r : Rule.TokRef} {pre toks : List Bytes} (v : TokView h r pre toks) :
    ∃ L, heapGet h.lines r.owner = .ok L ∧ L.Token = pre ++ toks := by
  obtain ⟨L, hg, ht, _⟩ := v; exact ⟨L, hg, ht⟩


/-! ## additions (v3): `errAbs` is functional -/

def allSyn : List Modfile.SynErrKind := [.blockComment, .eofInString, .newlineInString, .badChar, .unterminatedBlock, .afterRParen,
  .internal .readRuneAtEOF, .internal .parseLineAtEOL, .internal .fuel]

def allKinds : List Modfile.RuleErrKind := allSyn.map .syn ++ [.unknownBlock, .unknownDirective, .repeatedGo, .goArgs, .invalidGoVersion,
  .repeatedToolchain, .toolchainArgs, .invalidToolchain, .repeatedModule, .moduleUsage, .invalidQuotedString, .godebugUsage,
  .requireUsage, .versionString, .versionNotCanonical, .fixError, .fixModuleError, .invalidModulePath, .pathMajorMismatch,
  .replaceUsage, .replaceAtVersion, .replaceNeedsDir, .replaceWindowsPath, .replaceDirWithVersion, .intervalStart,
  .intervalAfterLBracket, .intervalComma, .intervalAfterComma, .intervalRBracket, .tokenAfterVersion, .toolArgs, .useUsage,
  .retractNoModule]

theorem mem_allKinds (k : Modfile.RuleErrKind) : k ∈ allKinds := by
  cases k with
  | syn s => cases s with
    | internal t => cases t <;> decide
    | _ => decide
  | _ => decide

/-- no error string belongs to two kinds -/
theorem errStrs_disjoint : ∀ k ∈ allKinds, ∀ k' ∈ allKinds, ∀ s ∈ errStrs k, s ∈ errStrs k' → k = k' := by decide +kernel

/-- **`errAbs` is functional: an error value has at most one kind** -/
theorem errAbs_unique {e : Option String} {k k' : Modfile.RuleErrKind} (h : errAbs e k) (h' : errAbs e k') : k = k' := by
  obtain ⟨s, rfl, hs⟩ := h
  obtain ⟨s', he, hs'⟩ := h'
  cases he
  exact errStrs_disjoint k (mem_allKinds k) k' (mem_allKinds k') s hs hs'

/-- an error value of some kind is not nil -/
theorem errAbs.isSome {e : Option String} {k : Modfile.RuleErrKind} (h : errAbs e k) : e.isNone = false := by
  obtain ⟨s, rfl, _⟩ := h; rfl

end ModVerif.Tie.FnRuleRep
