/-
  Helper lemmas for Tie/FnEditStmt.lean (agent edit-stmt): the scalar-statement operations of the regenerated go.mod edit
  operations (Generated/FnEdit.lean): File_AddModuleStmt, File_AddGoStmt, File_DropGoStmt, File_AddToolchainStmt,
  File_DropToolchainStmt against Model/Modfile/Edit.lean.

  * file-level frame lemmas for `RepFAt` (Proofs/TieFnEditRep.lean): `RepFAt.frame` (the heap grows / the syntax graph
    changes, the typed lists keep their objects), `RepFAt.replaceGo/Toolchain/Module/Godebug/Tool` (one typed component of
    the heap and of the `File` object is replaced), `RepFAt.setMods`, `RepF.ofSetMods`;
  * `AddLineSpec`: what the operations need of `FileSyntax_addLine` (the statement of edit-tree's `addLine_tie`).
-/
import ModVerif.Proofs.TieFnEditRep
import ModVerif.Proofs.TieFnEditTreeA
import ModVerif.Proofs.TieFnEditAddLineC
import ModVerif.Tie.FnModfile
set_option linter.unusedSimpArgs false
set_option linter.unusedVariables false
namespace ModVerif.Tie.FnEditStmtA
open ModVerif ModVerif.GoRt ModVerif.Generated.Edit ModVerif.Tie.FnEditRep ModVerif.Tie.FnEditTreeA
open ModVerif.TieFnEditAddLine (Frame nodeCount)

/-! ### frame lemmas for `RepFAt` -/

/-- the syntax graph changed to `fs'` (or not at all), lines were allocated, every typed list kept its objects -/
theorem RepFAt_frame {h h' : Heap} {o : File} {e : Modfile.Edit.EFile} (R : RepFAt h o e) {fs' : Modfile.FileSyntax} {n' : Nat}
    (hsyn : RepSyn h' o.Syntax fs') (htok : BlockTokOK fs'.stmts) (hG : LinesG h') (hnext : n' = h'.lines.length + 1)
    (hle : h.lines.length ≤ h'.lines.length)
    (hmodules : ∀ p v, heapGet h.modules p = .ok v → heapGet h'.modules p = .ok v)
    (hgos : ∀ p v, heapGet h.gos p = .ok v → heapGet h'.gos p = .ok v)
    (htoolchains : ∀ p v, heapGet h.toolchains p = .ok v → heapGet h'.toolchains p = .ok v)
    (hgodebugs : ∀ p v, heapGet h.godebugs p = .ok v → heapGet h'.godebugs p = .ok v)
    (hrequires : ∀ p v, heapGet h.requires p = .ok v → heapGet h'.requires p = .ok v)
    (hexcludes : ∀ p v, heapGet h.excludes p = .ok v → heapGet h'.excludes p = .ok v)
    (hreplaces : ∀ p v, heapGet h.replaces p = .ok v → heapGet h'.replaces p = .ok v)
    (hretracts : ∀ p v, heapGet h.retracts p = .ok v → heapGet h'.retracts p = .ok v)
    (htools : ∀ p v, heapGet h.tools p = .ok v → heapGet h'.tools p = .ok v) :
    RepFAt h' o { f := { e.f with syn := fs' }, next := n' } where
  syn := hsyn
  tok := htok
  linesG := hG
  next := hnext
  module := R.module.mono hmodules hle
  go := R.go.mono hgos hle
  toolchain := R.toolchain.mono htoolchains hle
  godebug := R.godebug.mono hgodebugs hle
  require := R.require.mono hrequires hle
  exclude := R.exclude.mono hexcludes hle
  replace := R.replace.mono hreplaces hle
  retract := R.retract.mono hretracts hle
  tool := R.tool.mono htools hle

/-- after `FileSyntax_addLine`: one more line, the typed lists untouched (`Frame`) -/
theorem RepFAt_afterAddLine {h h' : Heap} {o : File} {e : Modfile.Edit.EFile} (R : RepFAt h o e) {fs' : Modfile.FileSyntax}
    (F : Frame h h') (hsyn : RepSyn h' o.Syntax fs') (htok : BlockTokOK fs'.stmts) (hG : LinesG h')
    (hlen : h'.lines.length = h.lines.length + 1) :
    RepFAt h' o { f := { e.f with syn := fs' }, next := e.next + 1 } :=
  RepFAt_frame R hsyn htok hG (by rw [R.next, hlen]) (by omega)
    (by rw [F.modules]; exact fun _ _ x => x) (by rw [F.gos]; exact fun _ _ x => x)
    (by rw [F.toolchains]; exact fun _ _ x => x) (by rw [F.godebugs]; exact fun _ _ x => x)
    (by rw [F.requires]; exact fun _ _ x => x) (by rw [F.excludes]; exact fun _ _ x => x)
    (by rw [F.replaces]; exact fun _ _ x => x) (by rw [F.retracts]; exact fun _ _ x => x)
    (by rw [F.tools]; exact fun _ _ x => x)

/-- `RepFAt` does not look at `mods` -/
theorem RepFAt_setMods {h : Heap} {o : File} {e : Modfile.Edit.EFile} (R : RepFAt h o e) (m : List File) :
    RepFAt { h with mods := m } o e where
  syn := RepSyn.congr (h := h) (h' := { h with mods := m }) rfl rfl rfl rfl R.syn
  tok := R.tok
  linesG := LinesG.congr (h := h) (h' := { h with mods := m }) R.linesG rfl
  next := R.next
  module := R.module
  go := R.go
  toolchain := R.toolchain
  godebug := R.godebug
  require := R.require
  exclude := R.exclude
  replace := R.replace
  retract := R.retract
  tool := R.tool

/-- the `File` object at `fp` is overwritten by `o'` -/
theorem RepF_ofSetMods {h : Heap} {fp : Int} {o o' : File} {e' : Modfile.Edit.EFile} (ho : heapGet h.mods fp = .ok o)
    (R : RepFAt h o' e') : RepF { h with mods := h.mods.set (fp.toNat - 1) o' } fp e' :=
  ⟨o', heapGet_listSet_same _ ho, RepFAt_setMods R _⟩

/-- the `Go` component is replaced -/
theorem RepFAt_replaceGo {h : Heap} {o : File} {e : Modfile.Edit.EFile} (R : RepFAt h o e) (gos' : List Go) (p : Int)
    (g : Option Modfile.Go) (hg : ROpt gos' goG (·.lineId) h.lines.length p g) :
    RepFAt { h with gos := gos' } { o with Go := p } { e with f := { e.f with go := g } } where
  syn := RepSyn.congr (h := h) (h' := { h with gos := gos' }) rfl rfl rfl rfl R.syn
  tok := R.tok
  linesG := LinesG.congr (h := h) (h' := { h with gos := gos' }) R.linesG rfl
  next := R.next
  module := R.module
  go := hg
  toolchain := R.toolchain
  godebug := R.godebug
  require := R.require
  exclude := R.exclude
  replace := R.replace
  retract := R.retract
  tool := R.tool

/-- the `Toolchain` component is replaced -/
theorem RepFAt_replaceToolchain {h : Heap} {o : File} {e : Modfile.Edit.EFile} (R : RepFAt h o e) (tcs' : List Toolchain)
    (p : Int) (t : Option Modfile.Toolchain) (ht : ROpt tcs' toolchainG (·.lineId) h.lines.length p t) :
    RepFAt { h with toolchains := tcs' } { o with Toolchain := p } { e with f := { e.f with toolchain := t } } where
  syn := RepSyn.congr (h := h) (h' := { h with toolchains := tcs' }) rfl rfl rfl rfl R.syn
  tok := R.tok
  linesG := LinesG.congr (h := h) (h' := { h with toolchains := tcs' }) R.linesG rfl
  next := R.next
  module := R.module
  go := R.go
  toolchain := ht
  godebug := R.godebug
  require := R.require
  exclude := R.exclude
  replace := R.replace
  retract := R.retract
  tool := R.tool

/-- the `Module` component is replaced -/
theorem RepFAt_replaceModule {h : Heap} {o : File} {e : Modfile.Edit.EFile} (R : RepFAt h o e) (ms' : List Module)
    (p : Int) (m : Option Modfile.Module) (hm : ROpt ms' moduleG (·.lineId) h.lines.length p m) :
    RepFAt { h with modules := ms' } { o with Module := p } { e with f := { e.f with module := m } } where
  syn := RepSyn.congr (h := h) (h' := { h with modules := ms' }) rfl rfl rfl rfl R.syn
  tok := R.tok
  linesG := LinesG.congr (h := h) (h' := { h with modules := ms' }) R.linesG rfl
  next := R.next
  module := hm
  go := R.go
  toolchain := R.toolchain
  godebug := R.godebug
  require := R.require
  exclude := R.exclude
  replace := R.replace
  retract := R.retract
  tool := R.tool

/-- the `Godebug` component is replaced -/
theorem RepFAt_replaceGodebug {h : Heap} {o : File} {e : Modfile.Edit.EFile} (R : RepFAt h o e) (gds' : List Godebug)
    (ps : List Int) (xs : List Modfile.Godebug) (hx : REnts gds' godebugG (·.lineId) h.lines.length ps xs) :
    RepFAt { h with godebugs := gds' } { o with Godebug := ps } { e with f := { e.f with godebug := xs } } where
  syn := RepSyn.congr (h := h) (h' := { h with godebugs := gds' }) rfl rfl rfl rfl R.syn
  tok := R.tok
  linesG := LinesG.congr (h := h) (h' := { h with godebugs := gds' }) R.linesG rfl
  next := R.next
  module := R.module
  go := R.go
  toolchain := R.toolchain
  godebug := hx
  require := R.require
  exclude := R.exclude
  replace := R.replace
  retract := R.retract
  tool := R.tool

/-- the `Tool` component is replaced -/
theorem RepFAt_replaceTool {h : Heap} {o : File} {e : Modfile.Edit.EFile} (R : RepFAt h o e) (tls' : List Tool)
    (ps : List Int) (xs : List Modfile.Tool) (hx : REnts tls' toolG (·.lineId) h.lines.length ps xs) :
    RepFAt { h with tools := tls' } { o with Tool := ps } { e with f := { e.f with tool := xs } } where
  syn := RepSyn.congr (h := h) (h' := { h with tools := tls' }) rfl rfl rfl rfl R.syn
  tok := R.tok
  linesG := LinesG.congr (h := h) (h' := { h with tools := tls' }) R.linesG rfl
  next := R.next
  module := R.module
  go := R.go
  toolchain := R.toolchain
  godebug := R.godebug
  require := R.require
  exclude := R.exclude
  replace := R.replace
  retract := R.retract
  tool := hx

/-! ### what the operations need of `FileSyntax_addLine` -/

/-- the hint of `addLine`: Go's nil interface / a `*Line` -/
def hintE : Option Nat → Expr
  | none => Expr.nil
  | some id => Expr.Line (id : Int)

/-- the simulation statement of `FileSyntax_addLine` against `Modfile.Edit.addLine` (edit-tree's `addLine_tie`) -/
def AddLineSpec : Prop :=
  ∀ (h : Heap) (x : Int) (fs : Modfile.FileSyntax) (hint : Option Nat) (t0 : Bytes) (trest : List Bytes) (fuel : Nat),
    RepSyn h x fs → BlockTokOK fs.stmts → nodeCount fs.stmts + 3 ≤ fuel →
    ∃ h', FileSyntax_addLine fuel x (hintE hint) (t0 :: trest) h = .ok (((h.lines.length + 1 : Nat) : Int), h') ∧
      RepSyn h' x (Modfile.Edit.addLine fs hint (t0 :: trest) (h.lines.length + 1)) ∧
      BlockTokOK (Modfile.Edit.addLine fs hint (t0 :: trest) (h.lines.length + 1)).stmts ∧
      (LinesG h → LinesG h') ∧ h'.lines.length = h.lines.length + 1 ∧ Frame h h'

/-! ### File.DropGoStmt / File.DropToolchainStmt -/

theorem ROpt_none {α β : Type} {objs : List α} {g : β → α} {id : β → Nat} {nl : Nat} : ROpt objs g id nl 0 none := rfl

theorem File_DropGoStmt_none {h : Heap} {fp : Int} {e : Modfile.Edit.EFile} (R : RepF h fp e) (hn : e.f.go = none) :
    File_DropGoStmt fp h = .ok ((), h) := by
  obtain ⟨o, ho, R⟩ := R
  have hgo := R.go
  rw [hn] at hgo
  have hgo : o.Go = 0 := hgo
  simp [File_DropGoStmt, ho, hgo, bind, Except.bind, pure, Except.pure]

theorem File_DropGoStmt_some {h : Heap} {fp : Int} {e : Modfile.Edit.EFile} (R : RepF h fp e) {g : Modfile.Go}
    (hs : e.f.go = some g) (h0 : g.lineId ≠ 0) :
    ∃ h', File_DropGoStmt fp h = .ok ((), h') ∧ RepF h' fp (Modfile.Edit.dropGoStmt e) := by
  obtain ⟨o, ho, R⟩ := R
  have hgo := R.go
  rw [hs] at hgo
  obtain ⟨hgo1, hgo2⟩ : heapGet h.gos o.Go = .ok (goG g) ∧ g.lineId ≤ h.lines.length := hgo
  have hpos : ¬ (o.Go = 0) := by have := heapGet_pos hgo1; omega
  obtain ⟨l, hl, hid⟩ := R.linesG.ofId h0 hgo2
  refine ⟨{ setLineH h (g.lineId : Int) (markRemovedLine l) with mods := h.mods.set (fp.toNat - 1) { o with Go := 0 } }, ?_, ?_⟩
  · simp only [File_DropGoStmt, ho, hgo1, hpos, bind, Except.bind, pure, Except.pure, decide_false, Bool.not_false, if_true,
      goG_Syntax, Line_markRemoved_eq hl, setLineH_mods, heapSet_of_get _ ho]
  · have R1 := RepFAt_replaceGo (R.setLine IdEquiv_markRemoved hl) h.gos 0 none rfl
    have := RepF_ofSetMods (fp := fp) (h := { setLineH h (g.lineId : Int) (markRemovedLine l) with gos := h.gos }) ho R1
    simp only [Modfile.Edit.dropGoStmt, hs]
    exact this

theorem File_DropGoStmt_nil {h : Heap} {fp : Int} {e : Modfile.Edit.EFile} (R : RepF h fp e) {g : Modfile.Go}
    (hs : e.f.go = some g) (h0 : g.lineId = 0) : File_DropGoStmt fp h = .error .panic := by
  obtain ⟨o, ho, R⟩ := R
  have hgo := R.go
  rw [hs] at hgo
  obtain ⟨hgo1, hgo2⟩ : heapGet h.gos o.Go = .ok (goG g) ∧ g.lineId ≤ h.lines.length := hgo
  have hpos : ¬ (o.Go = 0) := by have := heapGet_pos hgo1; omega
  simp only [File_DropGoStmt, ho, hgo1, hpos, bind, Except.bind, pure, Except.pure, decide_false, Bool.not_false, if_true,
    goG_Syntax, h0]
  rw [Line_markRemoved_nil (by simp)]


theorem File_DropToolchainStmt_none {h : Heap} {fp : Int} {e : Modfile.Edit.EFile} (R : RepF h fp e) (hn : e.f.toolchain = none) :
    File_DropToolchainStmt fp h = .ok ((), h) := by
  obtain ⟨o, ho, R⟩ := R
  have htc := R.toolchain
  rw [hn] at htc
  have htc : o.Toolchain = 0 := htc
  simp [File_DropToolchainStmt, ho, htc, bind, Except.bind, pure, Except.pure]

theorem File_DropToolchainStmt_some {h : Heap} {fp : Int} {e : Modfile.Edit.EFile} (R : RepF h fp e) {g : Modfile.Toolchain}
    (hs : e.f.toolchain = some g) (h0 : g.lineId ≠ 0) :
    ∃ h', File_DropToolchainStmt fp h = .ok ((), h') ∧ RepF h' fp (Modfile.Edit.dropToolchainStmt e) := by
  obtain ⟨o, ho, R⟩ := R
  have htc := R.toolchain
  rw [hs] at htc
  obtain ⟨htc1, htc2⟩ : heapGet h.toolchains o.Toolchain = .ok (toolchainG g) ∧ g.lineId ≤ h.lines.length := htc
  have hpos : ¬ (o.Toolchain = 0) := by have := heapGet_pos htc1; omega
  obtain ⟨l, hl, hid⟩ := R.linesG.ofId h0 htc2
  refine ⟨{ setLineH h (g.lineId : Int) (markRemovedLine l) with mods := h.mods.set (fp.toNat - 1) { o with Toolchain := 0 } }, ?_, ?_⟩
  · simp only [File_DropToolchainStmt, ho, htc1, hpos, bind, Except.bind, pure, Except.pure, decide_false, Bool.not_false, if_true,
      toolchainG_Syntax, Line_markRemoved_eq hl, setLineH_mods, heapSet_of_get _ ho]
  · have R1 := RepFAt_replaceToolchain (R.setLine IdEquiv_markRemoved hl) h.toolchains 0 none rfl
    have := RepF_ofSetMods (fp := fp) (h := { setLineH h (g.lineId : Int) (markRemovedLine l) with toolchains := h.toolchains }) ho R1
    simp only [Modfile.Edit.dropToolchainStmt, hs]
    exact this

theorem File_DropToolchainStmt_nil {h : Heap} {fp : Int} {e : Modfile.Edit.EFile} (R : RepF h fp e) {g : Modfile.Toolchain}
    (hs : e.f.toolchain = some g) (h0 : g.lineId = 0) : File_DropToolchainStmt fp h = .error .panic := by
  obtain ⟨o, ho, R⟩ := R
  have htc := R.toolchain
  rw [hs] at htc
  obtain ⟨htc1, htc2⟩ : heapGet h.toolchains o.Toolchain = .ok (toolchainG g) ∧ g.lineId ≤ h.lines.length := htc
  have hpos : ¬ (o.Toolchain = 0) := by have := heapGet_pos htc1; omega
  simp only [File_DropToolchainStmt, ho, htc1, hpos, bind, Except.bind, pure, Except.pure, decide_false, Bool.not_false, if_true,
    toolchainG_Syntax, h0]
  rw [Line_markRemoved_nil (by simp)]


/-! ### File.AddGoStmt -/

theorem B_go : B "go" = [103, 111] := by decide +kernel
theorem B_toolchain : B "toolchain" = [116, 111, 111, 108, 99, 104, 97, 105, 110] := by decide +kernel
theorem B_module : B "module" = [109, 111, 100, 117, 108, 101] := by decide +kernel

theorem File_AddGoStmt_invalid (fuel : Nat) (fp : Int) (version : Bytes) (h : Heap) (hv : Modfile.goVersionRE version = false) :
    File_AddGoStmt Modfile.goVersionRE fuel fp version h = .ok (some "invalid language version %q", h) := by
  simp [File_AddGoStmt, hv, pure, Except.pure]

/-- `f.Go != nil`: the version is overwritten, in the object and in the line -/
theorem File_AddGoStmt_update {h : Heap} {fp : Int} {e : Modfile.Edit.EFile} (R : RepF h fp e) {g : Modfile.Go}
    (hs : e.f.go = some g) (h0 : g.lineId ≠ 0) (version : Bytes) (hv : Modfile.goVersionRE version = true) (fuel : Nat) :
    ∃ h', File_AddGoStmt Modfile.goVersionRE fuel fp version h = .ok (none, h') ∧
      RepF h' fp { e with f := { e.f with go := some { g with version := version },
                                          syn := Modfile.Edit.updateLine e.f.syn g.lineId [B "go", version] } } := by
  obtain ⟨o, ho, R⟩ := R
  have hgo := R.go
  rw [hs] at hgo
  obtain ⟨hgo1, hgo2⟩ : heapGet h.gos o.Go = .ok (goG g) ∧ g.lineId ≤ h.lines.length := hgo
  have hpos : ¬ (o.Go = 0) := by have := heapGet_pos hgo1; omega
  obtain ⟨l, hl, hid⟩ := R.linesG.ofId h0 hgo2
  let g' : Modfile.Go := { g with version := version }
  let h1 : Heap := { h with gos := h.gos.set (o.Go.toNat - 1) (goG g') }
  have hl1 : heapGet h1.lines (g.lineId : Int) = .ok (lineG l) := hl
  have hgo1' : heapGet h1.gos o.Go = .ok (goG g') := heapGet_listSet_same _ hgo1
  have hup := FileSyntax_updateLine_eq (h := h1) (x := o.Syntax) (tokens := [[103, 111], version]) hl1 (by intro _; simp)
  refine ⟨setLineH h1 (g.lineId : Int) (updateTokLine [[103, 111], version] l), ?_, ?_⟩
  · have hset : heapSet h.gos o.Go ({ (goG g) with Version := version } : Go) = .ok (h.gos.set (o.Go.toNat - 1) (goG g')) :=
      heapSet_of_get _ hgo1
    have ho1 : heapGet h1.mods fp = .ok o := ho
    simp only [File_AddGoStmt, hv, ho, hgo1, hpos, bind, Except.bind, pure, Except.pure, decide_false, Bool.not_true,
      Bool.false_eq_true, if_false, hset]
    simp only [show heapGet (h.gos.set (o.Go.toNat - 1) (goG g')) o.Go = .ok (goG g') from hgo1', goG_Syntax]
    rw [hup]
  · have R1 := RepFAt_replaceGo R (h.gos.set (o.Go.toNat - 1) (goG g')) o.Go (some g') ⟨heapGet_listSet_same _ hgo1, hgo2⟩
    have R2 := RepFAt.setLine R1 (IdEquiv_updateTok [[103, 111], version]) hl1
    refine ⟨o, ho, ?_⟩
    rw [B_go]
    exact R2

theorem File_AddGoStmt_update_nil {h : Heap} {fp : Int} {e : Modfile.Edit.EFile} (R : RepF h fp e) {g : Modfile.Go}
    (hs : e.f.go = some g) (h0 : g.lineId = 0) (version : Bytes) (hv : Modfile.goVersionRE version = true) (fuel : Nat) :
    File_AddGoStmt Modfile.goVersionRE fuel fp version h = .error .panic := by
  obtain ⟨o, ho, R⟩ := R
  have hgo := R.go
  rw [hs] at hgo
  obtain ⟨hgo1, hgo2⟩ : heapGet h.gos o.Go = .ok (goG g) ∧ g.lineId ≤ h.lines.length := hgo
  have hpos : ¬ (o.Go = 0) := by have := heapGet_pos hgo1; omega
  let g' : Modfile.Go := { g with version := version }
  let h1 : Heap := { h with gos := h.gos.set (o.Go.toNat - 1) (goG g') }
  have hgo1' : heapGet h1.gos o.Go = .ok (goG g') := heapGet_listSet_same _ hgo1
  have hset : heapSet h.gos o.Go ({ (goG g) with Version := version } : Go) = .ok (h.gos.set (o.Go.toNat - 1) (goG g')) :=
    heapSet_of_get _ hgo1
  have ho1 : heapGet h1.mods fp = .ok o := ho
  simp only [File_AddGoStmt, hv, ho, hgo1, hpos, bind, Except.bind, pure, Except.pure, decide_false, Bool.not_true,
    Bool.false_eq_true, if_false, hset]
  simp only [show heapGet (h.gos.set (o.Go.toNat - 1) (goG g')) o.Go = .ok (goG g') from hgo1', goG_Syntax]
  rw [FileSyntax_updateLine_nil _ (by show ((g.lineId : Nat) : Int) ≤ 0; simp [h0])]

/-- the continuation `k12` of `File_AddGoStmt`: the new line, the new `Go` object, `f.Go = …` -/
def addGoTail (fuel : Nat) (f : Int) (version : Bytes) (hint : Expr) (world : Heap) : M ((Option String) × Heap) := do
  let t6 ← heapGet ((world).mods) f
  let t7 ← (FileSyntax_addLine fuel (t6.Syntax) hint ([([103, 111] : Bytes), version] : (List Bytes)) world)
  let (wr8, world) := t7
  let (p9, hl) := heapAlloc ((world).gos) ({ (default : Go) with Version := version, Syntax := wr8 } : Go)
  let world := { (world) with gos := hl }
  let t10 ← heapGet ((world).mods) f
  let t11 ← heapSet ((world).mods) f { (t10) with Go := p9 }
  let world := { (world) with mods := t11 }
  pure ((none : Option String), world)

theorem addGoTail_sim (hAL : AddLineSpec) {h : Heap} {fp : Int} {e : Modfile.Edit.EFile} (R : RepF h fp e) (hint : Option Nat)
    (version : Bytes) (fuel : Nat) (hf : nodeCount e.f.syn.stmts + 3 ≤ fuel) :
    ∃ h', addGoTail fuel fp version (hintE hint) h = .ok (none, h') ∧
      RepF h' fp { f := { e.f with go := some { version := version, lineId := e.next },
                                   syn := Modfile.Edit.addLine e.f.syn hint [B "go", version] e.next }, next := e.next + 1 } := by
  obtain ⟨o, ho, R⟩ := R
  obtain ⟨h1, hrun, hsyn, htok, hG, hlen, F⟩ := hAL h o.Syntax e.f.syn hint [103, 111] [version] fuel R.syn R.tok hf
  have hnext : e.next = h.lines.length + 1 := R.next
  have ho1 : heapGet h1.mods fp = .ok o := by rw [F.mods]; exact ho
  rw [← hnext] at hrun hsyn htok
  let gN : Modfile.Go := { version := version, lineId := e.next }
  refine ⟨{ h1 with gos := h1.gos ++ [goG gN], mods := h1.mods.set (fp.toNat - 1) { o with Go := ((h1.gos.length + 1 : Nat) : Int) } }, ?_, ?_⟩
  · simp only [addGoTail, ho, hrun, bind, Except.bind, pure, Except.pure, heapAlloc, ho1, heapSet_of_get _ ho1]
    simp only [goG, gN]
  · have R1 := RepFAt_afterAddLine R F hsyn htok (hG R.linesG) hlen
    have R2 := RepFAt_replaceGo R1 (h1.gos ++ [goG gN]) ((h1.gos.length + 1 : Nat) : Int) (some gN)
      ⟨heapGet_alloc_new _ _, by show e.next ≤ h1.lines.length; omega⟩
    have R3 := RepF_ofSetMods (fp := fp) (h := { h1 with gos := h1.gos ++ [goG gN] }) ho1 R2
    rw [B_go]
    exact R3

/-- `f.Go == nil`: a new line after the module line (or where `addLine` puts it), a new `Go` object.
    The model's hint is the module's `lineId`; Go takes the hint only if that pointer is not nil. -/
theorem File_AddGoStmt_insert (hAL : AddLineSpec) {h : Heap} {fp : Int} {e : Modfile.Edit.EFile} (R : RepF h fp e)
    (hn : e.f.go = none) (hm : ∀ m, e.f.module = some m → m.lineId ≠ 0) (version : Bytes)
    (hv : Modfile.goVersionRE version = true) (fuel : Nat) (hf : nodeCount e.f.syn.stmts + 3 ≤ fuel) :
    ∃ h', File_AddGoStmt Modfile.goVersionRE fuel fp version h = .ok (none, h') ∧
      RepF h' fp { f := { e.f with go := some { version := version, lineId := e.next },
                                   syn := Modfile.Edit.addLine e.f.syn (e.f.module.map (·.lineId)) [B "go", version] e.next },
                   next := e.next + 1 } := by
  have key : File_AddGoStmt Modfile.goVersionRE fuel fp version h =
      addGoTail fuel fp version (hintE (e.f.module.map (·.lineId))) h := by
    obtain ⟨o, ho, R⟩ := R
    have hgo := R.go
    rw [hn] at hgo
    have hgo : o.Go = 0 := hgo
    have hsynpos : ¬ (o.Syntax = 0) := by
      obtain ⟨es, r⟩ := R.syn
      have := heapGet_pos r.file; omega
    have hmod := R.module
    cases hmm : e.f.module with
    | none =>
      rw [hmm] at hmod
      have hmod : o.Module = 0 := hmod
      simp only [File_AddGoStmt, addGoTail, hv, ho, hgo, hmod, hsynpos, bind, Except.bind, pure, Except.pure, decide_true, decide_false,
        Bool.not_true, Bool.not_false, Bool.false_eq_true, if_false, if_true, Option.map_none, hintE]
    | some m =>
      rw [hmm] at hmod
      obtain ⟨hmod1, hmod2⟩ : heapGet h.modules o.Module = .ok (moduleG m) ∧ m.lineId ≤ h.lines.length := hmod
      have hmpos : ¬ (o.Module = 0) := by have := heapGet_pos hmod1; omega
      have hml : ¬ ((m.lineId : Int) = 0) := by have := hm m hmm; omega
      simp only [File_AddGoStmt, addGoTail, hv, ho, hgo, hmod1, hmpos, hml, bind, Except.bind, pure, Except.pure, decide_true, decide_false,
        Bool.not_true, Bool.not_false, Bool.false_eq_true, if_false, if_true, Option.map_some, hintE, moduleG_Syntax]
  rw [key]
  exact addGoTail_sim hAL R _ version fuel hf

/-! ### File.AddToolchainStmt -/

theorem File_AddToolchainStmt_invalid (fuel : Nat) (fp : Int) (name : Bytes) (h : Heap) (hv : Modfile.toolchainRE name = false) :
    File_AddToolchainStmt Modfile.toolchainRE fuel fp name h = .ok (some "invalid toolchain name %q", h) := by
  simp [File_AddToolchainStmt, hv, pure, Except.pure]

/-- `f.Toolchain != nil`: the name is overwritten, in the object and in the line -/
theorem File_AddToolchainStmt_update {h : Heap} {fp : Int} {e : Modfile.Edit.EFile} (R : RepF h fp e) {g : Modfile.Toolchain}
    (hs : e.f.toolchain = some g) (h0 : g.lineId ≠ 0) (name : Bytes) (hv : Modfile.toolchainRE name = true) (fuel : Nat) :
    ∃ h', File_AddToolchainStmt Modfile.toolchainRE fuel fp name h = .ok (none, h') ∧
      RepF h' fp { e with f := { e.f with toolchain := some { g with name := name },
                                          syn := Modfile.Edit.updateLine e.f.syn g.lineId [B "toolchain", name] } } := by
  obtain ⟨o, ho, R⟩ := R
  have htc := R.toolchain
  rw [hs] at htc
  obtain ⟨htc1, htc2⟩ : heapGet h.toolchains o.Toolchain = .ok (toolchainG g) ∧ g.lineId ≤ h.lines.length := htc
  have hpos : ¬ (o.Toolchain = 0) := by have := heapGet_pos htc1; omega
  obtain ⟨l, hl, hid⟩ := R.linesG.ofId h0 htc2
  let g' : Modfile.Toolchain := { g with name := name }
  let h1 : Heap := { h with toolchains := h.toolchains.set (o.Toolchain.toNat - 1) (toolchainG g') }
  have hl1 : heapGet h1.lines (g.lineId : Int) = .ok (lineG l) := hl
  have htc1' : heapGet h1.toolchains o.Toolchain = .ok (toolchainG g') := heapGet_listSet_same _ htc1
  have hup := FileSyntax_updateLine_eq (h := h1) (x := o.Syntax) (tokens := [[116, 111, 111, 108, 99, 104, 97, 105, 110], name]) hl1 (by intro _; simp)
  refine ⟨setLineH h1 (g.lineId : Int) (updateTokLine [[116, 111, 111, 108, 99, 104, 97, 105, 110], name] l), ?_, ?_⟩
  · have hset : heapSet h.toolchains o.Toolchain ({ (toolchainG g) with Name := name } : Toolchain) = .ok (h.toolchains.set (o.Toolchain.toNat - 1) (toolchainG g')) :=
      heapSet_of_get _ htc1
    have ho1 : heapGet h1.mods fp = .ok o := ho
    simp only [File_AddToolchainStmt, hv, ho, htc1, hpos, bind, Except.bind, pure, Except.pure, decide_false, Bool.not_true,
      Bool.false_eq_true, if_false, hset]
    simp only [show heapGet (h.toolchains.set (o.Toolchain.toNat - 1) (toolchainG g')) o.Toolchain = .ok (toolchainG g') from htc1', toolchainG_Syntax]
    rw [hup]
  · have R1 := RepFAt_replaceToolchain R (h.toolchains.set (o.Toolchain.toNat - 1) (toolchainG g')) o.Toolchain (some g') ⟨heapGet_listSet_same _ htc1, htc2⟩
    have R2 := RepFAt.setLine R1 (IdEquiv_updateTok [[116, 111, 111, 108, 99, 104, 97, 105, 110], name]) hl1
    refine ⟨o, ho, ?_⟩
    rw [B_toolchain]
    exact R2

theorem File_AddToolchainStmt_update_nil {h : Heap} {fp : Int} {e : Modfile.Edit.EFile} (R : RepF h fp e) {g : Modfile.Toolchain}
    (hs : e.f.toolchain = some g) (h0 : g.lineId = 0) (name : Bytes) (hv : Modfile.toolchainRE name = true) (fuel : Nat) :
    File_AddToolchainStmt Modfile.toolchainRE fuel fp name h = .error .panic := by
  obtain ⟨o, ho, R⟩ := R
  have htc := R.toolchain
  rw [hs] at htc
  obtain ⟨htc1, htc2⟩ : heapGet h.toolchains o.Toolchain = .ok (toolchainG g) ∧ g.lineId ≤ h.lines.length := htc
  have hpos : ¬ (o.Toolchain = 0) := by have := heapGet_pos htc1; omega
  let g' : Modfile.Toolchain := { g with name := name }
  let h1 : Heap := { h with toolchains := h.toolchains.set (o.Toolchain.toNat - 1) (toolchainG g') }
  have htc1' : heapGet h1.toolchains o.Toolchain = .ok (toolchainG g') := heapGet_listSet_same _ htc1
  have hset : heapSet h.toolchains o.Toolchain ({ (toolchainG g) with Name := name } : Toolchain) = .ok (h.toolchains.set (o.Toolchain.toNat - 1) (toolchainG g')) :=
    heapSet_of_get _ htc1
  have ho1 : heapGet h1.mods fp = .ok o := ho
  simp only [File_AddToolchainStmt, hv, ho, htc1, hpos, bind, Except.bind, pure, Except.pure, decide_false, Bool.not_true,
    Bool.false_eq_true, if_false, hset]
  simp only [show heapGet (h.toolchains.set (o.Toolchain.toNat - 1) (toolchainG g')) o.Toolchain = .ok (toolchainG g') from htc1', toolchainG_Syntax]
  rw [FileSyntax_updateLine_nil _ (by show ((g.lineId : Nat) : Int) ≤ 0; simp [h0])]

/-- the continuation `k12` of `File_AddToolchainStmt` -/
def addToolchainTail (fuel : Nat) (f : Int) (name : Bytes) (hint : Expr) (world : Heap) : M ((Option String) × Heap) := do
  let t6 ← heapGet ((world).mods) f
  let t7 ← (FileSyntax_addLine fuel (t6.Syntax) hint ([([116, 111, 111, 108, 99, 104, 97, 105, 110] : Bytes), name] : (List Bytes)) world)
  let (wr8, world) := t7
  let (p9, hl) := heapAlloc ((world).toolchains) ({ (default : Toolchain) with Name := name, Syntax := wr8 } : Toolchain)
  let world := { (world) with toolchains := hl }
  let t10 ← heapGet ((world).mods) f
  let t11 ← heapSet ((world).mods) f { (t10) with Toolchain := p9 }
  let world := { (world) with mods := t11 }
  pure ((none : Option String), world)

theorem addToolchainTail_sim (hAL : AddLineSpec) {h : Heap} {fp : Int} {e : Modfile.Edit.EFile} (R : RepF h fp e) (hint : Option Nat)
    (name : Bytes) (fuel : Nat) (hf : nodeCount e.f.syn.stmts + 3 ≤ fuel) :
    ∃ h', addToolchainTail fuel fp name (hintE hint) h = .ok (none, h') ∧
      RepF h' fp { f := { e.f with toolchain := some { name := name, lineId := e.next },
                                   syn := Modfile.Edit.addLine e.f.syn hint [B "toolchain", name] e.next }, next := e.next + 1 } := by
  obtain ⟨o, ho, R⟩ := R
  obtain ⟨h1, hrun, hsyn, htok, hG, hlen, F⟩ :=
    hAL h o.Syntax e.f.syn hint [116, 111, 111, 108, 99, 104, 97, 105, 110] [name] fuel R.syn R.tok hf
  have hnext : e.next = h.lines.length + 1 := R.next
  have ho1 : heapGet h1.mods fp = .ok o := by rw [F.mods]; exact ho
  rw [← hnext] at hrun hsyn htok
  let tN : Modfile.Toolchain := { name := name, lineId := e.next }
  refine ⟨{ h1 with toolchains := h1.toolchains ++ [toolchainG tN],
                    mods := h1.mods.set (fp.toNat - 1) { o with Toolchain := ((h1.toolchains.length + 1 : Nat) : Int) } }, ?_, ?_⟩
  · simp only [addToolchainTail, ho, hrun, bind, Except.bind, pure, Except.pure, heapAlloc, ho1, heapSet_of_get _ ho1]
    simp only [toolchainG, tN]
  · have R1 := RepFAt_afterAddLine R F hsyn htok (hG R.linesG) hlen
    have R2 := RepFAt_replaceToolchain R1 (h1.toolchains ++ [toolchainG tN]) ((h1.toolchains.length + 1 : Nat) : Int) (some tN)
      ⟨heapGet_alloc_new _ _, by show e.next ≤ h1.lines.length; omega⟩
    have R3 := RepF_ofSetMods (fp := fp) (h := { h1 with toolchains := h1.toolchains ++ [toolchainG tN] }) ho1 R2
    rw [B_toolchain]
    exact R3

/-- the model's hint of `addToolchainStmt` -/
def toolchainHint (e : Modfile.Edit.EFile) : Option Nat :=
  match e.f.go with
  | some g => some g.lineId
  | none => e.f.module.map (·.lineId)

/-- `f.Toolchain == nil`: a new line after the go line, else after the module line, a new `Toolchain` object.
    Go takes a hint only if that `Syntax` pointer is not nil. -/
theorem File_AddToolchainStmt_insert (hAL : AddLineSpec) {h : Heap} {fp : Int} {e : Modfile.Edit.EFile} (R : RepF h fp e)
    (hn : e.f.toolchain = none) (hg : ∀ g, e.f.go = some g → g.lineId ≠ 0) (hm : ∀ m, e.f.module = some m → m.lineId ≠ 0)
    (name : Bytes) (hv : Modfile.toolchainRE name = true) (fuel : Nat) (hf : nodeCount e.f.syn.stmts + 3 ≤ fuel) :
    ∃ h', File_AddToolchainStmt Modfile.toolchainRE fuel fp name h = .ok (none, h') ∧
      RepF h' fp { f := { e.f with toolchain := some { name := name, lineId := e.next },
                                   syn := Modfile.Edit.addLine e.f.syn (toolchainHint e) [B "toolchain", name] e.next },
                   next := e.next + 1 } := by
  have key : File_AddToolchainStmt Modfile.toolchainRE fuel fp name h =
      addToolchainTail fuel fp name (hintE (toolchainHint e)) h := by
    obtain ⟨o, ho, R⟩ := R
    have htc := R.toolchain
    rw [hn] at htc
    have htc : o.Toolchain = 0 := htc
    have hgo := R.go
    have hmod := R.module
    cases hgg : e.f.go with
    | some g =>
      rw [hgg] at hgo
      obtain ⟨hgo1, hgo2⟩ : heapGet h.gos o.Go = .ok (goG g) ∧ g.lineId ≤ h.lines.length := hgo
      have hgpos : ¬ (o.Go = 0) := by have := heapGet_pos hgo1; omega
      have hgl : ¬ ((g.lineId : Int) = 0) := by have := hg g hgg; omega
      simp only [File_AddToolchainStmt, addToolchainTail, hv, ho, htc, hgo1, hgpos, hgl, bind, Except.bind, pure, Except.pure,
        decide_true, decide_false, Bool.not_true, Bool.not_false, Bool.false_eq_true, if_false, if_true, hintE, goG_Syntax,
        toolchainHint, hgg]
    | none =>
      rw [hgg] at hgo
      have hgo : o.Go = 0 := hgo
      cases hmm : e.f.module with
      | none =>
        rw [hmm] at hmod
        have hmod : o.Module = 0 := hmod
        simp only [File_AddToolchainStmt, addToolchainTail, hv, ho, htc, hgo, hmod, bind, Except.bind, pure, Except.pure,
          decide_true, decide_false, Bool.not_true, Bool.not_false, Bool.false_eq_true, if_false, if_true, Option.map_none, hintE,
          toolchainHint, hgg, hmm]
      | some m =>
        rw [hmm] at hmod
        obtain ⟨hmod1, hmod2⟩ : heapGet h.modules o.Module = .ok (moduleG m) ∧ m.lineId ≤ h.lines.length := hmod
        have hmpos : ¬ (o.Module = 0) := by have := heapGet_pos hmod1; omega
        have hml : ¬ ((m.lineId : Int) = 0) := by have := hm m hmm; omega
        simp only [File_AddToolchainStmt, addToolchainTail, hv, ho, htc, hgo, hmod1, hmpos, hml, bind, Except.bind, pure, Except.pure,
          decide_true, decide_false, Bool.not_true, Bool.not_false, Bool.false_eq_true, if_false, if_true, Option.map_some, hintE,
          moduleG_Syntax, toolchainHint, hgg, hmm]
  rw [key]
  exact addToolchainTail_sim hAL R _ name fuel hf

/-! ### File.AddModuleStmt -/

theorem MustQuote_loop1_same (isPrint : Int → Bool) (s : Bytes) : ∀ (fuel : Nat) (ri : Int),
    Generated.Edit.MustQuote_loop1 isPrint s fuel ri = Generated.Modfile.MustQuote_loop1 isPrint s fuel ri
  | 0, _ => rfl
  | fuel + 1, ri => by
    unfold Generated.Edit.MustQuote_loop1 Generated.Modfile.MustQuote_loop1
    simp only [MustQuote_loop1_same isPrint s fuel]

/-- `AutoQuote` of this unit is the model's `autoQuote` (through Tie/FnModfile.lean) -/
theorem AutoQuote_model (s : Bytes) (fuel : Nat) (hf : s.length + 1 ≤ fuel) :
    AutoQuote Drv.GenModfile.isPrintI Quote.quote fuel s = .ok (Modfile.autoQuote s) := by
  have e : AutoQuote Drv.GenModfile.isPrintI Quote.quote fuel s =
      Generated.Modfile.AutoQuote Drv.GenModfile.isPrintI Quote.quote fuel s := by
    unfold AutoQuote Generated.Modfile.AutoQuote MustQuote Generated.Modfile.MustQuote
    simp only [MustQuote_loop1_same]
    rfl
  rw [e]
  exact ModVerif.Tie.FnModfile.AutoQuote_tie s fuel hf

/-- `f.Module == nil` -/
theorem File_AddModuleStmt_insert (hAL : AddLineSpec) {h : Heap} {fp : Int} {e : Modfile.Edit.EFile} (R : RepF h fp e)
    (hn : e.f.module = none) (path : Bytes) (fuel : Nat) (hf : nodeCount e.f.syn.stmts + 3 ≤ fuel) (hq : path.length + 1 ≤ fuel) :
    ∃ h', File_AddModuleStmt Drv.GenModfile.isPrintI Quote.quote fuel fp path h = .ok (none, h') ∧
      RepF h' fp { f := { e.f with module := some { mod := { path := path }, lineId := e.next },
                                   syn := Modfile.Edit.addLine e.f.syn none [B "module", Modfile.autoQuote path] e.next },
                   next := e.next + 1 } := by
  obtain ⟨o, ho, R⟩ := R
  have hmod := R.module
  rw [hn] at hmod
  have hmod : o.Module = 0 := hmod
  have hsynpos : ¬ (o.Syntax = 0) := by
    obtain ⟨es, r⟩ := R.syn
    have := heapGet_pos r.file; omega
  obtain ⟨h1, hrun, hsyn, htok, hG, hlen, F⟩ :=
    hAL h o.Syntax e.f.syn none [109, 111, 100, 117, 108, 101] [Modfile.autoQuote path] fuel R.syn R.tok hf
  have hnext : e.next = h.lines.length + 1 := R.next
  have ho1 : heapGet h1.mods fp = .ok o := by rw [F.mods]; exact ho
  rw [← hnext] at hrun hsyn htok
  let mN : Modfile.Module := { mod := { path := path }, lineId := e.next }
  refine ⟨{ h1 with modules := h1.modules ++ [moduleG mN],
                    mods := h1.mods.set (fp.toNat - 1) { o with Module := ((h1.modules.length + 1 : Nat) : Int) } }, ?_, ?_⟩
  · have hrun' : FileSyntax_addLine fuel o.Syntax Expr.nil [[109, 111, 100, 117, 108, 101], Modfile.autoQuote path] h =
        .ok (((e.next : Nat) : Int), h1) := hrun
    simp only [File_AddModuleStmt, ho, hmod, hsynpos, AutoQuote_model path fuel hq, hrun', bind, Except.bind, pure, Except.pure,
      heapAlloc, ho1, heapSet_of_get _ ho1, decide_true, decide_false, Bool.false_eq_true, if_false, if_true]
    rfl
  · have R1 := RepFAt_afterAddLine R F hsyn htok (hG R.linesG) hlen
    have R2 := RepFAt_replaceModule R1 (h1.modules ++ [moduleG mN]) ((h1.modules.length + 1 : Nat) : Int) (some mN)
      ⟨heapGet_alloc_new _ _, by show e.next ≤ h1.lines.length; omega⟩
    have R3 := RepF_ofSetMods (fp := fp) (h := { h1 with modules := h1.modules ++ [moduleG mN] }) ho1 R2
    rw [B_module]
    exact R3

/-- `f.Module != nil`: the path is overwritten, in the object and in the line -/
theorem File_AddModuleStmt_update {h : Heap} {fp : Int} {e : Modfile.Edit.EFile} (R : RepF h fp e) {m : Modfile.Module}
    (hs : e.f.module = some m) (h0 : m.lineId ≠ 0) (path : Bytes) (fuel : Nat) (hq : path.length + 1 ≤ fuel) :
    ∃ h', File_AddModuleStmt Drv.GenModfile.isPrintI Quote.quote fuel fp path h = .ok (none, h') ∧
      RepF h' fp { e with f := { e.f with module := some { m with mod := { m.mod with path := path } },
                                          syn := Modfile.Edit.updateLine e.f.syn m.lineId [B "module", Modfile.autoQuote path] } } := by
  obtain ⟨o, ho, R⟩ := R
  have hmod := R.module
  rw [hs] at hmod
  obtain ⟨hmod1, hmod2⟩ : heapGet h.modules o.Module = .ok (moduleG m) ∧ m.lineId ≤ h.lines.length := hmod
  have hpos : ¬ (o.Module = 0) := by have := heapGet_pos hmod1; omega
  have hsynpos : ¬ (o.Syntax = 0) := by
    obtain ⟨es, r⟩ := R.syn
    have := heapGet_pos r.file; omega
  obtain ⟨l, hl, hid⟩ := R.linesG.ofId h0 hmod2
  let m' : Modfile.Module := { m with mod := { m.mod with path := path } }
  let h1 : Heap := { h with modules := h.modules.set (o.Module.toNat - 1) (moduleG m') }
  have hl1 : heapGet h1.lines (m.lineId : Int) = .ok (lineG l) := hl
  have hmod1' : heapGet h1.modules o.Module = .ok (moduleG m') := heapGet_listSet_same _ hmod1
  have hup := FileSyntax_updateLine_eq (h := h1) (x := o.Syntax) (tokens := [[109, 111, 100, 117, 108, 101], Modfile.autoQuote path])
    hl1 (by intro _; simp)
  refine ⟨setLineH h1 (m.lineId : Int) (updateTokLine [[109, 111, 100, 117, 108, 101], Modfile.autoQuote path] l), ?_, ?_⟩
  · have hset : heapSet h.modules o.Module ({ (moduleG m) with Mod := { (moduleG m).Mod with Path := path } } : Module) =
        .ok (h.modules.set (o.Module.toNat - 1) (moduleG m')) := heapSet_of_get _ hmod1
    simp only [File_AddModuleStmt, ho, hmod1, hpos, hsynpos, bind, Except.bind, pure, Except.pure, decide_false,
      Bool.false_eq_true, if_false, hset, AutoQuote_model path fuel hq]
    simp only [show heapGet (h.modules.set (o.Module.toNat - 1) (moduleG m')) o.Module = .ok (moduleG m') from hmod1', moduleG_Syntax]
    rw [hup]
  · have R1 := RepFAt_replaceModule R (h.modules.set (o.Module.toNat - 1) (moduleG m')) o.Module (some m')
      ⟨heapGet_listSet_same _ hmod1, hmod2⟩
    have R2 := RepFAt.setLine R1 (IdEquiv_updateTok [[109, 111, 100, 117, 108, 101], Modfile.autoQuote path]) hl1
    refine ⟨o, ho, ?_⟩
    rw [B_module]
    exact R2

theorem File_AddModuleStmt_update_nil {h : Heap} {fp : Int} {e : Modfile.Edit.EFile} (R : RepF h fp e) {m : Modfile.Module}
    (hs : e.f.module = some m) (h0 : m.lineId = 0) (path : Bytes) (fuel : Nat) (hq : path.length + 1 ≤ fuel) :
    File_AddModuleStmt Drv.GenModfile.isPrintI Quote.quote fuel fp path h = .error .panic := by
  obtain ⟨o, ho, R⟩ := R
  have hmod := R.module
  rw [hs] at hmod
  obtain ⟨hmod1, hmod2⟩ : heapGet h.modules o.Module = .ok (moduleG m) ∧ m.lineId ≤ h.lines.length := hmod
  have hpos : ¬ (o.Module = 0) := by have := heapGet_pos hmod1; omega
  have hsynpos : ¬ (o.Syntax = 0) := by
    obtain ⟨es, r⟩ := R.syn
    have := heapGet_pos r.file; omega
  let m' : Modfile.Module := { m with mod := { m.mod with path := path } }
  have hmod1' : heapGet (h.modules.set (o.Module.toNat - 1) (moduleG m')) o.Module = .ok (moduleG m') := heapGet_listSet_same _ hmod1
  have hset : heapSet h.modules o.Module ({ (moduleG m) with Mod := { (moduleG m).Mod with Path := path } } : Module) =
      .ok (h.modules.set (o.Module.toNat - 1) (moduleG m')) := heapSet_of_get _ hmod1
  simp only [File_AddModuleStmt, ho, hmod1, hpos, hsynpos, bind, Except.bind, pure, Except.pure, decide_false,
    Bool.false_eq_true, if_false, hset, AutoQuote_model path fuel hq]
  simp only [hmod1', moduleG_Syntax]
  rw [FileSyntax_updateLine_nil _ (by show ((m.lineId : Nat) : Int) ≤ 0; simp [h0])]

end ModVerif.Tie.FnEditStmtA
