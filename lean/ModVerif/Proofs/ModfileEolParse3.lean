/-
  C02, end-of-line comments, stage (iii), part e: the file loop of the parser on the token records of a
  rendered tree.  `parseFileLoop_E`: on `stmtsT D u`, for `EWFStmts u`, `parseFileLoop` returns the statement
  list `eStmts D u` (up to line identities) — every position explicit — and the lexer has recorded exactly
  the end-of-line comment tokens of the stream.
-/
import ModVerif.Proofs.ModfileEolParse2
import ModVerif.Proofs.ModfileFmtParse3
namespace ModVerif.Proofs.ModfileEol
open ModVerif ModVerif.Modfile
open ModVerif.Proofs.ModfileFmtLex ModVerif.Proofs.ModfileFmtLine ModVerif.Proofs.ModfileFmtStream
open ModVerif.Proofs.ModfileFmtTree ModVerif.Proofs.ModfileFmtParse ModVerif.Proofs.ModfileFmtRender

variable {D : Bytes}

/-! ### whole-line comments in front of a statement -/

/-- the pending comment block carries exactly the comments `pre` and starts where the first one starts -/
def CbOKE (ocb : Option CommentBlock) (pre : List Comment) : Prop :=
  match ocb with
  | none => pre = []
  | some c => c.comments.before = pre ∧ c.comments.suffix = [] ∧ c.comments.after = [] ∧
      ∃ c0 r, pre = c0 :: r ∧ c.start = c0.start

theorem top_commentsE : ∀ (cs : List Comment) (ocb : Option CommentBlock) (pre : List Comment) (i : Input)
    (stmtsRev : List Expr) (fuel : Nat) (R : Bytes) (U : List Token), CbOKE ocb pre → TopBeforeOK cs →
    EStream D (befT D 0 cs R ++ U) i → cs.length + 1 ≤ fuel →
    ∃ ocb' i' fuel', parseFileLoop fuel i stmtsRev ocb = parseFileLoop fuel' i' stmtsRev ocb' ∧
      CbOKE ocb' (pre ++ befC D 0 cs R) ∧ EStream D U i' ∧
      fut U i' = fut (befT D 0 cs R ++ U) i ∧ fuel ≤ fuel' + cs.length := by
  intro cs
  induction cs with
  | nil =>
    intro ocb pre i stmtsRev fuel R U hcb _ hS _
    exact ⟨ocb, i, fuel, rfl, by simpa [befC] using hcb, by simpa [befT] using hS, by simp [befT], by simp⟩
  | cons c cs ih =>
    intro ocb pre i stmtsRev fuel R U hcb hok hS hf
    obtain ⟨m, rfl⟩ : ∃ m, fuel = m + 1 := ⟨fuel - 1, by omega⟩
    simp only [List.length_cons] at hf
    obtain ⟨hne, _⟩ := commentOK_lastOK (hok c (by simp)).2
    have hS0 : EStream D (comT D (GoStrings.trimSpace c.token) (rBefore 0 cs ++ R) :: (befT D 0 cs R ++ U)) i := by
      simpa [befT, hne] using hS
    obtain ⟨i1, hl, hn, hS1, hf1⟩ := EStream.lex' hS0 (by simp [comT])
    have hk : i.token.kind = .comment := by rw [hS0.tok]; rfl
    have htx : i.token.text = GoStrings.trimSpace c.token := by rw [hS0.tok]; rfl
    have hps : i.token.pos = pa D (GoStrings.trimSpace c.token ++ 10 :: (rBefore 0 cs ++ R)) := by rw [hS0.tok]; rfl
    have hcb1 : CbOKE (some (cbAdd ocb i.token)) (pre ++ [{ start := i.token.pos, token := i.token.text }]) := by
      cases ocb with
      | none =>
        simp only [CbOKE] at hcb
        subst hcb
        exact ⟨by simp [cbAdd], rfl, rfl, _, [], rfl, rfl⟩
      | some c0 =>
        simp only [CbOKE] at hcb
        obtain ⟨h1, h2, h3, c1, r1, h4, h5⟩ := hcb
        refine ⟨by simp [cbAdd, h1], by simp [cbAdd, h2], by simp [cbAdd, h3], c1, r1 ++ [_], by rw [h4]; rfl, ?_⟩
        simp [cbAdd, h5]
    obtain ⟨ocb', i', fuel', heq, hcb', hS', hf', hfu⟩ := ih (some (cbAdd ocb i.token)) _ i1
      stmtsRev m R U hcb1 (fun c' h => hok c' (by simp [h])) hS1 (by omega)
    refine ⟨ocb', i', fuel', ?_, ?_, hS', ?_, by simp only [List.length_cons]; omega⟩
    · rw [file_step_comment i i1 stmtsRev ocb m hk hl, heq]
    · have : pre ++ befC D 0 (c :: cs) R =
          (pre ++ [{ start := i.token.pos, token := i.token.text }]) ++ befC D 0 cs R := by
        simp [befC, hne, htx, hps]
      rw [this]; exact hcb'
    · rw [hf', hf1]
      simp [befT, hne]

/-! ### one statement -/

/-- what follows a statement in the rendered text: nothing, or a blank line and the remaining statements -/
def sepR : List Expr → Bytes
  | [] => []
  | r :: rs => 10 :: stmtsB (r :: rs)

def sepT (D : Bytes) : List Expr → List Token
  | [] => [eofT D]
  | r :: rs => nlT D (stmtsB (r :: rs)) :: stmtsT D (r :: rs)

theorem stmtsT_cons (s : Expr) (rest : List Expr) : stmtsT D (s :: rest) = stmtT D s (sepR rest) ++ sepT D rest := by
  cases rest with
  | nil => simp [stmtsT, sepR, sepT]
  | cons r rs => simp [stmtsT, sepR, sepT]

theorem eStmts_cons (s : Expr) (rest : List Expr) : eStmts D (s :: rest) = eStmt D s (sepR rest) :: eStmts D rest := by
  cases rest with
  | nil => simp [eStmts, sepR]
  | cons r rs => simp [eStmts, sepR]

theorem stmtsT_ne (ss : List Expr) : 1 ≤ (stmtsT D ss).length := by
  cases ss with
  | nil => simp [stmtsT]
  | cons s rest =>
    rw [stmtsT_cons]
    cases rest with
    | nil => simp [sepT]
    | cons r rs => simp [sepT]; omega

/-- after a line or block statement: skip the separating blank line, if any -/
theorem file_after_stmtE (rest : List Expr) (i : Input) (stmts : List Expr) (fuel : Nat)
    (hS : EStream D (sepT D rest) i) (hf : (sepT D rest).length ≤ fuel) :
    ∃ i' fuel', parseFileLoop fuel i stmts none = parseFileLoop fuel' i' stmts none ∧
      EStream D (stmtsT D rest) i' ∧ fut (stmtsT D rest) i' = fut (sepT D rest) i ∧ (stmtsT D rest).length ≤ fuel' := by
  cases rest with
  | nil => exact ⟨i, fuel, rfl, by simpa [sepT, stmtsT] using hS, rfl, by simpa [sepT, stmtsT] using hf⟩
  | cons r rs =>
    simp only [sepT, List.length_cons] at hS hf
    obtain ⟨m, rfl⟩ : ∃ m, fuel = m + 1 := ⟨fuel - 1, by omega⟩
    obtain ⟨i1, hl, hn, hS1, hf1⟩ := EStream.lex' hS (by simp [nlT])
    have hk : i.token.kind = .punct 10 := by rw [hS.tok]; rfl
    exact ⟨i1, m, file_step_blank_none i i1 stmts m hk hl, hS1, hf1, by omega⟩

theorem block_ext {a b : LineBlock} (h1 : a.comments = b.comments) (h2 : a.start = b.start) (h3 : a.lparen = b.lparen)
    (h4 : a.token = b.token) (h5 : a.lines = b.lines) (h6 : a.rparen = b.rparen) : a = b := by
  cases a; cases b; simp_all

theorem sufT_eol (cs : List Comment) (R : Bytes) :
    (sufT D cs R).kind.isEOL = true ∧ (sufT D cs R).kind ≠ .eof ∧
      ((sufT D cs R).kind = .punct 10 ∨ (sufT D cs R).kind = .eolComment) := by
  unfold sufT; split <;> simp [eolT, nlT, TokKind.isEOL]

theorem cbOKE_none_or {ocb : Option CommentBlock} {cs : List Comment} (h : CbOKE ocb cs) :
    (ocb = none ∧ cs = []) ∨ ∃ cb, ocb = some cb ∧ cb.comments.before = cs ∧ cs ≠ [] := by
  cases ocb with
  | none => exact Or.inl ⟨rfl, h⟩
  | some cb =>
    obtain ⟨h1, _, _, c0, r, h4, _⟩ := h
    exact Or.inr ⟨cb, rfl, h1, by rw [h4]; simp⟩

theorem file_stmtE (s : Expr) (rest : List Expr) (i : Input) (stmtsRev : List Expr) (fuel : Nat)
    (hwf : EWFStmt s) (hS : EStream D (stmtsT D (s :: rest)) i) (hf : (stmtsT D (s :: rest)).length ≤ fuel) :
    ∃ s' i' fuel', parseFileLoop fuel i stmtsRev none = parseFileLoop fuel' i' (s' :: stmtsRev) none ∧
      zidE s' = eStmt D s (sepR rest) ∧ EStream D (stmtsT D rest) i' ∧
      fut (stmtsT D rest) i' = fut (stmtsT D (s :: rest)) i ∧ (stmtsT D rest).length ≤ fuel' := by
  rw [stmtsT_cons] at hS hf ⊢
  obtain ⟨R, hR⟩ : ∃ R, R = sepR rest := ⟨_, rfl⟩
  rw [← hR] at hS hf ⊢
  cases s with
  | commentBlock x =>
    obtain ⟨hne, hbefore, hsuf, haft⟩ := hwf
    simp only [stmtT] at hS hf ⊢
    simp only [List.length_append, befT_length] at hf
    have hsep : 1 ≤ (sepT D rest).length := by cases rest <;> simp [sepT]
    obtain ⟨ocb', i1, fuel1, heq, hcb, hS1, hf1, hfu⟩ := top_commentsE x.comments.before none [] i stmtsRev
      fuel R (sepT D rest) rfl hbefore hS (by omega)
    simp only [List.nil_append] at hcb
    obtain ⟨c1, cs1, hx⟩ : ∃ c1 cs1, x.comments.before = c1 :: cs1 := by
      cases h : x.comments.before with
      | nil => exact absurd h hne
      | cons a b => exact ⟨a, b, rfl⟩
    obtain ⟨hne1, _⟩ := commentOK_lastOK (hbefore c1 (by rw [hx]; simp)).2
    cases ocb' with
    | none =>
      simp only [CbOKE] at hcb
      rw [hx] at hcb
      simp [befC] at hcb
    | some cb =>
      obtain ⟨hb1, hb2, hb3, c0, r0, hb4, hb5⟩ := hcb
      have hz : zidE (.commentBlock cb) = eStmt D (.commentBlock x) R := by
        simp only [zidE, eStmt]
        have hcs : cb.comments = { before := befC D 0 x.comments.before R } := by
          cases hc : cb.comments
          rw [hc] at hb1 hb2 hb3
          simp_all
        have hst : cb.start = pa D (rBefore 0 x.comments.before ++ R) := by
          rw [hb5]
          rw [hx] at hb4
          simp only [befC, hne1, Bool.false_eq_true, if_false, List.cons.injEq] at hb4
          rw [← hb4.1, hx]
          have hne2 : GoStrings.trimSpace c1.token ≠ [] := by simpa using hne1
          simp [rBefore, hne2, tabs]
        cases cb
        simp_all
      obtain ⟨m, rfl⟩ : ∃ m, fuel1 = m + 1 := ⟨fuel1 - 1, by omega⟩
      cases rest with
      | nil =>
        have hS2 : EStream D [eofT D] i1 := by simpa [sepT] using hS1
        have hk : i1.token.kind = .eof := by rw [hS2.tok]; rfl
        refine ⟨.commentBlock cb, i1, m + 1, ?_, hz, by simpa [stmtsT] using hS2, ?_, by simp [stmtsT]⟩
        · rw [heq, file_step_eof_some i1 stmtsRev cb m hk, file_step_eof_none i1 _ m hk]
        · rw [← hf1]; simp [stmtsT, sepT]
      | cons r rs =>
        have hS2 : EStream D (nlT D (stmtsB (r :: rs)) :: stmtsT D (r :: rs)) i1 := by simpa [sepT] using hS1
        obtain ⟨i2, hl, hn, hS3, hf3⟩ := EStream.lex' hS2 (by simp [nlT])
        have hk : i1.token.kind = .punct 10 := by rw [hS2.tok]; rfl
        refine ⟨.commentBlock cb, i2, m, ?_, hz, hS3, ?_, ?_⟩
        · rw [heq, file_step_blank_some i1 i2 stmtsRev cb m hk hl]
        · rw [hf3, ← hf1]; simp [sepT]
        · simp only [sepT, List.length_cons] at hf
          omega
  | line l =>
    have hwf : EWFLine l := hwf
    obtain ⟨t0, ts, htok⟩ : ∃ t0 ts, l.token = t0 :: ts := by
      cases h : l.token with
      | nil => exact absurd h hwf.ne
      | cons a b => exact ⟨a, b, rfl⟩
    obtain ⟨rest', hrest'⟩ : ∃ r, r = sufB l.comments.suffix R := ⟨_, rfl⟩
    obtain ⟨eolL, heolL⟩ : ∃ r, r = sufT D l.comments.suffix R := ⟨_, rfl⟩
    have hSeq : stmtT D (.line l) R ++ sepT D rest =
        befT D 0 l.comments.before (tokStr l.token [] ++ rest') ++ (tokStrT D l.token rest' ++ eolL :: sepT D rest) := by
      simp [stmtT, hrest', heolL, List.append_assoc]
    rw [hSeq] at hS hf ⊢
    have hlent : (tokStrT D l.token rest').length = ts.length + 1 := by
      have := congrArg List.length (tokStrT_texts (D := D) l.token rest')
      simp only [List.length_map] at this
      rw [this, htok]; rfl
    simp only [List.length_append, befT_length, List.length_cons, hlent] at hf
    obtain ⟨ocb', i1, fuel1, heq, hcb, hS1, hf1, hfu⟩ := top_commentsE l.comments.before none [] i stmtsRev
      fuel _ _ rfl hwf.before hS (by omega)
    simp only [List.nil_append] at hcb
    obtain ⟨m, rfl⟩ : ∃ m, fuel1 = m + 1 := ⟨fuel1 - 1, by omega⟩
    have htt : ∀ t ∈ l.token, TokText t := hwf.tok
    have hlt : LT (tokStrT D l.token rest') := tokStrT_LT l.token htt rest'
    have hf1' : fut (tokStrT D (t0 :: ts) rest' ++ eolL :: sepT D rest) i1 =
        fut (befT D 0 l.comments.before (tokStr l.token [] ++ rest') ++
          (tokStrT D l.token rest' ++ eolL :: sepT D rest)) i := by rw [← htok]; exact hf1
    rw [htok, tokStrT_head] at hS1 hlt hlent
    have ht0 : TokText t0 := htt t0 (by rw [htok]; simp)
    have heolk : eolL.kind.isEOL = true ∧ eolL.kind ≠ .eof := by
      rw [heolL]; exact ⟨(sufT_eol _ _).1, (sufT_eol _ _).2.1⟩
    obtain ⟨l0, i2, hp, hl0t, hl0c, hl0b, hl0s, hl0e, hS2, hf2⟩ := parseStmt_lineE _ (tokStrT D ts rest') i1 (m + 1) eolL
      (sepT D rest) hlt (by
        have := hwf.tail
        rw [htok] at this
        simpa [tokStrT_texts] using this) heolk.1 heolk.2 hS1 (by simp at hlent; omega)
    have hk1 : i1.token.kind = kindOf t0 := by rw [hS1.tok]; rfl
    obtain ⟨d1, d2, d3⟩ := tokText_file_default ht0
    obtain ⟨i3, fuel3, heq3, hS3, hf3, hfl3⟩ := file_after_stmtE rest i2 (attach ocb' (.line l0) :: stmtsRev) m hS2
      (by simp at hlent; omega)
    refine ⟨attach ocb' (.line l0), i3, fuel3, ?_, ?_, hS3, hf3.trans (hf2.trans hf1'), hfl3⟩
    · rw [heq, file_step_stmt i1 i2 stmtsRev ocb' m (.line l0) (hk1 ▸ d1) (hk1 ▸ d2) (hk1 ▸ d3) hp, heq3]
    · have hcore : zidL { l0 with comments := { before := befC D 0 l.comments.before (tokStr l.token [] ++ rest') } } =
          { id := 0,
            comments := { before := befC D 0 l.comments.before (tokStr l.token [] ++ rest') },
            start := pa D (tokStr l.token [] ++ rest'),
            token := l.token, inBlock := false, «end» := pa D rest' } := by
        apply line_ext
        · rfl
        · rfl
        · show l0.start = _
          rw [hl0s]
          simp only [tokT, htok, tokStr_cons_nil, List.append_assoc]
        · show l0.token = _
          rw [hl0t, ← tokStrT_head, tokStrT_texts, htok]
        · exact hl0b
        · show l0.«end» = _
          rw [hl0e]
          have := tokStrT_lastEnd (D := D) (t0 :: ts) rest' (tokT D t0 (tokStr ts (sepAfter t0) ++ rest')).endPos (by simp)
          rw [tokStrT_head] at this
          exact this
      simp only [eStmt, ← hrest']
      rw [← hcore]
      rcases cbOKE_none_or hcb with ⟨h1, h2⟩ | ⟨cb, h1, h2, _⟩
      · subst h1
        simp only [attach, zidE]
        congr 1
        cases l0
        simp only at hl0c
        subst hl0c
        simp [zidL, h2]
      · subst h1
        simp only [attach, Expr.setComments, Expr.comments, zidE]
        congr 1
        cases l0
        simp only at hl0c
        subst hl0c
        simp [zidL, h2]
  | lineBlock b =>
    have hwf : EWFBlock b := hwf
    obtain ⟨h0, hs, htok⟩ : ∃ h0 hs, b.token = h0 :: hs := by
      cases h : b.token with
      | nil => exact absurd h hwf.ne
      | cons a c => exact ⟨a, c, rfl⟩
    obtain ⟨body, hbody⟩ : ∃ r, r = bodyB b R := ⟨_, rfl⟩
    obtain ⟨Z, hZ⟩ : ∃ r, r = closeB b R := ⟨_, rfl⟩
    obtain ⟨RR, hRR⟩ : ∃ r, r = 41 :: sufB (rsOf b) R := ⟨_, rfl⟩
    have hZ' : Z = rBefore 0 b.rparen.comments.before ++ RR := by rw [hZ, hRR]; rfl
    obtain ⟨lpEol, hlpEol⟩ : ∃ r, r = sufT D b.lparen.comments.suffix (linesB b.lines Z) := ⟨_, rfl⟩
    obtain ⟨rpT, hrpT⟩ : ∃ r, r = tokT D [41] (sufB (rsOf b) R) := ⟨_, rfl⟩
    obtain ⟨eolR, heolR⟩ : ∃ r, r = sufT D (rsOf b) R := ⟨_, rfl⟩
    obtain ⟨lpT, hlpT⟩ : ∃ r, r = tokT D [40] body := ⟨_, rfl⟩
    have hSeq : stmtT D (.lineBlock b) R ++ sepT D rest =
        befT D 0 b.comments.before (tokStr b.token [] ++ (32 :: 40 :: body)) ++
          (tokStrT D b.token (32 :: 40 :: body) ++ lpT :: lpEol :: (linesT D b.lines Z ++
            (befT D 0 b.rparen.comments.before RR ++ rpT :: eolR :: sepT D rest))) := by
      simp [stmtT, hbody, hZ, hRR, hlpEol, hrpT, heolR, hlpT, List.append_assoc]
    rw [hSeq] at hS hf ⊢
    have hlent : (tokStrT D b.token (32 :: 40 :: body)).length = hs.length + 1 := by
      have := congrArg List.length (tokStrT_texts (D := D) b.token (32 :: 40 :: body))
      simp only [List.length_map] at this
      rw [this, htok]; rfl
    simp only [List.length_append, befT_length, List.length_cons, hlent] at hf
    obtain ⟨ocb', i1, fuel1, heq, hcb, hS1, hf1, hfu⟩ := top_commentsE b.comments.before none [] i stmtsRev
      fuel _ _ rfl hwf.before hS (by omega)
    simp only [List.nil_append] at hcb
    obtain ⟨m, rfl⟩ : ∃ m, fuel1 = m + 1 := ⟨fuel1 - 1, by omega⟩
    have htt : ∀ t ∈ b.token, TokText t := hwf.tok
    have hlt : LT (tokStrT D b.token (32 :: 40 :: body)) := tokStrT_LT b.token htt _
    have hf1' : fut (tokStrT D (h0 :: hs) (32 :: 40 :: body) ++ lpT :: lpEol :: (linesT D b.lines Z ++
            (befT D 0 b.rparen.comments.before RR ++ rpT :: eolR :: sepT D rest))) i1 =
        fut (befT D 0 b.comments.before (tokStr b.token [] ++ (32 :: 40 :: body)) ++
          (tokStrT D b.token (32 :: 40 :: body) ++ lpT :: lpEol :: (linesT D b.lines Z ++
            (befT D 0 b.rparen.comments.before RR ++ rpT :: eolR :: sepT D rest)))) i := by rw [← htok]; exact hf1
    rw [htok, tokStrT_head] at hS1 hlt hlent
    have ht0 : TokText h0 := htt h0 (by rw [htok]; simp)
    have hk40 : kindOf [40] = .punct 40 := by decide
    have hk41 : kindOf [41] = .punct 41 := by decide
    have hlpk : lpT.kind = .punct 40 ∧ lpT.text = [40] := by rw [hlpT]; exact ⟨hk40, rfl⟩
    have hrpk : rpT.kind = .punct 41 := by rw [hrpT]; exact hk41
    obtain ⟨b0, i2, hp, hb0t, hb0c, hb0l, hb0s, hb0lines, hb0r, hS2, hf2⟩ := parseStmt_blockE _ (tokStrT D hs (32 :: 40 :: body))
      lpT lpEol b.lines b.rparen.comments.before RR rpT eolR i1 (m + 1) (sepT D rest) hlt hlpk.1 hlpk.2
      (by rw [hlpEol]; exact (sufT_eol _ _).2.2) hwf.lines hwf.rbefore hrpk
      (by rw [heolR]; exact (sufT_eol _ _).1) (by rw [heolR]; exact (sufT_eol _ _).2.1) Z hZ' hS1 (by
        simp only [List.length_append, List.length_cons, befT_length] at hlent ⊢
        omega)
    have hk1 : i1.token.kind = kindOf h0 := by rw [hS1.tok]; rfl
    obtain ⟨d1, d2, d3⟩ := tokText_file_default ht0
    obtain ⟨i3, fuel3, heq3, hS3, hf3, hfl3⟩ := file_after_stmtE rest i2 (attach ocb' (.lineBlock b0) :: stmtsRev) m hS2
      (by simp only [List.length_cons] at hlent; omega)
    refine ⟨attach ocb' (.lineBlock b0), i3, fuel3, ?_, ?_, hS3, hf3.trans (hf2.trans hf1'), hfl3⟩
    · rw [heq, file_step_stmt i1 i2 stmtsRev ocb' m (.lineBlock b0) (hk1 ▸ d1) (hk1 ▸ d2) (hk1 ▸ d3) hp, heq3]
    · have hcore : ({ b0 with comments := { before := befC D 0 b.comments.before (tokStr b.token [] ++ (32 :: 40 :: body)) },
                                lines := b0.lines.map zidL } : LineBlock) =
          { comments := { before := befC D 0 b.comments.before (tokStr b.token [] ++ (32 :: 40 :: body)) },
            start := pa D (tokStr b.token [] ++ (32 :: 40 :: body)),
            lparen := { pos := pa D (40 :: body) },
            token := b.token,
            lines := eLines D b.lines Z,
            rparen := { comments := { before := befC D 0 b.rparen.comments.before RR }, pos := pa D RR } } := by
        apply block_ext
        · rfl
        · show b0.start = _
          rw [hb0s]
          simp only [tokT, htok, tokStr_cons_nil, List.append_assoc]
        · show b0.lparen = _
          rw [hb0l, hlpT]; rfl
        · show b0.token = _
          rw [hb0t, ← tokStrT_head, tokStrT_texts, htok]
        · exact hb0lines
        · show b0.rparen = _
          rw [hb0r, hrpT, hRR]; rfl
      simp only [eStmt, ← hbody, ← hZ, ← hRR]
      rw [← hcore]
      rcases cbOKE_none_or hcb with ⟨h1, h2⟩ | ⟨cb, h1, h2, _⟩
      · subst h1
        simp only [attach, zidE]
        congr 1
        cases b0
        simp only at hb0c
        subst hb0c
        simp [h2]
      · subst h1
        simp only [attach, Expr.setComments, Expr.comments, zidE]
        congr 1
        cases b0
        simp only at hb0c
        subst hb0c
        simp [h2]
  | lparen x => exact absurd hwf id
  | rparen x => exact absurd hwf id

/-! ### the file loop -/

/-- ★ stage (iii), parsing half: on the token records of a rendered tree the file loop returns the expected
    statements with every position explicit -/
theorem parseFileLoop_E : ∀ (u : List Expr) (i : Input) (stmtsRev : List Expr) (fuel : Nat),
    EWFStmts u → EStream D (stmtsT D u) i → (stmtsT D u).length ≤ fuel →
    ∃ out i', parseFileLoop fuel i stmtsRev none = .ok (stmtsRev.reverse ++ out, i') ∧
      out.map zidE = eStmts D u ∧ i'.commentsRev.reverse = fut (stmtsT D u) i := by
  intro u
  induction u with
  | nil =>
    intro i stmtsRev fuel _ hS hf
    have hS0 : EStream D [eofT D] i := by simpa [stmtsT] using hS
    obtain ⟨m, rfl⟩ : ∃ m, fuel = m + 1 := ⟨fuel - 1, by simp [stmtsT] at hf; omega⟩
    have hk : i.token.kind = .eof := by rw [hS0.tok]; rfl
    exact ⟨[], i, by rw [file_step_eof_none i stmtsRev m hk]; simp, rfl, by simp [fut, stmtsT, recs]⟩
  | cons s rest ih =>
    intro i stmtsRev fuel hwf hS hf
    obtain ⟨s', i1, fuel1, heq, hes, hS1, hf1, hfl1⟩ := file_stmtE s rest i stmtsRev fuel (hwf s (by simp)) hS hf
    obtain ⟨out, i2, hres, hout, hc2⟩ := ih i1 (s' :: stmtsRev) fuel1 (fun x h => hwf x (by simp [h])) hS1 hfl1
    refine ⟨s' :: out, i2, ?_, by rw [eStmts_cons]; simp [hes, hout], by rw [hc2, hf1]⟩
    rw [heq, hres]
    simp

end ModVerif.Proofs.ModfileEol
