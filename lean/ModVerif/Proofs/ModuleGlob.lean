/-
  Helper lemmas for C06: MatchPrefixPatterns' prefix walk against the element-wise specification.
-/
import ModVerif.Model.Module
import ModVerif.Spec.PathSpec
import ModVerif.Proofs.ModulePath
namespace ModVerif.Module
open ModVerif

theorem joinWith_cons_cons (sep x y : Bytes) (ys : List Bytes) :
    joinWith sep (x :: y :: ys) = x ++ sep ++ joinWith sep (y :: ys) := by
  simp [joinWith]

theorem joinWith_cons_head (sep : Bytes) (c : UInt8) (hd : Bytes) (l : List Bytes) :
    joinWith sep ((c :: hd) :: l) = c :: joinWith sep (hd :: l) := by
  cases l with
  | nil => simp [joinWith]
  | cons y ys => simp [joinWith_cons_cons]

theorem cutPrefix_eq (t : Bytes) : ∀ n : Nat,
    cutPrefix n t = if n + 1 ≤ (splitOn 47 t).length then some (PathSpec.firstElems (n + 1) t) else none := by
  unfold PathSpec.firstElems
  induction t with
  | nil =>
    intro n
    cases n <;> simp [cutPrefix, splitOn, joinWith]
  | cons c rest ih =>
    intro n
    by_cases hc : c = 47
    · subst hc
      rw [splitOn_cons_sep]
      cases n with
      | zero => simp [cutPrefix, joinWith]
      | succ k =>
        simp only [cutPrefix, beq_self_eq_true, if_true, ih k, List.length_cons]
        obtain ⟨y, ys, hy⟩ : ∃ y ys, (splitOn 47 rest).take (k + 1) = y :: ys := by
          cases hs : splitOn 47 rest with
          | nil => exact absurd hs (splitOn_ne_nil 47 rest)
          | cons a as => exact ⟨a, as.take k, by simp⟩
        by_cases hle : k + 1 ≤ (splitOn 47 rest).length
        · have : k + 1 + 1 ≤ (splitOn 47 rest).length + 1 := by omega
          simp only [hle, this, if_true, Option.map_some, List.take_succ_cons, hy, joinWith_cons_cons]
          simp
        · have : ¬ (k + 1 + 1 ≤ (splitOn 47 rest).length + 1) := by omega
          simp [hle, this]
    · obtain ⟨hd, tl, h1, h2⟩ := splitOn_cons_ne 47 c rest hc
      have hc' : (c == 47) = false := by simpa using hc
      simp only [cutPrefix, hc', Bool.false_eq_true, if_false, ih n, h1, h2, List.length_cons]
      by_cases hle : n + 1 ≤ tl.length + 1
      · simp only [hle, if_true, Option.map_some, List.take_succ_cons, joinWith_cons_head]
      · simp [hle]

theorem trimSuffixB_slash (g : Bytes) : trimSuffixB g [47] = PathSpec.dropTrailingSlash g := by
  unfold trimSuffixB PathSpec.dropTrailingSlash hasSuffixB
  have h1 : isPrefixOfB ([47] : Bytes).reverse g.reverse = true ↔ g.getLast? = some 47 := by
    cases hr : g.reverse with
    | nil =>
      have : g = [] := by simpa using hr
      subst this; simp [isPrefixOfB]
    | cons x xs =>
      have hg : g = xs.reverse ++ [x] := by
        have := congrArg List.reverse hr; simpa using this
      subst hg
      simp [isPrefixOfB]
      exact eq_comm
  by_cases h : g.getLast? = some 47
  · rw [if_pos (h1.mpr h), if_pos h, List.dropLast_eq_take]; simp
  · rw [if_neg (fun hh => h (h1.mp hh)), if_neg h]

theorem matchOne_iff (glob : Bytes → Bytes → Bool) (g target : Bytes) :
    matchOne glob g target = true ↔
      PathSpec.dropTrailingSlash g ≠ [] ∧
      (PathSpec.dropTrailingSlash g).count 47 + 1 ≤ (splitOn 47 target).length ∧
      glob (PathSpec.dropTrailingSlash g)
        (PathSpec.firstElems ((PathSpec.dropTrailingSlash g).count 47 + 1) target) = true := by
  unfold matchOne
  simp only [trimSuffixB_slash, cutPrefix_eq]
  by_cases he : PathSpec.dropTrailingSlash g = []
  · simp [he]
  · have : (PathSpec.dropTrailingSlash g).isEmpty = false := by simpa using he
    simp only [this, Bool.false_eq_true, if_false]
    by_cases hle : (PathSpec.dropTrailingSlash g).count 47 + 1 ≤ (splitOn 47 target).length
    · simp [hle, he]
    · simp [hle]

end ModVerif.Module
