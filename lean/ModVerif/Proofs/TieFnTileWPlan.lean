/-
  Helpers for Tie/FnTileW.lean, part 3: the planning phase `planG` of the regenerated `ReadHashes` (Proofs/TieFnTileWMain.lean)
  computes the tiles of the model's plan (`Tile.plan`), by the loop lemmas of Proofs/TieFnTilePlan.lean.
-/
import ModVerif.Proofs.TieFnTileWMain
import ModVerif.Proofs.TieFnTileReadHashes
namespace ModVerif.TieFnTileW
open ModVerif ModVerif.GoRt ModVerif.GoRtTile ModVerif.TieFnTlogInt ModVerif.TieFnTile

section
variable {H : Type} [DecidableEq H] [Inhabited H] (node : H → H → H) (ofBytes : Bytes → H)

/-- is `ReadTiles` called, and with which tiles: the model's view -/
def planCall (h N : Nat) (idx : List Nat) : Option (List Tile.Tile) :=
  match Tile.plan h N idx with
  | .ok p => if p.stx.isEmpty then none else some p.tiles
  | .error _ => none

theorem planG_eq (fuel h N : Nat) (idx : List Nat) (rp : Generated.Tile.tileHashReader H)
    (h1 : 1 ≤ h) (h57 : h ≤ 57) (hN : N < 2 ^ 62) (hrN : rp.tree.N = (N : Int)) (hrH : rp.tr.Height = (h : Int))
    (hf : idx.length + 400 ≤ fuel) :
    planG node ofBytes fuel rp (idx.map Int.ofNat) = .ok ((planCall h N idx).map (·.map toGen)) := by
  obtain ⟨cs, tiles0, order0, sto, hst, hcov, hps, hvalid, hres, hplan⟩ := plan_decomp h N h1 hN idx
  generalize hstx : cs.map TileAuth.idxOf = stx at hst hps hvalid hplan
  have hstxlen : stx.length ≤ 62 := by
    rw [← hstx, List.length_map]
    exact cover_length_log cs 0 N 62 hcov (by omega)
  have hsub := subTreeIndex_eq fuel 0 N [] (by omega) (by omega)
  rw [hst] at hsub
  simp only [subTreeIndexOut, List.nil_append, Int.natCast_zero] at hsub
  have hlenstx : len (stx.map Int.ofNat) = ((stx.length : Nat) : Int) := by simp [len]
  have hlenidx : len (idx.map Int.ofNat) = ((idx.length : Nat) : Int) := by simp [len]
  obtain ⟨og1, hl1, hrel1⟩ := TieFnTile.loop1_eq node ofBytes rp [] h N h1 h57 hN hrN stx stx [] [] [] [] [] fuel (tiles0, order0, sto)
    rfl rfl hvalid mapRel_nil hps (by omega)
  simp only [List.length_nil, Int.natCast_zero, List.map_nil, List.nil_append] at hl1
  have hl2 := TieFnTile.loop2_eq node ofBytes rp [] h N h1 h57 hN hrN idx idx [] tiles0 order0 [] og1 fuel rfl rfl hrel1 hres (by omega)
  simp only [List.length_nil, Int.natCast_zero, List.map_nil, List.nil_append] at hl2
  unfold planG
  simp only [hrN, hrH, hsub, mbind_ok, hlenstx, makeList_natCast, hl1, hlenidx]
  cases hpi : Tile.planIndexes h N idx (tiles0, order0, []) with
  | error e =>
    rw [hpi] at hl2 hplan
    simp only at hl2 hplan
    simp only [hl2, mbind_ok, mpure, planCall, hplan, Option.map_none]
  | ok res =>
    obtain ⟨tiles, order, ito⟩ := res
    rw [hpi] at hl2 hplan
    simp only at hl2 hplan
    obtain ⟨og2, hg2, hrel2⟩ := hl2
    simp only [hg2, mbind_ok, planCall, hplan]
    by_cases hs0 : stx.length = 0
    · have hstxnil : stx = [] := List.eq_nil_of_length_eq_zero hs0
      simp [hstxnil]
    · have hs0' : ¬ (((stx.length : Nat) : Int) = 0) := by omega
      have hstxne : stx.isEmpty = false := by
        cases stx with
        | nil => simp at hs0
        | cons a b => rfl
      have hne : ¬ stx = [] := by intro hc; rw [hc] at hs0; exact hs0 rfl
      simp [hstxne, hne]

theorem planCall_some (h N : Nat) (idx : List Nat) (tiles : List Tile.Tile) (hc : planCall h N idx = some tiles) :
    tiles = planTiles h N idx := by
  unfold planCall at hc
  unfold planTiles
  cases hp : Tile.plan h N idx with
  | error e => rw [hp] at hc; cases hc
  | ok p =>
    rw [hp] at hc
    simp only at hc
    split at hc
    · cases hc
    · cases hc; rfl

omit [Inhabited H] in
/-- when `ReadTiles` is not called (`planCall = none`), the model reports that `SaveTiles` is not called -/
theorem saved_none_of_planCall_none (N : Nat) (th : H) (h : Nat) (idx : List Nat) (serve : Tile.Tile → Option (List H))
    (hc : planCall h N idx = none) : (Tile.readHashes node N th h idx serve).saved = none := by
  unfold planCall at hc
  unfold Tile.readHashes
  cases hp : Tile.plan h N idx with
  | error e => rfl
  | ok p =>
    rw [hp] at hc
    simp only at hc ⊢
    split at hc
    · rename_i he; simp [he]
    · cases hc

/-- a successful world-mode run comes from a successful pure run with the same value; the final world is the world after
    `Height` (`w1`) or after one `readTiles` call in `w1`, followed by `saveTiles` on the entries of the pure effect log -/
theorem stagedW_ok_pure {W : Type} (readTiles : List Generated.Tile.Tile → W → M ((List Bytes × Option String) × W))
    (saveTiles : List Generated.Tile.Tile → List Bytes → W → M (Unit × W)) (fuel : Nat)
    (rp : Generated.Tile.tileHashReader H) (indexes : List Int) (w1 : W) (res : List H × Option String) (w' : W)
    (hs : stagedW node ofBytes readTiles saveTiles fuel rp indexes w1 = .ok (res, w')) :
    ∃ log w2, Generated.Tile.tileHashReader_ReadHashes node ofBytes fuel rp indexes = .ok (res, log) ∧
      (w2 = w1 ∨ ∃ tiles de, readTiles tiles w1 = .ok (de, w2)) ∧ saveLog saveTiles log w2 = .ok w' := by
  have key : ∀ w2, finishW saveTiles w2 (Generated.Tile.tileHashReader_ReadHashes node ofBytes fuel rp indexes) = .ok (res, w') →
      ∃ log, Generated.Tile.tileHashReader_ReadHashes node ofBytes fuel rp indexes = .ok (res, log) ∧
        saveLog saveTiles log w2 = .ok w' := by
    intro w2 hfin
    cases hp : Generated.Tile.tileHashReader_ReadHashes node ofBytes fuel rp indexes with
    | error e => rw [hp] at hfin; cases hfin
    | ok v =>
      obtain ⟨res', log⟩ := v
      rw [hp] at hfin
      simp only [finishW] at hfin
      cases hsl : saveLog saveTiles log w2 with
      | error e => rw [hsl] at hfin; cases hfin
      | ok w3 =>
        rw [hsl] at hfin
        simp only [Except.ok.injEq, Prod.mk.injEq] at hfin
        exact ⟨log, by rw [hfin.1], by rw [hsl, hfin.2]⟩
  unfold stagedW at hs
  cases hpl : planG node ofBytes fuel rp indexes with
  | error e => rw [hpl] at hs; cases hs
  | ok o =>
    rw [hpl] at hs
    cases o with
    | none =>
      obtain ⟨log, h1, h2⟩ := key w1 hs
      exact ⟨log, w1, h1, Or.inl rfl, h2⟩
    | some tiles =>
      simp only at hs
      cases hrt : readTiles tiles w1 with
      | error e => rw [hrt] at hs; cases hs
      | ok v =>
        obtain ⟨de, w2⟩ := v
        rw [hrt] at hs
        obtain ⟨log, h1, h2⟩ := key w2 hs
        exact ⟨log, w2, h1, Or.inr ⟨tiles, de, hrt⟩, h2⟩

end
end ModVerif.TieFnTileW
