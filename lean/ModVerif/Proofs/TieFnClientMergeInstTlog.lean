/-
  Tie proofs, sumdb/client.go (merge unit), INSTANTIATION part 1: `treeHashW` and `proveTreeW` of the regenerated client
  against the model's `treeHashVia` / `proveTreeVia`, from the tie of `readHashesW` (`ReadHashesSpec`) and the world-mode ties
  of `tlog.TreeHash` / `tlog.ProveTree` (Tie/FnTlogW.lean).
-/
import ModVerif.Proofs.TieFnClientMergeSpec
import ModVerif.Proofs.TieFnClientMergeLen
import ModVerif.Tie.FnTlogW
namespace ModVerif.TieFnClientMerge
open ModVerif ModVerif.GoRt ModVerif.Client ModVerif.Generated.SumdbClient ModVerif.TieFnClientRep
open ModVerif.TieFnTlogInt ModVerif.TieFnTlogW
open ModVerif.Tie.FnTlogProof (idxOf PanicOnly)

theorem errAbs_readerLen : errAbs "tlog: ReadHashes(%d indexes) = %d hashes" = .tlog .reader := by decide

section
variable {H : Type}

/-- the errors of the model's `treeHash`: a failed read, or a Go panic site / the model's fuel -/
theorem treeHash_errs (node : H → H → H) (empty : H) (n : Nat) (r : Tlog.HashReader H) (e : Tlog.Err)
    (h : Tlog.treeHash node empty n r = .error e) : e = .reader ∨ e = .panic ∨ e = .fuel := by
  unfold Tlog.treeHash at h
  split at h
  · cases h
  · cases hi : Tlog.subTreeIndex 0 n with
    | error e1 =>
      rw [hi] at h
      cases h
      rcases Tie.FnTlogProof.subTreeIndex_panicOnly 0 n e hi with h | h <;> simp [h]
    | ok idx =>
      rw [hi] at h
      simp only [bind, Except.bind] at h
      cases hr : Tlog.readChecked r idx with
      | error e1 =>
        rw [hr] at h
        cases h
        exact Or.inl (Tie.FnTlogProof.readChecked_err r idx e hr)
      | ok hs =>
        rw [hr] at h
        simp only at h
        cases hs2 : Tlog.subTreeHash node 0 n hs with
        | error e1 =>
          rw [hs2] at h
          cases h
          rcases Tie.FnTlogProof.subTreeHash_panicOnly node 0 n hs e hs2 with h | h <;> simp [h]
        | ok v =>
          rw [hs2] at h
          obtain ⟨hash, rest⟩ := v
          simp only at h
          split at h
          · cases h; exact Or.inr (Or.inl rfl)
          · cases h

/-- the errors of the model's `proveTree` -/
theorem proveTree_errs (node : H → H → H) (t n : Int) (r : Tlog.HashReader H) (e : Tlog.Err)
    (h : Tlog.proveTree node t n r = .error e) : e = .invalid ∨ e = .reader ∨ e = .panic ∨ e = .fuel := by
  unfold Tlog.proveTree at h
  split at h
  · cases h; exact Or.inl rfl
  · simp only [] at h
    cases hi : Tlog.treeProofIndex 0 t.toNat n.toNat with
    | error e1 =>
      rw [hi] at h
      cases h
      rcases Tie.FnTlogProof.treeProofIndexF_panicOnly _ 0 t.toNat n.toNat e hi with h | h <;> simp [h]
    | ok idx =>
      rw [hi] at h
      simp only [bind, Except.bind] at h
      split at h
      · cases h
      · cases hr : Tlog.readChecked r idx with
        | error e1 =>
          rw [hr] at h
          cases h
          exact Or.inr (Or.inl (Tie.FnTlogProof.readChecked_err r idx e hr))
        | ok hs =>
          rw [hr] at h
          simp only at h
          cases hs2 : Tlog.treeProof node 0 t.toNat n.toNat hs with
          | error e1 =>
            rw [hs2] at h
            cases h
            rcases Tie.FnTlogProof.treeProofF_panicOnly node _ 0 t.toNat n.toNat hs e hs2 with h | h <;> simp [h]
          | ok v =>
            rw [hs2] at h
            obtain ⟨p, rest⟩ := v
            simp only at h
            split at h
            · cases h; exact Or.inr (Or.inr (Or.inl rfl))
            · cases h

end

section
variable {σ H : Type} [DecidableEq H] [Inhabited H] {P : Params H} {E : Env σ}

/-- the index list `treeHashVia` reads (`[]` when it reads nothing) -/
def treeHashIdx (n : Nat) : List Nat := idxOf (Tlog.subTreeIndex 0 n)

/-- fuel of `treeHashW`: `TreeHash` itself (`n + 127`) and the read -/
def treeHashFuel (FR : World σ H → Head H → List Nat → Nat) (w : World σ H) (n : Nat) (tree : Head H) : Nat :=
  max (n + 127) (FR w tree (treeHashIdx n))

/-- the index list `proveTreeVia` reads -/
def proveTreeIdx (t n : Nat) : List Nat := idxOf (Tlog.treeProofIndex 0 t n)

/-- fuel of `proveTreeW` -/
def proveTreeFuel (FR : World σ H → Head H → List Nat → Nat) (w : World σ H) (t n : Nat) (tree : Head H) : Nat :=
  max (t + 127) (FR w tree (proveTreeIdx t n))

/-- ★ `tlog.TreeHash(n, tlog.TileHashReader(tree, &c.tileReader))` -/
theorem treeHashSpec_of_readHashes (FR : World σ H → Head H → List Nat → Nat) (hR : ReadHashesSpec P E FR) :
    TreeHashSpec P E (treeHashFuel FR) := by
  intro w cw n tree fuel hr htree hn hf hnorm
  have hf1 : n + 127 ≤ fuel := Nat.le_trans (Nat.le_max_left _ _) hf
  have hf2 : FR w tree (treeHashIdx n) ≤ fuel := Nat.le_trans (Nat.le_max_right _ _) hf
  have h62 : (2 : Int) ^ 62 = 4611686018427387904 := by decide
  have h62n : (2 : Nat) ^ 62 = 4611686018427387904 := by decide
  unfold treeHashW
  rw [Tie.FnTlogW.TreeHash_tie (envOf P E).node _ (envOf P E).empty fuel (n : Int) cw (by omega) (by omega) (by omega)]
  simp only [Int.toNat_natCast]
  by_cases hz : n = 0
  · subst hz
    have hm : treeHashVia P E w 0 tree = (.ok P.empty, w) := by simp [treeHashVia]
    rw [hm]
    simp only [Int.natCast_zero, if_true]
    exact ⟨_, _, rfl, hr, ⟨rfl, rfl⟩, FrameG.refl _, FrameM.refl _⟩
  · have hz' : ¬ ((n : Int) = 0) := by omega
    have hb : (n == 0) = false := by simpa using hz
    simp only [hz', if_false]
    cases hi : Tlog.subTreeIndex 0 n with
    | error e1 =>
      exfalso
      have hm : (treeHashVia P E w n tree).1 = .error (.tlog e1) := by simp [treeHashVia, hb, hi]
      rcases Tie.FnTlogProof.subTreeIndex_panicOnly 0 n e1 hi with h | h
      · subst h; exact hnorm _ hm trivial
      · subst h; exact hnorm _ hm trivial
    | ok idx =>
      have hidx : treeHashIdx n = idx := by unfold treeHashIdx; rw [hi]; rfl
      rw [hidx] at hf2
      have hm : treeHashVia P E w n tree =
          match (readHashes P E w tree idx).1 with
          | .error e => (.error e, (readHashes P E w tree idx).2)
          | .ok hs => (liftTlog (Tlog.treeHash P.node P.empty n (fun _ => some hs)), (readHashes P E w tree idx).2) := by
        simp only [treeHashVia, hb, hi, Bool.false_eq_true, if_false]
        cases (readHashes P E w tree idx).1 <;> rfl
      have hnr : Normal (readHashes P E w tree idx).1 := by
        intro e he
        apply hnorm e
        rw [hm, he]
      have hil : idx.length < 2 ^ 56 := by
        have := subTreeIndex_length 0 n idx hi (by omega)
        have h56 : (2 : Nat) ^ 56 = 72057594037927936 := by decide
        omega
      obtain ⟨r1, cw1, e1, rr1, rs1, fg1, fm1⟩ := hR w cw tree idx fuel hr htree hil hf2 hnr
      simp only [subTreeIndexOut, List.nil_append, viaRead, e1]
      obtain ⟨hs1, err1⟩ := r1
      rw [hm] at hnorm ⊢
      simp only [idxOf]
      cases hrh : (readHashes P E w tree idx).1 with
      | error e =>
        rw [hrh] at rs1
        obtain ⟨s, hs, habs⟩ := rs1
        simp only at hs
        subst hs
        have hro : Tlog.treeHash (envOf P E).node (envOf P E).empty n (readerOf fun _ => (hs1, some s)) = .error .reader := by
          rw [Tie.FnTlogW.readerOf_const_some]
          simp [Tlog.treeHash, hb, hi, Tlog.readChecked, bind, Except.bind]
        simp only [hro, Tie.FnTlogProof.readOut, readErrOf]
        exact ⟨_, _, rfl, rr1, ⟨s, rfl, habs⟩, fg1, fm1⟩
      | ok hs =>
        rw [hrh] at rs1 hnorm
        obtain ⟨he1, hh1⟩ := rs1
        simp only at he1 hh1
        subst he1 hh1
        simp only [] at hnorm ⊢
        rw [Tie.FnTlogW.readerOf_const_none]
        have hnode : (envOf P E).node = P.node := rfl
        have hempty : (envOf P E).empty = P.empty := rfl
        rw [hnode, hempty]
        cases hth : Tlog.treeHash P.node P.empty n (fun _ => some hs1) with
        | ok h =>
          simp only [Tie.FnTlogProof.readOut, liftTlog]
          exact ⟨_, _, rfl, rr1, ⟨rfl, rfl⟩, fg1, fm1⟩
        | error e =>
          rw [hth] at hnorm
          rcases treeHash_errs P.node P.empty n _ e hth with h | h | h
          · subst h
            simp only [Tie.FnTlogProof.readOut, readErrOf, liftTlog]
            exact ⟨_, _, rfl, rr1, ⟨_, rfl, errAbs_readerLen⟩, fg1, fm1⟩
          · subst h; exact absurd trivial (hnorm _ rfl)
          · subst h; exact absurd trivial (hnorm _ rfl)

/-- ★ `tlog.ProveTree(t, n, tlog.TileHashReader(tree, &c.tileReader))` -/
theorem proveTreeSpec_of_readHashes (FR : World σ H → Head H → List Nat → Nat) (hR : ReadHashesSpec P E FR) :
    ProveTreeSpec P E (proveTreeFuel FR) := by
  intro w cw t n tree fuel hr htree ht hf hnorm
  have hf1 : t + 127 ≤ fuel := Nat.le_trans (Nat.le_max_left _ _) hf
  have hf2 : FR w tree (proveTreeIdx t n) ≤ fuel := Nat.le_trans (Nat.le_max_right _ _) hf
  have h62 : (2 : Int) ^ 62 = 4611686018427387904 := by decide
  have h62n : (2 : Nat) ^ 62 = 4611686018427387904 := by decide
  unfold proveTreeW
  rw [Tie.FnTlogW.ProveTree_tie (envOf P E).node _ fuel (t : Int) (n : Int) cw (by omega) (by omega)]
  simp only [Int.toNat_natCast]
  by_cases hg : t < 1 ∨ n < 1 ∨ n > t
  · have hg' : (t : Int) < 1 ∨ (n : Int) < 1 ∨ (n : Int) > (t : Int) := by omega
    have hm : proveTreeVia P E w t n tree = (.error (.tlog .invalid), w) := by
      have : (decide (t < 1) || decide (n < 1) || decide (n > t)) = true := by
        rcases hg with h | h | h <;> simp [h]
      simp only [proveTreeVia, this, if_true]
    rw [hm]
    simp only [hg', if_true]
    exact ⟨_, _, rfl, hr, ⟨_, rfl, errAbs_invalidTree⟩, FrameG.refl _, FrameM.refl _⟩
  · have hg' : ¬ ((t : Int) < 1 ∨ (n : Int) < 1 ∨ (n : Int) > (t : Int)) := by omega
    have hb : (decide (t < 1) || decide (n < 1) || decide (n > t)) = false := by simp; omega
    simp only [hg', if_false]
    cases hi : Tlog.treeProofIndex 0 t n with
    | error e1 =>
      exfalso
      have hm : (proveTreeVia P E w t n tree).1 = .error (.tlog e1) := by
        simp only [proveTreeVia, hb, Bool.false_eq_true, if_false, hi]
      rcases Tie.FnTlogProof.treeProofIndexF_panicOnly _ 0 t n e1 hi with h | h
      · subst h; exact hnorm _ hm trivial
      · subst h; exact hnorm _ hm trivial
    | ok idx =>
      have hidx : proveTreeIdx t n = idx := by unfold proveTreeIdx; rw [hi]; rfl
      rw [hidx] at hf2
      simp only [subTreeIndexOut, List.nil_append]
      by_cases hnil : idx = []
      · subst hnil
        have hm : proveTreeVia P E w t n tree = (.ok [], w) := by
          simp only [proveTreeVia, hb, Bool.false_eq_true, if_false, hi, List.length_nil, beq_self_eq_true, if_true]
        rw [hm]
        simp only [List.map_nil, if_true]
        exact ⟨_, _, rfl, hr, ⟨rfl, rfl⟩, FrameG.refl _, FrameM.refl _⟩
      · have hlen : (idx.length == 0) = false := by
          cases idx with
          | nil => exact absurd rfl hnil
          | cons a b => rfl
        have hmapnil : ¬ (idx.map Int.ofNat = []) := by
          cases idx with
          | nil => exact absurd rfl hnil
          | cons a b => simp
        simp only [hmapnil, if_false]
        have hm : proveTreeVia P E w t n tree =
            match (readHashes P E w tree idx).1 with
            | .error e => (.error e, (readHashes P E w tree idx).2)
            | .ok hs => (liftTlog (Tlog.proveTree P.node (t : Int) (n : Int) (fun _ => some hs)), (readHashes P E w tree idx).2) := by
          simp only [proveTreeVia, hb, hi, hlen, Bool.false_eq_true, if_false]
          cases (readHashes P E w tree idx).1 <;> rfl
        have hnr : Normal (readHashes P E w tree idx).1 := by
          intro e he
          apply hnorm e
          rw [hm, he]
        have hil : idx.length < 2 ^ 56 := by
          have := treeProofIndex_length t n idx hi ht
          have h56 : (2 : Nat) ^ 56 = 72057594037927936 := by decide
          omega
        obtain ⟨r1, cw1, e1, rr1, rs1, fg1, fm1⟩ := hR w cw tree idx fuel hr htree hil hf2 hnr
        simp only [viaRead, e1]
        obtain ⟨hs1, err1⟩ := r1
        rw [hm] at hnorm ⊢
        simp only [idxOf]
        cases hrh : (readHashes P E w tree idx).1 with
        | error e =>
          rw [hrh] at rs1
          obtain ⟨s, hs, habs⟩ := rs1
          simp only at hs
          subst hs
          have hro : Tlog.proveTree (envOf P E).node (t : Int) (n : Int) (readerOf fun _ => (hs1, some s)) = .error .reader := by
            rw [Tie.FnTlogW.readerOf_const_some]
            have hb' : (decide ((t : Int) < 1) || decide ((n : Int) < 1) || decide ((n : Int) > (t : Int))) = false := by
              simp; omega
            simp only [Tlog.proveTree, hb', Bool.false_eq_true, if_false, Int.toNat_natCast, hi, hlen, Tlog.readChecked, bind,
              Except.bind]
          simp only [hro, Tie.FnTlogProof.readOut, readErrOf]
          exact ⟨_, _, rfl, rr1, ⟨s, rfl, habs⟩, fg1, fm1⟩
        | ok hs =>
          rw [hrh] at rs1 hnorm
          obtain ⟨he1, hh1⟩ := rs1
          simp only at he1 hh1
          subst he1 hh1
          simp only [] at hnorm ⊢
          rw [Tie.FnTlogW.readerOf_const_none]
          have hnode : (envOf P E).node = P.node := rfl
          rw [hnode]
          cases hth : Tlog.proveTree P.node (t : Int) (n : Int) (fun _ => some hs1) with
          | ok p =>
            simp only [Tie.FnTlogProof.readOut, liftTlog]
            exact ⟨_, _, rfl, rr1, ⟨rfl, rfl⟩, fg1, fm1⟩
          | error e =>
            rw [hth] at hnorm
            rcases proveTree_errs P.node _ _ _ e hth with h | h | h | h
            · subst h
              simp only [Tie.FnTlogProof.readOut, liftTlog]
              exact ⟨_, _, rfl, rr1, ⟨_, rfl, errAbs_invalidTree⟩, fg1, fm1⟩
            · subst h
              simp only [Tie.FnTlogProof.readOut, readErrOf, liftTlog]
              exact ⟨_, _, rfl, rr1, ⟨_, rfl, errAbs_readerLen⟩, fg1, fm1⟩
            · subst h; exact absurd trivial (hnorm _ rfl)
            · subst h; exact absurd trivial (hnorm _ rfl)

end
end ModVerif.TieFnClientMerge
