/-
  C10 structural fact (a): the tree-hash indexes (`subTreeIndex 0 N`, a `Cover` of `[0, N)`) lie in the right-edge
  tiles of their tile levels, and together they cover every hash of every right-edge partial tile.
-/
import ModVerif.Proofs.TileAuthTile
import ModVerif.Proofs.TlogStoreTree
namespace ModVerif.TileAuth
open ModVerif ModVerif.Tlog ModVerif.Tile ModVerif.TlogStore

/-- a block `(b, c)` of the cover of `[0, N)`: inside the tree, the largest that fits, and a left child (or the root) -/
def BlockOK (N : Nat) (c : Nat × Nat) : Prop :=
  (c.2 + 1) * 2 ^ c.1 ≤ N ∧ N < c.2 * 2 ^ c.1 + 2 ^ (c.1 + 1) ∧ c.2 % 2 = 0

theorem cover_props : ∀ cs lo hi, Cover cs lo hi → (∃ j, 2 ^ j ∣ lo ∧ hi - lo < 2 ^ j) → ∀ c ∈ cs, BlockOK hi c := by
  intro cs
  induction cs with
  | nil => intro lo hi _ _ c hc; simp at hc
  | cons c0 cs ih =>
    intro lo hi h hal c hc
    obtain ⟨l, k⟩ := c0
    simp only [Cover] at h
    obtain ⟨h1, h2, h3, h4⟩ := h
    have hp := Nat.two_pow_pos l
    rcases List.mem_cons.mp hc with e | e
    · subst e
      obtain ⟨j, hj1, hj2⟩ := hal
      refine ⟨by simp only; rw [Nat.add_mul]; omega, by simp only; omega, ?_⟩
      simp only
      have hlj : l + 1 ≤ j := by
        apply Nat.le_of_not_lt
        intro hc'
        have := Nat.pow_le_pow_right (n := 2) (by omega) (Nat.le_of_lt_succ hc')
        omega
      have hd : 2 ^ (l + 1) ∣ k * 2 ^ l := by
        rw [h1]; exact Nat.dvd_trans (Nat.pow_dvd_pow 2 hlj) hj1
      obtain ⟨z, hz⟩ := hd
      have : k * 2 ^ l = (2 * z) * 2 ^ l := by rw [hz, Nat.pow_succ]; ac_rfl
      have := Nat.eq_of_mul_eq_mul_right hp this
      omega
    · exact ih (lo + 2 ^ l) hi h4 ⟨l, Nat.dvd_add (by rw [← h1]; exact Nat.dvd_mul_left _ _) (Nat.dvd_refl _),
        by rw [Nat.pow_succ] at h3; omega⟩ c e

theorem cover_find : ∀ cs lo hi, Cover cs lo hi → ∀ a, lo ≤ a → a < hi →
    ∃ c ∈ cs, c.2 * 2 ^ c.1 ≤ a ∧ a < (c.2 + 1) * 2 ^ c.1 := by
  intro cs
  induction cs with
  | nil => intro lo hi h a h1 h2; simp [Cover] at h; omega
  | cons c0 cs ih =>
    intro lo hi h a ha1 ha2
    obtain ⟨l, k⟩ := c0
    simp only [Cover] at h
    obtain ⟨h1, h2, h3, h4⟩ := h
    by_cases hlt : a < lo + 2 ^ l
    · exact ⟨(l, k), by simp, by simp only; omega, by simp only; rw [Nat.add_mul]; omega⟩
    · obtain ⟨c, hc, hc'⟩ := ih (lo + 2 ^ l) hi h4 a (by omega) ha2
      exact ⟨c, by simp [hc], hc'⟩

theorem strictAligned_zero (N : Nat) : ∃ j, 2 ^ j ∣ 0 ∧ N - 0 < 2 ^ j :=
  ⟨N, Nat.dvd_zero _, by have := Nat.lt_two_pow_self (n := N); omega⟩

/-- (a), first half: the tile of a tree-hash index is the right-edge tile of its level -/
theorem block_tile_rightmost (h N : Nat) (hh : 0 < h) (c : Nat × Nat) (hc : BlockOK N c) :
    tnum h c.1 c.2 = cnt h N (c.1 / h + 1) := by
  obtain ⟨b, c⟩ := c
  obtain ⟨h1, h2, h3⟩ := hc
  simp only at h1 h2 h3 ⊢
  unfold tnum cnt
  have hr := Nat.mod_lt b hh
  have hq : 1 ≤ h - b % h := by omega
  have hP : 2 ^ ((b / h + 1) * h) = 2 ^ (h - b % h) * 2 ^ b := by
    rw [← Nat.pow_add]; congr 1
    have := lv_split h b
    rw [Nat.add_mul]; omega
  rw [hP]
  symm
  have hQ2 : 2 ^ (h - b % h) = 2 * 2 ^ (h - b % h - 1) := by
    rw [← Nat.pow_succ']; congr 1; omega
  have hQ'pos := Nat.two_pow_pos (h - b % h - 1)
  generalize 2 ^ (h - b % h) = Q at *
  generalize 2 ^ (h - b % h - 1) = Q' at *
  have hA := Nat.two_pow_pos b
  rw [Nat.pow_succ] at h2
  generalize 2 ^ b = A at *
  have hQpos : 0 < Q := by omega
  have hdm := Nat.div_add_mod c Q
  have hv := Nat.mod_lt c hQpos
  have hv2 : (c % Q) % 2 = 0 := by
    rw [Nat.mod_mod_of_dvd _ ⟨Q', hQ2⟩]; exact h3
  have hv3 : c % Q + 2 ≤ Q := by omega
  apply Nat.div_eq_of_lt_le
  · -- (c / Q) * (Q * A) ≤ N
    have : c / Q * (Q * A) ≤ c * A := by
      rw [← Nat.mul_assoc]; apply Nat.mul_le_mul_right
      rw [Nat.mul_comm]; omega
    have h1' : c * A + A ≤ N := by
      have := h1; rw [Nat.add_mul, Nat.one_mul] at this; exact this
    omega
  · -- N < (c / Q + 1) * (Q * A)
    have e1 : c * A = c / Q * (Q * A) + c % Q * A := by
      rw [← Nat.mul_assoc, ← Nat.add_mul]; congr 1
      rw [Nat.mul_comm]; omega
    have e2 : (c % Q + 2) * A ≤ Q * A := Nat.mul_le_mul_right _ hv3
    rw [Nat.add_mul] at e2
    rw [Nat.add_mul, Nat.one_mul]
    omega

/-- (a), second half: every hash of a right-edge tile lies under a tree-hash index of that tile -/
theorem block_cover (h N : Nat) (hh : 0 < h) (cs : List (Nat × Nat)) (hcov : Cover cs 0 N) (L m : Nat)
    (hm : m < cnt h N L) (hedge : cnt h N (L + 1) * 2 ^ h ≤ m) :
    ∃ c ∈ cs, c.1 / h = L ∧ tnum h c.1 c.2 = m / 2 ^ h ∧ ts h c.1 c.2 ≤ m % 2 ^ h ∧
      m % 2 ^ h < ts h c.1 c.2 + 2 ^ (c.1 % h) := by
  have hmv : (m + 1) * 2 ^ (L * h) ≤ N := (valid_iff h N L m).mpr hm
  have hpL := Nat.two_pow_pos (L * h)
  obtain ⟨c, hc, hc1, hc2⟩ := cover_find cs 0 N hcov (m * 2 ^ (L * h)) (Nat.zero_le _)
    (by rw [Nat.add_mul] at hmv; omega)
  obtain ⟨hb1, hb2, _⟩ := cover_props cs 0 N hcov (strictAligned_zero N) c hc
  obtain ⟨b, c⟩ := c
  simp only at hc1 hc2 hb1 hb2 ⊢
  refine ⟨(b, c), hc, ?_⟩
  simp only
  have hlo : L * h ≤ b := by
    apply Nat.le_of_not_lt
    intro hlt
    have := Nat.pow_le_pow_right (n := 2) (by omega) (show b + 1 ≤ L * h by omega)
    rw [Nat.add_mul] at hmv
    omega
  have hhi : b < (L + 1) * h := by
    apply Nat.lt_of_not_le
    intro hge
    have hz : 2 ^ b = 2 ^ (b - (L + 1) * h) * 2 ^ ((L + 1) * h) := by
      rw [← Nat.pow_add]; congr 1; omega
    have h1 : (c + 1) * 2 ^ (b - (L + 1) * h) ≤ cnt h N (L + 1) := by
      unfold cnt
      rw [Nat.le_div_iff_mul_le (Nat.two_pow_pos _), Nat.mul_assoc, ← hz]
      exact hb1
    have h2 : (c + 1) * 2 ^ (b - (L + 1) * h) * 2 ^ h ≤ m := Nat.le_trans (Nat.mul_le_mul_right _ h1) hedge
    have h3 : (c + 1) * 2 ^ (b - (L + 1) * h) * 2 ^ h * 2 ^ (L * h) ≤ m * 2 ^ (L * h) := Nat.mul_le_mul_right _ h2
    have h4 : (c + 1) * 2 ^ (b - (L + 1) * h) * 2 ^ h * 2 ^ (L * h) = (c + 1) * 2 ^ b := by
      rw [hz]
      simp only [Nat.mul_assoc]
      congr 2
      rw [← Nat.pow_add]; congr 1
      rw [Nat.add_mul]; omega
    omega
  have hbL : b / h = L := by
    apply Nat.div_eq_of_lt_le
    · exact hlo
    · exact hhi
  have hr : b % h = b - L * h := by
    have := lv_split h b
    rw [hbL] at this; omega
  have hb : 2 ^ b = 2 ^ (b % h) * 2 ^ (L * h) := by
    rw [← Nat.pow_add]; congr 1; omega
  have hc1' : c * 2 ^ (b % h) ≤ m := by
    rw [hb, ← Nat.mul_assoc] at hc1
    exact Nat.le_of_mul_le_mul_right hc1 hpL
  have hc2' : m < (c + 1) * 2 ^ (b % h) := by
    rw [hb, ← Nat.mul_assoc] at hc2
    exact Nat.lt_of_mul_lt_mul_right hc2
  have hpr := Nat.two_pow_pos (b % h)
  have hmr : m / 2 ^ (b % h) = c := by
    apply Nat.div_eq_of_lt_le
    · exact hc1'
    · exact hc2'
  have htn : tnum h b c = m / 2 ^ h := by
    unfold tnum
    rw [two_pow_split h b hh, Nat.mul_comm, ← Nat.div_div_eq_div_mul, hmr]
  have hts := tnum_ts h b c hh
  have hdm := Nat.div_add_mod m (2 ^ h)
  rw [Nat.mul_comm, ← htn] at hdm
  rw [Nat.add_mul] at hc2'
  refine ⟨hbL, htn, by omega, by omega⟩

end ModVerif.TileAuth
