/-
  C03: soundness (under collision freedom of the interior-node hash) and completeness of RFC 6962
  acceptance (`AcceptIncl` / `AcceptCons`) with respect to the RFC 6962 tree hash, audit path and
  consistency proof.  Specification level only; the checkers of the model are connected to
  `AcceptIncl` / `AcceptCons` by `Props.C03.checkRecord_iff` / `checkTree_iff`.
-/
import ModVerif.Spec.RFC6962
import ModVerif.Proofs.TlogMerkleSpec
namespace ModVerif.RFC6962

/-- the interior-node hash has no collisions -/
def NodeInj {H : Type} (node : H → H → H) : Prop := ∀ a b c d, node a b = node c d → a = c ∧ b = d

/-- collision freedom (CF of lean/PENDING.md): no collision among interior nodes, among leaves, or
    between a leaf and an interior node -/
def CF {H : Type} (leaf : Bytes → H) (node : H → H → H) : Prop :=
  (∀ a b c d, node a b = node c d → a = c ∧ b = d) ∧ (∀ x y, leaf x = leaf y → x = y) ∧
    (∀ x a b, leaf x ≠ node a b)

theorem CF.nodeInj {H : Type} {leaf : Bytes → H} {node : H → H → H} (h : CF leaf node) : NodeInj node := h.1

section
variable {H : Type} (node : H → H → H) (empty : H)

theorem eq_dropLast_append_of_getLast? {p : List H} {last : H} (h : p.getLast? = some last) :
    p = p.dropLast ++ [last] := by
  obtain ⟨ys, rfl⟩ := List.getLast?_eq_some_iff.mp h
  simp

/-! ### completeness -/

theorem inclRootF_path : ∀ f (D : List H) m h, D.length ≤ f → D[m]? = some h →
    inclRootF node f (path node empty m D) D.length m h = some (mth node empty D) := by
  intro f
  induction f with
  | zero =>
    intro D m h hf hm
    have : D = [] := List.eq_nil_of_length_eq_zero (by omega)
    subst this; simp at hm
  | succ f ih =>
    intro D m h hf hm
    have hmlt : m < D.length := by
      rcases Nat.lt_or_ge m D.length with h' | h'
      · exact h'
      · rw [List.getElem?_eq_none h'] at hm; cases hm
    unfold inclRootF
    by_cases hl : D.length ≤ 1
    · match D, hl with
      | [x], _ =>
        have : m = 0 := by simp at hmlt; omega
        subst this
        simp at hm
        simp [path_small, mth_singleton, hm]
    · have h2 : 2 ≤ D.length := by omega
      have hs := splitPoint_spec D.length h2
      simp only [hl, ↓reduceIte]
      by_cases hk : m < splitPoint D.length
      · rw [path_left node empty m D h2 hk]
        simp only [List.getLast?_append, List.getLast?_singleton, Option.some_or, List.dropLast_concat, hk, ↓reduceIte]
        have hlen : (D.take (splitPoint D.length)).length = splitPoint D.length := by
          rw [List.length_take]; omega
        have := ih (D.take (splitPoint D.length)) m h (by omega) (by rw [List.getElem?_take, if_pos hk]; exact hm)
        rw [hlen] at this
        rw [this, mth_split node empty D h2]
        rfl
      · rw [path_right node empty m D h2 hk]
        simp only [List.getLast?_append, List.getLast?_singleton, Option.some_or, List.dropLast_concat, hk, ↓reduceIte]
        have hlen : (D.drop (splitPoint D.length)).length = D.length - splitPoint D.length := List.length_drop
        have e : splitPoint D.length + (m - splitPoint D.length) = m := by omega
        have := ih (D.drop (splitPoint D.length)) (m - splitPoint D.length) h (by omega)
          (by rw [List.getElem?_drop, e]; exact hm)
        rw [hlen] at this
        rw [this, mth_split node empty D h2]
        rfl

/-- ★ the RFC 6962 audit path of leaf `m` is accepted against the RFC 6962 root -/
theorem acceptIncl_path [DecidableEq H] (D : List H) (m : Nat) (hm : m < D.length) :
    AcceptIncl node (path node empty m D) D.length m D[m] (mth node empty D) :=
  ⟨hm, inclRootF_path node empty D.length D m D[m] (Nat.le_refl _) (List.getElem?_eq_getElem hm)⟩

/-- with `b = false` the claimed old root is not consulted -/
theorem consRootsF_false_old : ∀ f (p : List H) n m old old',
    consRootsF node f p n m false old = consRootsF node f p n m false old' := by
  intro f
  induction f with
  | zero => intros; rfl
  | succ f ih =>
    intro p n m old old'
    unfold consRootsF
    simp only [Bool.false_eq_true, ↓reduceIte]
    rw [ih p.dropLast (splitPoint n) m old old', ih p.dropLast (n - splitPoint n) (m - splitPoint n) old old']

theorem consRootsF_subProof : ∀ f (D : List H) m b, D.length ≤ f → 1 ≤ m → m ≤ D.length →
    consRootsF node f (subProof node empty m D b) D.length m b (mth node empty (D.take m)) =
      some (mth node empty (D.take m), mth node empty D) := by
  intro f
  induction f with
  | zero => intro D m b h h1 h2; omega
  | succ f ih =>
    intro D m b hf h1 h2
    unfold consRootsF
    by_cases hm : m = D.length
    · subst hm
      rw [subProof_full]
      cases b <;> simp
    · have hl : 2 ≤ D.length := by omega
      have hs := splitPoint_spec D.length hl
      simp only [hm, ↓reduceIte]
      by_cases hk : m ≤ splitPoint D.length
      · rw [subProof_left node empty m D b hl h1 hm hk]
        simp only [List.getLast?_append, List.getLast?_singleton, Option.some_or, List.dropLast_concat, hk, ↓reduceIte]
        have hlen : (D.take (splitPoint D.length)).length = splitPoint D.length := by
          rw [List.length_take]; omega
        have := ih (D.take (splitPoint D.length)) m b (by omega) h1 (by omega)
        rw [hlen, List.take_take, Nat.min_eq_left hk] at this
        rw [this, mth_split node empty D hl]
        rfl
      · rw [subProof_right node empty m D b hl h2 hm hk]
        simp only [List.getLast?_append, List.getLast?_singleton, Option.some_or, List.dropLast_concat, hk, ↓reduceIte]
        have hlen : (D.drop (splitPoint D.length)).length = D.length - splitPoint D.length := List.length_drop
        have := ih (D.drop (splitPoint D.length)) (m - splitPoint D.length) false (by omega) (by omega) (by omega)
        rw [hlen] at this
        -- the old tree splits at the same point
        have hlm : (D.take m).length = m := by rw [List.length_take]; omega
        have hsp : splitPoint (D.take m).length = splitPoint D.length := by
          rw [hlm]; exact splitPoint_mid D.length m (by omega) h2
        have hold : mth node empty (D.take m) =
            node (mth node empty (D.take (splitPoint D.length)))
              (mth node empty ((D.drop (splitPoint D.length)).take (m - splitPoint D.length))) := by
          rw [mth_split node empty (D.take m) (by omega), hsp, List.take_take,
            Nat.min_eq_left (by omega : splitPoint D.length ≤ m), List.drop_take]
        rw [consRootsF_false_old node f _ _ _ _ (mth node empty ((D.drop (splitPoint D.length)).take (m - splitPoint D.length))),
          this, hold, mth_split node empty D hl]
        rfl

/-! ### soundness under collision freedom of `node` -/

theorem inclRootF_sound (hinj : NodeInj node) : ∀ f (D : List H) p m h, D.length ≤ f → m < D.length →
    inclRootF node f p D.length m h = some (mth node empty D) →
    D[m]? = some h ∧ p = path node empty m D := by
  intro f
  induction f with
  | zero => intro D p m h hf hm; omega
  | succ f ih =>
    intro D p m h hf hm hacc
    unfold inclRootF at hacc
    by_cases hl : D.length ≤ 1
    · match D, hl with
      | [x], _ =>
        have : m = 0 := by simp at hm; omega
        subst this
        simp only [List.length_cons, List.length_nil, Nat.zero_add, Nat.le_refl, ↓reduceIte, mth_singleton] at hacc
        cases p with
        | nil => simp at hacc; simp [hacc, path_small]
        | cons a as => simp at hacc
    · have h2 : 2 ≤ D.length := by omega
      have hs := splitPoint_spec D.length h2
      simp only [hl, ↓reduceIte] at hacc
      cases hp : p.getLast? with
      | none => rw [hp] at hacc; cases hacc
      | some last =>
        rw [hp] at hacc
        simp only [] at hacc
        have hpe := eq_dropLast_append_of_getLast? hp
        rw [mth_split node empty D h2] at hacc
        by_cases hk : m < splitPoint D.length
        · simp only [hk, ↓reduceIte] at hacc
          cases hr : inclRootF node f p.dropLast (splitPoint D.length) m h with
          | none => rw [hr] at hacc; cases hacc
          | some r =>
            rw [hr] at hacc
            have := hinj _ _ _ _ (Option.some.inj hacc)
            obtain ⟨e1, e2⟩ := this
            have hlen : (D.take (splitPoint D.length)).length = splitPoint D.length := by
              rw [List.length_take]; omega
            have := ih (D.take (splitPoint D.length)) p.dropLast m h (by omega) (by omega) (by rw [hlen, hr, e1])
            rw [List.getElem?_take, if_pos hk] at this
            refine ⟨this.1, ?_⟩
            rw [path_left node empty m D h2 hk, ← this.2, ← e2]
            exact hpe
        · simp only [hk, ↓reduceIte] at hacc
          cases hr : inclRootF node f p.dropLast (D.length - splitPoint D.length) (m - splitPoint D.length) h with
          | none => rw [hr] at hacc; cases hacc
          | some r =>
            rw [hr] at hacc
            have := hinj _ _ _ _ (Option.some.inj hacc)
            obtain ⟨e1, e2⟩ := this
            have hlen : (D.drop (splitPoint D.length)).length = D.length - splitPoint D.length := List.length_drop
            have := ih (D.drop (splitPoint D.length)) p.dropLast (m - splitPoint D.length) h (by omega) (by omega)
              (by rw [hlen, hr, e2])
            have e : splitPoint D.length + (m - splitPoint D.length) = m := by omega
            rw [List.getElem?_drop, e] at this
            refine ⟨this.1, ?_⟩
            rw [path_right node empty m D h2 hk, ← this.2, ← e1]
            exact hpe

/-- ★ soundness of inclusion proofs: a tuple accepted against the TRUE root carries the true leaf hash
    and exactly the RFC 6962 audit path.  Only collision freedom of the interior-node hash is needed
    (sizes and index are part of the tuple, so a leaf can never be confused with an interior node). -/
theorem sound_incl [DecidableEq H] (hinj : NodeInj node) (D : List H) (p : List H) (n : Nat) (h : H)
    (hacc : AcceptIncl node p D.length n h (mth node empty D)) :
    D[n]? = some h ∧ p = path node empty n D :=
  inclRootF_sound node empty hinj D.length D p n h (Nat.le_refl _) hacc.1 hacc.2

theorem consRootsF_sound (hinj : NodeInj node) : ∀ f (D : List H) p m b old o, D.length ≤ f → 1 ≤ m → m ≤ D.length →
    consRootsF node f p D.length m b old = some (o, mth node empty D) →
    o = mth node empty (D.take m) ∧ p = subProof node empty m D b := by
  intro f
  induction f with
  | zero => intro D p m b old o hf h1 h2; omega
  | succ f ih =>
    intro D p m b old o hf h1 h2 hacc
    unfold consRootsF at hacc
    by_cases hm : m = D.length
    · subst hm
      simp only [↓reduceIte] at hacc
      rw [subProof_full, List.take_length]
      cases b with
      | true =>
        simp only [↓reduceIte] at hacc
        cases p with
        | nil => simp at hacc; simp [← hacc.1, hacc.2]
        | cons a as => simp at hacc
      | false =>
        simp only [Bool.false_eq_true, ↓reduceIte] at hacc
        match p, hacc with
        | [x], hacc =>
          simp at hacc
          simp [← hacc.1, hacc.2]
    · have hl : 2 ≤ D.length := by omega
      have hs := splitPoint_spec D.length hl
      simp only [hm, ↓reduceIte] at hacc
      cases hp : p.getLast? with
      | none => rw [hp] at hacc; cases hacc
      | some last =>
        rw [hp] at hacc
        simp only [] at hacc
        have hpe := eq_dropLast_append_of_getLast? hp
        rw [mth_split node empty D hl] at hacc
        by_cases hk : m ≤ splitPoint D.length
        · simp only [hk, ↓reduceIte] at hacc
          cases hr : consRootsF node f p.dropLast (splitPoint D.length) m b old with
          | none => rw [hr] at hacc; cases hacc
          | some r =>
            obtain ⟨o', t'⟩ := r
            rw [hr] at hacc
            simp only [Option.map_some, Option.some.injEq, Prod.mk.injEq] at hacc
            obtain ⟨eo, et⟩ := hacc
            obtain ⟨e1, e2⟩ := hinj _ _ _ _ et
            have hlen : (D.take (splitPoint D.length)).length = splitPoint D.length := by
              rw [List.length_take]; omega
            have := ih (D.take (splitPoint D.length)) p.dropLast m b old o' (by omega) h1 (by omega)
              (by rw [hlen, hr, e1])
            rw [List.take_take, Nat.min_eq_left hk] at this
            refine ⟨by rw [← eo]; exact this.1, ?_⟩
            rw [subProof_left node empty m D b hl h1 hm hk, ← this.2, ← e2]
            exact hpe
        · simp only [hk, ↓reduceIte] at hacc
          cases hr : consRootsF node f p.dropLast (D.length - splitPoint D.length) (m - splitPoint D.length) false old with
          | none => rw [hr] at hacc; cases hacc
          | some r =>
            obtain ⟨o', t'⟩ := r
            rw [hr] at hacc
            simp only [Option.map_some, Option.some.injEq, Prod.mk.injEq] at hacc
            obtain ⟨eo, et⟩ := hacc
            obtain ⟨e1, e2⟩ := hinj _ _ _ _ et
            have hlen : (D.drop (splitPoint D.length)).length = D.length - splitPoint D.length := List.length_drop
            have := ih (D.drop (splitPoint D.length)) p.dropLast (m - splitPoint D.length) false old o' (by omega)
              (by omega) (by omega) (by rw [hlen, hr, e2])
            have hlm : (D.take m).length = m := by rw [List.length_take]; omega
            have hsp : splitPoint (D.take m).length = splitPoint D.length := by
              rw [hlm]; exact splitPoint_mid D.length m (by omega) h2
            have hold : mth node empty (D.take m) =
                node (mth node empty (D.take (splitPoint D.length)))
                  (mth node empty ((D.drop (splitPoint D.length)).take (m - splitPoint D.length))) := by
              rw [mth_split node empty (D.take m) (by omega), hsp, List.take_take,
                Nat.min_eq_left (by omega : splitPoint D.length ≤ m), List.drop_take]
            refine ⟨by rw [← eo, hold, e1, this.1], ?_⟩
            rw [subProof_right node empty m D b hl h2 hm hk, ← this.2, ← e1]
            exact hpe

/-- ★ soundness of consistency proofs: a tuple accepted against the TRUE new root carries the true old
    root `MTH(D[0:n])` and exactly the RFC 6962 consistency proof. -/
theorem sound_cons [DecidableEq H] (hinj : NodeInj node) (D : List H) (p : List H) (n : Nat) (h : H)
    (hacc : AcceptCons node p D.length n h (mth node empty D)) :
    h = mth node empty (D.take n) ∧ p = proof node empty n D :=
  consRootsF_sound node empty hinj D.length D p n true h h (Nat.le_refl _) hacc.1 hacc.2.1 hacc.2.2

/-- ★ the RFC 6962 consistency proof is accepted against the two RFC 6962 roots -/
theorem acceptCons_proof [DecidableEq H] (D : List H) (n : Nat) (h1 : 1 ≤ n) (h2 : n ≤ D.length) :
    AcceptCons node (proof node empty n D) D.length n (mth node empty (D.take n)) (mth node empty D) :=
  ⟨h1, h2, consRootsF_subProof node empty D.length D n true (Nat.le_refl _) h1 h2⟩

/-- acceptance against the true root, characterised: exactly the true leaf with the RFC path -/
theorem acceptIncl_iff [DecidableEq H] (hinj : NodeInj node) (D : List H) (p : List H) (n : Nat) (h : H) :
    AcceptIncl node p D.length n h (mth node empty D) ↔ D[n]? = some h ∧ p = path node empty n D := by
  constructor
  · exact sound_incl node empty hinj D p n h
  · rintro ⟨h1, rfl⟩
    have hn : n < D.length := by
      rcases Nat.lt_or_ge n D.length with h' | h'
      · exact h'
      · rw [List.getElem?_eq_none h'] at h1; cases h1
    have := acceptIncl_path node empty D n hn
    rw [List.getElem?_eq_getElem hn] at h1
    rw [← Option.some.inj h1]; exact this

theorem acceptCons_iff [DecidableEq H] (hinj : NodeInj node) (D : List H) (p : List H) (n : Nat) (h : H) :
    AcceptCons node p D.length n h (mth node empty D) ↔
      1 ≤ n ∧ n ≤ D.length ∧ h = mth node empty (D.take n) ∧ p = proof node empty n D := by
  constructor
  · intro hacc
    exact ⟨hacc.1, hacc.2.1, sound_cons node empty hinj D p n h hacc⟩
  · rintro ⟨h1, h2, rfl, rfl⟩
    exact acceptCons_proof node empty D n h1 h2

end
end ModVerif.RFC6962
