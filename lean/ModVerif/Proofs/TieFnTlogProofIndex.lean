/-
  Tie helpers (5): the index recursions `leafProofIndex` / `treeProofIndex` of the generated code compute the model's
  `leafProofIndexF` / `treeProofIndexF` (appended to `need`).  Uses the tie of `subTreeIndex` proved by tie-tlogint
  (Proofs/TieFnTlogIntTree.lean: `subTreeIndex_eq`, range `hi ≤ 2^62` — beyond it `StoredHashIndex` overflows int64).
-/
import ModVerif.Proofs.TieFnTlogProofMax
import ModVerif.Proofs.TieFnTlogIntTree
namespace ModVerif.Tie.FnTlogProof
open ModVerif ModVerif.GoRt ModVerif.GoRtList ModVerif.TieFnTlogInt

theorem subTreeIndexOut_bind (need : List Int) (a : List Nat) (B : Except Tlog.Err (List Nat)) :
    subTreeIndexOut (need ++ a.map Int.ofNat) B = subTreeIndexOut need (B >>= fun b => pure (a ++ b)) := by
  cases B with
  | error e => rfl
  | ok b =>
    simp only [subTreeIndexOut, ok_bind, pure_eq_ok, List.map_append, List.append_assoc]

theorem leafProofIndex_ok : ∀ (fuel f : Nat) (lo hi n : Nat) (need : List Int),
    hi ≤ 2 ^ 62 → hi - lo ≤ f → hi - lo + 127 ≤ fuel →
    Generated.Tlog.leafProofIndex fuel (lo : Int) (hi : Int) (n : Int) need =
      subTreeIndexOut need (Tlog.leafProofIndexF f lo hi n) := by
  intro fuel
  induction fuel with
  | zero => intro f lo hi n need _ _ h; omega
  | succ fuel ih =>
    intro f lo hi n need h3 h4 h5
    unfold Generated.Tlog.leafProofIndex
    by_cases hgd : lo ≤ n ∧ n < hi
    · obtain ⟨h1, h2⟩ := hgd
      obtain ⟨f, rfl⟩ : ∃ f', f = f' + 1 := ⟨f - 1, by omega⟩
      unfold Tlog.leafProofIndexF
      have hg : (!(decide ((lo : Int) ≤ (n : Int)) && decide ((n : Int) < (hi : Int)))) = false := by
        simp; omega
      have hg' : (!(decide (lo ≤ n) && decide (n < hi))) = false := by simp; omega
      simp only [hg, hg', Bool.false_eq_true, if_false]
      rw [chk64_ok _ (by omega) (by omega)]
      simp only [ok_bind]
      by_cases hone : lo + 1 = hi
      · have e1 : decide ((lo : Int) + 1 = (hi : Int)) = true := decide_eq_true (by omega)
        have e2 : (lo + 1 == hi) = true := by simp [hone]
        simp only [e1, e2, if_true, pure_eq_ok, subTreeIndexOut, List.map_nil, List.append_nil]
      · have e1 : decide ((lo : Int) + 1 = (hi : Int)) = false := decide_eq_false (by omega)
        have e2 : (lo + 1 == hi) = false := by simp [hone]
        simp only [e1, e2, Bool.false_eq_true, if_false]
        have hsz : 1 < hi - lo := by omega
        have hk := Tlog.maxpow2_lt (hi - lo) hsz
        have hkp := Tlog.maxpow2_fst_pos (hi - lo)
        rw [chk64_ok _ (by omega) (by omega)]
        simp only [ok_bind]
        rw [maxpow2_ok_sub fuel lo hi (by omega) (by omega)]
        simp only [ok_bind]
        generalize (Tlog.maxpow2 (hi - lo)).1 = k at *
        rw [chk64_ok _ (by omega) (by omega)]
        simp only [ok_bind]
        rw [← Int.natCast_add]
        by_cases hlt : n < lo + k
        · have hlt' : decide ((n : Int) < ((lo + k : Nat) : Int)) = true := decide_eq_true (by omega)
          simp only [hlt', hlt, if_true]
          rw [ih f lo (lo + k) n need (by omega) (by omega) (by omega)]
          cases Tlog.leafProofIndexF f lo (lo + k) n with
          | error e => rfl
          | ok a =>
            simp only [subTreeIndexOut, ok_bind]
            rw [subTreeIndex_eq fuel (lo + k) hi _ h3 (by omega), subTreeIndexOut_bind]
            cases Tlog.subTreeIndex (lo + k) hi <;> rfl
        · have hlt' : decide ((n : Int) < ((lo + k : Nat) : Int)) = false := decide_eq_false (by omega)
          simp only [hlt', hlt, Bool.false_eq_true, if_false]
          rw [subTreeIndex_eq fuel lo (lo + k) _ (by omega) (by omega)]
          cases Tlog.subTreeIndex lo (lo + k) with
          | error e => rfl
          | ok a =>
            simp only [subTreeIndexOut, ok_bind]
            rw [ih f (lo + k) hi n _ h3 (by omega) (by omega), subTreeIndexOut_bind]
            cases Tlog.leafProofIndexF f (lo + k) hi n <;> rfl
    · have hg : (!(decide ((lo : Int) ≤ (n : Int)) && decide ((n : Int) < (hi : Int)))) = true := by
        simp; omega
      have hg' : (!(decide (lo ≤ n) && decide (n < hi))) = true := by simp; omega
      simp only [hg, if_true, throw_eq_error]
      cases f with
      | zero => rfl
      | succ f => unfold Tlog.leafProofIndexF; simp only [hg', if_true]; rfl

theorem treeProofIndex_ok : ∀ (fuel f : Nat) (lo hi n : Nat) (need : List Int),
    hi ≤ 2 ^ 62 → hi - lo ≤ f → hi - lo + 127 ≤ fuel →
    Generated.Tlog.treeProofIndex fuel (lo : Int) (hi : Int) (n : Int) need =
      subTreeIndexOut need (Tlog.treeProofIndexF f lo hi n) := by
  intro fuel
  induction fuel with
  | zero => intro f lo hi n need _ _ h; omega
  | succ fuel ih =>
    intro f lo hi n need h3 h4 h5
    unfold Generated.Tlog.treeProofIndex
    by_cases hgd : lo < n ∧ n ≤ hi
    · obtain ⟨h1, h2⟩ := hgd
      obtain ⟨f, rfl⟩ : ∃ f', f = f' + 1 := ⟨f - 1, by omega⟩
      unfold Tlog.treeProofIndexF
      have hg : (!(decide ((lo : Int) < (n : Int)) && decide ((n : Int) ≤ (hi : Int)))) = false := by
        simp; omega
      have hg' : (!(decide (lo < n) && decide (n ≤ hi))) = false := by simp; omega
      simp only [hg, hg', Bool.false_eq_true, if_false]
      by_cases hone : n = hi
      · have e1 : decide ((n : Int) = (hi : Int)) = true := decide_eq_true (by omega)
        have e2 : (n == hi) = true := by simp [hone]
        simp only [e1, e2, if_true]
        by_cases hz : lo = 0
        · have e3 : decide ((lo : Int) = 0) = true := decide_eq_true (by omega)
          have e4 : (lo == 0) = true := by simp [hz]
          simp only [e3, e4, if_true, pure_eq_ok, subTreeIndexOut, List.map_nil, List.append_nil]
        · have e3 : decide ((lo : Int) = 0) = false := decide_eq_false (by omega)
          have e4 : (lo == 0) = false := by simp [hz]
          simp only [e3, e4, Bool.false_eq_true, if_false]
          rw [subTreeIndex_eq fuel lo hi _ h3 (by omega)]
      · have e1 : decide ((n : Int) = (hi : Int)) = false := decide_eq_false (by omega)
        have e2 : (n == hi) = false := by simp [hone]
        simp only [e1, e2, Bool.false_eq_true, if_false]
        have hsz : 1 < hi - lo := by omega
        have hk := Tlog.maxpow2_lt (hi - lo) hsz
        have hkp := Tlog.maxpow2_fst_pos (hi - lo)
        rw [chk64_ok _ (by omega) (by omega)]
        simp only [ok_bind]
        rw [maxpow2_ok_sub fuel lo hi (by omega) (by omega)]
        simp only [ok_bind]
        generalize (Tlog.maxpow2 (hi - lo)).1 = k at *
        rw [chk64_ok _ (by omega) (by omega)]
        simp only [ok_bind]
        rw [← Int.natCast_add]
        by_cases hlt : n ≤ lo + k
        · have hlt' : decide ((n : Int) ≤ ((lo + k : Nat) : Int)) = true := decide_eq_true (by omega)
          simp only [hlt', hlt, if_true]
          rw [ih f lo (lo + k) n need (by omega) (by omega) (by omega)]
          cases Tlog.treeProofIndexF f lo (lo + k) n with
          | error e => rfl
          | ok a =>
            simp only [subTreeIndexOut, ok_bind]
            rw [subTreeIndex_eq fuel (lo + k) hi _ h3 (by omega), subTreeIndexOut_bind]
            cases Tlog.subTreeIndex (lo + k) hi <;> rfl
        · have hlt' : decide ((n : Int) ≤ ((lo + k : Nat) : Int)) = false := decide_eq_false (by omega)
          simp only [hlt', hlt, Bool.false_eq_true, if_false]
          rw [subTreeIndex_eq fuel lo (lo + k) _ (by omega) (by omega)]
          cases Tlog.subTreeIndex lo (lo + k) with
          | error e => rfl
          | ok a =>
            simp only [subTreeIndexOut, ok_bind]
            rw [ih f (lo + k) hi n _ h3 (by omega) (by omega), subTreeIndexOut_bind]
            cases Tlog.treeProofIndexF f (lo + k) hi n <;> rfl
    · have hg : (!(decide ((lo : Int) < (n : Int)) && decide ((n : Int) ≤ (hi : Int)))) = true := by
        simp; omega
      have hg' : (!(decide (lo < n) && decide (n ≤ hi))) = true := by simp; omega
      simp only [hg, if_true, throw_eq_error]
      cases f with
      | zero => rfl
      | succ f => unfold Tlog.treeProofIndexF; simp only [hg', if_true]; rfl

end ModVerif.Tie.FnTlogProof
