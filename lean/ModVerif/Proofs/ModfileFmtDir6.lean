/-
  C02 stage 4, part h: `format_preserves_directives` for strict go.mod files without end-of-line comments.
-/
import ModVerif.Proofs.ModfileFmtDir5
namespace ModVerif.Proofs.ModfileFmtDir
open ModVerif ModVerif.Modfile ModVerif.Proofs.ModfileFmtLex ModVerif.Proofs.ModfileFmtLine
open ModVerif.Proofs.ModfileFmtFix ModVerif.Proofs.ModfileFmtTree ModVerif.Proofs.ModfileFmtParse
open ModVerif.Proofs.ModfileFmtMain

theorem values_syn (f : Modfile.File) (s : FileSyntax) : values { f with syn := s } = values f := rfl

theorem wellFormed_syn {f : Modfile.File} (s : FileSyntax) (h : WellFormed { f with syn := s }) : WellFormed f :=
  ⟨h.module, h.require, h.exclude, h.replace, h.retract, h.tool⟩

theorem fixRetractLoop_length (path : Bytes) (fx : Fixer) : ∀ (l : List Retract) (fs : FileSyntax) (e : List RuleErr),
    (fixRetractLoop path fx l fs e).1.length = l.length := by
  intro l
  induction l with
  | nil => intro fs e; rfl
  | cons r rs ih =>
    intro fs e
    unfold fixRetractLoop
    split
    · simp [ih]
    · simp [ih]

theorem ite_state (c : Prop) [Decidable c] (a b : AddState) (ha : a.errsRev ≠ []) (hb : b.file.retract ≠ []) :
    (if c then a else b).errsRev ≠ [] ∨ (if c then a else b).file.retract ≠ [] := by
  by_cases hc : c
  · rw [if_pos hc]; exact Or.inl ha
  · rw [if_neg hc]; exact Or.inr hb

/-- `fixRetract` with a fixer on a state without retractions does nothing; with retractions it either
    reports an error or keeps at least one retraction -/
theorem fixRetract_cases (st : AddState) (fix : Option Fixer) :
    fixRetract st fix = st ∨ (fix ≠ none ∧ ((fixRetract st fix).errsRev ≠ [] ∨ (fixRetract st fix).file.retract ≠ [])) := by
  cases fix with
  | none => exact Or.inl rfl
  | some fx =>
    cases hr : st.file.retract with
    | nil => left; unfold fixRetract; simp only [hr]
    | cons r rs =>
      right
      refine ⟨by simp, ?_⟩
      unfold fixRetract
      simp only [hr]
      apply ite_state
      · exact err_ne_nil _ _ _
      · intro hnil
        simp only at hnil
        have := congrArg List.length hnil
        rw [fixRetractLoop_length] at this
        simp at this

/-- ★ `format_preserves_directives` (strict go.mod) for inputs without end-of-line comments: if the strict
    parser accepts `x` as the well-formed file `f`, then it accepts `Format(f.Syntax)` as a file with the
    same directive values — without a fixer, or with a fixer that is idempotent on its image and never
    returns the empty string, provided the file has no `retract` directive in that case. -/
theorem format_preserves_directives_noeol (name x : Bytes) (fix : Option Fixer) (f : Modfile.File)
    (h : parseToFile name x fix true = .ok f) (hno : eolComments x = []) (hwf : WellFormed f)
    (hfix : FixOK fix) (hne : FixNE fix) (hret : fix ≠ none → f.retract = []) :
    ∃ f', parseToFile name (format f.syn) fix true = .ok f' ∧ values f' = values f := by
  unfold parseToFile at h
  cases hp : parse name x with
  | error e => simp [hp] at h
  | ok fs =>
    simp only [hp] at h
    cases ha : addStmts fix true { file := { syn := fs } } fs.stmts with
    | mk st stmts =>
      simp only [ha] at h
      -- the state before `fixRetract`
      generalize hst2 : ({ st with file := { st.file with syn := { fs with stmts := stmts } } } : AddState) = st2 at h
      have hfr : fixRetract st2 fix = st2 := by
        rcases fixRetract_cases st2 fix with h0 | ⟨hfn, h1⟩
        · exact h0
        · exfalso
          split at h
          · rename_i hemp
            simp only [Except.ok.injEq] at h
            rcases h1 with h1 | h1
            · exact h1 (by simpa using hemp)
            · rw [h] at h1
              exact h1 (hret hfn)
          · cases h
      rw [hfr] at h
      split at h
      · rename_i hemp
        simp only [Except.ok.injEq] at h
        have he2 : st2.errsRev = [] := by simpa using hemp
        have hest : st.errsRev = [] := by rw [← hst2] at he2; exact he2
        have hf : f = { st.file with syn := { fs with stmts := stmts } } := by rw [← h, ← hst2]
        obtain ⟨hwfs, hc, hn⟩ := ModfileFmtFinal.parse_noeol hp hno
        have hwfst : WellFormed st.file := by
          rw [hf] at hwf
          exact wellFormed_syn _ hwf
        obtain ⟨hw1, _, _, hrep⟩ := addStmts_replay fix hfix hne fs.stmts _ st stmts ha hest hwfst hwfs
        -- the tree that is formatted
        have hsyn : f.syn = { fs with stmts := stmts } := by rw [hf]
        have hsynw : WFStmts f.syn.stmts := by rw [hsyn]; exact hw1
        have hsync : f.syn.comments.before = [] := by rw [hsyn]; simp [hc]
        obtain ⟨t', hp', het', _, hc', _⟩ := reparse_wf name f.syn hsynw hsync
        have hrel : t'.stmts.map eraseExpr = stmts.map normExpr := by
          have := congrArg FileSyntax.stmts het'
          simpa [eraseFile, hsyn] using this
        have hsim0 : Sim ({ file := { syn := fs } } : AddState) ({ file := { syn := t' } } : AddState) :=
          ⟨rfl, rfl, rfl⟩
        obtain ⟨st1', ha', hsim'⟩ := hrep _ t'.stmts hsim0 hrel
        -- the second run
        have hret' : fix ≠ none → st1'.file.retract = [] := by
          intro hfn
          have h1 := hret hfn
          rw [hf] at h1
          have h2 := congrArg Values.retract hsim'.vals
          simp only [values] at h2
          have : st.file.retract = [] := h1
          rw [this] at h2
          simpa using h2.symm
        refine ⟨{ st1'.file with syn := { t' with stmts := t'.stmts } }, ?_, ?_⟩
        · unfold parseToFile
          simp only [hp', ha']
          have hfr' : fixRetract { st1' with file := { st1'.file with syn := { t' with stmts := t'.stmts } } } fix =
              { st1' with file := { st1'.file with syn := { t' with stmts := t'.stmts } } } := by
            rcases fixRetract_cases { st1' with file := { st1'.file with syn := { t' with stmts := t'.stmts } } } fix with
              h0 | ⟨hfn, _⟩
            · exact h0
            · cases fix with
              | none => exact absurd rfl hfn
              | some fx =>
                unfold fixRetract
                simp only [hret' hfn]
          rw [hfr']
          simp [hsim'.errs']
        · rw [values_syn, ← hsim'.vals, hf]
          rfl
      · cases h

/-! ### a decidable form of `WellFormed` (for concrete instances) -/

def pathOKB (p : Bytes) : Bool := !p.isEmpty && punctBytes.all fun c => p != [c]

def wellFormedB (f : Modfile.File) : Bool :=
  (match f.module with | some m => pathOKB m.mod.path | none => true) &&
  f.require.all (fun r => pathOKB r.mod.path && Semver.isValid r.mod.version) &&
  f.exclude.all (fun r => pathOKB r.mod.path && Semver.isValid r.mod.version) &&
  f.replace.all (fun r => pathOKB r.old.path && (r.old.version.isEmpty || Semver.isValid r.old.version) &&
    pathOKB r.new.path && (r.new.version.isEmpty || Semver.isValid r.new.version)) &&
  f.retract.all (fun r => Semver.isValid r.interval.low && Semver.isValid r.interval.high) &&
  f.tool.all (fun t => pathOKB t.path)

theorem pathOKB_sound {p : Bytes} (h : pathOKB p = true) : PathOK p := by
  simp only [pathOKB, Bool.and_eq_true, Bool.not_eq_true', List.all_eq_true, bne_iff_ne, ne_eq] at h
  exact ⟨by intro e; subst e; simp at h, h.2⟩

theorem wellFormedB_sound {f : Modfile.File} (h : wellFormedB f = true) : WellFormed f := by
  simp only [wellFormedB, Bool.and_eq_true, List.all_eq_true, Bool.or_eq_true] at h
  obtain ⟨⟨⟨⟨⟨h1, h2⟩, h3⟩, h4⟩, h5⟩, h6⟩ := h
  refine ⟨?_, ?_, ?_, ?_, ?_, ?_⟩
  · intro m hm; rw [hm] at h1; exact pathOKB_sound h1
  · intro r hr; exact ⟨pathOKB_sound (h2 r hr).1, (h2 r hr).2⟩
  · intro r hr; exact ⟨pathOKB_sound (h3 r hr).1, (h3 r hr).2⟩
  · intro r hr
    obtain ⟨⟨⟨a, b⟩, c⟩, d⟩ := h4 r hr
    refine ⟨pathOKB_sound a, ?_, pathOKB_sound c, ?_⟩
    · intro hne; rcases b with b | b
      · exact absurd (by simpa using b) hne
      · exact b
    · intro hne; rcases d with d | d
      · exact absurd (by simpa using d) hne
      · exact d
  · intro r hr; exact ⟨(h5 r hr).1, (h5 r hr).2⟩
  · intro t ht; exact pathOKB_sound (h6 t ht)

end ModVerif.Proofs.ModfileFmtDir
