/-
  C09 ◇ `ParseTree` only looks at the first three lines: whatever follows a formatted tree head
  (up to the 1 MB limit of ParseTree) is ignored.
-/
import ModVerif.Proofs.TlogCodec
namespace ModVerif.TlogStore
open ModVerif ModVerif.Tlog ModVerif.TlogNote

theorem parseTree_ignores_later_lines (t : Tree) (extra : Bytes) (hn : 0 ≤ t.n) (hm : t.n ≤ Decimal.int64Max)
    (hl : t.hash.length = 32) (hx : (formatTree t ++ extra).length ≤ 1000000) :
    parseTree (formatTree t ++ extra) = some t := by
  obtain ⟨n, hash⟩ := t
  simp only at hn hm hl
  have hnl1 := Decimal.formatInt_no_newline n
  have hnl2 : (10 : UInt8) ∉ hashString hash := Base64.encodeStd_no_newline hash
  have hmin : Decimal.int64Min ≤ n := by simp only [Decimal.int64Min]; omega
  have hpi := Decimal.parseInt64_formatInt n hmin hm
  have hdec : Base64.decodeStd (hashString hash) = some hash := Base64.decodeStd_encodeStd hash
  have hpre : isPrefixOfB treePrefix (formatTree ⟨n, hash⟩ ++ extra) = true := by
    simp only [formatTree, List.append_assoc]
    exact isPrefixOfB_append _ _
  have hcnt : ¬ countNL (formatTree ⟨n, hash⟩ ++ extra) < 3 := by
    simp only [formatTree, countNL_append]
    have h1 : countNL treePrefix = 1 := by decide +kernel
    have h2 : countNL [10] = 1 := by decide
    omega
  have hlen : ¬ (formatTree ⟨n, hash⟩ ++ extra).length > 1000000 := by omega
  have hsplit : splitN 4 (formatTree ⟨n, hash⟩ ++ extra) =
      [[103, 111, 46, 115, 117, 109, 32, 100, 97, 116, 97, 98, 97, 115, 101, 32, 116, 114, 101, 101],
        Decimal.formatInt n, hashString hash, extra] := by
    have e : formatTree ⟨n, hash⟩ ++ extra =
        [103, 111, 46, 115, 117, 109, 32, 100, 97, 116, 97, 98, 97, 115, 101, 32, 116, 114, 101, 101] ++
          10 :: (Decimal.formatInt n ++ 10 :: (hashString hash ++ 10 :: extra)) := by
      simp [formatTree, treePrefix_eq]
    rw [e]
    have hnl0 : (10 : UInt8) ∉ ([103, 111, 46, 115, 117, 109, 32, 100, 97, 116, 97, 98, 97, 115,
        101, 32, 116, 114, 101, 101] : Bytes) := by decide
    rw [splitN, span_no_nl _ _ hnl0]
    simp only
    rw [splitN, span_no_nl _ _ hnl1]
    simp only
    rw [splitN, span_no_nl _ _ hnl2]
    simp only [splitN]
  unfold parseTree
  simp only [hpre, hcnt, hlen, hsplit, hpi, hdec]
  simp [hl, HashSize, hn]

end ModVerif.TlogStore
