/-
  C17 `checkFiles_eq_classify`: the report of `checkFiles` is the classification by the documented rules
  (`ZipSpec.classify`, Proofs/ZipASpec.lean).
-/
import ModVerif.Spec.ZipSpec
import ModVerif.Proofs.ZipASpec
import ModVerif.Proofs.ZipAPath
import ModVerif.Proofs.ZipAChain
import ModVerif.Proofs.ZipSubmodule
namespace ModVerif.Proofs.ZipA
open ModVerif ModVerif.PathClean ModVerif.Zip ModVerif.ZipSpec ModVerif.Proofs.Zip

/-! ### the collision checker against the specification registry -/

def toPI (toFold : Bytes → Bytes) (e : Bytes × Bool) : PathInfo := ⟨toFold e.1, e.1, e.2⟩

/-- the table of the collision checker for a specification registry -/
def toCC (toFold : Bytes → Bytes) (reg : Reg) : CC := reg.map (toPI toFold)

theorem find_toCC (toFold : Bytes → Bytes) (reg : Reg) (q : Bytes) :
    (toCC toFold reg).find (toFold q) = (reg.lookup toFold q).map (toPI toFold) := by
  unfold toCC CC.find Reg.lookup
  rw [List.find?_map]
  rfl

theorem ccStep_toCC (toFold : Bytes → Bytes) (reg : Reg) (q : Bytes) (d : Bool) :
    ccStep toFold (toCC toFold reg) q d =
      match clash toFold reg q d with
      | some r => (toCC toFold reg, some r)
      | none => (toCC toFold (register toFold reg q d), none) := by
  unfold ccStep clash register
  rw [find_toCC]
  cases hl : reg.lookup toFold q with
  | none => simp [toCC, toPI]
  | some e =>
    obtain ⟨q', d'⟩ := e
    simp only [Option.map_some, toPI, Option.isSome_some, if_true]
    by_cases h1 : q = q'
    · subst h1
      by_cases h2 : d = d'
      · subst h2
        cases d <;> simp
      · simp [h2]
    · simp [h1]

theorem dirPrefixesAux_noSlash : ∀ (b racc : Bytes), (47 : UInt8) ∉ b → dirPrefixesAux racc b = [] := by
  intro b
  induction b with
  | nil => intro _ _; rfl
  | cons c t ih =>
    intro racc h
    have hc : (c == 47) = false := by
      simp; intro e; exact h (by rw [e]; exact List.mem_cons_self)
    unfold dirPrefixesAux
    rw [hc]
    exact ih _ (fun hm => h (List.mem_cons_of_mem _ hm))

theorem dirPrefixesAux_cons (racc : Bytes) (c : UInt8) (rest : Bytes) :
    dirPrefixesAux racc (c :: rest) =
      if c == 47 then (c :: racc).reverse :: dirPrefixesAux (c :: racc) rest else dirPrefixesAux (c :: racc) rest := by
  rw [dirPrefixesAux]

theorem dirPrefixesAux_append (b : Bytes) : ∀ (a racc : Bytes),
    dirPrefixesAux racc (a ++ 47 :: b) =
      dirPrefixesAux racc a ++ (racc.reverse ++ a ++ [47]) :: dirPrefixesAux (47 :: (a.reverse ++ racc)) b := by
  intro a
  induction a with
  | nil => intro racc; simp [dirPrefixesAux]
  | cons c t ih =>
    intro racc
    rw [List.cons_append, dirPrefixesAux_cons racc c (t ++ 47 :: b), dirPrefixesAux_cons racc c t]
    by_cases hc : (c == 47) = true
    · rw [if_pos hc, if_pos hc, ih]; simp
    · rw [if_neg hc, if_neg hc, ih]; simp

theorem parents_noSlash (p : Bytes) (h : (47 : UInt8) ∉ p) : parents p = [] := by
  unfold parents dirPrefixes
  rw [dirPrefixesAux_noSlash p [] h]; rfl

theorem parents_split (a b : Bytes) (hb : (47 : UInt8) ∉ b) : parents (a ++ 47 :: b) = a :: parents a := by
  unfold parents dirPrefixes
  rw [dirPrefixesAux_append, dirPrefixesAux_noSlash b _ hb]
  simp

/-- for a clean relative path, the collision checker does what the specification says: it checks and
    registers the path and then its parent directories, nearest first, and never runs out of fuel. -/
theorem ccCheck_toCC (toFold : Bytes → Bytes) : ∀ (n : Nat) (reg : Reg) (p : Bytes) (d : Bool),
    CleanRel p → p.length < n →
    ccCheck toFold n (toCC toFold reg) p d =
      (toCC toFold (regChain toFold reg ((p, d) :: (parents p).map (fun q => (q, true)))).1,
       (regChain toFold reg ((p, d) :: (parents p).map (fun q => (q, true)))).2) := by
  intro n
  induction n with
  | zero => intro _ p _ _ h; omega
  | succ n ih =>
    intro reg p d hp hlen
    unfold ccCheck
    rw [ccStep_toCC]
    rw [regChain]
    cases hc : clash toFold reg p d with
    | some r => rfl
    | none =>
      simp only
      rcases last_slash p with h | ⟨a, b, rfl, hb⟩
      · rw [pathDir_noSlash p h, parents_noSlash p h]
        simp [regChain]
      · obtain ⟨h1, h2, h3, _⟩ := pathDir_cleanRel a b hb hp
        rw [h1, parents_split a b hb]
        have : (a != [46]) = true := by simpa using h3
        rw [if_pos this]
        rw [ih _ a true h2 (by simp at hlen; omega)]
        rfl

theorem ccCheckTop_toCC (toFold : Bytes → Bytes) (reg : Reg) (p : Bytes) (d : Bool) (hp : CleanRel p) :
    ccCheckTop toFold (toCC toFold reg) p d =
      ((toCC toFold (collide toFold reg p d).1), (collide toFold reg p d).2) :=
  ccCheck_toCC toFold _ reg p d hp (by omega)


/-! ### one step of the second loop is one step of the specification -/

theorem clash_reason (toFold : Bytes → Bytes) (reg : Reg) (q : Bytes) (d : Bool) (e : Reason)
    (h : clash toFold reg q d = some e) : e = .caseCollision ∨ e = .fileAndDir ∨ e = .multiple := by
  unfold clash at h
  split at h
  · cases h
  · repeat' split at h
    all_goals (cases h <;> simp)

theorem regChain_reason (toFold : Bytes → Bytes) : ∀ (l : List (Bytes × Bool)) (reg : Reg) (e : Reason),
    (regChain toFold reg l).2 = some e → e = .caseCollision ∨ e = .fileAndDir ∨ e = .multiple := by
  intro l
  induction l with
  | nil => intro reg e h; simp [regChain] at h
  | cons x t ih =>
    intro reg e h
    obtain ⟨q, d⟩ := x
    rw [regChain] at h
    cases hc : clash toFold reg q d with
    | some r => rw [hc] at h; simp at h; subst h; exact clash_reason toFold reg q d r hc
    | none => rw [hc] at h; exact ih _ e h

theorem collide_reason (toFold : Bytes → Bytes) (reg : Reg) (p : Bytes) (d : Bool) (e : Reason)
    (h : (collide toFold reg p d).2 = some e) : e = .caseCollision ∨ e = .fileAndDir ∨ e = .multiple :=
  regChain_reason toFold _ reg e h

/-- the report for a class -/
def report (s : St) (f : FileInfo) : Class → St
  | .valid => s.pushValid f
  | .omitted r => s.addError f.path true r
  | .invalid r => s.addError f.path false r

/-- the state after a file with the given class and new registry -/
def applyClass (toFold : Bytes → Bytes) (s : St) (f : FileInfo) (reg' : Reg) (c : Class) : St :=
  report (if c.sized then (s.setCC (toCC toFold reg')).account f.size else s.setCC (toCC toFold reg')) f c

theorem stepFile_eq (E : Env) (ge124 : Bool) (files : List FileInfo) (s : St) (reg : Reg) (f : FileInfo)
    (hcc : s.cc = toCC E.toFold reg) (hu : goModUnreadable f = false) :
    stepFile E ge124 (prePass files).haveGoMod s f =
      applyClass E.toFold s f (classifyStep E ge124 files reg f).1 (classifyStep E ge124 files reg f).2 := by
  have hset : s.setCC (toCC E.toFold reg) = s := by rw [← hcc]; rfl
  unfold stepFile
  by_cases h1 : (f.path != pathClean f.path) = true
  · rw [if_pos h1]
    have h1' : pathClean f.path ≠ f.path := by intro e; rw [e] at h1; simp at h1
    have : classifyStep E ge124 files reg f = (reg, .invalid .notClean) := by
      simp [classifyStep, earlyRule, hu, h1']
    rw [this]; simp [applyClass, report, Class.sized, hset]
  rw [if_neg h1]
  have h1' : pathClean f.path = f.path := by
    have : ¬ f.path ≠ pathClean f.path := by simpa using h1
    exact (Classical.not_not.mp this).symm
  by_cases h2 : isAbs f.path = true
  · rw [if_pos h2]
    have : classifyStep E ge124 files reg f = (reg, .invalid .notRelative) := by
      simp [classifyStep, earlyRule, hu, h1', h2]
    rw [this]; simp [applyClass, report, Class.sized, hset]
  rw [if_neg h2]
  by_cases h3 : isVendoredPackage f.path ge124 = true
  · rw [if_pos h3]
    have : classifyStep E ge124 files reg f = (reg, .omitted .vendored) := by
      simp [classifyStep, earlyRule, hu, h1', h2, h3]
    rw [this]; simp [applyClass, report, Class.sized, hset]
  rw [if_neg h3]
  by_cases h4 : inSubmodule (prePass files).haveGoMod f.path = true
  · rw [if_pos h4]
    have h4' : BelowModuleRoot files f.path := (inSubmodule_iff files f.path).mp h4
    have : classifyStep E ge124 files reg f = (reg, .omitted .submoduleFile) := by
      simp [classifyStep, earlyRule, hu, h1', h2, h3, h4']
    rw [this]; simp [applyClass, report, Class.sized, hset]
  rw [if_neg h4]
  have h4' : ¬ BelowModuleRoot files f.path := fun h => h4 ((inSubmodule_iff files f.path).mpr h)
  by_cases h5 : (f.path == hgArchivalName) = true
  · rw [if_pos h5]
    have h5' : f.path = hgArchivalName := by simpa using h5
    have hu' : ¬ goModUnreadable f = true := by simp [hu]
    have h1n : ¬ pathClean f.path ≠ f.path := by simp [h1']
    have : classifyStep E ge124 files reg f = (reg, .omitted .hgArchival) := by
      unfold classifyStep earlyRule
      rw [if_neg hu', if_neg h1n, if_neg h2, if_neg h3, if_neg h4', if_pos h5']
    rw [this]; simp [applyClass, report, Class.sized, hset]
  rw [if_neg h5]
  have h5' : f.path ≠ hgArchivalName := by simpa using h5
  by_cases h6 : (!E.cfp f.path) = true
  · rw [if_pos h6]
    have h6' : E.cfp f.path = false := by simpa using h6
    have : classifyStep E ge124 files reg f = (reg, .invalid .filePath) := by
      simp [classifyStep, earlyRule, hu, h1', h2, h3, h4', h5', h6']
    rw [this]; simp [applyClass, report, Class.sized, hset]
  rw [if_neg h6]
  have h6' : E.cfp f.path = true := by simpa using h6
  by_cases h7 : (toLowerIsGoMod f.path && f.path != goModName) = true
  · rw [if_pos h7]
    have h7' : lowerAscii f.path = goModName ∧ f.path ≠ goModName := by
      simpa [toLowerIsGoMod] using h7
    have : classifyStep E ge124 files reg f = (reg, .invalid .goModCase) := by
      simp [classifyStep, earlyRule, hu, h1', h2, h3, h4', h5', h6', h7']
    rw [this]; simp [applyClass, report, Class.sized, hset]
  rw [if_neg h7]
  have h7' : ¬ (lowerAscii f.path = goModName ∧ f.path ≠ goModName) := by
    simpa [toLowerIsGoMod] using h7
  unfold stepStat
  by_cases h8 : (f.mode == Mode.lstatErr) = true
  · rw [if_pos h8]
    have h8' : f.mode = .lstatErr := by simpa using h8
    have : classifyStep E ge124 files reg f = (reg, .invalid .lstat) := by
      simp [classifyStep, earlyRule, hu, h1', h2, h3, h4', h5', h6', h7', h8']
    rw [this]; simp [applyClass, report, Class.sized, hset]
  rw [if_neg h8]
  have h8' : f.mode ≠ .lstatErr := by simpa using h8
  have hearly : earlyRule E ge124 files f = none := by
    simp [earlyRule, hu, h1', h2, h3, h4', h5', h6', h7', h8']
  have hcr : CleanRel f.path := ⟨h1', by simpa using h2⟩
  rw [hcc, ccCheckTop_toCC E.toFold reg f.path (f.mode == .dir) hcr]
  unfold classifyStep
  rw [hearly]
  simp only
  rcases hcol : collide E.toFold reg f.path (f.mode == .dir) with ⟨reg', err⟩
  cases err with
  | some e =>
    have := collide_reason E.toFold reg f.path (f.mode == .dir) e (by rw [hcol])
    rcases this with rfl | rfl | rfl <;> simp [applyClass, report, Class.sized]
  | none =>
    simp only
    unfold stepMode lateRule
    by_cases h9 : (f.mode == Mode.symlink) = true
    · have h9' : f.mode = .symlink := by simpa using h9
      rw [if_pos h9, if_pos h9']; simp [applyClass, report, Class.sized]
    have h9' : f.mode ≠ .symlink := by simpa using h9
    rw [if_neg h9, if_neg h9']
    by_cases h10 : (f.mode != Mode.regular) = true
    · have h10' : f.mode ≠ .regular := by simpa using h10
      rw [if_pos h10, if_pos h10']; simp [applyClass, report, Class.sized]
    have h10' : ¬ f.mode ≠ .regular := by simpa using h10
    rw [if_neg h10, if_neg h10']
    unfold stepSized
    by_cases h11 : (f.path == goModName && decide (f.size > MaxGoMod)) = true
    · have h11' : f.path = goModName ∧ f.size > MaxGoMod := by simpa using h11
      rw [if_pos h11, if_pos h11']; simp [applyClass, report, Class.sized]
    have h11' : ¬ (f.path = goModName ∧ f.size > MaxGoMod) := by simpa using h11
    rw [if_neg h11, if_neg h11']
    by_cases h12 : (f.path == licenseName && decide (f.size > MaxLICENSE)) = true
    · have h12' : f.path = licenseName ∧ f.size > MaxLICENSE := by simpa using h12
      rw [if_pos h12, if_pos h12']; simp [applyClass, report, Class.sized]
    have h12' : ¬ (f.path = licenseName ∧ f.size > MaxLICENSE) := by simpa using h12
    rw [if_neg h12, if_neg h12']
    simp [applyClass, report, Class.sized]


theorem stepFile_lstatErr (E : Env) (ge124 : Bool) (hg : List Bytes) (s : St) (f : FileInfo)
    (hm : f.mode = .lstatErr) : ∃ om r, stepFile E ge124 hg s f = s.addError f.path om r := by
  unfold stepFile
  repeat' split
  all_goals first
    | exact ⟨_, _, rfl⟩
    | (unfold stepStat; rw [if_pos (by simp [hm])]; exact ⟨_, _, rfl⟩)

/-! ### the lists of the report, file by file -/

def vOf (x : FileInfo × Class) : Option FileInfo :=
  match x.2 with
  | .valid => some x.1
  | _ => none

def oOf (x : FileInfo × Class) : Option (Bytes × Reason) :=
  match x.2 with
  | .omitted r => some (x.1.path, r)
  | _ => none

def iOf (x : FileInfo × Class) : Option (Bytes × Reason) :=
  if goModUnreadable x.1 then none
  else match x.2 with
    | .invalid r => some (x.1.path, r)
    | _ => none

/-- `size >= 0 && size <= budget` then the budget shrinks, else the size error is set (and the budget stays) -/
def accountB (b : Int × Bool) (sz : Int) : Int × Bool :=
  if 0 ≤ sz ∧ sz ≤ b.1 then (b.1 - sz, b.2) else (b.1, true)

def bOf (b : Int × Bool) (x : FileInfo × Class) : Int × Bool :=
  if x.2.sized then accountB b x.1.size else b

structure StepRel (toFold : Bytes → Bytes) (s s1 : St) (f : FileInfo) (reg1 : Reg) (c : Class) : Prop where
  cc : s1.cc = toCC toFold reg1
  validFiles : s1.validFiles = s.validFiles ++ (vOf (f, c)).toList
  valid : s1.cf.valid = s.cf.valid ++ (vOf (f, c)).toList.map (·.path)
  omitted : s1.cf.omitted = s.cf.omitted ++ (oOf (f, c)).toList
  invalid : s1.cf.invalid = s.cf.invalid ++ (iOf (f, c)).toList
  budget : (s1.maxSize, s1.cf.sizeError) = bOf (s.maxSize, s.cf.sizeError) (f, c)
  errPaths : s1.errPaths = s.errPaths ∨ s1.errPaths = s.errPaths ++ [f.path]

theorem applyClass_rel (toFold : Bytes → Bytes) (s : St) (f : FileInfo) (reg1 : Reg) (c : Class)
    (hnot : f.path ∉ s.errPaths) (hu : goModUnreadable f = false) :
    StepRel toFold s (applyClass toFold s f reg1 c) f reg1 c := by
  obtain ⟨⟨v, o, i, se⟩, ep, vf, cc, ms⟩ := s
  simp only at hnot
  by_cases hacc : 0 ≤ f.size ∧ f.size ≤ ms
  · cases c with
    | valid =>
      constructor <;> simp [applyClass, report, Class.sized, St.pushValid, St.account, St.setCC, vOf, oOf, iOf, bOf, accountB, hu, hacc]
    | omitted r =>
      constructor <;> simp [applyClass, report, Class.sized, St.addError, St.setCC, vOf, oOf, iOf, bOf, hu, hnot]
    | invalid r =>
      by_cases hs : (Class.invalid r).sized = true
      · constructor <;> simp [applyClass, report, hs, St.addError, St.account, St.setCC, vOf, oOf, iOf, bOf, accountB, hu, hnot, hacc]
      · constructor <;> simp [applyClass, report, hs, St.addError, St.setCC, vOf, oOf, iOf, bOf, hu, hnot]
  · cases c with
    | valid =>
      constructor <;> simp [applyClass, report, Class.sized, St.pushValid, St.account, St.setCC, vOf, oOf, iOf, bOf, accountB, hu, hacc]
    | omitted r =>
      constructor <;> simp [applyClass, report, Class.sized, St.addError, St.setCC, vOf, oOf, iOf, bOf, hu, hnot]
    | invalid r =>
      by_cases hs : (Class.invalid r).sized = true
      · constructor <;> simp [applyClass, report, hs, St.addError, St.account, St.setCC, vOf, oOf, iOf, bOf, accountB, hu, hnot, hacc]
      · constructor <;> simp [applyClass, report, hs, St.addError, St.setCC, vOf, oOf, iOf, bOf, hu, hnot]


theorem filterMap_cons_toList {α β : Type} (g : α → Option β) (a : α) (l : List α) :
    (a :: l).filterMap g = (g a).toList ++ l.filterMap g := by
  rw [List.filterMap_cons]; cases g a <;> rfl

theorem classifyFrom_cons (E : Env) (ge124 : Bool) (files : List FileInfo) (reg : Reg) (f : FileInfo)
    (t : List FileInfo) : classifyFrom E ge124 files reg (f :: t) =
      (f, (classifyStep E ge124 files reg f).2) ::
        classifyFrom E ge124 files (classifyStep E ge124 files reg f).1 t := rfl

theorem mainPass_cons (E : Env) (ge124 : Bool) (hg : List Bytes) (s : St) (f : FileInfo) (t : List FileInfo) :
    mainPass E ge124 hg s (f :: t) = mainPass E ge124 hg (stepFile E ge124 hg s f) t := rfl

/-- the second loop computes the lists of the specification, in order -/
theorem mainPass_spec (E : Env) (ge124 : Bool) (files : List FileInfo) :
    ∀ (l : List FileInfo) (s : St) (reg : Reg),
    s.cc = toCC E.toFold reg → (l.map (·.path)).Nodup →
    (∀ f ∈ l, (f.path ∈ s.errPaths ↔ goModUnreadable f = true)) →
    (mainPass E ge124 (prePass files).haveGoMod s l).validFiles =
        s.validFiles ++ (classifyFrom E ge124 files reg l).filterMap vOf ∧
    (mainPass E ge124 (prePass files).haveGoMod s l).cf.valid =
        s.cf.valid ++ ((classifyFrom E ge124 files reg l).filterMap vOf).map (·.path) ∧
    (mainPass E ge124 (prePass files).haveGoMod s l).cf.omitted =
        s.cf.omitted ++ (classifyFrom E ge124 files reg l).filterMap oOf ∧
    (mainPass E ge124 (prePass files).haveGoMod s l).cf.invalid =
        s.cf.invalid ++ (classifyFrom E ge124 files reg l).filterMap iOf ∧
    ((mainPass E ge124 (prePass files).haveGoMod s l).maxSize,
      (mainPass E ge124 (prePass files).haveGoMod s l).cf.sizeError) =
        (classifyFrom E ge124 files reg l).foldl bOf (s.maxSize, s.cf.sizeError) := by
  intro l
  induction l with
  | nil => intro s reg _ _ _; simp [mainPass, classifyFrom]
  | cons f t ih =>
    intro s reg hcc hnd herr
    rw [List.map_cons, List.nodup_cons] at hnd
    have hne : ∀ g ∈ t, g.path ≠ f.path := by
      intro g hg e
      exact hnd.1 (by rw [← e]; exact List.mem_map_of_mem (f := fun x : FileInfo => x.path) hg)
    rw [classifyFrom_cons]
    simp only [mainPass_cons]
    by_cases hu : goModUnreadable f = true
    · have hin : f.path ∈ s.errPaths := (herr f List.mem_cons_self).mpr hu
      have hm : f.mode = .lstatErr := by
        unfold goModUnreadable at hu; simp at hu; exact hu.2
      obtain ⟨om, r, hst⟩ := stepFile_lstatErr E ge124 (prePass files).haveGoMod s f hm
      rw [hst, addError_mem s _ om r hin]
      have hcs : classifyStep E ge124 files reg f = (reg, .invalid .lstat) := by
        simp [classifyStep, earlyRule, hu]
      rw [hcs]
      obtain ⟨i1, i2, i3, i4, i5⟩ := ih s reg hcc hnd.2 (fun g hg => herr g (List.mem_cons_of_mem _ hg))
      rw [i1, i2, i3, i4, i5]
      simp [filterMap_cons_toList, vOf, oOf, iOf, bOf, hu, Class.sized]
    · have hu' : goModUnreadable f = false := by simpa using hu
      have hnot : f.path ∉ s.errPaths := fun h => hu ((herr f List.mem_cons_self).mp h)
      rw [stepFile_eq E ge124 files s reg f hcc hu']
      have rel := applyClass_rel E.toFold s f (classifyStep E ge124 files reg f).1
        (classifyStep E ge124 files reg f).2 hnot hu'
      generalize applyClass E.toFold s f (classifyStep E ge124 files reg f).1
        (classifyStep E ge124 files reg f).2 = s1 at rel
      have herr1 : ∀ g ∈ t, (g.path ∈ s1.errPaths ↔ goModUnreadable g = true) := by
        intro g hg
        rw [← herr g (List.mem_cons_of_mem _ hg)]
        rcases rel.errPaths with e | e
        · rw [e]
        · rw [e]; simp [hne g hg]
      obtain ⟨i1, i2, i3, i4, i5⟩ := ih s1 _ rel.cc hnd.2 herr1
      rw [i1, i2, i3, i4, i5, rel.validFiles, rel.valid, rel.omitted, rel.invalid, rel.budget]
      simp only [filterMap_cons_toList, List.foldl_cons, List.append_assoc, List.map_append, and_self]


/-! ### the first loop -/

theorem preErr_eq (f : FileInfo) : preErr f = goModUnreadable f := rfl

theorem prePass_spec : ∀ (l : List FileInfo) (a : Pre), (l.map (·.path)).Nodup →
    (∀ f ∈ l, f.path ∉ a.st.errPaths) →
    (l.foldl preStep a).st.errPaths = a.st.errPaths ++ (l.filter goModUnreadable).map (·.path) ∧
    (l.foldl preStep a).st.cf.invalid =
      a.st.cf.invalid ++ (l.filter goModUnreadable).map (fun f => (f.path, Reason.lstat)) ∧
    (l.foldl preStep a).st.cf.valid = a.st.cf.valid ∧
    (l.foldl preStep a).st.cf.omitted = a.st.cf.omitted ∧
    (l.foldl preStep a).st.maxSize = a.st.maxSize ∧
    (l.foldl preStep a).st.cf.sizeError = a.st.cf.sizeError := by
  intro l
  induction l with
  | nil => intro a _ _; simp
  | cons f t ih =>
    intro a hnd hnot
    rw [List.map_cons, List.nodup_cons] at hnd
    have hne : ∀ g ∈ t, g.path ≠ f.path := by
      intro g hg e
      exact hnd.1 (by rw [← e]; exact List.mem_map_of_mem (f := fun x : FileInfo => x.path) hg)
    have hst := preStep_st a f
    rw [preErr_eq] at hst
    simp only [List.foldl_cons]
    by_cases hu : goModUnreadable f = true
    · rw [if_pos hu] at hst
      have hn := hnot f List.mem_cons_self
      obtain ⟨i1, i2, i3, i4, i5, i6⟩ := ih (preStep a f) hnd.2 (by
        intro g hg
        rw [hst, addError_not_mem_errPaths _ _ _ _ hn]
        intro hm
        rcases List.mem_append.mp hm with hm | hm
        · exact hnot g (List.mem_cons_of_mem _ hg) hm
        · exact hne g hg (List.mem_singleton.mp hm))
      rw [i1, i2, i3, i4, i5, i6, hst]
      generalize a.st = st at hn
      obtain ⟨⟨v, o, i, se⟩, ep, vf, cc, ms⟩ := st
      simp only at hn
      simp [St.addError, hn, hu]
    · rw [if_neg hu] at hst
      obtain ⟨i1, i2, i3, i4, i5, i6⟩ := ih (preStep a f) hnd.2 (by
        intro g hg; rw [hst]; exact hnot g (List.mem_cons_of_mem _ hg))
      rw [i1, i2, i3, i4, i5, i6, hst]
      simp [hu]

/-- `checkFiles` computes the lists of the specification: the state after both loops. -/
theorem checkFilesSt_spec (E : Env) (files : List FileInfo) (ge124 : Bool) (hnd : (files.map (·.path)).Nodup) :
    (checkFilesSt E files ge124).validFiles = (classifyAll E ge124 files).filterMap vOf ∧
    (checkFilesSt E files ge124).cf.valid = ((classifyAll E ge124 files).filterMap vOf).map (·.path) ∧
    (checkFilesSt E files ge124).cf.omitted = (classifyAll E ge124 files).filterMap oOf ∧
    (checkFilesSt E files ge124).cf.invalid =
      (files.filter goModUnreadable).map (fun f => (f.path, Reason.lstat)) ++ (classifyAll E ge124 files).filterMap iOf ∧
    ((checkFilesSt E files ge124).maxSize, (checkFilesSt E files ge124).cf.sizeError) =
      (classifyAll E ge124 files).foldl bOf ((MaxZipFile : Int), false) := by
  obtain ⟨p1, p2, p3, p4, p5, p6⟩ := prePass_spec files {} hnd (fun f _ h => by cases h)
  change (prePass files).st.errPaths = _ at p1
  change (prePass files).st.cf.invalid = _ at p2
  change (prePass files).st.cf.valid = _ at p3
  change (prePass files).st.cf.omitted = _ at p4
  change (prePass files).st.maxSize = _ at p5
  change (prePass files).st.cf.sizeError = _ at p6
  have h0 : (prePass files).st.validFiles = [] := prePass_validFiles files {} rfl
  have hcc : (prePass files).st.cc = toCC E.toFold [] := prePass_cc files {}
  have herr : ∀ f ∈ files, (f.path ∈ (prePass files).st.errPaths ↔ goModUnreadable f = true) := by
    intro f hf
    rw [p1]
    simp only [List.nil_append, List.mem_map, List.mem_filter]
    show (∃ a, (a ∈ files ∧ goModUnreadable a = true) ∧ a.path = f.path) ↔ _
    constructor
    · rintro ⟨g, ⟨hg, hu⟩, hp⟩
      have := eq_of_nodup_map_path files hnd g hg f hf hp
      subst this; exact hu
    · intro hu; exact ⟨f, ⟨hf, hu⟩, rfl⟩
  obtain ⟨m1, m2, m3, m4, m5⟩ := mainPass_spec E ge124 files files (prePass files).st [] hcc hnd herr
  unfold checkFilesSt classifyAll
  simp only
  rw [m1, m2, m3, m4, m5, h0, p2, p3, p4, p5, p6]
  simp


/-! ### `classifyAll` lists every file with `classify` of the files before it -/

theorem mem_classifyFrom (E : Env) (ge124 : Bool) (files : List FileInfo) (f : FileInfo) (c : Class) :
    ∀ (l : List FileInfo) (reg : Reg), (f, c) ∈ classifyFrom E ge124 files reg l ↔
      ∃ pre post, l = pre ++ f :: post ∧
        c = (classifyStep E ge124 files (pre.foldl (fun r g => (classifyStep E ge124 files r g).1) reg) f).2 := by
  intro l
  induction l with
  | nil => intro reg; simp [classifyFrom]
  | cons g t ih =>
    intro reg
    rw [classifyFrom_cons, List.mem_cons, ih]
    constructor
    · rintro (h | ⟨pre, post, h1, h2⟩)
      · simp only [Prod.mk.injEq] at h
        exact ⟨[], t, by rw [h.1]; rfl, by rw [h.2, h.1]; rfl⟩
      · exact ⟨g :: pre, post, by rw [h1]; rfl, h2⟩
    · rintro ⟨pre, post, h1, h2⟩
      cases pre with
      | nil =>
        simp only [List.nil_append, List.cons.injEq] at h1
        left; rw [h2, h1.1]; rfl
      | cons x pre' =>
        simp only [List.cons_append, List.cons.injEq] at h1
        right
        refine ⟨pre', post, h1.2, ?_⟩
        rw [h2, h1.1]; rfl

theorem mem_classifyAll (E : Env) (ge124 : Bool) (files : List FileInfo) (f : FileInfo) (c : Class) :
    (f, c) ∈ classifyAll E ge124 files ↔
      ∃ pre post, files = pre ++ f :: post ∧ c = classify E ge124 files pre f :=
  mem_classifyFrom E ge124 files f c files []

theorem classifyFrom_map_fst (E : Env) (ge124 : Bool) (files : List FileInfo) :
    ∀ (l : List FileInfo) (reg : Reg), (classifyFrom E ge124 files reg l).map (·.1) = l := by
  intro l
  induction l with
  | nil => intro _; rfl
  | cons g t ih => intro reg; rw [classifyFrom_cons, List.map_cons, ih]

/-! ### the size error -/

theorem foldl_bOf (cl : List (FileInfo × Class)) : ∀ b : Int × Bool,
    cl.foldl bOf b = (sizedSizes cl).foldl accountB b := by
  induction cl with
  | nil => intro b; rfl
  | cons x t ih =>
    intro b
    unfold sizedSizes at ih ⊢
    simp only [List.foldl_cons, List.filter_cons]
    rw [ih]
    unfold bOf
    by_cases h : x.2.sized = true
    · simp [h]
    · simp [h]

theorem sum_nonneg_of_all : ∀ (l : List Int), (∀ x ∈ l, 0 ≤ x) → 0 ≤ l.sum := by
  intro l
  induction l with
  | nil => intro _; simp
  | cons a t ih =>
    intro h
    have h1 := h a List.mem_cons_self
    have h2 := ih (fun x hx => h x (List.mem_cons_of_mem _ hx))
    simp only [List.sum_cons]; omega

/-- the size accounting: the error is set exactly when a size is negative or the total exceeds the
    budget; without error the remaining budget is the budget minus the total. -/
theorem foldl_accountB : ∀ (sizes : List Int) (b : Int × Bool), 0 ≤ b.1 →
    ((sizes.foldl accountB b).2 = true ↔ b.2 = true ∨ (∃ x ∈ sizes, x < 0) ∨ b.1 < sizes.sum) ∧
    ((sizes.foldl accountB b).2 = false → (sizes.foldl accountB b).1 = b.1 - sizes.sum) := by
  intro sizes
  induction sizes with
  | nil => intro b hb; simp; omega
  | cons x t ih =>
    intro b hb
    simp only [List.foldl_cons, List.sum_cons]
    by_cases hx : 0 ≤ x ∧ x ≤ b.1
    · have e : accountB b x = (b.1 - x, b.2) := by unfold accountB; rw [if_pos hx]
      rw [e]
      obtain ⟨i1, i2⟩ := ih (b.1 - x, b.2) (by simp only; omega)
      simp only at i1 i2
      refine ⟨?_, ?_⟩
      · rw [i1]
        constructor
        · rintro (h | ⟨y, hy, hlt⟩ | h)
          · exact Or.inl h
          · exact Or.inr (Or.inl ⟨y, List.mem_cons_of_mem _ hy, hlt⟩)
          · exact Or.inr (Or.inr (by omega))
        · rintro (h | ⟨y, hy, hlt⟩ | h)
          · exact Or.inl h
          · rcases List.mem_cons.mp hy with rfl | hy
            · omega
            · exact Or.inr (Or.inl ⟨y, hy, hlt⟩)
          · exact Or.inr (Or.inr (by omega))
      · intro h; rw [i2 h]; omega
    · have e : accountB b x = (b.1, true) := by unfold accountB; rw [if_neg hx]
      rw [e]
      obtain ⟨i1, _⟩ := ih (b.1, true) hb
      simp only at i1
      have ht : (List.foldl accountB (b.1, true) t).2 = true := i1.mpr (Or.inl trivial)
      refine ⟨?_, fun h => by rw [ht] at h; cases h⟩
      constructor
      · intro _
        by_cases hneg : ∃ y ∈ t, y < 0
        · obtain ⟨y, hy, hlt⟩ := hneg
          exact Or.inr (Or.inl ⟨y, List.mem_cons_of_mem _ hy, hlt⟩)
        · have hall : ∀ y ∈ t, 0 ≤ y := by
            intro y hy
            by_cases h0 : 0 ≤ y
            · exact h0
            · exact absurd ⟨y, hy, by omega⟩ hneg
          have := sum_nonneg_of_all t hall
          by_cases hx0 : x < 0
          · exact Or.inr (Or.inl ⟨x, List.mem_cons_self, hx0⟩)
          · exact Or.inr (Or.inr (by omega))
      · intro _; exact ht


/-! ### the theorem -/

theorem classify_unreadable (E : Env) (ge124 : Bool) (files pre : List FileInfo) (f : FileInfo)
    (hu : goModUnreadable f = true) : classify E ge124 files pre f = .invalid .lstat := by
  simp [classify, classifyStep, earlyRule, hu]

theorem vOf_some (x : FileInfo × Class) (g : FileInfo) : vOf x = some g ↔ x = (g, .valid) := by
  obtain ⟨f, c⟩ := x
  cases c <;> simp [vOf]

theorem oOf_some (x : FileInfo × Class) (p : Bytes) (r : Reason) :
    oOf x = some (p, r) ↔ x.1.path = p ∧ x.2 = .omitted r := by
  obtain ⟨f, c⟩ := x
  cases c <;> simp [oOf]

theorem iOf_some (x : FileInfo × Class) (p : Bytes) (r : Reason) :
    iOf x = some (p, r) ↔ goModUnreadable x.1 = false ∧ x.1.path = p ∧ x.2 = .invalid r := by
  obtain ⟨f, c⟩ := x
  by_cases hu : goModUnreadable f = true
  · simp [iOf, hu]
  · cases c <;> simp [iOf, hu]

/-- C17: for a list without repeated paths, the report of the file check is the classification by the
    documented rules.  Every file is reported in the list, and with the reason, that `classify` gives
    for it (first part), nothing else is reported (second to fourth part), and the size error is set
    exactly when one of the files that reach the size rules has a negative size or their total exceeds
    `MaxZipFile`. -/
theorem checkFiles_eq_classify (E : Env) (files : List FileInfo) (ge124 : Bool)
    (hnd : (files.map (·.path)).Nodup) :
    (∀ pre f post, files = pre ++ f :: post →
      match classify E ge124 files pre f with
      | .valid => f.path ∈ (checkFiles E files ge124).valid
      | .omitted r => (f.path, r) ∈ (checkFiles E files ge124).omitted
      | .invalid r => (f.path, r) ∈ (checkFiles E files ge124).invalid) ∧
    (∀ p ∈ (checkFiles E files ge124).valid, ∃ pre f post, files = pre ++ f :: post ∧ f.path = p ∧
      classify E ge124 files pre f = .valid) ∧
    (∀ p r, (p, r) ∈ (checkFiles E files ge124).omitted → ∃ pre f post, files = pre ++ f :: post ∧ f.path = p ∧
      classify E ge124 files pre f = .omitted r) ∧
    (∀ p r, (p, r) ∈ (checkFiles E files ge124).invalid → ∃ pre f post, files = pre ++ f :: post ∧ f.path = p ∧
      classify E ge124 files pre f = .invalid r) ∧
    ((checkFiles E files ge124).sizeError = true ↔
      (∃ x ∈ sizedSizes (classifyAll E ge124 files), x < 0) ∨
      (MaxZipFile : Int) < (sizedSizes (classifyAll E ge124 files)).sum) := by
  obtain ⟨_, s2, s3, s4, s5⟩ := checkFilesSt_spec E files ge124 hnd
  unfold checkFiles
  refine ⟨?_, ?_, ?_, ?_, ?_⟩
  · intro pre f post hsplit
    have hmem : (f, classify E ge124 files pre f) ∈ classifyAll E ge124 files :=
      (mem_classifyAll E ge124 files f _).mpr ⟨pre, post, hsplit, rfl⟩
    cases hc : classify E ge124 files pre f with
    | valid =>
      simp only
      rw [s2, List.mem_map]
      exact ⟨f, List.mem_filterMap.mpr ⟨_, hmem, by rw [hc]; rfl⟩, rfl⟩
    | omitted r =>
      simp only
      rw [s3]
      exact List.mem_filterMap.mpr ⟨_, hmem, by rw [hc]; rfl⟩
    | invalid r =>
      simp only
      rw [s4]
      by_cases hu : goModUnreadable f = true
      · rw [classify_unreadable E ge124 files pre f hu] at hc
        injection hc with hc; subst hc
        refine List.mem_append_left _ (List.mem_map.mpr ⟨f, List.mem_filter.mpr ⟨?_, hu⟩, rfl⟩)
        rw [hsplit]; simp
      · refine List.mem_append_right _ (List.mem_filterMap.mpr ⟨_, hmem, ?_⟩)
        rw [hc, iOf_some]
        exact ⟨by simpa using hu, rfl, rfl⟩
  · intro p hp
    rw [s2, List.mem_map] at hp
    obtain ⟨g, hg, rfl⟩ := hp
    obtain ⟨x, hx, hv⟩ := List.mem_filterMap.mp hg
    rw [vOf_some] at hv; subst hv
    obtain ⟨pre, post, h1, h2⟩ := (mem_classifyAll E ge124 files g _).mp hx
    exact ⟨pre, g, post, h1, rfl, h2.symm⟩
  · intro p r hp
    rw [s3] at hp
    obtain ⟨x, hx, hv⟩ := List.mem_filterMap.mp hp
    rw [oOf_some] at hv
    obtain ⟨g, c⟩ := x
    simp only at hv
    obtain ⟨rfl, rfl⟩ := hv
    obtain ⟨pre, post, h1, h2⟩ := (mem_classifyAll E ge124 files g _).mp hx
    exact ⟨pre, g, post, h1, rfl, h2.symm⟩
  · intro p r hp
    rw [s4] at hp
    rcases List.mem_append.mp hp with hp | hp
    · obtain ⟨g, hg, he⟩ := List.mem_map.mp hp
      simp only [Prod.mk.injEq] at he
      obtain ⟨rfl, rfl⟩ := he
      obtain ⟨hgm, hu⟩ := List.mem_filter.mp hg
      obtain ⟨pre, post, h1⟩ := List.append_of_mem hgm
      exact ⟨pre, g, post, h1, rfl, classify_unreadable E ge124 files pre g hu⟩
    · obtain ⟨x, hx, hv⟩ := List.mem_filterMap.mp hp
      rw [iOf_some] at hv
      obtain ⟨g, c⟩ := x
      simp only at hv
      obtain ⟨_, rfl, rfl⟩ := hv
      obtain ⟨pre, post, h1, h2⟩ := (mem_classifyAll E ge124 files g _).mp hx
      exact ⟨pre, g, post, h1, rfl, h2.symm⟩
  · have h2 : (checkFilesSt E files ge124).cf.sizeError =
        ((classifyAll E ge124 files).foldl bOf ((MaxZipFile : Int), false)).2 := by
      rw [← s5]
    rw [h2, foldl_bOf]
    have := (foldl_accountB (sizedSizes (classifyAll E ge124 files)) ((MaxZipFile : Int), false)
      (by simp only; unfold MaxZipFile; omega)).1
    rw [this]
    simp

end ModVerif.Proofs.ZipA
