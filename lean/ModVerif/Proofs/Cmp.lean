/-
  Three-way comparators with values in {-1, 0, 1} (as Go's) and their algebra.
  `StrictCmp c` says c is a strict total order presented as a comparator: c x y = 0 ↔ x = y.
-/
import ModVerif.Basic.Bytes
namespace ModVerif

structure StrictCmp {α : Type} (c : α → α → Int) : Prop where
  range : ∀ x y, c x y = -1 ∨ c x y = 0 ∨ c x y = 1
  eq_iff : ∀ x y, c x y = 0 ↔ x = y
  antisymm : ∀ x y, c x y = - c y x
  trans : ∀ x y z, c x y = -1 → c y z = -1 → c x z = -1

namespace StrictCmp
variable {α β : Type} {c : α → α → Int} {d : β → β → Int}

theorem refl (h : StrictCmp c) (x : α) : c x x = 0 := (h.eq_iff x x).2 rfl

theorem gt_iff (h : StrictCmp c) (x y : α) : c x y = 1 ↔ c y x = -1 := by
  have := h.antisymm x y; constructor <;> intro h' <;> omega

/-- lexicographic combination -/
def lex (c : α → α → Int) (d : β → β → Int) (p q : α × β) : Int :=
  if c p.1 q.1 ≠ 0 then c p.1 q.1 else d p.2 q.2

theorem lex_strict (hc : StrictCmp c) (hd : StrictCmp d) : StrictCmp (lex c d) where
  range := by
    intro p q; unfold lex; split
    · exact hc.range _ _
    · exact hd.range _ _
  eq_iff := by
    intro p q; unfold lex
    constructor
    · intro h
      split at h
      · rename_i h1; exact absurd h h1
      · rename_i h1
        have h1 : c p.1 q.1 = 0 := by simpa using h1
        have e1 := (hc.eq_iff _ _).1 h1
        have e2 := (hd.eq_iff _ _).1 h
        exact Prod.ext e1 e2
    · intro h; subst h; simp [hc.refl, hd.refl]
  antisymm := by
    intro p q; unfold lex
    have a1 := hc.antisymm p.1 q.1
    have a2 := hd.antisymm p.2 q.2
    by_cases h : c p.1 q.1 = 0
    · have h' : c q.1 p.1 = 0 := by omega
      simp [h, h', a2]
    · have h' : c q.1 p.1 ≠ 0 := by omega
      simp [h', a1]
  trans := by
    intro p q r; unfold lex
    intro h1 h2
    by_cases e1 : c p.1 q.1 = 0
    · have pq := (hc.eq_iff _ _).1 e1
      simp [e1] at h1
      by_cases e2 : c q.1 r.1 = 0
      · have qr := (hc.eq_iff _ _).1 e2
        simp [e2] at h2
        have : c p.1 r.1 = 0 := by rw [pq, qr]; exact hc.refl _
        simp [this]; exact hd.trans _ _ _ h1 h2
      · simp [e2] at h2
        have : c p.1 r.1 = -1 := by rw [pq]; exact h2
        simp [this]
    · simp [e1] at h1
      by_cases e2 : c q.1 r.1 = 0
      · have qr := (hc.eq_iff _ _).1 e2
        have : c p.1 r.1 = -1 := by rw [← qr]; exact h1
        simp [this]
      · simp [e2] at h2
        have := hc.trans _ _ _ h1 h2
        simp [this]

/-- pull back along an injective function -/
theorem comap (hd : StrictCmp d) (f : α → β) (hf : ∀ x y, f x = f y → x = y) :
    StrictCmp (fun x y => d (f x) (f y)) where
  range := fun x y => hd.range _ _
  eq_iff := by
    intro x y; constructor
    · intro h; exact hf _ _ ((hd.eq_iff _ _).1 h)
    · intro h; subst h; exact hd.refl _
  antisymm := fun x y => hd.antisymm _ _
  trans := fun x y z => hd.trans _ _ _

/-- the derived non-strict transitivity facts -/
theorem le_trans (h : StrictCmp c) {x y z : α} (h1 : c x y ≤ 0) (h2 : c y z ≤ 0) : c x z ≤ 0 := by
  rcases h.range x y with a | a | a <;> rcases h.range y z with b | b | b <;> try omega
  · have := h.trans _ _ _ a b; omega
  · have := (h.eq_iff _ _).1 b; subst this; omega
  · have := (h.eq_iff _ _).1 a; subst this; omega
  · have := (h.eq_iff _ _).1 a; subst this; omega

end StrictCmp

/-- comparator on Nat -/
def natCmp (a b : Nat) : Int := if a = b then 0 else if a < b then -1 else 1

theorem natCmp_strict : StrictCmp natCmp where
  range := by
    intro x y; unfold natCmp
    by_cases h : x = y
    · simp [h]
    · by_cases l : x < y <;> simp [h, l]
  eq_iff := by
    intro x y; unfold natCmp
    by_cases h : x = y
    · simp [h]
    · by_cases l : x < y <;> simp [h, l]
  antisymm := by
    intro x y; unfold natCmp
    by_cases h : x = y
    · subst h; simp
    · have h' : ¬ y = x := fun e => h e.symm
      simp only [h, h', if_false]
      by_cases l : x < y
      · have : ¬ y < x := by omega
        simp [l, this]
      · have : y < x := by omega
        simp [l, this]
  trans := by
    intro x y z; unfold natCmp
    intro h1 h2
    have : x < y := by
      by_cases e : x = y
      · simp [e] at h1
      · by_cases l : x < y
        · exact l
        · simp [e, l] at h1
    have : y < z := by
      by_cases e : y = z
      · simp [e] at h2
      · by_cases l : y < z
        · exact l
        · simp [e, l] at h2
    have l : x < z := by omega
    have e : ¬ x = z := by omega
    simp [e, l]

end ModVerif
