/-
  ClientRefine, part 2b — the abstraction maps instantiated with the sequential client model:
   * `clientParams_abs`: C13's machine parameters `Props.C13.clientParams P E vs` abstract the sequential client's
     verification layer (`Abs`), for every environment — so the one-goroutine refinement holds for the C13 machine;
   * `honestEnv_cfgCell`: the configuration file of C01's honest environment is one compare-and-swap cell;
   * `honestParams`: the machine whose `checkTrees` answers are those the sequential `checkTrees` gives in the HONEST
     worlds of C01 (`HW`); C01's honest world (`Client.Honest`) discharges the machine-level hypothesis
     `ClientLatest.Honest` for it (`honestParams_honest`) — `Sound` included, without any collision-freedom hypothesis;
   * `concurrent_lookups_honest`: the composed system (Proofs/ClientRefineSeq.lean) over `honestParams` and the record
     cache with the client's keys: every concurrent lookup returns an honest response of the server for its module.
  Helper for Props/C14.lean.
-/
import ModVerif.Props.C13
import ModVerif.Proofs.ClientRefineSim
import ModVerif.Proofs.ClientRefineSeq
import ModVerif.Proofs.ClientMoreFetch
namespace ModVerif.ClientRefine
open ModVerif ModVerif.Client ModVerif.Tile

set_option linter.unusedSectionVars false

section
variable {σ H : Type} [DecidableEq H]

/-- **C13's machine parameters abstract the sequential client** (`Abs`), for every environment and verifier list:
the machine's `parse` is `openTree`, and every answer of the sequential `checkTrees` is admissible in the machine. -/
theorem clientParams_abs (P : Params H) (E : Env σ) (vs : List Note.Verifier) :
    Abs P E vs (Props.C13.clientParams P E vs) := by
  refine ⟨fun m => ?_, fun _ => rfl, rfl, fun w a o1 b o2 hle => ?_⟩
  · simp only [Props.C13.clientParams]
    cases openTree P vs m <;> rfl
  · simp only [Props.C13.clientParams, List.mem_append, List.mem_cons, List.not_mem_nil, or_false]
    cases hr : absChk (checkTrees P E w a o1 b o2).1 with
    | ok =>
      left
      rw [if_pos ⟨hle, w, o1, o2, absChk_ok hr⟩]
      simp
    | fork => right; left; rfl
    | error => right; right; rfl

/-- the initial states agree: a client that has its name and verifier list but has not merged any head yet, against
the machine's initial state over the environment's configuration content -/
theorem relG_init (P : Params H) (vs : List Note.Verifier) (MP : MParams H) (hz : MP.zero = ⟨0, P.empty⟩)
    (cl : Nat → Nat) (name : Bytes) (cfg : σ → Bytes) (t : Nat) (s0 : σ) (tr : List Effect) :
    RelG cl name cfg vs t (⟨s0, { newClient P with name := name, verifiers := vs }, tr⟩ : World σ H)
      (ClientLatest.init MP (optB (cfg s0))) := by
  refine ⟨rfl, rfl, ?_, ?_, rfl, rfl⟩
  · intro u h; simp [newClient] at h
  · simp [ClientLatest.init, hz, newClient]

end

section honest
variable {H : Type} [DecidableEq H]

/-- **the configuration file of the honest environment is one compare-and-swap cell** (its `latest` component) -/
theorem honestEnv_cfgCell (S : Server) : CfgCell (honestEnv S) S.v.name (fun s => s.latest) := by
  refine ⟨⟨fun _ _ => rfl, fun _ _ => rfl, fun _ _ _ => rfl, fun _ _ => rfl⟩, ?_, ?_, ?_, ?_, ?_⟩
  · intro s
    simp only [honestEnv]
    split
    · rfl
    · split <;> rfl
  · intro s v h
    simp only [honestEnv, latestFile_ne_key, if_false, if_true] at h
    cases h; rfl
  · intro s old new h
    simp only [honestEnv] at h ⊢
    split at h
    · rename_i hc
      simp only [hc, and_self, if_true]
    · cases h
  · intro s old new h
    simp only [honestEnv] at h
    split at h
    · cases h
    · rename_i hc
      intro e
      exact hc ⟨trivial, e⟩
  · intro s old new h
    simp only [honestEnv] at h
    split at h <;> cases h

open Classical in
/-- **the latest-head machine over the HONEST worlds of the sequential client**: `parse` is `openTree` under the
server's key; `chk older newer` holds exactly the abstractions (`absChk`) of the answers that the sequential
`checkTrees older newer` gives in some honest world (`HW`) of C01's honest environment -/
noncomputable def honestParams (P : Params H) (D : List Bytes) (S : Server) (stN : List H) : MParams H :=
  { parse := fun m => match openTree P [S.v] m with
      | .ok t => some t
      | .error _ => none
    size := fun t => t.n
    zero := ⟨0, P.empty⟩
    chk := fun a b =>
      (if a.n ≤ b.n ∧ ∃ (w : World HState H) (o1 o2 : Bytes), HW P D S stN w ∧ w.c.name = S.v.name ∧
          absChk (checkTrees P (honestEnv S) w a o1 b o2).1 = .ok then [ClientLatest.Res.ok] else []) ++
      (if ∃ (w : World HState H) (o1 o2 : Bytes), HW P D S stN w ∧ w.c.name = S.v.name ∧
          absChk (checkTrees P (honestEnv S) w a o1 b o2).1 = .fork then [ClientLatest.Res.fork] else []) ++
      (if ∃ (w : World HState H) (o1 o2 : Bytes), HW P D S stN w ∧ w.c.name = S.v.name ∧
          absChk (checkTrees P (honestEnv S) w a o1 b o2).1 = .error then [ClientLatest.Res.error] else []) }

/-- an honest world exists: the fresh client (named) over the empty cache and the empty configuration -/
theorem hw_fresh (P : Params H) (D : List Bytes) (S : Server) (stN : List H) (vs : List Note.Verifier) :
    HW P D S stN (⟨⟨[], []⟩, { newClient P with name := S.v.name, verifiers := vs }, []⟩ : World HState H) := by
  refine ⟨⟨0, Nat.zero_le _, ?_, fun h => absurd rfl h⟩, Or.inl rfl, ?_, ?_, ?_⟩
  · simp [newClient, rootAt_zero]
  · intro f d h; simp at h
  · intro t r h; simp [newClient] at h
  · intro rest r h; simp [newClient] at h

/-- a message presented by the honest side: the empty message, or a head of `D` signed with the server's key -/
def HonestMsg (P : Params H) (D : List Bytes) (S : Server) : Option Bytes → Prop
  | none => True
  | some m => ∃ n, Signed P D S m n

/-- **C01's honest world discharges the machine-level honest-server hypothesis** (`ClientLatest.Honest`) for the
machine over the client's own `checkTrees` — the prefix order is `Props.C13.headLe` (not larger, and a head of `D`
whenever the larger one is), the chain is the set of heads of `D`.  `Sound` (an `ok` of `checkTrees` implies the prefix
relation) follows from `treeHashVia_honest` — no collision-freedom hypothesis; `chk_honest` (on heads of `D` in size
order the only answer is `ok`) is `checkTrees_honest`. -/
theorem honestParams_honest (P : Params H) (D : List Bytes) (S : Server) (stN : List H) (hon : Honest P D S stN)
    (presented : Nat → Option Bytes) (c0 : Option Bytes)
    (hpres : ∀ t, HonestMsg P D S (presented t)) (hc0 : HonestMsg P D S c0) :
    ClientLatest.Honest (honestParams P D S stN) (Props.C13.headLe P D) (IsHead P D) presented c0 := by
  have hgood : ∀ om, HonestMsg P D S om → ClientLatest.GoodMsg (honestParams P D S stN) (IsHead P D) om := by
    intro om h
    cases om with
    | none => trivial
    | some m =>
      obtain ⟨n, hs⟩ := h
      refine ⟨⟨n, rootAt P D n⟩, ?_, hs.2, rfl⟩
      simp only [honestParams, hs.1]
  -- on heads of `D` in size order every honest world answers `ok`
  have hall : ∀ (a b : Head H), IsHead P D a → IsHead P D b → a.n ≤ b.n →
      ∀ (w : World HState H) (o1 o2 : Bytes), HW P D S stN w → w.c.name = S.v.name →
        (checkTrees P (honestEnv S) w a o1 b o2).1 = .ok () := by
    intro a b ha hb hle w o1 o2 hw hname
    obtain ⟨an, ah⟩ := a
    obtain ⟨bn, bh⟩ := b
    obtain ⟨ha1, ha2⟩ := ha
    obtain ⟨hb1, hb2⟩ := hb
    simp only at ha1 ha2 hb1 hb2 hle
    subst ha2; subst hb2
    exact (checkTrees_honest P D S stN hon w hw hname an bn hle hb1 o1 o2).1
  refine ⟨⟨fun a => ⟨Nat.le_refl _, id⟩, fun a b c h1 h2 => ⟨Nat.le_trans h1.1 h2.1, fun h => h1.2 (h2.2 h)⟩,
    fun a => ⟨Nat.zero_le _, fun _ => isHead_zero P D⟩, ?_⟩, isHead_zero P D, fun t => hgood _ (hpres t), hgood _ hc0,
    fun a b ha _ hsz => ⟨hsz, fun _ => ha⟩, ?_⟩
  · -- Sound.chk_ok
    intro a b h
    simp only [honestParams, List.mem_append] at h
    rcases h with (h | h) | h
    · split at h
      · rename_i hc
        obtain ⟨hle, w, o1, o2, hw, hname, hok⟩ := hc
        refine ⟨hle, fun hb => ?_⟩
        have hok' := absChk_ok hok
        obtain ⟨bn, bh⟩ := b
        obtain ⟨hb1, hb2⟩ := hb
        simp only at hb1 hb2 hle
        subst hb2
        obtain ⟨h1, _, _⟩ := treeHashVia_honest P D S stN hon w hw hname a.n bn hle hb1
        simp only [checkTrees, h1] at hok'
        split at hok'
        · rename_i heq
          exact ⟨Nat.le_trans hle hb1, heq.symm⟩
        · cases hok'
      · simp at h
    · split at h <;> simp at h
    · split at h <;> simp at h
  · -- chk_honest
    intro a b ha hb hsz
    have hsz' : a.n ≤ b.n := hsz
    have hw0 := hw_fresh P D S stN []
    have hok : a.n ≤ b.n ∧ ∃ (w : World HState H) (o1 o2 : Bytes), HW P D S stN w ∧ w.c.name = S.v.name ∧
        absChk (checkTrees P (honestEnv S) w a o1 b o2).1 = .ok :=
      ⟨hsz', _, [], [], hw0, rfl, by rw [hall a b ha hb hsz' _ [] [] hw0 rfl]; rfl⟩
    have hnf : ¬ ∃ (w : World HState H) (o1 o2 : Bytes), HW P D S stN w ∧ w.c.name = S.v.name ∧
        absChk (checkTrees P (honestEnv S) w a o1 b o2).1 = .fork := by
      rintro ⟨w, o1, o2, hw, hname, h⟩
      rw [hall a b ha hb hsz' w o1 o2 hw hname] at h
      cases h
    have hne : ¬ ∃ (w : World HState H) (o1 o2 : Bytes), HW P D S stN w ∧ w.c.name = S.v.name ∧
        absChk (checkTrees P (honestEnv S) w a o1 b o2).1 = .error := by
      rintro ⟨w, o1, o2, hw, hname, h⟩
      rw [hall a b ha hb hsz' w o1 o2 hw hname] at h
      cases h
    simp only [honestParams, if_pos hok, if_neg hnf, if_neg hne, List.append_nil]

/-- in honest worlds the machine over the honest worlds allows the sequential client's answers -/
theorem honestParams_chk (P : Params H) (D : List Bytes) (S : Server) (stN : List H) (w : World HState H)
    (hw : HW P D S stN w) (hname : w.c.name = S.v.name) (a : Head H) (o1 : Bytes) (b : Head H) (o2 : Bytes)
    (hle : a.n ≤ b.n) :
    absChk (checkTrees P (honestEnv S) w a o1 b o2).1 ∈ (honestParams P D S stN).chk a b := by
  simp only [honestParams, List.mem_append]
  cases hr : absChk (checkTrees P (honestEnv S) w a o1 b o2).1 with
  | ok => left; left; rw [if_pos ⟨hle, w, o1, o2, hw, hname, hr⟩]; simp
  | fork => left; right; rw [if_pos ⟨w, o1, o2, hw, hname, hr⟩]; simp
  | error => right; rw [if_pos ⟨w, o1, o2, hw, hname, hr⟩]; simp

/-! ### the composed system for the honest world of C01 -/

/-- the tail of `Client.Lookup`: the lines of the record data with the prefix `path vers ` -/
def lookupResult (path vers : Bytes) : Except Err Bytes → Except Err (List Bytes)
  | .error e => .error e
  | .ok data => .ok (filterLines (path ++ [32] ++ vers ++ [32]) data)

/-- what the work function of goroutine `i` stores in the record cache: the server's response if its `mergeLatest`
returned success — everything else `lookupWork` does (ReadCache / ReadRemote / ParseRecord / checkRecord / WriteCache)
is not modelled concurrently; for the sequential client it succeeds in the honest world (`honest_never_fails`) -/
def workOf (resp : Nat → Bytes) (i : Nat) : ClientLatest.Result → Except Err Bytes
  | .ok => .ok (resp i)
  | _ => .error .note

/-- **With an honest server every concurrent lookup returns exactly the server's lines** — the composed system for
C01's honest world.  Goroutine `i` runs `Lookup(path i, vers i)` for a public, escapable module the server has a record
for (the hypotheses of `honest_never_fails`); `rp i` is its remote path, `resp i` the server's response to it, and the
tree note of that response is what its `mergeLatest` is presented with.  The composed system is the record-cache
machine with the client's keys (`lookupKey`) whose work function contains goroutine `i`'s run in the latest-head machine
over the client's own verification layer (`honestParams`), any number of clients sharing the configuration `c0`
(empty, or a signed head of `D`).  In every reachable state, for every interleaving:
 * each distinct lookup file has been fetched at most once;
 * every goroutine that has returned holds an honest response `d` of the server for its module
   (`HonestLookup`: record `S.index`, text `D[id]`, a signed head of `D` containing it) — the same description
   `honest_never_fails` gives of what the sequential `Lookup` returns the lines of — and `Lookup` returns
   `filterLines (path vers ) d`;
 * no `mergeLatest` has failed and `SecurityError` was never called. -/
theorem concurrent_lookups_honest (P : Params H) (D : List Bytes) (S : Server) (stN : List H) (hon : Honest P D S stN)
    (path vers rp resp : Nat → Bytes)
    (hreq : ∀ i, ∃ epath evers id, Module.escapePath (path i) = .ok epath ∧
      Module.escapeVersion P.isLetter (Client.trimGoMod (vers i)) = .ok evers ∧
      rp i = B "/lookup/" ++ (epath ++ ([64] ++ evers)) ∧ S.index (rp i) = some id)
    (hresp : ∀ i, S.serve (rp i) = some (resp i))
    (presented : Nat → Option Bytes)
    (hpres : ∀ i id text head, TlogNote.parseRecord (resp i) = some (id, text, head) → presented i = some head)
    (c0 : Option Bytes) (hc0 : HonestMsg P D S c0) (cl : Nat → Nat)
    (s : Composed.CSt Bytes (Head H) (Except Err Bytes))
    (h : Composed.CReach (honestParams P D S stN) cl presented
      (fun i => ClientFetch.lookupKey P.isLetter S.v.name (path i) (vers i)) (workOf resp) c0 s) :
    (∀ k, s.c.runs k ≤ 1) ∧
    (∀ i, s.c.pc i = .returned → ∃ d, HonestLookup P D S (rp i) d ∧ s.c.got i = some (.ok d) ∧
      (s.c.got i).map (lookupResult (path i) (vers i)) =
        some (.ok (filterLines (path i ++ [32] ++ vers i ++ [32]) d))) ∧
    (∀ t, (s.l.th t).pc ≠ .done .err ∧ (s.l.th t).pc ≠ .done .security) ∧ s.l.sec = [] := by
  -- the server's responses are honest
  have hhl : ∀ i, HonestLookup P D S (rp i) (resp i) := by
    intro i
    obtain ⟨epath, evers, id, _, _, hrp, hidx⟩ := hreq i
    rw [hrp] at hidx
    obtain ⟨d, hd1, hd2⟩ := hon.lookups _ id hidx
    rw [← hrp] at hd1 hd2
    rw [hresp i] at hd1
    cases hd1
    exact hd2
  -- every goroutine is presented a signed head of `D`
  have hpm : ∀ t, HonestMsg P D S (presented t) := by
    intro t
    obtain ⟨id, n, head, text, _, hs, _, hp, _⟩ := hhl t
    rw [hpres t _ _ _ hp]
    exact ⟨n, hs⟩
  have hH := honestParams_honest P D S stN hon presented c0 hpm hc0
  -- the response depends only on the key
  have hfile : ∀ i, ClientFetch.lookupFile P.isLetter S.v.name (path i) (vers i) = some (S.v.name ++ rp i) := by
    intro i
    obtain ⟨epath, evers, id, h1, h2, hrp, _⟩ := hreq i
    have h2' : Module.escapeVersion P.isLetter (ClientFetch.trimGoMod (vers i)) = .ok evers := h2
    simp only [ClientFetch.lookupFile, h1, h2', hrp, List.append_assoc]
  have hkey : ∀ i j, ClientFetch.lookupKey P.isLetter S.v.name (path i) (vers i) =
      ClientFetch.lookupKey P.isLetter S.v.name (path j) (vers j) → resp i = resp j := by
    intro i j hk
    have := (ClientFetch.lookupKey_eq_iff P.isLetter S.v.name _ _ _ _ _ _ (hfile i) (hfile j)).mp hk
    have hrp : rp i = rp j := List.append_cancel_left this
    have := hresp i
    rw [hrp, hresp j] at this
    exact (Option.some.inj this).symm
  classical
  let F : Nat → Except Err Bytes := fun k =>
    if hk : ∃ i, ClientFetch.lookupKey P.isLetter S.v.name (path i) (vers i) = k then .ok (resp (Classical.choose hk))
    else .error .note
  have hF : ∀ i, workOf resp i .ok = F (ClientFetch.lookupKey P.isLetter S.v.name (path i) (vers i)) := by
    intro i
    have hex : ∃ j, ClientFetch.lookupKey P.isLetter S.v.name (path j) (vers j) =
        ClientFetch.lookupKey P.isLetter S.v.name (path i) (vers i) := ⟨i, rfl⟩
    simp only [F, workOf, dif_pos hex]
    rw [hkey _ _ (Classical.choose_spec hex)]
  obtain ⟨h1, h2, h3, h4, _⟩ := Composed.composed_honest (honestParams P D S stN) (Props.C13.headLe P D) (IsHead P D)
    cl presented _ (workOf resp) F hF c0 hH s h
  refine ⟨h1, fun i hi => ⟨resp i, hhl i, ?_, ?_⟩, h3, h4⟩
  · rw [h2 i hi, ← hF i]; rfl
  · rw [h2 i hi, ← hF i]; rfl

end honest
end ModVerif.ClientRefine
