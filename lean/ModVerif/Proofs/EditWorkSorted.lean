/-
  EditWork, part 3 — **C16 `blocks_sorted` for go.work**: after `WorkFile.SortBlocks` (also at the end of SetUse) every block
  of the tree is sorted by `lineLess`; Cleanup keeps blocks sorted (it only deletes lines); the wrapper over sessions.
  No hypothesis on the state is needed (`lineLess` is a strict weak order on all token lists).
-/
import ModVerif.Proofs.EditWorkKeepA
set_option linter.unusedSimpArgs false
namespace ModVerif.Modfile.Edit
open ModVerif ModVerif.Modfile ModVerif.EditSpec

theorem lessFor_work (sem : Bool) (tok : List Bytes) : lessFor sem true tok = lineLess := by
  simp [lessFor]

/-- after `WorkFile.SortBlocks` every block is sorted by `lineLess` -/
theorem workSortBlocks_blocks_sorted (e : EWork) (b : LineBlock) (hb : Expr.lineBlock b ∈ (workSortBlocks e).f.syn.stmts) :
    Sorted (onToken lineLess) b.lines := by
  rw [workSortBlocks_syn] at hb
  rcases sortStmts_block false true _ b hb with ⟨b0, _, _, hlines⟩
  rw [hlines, lessFor_work]
  exact (stableSort_sorted (lessFor_work false b0.token ▸ lessFor_strictWeak false true b0.token (Or.inl rfl)) _).1

theorem setUse_eq_sort (e e' : EWork) (dirs : List (Bytes × Bytes)) (perm : List (Bytes × Bytes) → List (Bytes × Bytes))
    (h : setUse e dirs perm = .ok e') : ∃ e0, e' = workSortBlocks e0 := by
  unfold setUse at h
  simp only [bind, Except.bind] at h
  cases hr : setUseLoop e.f.use (useNeedMap dirs []) e.f.syn with
  | error err => simp [hr] at h
  | ok res =>
    rcases res with ⟨us, need', syn'⟩
    simp only [hr, pure, Except.pure, Except.ok.injEq] at h
    exact ⟨_, h.symm⟩

/-- every block Cleanup leaves is a block of the input with some lines deleted -/
theorem cleanupStmts_block : ∀ (stmts : List Expr) (b' : LineBlock), Expr.lineBlock b' ∈ cleanupStmts stmts →
    ∃ b, Expr.lineBlock b ∈ stmts ∧ b'.token = b.token ∧ b'.lines.Sublist b.lines := by
  intro stmts
  induction stmts with
  | nil => intro b' h; simp [cleanupStmts] at h
  | cons x xs ih =>
    intro b' h
    have next : Expr.lineBlock b' ∈ cleanupStmts xs → ∃ b, Expr.lineBlock b ∈ x :: xs ∧ b'.token = b.token ∧ b'.lines.Sublist b.lines := by
      intro h1
      rcases ih b' h1 with ⟨b, hb, r⟩
      exact ⟨b, List.mem_cons_of_mem _ hb, r⟩
    cases x with
    | line l =>
      unfold cleanupStmts at h
      split at h
      · exact next h
      · rcases List.mem_cons.1 h with h1 | h1
        · cases h1
        · exact next h1
    | lineBlock b0 =>
      unfold cleanupStmts at h
      simp only at h
      have blk : Expr.lineBlock b' ∈ Expr.lineBlock { b0 with lines := b0.lines.filter (fun l => !l.token.isEmpty) } :: cleanupStmts xs →
          ∃ b, Expr.lineBlock b ∈ Expr.lineBlock b0 :: xs ∧ b'.token = b.token ∧ b'.lines.Sublist b.lines := by
        intro h1
        rcases List.mem_cons.1 h1 with h2 | h2
        · simp only [Expr.lineBlock.injEq] at h2
          subst h2
          exact ⟨b0, List.mem_cons_self, rfl, List.filter_sublist⟩
        · exact next h2
      split at h
      · exact next h
      · split at h
        · rcases List.mem_cons.1 h with h1 | h1
          · cases h1
          · exact next h1
        · exact blk h
      · exact blk h
    | commentBlock c =>
      unfold cleanupStmts at h
      rcases List.mem_cons.1 h with h1 | h1
      · cases h1
      · exact next h1
    | lparen c =>
      unfold cleanupStmts at h
      rcases List.mem_cons.1 h with h1 | h1
      · cases h1
      · exact next h1
    | rparen c =>
      unfold cleanupStmts at h
      rcases List.mem_cons.1 h with h1 | h1
      · cases h1
      · exact next h1

/-- Cleanup keeps every block sorted -/
theorem cleanupStmts_sorted (less : List Bytes → List Bytes → Bool) (stmts : List Expr)
    (h : ∀ b, Expr.lineBlock b ∈ stmts → Sorted (onToken less) b.lines) :
    ∀ b, Expr.lineBlock b ∈ cleanupStmts stmts → Sorted (onToken less) b.lines := by
  intro b hb
  rcases cleanupStmts_block stmts b hb with ⟨b0, hb0, _, hsub⟩
  exact List.Pairwise.sublist hsub (h b0 hb0)

/-- a go.work operation that ends with SortBlocks leaves every block sorted -/
theorem applyWork_sorts (e e' : EWork) (op : Op) (hs : SortsW op = true) (h : applyWork e op = some (.ok e')) :
    ∀ b, Expr.lineBlock b ∈ e'.f.syn.stmts → Sorted (onToken lineLess) b.lines := by
  cases op with
  | setUse w r =>
    simp only [applyWork, Option.some.injEq] at h
    rcases setUse_eq_sort e e' w (permOf r) h with ⟨e0, rfl⟩
    exact workSortBlocks_blocks_sorted e0
  | sortBlocks =>
    simp only [applyWork, Option.some.injEq, Except.ok.injEq] at h
    subst h
    exact workSortBlocks_blocks_sorted e
  | _ => simp [SortsW] at hs

/-! ### sessions -/

theorem runOps_append {σ : Type} (apply : σ → Op → Option (Except EditErr σ)) (a b : List Op) :
    ∀ (e : σ) (res0 : List Bool) (i : Nat) (e' : σ) (res : List Bool), runOps apply e (a ++ b) res0 i = .done e' res →
    ∃ e1 r1, runOps apply e a res0 i = .done e1 r1 ∧ runOps apply e1 b r1.reverse (i + a.length) = .done e' res := by
  induction a with
  | nil =>
    intro e res0 i e' res h
    refine ⟨e, res0.reverse, by simp [runOps], ?_⟩
    simpa using h
  | cons op ops ih =>
    intro e res0 i e' res h
    have hlen : i + (op :: ops).length = i + 1 + ops.length := by simp; omega
    rw [hlen]
    simp only [List.cons_append, runOps] at h ⊢
    cases ha : apply e op with
    | none => simp [ha] at h
    | some r =>
      cases r with
      | ok e1 =>
        simp only [ha] at h ⊢
        exact ih e1 _ _ e' res h
      | error err =>
        simp only [ha] at h ⊢
        by_cases hr : err.isReturned = true
        · simp only [hr, if_true] at h ⊢
          exact ih e _ _ e' res h
        · simp only [Bool.not_eq_true] at hr
          simp [hr] at h

theorem setUseLoop_error (us : List Use) : ∀ (need : List (Bytes × Bytes)) (syn : FileSyntax) (err : EditErr),
    setUseLoop us need syn = .error err → err.isReturned = false := by
  induction us with
  | nil => intro need syn err h; simp [setUseLoop] at h
  | cons d ds ih =>
    intro need syn err h
    unfold setUseLoop at h
    cases hf : need.find? (fun a => a.1 == d.path) with
    | some w =>
      simp only [hf, bind, Except.bind] at h
      cases hr : setUseLoop ds (need.filter (fun a => a.1 != d.path)) syn with
      | error err' =>
        simp only [hr, Except.error.injEq] at h
        subst h
        exact ih _ _ _ hr
      | ok res => simp [hr, pure, Except.pure] at h
    | none =>
      simp only [hf, bind, Except.bind] at h
      cases hd : deref d.lineId with
      | error err' =>
        simp only [hd, Except.error.injEq] at h
        subst h
        unfold deref at hd
        split at hd
        · simp only [Except.error.injEq] at hd; subst hd; rfl
        · cases hd
      | ok i =>
        simp only [hd] at h
        cases hr : setUseLoop ds need (markRemoved syn i) with
        | error err' =>
          simp only [hr, Except.error.injEq] at h
          subst h
          exact ih _ _ _ hr
        | ok res => simp [hr, pure, Except.pure] at h

/-- an operation that ends with SortBlocks never returns an error (its only failure is a panic) -/
theorem applyWork_sorts_no_returned_error (e : EWork) (op : Op) (hs : SortsW op = true) (err : EditErr)
    (h : applyWork e op = some (.error err)) : err.isReturned = false := by
  cases op with
  | setUse w r =>
    simp only [applyWork, Option.some.injEq] at h
    unfold setUse at h
    simp only [bind, Except.bind] at h
    cases hr : setUseLoop e.f.use (useNeedMap w []) e.f.syn with
    | error err' =>
      simp only [hr, Except.error.injEq] at h
      subst h
      exact setUseLoop_error _ _ _ _ hr
    | ok res => simp [hr, pure, Except.pure] at h
  | sortBlocks => simp [applyWork] at h
  | _ => simp [SortsW] at hs

/-- **C16 `blocks_sorted`, go.work sessions**: a session whose last operation ends with SortBlocks (SortBlocks itself or
    SetUse) and that runs to completion leaves every block sorted by `lineLess`, and so does the final Cleanup -/
theorem blocks_sorted_work (e e' : EWork) (ops : List Op) (op : Op) (res : List Bool) (hs : SortsW op = true)
    (h : runOps applyWork e (ops ++ [op]) [] 0 = .done e' res) :
    (∀ b, Expr.lineBlock b ∈ e'.f.syn.stmts → Sorted (onToken lineLess) b.lines) ∧
    (∀ b, Expr.lineBlock b ∈ (workCleanup e').f.syn.stmts → Sorted (onToken lineLess) b.lines) := by
  rcases runOps_append applyWork ops [op] e [] 0 e' res h with ⟨e1, r1, _, h2⟩
  have hsorted : ∀ b, Expr.lineBlock b ∈ e'.f.syn.stmts → Sorted (onToken lineLess) b.lines := by
    unfold runOps at h2
    cases ha : applyWork e1 op with
    | none => simp [ha] at h2
    | some r =>
      cases r with
      | ok e2 =>
        simp only [ha, runOps, SessionResult.done.injEq] at h2
        rw [← h2.1]
        exact applyWork_sorts e1 e2 op hs ha
      | error err =>
        simp only [ha, applyWork_sorts_no_returned_error e1 op hs err ha, Bool.false_eq_true, if_false] at h2
        cases h2
  exact ⟨hsorted, cleanupStmts_sorted lineLess _ hsorted⟩

end ModVerif.Modfile.Edit
