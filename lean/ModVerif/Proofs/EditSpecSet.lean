/-
  `setExact` yields exactly the wanted entries (as a multiset) when the wanted keys are distinct.
-/
import ModVerif.Proofs.EditSpecLists
namespace ModVerif.EditSpec
open ModVerif

section
variable {α : Type}

theorem eq_of_key_eq {key : α → Bytes} {W : List α} (hW : W.Pairwise (fun a b => key a ≠ key b))
    {a b : α} (ha : a ∈ W) (hb : b ∈ W) (hk : key a = key b) : a = b := by
  induction W with
  | nil => cases ha
  | cons x xs ih =>
    rcases List.pairwise_cons.1 hW with ⟨h1, h2⟩
    rw [List.mem_cons] at ha hb
    rcases ha with rfl | ha <;> rcases hb with rfl | hb
    · rfl
    · exact absurd hk (h1 b hb)
    · exact absurd hk.symm (h1 a ha)
    · exact ih h2 ha hb

theorem nodup_of_keys {key : α → Bytes} {W : List α} (hW : W.Pairwise (fun a b => key a ≠ key b)) : W.Nodup :=
  hW.imp (fun h e => h (congrArg key e))

theorem dedupFirst_nodup (key : α → Bytes) (l : List α) :
    (dedupFirst key l).Pairwise (fun a b => key a ≠ key b) := by
  unfold dedupFirst
  rw [List.pairwise_reverse]
  exact (dedupLast_nodup key l.reverse).imp (fun h => Ne.symm h)

theorem dedupFirst_subset (key : α → Bytes) (l : List α) : ∀ a ∈ dedupFirst key l, a ∈ l := by
  intro a ha
  unfold dedupFirst at ha
  have := (dedupLast_sublist key l.reverse).subset (List.mem_reverse.1 ha)
  exact List.mem_reverse.1 this

theorem dedupFirst_keys (key : α → Bytes) (l : List α) (a : α) (ha : a ∈ l) :
    ∃ b ∈ dedupFirst key l, key b = key a := by
  rcases dedupLast_keys key l.reverse a (List.mem_reverse.2 ha) with ⟨b, hb, hk⟩
  exact ⟨b, by unfold dedupFirst; exact List.mem_reverse.2 hb, hk⟩

theorem find_key {key : α → Bytes} {W : List α} {e w : α} (h : W.find? (fun w => key w == key e) = some w) :
    w ∈ W ∧ key w = key e := by
  have h1 := List.mem_of_find?_eq_some h
  have h2 := List.find?_some h
  exact ⟨h1, by simpa using h2⟩

/-- the central fact about "set exactly": with distinct wanted keys the result is the wanted list up to order -/
theorem setExact_perm [DecidableEq α] (key : α → Bytes) (want old : List α) (hW : want.Pairwise (fun a b => key a ≠ key b)) :
    (setExact key want old).Perm want := by
  unfold setExact
  have hsplit : (want.filter (fun w => old.any fun e => key e == key w) ++
      want.filter (fun w => !old.any fun e => key e == key w)).Perm want :=
    List.filter_append_perm _ want
  refine List.Perm.trans (List.Perm.append_right _ ?_) hsplit
  -- kept part
  have hD := dedupFirst_nodup key (old.filter fun e => want.any fun w => key w == key e)
  apply (List.perm_ext_iff_of_nodup ?_ ?_).2
  · intro w
    constructor
    · intro hw
      rcases List.mem_filterMap.1 hw with ⟨e, he, hf⟩
      rcases find_key hf with ⟨hwW, hk⟩
      have heold : e ∈ old := (List.mem_filter.1 (dedupFirst_subset key _ e he)).1
      exact List.mem_filter.2 ⟨hwW, List.any_eq_true.2 ⟨e, heold, by simp [hk]⟩⟩
    · intro hw
      rcases List.mem_filter.1 hw with ⟨hwW, hany⟩
      rcases List.any_eq_true.1 hany with ⟨e, heold, hke⟩
      have hke : key e = key w := by simpa using hke
      have he' : e ∈ old.filter (fun e => want.any fun w => key w == key e) :=
        List.mem_filter.2 ⟨heold, List.any_eq_true.2 ⟨w, hwW, by simp [hke]⟩⟩
      rcases dedupFirst_keys key _ e he' with ⟨b, hb, hkb⟩
      apply List.mem_filterMap.2
      refine ⟨b, hb, ?_⟩
      cases hf : want.find? (fun w => key w == key b) with
      | none =>
        have := List.find?_eq_none.1 hf w hwW
        simp [hkb, hke] at this
      | some w' =>
        rcases find_key hf with ⟨hw'W, hk'⟩
        have : w' = w := eq_of_key_eq hW hw'W hwW (by rw [hk', hkb, hke])
        rw [this]
  · -- kept part has no duplicates
    apply nodup_of_keys (key := key)
    rw [List.pairwise_filterMap]
    refine hD.imp ?_
    intro a a' hne b hb b' hb'
    rcases find_key hb with ⟨_, h1⟩
    rcases find_key hb' with ⟨_, h2⟩
    rw [h1, h2]; exact hne
  · exact (nodup_of_keys hW).filter _

end
end ModVerif.EditSpec
