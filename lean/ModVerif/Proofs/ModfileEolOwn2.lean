/-
  C02, end-of-line comments: where `assignComments` puts the comments of an ARBITRARY accepted input, part b:
  the parser pass.  For every reachable lexer state the pass tracks which recorded comments belong to tokens
  the parser has already consumed (`Done`), and byte bounds; for every line / `(` / `)` it concludes that the
  end-of-line comment token that terminates it (if any) lies in its `Slot`.
-/
import ModVerif.Proofs.ModfileEolOwn
import ModVerif.Proofs.ModfileFmtEmits2
namespace ModVerif.Proofs.ModfileEol
open ModVerif ModVerif.Modfile ModVerif.Proofs.ModfileLex
open ModVerif.Proofs.ModfileFmtLex ModVerif.Proofs.ModfileFmtTree ModVerif.Proofs.ModfileFmtMain
open ModVerif.Proofs.ModfilePos ModVerif.Proofs.ModfileC20 ModVerif.Proofs.ModfileFmtEmits
open ModVerif.Proofs.ModfileFmtParse

/-! ### lexer level -/

/-- `readToken` records a comment exactly when it delivers an end-of-line comment token -/
theorem readToken_comments_rec (j i : Input) (h : readToken j = .ok i) :
    i.commentsRev.reverse = j.commentsRev.reverse ++ recOf i.token := by
  have hR : ∀ (a : Input) (r : Nat) (a' : Input), a.commentsRev = j.commentsRev → readRune a = .ok (r, a') →
      a'.commentsRev = j.commentsRev := fun a r a' hp hr => by rw [(ModfileC20.readRune_token hr).2.1]; exact hp
  unfold readToken at h
  cases h0 : skipSpaces (j.remaining.length + 1) j with
  | error e => simp [h0, bind, Except.bind] at h
  | ok i0 =>
    have hi0 : i0.commentsRev = j.commentsRev := skipSpaces_pres (P := fun a => a.commentsRev = j.commentsRev) hR _ _ _ rfl h0
    simp only [h0, bind, Except.bind] at h
    split at h
    · rename_i hc
      simp only [Bool.and_eq_true] at hc
      obtain ⟨i'', hr, _, _, _, _, hkind, hcomm⟩ := readComment_char i0 hc.2
      rw [hr] at h
      have : i'' = i := by cases h; rfl
      subst this
      rw [hcomm, hi0]
      unfold recOf
      rw [hkind]
      split <;> simp
    · have hplain : ∀ (k : TokKind) (v : Input), k ≠ .eolComment → v.commentsRev = j.commentsRev →
          (endToken k v).commentsRev.reverse = j.commentsRev.reverse ++ recOf (endToken k v).token := by
        intro k v hk hv
        have : recOf (endToken k v).token = [] := by
          unfold recOf
          have : (endToken k v).token.kind = k := rfl
          rw [this]; simp [hk]
        rw [this]
        show v.commentsRev.reverse = _
        rw [hv]; simp
      split at h
      · cases h
      · have hs : (startToken i0).commentsRev = j.commentsRev := hi0
        split at h
        · cases h; exact hplain _ _ (by simp) hs
        · split at h
          · cases h1 : readRune (startToken i0) with
            | error e => simp [h1] at h
            | ok v1 =>
              have hv1 := hR _ v1.1 v1.2 hs (by rw [h1])
              simp only [h1] at h
              cases h; exact hplain _ _ (by simp) hv1
          · split at h
            · cases h1 : readRune (startToken i0) with
              | error e => simp [h1] at h
              | ok v1 =>
                have hv1 := hR _ v1.1 v1.2 hs (by rw [h1])
                simp only [h1] at h
                cases h2 : readString (startToken i0).peekRune (v1.2.remaining.length + 1) v1.2 with
                | error e => simp [h2] at h
                | ok v2 =>
                  have hv2 := readString_pres (P := fun a => a.commentsRev = j.commentsRev) hR _ _ _ _ hv1 h2
                  simp only [h2] at h
                  cases h; exact hplain _ _ (by simp) hv2
            · split at h
              · cases h
              · split at h
                · cases h
                · rename_i v2 h2
                  have hv2 := readIdent_pres (P := fun a => a.commentsRev = j.commentsRev) hR _ _ _ hs h2
                  cases h; exact hplain _ _ (by simp) hv2

/-- the comments of the tokens the parser has consumed so far (the pending token is not consumed yet) -/
def Done (i : Input) (D : List Comment) : Prop := i.commentsRev.reverse = D ++ recOf i.token

theorem Done.setId {i : Input} {D : List Comment} (h : Done i D) (n : Nat) : Done { i with nextId := n } D := h

theorem tok_bytes_le {data : Bytes} {i : Input} (h : Reach data i) : i.token.pos.byte ≤ i.token.endPos.byte := by
  obtain ⟨_, _, h3, _, _⟩ := tokOK_spec (reach_tokOK2 h).old
  omega

theorem tok_bytes_lt_comment {data : Bytes} {i : Input} (h : Reach data i) (hk : i.token.kind.isComment = true) :
    i.token.pos.byte < i.token.endPos.byte := by
  have ht := reach_tokOK2 h
  obtain ⟨_, _, h3, _, _⟩ := tokOK_spec ht.old
  have hpre := (reach_rlay h).comment hk
  have hlen : 2 ≤ i.token.text.length := by
    have := hpre.length_le; simpa using this
  have hlen2 : i.token.text.length ≤ i.tokRev.length := by
    have := ht.old.text.length_le
    simpa using this
  omega

theorem punct_end {data : Bytes} {i : Input} (h : Reach data i) (c : UInt8) (hk : i.token.kind = .punct c) :
    i.token.endPos.byte = i.token.pos.byte + 1 := by
  have ht := reach_tokOK2 h
  obtain ⟨_, _, h3, _, _⟩ := tokOK_spec ht.old
  have hx := ht.exact (by rw [hk]; rfl)
  have htx := ht.punct c hk
  have : i.tokRev.length = 1 := by
    have := congrArg List.length hx
    rw [htx] at this
    simpa using this.symm
  omega

theorem step_bytes {data : Bytes} {j i : Input} (hj : Reach data j) (h : readToken j = .ok i) :
    j.token.endPos.byte ≤ i.token.pos.byte := by
  obtain ⟨gap, _, hg⟩ := reach_step_gap hj h
  have h1 := (reach_tokOK2 hj).facts.«end».1.le
  have h2 := (reach_tokOK2 (Reach.lex hj h)).facts.start.1.le
  have := congrArg List.length hg
  simp only [List.length_take, List.length_append] at this
  omega

/-- everything one `lex` call of the parser gives -/
theorem lex_facts {data : Bytes} {i i1 : Input} {tok : Token} (hr : Reach data i) (hg : G i)
    (hl : lex i = .ok (tok, i1)) :
    tok = i.token ∧ Reach data i1 ∧ G i1 ∧ (∀ D, Done i D → Done i1 (D ++ recOf i.token)) ∧
      i.token.endPos.byte ≤ i1.token.pos.byte ∧ i.token.pos.byte ≤ i.token.endPos.byte ∧
      (EolKind i.token.kind → i1.token.kind ≠ .eolComment) := by
  obtain ⟨htok, hrt⟩ := lex_inv hl
  obtain ⟨hg1, _, he⟩ := hg.step hrt
  refine ⟨htok, Reach.lex hr hrt, hg1, ?_, step_bytes hr hrt, tok_bytes_le hr, he⟩
  intro D hD
  unfold Done at hD ⊢
  rw [readToken_comments_rec i i1 hrt, hD]

theorem recOf_not_eol {tok : Token} (h : tok.kind.isEOL = false) : recOf tok = [] := by
  unfold recOf
  have : tok.kind ≠ .eolComment := by intro hk; rw [hk] at h; cases h
  simp [this]

/-- the slot of a node that ends at or before an end-of-line token -/
theorem slot_of_eol {data : Bytes} {i i1 : Input} (hr : Reach data i) (e : Nat) (he : e ≤ i.token.pos.byte)
    (hb : i.token.endPos.byte ≤ i1.token.pos.byte) : Slot e (recOf i.token) i1.token.pos.byte := by
  unfold recOf
  split
  · rename_i hk
    right
    refine ⟨_, rfl, he, ?_⟩
    have := tok_bytes_lt_comment hr (by rw [hk]; rfl)
    show i.token.pos.byte < _
    omega
  · exact Or.inl rfl

/-! ### token lines -/

theorem parseLineLoop_own {data : Bytes} : ∀ (fuel : Nat) (i : Input) (s e : Position) (acc : List Bytes) (l : Line)
    (i' : Input) (D : List Comment), Reach data i → G i → Done i D → s.byte ≤ e.byte → e.byte ≤ i.token.pos.byte →
    parseLineLoop fuel i s e acc = .ok (l, i') →
    Reach data i' ∧ G i' ∧ i'.token.kind ≠ .eolComment ∧ l.start = s ∧ l.comments = {} ∧ s.byte ≤ l.«end».byte ∧
      l.«end».byte ≤ i'.token.pos.byte ∧ ∃ cl, Done i' (D ++ cl) ∧ Slot l.«end».byte cl i'.token.pos.byte := by
  intro fuel
  induction fuel with
  | zero => intro i s e acc l i' D _ _ _ _ _ h; simp [parseLineLoop] at h
  | succ n ih =>
    intro i s e acc l i' D hr hg hD h1 h2 h
    unfold parseLineLoop at h
    cases hl : lex i with
    | error err => simp [hl, bind, Except.bind] at h
    | ok v =>
      obtain ⟨tok, i1⟩ := v
      simp only [hl, bind, Except.bind] at h
      obtain ⟨htok, hr1, hg1, hdone, hb1, hb2, hnext⟩ := lex_facts hr hg hl
      subst htok
      by_cases he : i.token.kind.isEOL = true
      · simp only [he, if_true, Except.ok.injEq, Prod.mk.injEq] at h
        obtain ⟨rfl, rfl⟩ := h
        refine ⟨Reach.setId _ hr1, hg1.setId _, hnext (isEOL_eolKind he), rfl, rfl, h1, ?_,
          recOf i.token, (hdone D hD).setId _, slot_of_eol hr e.byte h2 hb1⟩
        show e.byte ≤ i1.token.pos.byte
        omega
      · have he' : i.token.kind.isEOL = false := by simpa using he
        simp only [he', Bool.false_eq_true, if_false] at h
        have hD1 := hdone D hD
        rw [recOf_not_eol he', List.append_nil] at hD1
        exact ih i1 s i.token.endPos (i.token.text :: acc) l i' D hr1 hg1 hD1 (by omega) hb1 h

theorem parseLine_own {data : Bytes} (fuel : Nat) (i : Input) (l : Line) (i' : Input) (D : List Comment)
    (hr : Reach data i) (hg : G i) (hD : Done i D) (h : parseLine fuel i = .ok (l, i')) :
    Reach data i' ∧ G i' ∧ i'.token.kind ≠ .eolComment ∧ l.comments = {} ∧ i.token.pos.byte ≤ l.«end».byte ∧
      l.«end».byte ≤ i'.token.pos.byte ∧ ∃ cl, Done i' (D ++ cl) ∧ Slot l.«end».byte cl i'.token.pos.byte := by
  unfold parseLine at h
  cases hl : lex i with
  | error err => simp [hl, bind, Except.bind] at h
  | ok v =>
    obtain ⟨tok, i1⟩ := v
    simp only [hl, bind, Except.bind] at h
    obtain ⟨htok, hr1, hg1, hdone, hb1, hb2, _⟩ := lex_facts hr hg hl
    subst htok
    split at h
    · cases h
    · rename_i he
      have he' : i.token.kind.isEOL = false := by simpa using he
      have hD1 := hdone D hD
      rw [recOf_not_eol he', List.append_nil] at hD1
      obtain ⟨a1, a2, a3, a4, a5, a6, a7, a8⟩ := parseLineLoop_own fuel i1 i.token.pos i.token.endPos [i.token.text] l i' D
        hr1 hg1 hD1 hb2 hb1 h
      exact ⟨a1, a2, a3, a5, by rw [← a4] at a6; rw [a4] at a6; exact a6, a7, a8⟩

/-! ### block bodies -/

/-- `l` starts and ends on the same source line -/
def OneLine (l : Line) : Prop := l.start.line = l.«end».line

def OneLineStmt : Expr → Prop
  | .line l => OneLine l
  | .lineBlock b => ∀ l ∈ b.lines, OneLine l
  | _ => True

/-- `LinesOwn`, provided the lines are one-line lines -/
def LinesOwnH (linesRev : List Line) (Cl : List Comment) (lo hi : Nat) : Prop :=
  (∀ l ∈ linesRev, OneLine l) → LinesOwn linesRev Cl lo hi

theorem linesOwnH_cons {lr : List Line} {Cl : List Comment} {lo mid hi : Nat} (h : LinesOwnH lr Cl lo mid)
    (l : Line) (cl : List Comment) (hs : l.comments.suffix = []) (hmid : mid ≤ l.«end».byte)
    (hsl : Slot l.«end».byte cl hi) (hhi : mid ≤ hi) : LinesOwnH (l :: lr) (Cl ++ cl) lo hi := by
  intro hone
  exact linesOwn_cons (h (fun l' hl' => hone l' (by simp [hl']))) l cl hs hmid hsl (fun _ => hone l (by simp)) hhi

theorem LinesOwnH.mono {lr : List Line} {Cl : List Comment} {lo hi hi' : Nat} (h : LinesOwnH lr Cl lo hi) (hh : hi ≤ hi') :
    LinesOwnH lr Cl lo hi' := fun hone => (h hone).mono hh

theorem parseLineBlockLoop_own {data : Bytes} : ∀ (fuel : Nat) (i : Input) (x : LineBlock) (linesRev : List Line)
    (crev : List Comment) (b : LineBlock) (i' : Input) (D Cl : List Comment) (lo mid : Nat),
    Reach data i → G i → i.token.kind ≠ .eolComment → Done i (D ++ Cl) → LinesOwnH linesRev Cl lo mid →
    mid ≤ i.token.pos.byte →
    parseLineBlockLoop fuel i x linesRev crev = .ok (b, i') →
    Reach data i' ∧ G i' ∧ i'.token.kind ≠ .eolComment ∧ b.start = x.start ∧ b.comments = x.comments ∧
      b.lparen = x.lparen ∧ b.rparen.comments.suffix = [] ∧
      ∃ Cl' Crp m2, Done i' (D ++ (Cl' ++ Crp)) ∧ LinesOwnH b.lines.reverse Cl' lo m2 ∧ m2 ≤ b.rparen.pos.byte + 1 ∧
        Slot (b.rparen.pos.byte + 1) Crp i'.token.pos.byte ∧ b.rparen.pos.byte + 1 ≤ i'.token.pos.byte := by
  intro fuel
  induction fuel with
  | zero => intro i x linesRev crev b i' D Cl lo mid _ _ _ _ _ _ h; simp [parseLineBlockLoop] at h
  | succ n ih =>
    intro i x linesRev crev b i' D Cl lo mid hr hg hne hD hlo hmid h
    unfold parseLineBlockLoop at h
    split at h
    · rename_i hk
      exact absurd hk hne
    · -- blank line
      rename_i hk
      have hk : i.token.kind = .punct 10 := hk
      cases hl : lex i with
      | error err => simp [hl, bind, Except.bind] at h
      | ok v =>
        obtain ⟨tok, i1⟩ := v
        simp only [hl, bind, Except.bind] at h
        obtain ⟨_, hr1, hg1, hdone, hb1, hb2, hnext⟩ := lex_facts hr hg hl
        have hD1 := hdone _ hD
        rw [recOf_of_not_eolc (by rw [hk]; simp), List.append_nil] at hD1
        exact ih i1 x linesRev _ b i' D Cl lo mid hr1 hg1 (hnext (Or.inl hk)) hD1 hlo (by omega) h
    · -- whole-line comment
      rename_i hk
      have hk : i.token.kind = .comment := hk
      cases hl : lex i with
      | error err => simp [hl, bind, Except.bind] at h
      | ok v =>
        obtain ⟨tok, i1⟩ := v
        simp only [hl, bind, Except.bind] at h
        obtain ⟨_, hr1, hg1, hdone, hb1, hb2, hnext⟩ := lex_facts hr hg hl
        have hD1 := hdone _ hD
        rw [recOf_of_not_eolc (by rw [hk]; simp), List.append_nil] at hD1
        exact ih i1 x linesRev _ b i' D Cl lo mid hr1 hg1 (hnext (Or.inr (Or.inr (Or.inl hk)))) hD1 hlo (by omega) h
    · cases h
    · -- `)`
      rename_i hk
      have hk : i.token.kind = .punct 41 := hk
      cases hl : lex i with
      | error err => simp [hl, bind, Except.bind] at h
      | ok v =>
        obtain ⟨tok, i1⟩ := v
        simp only [hl, bind, Except.bind] at h
        obtain ⟨htok, hr1, hg1, hdone, hb1, hb2, _⟩ := lex_facts hr hg hl
        subst htok
        split at h
        · cases h
        · rename_i heol
          have heol : i1.token.kind.isEOL = true := by simpa [Input.peek] using heol
          cases hl2 : lex i1 with
          | error err => simp [hl2] at h
          | ok w =>
            obtain ⟨tok2, i2⟩ := w
            simp only [hl2, Except.ok.injEq, Prod.mk.injEq] at h
            obtain ⟨rfl, rfl⟩ := h
            obtain ⟨htok2, hr2, hg2, hdone2, hc1, hc2, hnext2⟩ := lex_facts hr1 hg1 hl2
            have hD1 := hdone _ hD
            rw [recOf_of_not_eolc (by rw [hk]; simp), List.append_nil] at hD1
            have hD2 := hdone2 _ hD1
            have hend := punct_end hr 41 hk
            refine ⟨hr2, hg2, hnext2 (isEOL_eolKind heol), rfl, rfl, rfl, rfl,
              Cl, recOf i1.token, mid, by rw [List.append_assoc] at hD2; exact hD2, ?_, by show mid ≤ i.token.pos.byte + 1; omega,
              ?_, ?_⟩
            · show LinesOwnH (linesRev.reverse).reverse Cl lo mid
              rw [List.reverse_reverse]; exact hlo
            · exact slot_of_eol hr1 (i.token.pos.byte + 1) (by omega) hc1
            · show i.token.pos.byte + 1 ≤ i2.token.pos.byte
              omega
    · -- a line
      cases hp : parseLine (n + 1) i with
      | error err => simp [hp, bind, Except.bind] at h
      | ok v =>
        obtain ⟨l, i1⟩ := v
        simp only [hp, bind, Except.bind] at h
        obtain ⟨hr1, hg1, hne1, hlc, hlo1, hhi1, cl, hD1, hsl⟩ := parseLine_own (n + 1) i l i1 (D ++ Cl) hr hg hD hp
        have hown : LinesOwnH ({ l with comments := { l.comments with before := crev.reverse } } :: linesRev) (Cl ++ cl) lo
            i1.token.pos.byte :=
          linesOwnH_cons hlo _ cl (by show l.comments.suffix = []; rw [hlc]) (by show mid ≤ l.«end».byte; omega) hsl
            (by omega)
        exact ih i1 x _ [] b i' D (Cl ++ cl) lo i1.token.pos.byte hr1 hg1 hne1 (by rw [← List.append_assoc]; exact hD1)
          hown (Nat.le_refl _) h

end ModVerif.Proofs.ModfileEol
