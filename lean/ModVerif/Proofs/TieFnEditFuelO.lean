/-
  Closed fuel of the go.work session ties (agent edit-fuel5), helper part O: the potential of the LOADED go.work file is
  linear in the byte length of the file text — the `parseWork` analogue of parts I / J (`W_load_le`).  `workAdd_growth`
  (one `WorkFile.add` step: tokens `≤ 16·tokW args + 80`, typed part `+ ≤ 4·tokW args + 1`; the token lemmas
  `parseString_tok`, `parseReplace_tok` are those of part I), the loops `workBlockLines_growth`, `workStmts_growth`,
  `parseWork_growth`, `WW_loadWork`, `WW_loadWork_le : WW (Edit.loadWork f) ≤ 408·|file| + 102`.
-/
import ModVerif.Proofs.TieFnEditFuelJ
import ModVerif.Proofs.TieFnEditFuelM
set_option linter.unusedSimpArgs false
set_option linter.unusedVariables false
namespace ModVerif.Tie.FnEditFuelO
open ModVerif ModVerif.Modfile ModVerif.Tie.FnEditFuelA ModVerif.Tie.FnEditFuelB ModVerif.Tie.FnEditFuelI ModVerif.Tie.FnEditFuelJ
open ModVerif.Tie.FnEditFuelM

/-- the typed part of the potential `WW` -/
def workP (f : WorkFile) : Nat :=
  f.godebug.length + f.use.length + f.replace.length + (match f.go with | some g => g.version.length | none => 0)

theorem workAdd_growth (st : WorkState) (line : Line) (verb : Bytes) (args : List Bytes) {fix : Option Fixer} (hfix : PlainFix fix) :
    tokW (WorkFile.add st line verb args fix).2 ≤ 16 * tokW args + 80 ∧
      workP (WorkFile.add st line verb args fix).1.file ≤ workP st.file + 4 * tokW args + 1 := by
  unfold WorkFile.add
  simp only
  split
  · split
    · simp only [WorkState.err]; omega
    · rename_i hg
      have hn : st.file.go = none := by cases h : st.file.go <;> simp_all
      split
      · split
        · simp only [WorkState.err]; omega
        · simp only [workP, hn, tokW_cons, tokW_nil]; omega
      · simp only [WorkState.err]; omega
  · split
    · split
      · simp only [WorkState.err]; omega
      · split
        · split
          · simp only [WorkState.err]; omega
          · simp only [workP]; omega
        · simp only [WorkState.err]; omega
    · split
      · split
        · simp only [WorkState.err]; omega
        · simp only [workP, List.length_append, List.length_cons, List.length_nil]; omega
      · split
        · split
          · split
            · simp only [WorkState.err]; omega
            · rename_i a s a' hs
              have := parseString_tok hs
              simp only [workP, List.length_append, List.length_cons, List.length_nil, tokW_cons, tokW_nil]; omega
          · simp only [WorkState.err]; omega
        · split
          · have ht := parseReplace_tok hfix line.id args
            split
            · rename_i args' e he
              rw [he] at ht
              simp only [] at ht
              simp only [WorkState.err]; omega
            · rename_i args' r he
              rw [he] at ht
              simp only [] at ht
              simp only [workP, List.length_append, List.length_cons, List.length_nil]; omega
          · simp only [WorkState.err]; omega

theorem workBlockLines_growth (verb : Bytes) {fix : Option Fixer} (hfix : PlainFix fix) :
    ∀ (ls : List Line) (st : WorkState),
      linesW (workBlockLines verb fix st ls).2 + workP (workBlockLines verb fix st ls).1.file ≤
        workP st.file + 102 * linesW ls
  | [], st => by simp [workBlockLines]
  | l :: ls, st => by
    have h1 := workAdd_growth st l verb l.token hfix
    have h2 := workBlockLines_growth verb hfix ls (WorkFile.add st l verb l.token fix).1
    simp only [workBlockLines, linesW_cons, lineW] at h2 ⊢
    omega

theorem workStmtStep_growth {fix : Option Fixer} (hfix : PlainFix fix) (x : Expr) (xs : List Expr) (st : WorkState) :
    ∃ st1 x1, workStmts fix st (x :: xs) = ((workStmts fix st1 xs).1, x1 :: (workStmts fix st1 xs).2) ∧
      exprW x1 + workP st1.file ≤ workP st.file + 102 * exprW x := by
  cases x with
  | line l =>
    cases ht : l.token with
    | nil =>
      refine ⟨st, .line l, ?_, by omega⟩
      simp only [workStmts, ht]
    | cons verb args =>
      have h1 := workAdd_growth st l verb args hfix
      refine ⟨(WorkFile.add st l verb args fix).1, .line { l with token := verb :: (WorkFile.add st l verb args fix).2 }, ?_, ?_⟩
      · simp only [workStmts, ht]
      · simp only [exprW, lineW, ht, tokW_cons] at h1 ⊢
        omega
  | lineBlock b =>
    by_cases hb : ∃ verb, b.token = [verb] ∧ verbIn verb workBlockVerbs = true
    · obtain ⟨verb, ht, hv⟩ := hb
      have h := workBlockLines_growth verb hfix b.lines st
      refine ⟨(workBlockLines verb fix st b.lines).1, .lineBlock { b with lines := (workBlockLines verb fix st b.lines).2 }, ?_, ?_⟩
      · simp only [workStmts, ht, hv, if_true]
      · simp only [exprW] at h ⊢
        omega
    · refine ⟨st.err b.start .unknownBlock, .lineBlock b, ?_, by simp only [WorkState.err]; omega⟩
      simp only [workStmts]
      split
      · rename_i verb ht
        split
        · rename_i hv; exact (hb ⟨verb, ht, hv⟩).elim
        · rfl
      · rfl
  | commentBlock c => exact ⟨st, .commentBlock c, by simp only [workStmts], by omega⟩
  | lparen c => exact ⟨st, .lparen c, by simp only [workStmts], by omega⟩
  | rparen c => exact ⟨st, .rparen c, by simp only [workStmts], by omega⟩

theorem workStmts_growth {fix : Option Fixer} (hfix : PlainFix fix) :
    ∀ (xs : List Expr) (st : WorkState),
      treeW (workStmts fix st xs).2 + workP (workStmts fix st xs).1.file ≤ workP st.file + 102 * treeW xs
  | [], st => by simp [workStmts]
  | x :: xs, st => by
    obtain ⟨st1, x1, he, h1⟩ := workStmtStep_growth hfix x xs st
    have h2 := workStmts_growth hfix xs st1
    rw [he]
    simp only [treeW_cons] at h2 ⊢
    omega

/-- **the typed go.work file of a parse weighs at most 102 times the parsed tree** -/
theorem parseWork_growth {name data : Bytes} {f : WorkFile} (h : parseWork name data none = .ok f) :
    ∃ fs, parse name data = .ok fs ∧ treeW f.syn.stmts + workP f ≤ 102 * treeW fs.stmts := by
  unfold parseWork at h
  cases hp : parse name data with
  | error e => simp [hp] at h
  | ok fs =>
    refine ⟨fs, rfl, ?_⟩
    have hg := workStmts_growth (Or.inl rfl : PlainFix none) fs.stmts { file := { syn := fs } }
    simp only [hp] at h
    generalize workStmts none { file := { syn := fs } } fs.stmts = r at h hg
    obtain ⟨st, stmts⟩ := r
    simp only [] at h
    cases hE : st.errsRev.isEmpty with
    | false => simp [hE] at h
    | true =>
      simp only [hE, if_true, Except.ok.injEq] at h
      subst h
      simp only [workP, List.length_nil] at hg ⊢
      omega

/-- the potential of the loaded go.work file is the tree weight plus the typed part -/
theorem WW_loadWork (f : WorkFile) : WW (Edit.loadWork f) = treeW f.syn.stmts + workP f := by
  unfold WW goLenW Edit.loadWork workP
  simp only [shiftSyntax_treeW, List.length_map]
  cases f.go <;> simp <;> omega

/-- **the potential of the loaded go.work file is linear in the length of the file text** -/
theorem WW_loadWork_le {name file : Bytes} {f : WorkFile} (h : parseWork name file none = .ok f) :
    WW (Edit.loadWork f) ≤ 408 * file.length + 102 := by
  obtain ⟨fs, hp, hg⟩ := parseWork_growth h
  have := FnEditFuelH.treeW_parse_le hp
  rw [WW_loadWork]; omega

end ModVerif.Tie.FnEditFuelO
