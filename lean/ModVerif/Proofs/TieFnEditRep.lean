/-
  Shared vocabulary of the tie proofs of the regenerated go.mod / go.work EDIT OPERATIONS (Generated/FnEdit.lean, namespace
  ModVerif.Generated.Edit), whose pointer graph is a HEAP (`Edit.Heap`: one list of objects per Go struct type; a pointer
  is the 1-based position, 0 = nil), against the hand model Model/Modfile/Edit.lean (a VALUE tree whose lines carry an
  `id`, typed entries carry the `lineId` of their syntax line).

  * embeddings model → heap object (`posG`, `comG`, `comsG`, `mvG` are the driver's, Drv/GenEdit.lean; here `lineG`, `cbG`,
    `lparenG`, `rparenG`, `blockG`, `fileG`, `moduleG`, `goG`, `toolchainG`, `godebugG`, `requireG`, `excludeG`, `replaceG`,
    `retractG`, `toolG`, `useG`); a typed object's `Syntax` is its `lineId` as an `Int` (0 ↔ `nilId`);
  * the representation relations, embedding direction: `RLine h p l` (the line object at `p` IS `lineG l` and `p = l.id`),
    `RLines`, `RExpr`, `RStmts`, `RFile`;
  * `RepSyn h p fs`: the graph at the `*FileSyntax` pointer `p` is the model tree `fs`, no line id and no block pointer
    occurs twice (`treeIds` of Proofs/EditRefineTree.lean);  garbage objects are allowed in the heap;
  * `LinesG h`: every line object of the heap is the embedding of some model line (all positions are natural numbers) — so
    also a line that is no longer in the graph can be talked about as `lineG l`;
  * `REnts`/`ROpt`: a typed list / optional typed entry of the heap is the model's, `Syntax = lineId`, `lineId ≤ lines.length`
    (nil or allocated — NOT necessarily a line of the graph), the pointers of a list pairwise different;
  * `RepF h fp e` (go.mod, `*File` pointer) and `RepW h fp e` (go.work, `*WorkFile` pointer): all of the above plus
    `e.next = h.lines.length + 1` and `BlockTokOK` (every block of the tree has a non-empty `token`: Go evaluates `Token[0]`);
  * frame lemmas: the relations under a change of another object list, under allocation, under `heapSet` of a line
    (`RStmts.setLine`, `RepSyn.setLine`: the model side is `FileSyntax.updateLine`), of a typed object, …;
  * the heapGet / heapSet / heapAlloc lemmas of Proofs/TieFnParseHeap.lean are re-exported under this namespace.

  Owner: edit-rep.  Other agents import this file and do not edit it.  Statements are never changed, only added.
-/
import ModVerif.Generated.FnEdit
import ModVerif.Drv.GenEdit
import ModVerif.Model.Modfile.Edit
import ModVerif.Proofs.EditRefineTree
import ModVerif.Proofs.TieFnParseHeap
set_option linter.unusedSimpArgs false
set_option linter.unusedVariables false
namespace ModVerif.Tie.FnEditRep
open ModVerif ModVerif.GoRt ModVerif.Generated
open ModVerif.Modfile.Edit (treeIds mapLinesStmt nilId)

export ModVerif.Drv.GenEdit (posG comG comsG posM comM comsM mvG)
export ModVerif.Tie.FnParseHeap (heapGet_ok_iff heapGet_pos heapGet_le_length heapGet_error heapGet_natCast heapAlloc_fst
  heapAlloc_snd heapGet_alloc_new heapGet_alloc_old heapGet_append_old heapGet_alloc_of_le heapSet_of_get heapSet_ok_iff
  heapSet_length heapGet_set_same heapGet_set_other heapGet_set_ok heapGet_listSet_same heapGet_listSet_other set_alloc_last)

/-! ### embeddings and read-back of positions and comments -/

@[simp] theorem posM_posG (p : Modfile.Position) : posM (posG p) = p := by
  cases p; simp [Drv.GenEdit.posM, Drv.GenEdit.posG]

@[simp] theorem posG_zero : posG {} = (default : Edit.Position) := rfl
@[simp] theorem posG_Line (p : Modfile.Position) : (posG p).Line = (p.line : Int) := rfl
@[simp] theorem posG_LineRune (p : Modfile.Position) : (posG p).LineRune = (p.lineRune : Int) := rfl
@[simp] theorem posG_Byte (p : Modfile.Position) : (posG p).Byte = (p.byte : Int) := rfl

theorem posG_inj {p q : Modfile.Position} (h : posG p = posG q) : p = q := by
  have := congrArg posM h
  simpa using this

@[simp] theorem comM_comG (c : Modfile.Comment) : comM (comG c) = c := by
  cases c; simp [Drv.GenEdit.comM, Drv.GenEdit.comG]

@[simp] theorem comG_zero : comG {} = (default : Edit.Comment) := rfl
@[simp] theorem comG_Start (c : Modfile.Comment) : (comG c).Start = posG c.start := rfl
@[simp] theorem comG_Token (c : Modfile.Comment) : (comG c).Token = c.token := rfl
@[simp] theorem comG_Suffix (c : Modfile.Comment) : (comG c).Suffix = c.suffix := rfl

theorem comG_inj {c d : Modfile.Comment} (h : comG c = comG d) : c = d := by
  have := congrArg comM h
  simpa using this

@[simp] theorem map_comM_comG (l : List Modfile.Comment) : (l.map comG).map comM = l := by
  induction l with
  | nil => rfl
  | cons a t ih => simp [ih]

theorem map_comG_inj {l m : List Modfile.Comment} (h : l.map comG = m.map comG) : l = m := by
  have := congrArg (List.map comM) h
  simp only [map_comM_comG] at this
  exact this

@[simp] theorem comsM_comsG (c : Modfile.Comments) : comsM (comsG c) = c := by
  cases c; simp only [Drv.GenEdit.comsM, Drv.GenEdit.comsG, map_comM_comG]

@[simp] theorem comsG_zero : comsG {} = (default : Edit.Comments) := rfl
@[simp] theorem comsG_Before (c : Modfile.Comments) : (comsG c).Before = c.before.map comG := rfl
@[simp] theorem comsG_Suffix (c : Modfile.Comments) : (comsG c).Suffix = c.suffix.map comG := rfl
@[simp] theorem comsG_After (c : Modfile.Comments) : (comsG c).After = c.after.map comG := rfl

theorem comsG_inj {c d : Modfile.Comments} (h : comsG c = comsG d) : c = d := by
  have := congrArg comsM h
  simpa using this

@[simp] theorem mvG_Path (m : Modfile.ModVersion) : (mvG m).Path = m.path := rfl
@[simp] theorem mvG_Version (m : Modfile.ModVersion) : (mvG m).Version = m.version := rfl
@[simp] theorem mvG_zero : mvG {} = (default : ModVersion) := rfl

theorem mvG_inj {a b : Modfile.ModVersion} (h : mvG a = mvG b) : a = b := by
  cases a; cases b
  simp only [Drv.GenEdit.mvG, ModVersion.mk.injEq] at h
  simp [h.1, h.2]

/-! ### the heap objects of model nodes -/

def cbG (c : Modfile.CommentBlock) : Edit.CommentBlock := { Comments := comsG c.comments, Start := posG c.start }

/-- the line object (the `id` is not stored: it is the pointer) -/
def lineG (l : Modfile.Line) : Edit.Line :=
  { Comments := comsG l.comments, Start := posG l.start, Token := l.token, InBlock := l.inBlock, End := posG l.«end» }

def lparenG (x : Modfile.LParen) : Edit.LParen := { Comments := comsG x.comments, Pos := posG x.pos }
def rparenG (x : Modfile.RParen) : Edit.RParen := { Comments := comsG x.comments, Pos := posG x.pos }

/-- the block object: its lines are the pointers `ps` -/
def blockG (b : Modfile.LineBlock) (ps : List Int) : Edit.LineBlock :=
  { Comments := comsG b.comments, Start := posG b.start, LParen := lparenG b.lparen, Token := b.token, Line := ps,
    RParen := rparenG b.rparen }

/-- the file object: its statements are `es` -/
def fileG (f : Modfile.FileSyntax) (es : List Edit.Expr) : Edit.FileSyntax :=
  { Name := f.name, Comments := comsG f.comments, Stmt := es }

@[simp] theorem lineG_Comments (l : Modfile.Line) : (lineG l).Comments = comsG l.comments := rfl
@[simp] theorem lineG_Start (l : Modfile.Line) : (lineG l).Start = posG l.start := rfl
@[simp] theorem lineG_Token (l : Modfile.Line) : (lineG l).Token = l.token := rfl
@[simp] theorem lineG_InBlock (l : Modfile.Line) : (lineG l).InBlock = l.inBlock := rfl
@[simp] theorem lineG_End (l : Modfile.Line) : (lineG l).End = posG l.«end» := rfl
@[simp] theorem blockG_Comments (b : Modfile.LineBlock) (ps : List Int) : (blockG b ps).Comments = comsG b.comments := rfl
@[simp] theorem blockG_Start (b : Modfile.LineBlock) (ps : List Int) : (blockG b ps).Start = posG b.start := rfl
@[simp] theorem blockG_LParen (b : Modfile.LineBlock) (ps : List Int) : (blockG b ps).LParen = lparenG b.lparen := rfl
@[simp] theorem blockG_RParen (b : Modfile.LineBlock) (ps : List Int) : (blockG b ps).RParen = rparenG b.rparen := rfl
@[simp] theorem blockG_Token (b : Modfile.LineBlock) (ps : List Int) : (blockG b ps).Token = b.token := rfl
@[simp] theorem blockG_Line (b : Modfile.LineBlock) (ps : List Int) : (blockG b ps).Line = ps := rfl
@[simp] theorem rparenG_Comments (x : Modfile.RParen) : (rparenG x).Comments = comsG x.comments := rfl
@[simp] theorem lparenG_Comments (x : Modfile.LParen) : (lparenG x).Comments = comsG x.comments := rfl
@[simp] theorem fileG_Name (f : Modfile.FileSyntax) (es : List Edit.Expr) : (fileG f es).Name = f.name := rfl
@[simp] theorem fileG_Comments (f : Modfile.FileSyntax) (es : List Edit.Expr) : (fileG f es).Comments = comsG f.comments := rfl
@[simp] theorem fileG_Stmt (f : Modfile.FileSyntax) (es : List Edit.Expr) : (fileG f es).Stmt = es := rfl

/-- a new line as the edit operations create it (`&Line{Token: tokens}` / `…, InBlock: true`) -/
theorem lineG_mkLine (id : Nat) (tokens : List Bytes) (inBlock : Bool) :
    lineG (Modfile.Edit.mkLine id tokens inBlock) = { (default : Edit.Line) with Token := tokens, InBlock := inBlock } := rfl

/-- `lineG` forgets exactly the id -/
theorem lineG_eq_iff {a b : Modfile.Line} : lineG a = lineG b ↔ a = { b with id := a.id } := by
  constructor
  · intro h
    obtain ⟨i, c, s, t, ib, e⟩ := a
    obtain ⟨j, c', s', t', ib', e'⟩ := b
    simp only [lineG, Edit.Line.mk.injEq] at h
    obtain ⟨h1, h2, h3, h4, h5⟩ := h
    have := comsG_inj h1; have := posG_inj h2; have := posG_inj h5
    subst_vars; rfl
  · intro h; rw [h]; rfl

/-- a function on model lines that does not look at the id and keeps it (every line function of the edit model) -/
def IdEquiv (g : Modfile.Line → Modfile.Line) : Prop := ∀ (l : Modfile.Line) (i : Nat), g { l with id := i } = { g l with id := i }

theorem IdEquiv.id_eq {g : Modfile.Line → Modfile.Line} (hg : IdEquiv g) (l : Modfile.Line) : (g l).id = l.id := by
  have := hg l l.id
  have e : ({ l with id := l.id } : Modfile.Line) = l := rfl
  rw [e] at this
  rw [this]

theorem IdEquiv.lineG {g : Modfile.Line → Modfile.Line} (hg : IdEquiv g) {a b : Modfile.Line} (h : lineG a = lineG b) :
    lineG (g a) = lineG (g b) := by
  rw [lineG_eq_iff.1 h, hg b a.id]; rfl

theorem IdEquiv.comp {g k : Modfile.Line → Modfile.Line} (hg : IdEquiv g) (hk : IdEquiv k) : IdEquiv (fun l => g (k l)) := by
  intro l i; simp only; rw [hk l i, hg (k l) i]

theorem IdEquiv.ident : IdEquiv (fun l => l) := fun _ _ => rfl

/-! typed entries: `Syntax` is the `lineId` (0 = nil) -/

def moduleG (m : Modfile.Module) : Edit.Module := { Mod := mvG m.mod, Deprecated := m.deprecated, Syntax := (m.lineId : Int) }
def goG (g : Modfile.Go) : Edit.Go := { Version := g.version, Syntax := (g.lineId : Int) }
def toolchainG (t : Modfile.Toolchain) : Edit.Toolchain := { Name := t.name, Syntax := (t.lineId : Int) }
def godebugG (g : Modfile.Godebug) : Edit.Godebug := { Key := g.key, Value := g.value, Syntax := (g.lineId : Int) }
def requireG (r : Modfile.Require) : Edit.Require := { Mod := mvG r.mod, Indirect := r.indirect, Syntax := (r.lineId : Int) }
def excludeG (x : Modfile.Exclude) : Edit.Exclude := { Mod := mvG x.mod, Syntax := (x.lineId : Int) }
def replaceG (r : Modfile.Replace) : Edit.Replace := { Old := mvG r.old, New := mvG r.new, Syntax := (r.lineId : Int) }
def retractG (r : Modfile.Retract) : Edit.Retract :=
  { VersionInterval := { Low := r.interval.low, High := r.interval.high }, Rationale := r.rationale, Syntax := (r.lineId : Int) }
def toolG (t : Modfile.Tool) : Edit.Tool := { Path := t.path, Syntax := (t.lineId : Int) }
def useG (u : Modfile.Use) : Edit.Use := { Path := u.path, ModulePath := u.modulePath, Syntax := (u.lineId : Int) }

@[simp] theorem moduleG_Mod (m : Modfile.Module) : (moduleG m).Mod = mvG m.mod := rfl
@[simp] theorem moduleG_Deprecated (m : Modfile.Module) : (moduleG m).Deprecated = m.deprecated := rfl
@[simp] theorem moduleG_Syntax (m : Modfile.Module) : (moduleG m).Syntax = (m.lineId : Int) := rfl
@[simp] theorem goG_Version (g : Modfile.Go) : (goG g).Version = g.version := rfl
@[simp] theorem goG_Syntax (g : Modfile.Go) : (goG g).Syntax = (g.lineId : Int) := rfl
@[simp] theorem toolchainG_Name (t : Modfile.Toolchain) : (toolchainG t).Name = t.name := rfl
@[simp] theorem toolchainG_Syntax (t : Modfile.Toolchain) : (toolchainG t).Syntax = (t.lineId : Int) := rfl
@[simp] theorem godebugG_Key (g : Modfile.Godebug) : (godebugG g).Key = g.key := rfl
@[simp] theorem godebugG_Value (g : Modfile.Godebug) : (godebugG g).Value = g.value := rfl
@[simp] theorem godebugG_Syntax (g : Modfile.Godebug) : (godebugG g).Syntax = (g.lineId : Int) := rfl
@[simp] theorem requireG_Mod (r : Modfile.Require) : (requireG r).Mod = mvG r.mod := rfl
@[simp] theorem requireG_Indirect (r : Modfile.Require) : (requireG r).Indirect = r.indirect := rfl
@[simp] theorem requireG_Syntax (r : Modfile.Require) : (requireG r).Syntax = (r.lineId : Int) := rfl
@[simp] theorem excludeG_Mod (x : Modfile.Exclude) : (excludeG x).Mod = mvG x.mod := rfl
@[simp] theorem excludeG_Syntax (x : Modfile.Exclude) : (excludeG x).Syntax = (x.lineId : Int) := rfl
@[simp] theorem replaceG_Old (r : Modfile.Replace) : (replaceG r).Old = mvG r.old := rfl
@[simp] theorem replaceG_New (r : Modfile.Replace) : (replaceG r).New = mvG r.new := rfl
@[simp] theorem replaceG_Syntax (r : Modfile.Replace) : (replaceG r).Syntax = (r.lineId : Int) := rfl
@[simp] theorem retractG_Low (r : Modfile.Retract) : (retractG r).VersionInterval.Low = r.interval.low := rfl
@[simp] theorem retractG_High (r : Modfile.Retract) : (retractG r).VersionInterval.High = r.interval.high := rfl
@[simp] theorem retractG_Rationale (r : Modfile.Retract) : (retractG r).Rationale = r.rationale := rfl
@[simp] theorem retractG_Syntax (r : Modfile.Retract) : (retractG r).Syntax = (r.lineId : Int) := rfl
@[simp] theorem toolG_Path (t : Modfile.Tool) : (toolG t).Path = t.path := rfl
@[simp] theorem toolG_Syntax (t : Modfile.Tool) : (toolG t).Syntax = (t.lineId : Int) := rfl
@[simp] theorem useG_Path (u : Modfile.Use) : (useG u).Path = u.path := rfl
@[simp] theorem useG_ModulePath (u : Modfile.Use) : (useG u).ModulePath = u.modulePath := rfl
@[simp] theorem useG_Syntax (u : Modfile.Use) : (useG u).Syntax = (u.lineId : Int) := rfl

/-- the cleared entries `*r = Require{}` … are the zero objects -/
theorem godebugG_cleared : godebugG Modfile.Edit.clearedGodebug = (default : Edit.Godebug) := rfl
theorem requireG_cleared : requireG Modfile.Edit.clearedRequire = (default : Edit.Require) := rfl
theorem excludeG_cleared : excludeG Modfile.Edit.clearedExclude = (default : Edit.Exclude) := rfl
theorem replaceG_cleared : replaceG Modfile.Edit.clearedReplace = (default : Edit.Replace) := rfl
theorem retractG_cleared : retractG Modfile.Edit.clearedRetract = (default : Edit.Retract) := rfl
theorem toolG_cleared : toolG Modfile.Edit.clearedTool = (default : Edit.Tool) := rfl
theorem useG_cleared : useG Modfile.Edit.clearedUse = (default : Edit.Use) := rfl

/-! ### the representation of the syntax graph -/

/-- the line object at `p` is the embedding of `l`, and the id of `l` is the pointer -/
def RLine (h : Edit.Heap) (p : Int) (l : Modfile.Line) : Prop :=
  heapGet h.lines p = .ok (lineG l) ∧ p = (l.id : Int)

def RLines (h : Edit.Heap) : List Int → List Modfile.Line → Prop
  | [], [] => True
  | p :: ps, l :: ls => RLine h p l ∧ RLines h ps ls
  | _, _ => False

/-- the statement `e` of the heap is the model statement `s` -/
def RExpr (h : Edit.Heap) : Edit.Expr → Modfile.Expr → Prop
  | .CommentBlock p, .commentBlock c => heapGet h.cbs p = .ok (cbG c)
  | .Line p, .line l => RLine h p l
  | .LineBlock p, .lineBlock b => ∃ ps, heapGet h.blocks p = .ok (blockG b ps) ∧ RLines h ps b.lines
  | _, _ => False

def RStmts (h : Edit.Heap) : List Edit.Expr → List Modfile.Expr → Prop
  | [], [] => True
  | e :: es, s :: ss => RExpr h e s ∧ RStmts h es ss
  | _, _ => False

/-- the graph at the file pointer `p` is the model tree `f` -/
def RFile (h : Edit.Heap) (p : Int) (f : Modfile.FileSyntax) : Prop :=
  ∃ es, heapGet h.files p = .ok (fileG f es) ∧ RStmts h es f.stmts

def blockPtrs : List Edit.Expr → List Int
  | [] => []
  | .LineBlock p :: es => p :: blockPtrs es
  | _ :: es => blockPtrs es

/-- the graph at `p`, with statement list `es`, is `fs`; no aliasing: block pointers and line ids (= line pointers) are
    pairwise different -/
structure RepSynAt (h : Edit.Heap) (p : Int) (fs : Modfile.FileSyntax) (es : List Edit.Expr) : Prop where
  file : heapGet h.files p = .ok (fileG fs es)
  stmts : RStmts h es fs.stmts
  nodupB : (blockPtrs es).Nodup
  nodupL : (treeIds fs.stmts).Nodup

/-- **the syntax graph at the `*FileSyntax` pointer `p` represents the model tree `fs`** -/
def RepSyn (h : Edit.Heap) (p : Int) (fs : Modfile.FileSyntax) : Prop := ∃ es, RepSynAt h p fs es

/-- every block of the tree has a verb (Go evaluates `stmt.Token[0]` on blocks; the model uses `headIs`) -/
def BlockTokOK (stmts : List Modfile.Expr) : Prop := ∀ b, Modfile.Expr.lineBlock b ∈ stmts → b.token ≠ []

/-- every line object of the heap (in the graph or not) is the embedding of a model line -/
def LinesG (h : Edit.Heap) : Prop := ∀ t ∈ h.lines, ∃ l : Modfile.Line, t = lineG l

/-! ### typed entries -/

/-- pointer list `ps` into the object list `objs` ↔ model entries `xs`: the object IS the embedding `g x`, the line id is
    nil or an allocated line (`≤ nl = lines.length`) -/
def REntsL {α β : Type} (objs : List α) (g : β → α) (id : β → Nat) (nl : Nat) : List Int → List β → Prop
  | [], [] => True
  | p :: ps, x :: xs => (heapGet objs p = .ok (g x) ∧ id x ≤ nl) ∧ REntsL objs g id nl ps xs
  | _, _ => False

/-- a typed list: pointwise the model's, the pointers pairwise different -/
structure REnts {α β : Type} (objs : List α) (g : β → α) (id : β → Nat) (nl : Nat) (ps : List Int) (xs : List β) : Prop where
  rel : REntsL objs g id nl ps xs
  nodup : ps.Nodup

/-- an optional typed entry (`f.Module`, `f.Go`, `f.Toolchain`): nil ↔ none -/
def ROpt {α β : Type} (objs : List α) (g : β → α) (id : β → Nat) (nl : Nat) (p : Int) : Option β → Prop
  | none => p = 0
  | some x => heapGet objs p = .ok (g x) ∧ id x ≤ nl

/-- the `File` object `o` with the heap `h` represents the model `e` -/
structure RepFAt (h : Edit.Heap) (o : Edit.File) (e : Modfile.Edit.EFile) : Prop where
  syn : RepSyn h o.Syntax e.f.syn
  tok : BlockTokOK e.f.syn.stmts
  linesG : LinesG h
  next : e.next = h.lines.length + 1
  module : ROpt h.modules moduleG (·.lineId) h.lines.length o.Module e.f.module
  go : ROpt h.gos goG (·.lineId) h.lines.length o.Go e.f.go
  toolchain : ROpt h.toolchains toolchainG (·.lineId) h.lines.length o.Toolchain e.f.toolchain
  godebug : REnts h.godebugs godebugG (·.lineId) h.lines.length o.Godebug e.f.godebug
  require : REnts h.requires requireG (·.lineId) h.lines.length o.Require e.f.require
  exclude : REnts h.excludes excludeG (·.lineId) h.lines.length o.Exclude e.f.exclude
  replace : REnts h.replaces replaceG (·.lineId) h.lines.length o.Replace e.f.replace
  retract : REnts h.retracts retractG (·.lineId) h.lines.length o.Retract e.f.retract
  tool : REnts h.tools toolG (·.lineId) h.lines.length o.Tool e.f.tool

/-- **heap `h` at the `*File` pointer `fp` represents the model go.mod `e`** -/
def RepF (h : Edit.Heap) (fp : Int) (e : Modfile.Edit.EFile) : Prop := ∃ o, heapGet h.mods fp = .ok o ∧ RepFAt h o e

/-- the `WorkFile` object `o` with the heap `h` represents the model `e` -/
structure RepWAt (h : Edit.Heap) (o : Edit.WorkFile) (e : Modfile.Edit.EWork) : Prop where
  syn : RepSyn h o.Syntax e.f.syn
  tok : BlockTokOK e.f.syn.stmts
  linesG : LinesG h
  next : e.next = h.lines.length + 1
  go : ROpt h.gos goG (·.lineId) h.lines.length o.Go e.f.go
  toolchain : ROpt h.toolchains toolchainG (·.lineId) h.lines.length o.Toolchain e.f.toolchain
  godebug : REnts h.godebugs godebugG (·.lineId) h.lines.length o.Godebug e.f.godebug
  use : REnts h.uses useG (·.lineId) h.lines.length o.Use e.f.use
  replace : REnts h.replaces replaceG (·.lineId) h.lines.length o.Replace e.f.replace

/-- **heap `h` at the `*WorkFile` pointer `fp` represents the model go.work `e`** -/
def RepW (h : Edit.Heap) (fp : Int) (e : Modfile.Edit.EWork) : Prop := ∃ o, heapGet h.works fp = .ok o ∧ RepWAt h o e

/-! ### elementary facts -/

theorem RLine.pos {h : Edit.Heap} {p : Int} {l : Modfile.Line} (r : RLine h p l) : 0 < p := heapGet_pos r.1
theorem RLine.id_pos {h : Edit.Heap} {p : Int} {l : Modfile.Line} (r : RLine h p l) : 0 < l.id := by
  have := r.pos; have := r.2; omega
theorem RLine.id_le {h : Edit.Heap} {p : Int} {l : Modfile.Line} (r : RLine h p l) : l.id ≤ h.lines.length := by
  have := heapGet_le_length r.1; have := r.2; omega
theorem RLine.toNat {h : Edit.Heap} {p : Int} {l : Modfile.Line} (r : RLine h p l) : p.toNat = l.id := by
  have := r.2; omega

theorem RLines.length {h : Edit.Heap} : ∀ {ps : List Int} {ls : List Modfile.Line}, RLines h ps ls → ps.length = ls.length
  | [], [], _ => rfl
  | _ :: _, _ :: _, r => by simp [RLines.length r.2]
  | [], _ :: _, r => r.elim
  | _ :: _, [], r => r.elim

/-- the line pointers of a block are the ids of its lines -/
theorem RLines.ptrs {h : Edit.Heap} : ∀ {ps : List Int} {ls : List Modfile.Line}, RLines h ps ls → ps = ls.map (fun l => (l.id : Int))
  | [], [], _ => rfl
  | _ :: _, _ :: _, r => by simp [← RLines.ptrs r.2, r.1.2]
  | [], _ :: _, r => r.elim
  | _ :: _, [], r => r.elim

theorem RStmts.length {h : Edit.Heap} : ∀ {es : List Edit.Expr} {ss : List Modfile.Expr}, RStmts h es ss → es.length = ss.length
  | [], [], _ => rfl
  | _ :: _, _ :: _, r => by simp [RStmts.length r.2]
  | [], _ :: _, r => r.elim
  | _ :: _, [], r => r.elim

theorem RLines.get {h : Edit.Heap} : ∀ {ps : List Int} {ls : List Modfile.Line}, RLines h ps ls →
    ∀ (i : Nat) (p : Int) (l : Modfile.Line), ps[i]? = some p → ls[i]? = some l → RLine h p l
  | _ :: _, _ :: _, r, 0, p, l, hp, hl => by
    simp only [List.getElem?_cons_zero, Option.some.injEq] at hp hl; subst hp hl; exact r.1
  | _ :: _, _ :: _, r, i + 1, p, l, hp, hl => by
    simp only [List.getElem?_cons_succ] at hp hl; exact RLines.get r.2 i p l hp hl
  | [], [], _, _, _, _, hp, _ => by simp at hp
  | [], _ :: _, r, _, _, _, _, _ => r.elim
  | _ :: _, [], r, _, _, _, _, _ => r.elim

theorem RStmts.get {h : Edit.Heap} : ∀ {es : List Edit.Expr} {ss : List Modfile.Expr}, RStmts h es ss →
    ∀ (i : Nat) (e : Edit.Expr) (s : Modfile.Expr), es[i]? = some e → ss[i]? = some s → RExpr h e s
  | _ :: _, _ :: _, r, 0, e, s, he, hs => by
    simp only [List.getElem?_cons_zero, Option.some.injEq] at he hs; subst he hs; exact r.1
  | _ :: _, _ :: _, r, i + 1, e, s, he, hs => by
    simp only [List.getElem?_cons_succ] at he hs; exact RStmts.get r.2 i e s he hs
  | [], [], _, _, _, _, he, _ => by simp at he
  | [], _ :: _, r, _, _, _, _, _ => r.elim
  | _ :: _, [], r, _, _, _, _, _ => r.elim

theorem RLines.append {h : Edit.Heap} : ∀ {ps qs : List Int} {ls ms : List Modfile.Line}, RLines h ps ls → RLines h qs ms →
    RLines h (ps ++ qs) (ls ++ ms)
  | [], _, [], _, _, r2 => r2
  | _ :: _, _, _ :: _, _, r1, r2 => ⟨r1.1, RLines.append r1.2 r2⟩
  | [], _, _ :: _, _, r1, _ => r1.elim
  | _ :: _, _, [], _, r1, _ => r1.elim

theorem RStmts.append {h : Edit.Heap} : ∀ {es fs : List Edit.Expr} {ss ts : List Modfile.Expr}, RStmts h es ss → RStmts h fs ts →
    RStmts h (es ++ fs) (ss ++ ts)
  | [], _, [], _, _, r2 => r2
  | _ :: _, _, _ :: _, _, r1, r2 => ⟨r1.1, RStmts.append r1.2 r2⟩
  | [], _, _ :: _, _, r1, _ => r1.elim
  | _ :: _, _, [], _, r1, _ => r1.elim

/-! ### frame lemmas for the syntax graph -/

/-- the relations only look at `lines`, `blocks`, `cbs`; they survive every change that keeps the objects they read
    (allocation in any list, `heapSet` elsewhere, any change of the typed lists) -/
theorem RLine.mono {h h' : Edit.Heap} (hl : ∀ p v, heapGet h.lines p = .ok v → heapGet h'.lines p = .ok v)
    {p : Int} {l : Modfile.Line} (r : RLine h p l) : RLine h' p l := ⟨hl _ _ r.1, r.2⟩

theorem RLines.mono {h h' : Edit.Heap} (hl : ∀ p v, heapGet h.lines p = .ok v → heapGet h'.lines p = .ok v) :
    ∀ {ps : List Int} {ls : List Modfile.Line}, RLines h ps ls → RLines h' ps ls
  | [], [], _ => trivial
  | _ :: _, _ :: _, r => ⟨r.1.mono hl, RLines.mono hl r.2⟩
  | [], _ :: _, r => r.elim
  | _ :: _, [], r => r.elim

theorem RExpr.mono {h h' : Edit.Heap} (hl : ∀ p v, heapGet h.lines p = .ok v → heapGet h'.lines p = .ok v)
    (hb : ∀ p v, heapGet h.blocks p = .ok v → heapGet h'.blocks p = .ok v)
    (hc : ∀ p v, heapGet h.cbs p = .ok v → heapGet h'.cbs p = .ok v) :
    ∀ {e : Edit.Expr} {s : Modfile.Expr}, RExpr h e s → RExpr h' e s := by
  intro e s r
  cases e <;> cases s <;> simp only [RExpr] at r ⊢ <;> try exact r.elim
  · exact hc _ _ r
  · exact r.mono hl
  · obtain ⟨ps, r1, r2⟩ := r
    exact ⟨ps, hb _ _ r1, r2.mono hl⟩

theorem RStmts.mono {h h' : Edit.Heap} (hl : ∀ p v, heapGet h.lines p = .ok v → heapGet h'.lines p = .ok v)
    (hb : ∀ p v, heapGet h.blocks p = .ok v → heapGet h'.blocks p = .ok v)
    (hc : ∀ p v, heapGet h.cbs p = .ok v → heapGet h'.cbs p = .ok v) :
    ∀ {es : List Edit.Expr} {ss : List Modfile.Expr}, RStmts h es ss → RStmts h' es ss
  | [], [], _ => trivial
  | _ :: _, _ :: _, r => ⟨r.1.mono hl hb hc, RStmts.mono hl hb hc r.2⟩
  | [], _ :: _, r => r.elim
  | _ :: _, [], r => r.elim

/-- a change that keeps `lines`, `blocks`, `cbs` (for instance of a typed list, `mods`, `works`, `files`) -/
theorem RStmts.congr {h h' : Edit.Heap} (hl : h'.lines = h.lines) (hb : h'.blocks = h.blocks) (hc : h'.cbs = h.cbs)
    {es : List Edit.Expr} {ss : List Modfile.Expr} (r : RStmts h es ss) : RStmts h' es ss :=
  r.mono (by rw [hl]; exact fun _ _ x => x) (by rw [hb]; exact fun _ _ x => x) (by rw [hc]; exact fun _ _ x => x)

theorem RepSynAt.congr {h h' : Edit.Heap} (hf : h'.files = h.files) (hl : h'.lines = h.lines) (hb : h'.blocks = h.blocks)
    (hc : h'.cbs = h.cbs) {p : Int} {fs : Modfile.FileSyntax} {es : List Edit.Expr} (r : RepSynAt h p fs es) :
    RepSynAt h' p fs es :=
  ⟨by rw [hf]; exact r.file, r.stmts.congr hl hb hc, r.nodupB, r.nodupL⟩

/-- a change of the heap that keeps `files`, `lines`, `blocks`, `cbs` -/
theorem RepSyn.congr {h h' : Edit.Heap} (hf : h'.files = h.files) (hl : h'.lines = h.lines) (hb : h'.blocks = h.blocks)
    (hc : h'.cbs = h.cbs) {p : Int} {fs : Modfile.FileSyntax} (r : RepSyn h p fs) : RepSyn h' p fs := by
  obtain ⟨es, r⟩ := r; exact ⟨es, r.congr hf hl hb hc⟩

/-- every change that keeps the allocated objects of `files`, `lines`, `blocks`, `cbs` (allocation) -/
theorem RepSyn.mono {h h' : Edit.Heap} (hf : ∀ p v, heapGet h.files p = .ok v → heapGet h'.files p = .ok v)
    (hl : ∀ p v, heapGet h.lines p = .ok v → heapGet h'.lines p = .ok v)
    (hb : ∀ p v, heapGet h.blocks p = .ok v → heapGet h'.blocks p = .ok v)
    (hc : ∀ p v, heapGet h.cbs p = .ok v → heapGet h'.cbs p = .ok v)
    {p : Int} {fs : Modfile.FileSyntax} (r : RepSyn h p fs) : RepSyn h' p fs := by
  obtain ⟨es, r⟩ := r
  exact ⟨es, hf _ _ r.file, r.stmts.mono hl hb hc, r.nodupB, r.nodupL⟩

/-- allocation of a line keeps the graph -/
theorem RepSyn.allocLine {h : Edit.Heap} {p : Int} {fs : Modfile.FileSyntax} (r : RepSyn h p fs) (v : Edit.Line) :
    RepSyn { h with lines := h.lines ++ [v] } p fs :=
  RepSyn.mono (h := h) (h' := { h with lines := h.lines ++ [v] }) (fun _ _ x => x)
    (fun q w (x : heapGet h.lines q = .ok w) => heapGet_alloc_old v x) (fun _ _ x => x) (fun _ _ x => x) r

/-- allocation of a block keeps the graph -/
theorem RepSyn.allocBlock {h : Edit.Heap} {p : Int} {fs : Modfile.FileSyntax} (r : RepSyn h p fs) (v : Edit.LineBlock) :
    RepSyn { h with blocks := h.blocks ++ [v] } p fs :=
  RepSyn.mono (h := h) (h' := { h with blocks := h.blocks ++ [v] }) (fun _ _ x => x) (fun _ _ x => x)
    (fun q w (x : heapGet h.blocks q = .ok w) => heapGet_alloc_old v x) (fun _ _ x => x) r

/-! ### ids of the tree are pointers of the graph -/

theorem RLines.ids_le {h : Edit.Heap} : ∀ {ps : List Int} {ls : List Modfile.Line}, RLines h ps ls →
    ∀ l ∈ ls, 0 < l.id ∧ l.id ≤ h.lines.length ∧ heapGet h.lines (l.id : Int) = .ok (lineG l)
  | [], [], _, l, hl => by cases hl
  | _ :: _, _ :: _, r, l, hl => by
    rcases List.mem_cons.1 hl with rfl | hl'
    · exact ⟨r.1.id_pos, r.1.id_le, by rw [← r.1.2]; exact r.1.1⟩
    · exact RLines.ids_le r.2 l hl'
  | [], _ :: _, r, _, _ => r.elim
  | _ :: _, [], r, _, _ => r.elim

/-- every located line of the tree is the object at the pointer `id` -/
theorem RStmts.loc {h : Edit.Heap} : ∀ {es : List Edit.Expr} {ss : List Modfile.Expr}, RStmts h es ss →
    ∀ q ∈ Modfile.Edit.loc ss, 0 < q.2.id ∧ q.2.id ≤ h.lines.length ∧ heapGet h.lines (q.2.id : Int) = .ok (lineG q.2)
  | [], [], _, q, hq => by simp [Modfile.Edit.loc] at hq
  | e :: es, s :: ss, r, q, hq => by
    rw [Modfile.Edit.loc_cons] at hq
    rcases List.mem_append.1 hq with hq1 | hq2
    · cases e <;> cases s <;> simp only [RStmts, RExpr] at r <;> try exact r.1.elim
      · simp [Modfile.Edit.locStmt] at hq1
      · simp only [Modfile.Edit.locStmt, List.mem_singleton] at hq1
        subst hq1
        exact ⟨r.1.id_pos, r.1.id_le, by rw [← r.1.2]; exact r.1.1⟩
      · obtain ⟨⟨ps, _, rl⟩, _⟩ := r
        simp only [Modfile.Edit.locStmt, List.mem_map] at hq1
        obtain ⟨l, hl, rfl⟩ := hq1
        exact rl.ids_le l hl
    · exact RStmts.loc r.2 q hq2
  | [], _ :: _, r, _, _ => r.elim
  | _ :: _, [], r, _, _ => r.elim

theorem RStmts.treeIds_le {h : Edit.Heap} {es : List Edit.Expr} {ss : List Modfile.Expr} (r : RStmts h es ss) :
    ∀ i ∈ treeIds ss, 0 < i ∧ i ≤ h.lines.length := by
  intro i hi
  obtain ⟨q, hq, rfl⟩ := List.mem_map.1 hi
  exact ⟨(r.loc q hq).1, (r.loc q hq).2.1⟩

/-- a line of the tree is found in the heap at its id -/
theorem RepSyn.findLine {h : Edit.Heap} {p : Int} {fs : Modfile.FileSyntax} (r : RepSyn h p fs) {id : Nat} {l : Modfile.Line}
    (hf : fs.findLine id = some l) : heapGet h.lines (id : Int) = .ok (lineG l) ∧ l.id = id := by
  obtain ⟨es, r⟩ := r
  unfold Modfile.FileSyntax.findLine at hf
  have hm := List.mem_of_find?_eq_some hf
  have hid : l.id = id := by simpa using List.find?_some hf
  rw [Modfile.Edit.allLines_eq_loc] at hm
  obtain ⟨q, hq, rfl⟩ := List.mem_map.1 hm
  have := (r.stmts.loc q hq).2.2
  rw [hid] at this
  exact ⟨this, hid⟩

/-! ### `heapSet` of a line: the model side is `updateLine` -/

theorem RLines.setLine {h : Edit.Heap} {p : Int} {l0 : Modfile.Line} {g : Modfile.Line → Modfile.Line} (hg : IdEquiv g)
    (hget : heapGet h.lines p = .ok (lineG l0)) :
    ∀ {ps : List Int} {ls : List Modfile.Line}, RLines h ps ls →
      RLines { h with lines := h.lines.set (p.toNat - 1) (lineG (g l0)) } ps
        (ls.map fun l => if l.id == p.toNat then g l else l)
  | [], [], _ => trivial
  | q :: ps, l :: ls, r => by
    refine ⟨?_, RLines.setLine hg hget r.2⟩
    have hp := heapGet_pos hget
    by_cases e : q = p
    · subst e
      have hid : (l.id == q.toNat) = true := by have := r.1.toNat; simp [this]
      simp only [hid, if_true]
      refine ⟨?_, by rw [hg.id_eq]; exact r.1.2⟩
      show heapGet (h.lines.set (q.toNat - 1) (lineG (g l0))) q = _
      rw [heapGet_listSet_same _ hget]
      have : lineG l = lineG l0 := by have := r.1.1; rw [hget] at this; exact (Except.ok.inj this).symm
      rw [hg.lineG this]
    · have hid : (l.id == p.toNat) = false := by
        have := r.1.2
        simp only [beq_eq_false_iff_ne, ne_eq]
        omega
      simp only [hid, Bool.false_eq_true, if_false]
      refine ⟨?_, r.1.2⟩
      show heapGet (h.lines.set (p.toNat - 1) (lineG (g l0))) q = _
      rw [heapGet_listSet_other _ hget e]; exact r.1.1
  | [], _ :: _, r => r.elim
  | _ :: _, [], r => r.elim

theorem RStmts.setLine {h : Edit.Heap} {p : Int} {l0 : Modfile.Line} {g : Modfile.Line → Modfile.Line} (hg : IdEquiv g)
    (hget : heapGet h.lines p = .ok (lineG l0)) :
    ∀ {es : List Edit.Expr} {ss : List Modfile.Expr}, RStmts h es ss →
      RStmts { h with lines := h.lines.set (p.toNat - 1) (lineG (g l0)) } es
        (ss.map (mapLinesStmt fun l => if l.id == p.toNat then g l else l))
  | [], [], _ => trivial
  | e :: es, s :: ss, r => by
    refine ⟨?_, RStmts.setLine hg hget r.2⟩
    have r1 := r.1
    cases e <;> cases s <;> simp only [RExpr, mapLinesStmt] at r1 ⊢ <;> try exact r1.elim
    · exact r1
    · have := RLines.setLine hg hget (ps := [_]) (ls := [_]) ⟨r1, trivial⟩
      exact this.1
    · obtain ⟨ps, r2, r3⟩ := r1
      exact ⟨ps, r2, RLines.setLine hg hget r3⟩
  | [], _ :: _, r => r.elim
  | _ :: _, [], r => r.elim

/-- **the line object at `p` is overwritten by the image of its content under `g`: the graph now represents
    `fs.updateLine p g`** (also when the line at `p` is not in the graph: then `updateLine` changes nothing) -/
theorem RepSyn.setLine {h : Edit.Heap} {x : Int} {fs : Modfile.FileSyntax} (r : RepSyn h x fs) {p : Int} {l0 : Modfile.Line}
    {g : Modfile.Line → Modfile.Line} (hg : IdEquiv g) (hget : heapGet h.lines p = .ok (lineG l0)) :
    RepSyn { h with lines := h.lines.set (p.toNat - 1) (lineG (g l0)) } x (fs.updateLine p.toNat g) := by
  obtain ⟨es, r⟩ := r
  refine ⟨es, ?_, ?_, r.nodupB, ?_⟩
  · exact r.file
  · rw [Modfile.Edit.updateLine_stmts fs p.toNat g r.nodupL]
    exact r.stmts.setLine hg hget
  · rw [Modfile.Edit.treeIds_updateLine fs p.toNat g r.nodupL hg.id_eq]; exact r.nodupL

theorem LinesG.setLine {h : Edit.Heap} (hG : LinesG h) (k : Nat) (l : Modfile.Line) :
    LinesG { h with lines := h.lines.set k (lineG l) } := by
  intro t ht
  rcases List.mem_or_eq_of_mem_set ht with ht | rfl
  · exact hG t ht
  · exact ⟨l, rfl⟩

theorem LinesG.allocLine {h : Edit.Heap} (hG : LinesG h) (l : Modfile.Line) :
    LinesG { h with lines := h.lines ++ [lineG l] } := by
  intro t ht
  rcases List.mem_append.1 ht with ht | ht
  · exact hG t ht
  · simp only [List.mem_singleton] at ht; exact ⟨l, ht⟩

theorem LinesG.congr {h h' : Edit.Heap} (hG : LinesG h) (hl : h'.lines = h.lines) : LinesG h' := by
  intro t ht; rw [hl] at ht; exact hG t ht

/-- every allocated line is an embedding -/
theorem LinesG.get {h : Edit.Heap} (hG : LinesG h) {p : Int} (hp : 0 < p) (hl : p.toNat ≤ h.lines.length) :
    ∃ l : Modfile.Line, heapGet h.lines p = .ok (lineG l) := by
  have hlt : p.toNat - 1 < h.lines.length := by omega
  obtain ⟨l, hl'⟩ := hG (h.lines[p.toNat - 1]) (List.getElem_mem hlt)
  refine ⟨l, heapGet_ok_iff.2 ⟨hp, ?_⟩⟩
  rw [List.getElem?_eq_getElem hlt, hl']

/-- … with the id of one's choice -/
theorem LinesG.getId {h : Edit.Heap} (hG : LinesG h) {p : Int} (hp : 0 < p) (hl : p.toNat ≤ h.lines.length) :
    ∃ l : Modfile.Line, heapGet h.lines p = .ok (lineG l) ∧ l.id = p.toNat := by
  obtain ⟨l, hl⟩ := hG.get hp hl
  exact ⟨{ l with id := p.toNat }, hl, rfl⟩

theorem BlockTokOK.updateLine {fs : Modfile.FileSyntax} (hb : BlockTokOK fs.stmts) (id : Nat) (g : Modfile.Line → Modfile.Line) :
    BlockTokOK (fs.updateLine id g).stmts := by
  intro b hbm
  unfold Modfile.FileSyntax.updateLine at hbm
  simp only [List.mem_map] at hbm
  obtain ⟨s, hs, he⟩ := hbm
  cases s with
  | line l => simp only at he; split at he <;> cases he
  | lineBlock b0 => simp only [Modfile.Expr.lineBlock.injEq] at he; subst he; exact hb b0 hs
  | commentBlock _ => cases he
  | lparen _ => cases he
  | rparen _ => cases he

/-! ### frame lemmas for the typed entries -/

theorem REntsL.mono {α β : Type} {objs objs' : List α} {g : β → α} {id : β → Nat} {nl nl' : Nat}
    (ho : ∀ p v, heapGet objs p = .ok v → heapGet objs' p = .ok v) (hn : nl ≤ nl') :
    ∀ {ps : List Int} {xs : List β}, REntsL objs g id nl ps xs → REntsL objs' g id nl' ps xs
  | [], [], _ => trivial
  | _ :: _, _ :: _, r => ⟨⟨ho _ _ r.1.1, Nat.le_trans r.1.2 hn⟩, REntsL.mono ho hn r.2⟩
  | [], _ :: _, r => r.elim
  | _ :: _, [], r => r.elim

theorem REnts.mono {α β : Type} {objs objs' : List α} {g : β → α} {id : β → Nat} {nl nl' : Nat} {ps : List Int} {xs : List β}
    (ho : ∀ p v, heapGet objs p = .ok v → heapGet objs' p = .ok v) (hn : nl ≤ nl') (r : REnts objs g id nl ps xs) :
    REnts objs' g id nl' ps xs := ⟨r.rel.mono ho hn, r.nodup⟩

theorem ROpt.mono {α β : Type} {objs objs' : List α} {g : β → α} {id : β → Nat} {nl nl' : Nat} {p : Int} {x : Option β}
    (ho : ∀ p v, heapGet objs p = .ok v → heapGet objs' p = .ok v) (hn : nl ≤ nl') (r : ROpt objs g id nl p x) :
    ROpt objs' g id nl' p x := by
  cases x with
  | none => exact r
  | some x => exact ⟨ho _ _ r.1, Nat.le_trans r.2 hn⟩

theorem REntsL.length {α β : Type} {objs : List α} {g : β → α} {id : β → Nat} {nl : Nat} :
    ∀ {ps : List Int} {xs : List β}, REntsL objs g id nl ps xs → ps.length = xs.length
  | [], [], _ => rfl
  | _ :: _, _ :: _, r => by simp [REntsL.length r.2]
  | [], _ :: _, r => r.elim
  | _ :: _, [], r => r.elim

theorem REntsL.get {α β : Type} {objs : List α} {g : β → α} {id : β → Nat} {nl : Nat} :
    ∀ {ps : List Int} {xs : List β}, REntsL objs g id nl ps xs →
    ∀ (i : Nat) (p : Int) (x : β), ps[i]? = some p → xs[i]? = some x → heapGet objs p = .ok (g x) ∧ id x ≤ nl
  | _ :: _, _ :: _, r, 0, p, x, hp, hx => by
    simp only [List.getElem?_cons_zero, Option.some.injEq] at hp hx; subst hp hx; exact r.1
  | _ :: _, _ :: _, r, i + 1, p, x, hp, hx => by
    simp only [List.getElem?_cons_succ] at hp hx; exact REntsL.get r.2 i p x hp hx
  | [], [], _, _, _, _, hp, _ => by simp at hp
  | [], _ :: _, r, _, _, _, _, _ => r.elim
  | _ :: _, [], r, _, _, _, _, _ => r.elim

theorem REntsL.append {α β : Type} {objs : List α} {g : β → α} {id : β → Nat} {nl : Nat} :
    ∀ {ps qs : List Int} {xs ys : List β}, REntsL objs g id nl ps xs → REntsL objs g id nl qs ys →
      REntsL objs g id nl (ps ++ qs) (xs ++ ys)
  | [], _, [], _, _, r2 => r2
  | _ :: _, _, _ :: _, _, r1, r2 => ⟨r1.1, REntsL.append r1.2 r2⟩
  | [], _, _ :: _, _, r1, _ => r1.elim
  | _ :: _, _, [], _, r1, _ => r1.elim

/-- every pointer of a represented typed list is allocated -/
theorem REntsL.mem_alloc {α β : Type} {objs : List α} {g : β → α} {id : β → Nat} {nl : Nat} :
    ∀ {ps : List Int} {xs : List β}, REntsL objs g id nl ps xs → ∀ p ∈ ps, 0 < p ∧ p.toNat ≤ objs.length
  | [], [], _, p, hp => by cases hp
  | _ :: _, _ :: _, r, p, hp => by
    rcases List.mem_cons.1 hp with rfl | hp'
    · exact ⟨heapGet_pos r.1.1, heapGet_le_length r.1.1⟩
    · exact REntsL.mem_alloc r.2 p hp'
  | [], _ :: _, r, _, _ => r.elim
  | _ :: _, [], r, _, _ => r.elim

/-- `heapSet` at a pointer that is not in the list -/
theorem REntsL.setOther {α β : Type} {objs : List α} {g : β → α} {id : β → Nat} {nl : Nat} {p : Int} {w : α}
    (hw : heapGet objs p = .ok w) (v : α) :
    ∀ {ps : List Int} {xs : List β}, REntsL objs g id nl ps xs → p ∉ ps → REntsL (objs.set (p.toNat - 1) v) g id nl ps xs
  | [], [], _, _ => trivial
  | q :: ps, _ :: _, r, hn => by
    have hne : q ≠ p := fun e => hn (by rw [e]; exact List.mem_cons_self)
    refine ⟨⟨?_, r.1.2⟩, REntsL.setOther hw v r.2 (fun hm => hn (List.mem_cons_of_mem _ hm))⟩
    rw [heapGet_listSet_other _ hw hne]; exact r.1.1
  | [], _ :: _, r, _ => r.elim
  | _ :: _, [], r, _ => r.elim

/-- the object at position `i` of the list is overwritten by the embedding of `y` -/
theorem REntsL.setAt {α β : Type} {objs : List α} {g : β → α} {id : β → Nat} {nl : Nat} :
    ∀ {ps : List Int} {xs : List β}, REntsL objs g id nl ps xs → ps.Nodup →
    ∀ (i : Nat) (p : Int) (y : β), ps[i]? = some p → id y ≤ nl →
      REntsL (objs.set (p.toNat - 1) (g y)) g id nl ps (xs.set i y)
  | [], [], _, _, _, _, _, hp, _ => by simp at hp
  | q :: ps, x :: xs, r, hn, 0, p, y, hp, hy => by
    simp only [List.getElem?_cons_zero, Option.some.injEq] at hp; subst hp
    simp only [List.nodup_cons] at hn
    exact ⟨⟨heapGet_listSet_same _ r.1.1, hy⟩, r.2.setOther r.1.1 _ hn.1⟩
  | q :: ps, x :: xs, r, hn, i + 1, p, y, hp, hy => by
    simp only [List.getElem?_cons_succ] at hp
    simp only [List.nodup_cons] at hn
    have hne : q ≠ p := by
      intro e; subst e; exact hn.1 (List.mem_of_getElem? hp)
    obtain ⟨hpos, hlen⟩ := REntsL.mem_alloc r.2 p (List.mem_of_getElem? hp)
    refine ⟨⟨?_, r.1.2⟩, REntsL.setAt r.2 hn.2 i p y hp hy⟩
    have : ∃ w, heapGet objs p = .ok w := by
      have hlt : p.toNat - 1 < objs.length := by omega
      exact ⟨objs[p.toNat - 1], heapGet_ok_iff.2 ⟨hpos, List.getElem?_eq_getElem hlt⟩⟩
    obtain ⟨w, hw⟩ := this
    rw [heapGet_listSet_other _ hw hne]; exact r.1.1
  | [], _ :: _, r, _, _, _, _, _, _ => r.elim
  | _ :: _, [], r, _, _, _, _, _, _ => r.elim

/-! ## additions (v2): more heap lemmas, `setLineH`, file-level frame lemmas -/

/-! ### heapGet / heapSet with a pointer given as a natural number, repeated `heapSet` -/

theorem set_self_of_get {α : Type} {l : List α} {p : Int} {v : α} (h : heapGet l p = .ok v) : l.set (p.toNat - 1) v = l := by
  obtain ⟨_, hv⟩ := heapGet_ok_iff.1 h
  obtain ⟨hlt, he⟩ := List.getElem?_eq_some_iff.1 hv
  rw [← he]; exact List.set_getElem_self hlt

theorem set_self_of_get_nat {α : Type} {l : List α} {k : Nat} {v : α} (h : heapGet l (k : Int) = .ok v) : l.set (k - 1) v = l := by
  have := set_self_of_get h
  simpa using this

theorem heapSet_of_get_nat {α : Type} {l : List α} {k : Nat} {w : α} (v : α) (h : heapGet l (k : Int) = .ok w) :
    heapSet l (k : Int) v = .ok (l.set (k - 1) v) := by
  have := heapSet_of_get v h; simpa using this

theorem heapGet_listSet_same_nat {α : Type} {l : List α} {k : Nat} {w : α} (v : α) (h : heapGet l (k : Int) = .ok w) :
    heapGet (l.set (k - 1) v) (k : Int) = .ok v := by
  have := heapGet_listSet_same v h; simpa using this

/-- a second `heapSet` at the same pointer -/
theorem heapSet_listSet_same {α : Type} {l : List α} {p : Int} {w : α} (hg : heapGet l p = .ok w) (x y : α) :
    heapSet (l.set (p.toNat - 1) x) p y = .ok (l.set (p.toNat - 1) y) := by
  rw [heapSet_of_get y (heapGet_listSet_same x hg), List.set_set]

theorem heapSet_listSet_same_nat {α : Type} {l : List α} {k : Nat} {w : α} (hg : heapGet l (k : Int) = .ok w) (x y : α) :
    heapSet (l.set (k - 1) x) (k : Int) y = .ok (l.set (k - 1) y) := by
  rw [heapSet_of_get_nat y (heapGet_listSet_same_nat x hg), List.set_set]

/-- dereferencing nil (or a negative pointer) panics -/
theorem heapGet_nil {α : Type} (l : List α) {p : Int} (hp : p ≤ 0) : heapGet l p = .error .panic := by
  simp [heapGet, hp, throw, throwThe, MonadExceptOf.throw]

theorem heapGet_zero {α : Type} (l : List α) : heapGet l 0 = .error .panic := heapGet_nil l (Int.le_refl 0)

/-- an allocated pointer can be read -/
theorem heapGet_of_alloc {α : Type} {l : List α} {p : Int} (hp : 0 < p) (hl : p.toNat ≤ l.length) : ∃ v, heapGet l p = .ok v := by
  have hlt : p.toNat - 1 < l.length := by omega
  exact ⟨l[p.toNat - 1], heapGet_ok_iff.2 ⟨hp, List.getElem?_eq_getElem hlt⟩⟩

/-! ### small GoRt facts used by all edit ties -/

theorem idxL_zero_cons {α : Type} (a : α) (t : List α) : idxL (a :: t) 0 = .ok a := rfl
theorem idxL_one_cons {α : Type} (a b : α) (t : List α) : idxL (a :: b :: t) 1 = .ok b := rfl
theorem idxL_zero_nil {α : Type} : idxL ([] : List α) 0 = .error .panic := rfl

theorem setIdxL_zero_cons {α : Type} (a : α) (t : List α) (x : α) : setIdxL (a :: t) 0 x = .ok (x :: t) := by
  have : (0 : Int) ≤ 0 ∧ (0 : Int) < len (a :: t) := by simp [len_eq, -len_cons] <;> omega
  simp [setIdxL, this, pure, Except.pure, -len_cons]
theorem setIdxL_one_cons {α : Type} (a b : α) (t : List α) (x : α) : setIdxL (a :: b :: t) 1 x = .ok (a :: x :: t) := by
  have : (0 : Int) ≤ 1 ∧ (1 : Int) < len (a :: b :: t) := by simp [len_eq, -len_cons] <;> omega
  simp [setIdxL, this, pure, Except.pure, -len_cons]
theorem setIdxL_two_cons {α : Type} (a b c : α) (t : List α) (x : α) :
    setIdxL (a :: b :: c :: t) 2 x = .ok (a :: b :: x :: t) := by
  have : (0 : Int) ≤ 2 ∧ (2 : Int) < len (a :: b :: c :: t) := by simp [len_eq, -len_cons] <;> omega
  simp [setIdxL, this, pure, Except.pure, -len_cons]

theorem sliceTo_zero {α : Type} (v : List α) : sliceTo v 0 = .ok [] := by
  simp [sliceTo, len_eq, pure, Except.pure]

/-- `len` tests as list facts (use with `simp [-len_cons, …]`) -/
theorem len_gt_zero_iff {α : Type} (s : List α) : len s > 0 ↔ s ≠ [] := by
  cases s with
  | nil => simp [len_eq]
  | cons a t => simp [len_eq, -len_cons] <;> omega
theorem len_eq_zero_iff {α : Type} (s : List α) : len s = 0 ↔ s = [] := by
  cases s with
  | nil => simp [len_eq]
  | cons a t => simp [len_eq, -len_cons] <;> omega
theorem len_eq_one_iff {α : Type} (s : List α) : len s = 1 ↔ s.length = 1 := by simp [len_eq]; omega
theorem len_eq_two_iff {α : Type} (s : List α) : len s = 2 ↔ s.length = 2 := by simp [len_eq]; omega
theorem len_eq_five_iff {α : Type} (s : List α) : len s = 5 ↔ s.length = 5 := by simp [len_eq]; omega
theorem len_gt_one_iff {α : Type} (s : List α) : len s > 1 ↔ 2 ≤ s.length := by simp [len_eq]; omega
theorem len_ge_two_iff {α : Type} (s : List α) : len s ≥ 2 ↔ 2 ≤ s.length := by simp [len_eq]; omega
theorem len_ge_three_iff {α : Type} (s : List α) : len s ≥ 3 ↔ 3 ≤ s.length := by simp [len_eq]; omega

theorem fields_eq (s : Bytes) : GoRt.fields s = GoStrings.fields s := rfl
theorem trimPrefix_eq (s p : Bytes) : GoRt.trimPrefix s p = GoStrings.trimPrefix s p := rfl
theorem trimSpace_eq (s : Bytes) : GoRt.trimSpace s = GoStrings.trimSpace s := rfl

/-! ### `setLineH`: the heap after `heapSet` of the line at `p` to the embedding of `l` -/

def setLineH (h : Edit.Heap) (p : Int) (l : Modfile.Line) : Edit.Heap :=
  { h with lines := h.lines.set (p.toNat - 1) (lineG l) }

@[simp] theorem setLineH_lines (h : Edit.Heap) (p : Int) (l : Modfile.Line) :
    (setLineH h p l).lines = h.lines.set (p.toNat - 1) (lineG l) := rfl
@[simp] theorem setLineH_length (h : Edit.Heap) (p : Int) (l : Modfile.Line) :
    (setLineH h p l).lines.length = h.lines.length := by simp
@[simp] theorem setLineH_files (h : Edit.Heap) (p : Int) (l : Modfile.Line) : (setLineH h p l).files = h.files := rfl
@[simp] theorem setLineH_blocks (h : Edit.Heap) (p : Int) (l : Modfile.Line) : (setLineH h p l).blocks = h.blocks := rfl
@[simp] theorem setLineH_cbs (h : Edit.Heap) (p : Int) (l : Modfile.Line) : (setLineH h p l).cbs = h.cbs := rfl
@[simp] theorem setLineH_mods (h : Edit.Heap) (p : Int) (l : Modfile.Line) : (setLineH h p l).mods = h.mods := rfl
@[simp] theorem setLineH_works (h : Edit.Heap) (p : Int) (l : Modfile.Line) : (setLineH h p l).works = h.works := rfl
@[simp] theorem setLineH_requires (h : Edit.Heap) (p : Int) (l : Modfile.Line) : (setLineH h p l).requires = h.requires := rfl
@[simp] theorem setLineH_modules (h : Edit.Heap) (p : Int) (l : Modfile.Line) : (setLineH h p l).modules = h.modules := rfl
@[simp] theorem setLineH_gos (h : Edit.Heap) (p : Int) (l : Modfile.Line) : (setLineH h p l).gos = h.gos := rfl
@[simp] theorem setLineH_toolchains (h : Edit.Heap) (p : Int) (l : Modfile.Line) : (setLineH h p l).toolchains = h.toolchains := rfl
@[simp] theorem setLineH_godebugs (h : Edit.Heap) (p : Int) (l : Modfile.Line) : (setLineH h p l).godebugs = h.godebugs := rfl
@[simp] theorem setLineH_excludes (h : Edit.Heap) (p : Int) (l : Modfile.Line) : (setLineH h p l).excludes = h.excludes := rfl
@[simp] theorem setLineH_replaces (h : Edit.Heap) (p : Int) (l : Modfile.Line) : (setLineH h p l).replaces = h.replaces := rfl
@[simp] theorem setLineH_retracts (h : Edit.Heap) (p : Int) (l : Modfile.Line) : (setLineH h p l).retracts = h.retracts := rfl
@[simp] theorem setLineH_tools (h : Edit.Heap) (p : Int) (l : Modfile.Line) : (setLineH h p l).tools = h.tools := rfl
@[simp] theorem setLineH_uses (h : Edit.Heap) (p : Int) (l : Modfile.Line) : (setLineH h p l).uses = h.uses := rfl

/-- writing back what is there changes nothing -/
theorem setLineH_self {h : Edit.Heap} {p : Int} {l : Modfile.Line} (hg : heapGet h.lines p = .ok (lineG l)) : setLineH h p l = h := by
  unfold setLineH; rw [set_self_of_get hg]

theorem heapGet_setLineH_same {h : Edit.Heap} {p : Int} {l0 : Modfile.Line} (hg : heapGet h.lines p = .ok (lineG l0)) (l : Modfile.Line) :
    heapGet (setLineH h p l).lines p = .ok (lineG l) := heapGet_listSet_same _ hg

theorem heapGet_setLineH_other {h : Edit.Heap} {p q : Int} {l0 : Modfile.Line} (hg : heapGet h.lines p = .ok (lineG l0)) (l : Modfile.Line)
    (hq : q ≠ p) : heapGet (setLineH h p l).lines q = heapGet h.lines q := heapGet_listSet_other _ hg hq

/-- `RepSyn.setLine` in terms of `setLineH` -/
theorem RepSyn.setLineH {h : Edit.Heap} {x : Int} {fs : Modfile.FileSyntax} (r : RepSyn h x fs) {p : Int} {l0 : Modfile.Line}
    {g : Modfile.Line → Modfile.Line} (hg : IdEquiv g) (hget : heapGet h.lines p = .ok (lineG l0)) :
    RepSyn (FnEditRep.setLineH h p (g l0)) x (fs.updateLine p.toNat g) := r.setLine hg hget

theorem LinesG.setLineH {h : Edit.Heap} (hG : LinesG h) (p : Int) (l : Modfile.Line) : LinesG (FnEditRep.setLineH h p l) :=
  hG.setLine _ l

/-! ### the line functions of the edit model are id-equivariant -/

theorem IdEquiv_markRemoved :
    IdEquiv (fun l => { l with token := [], comments := { l.comments with suffix := [] } }) := fun _ _ => rfl

theorem IdEquiv_updateTok (tokens : List Bytes) :
    IdEquiv (fun l => { l with token := if l.inBlock then tokens.drop 1 else tokens }) := fun _ _ => rfl

theorem IdEquiv_setVersionLine (v : Bytes) : IdEquiv (Modfile.Edit.setVersionLine v) := by
  intro l i
  obtain ⟨id, ⟨bef, suf, aft⟩, st, tok, ib, en⟩ := l
  rcases tok with _ | ⟨a, _ | ⟨b, _ | ⟨c, t⟩⟩⟩ <;> cases ib <;> rcases bef with _ | ⟨c1, _ | ⟨c2, bt⟩⟩ <;>
    (try rcases c1 with ⟨cs, _ | ⟨x, xs⟩, cf⟩) <;> simp [Modfile.Edit.setVersionLine]

theorem IdEquiv_setIndirectLine (b : Bool) : IdEquiv (Modfile.Edit.setIndirectLine b) := by
  intro l i
  obtain ⟨id, ⟨bef, suf, aft⟩, st, tok, ib, en⟩ := l
  have hI : Modfile.isIndirect ({ id := i, comments := ⟨bef, suf, aft⟩, start := st, token := tok, inBlock := ib, «end» := en } : Modfile.Line)
      = Modfile.isIndirect ({ id := id, comments := ⟨bef, suf, aft⟩, start := st, token := tok, inBlock := ib, «end» := en } : Modfile.Line) := rfl
  simp only [Modfile.Edit.setIndirectLine, hI]
  generalize Modfile.isIndirect _ = q
  cases suf with
  | nil => cases b <;> cases q <;> rfl
  | cons c rest =>
    cases b <;> cases q <;> simp
    split <;> rfl

/-! ### file-level frame lemmas -/

/-- the line object at `p` is overwritten by the image of its content under an id-equivariant `g`: the file now represents
    the model with `syn := syn.updateLine p g` (typed entries untouched) -/
theorem RepFAt.setLine {h : Edit.Heap} {o : Edit.File} {e : Modfile.Edit.EFile} (R : RepFAt h o e) {p : Int} {l0 : Modfile.Line}
    {g : Modfile.Line → Modfile.Line} (hg : IdEquiv g) (hget : heapGet h.lines p = .ok (lineG l0)) :
    RepFAt (FnEditRep.setLineH h p (g l0)) o { e with f := { e.f with syn := e.f.syn.updateLine p.toNat g } } where
  syn := R.syn.setLineH hg hget
  tok := R.tok.updateLine _ _
  linesG := R.linesG.setLineH _ _
  next := by simp [R.next]
  module := by simpa using R.module
  go := by simpa using R.go
  toolchain := by simpa using R.toolchain
  godebug := by simpa using R.godebug
  require := by simpa using R.require
  exclude := by simpa using R.exclude
  replace := by simpa using R.replace
  retract := by simpa using R.retract
  tool := by simpa using R.tool

theorem RepWAt.setLine {h : Edit.Heap} {o : Edit.WorkFile} {e : Modfile.Edit.EWork} (R : RepWAt h o e) {p : Int} {l0 : Modfile.Line}
    {g : Modfile.Line → Modfile.Line} (hg : IdEquiv g) (hget : heapGet h.lines p = .ok (lineG l0)) :
    RepWAt (FnEditRep.setLineH h p (g l0)) o { e with f := { e.f with syn := e.f.syn.updateLine p.toNat g } } where
  syn := R.syn.setLineH hg hget
  tok := R.tok.updateLine _ _
  linesG := R.linesG.setLineH _ _
  next := by simp [R.next]
  go := by simpa using R.go
  toolchain := by simpa using R.toolchain
  godebug := by simpa using R.godebug
  use := by simpa using R.use
  replace := by simpa using R.replace

/-- a typed entry's line: nil or an allocated line object, which is an embedding -/
theorem LinesG.ofId {h : Edit.Heap} (hG : LinesG h) {id : Nat} (h0 : id ≠ 0) (hl : id ≤ h.lines.length) :
    ∃ l : Modfile.Line, heapGet h.lines (id : Int) = .ok (lineG l) ∧ l.id = id := by
  obtain ⟨l, hl', hid⟩ := hG.getId (p := (id : Int)) (by omega) (by simpa using hl)
  exact ⟨l, hl', by simpa using hid⟩

/-- a `Require` object is overwritten by the embedding of `y` -/
theorem RepFAt.setRequire {h : Edit.Heap} {o : Edit.File} {e : Modfile.Edit.EFile} (R : RepFAt h o e) {i : Nat} {r : Int}
    (hi : o.Require[i]? = some r) (y : Modfile.Require) (hy : y.lineId ≤ h.lines.length) :
    RepFAt { h with requires := h.requires.set (r.toNat - 1) (requireG y) } o
      { e with f := { e.f with require := e.f.require.set i y } } where
  syn := RepSyn.congr (h := h) (h' := { h with requires := h.requires.set (r.toNat - 1) (requireG y) }) rfl rfl rfl rfl R.syn
  tok := R.tok
  linesG := LinesG.congr (h := h) (h' := { h with requires := h.requires.set (r.toNat - 1) (requireG y) }) R.linesG rfl
  next := R.next
  module := R.module
  go := R.go
  toolchain := R.toolchain
  godebug := R.godebug
  require := ⟨R.require.rel.setAt R.require.nodup i r y hi hy, R.require.nodup⟩
  exclude := R.exclude
  replace := R.replace
  retract := R.retract
  tool := R.tool

end ModVerif.Tie.FnEditRep
