/-
  Shared vocabulary of the tie proofs of the regenerated go.mod / go.work EDIT OPERATIONS (Generated/FnEdit.lean, namespace
  ModVerif.Generated.Edit), whose pointer graph is a HEAP (`Edit.Heap`: one list of objects per Go struct type; a pointer
  is the 1-based position, 0 = nil), against the hand model Model/Modfile/Edit.lean (a VALUE tree whose lines carry an
  `id`, typed entries carry the `lineId` of their syntax line).

  * embeddings model → heap object (`posG`, `comG`, `comsG`, `mvG` are the driver's, Drv/GenEdit.lean; here `lineG`, `cbG`,
    `lparenG`, `rparenG`, `blockG`, `fileG`, `moduleG`, `goG`, `toolchainG`, `godebugG`, `requireG`, `excludeG`, `replaceG`,
    `retractG`, `toolG`, `useG`); a typed object's `Syntax` is its `lineId` as an `Int` (0 ↔ `nilId`);
  * the representation relations, embedding direction: `RLine h p l` (the line object at `p` IS `lineG l` and `p = l.id`),
    `RLines`, `RExpr`, `RStmts`, `RFile`;
  * `RepSyn h p fs`: the graph at the `*FileSyntax` pointer `p` is the model tree `fs`, no line id and no block pointer
    occurs twice (`treeIds` of Proofs/EditRefineTree.lean);  garbage objects are allowed in the heap;
  * `LinesG h`: every line object of the heap is the embedding of some model line (all positions are natural numbers) — so
    also a line that is no longer in the graph can be talked about as `lineG l`;
  * `REnts`/`ROpt`: a typed list / optional typed entry of the heap is the model's, `Syntax = lineId`, `lineId ≤ lines.length`
    (nil or allocated — NOT necessarily a line of the graph), the pointers of a list pairwise different;
  * `RepF h fp e` (go.mod, `*File` pointer) and `RepW h fp e` (go.work, `*WorkFile` pointer): all of the above plus
    `e.next = h.lines.length + 1` and `BlockTokOK` (every block of the tree has a non-empty `token`: Go evaluates `Token[0]`);
  * frame lemmas: the relations under a change of another object list, under allocation, under `heapSet` of a line
    (`RStmts.setLine`, `RepSyn.setLine`: the model side is `FileSyntax.updateLine`), of a typed object, …;
  * the heapGet / heapSet / heapAlloc lemmas of Proofs/TieFnParseHeap.lean are re-exported under this namespace.

  Owner: edit-rep.  Other agents import this file and do not edit it.  Statements are never changed, only added.
-/
import ModVerif.Generated.FnEdit
import ModVerif.Drv.GenEdit
import ModVerif.Model.Modfile.Edit
import ModVerif.Proofs.EditRefineTree
import ModVerif.Proofs.TieFnParseHeap
set_option linter.unusedSimpArgs false
set_option linter.unusedVariables false
namespace ModVerif.Tie.FnEditRep
open ModVerif ModVerif.GoRt ModVerif.Generated
open ModVerif.Modfile.Edit (treeIds mapLinesStmt nilId)
open ModVerif.Drv.GenEdit (Ld ptrOf load loadWork)

export ModVerif.Drv.GenEdit (posG comG comsG posM comM comsM mvG)
export ModVerif.Tie.FnParseHeap (heapGet_ok_iff heapGet_pos heapGet_le_length heapGet_error heapGet_natCast heapAlloc_fst
  heapAlloc_snd heapGet_alloc_new heapGet_alloc_old heapGet_append_old heapGet_alloc_of_le heapSet_of_get heapSet_ok_iff
  heapSet_length heapGet_set_same heapGet_set_other heapGet_set_ok heapGet_listSet_same heapGet_listSet_other set_alloc_last)

/-! ### embeddings and read-back of positions and comments -/

@[simp] theorem posM_posG (p : Modfile.Position) : posM (posG p) = p := by
  cases p; simp [Drv.GenEdit.posM, Drv.GenEdit.posG]

@[simp] theorem posG_zero : posG {} = (default : Edit.Position) := rfl
@[simp] theorem posG_Line (p : Modfile.Position) : (posG p).Line = (p.line : Int) := rfl
@[simp] theorem posG_LineRune (p : Modfile.Position) : (posG p).LineRune = (p.lineRune : Int) := rfl
@[simp] theorem posG_Byte (p : Modfile.Position) : (posG p).Byte = (p.byte : Int) := rfl

theorem posG_inj {p q : Modfile.Position} (h : posG p = posG q) : p = q := by
  have := congrArg posM h
  simpa using this

@[simp] theorem comM_comG (c : Modfile.Comment) : comM (comG c) = c := by
  cases c; simp [Drv.GenEdit.comM, Drv.GenEdit.comG]

@[simp] theorem comG_zero : comG {} = (default : Edit.Comment) := rfl
@[simp] theorem comG_Start (c : Modfile.Comment) : (comG c).Start = posG c.start := rfl
@[simp] theorem comG_Token (c : Modfile.Comment) : (comG c).Token = c.token := rfl
@[simp] theorem comG_Suffix (c : Modfile.Comment) : (comG c).Suffix = c.suffix := rfl

theorem comG_inj {c d : Modfile.Comment} (h : comG c = comG d) : c = d := by
  have := congrArg comM h
  simpa using this

@[simp] theorem map_comM_comG (l : List Modfile.Comment) : (l.map comG).map comM = l := by
  induction l with
  | nil => rfl
  | cons a t ih => simp [ih]

theorem map_comG_inj {l m : List Modfile.Comment} (h : l.map comG = m.map comG) : l = m := by
  have := congrArg (List.map comM) h
  simp only [map_comM_comG] at this
  exact this

@[simp] theorem comsM_comsG (c : Modfile.Comments) : comsM (comsG c) = c := by
  cases c; simp only [Drv.GenEdit.comsM, Drv.GenEdit.comsG, map_comM_comG]

@[simp] theorem comsG_zero : comsG {} = (default : Edit.Comments) := rfl
@[simp] theorem comsG_Before (c : Modfile.Comments) : (comsG c).Before = c.before.map comG := rfl
@[simp] theorem comsG_Suffix (c : Modfile.Comments) : (comsG c).Suffix = c.suffix.map comG := rfl
@[simp] theorem comsG_After (c : Modfile.Comments) : (comsG c).After = c.after.map comG := rfl

theorem comsG_inj {c d : Modfile.Comments} (h : comsG c = comsG d) : c = d := by
  have := congrArg comsM h
  simpa using this

@[simp] theorem mvG_Path (m : Modfile.ModVersion) : (mvG m).Path = m.path := rfl
@[simp] theorem mvG_Version (m : Modfile.ModVersion) : (mvG m).Version = m.version := rfl
@[simp] theorem mvG_zero : mvG {} = (default : ModVersion) := rfl

theorem mvG_inj {a b : Modfile.ModVersion} (h : mvG a = mvG b) : a = b := by
  cases a; cases b
  simp only [Drv.GenEdit.mvG, ModVersion.mk.injEq] at h
  simp [h.1, h.2]

/-! ### the heap objects of model nodes -/

def cbG (c : Modfile.CommentBlock) : Edit.CommentBlock := { Comments := comsG c.comments, Start := posG c.start }

/-- the line object (the `id` is not stored: it is the pointer) -/
def lineG (l : Modfile.Line) : Edit.Line :=
  { Comments := comsG l.comments, Start := posG l.start, Token := l.token, InBlock := l.inBlock, End := posG l.«end» }

def lparenG (x : Modfile.LParen) : Edit.LParen := { Comments := comsG x.comments, Pos := posG x.pos }
def rparenG (x : Modfile.RParen) : Edit.RParen := { Comments := comsG x.comments, Pos := posG x.pos }

/-- the block object: its lines are the pointers `ps` -/
def blockG (b : Modfile.LineBlock) (ps : List Int) : Edit.LineBlock :=
  { Comments := comsG b.comments, Start := posG b.start, LParen := lparenG b.lparen, Token := b.token, Line := ps,
    RParen := rparenG b.rparen }

/-- the file object: its statements are `es` -/
def fileG (f : Modfile.FileSyntax) (es : List Edit.Expr) : Edit.FileSyntax :=
  { Name := f.name, Comments := comsG f.comments, Stmt := es }

@[simp] theorem lineG_Comments (l : Modfile.Line) : (lineG l).Comments = comsG l.comments := rfl
@[simp] theorem lineG_Start (l : Modfile.Line) : (lineG l).Start = posG l.start := rfl
@[simp] theorem lineG_Token (l : Modfile.Line) : (lineG l).Token = l.token := rfl
@[simp] theorem lineG_InBlock (l : Modfile.Line) : (lineG l).InBlock = l.inBlock := rfl
@[simp] theorem lineG_End (l : Modfile.Line) : (lineG l).End = posG l.«end» := rfl
@[simp] theorem blockG_Comments (b : Modfile.LineBlock) (ps : List Int) : (blockG b ps).Comments = comsG b.comments := rfl
@[simp] theorem blockG_Start (b : Modfile.LineBlock) (ps : List Int) : (blockG b ps).Start = posG b.start := rfl
@[simp] theorem blockG_LParen (b : Modfile.LineBlock) (ps : List Int) : (blockG b ps).LParen = lparenG b.lparen := rfl
@[simp] theorem blockG_RParen (b : Modfile.LineBlock) (ps : List Int) : (blockG b ps).RParen = rparenG b.rparen := rfl
@[simp] theorem blockG_Token (b : Modfile.LineBlock) (ps : List Int) : (blockG b ps).Token = b.token := rfl
@[simp] theorem blockG_Line (b : Modfile.LineBlock) (ps : List Int) : (blockG b ps).Line = ps := rfl
@[simp] theorem rparenG_Comments (x : Modfile.RParen) : (rparenG x).Comments = comsG x.comments := rfl
@[simp] theorem lparenG_Comments (x : Modfile.LParen) : (lparenG x).Comments = comsG x.comments := rfl
@[simp] theorem fileG_Name (f : Modfile.FileSyntax) (es : List Edit.Expr) : (fileG f es).Name = f.name := rfl
@[simp] theorem fileG_Comments (f : Modfile.FileSyntax) (es : List Edit.Expr) : (fileG f es).Comments = comsG f.comments := rfl
@[simp] theorem fileG_Stmt (f : Modfile.FileSyntax) (es : List Edit.Expr) : (fileG f es).Stmt = es := rfl

/-- a new line as the edit operations create it (`&Line{Token: tokens}` / `…, InBlock: true`) -/
theorem lineG_mkLine (id : Nat) (tokens : List Bytes) (inBlock : Bool) :
    lineG (Modfile.Edit.mkLine id tokens inBlock) = { (default : Edit.Line) with Token := tokens, InBlock := inBlock } := rfl

/-- `lineG` forgets exactly the id -/
theorem lineG_eq_iff {a b : Modfile.Line} : lineG a = lineG b ↔ a = { b with id := a.id } := by
  constructor
  · intro h
    obtain ⟨i, c, s, t, ib, e⟩ := a
    obtain ⟨j, c', s', t', ib', e'⟩ := b
    simp only [lineG, Edit.Line.mk.injEq] at h
    obtain ⟨h1, h2, h3, h4, h5⟩ := h
    have := comsG_inj h1; have := posG_inj h2; have := posG_inj h5
    subst_vars; rfl
  · intro h; rw [h]; rfl

/-- a function on model lines that does not look at the id and keeps it (every line function of the edit model) -/
def IdEquiv (g : Modfile.Line → Modfile.Line) : Prop := ∀ (l : Modfile.Line) (i : Nat), g { l with id := i } = { g l with id := i }

theorem IdEquiv.id_eq {g : Modfile.Line → Modfile.Line} (hg : IdEquiv g) (l : Modfile.Line) : (g l).id = l.id := by
  have := hg l l.id
  have e : ({ l with id := l.id } : Modfile.Line) = l := rfl
  rw [e] at this
  rw [this]

theorem IdEquiv.lineG {g : Modfile.Line → Modfile.Line} (hg : IdEquiv g) {a b : Modfile.Line} (h : lineG a = lineG b) :
    lineG (g a) = lineG (g b) := by
  rw [lineG_eq_iff.1 h, hg b a.id]; rfl

theorem IdEquiv.comp {g k : Modfile.Line → Modfile.Line} (hg : IdEquiv g) (hk : IdEquiv k) : IdEquiv (fun l => g (k l)) := by
  intro l i; simp only; rw [hk l i, hg (k l) i]

theorem IdEquiv.ident : IdEquiv (fun l => l) := fun _ _ => rfl

/-! typed entries: `Syntax` is the `lineId` (0 = nil) -/

def moduleG (m : Modfile.Module) : Edit.Module := { Mod := mvG m.mod, Deprecated := m.deprecated, Syntax := (m.lineId : Int) }
def goG (g : Modfile.Go) : Edit.Go := { Version := g.version, Syntax := (g.lineId : Int) }
def toolchainG (t : Modfile.Toolchain) : Edit.Toolchain := { Name := t.name, Syntax := (t.lineId : Int) }
def godebugG (g : Modfile.Godebug) : Edit.Godebug := { Key := g.key, Value := g.value, Syntax := (g.lineId : Int) }
def requireG (r : Modfile.Require) : Edit.Require := { Mod := mvG r.mod, Indirect := r.indirect, Syntax := (r.lineId : Int) }
def excludeG (x : Modfile.Exclude) : Edit.Exclude := { Mod := mvG x.mod, Syntax := (x.lineId : Int) }
def replaceG (r : Modfile.Replace) : Edit.Replace := { Old := mvG r.old, New := mvG r.new, Syntax := (r.lineId : Int) }
def retractG (r : Modfile.Retract) : Edit.Retract :=
  { VersionInterval := { Low := r.interval.low, High := r.interval.high }, Rationale := r.rationale, Syntax := (r.lineId : Int) }
def toolG (t : Modfile.Tool) : Edit.Tool := { Path := t.path, Syntax := (t.lineId : Int) }
def useG (u : Modfile.Use) : Edit.Use := { Path := u.path, ModulePath := u.modulePath, Syntax := (u.lineId : Int) }

@[simp] theorem moduleG_Mod (m : Modfile.Module) : (moduleG m).Mod = mvG m.mod := rfl
@[simp] theorem moduleG_Deprecated (m : Modfile.Module) : (moduleG m).Deprecated = m.deprecated := rfl
@[simp] theorem moduleG_Syntax (m : Modfile.Module) : (moduleG m).Syntax = (m.lineId : Int) := rfl
@[simp] theorem goG_Version (g : Modfile.Go) : (goG g).Version = g.version := rfl
@[simp] theorem goG_Syntax (g : Modfile.Go) : (goG g).Syntax = (g.lineId : Int) := rfl
@[simp] theorem toolchainG_Name (t : Modfile.Toolchain) : (toolchainG t).Name = t.name := rfl
@[simp] theorem toolchainG_Syntax (t : Modfile.Toolchain) : (toolchainG t).Syntax = (t.lineId : Int) := rfl
@[simp] theorem godebugG_Key (g : Modfile.Godebug) : (godebugG g).Key = g.key := rfl
@[simp] theorem godebugG_Value (g : Modfile.Godebug) : (godebugG g).Value = g.value := rfl
@[simp] theorem godebugG_Syntax (g : Modfile.Godebug) : (godebugG g).Syntax = (g.lineId : Int) := rfl
@[simp] theorem requireG_Mod (r : Modfile.Require) : (requireG r).Mod = mvG r.mod := rfl
@[simp] theorem requireG_Indirect (r : Modfile.Require) : (requireG r).Indirect = r.indirect := rfl
@[simp] theorem requireG_Syntax (r : Modfile.Require) : (requireG r).Syntax = (r.lineId : Int) := rfl
@[simp] theorem excludeG_Mod (x : Modfile.Exclude) : (excludeG x).Mod = mvG x.mod := rfl
@[simp] theorem excludeG_Syntax (x : Modfile.Exclude) : (excludeG x).Syntax = (x.lineId : Int) := rfl
@[simp] theorem replaceG_Old (r : Modfile.Replace) : (replaceG r).Old = mvG r.old := rfl
@[simp] theorem replaceG_New (r : Modfile.Replace) : (replaceG r).New = mvG r.new := rfl
@[simp] theorem replaceG_Syntax (r : Modfile.Replace) : (replaceG r).Syntax = (r.lineId : Int) := rfl
@[simp] theorem retractG_Low (r : Modfile.Retract) : (retractG r).VersionInterval.Low = r.interval.low := rfl
@[simp] theorem retractG_High (r : Modfile.Retract) : (retractG r).VersionInterval.High = r.interval.high := rfl
@[simp] theorem retractG_Rationale (r : Modfile.Retract) : (retractG r).Rationale = r.rationale := rfl
@[simp] theorem retractG_Syntax (r : Modfile.Retract) : (retractG r).Syntax = (r.lineId : Int) := rfl
@[simp] theorem toolG_Path (t : Modfile.Tool) : (toolG t).Path = t.path := rfl
@[simp] theorem toolG_Syntax (t : Modfile.Tool) : (toolG t).Syntax = (t.lineId : Int) := rfl
@[simp] theorem useG_Path (u : Modfile.Use) : (useG u).Path = u.path := rfl
@[simp] theorem useG_ModulePath (u : Modfile.Use) : (useG u).ModulePath = u.modulePath := rfl
@[simp] theorem useG_Syntax (u : Modfile.Use) : (useG u).Syntax = (u.lineId : Int) := rfl

/-- the cleared entries `*r = Require{}` … are the zero objects -/
theorem godebugG_cleared : godebugG Modfile.Edit.clearedGodebug = (default : Edit.Godebug) := rfl
theorem requireG_cleared : requireG Modfile.Edit.clearedRequire = (default : Edit.Require) := rfl
theorem excludeG_cleared : excludeG Modfile.Edit.clearedExclude = (default : Edit.Exclude) := rfl
theorem replaceG_cleared : replaceG Modfile.Edit.clearedReplace = (default : Edit.Replace) := rfl
theorem retractG_cleared : retractG Modfile.Edit.clearedRetract = (default : Edit.Retract) := rfl
theorem toolG_cleared : toolG Modfile.Edit.clearedTool = (default : Edit.Tool) := rfl
theorem useG_cleared : useG Modfile.Edit.clearedUse = (default : Edit.Use) := rfl

/-! ### the representation of the syntax graph -/

/-- the line object at `p` is the embedding of `l`, and the id of `l` is the pointer -/
def RLine (h : Edit.Heap) (p : Int) (l : Modfile.Line) : Prop :=
  heapGet h.lines p = .ok (lineG l) ∧ p = (l.id : Int)

def RLines (h : Edit.Heap) : List Int → List Modfile.Line → Prop
  | [], [] => True
  | p :: ps, l :: ls => RLine h p l ∧ RLines h ps ls
  | _, _ => False

/-- the statement `e` of the heap is the model statement `s` -/
def RExpr (h : Edit.Heap) : Edit.Expr → Modfile.Expr → Prop
  | .CommentBlock p, .commentBlock c => heapGet h.cbs p = .ok (cbG c)
  | .Line p, .line l => RLine h p l
  | .LineBlock p, .lineBlock b => ∃ ps, heapGet h.blocks p = .ok (blockG b ps) ∧ RLines h ps b.lines
  | _, _ => False

def RStmts (h : Edit.Heap) : List Edit.Expr → List Modfile.Expr → Prop
  | [], [] => True
  | e :: es, s :: ss => RExpr h e s ∧ RStmts h es ss
  | _, _ => False

/-- the graph at the file pointer `p` is the model tree `f` -/
def RFile (h : Edit.Heap) (p : Int) (f : Modfile.FileSyntax) : Prop :=
  ∃ es, heapGet h.files p = .ok (fileG f es) ∧ RStmts h es f.stmts

def blockPtrs : List Edit.Expr → List Int
  | [] => []
  | .LineBlock p :: es => p :: blockPtrs es
  | _ :: es => blockPtrs es

/-- the graph at `p`, with statement list `es`, is `fs`; no aliasing: block pointers and line ids (= line pointers) are
    pairwise different -/
structure RepSynAt (h : Edit.Heap) (p : Int) (fs : Modfile.FileSyntax) (es : List Edit.Expr) : Prop where
  file : heapGet h.files p = .ok (fileG fs es)
  stmts : RStmts h es fs.stmts
  nodupB : (blockPtrs es).Nodup
  nodupL : (treeIds fs.stmts).Nodup

/-- **the syntax graph at the `*FileSyntax` pointer `p` represents the model tree `fs`** -/
def RepSyn (h : Edit.Heap) (p : Int) (fs : Modfile.FileSyntax) : Prop := ∃ es, RepSynAt h p fs es

/-- every block of the tree has a verb (Go evaluates `stmt.Token[0]` on blocks; the model uses `headIs`) -/
def BlockTokOK (stmts : List Modfile.Expr) : Prop := ∀ b, Modfile.Expr.lineBlock b ∈ stmts → b.token ≠ []

/-- every line object of the heap (in the graph or not) is the embedding of a model line -/
def LinesG (h : Edit.Heap) : Prop := ∀ t ∈ h.lines, ∃ l : Modfile.Line, t = lineG l

/-! ### typed entries -/

/-- pointer list `ps` into the object list `objs` ↔ model entries `xs`: the object IS the embedding `g x`, the line id is
    nil or an allocated line (`≤ nl = lines.length`) -/
def REntsL {α β : Type} (objs : List α) (g : β → α) (id : β → Nat) (nl : Nat) : List Int → List β → Prop
  | [], [] => True
  | p :: ps, x :: xs => (heapGet objs p = .ok (g x) ∧ id x ≤ nl) ∧ REntsL objs g id nl ps xs
  | _, _ => False

/-- a typed list: pointwise the model's, the pointers pairwise different -/
structure REnts {α β : Type} (objs : List α) (g : β → α) (id : β → Nat) (nl : Nat) (ps : List Int) (xs : List β) : Prop where
  rel : REntsL objs g id nl ps xs
  nodup : ps.Nodup

/-- an optional typed entry (`f.Module`, `f.Go`, `f.Toolchain`): nil ↔ none -/
def ROpt {α β : Type} (objs : List α) (g : β → α) (id : β → Nat) (nl : Nat) (p : Int) : Option β → Prop
  | none => p = 0
  | some x => heapGet objs p = .ok (g x) ∧ id x ≤ nl

/-- the `File` object `o` with the heap `h` represents the model `e` -/
structure RepFAt (h : Edit.Heap) (o : Edit.File) (e : Modfile.Edit.EFile) : Prop where
  syn : RepSyn h o.Syntax e.f.syn
  tok : BlockTokOK e.f.syn.stmts
  linesG : LinesG h
  next : e.next = h.lines.length + 1
  module : ROpt h.modules moduleG (·.lineId) h.lines.length o.Module e.f.module
  go : ROpt h.gos goG (·.lineId) h.lines.length o.Go e.f.go
  toolchain : ROpt h.toolchains toolchainG (·.lineId) h.lines.length o.Toolchain e.f.toolchain
  godebug : REnts h.godebugs godebugG (·.lineId) h.lines.length o.Godebug e.f.godebug
  require : REnts h.requires requireG (·.lineId) h.lines.length o.Require e.f.require
  exclude : REnts h.excludes excludeG (·.lineId) h.lines.length o.Exclude e.f.exclude
  replace : REnts h.replaces replaceG (·.lineId) h.lines.length o.Replace e.f.replace
  retract : REnts h.retracts retractG (·.lineId) h.lines.length o.Retract e.f.retract
  tool : REnts h.tools toolG (·.lineId) h.lines.length o.Tool e.f.tool

/-- **heap `h` at the `*File` pointer `fp` represents the model go.mod `e`** -/
def RepF (h : Edit.Heap) (fp : Int) (e : Modfile.Edit.EFile) : Prop := ∃ o, heapGet h.mods fp = .ok o ∧ RepFAt h o e

/-- the `WorkFile` object `o` with the heap `h` represents the model `e` -/
structure RepWAt (h : Edit.Heap) (o : Edit.WorkFile) (e : Modfile.Edit.EWork) : Prop where
  syn : RepSyn h o.Syntax e.f.syn
  tok : BlockTokOK e.f.syn.stmts
  linesG : LinesG h
  next : e.next = h.lines.length + 1
  go : ROpt h.gos goG (·.lineId) h.lines.length o.Go e.f.go
  toolchain : ROpt h.toolchains toolchainG (·.lineId) h.lines.length o.Toolchain e.f.toolchain
  godebug : REnts h.godebugs godebugG (·.lineId) h.lines.length o.Godebug e.f.godebug
  use : REnts h.uses useG (·.lineId) h.lines.length o.Use e.f.use
  replace : REnts h.replaces replaceG (·.lineId) h.lines.length o.Replace e.f.replace

/-- **heap `h` at the `*WorkFile` pointer `fp` represents the model go.work `e`** -/
def RepW (h : Edit.Heap) (fp : Int) (e : Modfile.Edit.EWork) : Prop := ∃ o, heapGet h.works fp = .ok o ∧ RepWAt h o e

/-! ### elementary facts -/

theorem RLine.pos {h : Edit.Heap} {p : Int} {l : Modfile.Line} (r : RLine h p l) : 0 < p := heapGet_pos r.1
theorem RLine.id_pos {h : Edit.Heap} {p : Int} {l : Modfile.Line} (r : RLine h p l) : 0 < l.id := by
  have := r.pos; have := r.2; omega
theorem RLine.id_le {h : Edit.Heap} {p : Int} {l : Modfile.Line} (r : RLine h p l) : l.id ≤ h.lines.length := by
  have := heapGet_le_length r.1; have := r.2; omega
theorem RLine.toNat {h : Edit.Heap} {p : Int} {l : Modfile.Line} (r : RLine h p l) : p.toNat = l.id := by
  have := r.2; omega

theorem RLines.length {h : Edit.Heap} : ∀ {ps : List Int} {ls : List Modfile.Line}, RLines h ps ls → ps.length = ls.length
  | [], [], _ => rfl
  | _ :: _, _ :: _, r => by simp [RLines.length r.2]
  | [], _ :: _, r => r.elim
  | _ :: _, [], r => r.elim

/-- the line pointers of a block are the ids of its lines -/
theorem RLines.ptrs {h : Edit.Heap} : ∀ {ps : List Int} {ls : List Modfile.Line}, RLines h ps ls → ps = ls.map (fun l => (l.id : Int))
  | [], [], _ => rfl
  | _ :: _, _ :: _, r => by simp [← RLines.ptrs r.2, r.1.2]
  | [], _ :: _, r => r.elim
  | _ :: _, [], r => r.elim

theorem RStmts.length {h : Edit.Heap} : ∀ {es : List Edit.Expr} {ss : List Modfile.Expr}, RStmts h es ss → es.length = ss.length
  | [], [], _ => rfl
  | _ :: _, _ :: _, r => by simp [RStmts.length r.2]
  | [], _ :: _, r => r.elim
  | _ :: _, [], r => r.elim

theorem RLines.get {h : Edit.Heap} : ∀ {ps : List Int} {ls : List Modfile.Line}, RLines h ps ls →
    ∀ (i : Nat) (p : Int) (l : Modfile.Line), ps[i]? = some p → ls[i]? = some l → RLine h p l
  | _ :: _, _ :: _, r, 0, p, l, hp, hl => by
    simp only [List.getElem?_cons_zero, Option.some.injEq] at hp hl; subst hp hl; exact r.1
  | _ :: _, _ :: _, r, i + 1, p, l, hp, hl => by
    simp only [List.getElem?_cons_succ] at hp hl; exact RLines.get r.2 i p l hp hl
  | [], [], _, _, _, _, hp, _ => by simp at hp
  | [], _ :: _, r, _, _, _, _, _ => r.elim
  | _ :: _, [], r, _, _, _, _, _ => r.elim

theorem RStmts.get {h : Edit.Heap} : ∀ {es : List Edit.Expr} {ss : List Modfile.Expr}, RStmts h es ss →
    ∀ (i : Nat) (e : Edit.Expr) (s : Modfile.Expr), es[i]? = some e → ss[i]? = some s → RExpr h e s
  | _ :: _, _ :: _, r, 0, e, s, he, hs => by
    simp only [List.getElem?_cons_zero, Option.some.injEq] at he hs; subst he hs; exact r.1
  | _ :: _, _ :: _, r, i + 1, e, s, he, hs => by
    simp only [List.getElem?_cons_succ] at he hs; exact RStmts.get r.2 i e s he hs
  | [], [], _, _, _, _, he, _ => by simp at he
  | [], _ :: _, r, _, _, _, _, _ => r.elim
  | _ :: _, [], r, _, _, _, _, _ => r.elim

theorem RLines.append {h : Edit.Heap} : ∀ {ps qs : List Int} {ls ms : List Modfile.Line}, RLines h ps ls → RLines h qs ms →
    RLines h (ps ++ qs) (ls ++ ms)
  | [], _, [], _, _, r2 => r2
  | _ :: _, _, _ :: _, _, r1, r2 => ⟨r1.1, RLines.append r1.2 r2⟩
  | [], _, _ :: _, _, r1, _ => r1.elim
  | _ :: _, _, [], _, r1, _ => r1.elim

theorem RStmts.append {h : Edit.Heap} : ∀ {es fs : List Edit.Expr} {ss ts : List Modfile.Expr}, RStmts h es ss → RStmts h fs ts →
    RStmts h (es ++ fs) (ss ++ ts)
  | [], _, [], _, _, r2 => r2
  | _ :: _, _, _ :: _, _, r1, r2 => ⟨r1.1, RStmts.append r1.2 r2⟩
  | [], _, _ :: _, _, r1, _ => r1.elim
  | _ :: _, _, [], _, r1, _ => r1.elim

/-! ### frame lemmas for the syntax graph -/

/-- the relations only look at `lines`, `blocks`, `cbs`; they survive every change that keeps the objects they read
    (allocation in any list, `heapSet` elsewhere, any change of the typed lists) -/
theorem RLine.mono {h h' : Edit.Heap} (hl : ∀ p v, heapGet h.lines p = .ok v → heapGet h'.lines p = .ok v)
    {p : Int} {l : Modfile.Line} (r : RLine h p l) : RLine h' p l := ⟨hl _ _ r.1, r.2⟩

theorem RLines.mono {h h' : Edit.Heap} (hl : ∀ p v, heapGet h.lines p = .ok v → heapGet h'.lines p = .ok v) :
    ∀ {ps : List Int} {ls : List Modfile.Line}, RLines h ps ls → RLines h' ps ls
  | [], [], _ => trivial
  | _ :: _, _ :: _, r => ⟨r.1.mono hl, RLines.mono hl r.2⟩
  | [], _ :: _, r => r.elim
  | _ :: _, [], r => r.elim

theorem RExpr.mono {h h' : Edit.Heap} (hl : ∀ p v, heapGet h.lines p = .ok v → heapGet h'.lines p = .ok v)
    (hb : ∀ p v, heapGet h.blocks p = .ok v → heapGet h'.blocks p = .ok v)
    (hc : ∀ p v, heapGet h.cbs p = .ok v → heapGet h'.cbs p = .ok v) :
    ∀ {e : Edit.Expr} {s : Modfile.Expr}, RExpr h e s → RExpr h' e s := by
  intro e s r
  cases e <;> cases s <;> simp only [RExpr] at r ⊢ <;> try exact r.elim
  · exact hc _ _ r
  · exact r.mono hl
  · obtain ⟨ps, r1, r2⟩ := r
    exact ⟨ps, hb _ _ r1, r2.mono hl⟩

theorem RStmts.mono {h h' : Edit.Heap} (hl : ∀ p v, heapGet h.lines p = .ok v → heapGet h'.lines p = .ok v)
    (hb : ∀ p v, heapGet h.blocks p = .ok v → heapGet h'.blocks p = .ok v)
    (hc : ∀ p v, heapGet h.cbs p = .ok v → heapGet h'.cbs p = .ok v) :
    ∀ {es : List Edit.Expr} {ss : List Modfile.Expr}, RStmts h es ss → RStmts h' es ss
  | [], [], _ => trivial
  | _ :: _, _ :: _, r => ⟨r.1.mono hl hb hc, RStmts.mono hl hb hc r.2⟩
  | [], _ :: _, r => r.elim
  | _ :: _, [], r => r.elim

/-- a change that keeps `lines`, `blocks`, `cbs` (for instance of a typed list, `mods`, `works`, `files`) -/
theorem RStmts.congr {h h' : Edit.Heap} (hl : h'.lines = h.lines) (hb : h'.blocks = h.blocks) (hc : h'.cbs = h.cbs)
    {es : List Edit.Expr} {ss : List Modfile.Expr} (r : RStmts h es ss) : RStmts h' es ss :=
  r.mono (by rw [hl]; exact fun _ _ x => x) (by rw [hb]; exact fun _ _ x => x) (by rw [hc]; exact fun _ _ x => x)

theorem RepSynAt.congr {h h' : Edit.Heap} (hf : h'.files = h.files) (hl : h'.lines = h.lines) (hb : h'.blocks = h.blocks)
    (hc : h'.cbs = h.cbs) {p : Int} {fs : Modfile.FileSyntax} {es : List Edit.Expr} (r : RepSynAt h p fs es) :
    RepSynAt h' p fs es :=
  ⟨by rw [hf]; exact r.file, r.stmts.congr hl hb hc, r.nodupB, r.nodupL⟩

/-- a change of the heap that keeps `files`, `lines`, `blocks`, `cbs` -/
theorem RepSyn.congr {h h' : Edit.Heap} (hf : h'.files = h.files) (hl : h'.lines = h.lines) (hb : h'.blocks = h.blocks)
    (hc : h'.cbs = h.cbs) {p : Int} {fs : Modfile.FileSyntax} (r : RepSyn h p fs) : RepSyn h' p fs := by
  obtain ⟨es, r⟩ := r; exact ⟨es, r.congr hf hl hb hc⟩

/-- every change that keeps the allocated objects of `files`, `lines`, `blocks`, `cbs` (allocation) -/
theorem RepSyn.mono {h h' : Edit.Heap} (hf : ∀ p v, heapGet h.files p = .ok v → heapGet h'.files p = .ok v)
    (hl : ∀ p v, heapGet h.lines p = .ok v → heapGet h'.lines p = .ok v)
    (hb : ∀ p v, heapGet h.blocks p = .ok v → heapGet h'.blocks p = .ok v)
    (hc : ∀ p v, heapGet h.cbs p = .ok v → heapGet h'.cbs p = .ok v)
    {p : Int} {fs : Modfile.FileSyntax} (r : RepSyn h p fs) : RepSyn h' p fs := by
  obtain ⟨es, r⟩ := r
  exact ⟨es, hf _ _ r.file, r.stmts.mono hl hb hc, r.nodupB, r.nodupL⟩

/-- allocation of a line keeps the graph -/
theorem RepSyn.allocLine {h : Edit.Heap} {p : Int} {fs : Modfile.FileSyntax} (r : RepSyn h p fs) (v : Edit.Line) :
    RepSyn { h with lines := h.lines ++ [v] } p fs :=
  RepSyn.mono (h := h) (h' := { h with lines := h.lines ++ [v] }) (fun _ _ x => x)
    (fun q w (x : heapGet h.lines q = .ok w) => heapGet_alloc_old v x) (fun _ _ x => x) (fun _ _ x => x) r

/-- allocation of a block keeps the graph -/
theorem RepSyn.allocBlock {h : Edit.Heap} {p : Int} {fs : Modfile.FileSyntax} (r : RepSyn h p fs) (v : Edit.LineBlock) :
    RepSyn { h with blocks := h.blocks ++ [v] } p fs :=
  RepSyn.mono (h := h) (h' := { h with blocks := h.blocks ++ [v] }) (fun _ _ x => x) (fun _ _ x => x)
    (fun q w (x : heapGet h.blocks q = .ok w) => heapGet_alloc_old v x) (fun _ _ x => x) r

/-! ### ids of the tree are pointers of the graph -/

theorem RLines.ids_le {h : Edit.Heap} : ∀ {ps : List Int} {ls : List Modfile.Line}, RLines h ps ls →
    ∀ l ∈ ls, 0 < l.id ∧ l.id ≤ h.lines.length ∧ heapGet h.lines (l.id : Int) = .ok (lineG l)
  | [], [], _, l, hl => by cases hl
  | _ :: _, _ :: _, r, l, hl => by
    rcases List.mem_cons.1 hl with rfl | hl'
    · exact ⟨r.1.id_pos, r.1.id_le, by rw [← r.1.2]; exact r.1.1⟩
    · exact RLines.ids_le r.2 l hl'
  | [], _ :: _, r, _, _ => r.elim
  | _ :: _, [], r, _, _ => r.elim

/-- every located line of the tree is the object at the pointer `id` -/
theorem RStmts.loc {h : Edit.Heap} : ∀ {es : List Edit.Expr} {ss : List Modfile.Expr}, RStmts h es ss →
    ∀ q ∈ Modfile.Edit.loc ss, 0 < q.2.id ∧ q.2.id ≤ h.lines.length ∧ heapGet h.lines (q.2.id : Int) = .ok (lineG q.2)
  | [], [], _, q, hq => by simp [Modfile.Edit.loc] at hq
  | e :: es, s :: ss, r, q, hq => by
    rw [Modfile.Edit.loc_cons] at hq
    rcases List.mem_append.1 hq with hq1 | hq2
    · cases e <;> cases s <;> simp only [RStmts, RExpr] at r <;> try exact r.1.elim
      · simp [Modfile.Edit.locStmt] at hq1
      · simp only [Modfile.Edit.locStmt, List.mem_singleton] at hq1
        subst hq1
        exact ⟨r.1.id_pos, r.1.id_le, by rw [← r.1.2]; exact r.1.1⟩
      · obtain ⟨⟨ps, _, rl⟩, _⟩ := r
        simp only [Modfile.Edit.locStmt, List.mem_map] at hq1
        obtain ⟨l, hl, rfl⟩ := hq1
        exact rl.ids_le l hl
    · exact RStmts.loc r.2 q hq2
  | [], _ :: _, r, _, _ => r.elim
  | _ :: _, [], r, _, _ => r.elim

theorem RStmts.treeIds_le {h : Edit.Heap} {es : List Edit.Expr} {ss : List Modfile.Expr} (r : RStmts h es ss) :
    ∀ i ∈ treeIds ss, 0 < i ∧ i ≤ h.lines.length := by
  intro i hi
  obtain ⟨q, hq, rfl⟩ := List.mem_map.1 hi
  exact ⟨(r.loc q hq).1, (r.loc q hq).2.1⟩

/-- a line of the tree is found in the heap at its id -/
theorem RepSyn.findLine {h : Edit.Heap} {p : Int} {fs : Modfile.FileSyntax} (r : RepSyn h p fs) {id : Nat} {l : Modfile.Line}
    (hf : fs.findLine id = some l) : heapGet h.lines (id : Int) = .ok (lineG l) ∧ l.id = id := by
  obtain ⟨es, r⟩ := r
  unfold Modfile.FileSyntax.findLine at hf
  have hm := List.mem_of_find?_eq_some hf
  have hid : l.id = id := by simpa using List.find?_some hf
  rw [Modfile.Edit.allLines_eq_loc] at hm
  obtain ⟨q, hq, rfl⟩ := List.mem_map.1 hm
  have := (r.stmts.loc q hq).2.2
  rw [hid] at this
  exact ⟨this, hid⟩

/-! ### `heapSet` of a line: the model side is `updateLine` -/

theorem RLines.setLine {h : Edit.Heap} {p : Int} {l0 : Modfile.Line} {g : Modfile.Line → Modfile.Line} (hg : IdEquiv g)
    (hget : heapGet h.lines p = .ok (lineG l0)) :
    ∀ {ps : List Int} {ls : List Modfile.Line}, RLines h ps ls →
      RLines { h with lines := h.lines.set (p.toNat - 1) (lineG (g l0)) } ps
        (ls.map fun l => if l.id == p.toNat then g l else l)
  | [], [], _ => trivial
  | q :: ps, l :: ls, r => by
    refine ⟨?_, RLines.setLine hg hget r.2⟩
    have hp := heapGet_pos hget
    by_cases e : q = p
    · subst e
      have hid : (l.id == q.toNat) = true := by have := r.1.toNat; simp [this]
      simp only [hid, if_true]
      refine ⟨?_, by rw [hg.id_eq]; exact r.1.2⟩
      show heapGet (h.lines.set (q.toNat - 1) (lineG (g l0))) q = _
      rw [heapGet_listSet_same _ hget]
      have : lineG l = lineG l0 := by have := r.1.1; rw [hget] at this; exact (Except.ok.inj this).symm
      rw [hg.lineG this]
    · have hid : (l.id == p.toNat) = false := by
        have := r.1.2
        simp only [beq_eq_false_iff_ne, ne_eq]
        omega
      simp only [hid, Bool.false_eq_true, if_false]
      refine ⟨?_, r.1.2⟩
      show heapGet (h.lines.set (p.toNat - 1) (lineG (g l0))) q = _
      rw [heapGet_listSet_other _ hget e]; exact r.1.1
  | [], _ :: _, r => r.elim
  | _ :: _, [], r => r.elim

theorem RStmts.setLine {h : Edit.Heap} {p : Int} {l0 : Modfile.Line} {g : Modfile.Line → Modfile.Line} (hg : IdEquiv g)
    (hget : heapGet h.lines p = .ok (lineG l0)) :
    ∀ {es : List Edit.Expr} {ss : List Modfile.Expr}, RStmts h es ss →
      RStmts { h with lines := h.lines.set (p.toNat - 1) (lineG (g l0)) } es
        (ss.map (mapLinesStmt fun l => if l.id == p.toNat then g l else l))
  | [], [], _ => trivial
  | e :: es, s :: ss, r => by
    refine ⟨?_, RStmts.setLine hg hget r.2⟩
    have r1 := r.1
    cases e <;> cases s <;> simp only [RExpr, mapLinesStmt] at r1 ⊢ <;> try exact r1.elim
    · exact r1
    · have := RLines.setLine hg hget (ps := [_]) (ls := [_]) ⟨r1, trivial⟩
      exact this.1
    · obtain ⟨ps, r2, r3⟩ := r1
      exact ⟨ps, r2, RLines.setLine hg hget r3⟩
  | [], _ :: _, r => r.elim
  | _ :: _, [], r => r.elim

/-- **the line object at `p` is overwritten by the image of its content under `g`: the graph now represents
    `fs.updateLine p g`** (also when the line at `p` is not in the graph: then `updateLine` changes nothing) -/
theorem RepSyn.setLine {h : Edit.Heap} {x : Int} {fs : Modfile.FileSyntax} (r : RepSyn h x fs) {p : Int} {l0 : Modfile.Line}
    {g : Modfile.Line → Modfile.Line} (hg : IdEquiv g) (hget : heapGet h.lines p = .ok (lineG l0)) :
    RepSyn { h with lines := h.lines.set (p.toNat - 1) (lineG (g l0)) } x (fs.updateLine p.toNat g) := by
  obtain ⟨es, r⟩ := r
  refine ⟨es, ?_, ?_, r.nodupB, ?_⟩
  · exact r.file
  · rw [Modfile.Edit.updateLine_stmts fs p.toNat g r.nodupL]
    exact r.stmts.setLine hg hget
  · rw [Modfile.Edit.treeIds_updateLine fs p.toNat g r.nodupL hg.id_eq]; exact r.nodupL

theorem LinesG.setLine {h : Edit.Heap} (hG : LinesG h) (k : Nat) (l : Modfile.Line) :
    LinesG { h with lines := h.lines.set k (lineG l) } := by
  intro t ht
  rcases List.mem_or_eq_of_mem_set ht with ht | rfl
  · exact hG t ht
  · exact ⟨l, rfl⟩

theorem LinesG.allocLine {h : Edit.Heap} (hG : LinesG h) (l : Modfile.Line) :
    LinesG { h with lines := h.lines ++ [lineG l] } := by
  intro t ht
  rcases List.mem_append.1 ht with ht | ht
  · exact hG t ht
  · simp only [List.mem_singleton] at ht; exact ⟨l, ht⟩

theorem LinesG.congr {h h' : Edit.Heap} (hG : LinesG h) (hl : h'.lines = h.lines) : LinesG h' := by
  intro t ht; rw [hl] at ht; exact hG t ht

/-- every allocated line is an embedding -/
theorem LinesG.get {h : Edit.Heap} (hG : LinesG h) {p : Int} (hp : 0 < p) (hl : p.toNat ≤ h.lines.length) :
    ∃ l : Modfile.Line, heapGet h.lines p = .ok (lineG l) := by
  have hlt : p.toNat - 1 < h.lines.length := by omega
  obtain ⟨l, hl'⟩ := hG (h.lines[p.toNat - 1]) (List.getElem_mem hlt)
  refine ⟨l, heapGet_ok_iff.2 ⟨hp, ?_⟩⟩
  rw [List.getElem?_eq_getElem hlt, hl']

/-- … with the id of one's choice -/
theorem LinesG.getId {h : Edit.Heap} (hG : LinesG h) {p : Int} (hp : 0 < p) (hl : p.toNat ≤ h.lines.length) :
    ∃ l : Modfile.Line, heapGet h.lines p = .ok (lineG l) ∧ l.id = p.toNat := by
  obtain ⟨l, hl⟩ := hG.get hp hl
  exact ⟨{ l with id := p.toNat }, hl, rfl⟩

theorem BlockTokOK.updateLine {fs : Modfile.FileSyntax} (hb : BlockTokOK fs.stmts) (id : Nat) (g : Modfile.Line → Modfile.Line) :
    BlockTokOK (fs.updateLine id g).stmts := by
  intro b hbm
  unfold Modfile.FileSyntax.updateLine at hbm
  simp only [List.mem_map] at hbm
  obtain ⟨s, hs, he⟩ := hbm
  cases s with
  | line l => simp only at he; split at he <;> cases he
  | lineBlock b0 => simp only [Modfile.Expr.lineBlock.injEq] at he; subst he; exact hb b0 hs
  | commentBlock _ => cases he
  | lparen _ => cases he
  | rparen _ => cases he

/-! ### frame lemmas for the typed entries -/

theorem REntsL.mono {α β : Type} {objs objs' : List α} {g : β → α} {id : β → Nat} {nl nl' : Nat}
    (ho : ∀ p v, heapGet objs p = .ok v → heapGet objs' p = .ok v) (hn : nl ≤ nl') :
    ∀ {ps : List Int} {xs : List β}, REntsL objs g id nl ps xs → REntsL objs' g id nl' ps xs
  | [], [], _ => trivial
  | _ :: _, _ :: _, r => ⟨⟨ho _ _ r.1.1, Nat.le_trans r.1.2 hn⟩, REntsL.mono ho hn r.2⟩
  | [], _ :: _, r => r.elim
  | _ :: _, [], r => r.elim

theorem REnts.mono {α β : Type} {objs objs' : List α} {g : β → α} {id : β → Nat} {nl nl' : Nat} {ps : List Int} {xs : List β}
    (ho : ∀ p v, heapGet objs p = .ok v → heapGet objs' p = .ok v) (hn : nl ≤ nl') (r : REnts objs g id nl ps xs) :
    REnts objs' g id nl' ps xs := ⟨r.rel.mono ho hn, r.nodup⟩

theorem ROpt.mono {α β : Type} {objs objs' : List α} {g : β → α} {id : β → Nat} {nl nl' : Nat} {p : Int} {x : Option β}
    (ho : ∀ p v, heapGet objs p = .ok v → heapGet objs' p = .ok v) (hn : nl ≤ nl') (r : ROpt objs g id nl p x) :
    ROpt objs' g id nl' p x := by
  cases x with
  | none => exact r
  | some x => exact ⟨ho _ _ r.1, Nat.le_trans r.2 hn⟩

theorem REntsL.length {α β : Type} {objs : List α} {g : β → α} {id : β → Nat} {nl : Nat} :
    ∀ {ps : List Int} {xs : List β}, REntsL objs g id nl ps xs → ps.length = xs.length
  | [], [], _ => rfl
  | _ :: _, _ :: _, r => by simp [REntsL.length r.2]
  | [], _ :: _, r => r.elim
  | _ :: _, [], r => r.elim

theorem REntsL.get {α β : Type} {objs : List α} {g : β → α} {id : β → Nat} {nl : Nat} :
    ∀ {ps : List Int} {xs : List β}, REntsL objs g id nl ps xs →
    ∀ (i : Nat) (p : Int) (x : β), ps[i]? = some p → xs[i]? = some x → heapGet objs p = .ok (g x) ∧ id x ≤ nl
  | _ :: _, _ :: _, r, 0, p, x, hp, hx => by
    simp only [List.getElem?_cons_zero, Option.some.injEq] at hp hx; subst hp hx; exact r.1
  | _ :: _, _ :: _, r, i + 1, p, x, hp, hx => by
    simp only [List.getElem?_cons_succ] at hp hx; exact REntsL.get r.2 i p x hp hx
  | [], [], _, _, _, _, hp, _ => by simp at hp
  | [], _ :: _, r, _, _, _, _, _ => r.elim
  | _ :: _, [], r, _, _, _, _, _ => r.elim

theorem REntsL.append {α β : Type} {objs : List α} {g : β → α} {id : β → Nat} {nl : Nat} :
    ∀ {ps qs : List Int} {xs ys : List β}, REntsL objs g id nl ps xs → REntsL objs g id nl qs ys →
      REntsL objs g id nl (ps ++ qs) (xs ++ ys)
  | [], _, [], _, _, r2 => r2
  | _ :: _, _, _ :: _, _, r1, r2 => ⟨r1.1, REntsL.append r1.2 r2⟩
  | [], _, _ :: _, _, r1, _ => r1.elim
  | _ :: _, _, [], _, r1, _ => r1.elim

/-- every pointer of a represented typed list is allocated -/
theorem REntsL.mem_alloc {α β : Type} {objs : List α} {g : β → α} {id : β → Nat} {nl : Nat} :
    ∀ {ps : List Int} {xs : List β}, REntsL objs g id nl ps xs → ∀ p ∈ ps, 0 < p ∧ p.toNat ≤ objs.length
  | [], [], _, p, hp => by cases hp
  | _ :: _, _ :: _, r, p, hp => by
    rcases List.mem_cons.1 hp with rfl | hp'
    · exact ⟨heapGet_pos r.1.1, heapGet_le_length r.1.1⟩
    · exact REntsL.mem_alloc r.2 p hp'
  | [], _ :: _, r, _, _ => r.elim
  | _ :: _, [], r, _, _ => r.elim

/-- `heapSet` at a pointer that is not in the list -/
theorem REntsL.setOther {α β : Type} {objs : List α} {g : β → α} {id : β → Nat} {nl : Nat} {p : Int} {w : α}
    (hw : heapGet objs p = .ok w) (v : α) :
    ∀ {ps : List Int} {xs : List β}, REntsL objs g id nl ps xs → p ∉ ps → REntsL (objs.set (p.toNat - 1) v) g id nl ps xs
  | [], [], _, _ => trivial
  | q :: ps, _ :: _, r, hn => by
    have hne : q ≠ p := fun e => hn (by rw [e]; exact List.mem_cons_self)
    refine ⟨⟨?_, r.1.2⟩, REntsL.setOther hw v r.2 (fun hm => hn (List.mem_cons_of_mem _ hm))⟩
    rw [heapGet_listSet_other _ hw hne]; exact r.1.1
  | [], _ :: _, r, _ => r.elim
  | _ :: _, [], r, _ => r.elim

/-- the object at position `i` of the list is overwritten by the embedding of `y` -/
theorem REntsL.setAt {α β : Type} {objs : List α} {g : β → α} {id : β → Nat} {nl : Nat} :
    ∀ {ps : List Int} {xs : List β}, REntsL objs g id nl ps xs → ps.Nodup →
    ∀ (i : Nat) (p : Int) (y : β), ps[i]? = some p → id y ≤ nl →
      REntsL (objs.set (p.toNat - 1) (g y)) g id nl ps (xs.set i y)
  | [], [], _, _, _, _, _, hp, _ => by simp at hp
  | q :: ps, x :: xs, r, hn, 0, p, y, hp, hy => by
    simp only [List.getElem?_cons_zero, Option.some.injEq] at hp; subst hp
    simp only [List.nodup_cons] at hn
    exact ⟨⟨heapGet_listSet_same _ r.1.1, hy⟩, r.2.setOther r.1.1 _ hn.1⟩
  | q :: ps, x :: xs, r, hn, i + 1, p, y, hp, hy => by
    simp only [List.getElem?_cons_succ] at hp
    simp only [List.nodup_cons] at hn
    have hne : q ≠ p := by
      intro e; subst e; exact hn.1 (List.mem_of_getElem? hp)
    obtain ⟨hpos, hlen⟩ := REntsL.mem_alloc r.2 p (List.mem_of_getElem? hp)
    refine ⟨⟨?_, r.1.2⟩, REntsL.setAt r.2 hn.2 i p y hp hy⟩
    have : ∃ w, heapGet objs p = .ok w := by
      have hlt : p.toNat - 1 < objs.length := by omega
      exact ⟨objs[p.toNat - 1], heapGet_ok_iff.2 ⟨hpos, List.getElem?_eq_getElem hlt⟩⟩
    obtain ⟨w, hw⟩ := this
    rw [heapGet_listSet_other _ hw hne]; exact r.1.1
  | [], _ :: _, r, _, _, _, _, _, _ => r.elim
  | _ :: _, [], r, _, _, _, _, _, _ => r.elim

/-! ## additions (v2): more heap lemmas, `setLineH`, file-level frame lemmas -/

/-! ### heapGet / heapSet with a pointer given as a natural number, repeated `heapSet` -/

theorem set_self_of_get {α : Type} {l : List α} {p : Int} {v : α} (h : heapGet l p = .ok v) : l.set (p.toNat - 1) v = l := by
  obtain ⟨_, hv⟩ := heapGet_ok_iff.1 h
  obtain ⟨hlt, he⟩ := List.getElem?_eq_some_iff.1 hv
  rw [← he]; exact List.set_getElem_self hlt

theorem set_self_of_get_nat {α : Type} {l : List α} {k : Nat} {v : α} (h : heapGet l (k : Int) = .ok v) : l.set (k - 1) v = l := by
  have := set_self_of_get h
  simpa using this

theorem heapSet_of_get_nat {α : Type} {l : List α} {k : Nat} {w : α} (v : α) (h : heapGet l (k : Int) = .ok w) :
    heapSet l (k : Int) v = .ok (l.set (k - 1) v) := by
  have := heapSet_of_get v h; simpa using this

theorem heapGet_listSet_same_nat {α : Type} {l : List α} {k : Nat} {w : α} (v : α) (h : heapGet l (k : Int) = .ok w) :
    heapGet (l.set (k - 1) v) (k : Int) = .ok v := by
  have := heapGet_listSet_same v h; simpa using this

/-- a second `heapSet` at the same pointer -/
theorem heapSet_listSet_same {α : Type} {l : List α} {p : Int} {w : α} (hg : heapGet l p = .ok w) (x y : α) :
    heapSet (l.set (p.toNat - 1) x) p y = .ok (l.set (p.toNat - 1) y) := by
  rw [heapSet_of_get y (heapGet_listSet_same x hg), List.set_set]

theorem heapSet_listSet_same_nat {α : Type} {l : List α} {k : Nat} {w : α} (hg : heapGet l (k : Int) = .ok w) (x y : α) :
    heapSet (l.set (k - 1) x) (k : Int) y = .ok (l.set (k - 1) y) := by
  rw [heapSet_of_get_nat y (heapGet_listSet_same_nat x hg), List.set_set]

/-- dereferencing nil (or a negative pointer) panics -/
theorem heapGet_nil {α : Type} (l : List α) {p : Int} (hp : p ≤ 0) : heapGet l p = .error .panic := by
  simp [heapGet, hp, throw, throwThe, MonadExceptOf.throw]

theorem heapGet_zero {α : Type} (l : List α) : heapGet l 0 = .error .panic := heapGet_nil l (Int.le_refl 0)

/-- an allocated pointer can be read -/
theorem heapGet_of_alloc {α : Type} {l : List α} {p : Int} (hp : 0 < p) (hl : p.toNat ≤ l.length) : ∃ v, heapGet l p = .ok v := by
  have hlt : p.toNat - 1 < l.length := by omega
  exact ⟨l[p.toNat - 1], heapGet_ok_iff.2 ⟨hp, List.getElem?_eq_getElem hlt⟩⟩

/-! ### small GoRt facts used by all edit ties -/

theorem idxL_zero_cons {α : Type} (a : α) (t : List α) : idxL (a :: t) 0 = .ok a := rfl
theorem idxL_one_cons {α : Type} (a b : α) (t : List α) : idxL (a :: b :: t) 1 = .ok b := rfl
theorem idxL_zero_nil {α : Type} : idxL ([] : List α) 0 = .error .panic := rfl

theorem setIdxL_zero_cons {α : Type} (a : α) (t : List α) (x : α) : setIdxL (a :: t) 0 x = .ok (x :: t) := by
  have : (0 : Int) ≤ 0 ∧ (0 : Int) < len (a :: t) := by simp [len_eq, -len_cons] <;> omega
  simp [setIdxL, this, pure, Except.pure, -len_cons]
theorem setIdxL_one_cons {α : Type} (a b : α) (t : List α) (x : α) : setIdxL (a :: b :: t) 1 x = .ok (a :: x :: t) := by
  have : (0 : Int) ≤ 1 ∧ (1 : Int) < len (a :: b :: t) := by simp [len_eq, -len_cons] <;> omega
  simp [setIdxL, this, pure, Except.pure, -len_cons]
theorem setIdxL_two_cons {α : Type} (a b c : α) (t : List α) (x : α) :
    setIdxL (a :: b :: c :: t) 2 x = .ok (a :: b :: x :: t) := by
  have : (0 : Int) ≤ 2 ∧ (2 : Int) < len (a :: b :: c :: t) := by simp [len_eq, -len_cons] <;> omega
  simp [setIdxL, this, pure, Except.pure, -len_cons]

theorem sliceTo_zero {α : Type} (v : List α) : sliceTo v 0 = .ok [] := by
  simp [sliceTo, len_eq, pure, Except.pure]

/-- `len` tests as list facts (use with `simp [-len_cons, …]`) -/
theorem len_gt_zero_iff {α : Type} (s : List α) : len s > 0 ↔ s ≠ [] := by
  cases s with
  | nil => simp [len_eq]
  | cons a t => simp [len_eq, -len_cons] <;> omega
theorem len_eq_zero_iff {α : Type} (s : List α) : len s = 0 ↔ s = [] := by
  cases s with
  | nil => simp [len_eq]
  | cons a t => simp [len_eq, -len_cons] <;> omega
theorem len_eq_one_iff {α : Type} (s : List α) : len s = 1 ↔ s.length = 1 := by simp [len_eq]; omega
theorem len_eq_two_iff {α : Type} (s : List α) : len s = 2 ↔ s.length = 2 := by simp [len_eq]; omega
theorem len_eq_five_iff {α : Type} (s : List α) : len s = 5 ↔ s.length = 5 := by simp [len_eq]; omega
theorem len_gt_one_iff {α : Type} (s : List α) : len s > 1 ↔ 2 ≤ s.length := by simp [len_eq]; omega
theorem len_ge_two_iff {α : Type} (s : List α) : len s ≥ 2 ↔ 2 ≤ s.length := by simp [len_eq]; omega
theorem len_ge_three_iff {α : Type} (s : List α) : len s ≥ 3 ↔ 3 ≤ s.length := by simp [len_eq]; omega

theorem fields_eq (s : Bytes) : GoRt.fields s = GoStrings.fields s := rfl
theorem trimPrefix_eq (s p : Bytes) : GoRt.trimPrefix s p = GoStrings.trimPrefix s p := rfl
theorem trimSpace_eq (s : Bytes) : GoRt.trimSpace s = GoStrings.trimSpace s := rfl

/-! ### `setLineH`: the heap after `heapSet` of the line at `p` to the embedding of `l` -/

def setLineH (h : Edit.Heap) (p : Int) (l : Modfile.Line) : Edit.Heap :=
  { h with lines := h.lines.set (p.toNat - 1) (lineG l) }

@[simp] theorem setLineH_lines (h : Edit.Heap) (p : Int) (l : Modfile.Line) :
    (setLineH h p l).lines = h.lines.set (p.toNat - 1) (lineG l) := rfl
@[simp] theorem setLineH_length (h : Edit.Heap) (p : Int) (l : Modfile.Line) :
    (setLineH h p l).lines.length = h.lines.length := by simp
@[simp] theorem setLineH_files (h : Edit.Heap) (p : Int) (l : Modfile.Line) : (setLineH h p l).files = h.files := rfl
@[simp] theorem setLineH_blocks (h : Edit.Heap) (p : Int) (l : Modfile.Line) : (setLineH h p l).blocks = h.blocks := rfl
@[simp] theorem setLineH_cbs (h : Edit.Heap) (p : Int) (l : Modfile.Line) : (setLineH h p l).cbs = h.cbs := rfl
@[simp] theorem setLineH_mods (h : Edit.Heap) (p : Int) (l : Modfile.Line) : (setLineH h p l).mods = h.mods := rfl
@[simp] theorem setLineH_works (h : Edit.Heap) (p : Int) (l : Modfile.Line) : (setLineH h p l).works = h.works := rfl
@[simp] theorem setLineH_requires (h : Edit.Heap) (p : Int) (l : Modfile.Line) : (setLineH h p l).requires = h.requires := rfl
@[simp] theorem setLineH_modules (h : Edit.Heap) (p : Int) (l : Modfile.Line) : (setLineH h p l).modules = h.modules := rfl
@[simp] theorem setLineH_gos (h : Edit.Heap) (p : Int) (l : Modfile.Line) : (setLineH h p l).gos = h.gos := rfl
@[simp] theorem setLineH_toolchains (h : Edit.Heap) (p : Int) (l : Modfile.Line) : (setLineH h p l).toolchains = h.toolchains := rfl
@[simp] theorem setLineH_godebugs (h : Edit.Heap) (p : Int) (l : Modfile.Line) : (setLineH h p l).godebugs = h.godebugs := rfl
@[simp] theorem setLineH_excludes (h : Edit.Heap) (p : Int) (l : Modfile.Line) : (setLineH h p l).excludes = h.excludes := rfl
@[simp] theorem setLineH_replaces (h : Edit.Heap) (p : Int) (l : Modfile.Line) : (setLineH h p l).replaces = h.replaces := rfl
@[simp] theorem setLineH_retracts (h : Edit.Heap) (p : Int) (l : Modfile.Line) : (setLineH h p l).retracts = h.retracts := rfl
@[simp] theorem setLineH_tools (h : Edit.Heap) (p : Int) (l : Modfile.Line) : (setLineH h p l).tools = h.tools := rfl
@[simp] theorem setLineH_uses (h : Edit.Heap) (p : Int) (l : Modfile.Line) : (setLineH h p l).uses = h.uses := rfl

/-- writing back what is there changes nothing -/
theorem setLineH_self {h : Edit.Heap} {p : Int} {l : Modfile.Line} (hg : heapGet h.lines p = .ok (lineG l)) : setLineH h p l = h := by
  unfold setLineH; rw [set_self_of_get hg]

theorem heapGet_setLineH_same {h : Edit.Heap} {p : Int} {l0 : Modfile.Line} (hg : heapGet h.lines p = .ok (lineG l0)) (l : Modfile.Line) :
    heapGet (setLineH h p l).lines p = .ok (lineG l) := heapGet_listSet_same _ hg

theorem heapGet_setLineH_other {h : Edit.Heap} {p q : Int} {l0 : Modfile.Line} (hg : heapGet h.lines p = .ok (lineG l0)) (l : Modfile.Line)
    (hq : q ≠ p) : heapGet (setLineH h p l).lines q = heapGet h.lines q := heapGet_listSet_other _ hg hq

/-- `RepSyn.setLine` in terms of `setLineH` -/
theorem RepSyn.setLineH {h : Edit.Heap} {x : Int} {fs : Modfile.FileSyntax} (r : RepSyn h x fs) {p : Int} {l0 : Modfile.Line}
    {g : Modfile.Line → Modfile.Line} (hg : IdEquiv g) (hget : heapGet h.lines p = .ok (lineG l0)) :
    RepSyn (FnEditRep.setLineH h p (g l0)) x (fs.updateLine p.toNat g) := r.setLine hg hget

theorem LinesG.setLineH {h : Edit.Heap} (hG : LinesG h) (p : Int) (l : Modfile.Line) : LinesG (FnEditRep.setLineH h p l) :=
  hG.setLine _ l

/-! ### the line functions of the edit model are id-equivariant -/

theorem IdEquiv_markRemoved :
    IdEquiv (fun l => { l with token := [], comments := { l.comments with suffix := [] } }) := fun _ _ => rfl

theorem IdEquiv_updateTok (tokens : List Bytes) :
    IdEquiv (fun l => { l with token := if l.inBlock then tokens.drop 1 else tokens }) := fun _ _ => rfl

theorem IdEquiv_setVersionLine (v : Bytes) : IdEquiv (Modfile.Edit.setVersionLine v) := by
  intro l i
  obtain ⟨id, ⟨bef, suf, aft⟩, st, tok, ib, en⟩ := l
  rcases tok with _ | ⟨a, _ | ⟨b, _ | ⟨c, t⟩⟩⟩ <;> cases ib <;> rcases bef with _ | ⟨c1, _ | ⟨c2, bt⟩⟩ <;>
    (try rcases c1 with ⟨cs, _ | ⟨x, xs⟩, cf⟩) <;> simp [Modfile.Edit.setVersionLine]

theorem IdEquiv_setIndirectLine (b : Bool) : IdEquiv (Modfile.Edit.setIndirectLine b) := by
  intro l i
  obtain ⟨id, ⟨bef, suf, aft⟩, st, tok, ib, en⟩ := l
  have hI : Modfile.isIndirect ({ id := i, comments := ⟨bef, suf, aft⟩, start := st, token := tok, inBlock := ib, «end» := en } : Modfile.Line)
      = Modfile.isIndirect ({ id := id, comments := ⟨bef, suf, aft⟩, start := st, token := tok, inBlock := ib, «end» := en } : Modfile.Line) := rfl
  simp only [Modfile.Edit.setIndirectLine, hI]
  generalize Modfile.isIndirect _ = q
  cases suf with
  | nil => cases b <;> cases q <;> rfl
  | cons c rest =>
    cases b <;> cases q <;> simp
    split <;> rfl

/-! ### file-level frame lemmas -/

/-- the line object at `p` is overwritten by the image of its content under an id-equivariant `g`: the file now represents
    the model with `syn := syn.updateLine p g` (typed entries untouched) -/
theorem RepFAt.setLine {h : Edit.Heap} {o : Edit.File} {e : Modfile.Edit.EFile} (R : RepFAt h o e) {p : Int} {l0 : Modfile.Line}
    {g : Modfile.Line → Modfile.Line} (hg : IdEquiv g) (hget : heapGet h.lines p = .ok (lineG l0)) :
    RepFAt (FnEditRep.setLineH h p (g l0)) o { e with f := { e.f with syn := e.f.syn.updateLine p.toNat g } } where
  syn := R.syn.setLineH hg hget
  tok := R.tok.updateLine _ _
  linesG := R.linesG.setLineH _ _
  next := by simp [R.next]
  module := by simpa using R.module
  go := by simpa using R.go
  toolchain := by simpa using R.toolchain
  godebug := by simpa using R.godebug
  require := by simpa using R.require
  exclude := by simpa using R.exclude
  replace := by simpa using R.replace
  retract := by simpa using R.retract
  tool := by simpa using R.tool

theorem RepWAt.setLine {h : Edit.Heap} {o : Edit.WorkFile} {e : Modfile.Edit.EWork} (R : RepWAt h o e) {p : Int} {l0 : Modfile.Line}
    {g : Modfile.Line → Modfile.Line} (hg : IdEquiv g) (hget : heapGet h.lines p = .ok (lineG l0)) :
    RepWAt (FnEditRep.setLineH h p (g l0)) o { e with f := { e.f with syn := e.f.syn.updateLine p.toNat g } } where
  syn := R.syn.setLineH hg hget
  tok := R.tok.updateLine _ _
  linesG := R.linesG.setLineH _ _
  next := by simp [R.next]
  go := by simpa using R.go
  toolchain := by simpa using R.toolchain
  godebug := by simpa using R.godebug
  use := by simpa using R.use
  replace := by simpa using R.replace

/-- a typed entry's line: nil or an allocated line object, which is an embedding -/
theorem LinesG.ofId {h : Edit.Heap} (hG : LinesG h) {id : Nat} (h0 : id ≠ 0) (hl : id ≤ h.lines.length) :
    ∃ l : Modfile.Line, heapGet h.lines (id : Int) = .ok (lineG l) ∧ l.id = id := by
  obtain ⟨l, hl', hid⟩ := hG.getId (p := (id : Int)) (by omega) (by simpa using hl)
  exact ⟨l, hl', by simpa using hid⟩

/-- a `Require` object is overwritten by the embedding of `y` -/
theorem RepFAt.setRequire {h : Edit.Heap} {o : Edit.File} {e : Modfile.Edit.EFile} (R : RepFAt h o e) {i : Nat} {r : Int}
    (hi : o.Require[i]? = some r) (y : Modfile.Require) (hy : y.lineId ≤ h.lines.length) :
    RepFAt { h with requires := h.requires.set (r.toNat - 1) (requireG y) } o
      { e with f := { e.f with require := e.f.require.set i y } } where
  syn := RepSyn.congr (h := h) (h' := { h with requires := h.requires.set (r.toNat - 1) (requireG y) }) rfl rfl rfl rfl R.syn
  tok := R.tok
  linesG := LinesG.congr (h := h) (h' := { h with requires := h.requires.set (r.toNat - 1) (requireG y) }) R.linesG rfl
  next := R.next
  module := R.module
  go := R.go
  toolchain := R.toolchain
  godebug := R.godebug
  require := ⟨R.require.rel.setAt R.require.nodup i r y hi hy, R.require.nodup⟩
  exclude := R.exclude
  replace := R.replace
  retract := R.retract
  tool := R.tool

/-! ## additions (v3): `load_rep` -/

/-! ### `load_rep`: the driver's `load` of a file represents the model's `Edit.load` -/

/-- the statement map of `Edit.shiftSyntax` -/
def shiftStmt : Modfile.Expr → Modfile.Expr
  | .line l => .line (Modfile.Edit.shiftLine l)
  | .lineBlock b => .lineBlock { b with lines := b.lines.map Modfile.Edit.shiftLine }
  | x => x

theorem shiftSyntax_stmts (fs : Modfile.FileSyntax) : (Modfile.Edit.shiftSyntax fs).stmts = fs.stmts.map shiftStmt := by
  unfold Modfile.Edit.shiftSyntax
  simp only
  apply List.map_congr_left
  intro x _
  cases x <;> rfl

theorem treeIds_map_shift (es : List Modfile.Expr) : treeIds (es.map shiftStmt) = (treeIds es).map (· + 1) := by
  induction es with
  | nil => rfl
  | cons x xs ih =>
    rw [List.map_cons, Modfile.Edit.treeIds_cons, Modfile.Edit.treeIds_cons x xs, ih, List.map_append]
    congr 1
    cases x <;> simp [shiftStmt, treeIds, Modfile.Edit.loc, Modfile.Edit.locStmt, Modfile.Edit.shiftLine, List.map_map, Function.comp_def]

/-- statements the loader represents: comment blocks, lines, line blocks -/
def StmtShape (es : List Modfile.Expr) : Prop :=
  ∀ e ∈ es, (∃ c, e = .commentBlock c) ∨ (∃ l, e = .line l) ∨ (∃ b, e = .lineBlock b)

/-- allocated objects of the syntax lists are kept -/
structure HeapLe (h h' : Edit.Heap) : Prop where
  lines : ∀ p v, heapGet h.lines p = .ok v → heapGet h'.lines p = .ok v
  blocks : ∀ p v, heapGet h.blocks p = .ok v → heapGet h'.blocks p = .ok v
  cbs : ∀ p v, heapGet h.cbs p = .ok v → heapGet h'.cbs p = .ok v

theorem HeapLe.refl (h : Edit.Heap) : HeapLe h h := ⟨fun _ _ x => x, fun _ _ x => x, fun _ _ x => x⟩
theorem HeapLe.trans {a b c : Edit.Heap} (h1 : HeapLe a b) (h2 : HeapLe b c) : HeapLe a c :=
  ⟨fun p v x => h2.lines p v (h1.lines p v x), fun p v x => h2.blocks p v (h1.blocks p v x), fun p v x => h2.cbs p v (h1.cbs p v x)⟩

theorem RStmts.le {h h' : Edit.Heap} (hl : HeapLe h h') {es : List Edit.Expr} {ss : List Modfile.Expr} (r : RStmts h es ss) :
    RStmts h' es ss := r.mono hl.lines hl.blocks hl.cbs
theorem RLines.le {h h' : Edit.Heap} (hl : HeapLe h h') {ps : List Int} {ls : List Modfile.Line} (r : RLines h ps ls) :
    RLines h' ps ls := r.mono hl.lines

/-- every entry of the id map sends an id to the pointer `id + 1` -/
def IdsOK (ids : List (Nat × Int)) : Prop := ∀ q ∈ ids, q.2 = ((q.1 + 1 : Nat) : Int)

theorem ptrOf_of_mem {ids : List (Nat × Int)} (hok : IdsOK ids) {id : Nat} (hm : id ∈ ids.map (·.1)) :
    ptrOf ids id = ((id + 1 : Nat) : Int) := by
  unfold ptrOf
  induction ids with
  | nil => cases hm
  | cons q t ih =>
    obtain ⟨a, p⟩ := q
    simp only [List.lookup]
    by_cases e : id = a
    · subst e
      simp only [beq_self_eq_true, Option.getD_some]
      exact hok (id, p) List.mem_cons_self
    · have : (id == a) = false := by simpa using e
      simp only [this]
      apply ih (fun q hq => hok q (List.mem_cons_of_mem _ hq))
      simp only [List.map_cons, List.mem_cons] at hm
      rcases hm with hm | hm
      · exact absurd hm e
      · exact hm

/-- one loading step: objects kept, only the syntax lists grow, the id map stays right and keeps its keys -/
structure LdStep (s s' : Ld) : Prop where
  le : HeapLe s.h s'.h
  frame : s'.h = { s.h with lines := s'.h.lines, blocks := s'.h.blocks, cbs := s'.h.cbs }
  idsOK : IdsOK s.ids → IdsOK s'.ids
  keys : ∀ id, id ∈ s.ids.map (·.1) → id ∈ s'.ids.map (·.1)
  blocksLen : s.h.blocks.length ≤ s'.h.blocks.length
  linesG : LinesG s.h → LinesG s'.h

theorem LdStep.refl (s : Ld) : LdStep s s := ⟨HeapLe.refl _, rfl, fun x => x, fun _ x => x, Nat.le_refl _, fun x => x⟩
theorem LdStep.trans {a b c : Ld} (h1 : LdStep a b) (h2 : LdStep b c) : LdStep a c where
  le := h1.le.trans h2.le
  frame := by
    have e1 := h1.frame; have e2 := h2.frame
    rw [e2, e1]
  idsOK := fun x => h2.idsOK (h1.idsOK x)
  keys := fun id x => h2.keys id (h1.keys id x)
  blocksLen := Nat.le_trans h1.blocksLen h2.blocksLen
  linesG := fun x => h2.linesG (h1.linesG x)

theorem Ld.line_spec (s : Ld) (l : Modfile.Line) (hid : l.id = s.h.lines.length) :
    LdStep s (s.line l).1 ∧ RLine (s.line l).1.h (s.line l).2 (Modfile.Edit.shiftLine l) ∧
      (s.line l).1.h.lines.length = s.h.lines.length + 1 ∧ l.id ∈ (s.line l).1.ids.map (·.1) ∧
      (s.line l).1.h.blocks = s.h.blocks := by
  refine ⟨⟨⟨fun p v x => heapGet_alloc_old _ x, fun _ _ x => x, fun _ _ x => x⟩, rfl, ?_, ?_, Nat.le_refl _, fun hG => hG.allocLine l⟩, ⟨?_, ?_⟩, ?_, ?_, rfl⟩
  · intro hok q hq
    rcases List.mem_cons.1 hq with rfl | hq
    · simp [Drv.GenEdit.Ld.line, hid]
    · exact hok q hq
  · intro id hm
    exact List.mem_cons_of_mem _ hm
  · exact heapGet_alloc_new _ _
  · simp [Drv.GenEdit.Ld.line, Modfile.Edit.shiftLine, hid]
  · simp [Drv.GenEdit.Ld.line]
  · simp [Drv.GenEdit.Ld.line]

theorem Ld.lines_spec : ∀ (ls : List Modfile.Line) (s : Ld) (k : Nat), s.h.lines.length = k →
    ls.map (·.id) = List.range' k ls.length →
    LdStep s (s.lines ls).1 ∧ RLines (s.lines ls).1.h (s.lines ls).2 (ls.map Modfile.Edit.shiftLine) ∧
      (s.lines ls).1.h.lines.length = k + ls.length ∧ (∀ l ∈ ls, l.id ∈ (s.lines ls).1.ids.map (·.1)) ∧
      (s.lines ls).1.h.blocks = s.h.blocks
  | [], s, k, hk, _ => ⟨LdStep.refl s, trivial, (by simpa [Drv.GenEdit.Ld.lines] using hk), (fun _ h => nomatch h), rfl⟩
  | l :: rest, s, k, hk, hids => by
    simp only [List.map_cons, List.length_cons, List.range'_succ, List.cons.injEq] at hids
    obtain ⟨h1, h2⟩ := Ld.line_spec s l (by rw [hk]; exact hids.1)
    obtain ⟨h2, h3, h4, h5⟩ := h2
    obtain ⟨g1, g2, g3, g4, g5⟩ := Ld.lines_spec rest (s.line l).1 (k + 1) (by rw [h3, hk]) hids.2
    simp only [Drv.GenEdit.Ld.lines]
    refine ⟨h1.trans g1, ⟨h2.mono g1.le.lines, g2⟩, (by rw [g3]; simp; omega), ?_, (by rw [g5, h5])⟩
    intro l' hl'
    rcases List.mem_cons.1 hl' with rfl | hl'
    · exact g1.keys _ h4
    · exact g4 l' hl'

theorem range'_split {l1 l2 : List Nat} {k : Nat} (h : l1 ++ l2 = List.range' k (l1 ++ l2).length) :
    l1 = List.range' k l1.length ∧ l2 = List.range' (k + l1.length) l2.length := by
  rw [List.length_append, ← List.range'_append_1] at h
  exact List.append_inj h (by simp)

theorem treeIds_single_line (l : Modfile.Line) : treeIds [Modfile.Expr.line l] = [l.id] := rfl
theorem treeIds_single_block (b : Modfile.LineBlock) : treeIds [Modfile.Expr.lineBlock b] = b.lines.map (·.id) := by
  simp [treeIds, Modfile.Edit.loc, Modfile.Edit.locStmt, List.map_map, Function.comp_def]
theorem treeIds_single_cb (c : Modfile.CommentBlock) : treeIds [Modfile.Expr.commentBlock c] = [] := rfl

theorem Ld.stmt_block (s : Ld) (b : Modfile.LineBlock) :
    s.stmt (.lineBlock b) =
      ({ (s.lines b.lines).1 with
          h := { (s.lines b.lines).1.h with blocks := (s.lines b.lines).1.h.blocks ++ [blockG b (s.lines b.lines).2] } },
       .LineBlock (((s.lines b.lines).1.h.blocks.length + 1 : Nat) : Int)) := rfl

/-- what loading one statement does -/
structure StmtSpec (s : Ld) (x : Modfile.Expr) (k : Nat) : Prop where
  step : LdStep s (s.stmt x).1
  rel : RExpr (s.stmt x).1.h (s.stmt x).2 (shiftStmt x)
  len : (s.stmt x).1.h.lines.length = k + (treeIds [x]).length
  keys : ∀ id ∈ treeIds [x], id ∈ (s.stmt x).1.ids.map (·.1)
  bptr : ∀ p ∈ blockPtrs [(s.stmt x).2], s.h.blocks.length < p.toNat ∧ p.toNat ≤ (s.stmt x).1.h.blocks.length

theorem Ld.stmt_spec (s : Ld) (x : Modfile.Expr) (k : Nat) (hk : s.h.lines.length = k)
    (hshape : (∃ c, x = .commentBlock c) ∨ (∃ l, x = .line l) ∨ (∃ b, x = .lineBlock b))
    (hids : treeIds [x] = List.range' k (treeIds [x]).length) : StmtSpec s x k := by
  rcases hshape with ⟨c, rfl⟩ | ⟨l, rfl⟩ | ⟨b, rfl⟩
  · refine ⟨⟨⟨fun _ _ x => x, fun _ _ x => x, fun p v x => heapGet_alloc_old _ x⟩, rfl, fun x => x, fun _ x => x, Nat.le_refl _, fun x => x⟩, ?_, ?_, ?_, ?_⟩
    · exact heapGet_alloc_new _ _
    · simpa [Drv.GenEdit.Ld.stmt, treeIds_single_cb] using hk
    · intro id hid; cases hid
    · intro p hp; simp [Drv.GenEdit.Ld.stmt, blockPtrs] at hp
  · have hid : l.id = s.h.lines.length := by
      rw [treeIds_single_line] at hids
      simp at hids
      omega
    obtain ⟨h1, h2, h3, h4, h5⟩ := Ld.line_spec s l hid
    refine ⟨h1, h2, ?_, ?_, ?_⟩
    · simp only [Drv.GenEdit.Ld.stmt, treeIds_single_line, List.length_singleton]; rw [h3, hk]
    · intro id hm; rw [treeIds_single_line] at hm; simp only [List.mem_singleton] at hm; subst hm; exact h4
    · intro p hp; simp [Drv.GenEdit.Ld.stmt, blockPtrs] at hp
  · rw [treeIds_single_block] at hids
    simp only [List.length_map] at hids
    obtain ⟨g1, g2, g3, g4, g5⟩ := Ld.lines_spec b.lines s k hk hids
    refine ⟨?_, ?_, ?_, ?_, ?_⟩ <;> rw [Ld.stmt_block]
    · refine g1.trans ⟨⟨fun _ _ x => x, fun p v x => heapGet_alloc_old _ x, fun _ _ x => x⟩, rfl, fun x => x, fun _ x => x, ?_, fun x => x⟩
      simp
    · refine ⟨(s.lines b.lines).2, heapGet_alloc_new _ _, ?_⟩
      exact RLines.mono (h := (s.lines b.lines).1.h)
        (h' := { (s.lines b.lines).1.h with blocks := (s.lines b.lines).1.h.blocks ++ [blockG b (s.lines b.lines).2] })
        (fun _ _ x => x) g2
    · simp only [treeIds_single_block, List.length_map]
      exact g3
    · intro id hm
      rw [treeIds_single_block] at hm
      obtain ⟨l, hl, rfl⟩ := List.mem_map.1 hm
      exact g4 l hl
    · intro p hp
      simp only [blockPtrs, List.mem_singleton] at hp
      subst hp
      simp only [List.length_append, List.length_singleton, g5]
      omega

theorem blockPtrs_cons (e : Edit.Expr) (es : List Edit.Expr) : blockPtrs (e :: es) = blockPtrs [e] ++ blockPtrs es := by
  cases e <;> rfl

/-- what loading a statement list does -/
structure StmtsSpec (s : Ld) (es : List Modfile.Expr) (k : Nat) : Prop where
  step : LdStep s (s.stmts es).1
  rel : RStmts (s.stmts es).1.h (s.stmts es).2 (es.map shiftStmt)
  len : (s.stmts es).1.h.lines.length = k + (treeIds es).length
  keys : ∀ id ∈ treeIds es, id ∈ (s.stmts es).1.ids.map (·.1)
  bptr : ∀ p ∈ blockPtrs (s.stmts es).2, s.h.blocks.length < p.toNat ∧ p.toNat ≤ (s.stmts es).1.h.blocks.length
  nodup : (blockPtrs (s.stmts es).2).Nodup

theorem Ld.stmts_spec : ∀ (es : List Modfile.Expr) (s : Ld) (k : Nat), s.h.lines.length = k → StmtShape es →
    treeIds es = List.range' k (treeIds es).length → StmtsSpec s es k
  | [], s, k, hk, _, _ => ⟨LdStep.refl s, trivial, (by simpa [Drv.GenEdit.Ld.stmts, treeIds, Modfile.Edit.loc] using hk),
      (fun _ h => nomatch h), (fun _ h => nomatch h), List.nodup_nil⟩
  | x :: xs, s, k, hk, hshape, hids => by
    rw [Modfile.Edit.treeIds_cons] at hids
    obtain ⟨hi1, hi2⟩ := range'_split hids
    have A := Ld.stmt_spec s x k hk (hshape x List.mem_cons_self) hi1
    have B := Ld.stmts_spec xs (s.stmt x).1 (k + (treeIds [x]).length) A.len
      (fun e he => hshape e (List.mem_cons_of_mem _ he)) hi2
    have e1 : (s.stmts (x :: xs)).1 = ((s.stmt x).1.stmts xs).1 := rfl
    have e2 : (s.stmts (x :: xs)).2 = (s.stmt x).2 :: ((s.stmt x).1.stmts xs).2 := rfl
    refine ⟨?_, ?_, ?_, ?_, ?_, ?_⟩
    · rw [e1]; exact A.step.trans B.step
    · rw [e1, e2]; exact ⟨A.rel.mono B.step.le.lines B.step.le.blocks B.step.le.cbs, B.rel⟩
    · rw [e1, B.len, Modfile.Edit.treeIds_cons x xs, List.length_append]; omega
    · intro id hm
      rw [Modfile.Edit.treeIds_cons] at hm
      rw [e1]
      rcases List.mem_append.1 hm with hm | hm
      · exact B.step.keys id (A.keys id hm)
      · exact B.keys id hm
    · intro p hp
      rw [e2, blockPtrs_cons] at hp
      rw [e1]
      rcases List.mem_append.1 hp with hp | hp
      · have := A.bptr p hp; have := B.step.blocksLen; omega
      · have := B.bptr p hp; have := A.step.blocksLen; omega
    · rw [e2, blockPtrs_cons]
      refine List.nodup_append.2 ⟨?_, B.nodup, ?_⟩
      · cases (s.stmt x).2 <;> simp [blockPtrs]
      · intro a ha b hb hab
        subst hab
        have := A.bptr a ha; have := B.bptr a hb; omega

/-! the typed part of `load` -/

/-- the pointers `k+1, …, k+n` -/
def ptrsFrom : Nat → Nat → List Int
  | _, 0 => []
  | k, n + 1 => ((k + 1 : Nat) : Int) :: ptrsFrom (k + 1) n

/-- the local `alloc` of `load`: the objects are appended, the pointers are their positions -/
def allocAll {α : Type} (l : List α) (xs : List α) : List Int × List α :=
  xs.foldl (fun (acc : List Int × List α) x => let (p, l') := heapAlloc acc.2 x; (acc.1 ++ [p], l')) ([], l)

theorem allocAll_aux {α : Type} : ∀ (xs : List α) (ps : List Int) (l : List α),
    xs.foldl (fun (acc : List Int × List α) x => let (p, l') := heapAlloc acc.2 x; (acc.1 ++ [p], l')) (ps, l) =
      (ps ++ ptrsFrom l.length xs.length, l ++ xs)
  | [], ps, l => by simp [ptrsFrom]
  | x :: xs, ps, l => by
    rw [List.foldl_cons]
    show List.foldl _ (ps ++ [((l.length + 1 : Nat) : Int)], l ++ [x]) xs = _
    rw [allocAll_aux xs]
    simp [ptrsFrom]

theorem allocAll_eq {α : Type} (l xs : List α) : allocAll l xs = (ptrsFrom l.length xs.length, l ++ xs) := by
  unfold allocAll; rw [allocAll_aux]; simp

theorem ptrsFrom_gt : ∀ (k n : Nat) (p : Int), p ∈ ptrsFrom k n → (k : Int) < p
  | _, 0, _, h => nomatch h
  | k, n + 1, p, h => by
    rcases List.mem_cons.1 h with rfl | h
    · omega
    · have := ptrsFrom_gt (k + 1) n p h; omega

theorem ptrsFrom_nodup : ∀ (k n : Nat), (ptrsFrom k n).Nodup
  | _, 0 => List.nodup_nil
  | k, n + 1 => by
    refine List.nodup_cons.2 ⟨fun h => ?_, ptrsFrom_nodup (k + 1) n⟩
    have := ptrsFrom_gt (k + 1) n _ h; omega

theorem REntsL_alloc {α β : Type} (g : β → α) (id : β → Nat) (nl : Nat) : ∀ (ys : List β) (l t : List α),
    (∀ y ∈ ys, id y ≤ nl) → REntsL (l ++ ys.map g ++ t) g id nl (ptrsFrom l.length ys.length) ys
  | [], _, _, _ => trivial
  | y :: ys, l, t, hle => by
    refine ⟨⟨?_, hle y List.mem_cons_self⟩, ?_⟩
    · have : l ++ List.map g (y :: ys) ++ t = l ++ [g y] ++ (ys.map g ++ t) := by simp
      rw [this]
      exact heapGet_append_old _ (heapGet_alloc_new l (g y))
    · have h2 := REntsL_alloc g id nl ys (l ++ [g y]) t (fun z hz => hle z (List.mem_cons_of_mem _ hz))
      simpa using h2

/-- `f.Module`, `f.Go`, `f.Toolchain` of `load` -/
def optAlloc {α β : Type} (l : List α) (mk : β → α) : Option β → Int × List α
  | none => (0, l)
  | some x => heapAlloc l (mk x)

theorem ROpt_alloc {α β : Type} (g : β → α) (id : β → Nat) (nl : Nat) (l : List α) (mk : β → α) (sh : β → β) (x : Option β)
    (hmk : ∀ y, x = some y → mk y = g (sh y) ∧ id (sh y) ≤ nl) :
    ROpt (optAlloc l mk x).2 g id nl (optAlloc l mk x).1 (x.map sh) := by
  cases x with
  | none => rfl
  | some y =>
    obtain ⟨h1, h2⟩ := hmk y rfl
    refine ⟨?_, h2⟩
    simp only [optAlloc, heapAlloc_fst, heapAlloc_snd, h1]
    exact heapGet_alloc_new _ _

/-- `Drv.GenEdit.load` with its local definitions named -/
def load' (f : Modfile.File) : Edit.Heap × Int :=
  let r := ({} : Ld).stmts f.syn.stmts
  let h0 := r.1.h
  let pt := ptrOf r.1.ids
  let fsObj : Edit.FileSyntax := { Name := f.syn.name, Comments := comsG f.syn.comments, Stmt := r.2 }
  let mo := optAlloc h0.modules (fun m : Modfile.Module => ({ Mod := mvG m.mod, Deprecated := m.deprecated, Syntax := pt m.lineId } : Edit.Module)) f.module
  let go := optAlloc h0.gos (fun g : Modfile.Go => ({ Version := g.version, Syntax := pt g.lineId } : Edit.Go)) f.go
  let tc := optAlloc h0.toolchains (fun t : Modfile.Toolchain => ({ Name := t.name, Syntax := pt t.lineId } : Edit.Toolchain)) f.toolchain
  let gd := allocAll h0.godebugs (f.godebug.map fun g => ({ Key := g.key, Value := g.value, Syntax := pt g.lineId } : Edit.Godebug))
  let rq := allocAll h0.requires (f.require.map fun r => ({ Mod := mvG r.mod, Indirect := r.indirect, Syntax := pt r.lineId } : Edit.Require))
  let ex := allocAll h0.excludes (f.exclude.map fun r => ({ Mod := mvG r.mod, Syntax := pt r.lineId } : Edit.Exclude))
  let rp := allocAll h0.replaces (f.replace.map fun r => ({ Old := mvG r.old, New := mvG r.new, Syntax := pt r.lineId } : Edit.Replace))
  let rt := allocAll h0.retracts (f.retract.map fun r => ({ VersionInterval := { Low := r.interval.low, High := r.interval.high }, Rationale := r.rationale, Syntax := pt r.lineId } : Edit.Retract))
  let tl := allocAll h0.tools (f.tool.map fun t => ({ Path := t.path, Syntax := pt t.lineId } : Edit.Tool))
  let o : Edit.File := { Module := mo.1, Go := go.1, Toolchain := tc.1, Godebug := gd.1, Require := rq.1, Exclude := ex.1,
                         Replace := rp.1, Retract := rt.1, Tool := tl.1, Syntax := ((h0.files.length + 1 : Nat) : Int) }
  ({ h0 with files := h0.files ++ [fsObj], modules := mo.2, gos := go.2, toolchains := tc.2, godebugs := gd.2, requires := rq.2,
             excludes := ex.2, replaces := rp.2, retracts := rt.2, tools := tl.2, mods := h0.mods ++ [o] },
   ((h0.mods.length + 1 : Nat) : Int))

theorem load_eq_load' (f : Modfile.File) : load f = load' f := by
  unfold Drv.GenEdit.load load'
  cases f.module <;> cases f.go <;> cases f.toolchain <;> rfl

theorem REnts_allocAll {α β : Type} (g : β → α) (id : β → Nat) (nl : Nat) (l : List α) (mk : β → α) (sh : β → β) (xs : List β)
    (hmk : ∀ y ∈ xs, mk y = g (sh y) ∧ id (sh y) ≤ nl) :
    REnts (allocAll l (xs.map mk)).2 g id nl (allocAll l (xs.map mk)).1 (xs.map sh) := by
  rw [allocAll_eq]
  have e : xs.map mk = (xs.map sh).map g := by
    rw [List.map_map]; exact List.map_congr_left fun y hy => (hmk y hy).1
  refine ⟨?_, ptrsFrom_nodup _ _⟩
  have := REntsL_alloc g id nl (xs.map sh) l [] (by
    intro y hy
    obtain ⟨z, hz, rfl⟩ := List.mem_map.1 hy
    exact (hmk z hz).2)
  simp only [List.append_nil, List.length_map] at this ⊢
  rw [e]; exact this

/-- the largest line id -/
theorem maxId_eq (fs : Modfile.FileSyntax) : Modfile.Edit.maxId fs = (treeIds fs.stmts).foldl Nat.max 0 := by
  unfold Modfile.Edit.maxId treeIds
  rw [Modfile.Edit.allLines_eq_loc, List.foldl_map, List.foldl_map]

theorem foldl_max_range (n : Nat) : ((List.range n).map (· + 1)).foldl Nat.max 0 = n := by
  induction n with
  | zero => rfl
  | succ n ih =>
    rw [List.range_succ, List.map_append, List.foldl_append, ih]
    simp [Nat.max_def]

/-- what `load_rep` asks of the file: the statements are comment blocks, lines and blocks; the line ids are `0, 1, …` in
    source order (the parser's numbering); blocks have a verb; every typed entry points to a line of the tree -/
structure LoadOK (f : Modfile.File) : Prop where
  shape : StmtShape f.syn.stmts
  ids : treeIds f.syn.stmts = List.range (treeIds f.syn.stmts).length
  tok : BlockTokOK f.syn.stmts
  module : ∀ m, f.module = some m → m.lineId ∈ treeIds f.syn.stmts
  go : ∀ g, f.go = some g → g.lineId ∈ treeIds f.syn.stmts
  toolchain : ∀ t, f.toolchain = some t → t.lineId ∈ treeIds f.syn.stmts
  godebug : ∀ g ∈ f.godebug, g.lineId ∈ treeIds f.syn.stmts
  require : ∀ r ∈ f.require, r.lineId ∈ treeIds f.syn.stmts
  exclude : ∀ r ∈ f.exclude, r.lineId ∈ treeIds f.syn.stmts
  replace : ∀ r ∈ f.replace, r.lineId ∈ treeIds f.syn.stmts
  retract : ∀ r ∈ f.retract, r.lineId ∈ treeIds f.syn.stmts
  tool : ∀ t ∈ f.tool, t.lineId ∈ treeIds f.syn.stmts

theorem BlockTokOK_shift {es : List Modfile.Expr} (h : BlockTokOK es) : BlockTokOK (es.map shiftStmt) := by
  intro b hb
  obtain ⟨x, hx, he⟩ := List.mem_map.1 hb
  cases x with
  | lineBlock b0 => simp only [shiftStmt, Modfile.Expr.lineBlock.injEq] at he; subst he; exact h b0 hx
  | line l => cases he
  | commentBlock _ => cases he
  | lparen _ => cases he
  | rparen _ => cases he

/-- **the driver's `load` represents the model's `Edit.load`**: pointers are the renumbered ids (`id + 1`) -/
theorem load_rep (f : Modfile.File) (ok : LoadOK f) : RepF (load f).1 (load f).2 (Modfile.Edit.load f) := by
  rw [load_eq_load']
  have hids : treeIds f.syn.stmts = List.range' 0 (treeIds f.syn.stmts).length := by
    rw [← List.range_eq_range']; exact ok.ids
  have S := Ld.stmts_spec f.syn.stmts {} 0 rfl ok.shape hids
  have hok : IdsOK (({} : Ld).stmts f.syn.stmts).1.ids := S.step.idsOK (fun _ h => nomatch h)
  have hlen : (({} : Ld).stmts f.syn.stmts).1.h.lines.length = (treeIds f.syn.stmts).length := by rw [S.len]; omega
  have hpt : ∀ id, id ∈ treeIds f.syn.stmts →
      ptrOf (({} : Ld).stmts f.syn.stmts).1.ids id = ((id + 1 : Nat) : Int) ∧
      id + 1 ≤ (({} : Ld).stmts f.syn.stmts).1.h.lines.length := by
    intro id hm
    refine ⟨ptrOf_of_mem hok (S.keys id hm), ?_⟩
    rw [hlen]
    rw [ok.ids] at hm
    have := List.mem_range.1 hm
    omega
  refine ⟨_, heapGet_alloc_new _ _, ?_⟩
  refine
    { syn := ⟨(({} : Ld).stmts f.syn.stmts).2, heapGet_alloc_new _ _, ?_, S.nodup, ?_⟩
      tok := by rw [Modfile.Edit.load]; simp only [shiftSyntax_stmts]; exact BlockTokOK_shift ok.tok
      linesG := S.step.linesG (fun _ h => nomatch h)
      next := ?_
      module := ?_, go := ?_, toolchain := ?_, godebug := ?_, require := ?_, exclude := ?_, replace := ?_, retract := ?_, tool := ?_ }
  · show RStmts _ _ (Modfile.Edit.shiftSyntax f.syn).stmts
    rw [shiftSyntax_stmts]
    exact RStmts.congr (h := (({} : Ld).stmts f.syn.stmts).1.h) (h' := (load' f).1) rfl rfl rfl S.rel
  · show (treeIds (Modfile.Edit.shiftSyntax f.syn).stmts).Nodup
    rw [shiftSyntax_stmts, treeIds_map_shift, ok.ids]
    exact List.Pairwise.map (fun x => x + 1) (fun a b (h : a ≠ b) => by simpa using h) List.nodup_range
  · show Modfile.Edit.maxId (Modfile.Edit.shiftSyntax f.syn) + 1 = (({} : Ld).stmts f.syn.stmts).1.h.lines.length + 1
    rw [maxId_eq, shiftSyntax_stmts, treeIds_map_shift, ok.ids, foldl_max_range, hlen]
  · exact ROpt_alloc moduleG (·.lineId) _ _ _ (fun m => { m with lineId := m.lineId + 1 }) f.module (fun y hy => by
      obtain ⟨h1, h2⟩ := hpt y.lineId (ok.module y hy)
      exact ⟨by simp only [moduleG, h1], h2⟩)
  · exact ROpt_alloc goG (·.lineId) _ _ _ (fun m => { m with lineId := m.lineId + 1 }) f.go (fun y hy => by
      obtain ⟨h1, h2⟩ := hpt y.lineId (ok.go y hy)
      exact ⟨by simp only [goG, h1], h2⟩)
  · exact ROpt_alloc toolchainG (·.lineId) _ _ _ (fun m => { m with lineId := m.lineId + 1 }) f.toolchain (fun y hy => by
      obtain ⟨h1, h2⟩ := hpt y.lineId (ok.toolchain y hy)
      exact ⟨by simp only [toolchainG, h1], h2⟩)
  · exact REnts_allocAll godebugG (·.lineId) _ _ _ (fun m => { m with lineId := m.lineId + 1 }) f.godebug (fun y hy => by
      obtain ⟨h1, h2⟩ := hpt y.lineId (ok.godebug y hy)
      exact ⟨by simp only [godebugG, h1], h2⟩)
  · exact REnts_allocAll requireG (·.lineId) _ _ _ (fun m => { m with lineId := m.lineId + 1 }) f.require (fun y hy => by
      obtain ⟨h1, h2⟩ := hpt y.lineId (ok.require y hy)
      exact ⟨by simp only [requireG, h1], h2⟩)
  · exact REnts_allocAll excludeG (·.lineId) _ _ _ (fun m => { m with lineId := m.lineId + 1 }) f.exclude (fun y hy => by
      obtain ⟨h1, h2⟩ := hpt y.lineId (ok.exclude y hy)
      exact ⟨by simp only [excludeG, h1], h2⟩)
  · exact REnts_allocAll replaceG (·.lineId) _ _ _ (fun m => { m with lineId := m.lineId + 1 }) f.replace (fun y hy => by
      obtain ⟨h1, h2⟩ := hpt y.lineId (ok.replace y hy)
      exact ⟨by simp only [replaceG, h1], h2⟩)
  · exact REnts_allocAll retractG (·.lineId) _ _ _ (fun m => { m with lineId := m.lineId + 1 }) f.retract (fun y hy => by
      obtain ⟨h1, h2⟩ := hpt y.lineId (ok.retract y hy)
      exact ⟨by simp only [retractG, h1], h2⟩)
  · exact REnts_allocAll toolG (·.lineId) _ _ _ (fun m => { m with lineId := m.lineId + 1 }) f.tool (fun y hy => by
      obtain ⟨h1, h2⟩ := hpt y.lineId (ok.tool y hy)
      exact ⟨by simp only [toolG, h1], h2⟩)

/-- `LoadOK` as a Boolean test (for concrete files: `decide +kernel`) -/
def loadOKB (f : Modfile.File) : Bool :=
  let T := treeIds f.syn.stmts
  f.syn.stmts.all (fun e => match e with | .commentBlock _ | .line _ | .lineBlock _ => true | _ => false) &&
  decide (T = List.range T.length) &&
  f.syn.stmts.all (fun e => match e with | .lineBlock b => !b.token.isEmpty | _ => true) &&
  (match f.module with | some m => T.contains m.lineId | none => true) &&
  (match f.go with | some m => T.contains m.lineId | none => true) &&
  (match f.toolchain with | some m => T.contains m.lineId | none => true) &&
  f.godebug.all (fun x => T.contains x.lineId) && f.require.all (fun x => T.contains x.lineId) &&
  f.exclude.all (fun x => T.contains x.lineId) && f.replace.all (fun x => T.contains x.lineId) &&
  f.retract.all (fun x => T.contains x.lineId) && f.tool.all (fun x => T.contains x.lineId)

theorem loadOKB_sound {f : Modfile.File} (h : loadOKB f = true) : LoadOK f := by
  unfold loadOKB at h
  simp only [Bool.and_eq_true, List.all_eq_true, decide_eq_true_eq, List.contains_iff_mem] at h
  obtain ⟨⟨⟨⟨⟨⟨⟨⟨⟨⟨⟨h1, h2⟩, h3⟩, h4⟩, h5⟩, h6⟩, h7⟩, h8⟩, h9⟩, h10⟩, h11⟩, h12⟩ := h
  refine ⟨?_, h2, ?_, ?_, ?_, ?_, fun x hx => by simpa using h7 x hx, fun x hx => by simpa using h8 x hx,
    fun x hx => by simpa using h9 x hx, fun x hx => by simpa using h10 x hx, fun x hx => by simpa using h11 x hx,
    fun x hx => by simpa using h12 x hx⟩
  · intro e he
    have := h1 e he
    cases e with
    | commentBlock c => exact Or.inl ⟨c, rfl⟩
    | line l => exact Or.inr (Or.inl ⟨l, rfl⟩)
    | lineBlock b => exact Or.inr (Or.inr ⟨b, rfl⟩)
    | lparen _ => simp at this
    | rparen _ => simp at this
  · intro b hb
    have := h3 _ hb
    simpa using this
  · intro m hm; rw [hm] at h4; simpa using h4
  · intro m hm; rw [hm] at h5; simpa using h5
  · intro m hm; rw [hm] at h6; simpa using h6
/-! ## additions (v4): `loadWork_rep` (go.work) -/

/-- `Drv.GenEdit.loadWork` with its local definitions named -/
def loadWork' (f : Modfile.WorkFile) : Edit.Heap × Int :=
  let r := ({} : Ld).stmts f.syn.stmts
  let h0 := r.1.h
  let pt := ptrOf r.1.ids
  let fsObj : Edit.FileSyntax := { Name := f.syn.name, Comments := comsG f.syn.comments, Stmt := r.2 }
  let go := optAlloc h0.gos (fun g : Modfile.Go => ({ Version := g.version, Syntax := pt g.lineId } : Edit.Go)) f.go
  let tc := optAlloc h0.toolchains (fun t : Modfile.Toolchain => ({ Name := t.name, Syntax := pt t.lineId } : Edit.Toolchain)) f.toolchain
  let gd := allocAll h0.godebugs (f.godebug.map fun g => ({ Key := g.key, Value := g.value, Syntax := pt g.lineId } : Edit.Godebug))
  let us := allocAll h0.uses (f.use.map fun u => ({ Path := u.path, ModulePath := u.modulePath, Syntax := pt u.lineId } : Edit.Use))
  let rp := allocAll h0.replaces (f.replace.map fun r => ({ Old := mvG r.old, New := mvG r.new, Syntax := pt r.lineId } : Edit.Replace))
  let o : Edit.WorkFile := { Go := go.1, Toolchain := tc.1, Godebug := gd.1, Use := us.1, Replace := rp.1,
                             Syntax := ((h0.files.length + 1 : Nat) : Int) }
  ({ h0 with files := h0.files ++ [fsObj], gos := go.2, toolchains := tc.2, godebugs := gd.2, uses := us.2, replaces := rp.2,
             works := h0.works ++ [o] },
   ((h0.works.length + 1 : Nat) : Int))

theorem loadWork_eq_loadWork' (f : Modfile.WorkFile) : loadWork f = loadWork' f := by
  unfold Drv.GenEdit.loadWork loadWork'
  cases f.go <;> cases f.toolchain <;> rfl

structure LoadWorkOK (f : Modfile.WorkFile) : Prop where
  shape : StmtShape f.syn.stmts
  ids : treeIds f.syn.stmts = List.range (treeIds f.syn.stmts).length
  tok : BlockTokOK f.syn.stmts
  go : ∀ g, f.go = some g → g.lineId ∈ treeIds f.syn.stmts
  toolchain : ∀ t, f.toolchain = some t → t.lineId ∈ treeIds f.syn.stmts
  godebug : ∀ g ∈ f.godebug, g.lineId ∈ treeIds f.syn.stmts
  use : ∀ r ∈ f.use, r.lineId ∈ treeIds f.syn.stmts
  replace : ∀ r ∈ f.replace, r.lineId ∈ treeIds f.syn.stmts

/-- **the driver's `loadWork` represents the model's `Edit.loadWork`** -/
theorem loadWork_rep (f : Modfile.WorkFile) (ok : LoadWorkOK f) : RepW (loadWork f).1 (loadWork f).2 (Modfile.Edit.loadWork f) := by
  rw [loadWork_eq_loadWork']
  have hids : treeIds f.syn.stmts = List.range' 0 (treeIds f.syn.stmts).length := by
    rw [← List.range_eq_range']; exact ok.ids
  have S := Ld.stmts_spec f.syn.stmts {} 0 rfl ok.shape hids
  have hok : IdsOK (({} : Ld).stmts f.syn.stmts).1.ids := S.step.idsOK (fun _ h => nomatch h)
  have hlen : (({} : Ld).stmts f.syn.stmts).1.h.lines.length = (treeIds f.syn.stmts).length := by rw [S.len]; omega
  have hpt : ∀ id, id ∈ treeIds f.syn.stmts →
      ptrOf (({} : Ld).stmts f.syn.stmts).1.ids id = ((id + 1 : Nat) : Int) ∧
      id + 1 ≤ (({} : Ld).stmts f.syn.stmts).1.h.lines.length := by
    intro id hm
    refine ⟨ptrOf_of_mem hok (S.keys id hm), ?_⟩
    rw [hlen]
    rw [ok.ids] at hm
    have := List.mem_range.1 hm
    omega
  refine ⟨_, heapGet_alloc_new _ _, ?_⟩
  refine
    { syn := ⟨(({} : Ld).stmts f.syn.stmts).2, heapGet_alloc_new _ _, ?_, S.nodup, ?_⟩
      tok := by rw [Modfile.Edit.loadWork]; simp only [shiftSyntax_stmts]; exact BlockTokOK_shift ok.tok
      linesG := S.step.linesG (fun _ h => nomatch h)
      next := ?_
      go := ?_, toolchain := ?_, godebug := ?_, use := ?_, replace := ?_ }
  · show RStmts _ _ (Modfile.Edit.shiftSyntax f.syn).stmts
    rw [shiftSyntax_stmts]
    exact RStmts.congr (h := (({} : Ld).stmts f.syn.stmts).1.h) (h' := (loadWork' f).1) rfl rfl rfl S.rel
  · show (treeIds (Modfile.Edit.shiftSyntax f.syn).stmts).Nodup
    rw [shiftSyntax_stmts, treeIds_map_shift, ok.ids]
    exact List.Pairwise.map (fun x => x + 1) (fun a b (h : a ≠ b) => by simpa using h) List.nodup_range
  · show Modfile.Edit.maxId (Modfile.Edit.shiftSyntax f.syn) + 1 = (({} : Ld).stmts f.syn.stmts).1.h.lines.length + 1
    rw [maxId_eq, shiftSyntax_stmts, treeIds_map_shift, ok.ids, foldl_max_range, hlen]
  · exact ROpt_alloc goG (·.lineId) _ _ _ (fun m => { m with lineId := m.lineId + 1 }) f.go (fun y hy => by
      obtain ⟨h1, h2⟩ := hpt y.lineId (ok.go y hy)
      exact ⟨by simp only [goG, h1], h2⟩)
  · exact ROpt_alloc toolchainG (·.lineId) _ _ _ (fun m => { m with lineId := m.lineId + 1 }) f.toolchain (fun y hy => by
      obtain ⟨h1, h2⟩ := hpt y.lineId (ok.toolchain y hy)
      exact ⟨by simp only [toolchainG, h1], h2⟩)
  · exact REnts_allocAll godebugG (·.lineId) _ _ _ (fun m => { m with lineId := m.lineId + 1 }) f.godebug (fun y hy => by
      obtain ⟨h1, h2⟩ := hpt y.lineId (ok.godebug y hy)
      exact ⟨by simp only [godebugG, h1], h2⟩)
  · exact REnts_allocAll useG (·.lineId) _ _ _ (fun m => { m with lineId := m.lineId + 1 }) f.use (fun y hy => by
      obtain ⟨h1, h2⟩ := hpt y.lineId (ok.use y hy)
      exact ⟨by simp only [useG, h1], h2⟩)
  · exact REnts_allocAll replaceG (·.lineId) _ _ _ (fun m => { m with lineId := m.lineId + 1 }) f.replace (fun y hy => by
      obtain ⟨h1, h2⟩ := hpt y.lineId (ok.replace y hy)
      exact ⟨by simp only [replaceG, h1], h2⟩)

def loadWorkOKB (f : Modfile.WorkFile) : Bool :=
  let T := treeIds f.syn.stmts
  f.syn.stmts.all (fun e => match e with | .commentBlock _ | .line _ | .lineBlock _ => true | _ => false) &&
  decide (T = List.range T.length) &&
  f.syn.stmts.all (fun e => match e with | .lineBlock b => !b.token.isEmpty | _ => true) &&
  (match f.go with | some m => T.contains m.lineId | none => true) &&
  (match f.toolchain with | some m => T.contains m.lineId | none => true) &&
  f.godebug.all (fun x => T.contains x.lineId) && f.use.all (fun x => T.contains x.lineId) &&
  f.replace.all (fun x => T.contains x.lineId)

theorem loadWorkOKB_sound {f : Modfile.WorkFile} (h : loadWorkOKB f = true) : LoadWorkOK f := by
  unfold loadWorkOKB at h
  simp only [Bool.and_eq_true, List.all_eq_true, decide_eq_true_eq, List.contains_iff_mem] at h
  obtain ⟨⟨⟨⟨⟨⟨⟨h1, h2⟩, h3⟩, h5⟩, h6⟩, h7⟩, h8⟩, h9⟩ := h
  refine ⟨?_, h2, ?_, ?_, ?_, fun x hx => by simpa using h7 x hx, fun x hx => by simpa using h8 x hx,
    fun x hx => by simpa using h9 x hx⟩
  · intro e he
    have := h1 e he
    cases e with
    | commentBlock c => exact Or.inl ⟨c, rfl⟩
    | line l => exact Or.inr (Or.inl ⟨l, rfl⟩)
    | lineBlock b => exact Or.inr (Or.inr ⟨b, rfl⟩)
    | lparen _ => simp at this
    | rparen _ => simp at this
  · intro b hb
    have := h3 _ hb
    simpa using this
  · intro m hm; rw [hm] at h5; simpa using h5
  · intro m hm; rw [hm] at h6; simpa using h6

/-! ## additions (v5): the driver's read-back (`synM`) of a represented graph is the model tree -/

theorem RLine.lineM {h : Edit.Heap} {p : Int} {l : Modfile.Line} (r : RLine h p l) : Drv.GenEdit.lineM h p = some l := by
  unfold Drv.GenEdit.lineM
  rw [r.1]
  obtain ⟨id, c, s, t, ib, e⟩ := l
  have := r.toNat
  simp only at this
  simp [lineG, this]

theorem RLines.mapM {h : Edit.Heap} : ∀ {ps : List Int} {ls : List Modfile.Line}, RLines h ps ls →
    ps.mapM (Drv.GenEdit.lineM h) = some ls
  | [], [], _ => rfl
  | _ :: _, _ :: _, r => by
    rw [List.mapM_cons, r.1.lineM, RLines.mapM r.2]; rfl
  | [], _ :: _, r => r.elim
  | _ :: _, [], r => r.elim

theorem RExpr.exprM {h : Edit.Heap} {e : Edit.Expr} {s : Modfile.Expr} (r : RExpr h e s) : Drv.GenEdit.exprM h e = some s := by
  cases e <;> cases s <;> simp only [RExpr] at r <;> try exact r.elim
  · rename_i p c
    simp only [Drv.GenEdit.exprM, r]
    obtain ⟨cc, cs⟩ := c
    simp [cbG]
  · rename_i p l
    simp only [Drv.GenEdit.exprM, r.lineM]; rfl
  · rename_i p b
    obtain ⟨ps, r1, r2⟩ := r
    simp only [Drv.GenEdit.exprM, r1, blockG_Line, r2.mapM]
    obtain ⟨c, s, ⟨lc, lp⟩, t, ls, ⟨rc, rp⟩⟩ := b
    simp [blockG, lparenG, rparenG, bind, Option.bind, pure]

theorem RStmts.mapM {h : Edit.Heap} : ∀ {es : List Edit.Expr} {ss : List Modfile.Expr}, RStmts h es ss →
    es.mapM (Drv.GenEdit.exprM h) = some ss
  | [], [], _ => rfl
  | _ :: _, _ :: _, r => by
    rw [List.mapM_cons, r.1.exprM, RStmts.mapM r.2]; rfl
  | [], _ :: _, r => r.elim
  | _ :: _, [], r => r.elim

/-- the driver reads a represented graph back as the model tree (line ids = pointers) -/
theorem RepSyn.synM {h : Edit.Heap} {p : Int} {fs : Modfile.FileSyntax} (r : RepSyn h p fs) : Drv.GenEdit.synM h p = some fs := by
  obtain ⟨es, r⟩ := r
  simp only [Drv.GenEdit.synM, r.file, fileG_Stmt, r.stmts.mapM]
  obtain ⟨n, c, s⟩ := fs
  simp [fileG, bind, Option.bind, pure]

/-! ## additions (v6): rebuilding `RepFAt` / `RepWAt` after a step -/

/-- the typed object lists are the same in both heaps -/
structure SameTyped (h h' : Edit.Heap) : Prop where
  modules : h'.modules = h.modules
  gos : h'.gos = h.gos
  toolchains : h'.toolchains = h.toolchains
  godebugs : h'.godebugs = h.godebugs
  requires : h'.requires = h.requires
  excludes : h'.excludes = h.excludes
  replaces : h'.replaces = h.replaces
  retracts : h'.retracts = h.retracts
  tools : h'.tools = h.tools
  uses : h'.uses = h.uses

theorem SameTyped.refl (h : Edit.Heap) : SameTyped h h := ⟨rfl, rfl, rfl, rfl, rfl, rfl, rfl, rfl, rfl, rfl⟩
theorem SameTyped.trans {a b c : Edit.Heap} (h1 : SameTyped a b) (h2 : SameTyped b c) : SameTyped a c :=
  ⟨h2.modules.trans h1.modules, h2.gos.trans h1.gos, h2.toolchains.trans h1.toolchains, h2.godebugs.trans h1.godebugs,
   h2.requires.trans h1.requires, h2.excludes.trans h1.excludes, h2.replaces.trans h1.replaces, h2.retracts.trans h1.retracts,
   h2.tools.trans h1.tools, h2.uses.trans h1.uses⟩
theorem SameTyped.setLineH (h : Edit.Heap) (p : Int) (l : Modfile.Line) : SameTyped h (FnEditRep.setLineH h p l) :=
  ⟨rfl, rfl, rfl, rfl, rfl, rfl, rfl, rfl, rfl, rfl⟩

theorem REnts.congrLen {α β : Type} {objs : List α} {g : β → α} {id : β → Nat} {nl nl' : Nat} {ps : List Int} {xs : List β}
    (r : REnts objs g id nl ps xs) (hn : nl ≤ nl') : REnts objs g id nl' ps xs := r.mono (fun _ _ x => x) hn
theorem ROpt.congrLen {α β : Type} {objs : List α} {g : β → α} {id : β → Nat} {nl nl' : Nat} {p : Int} {x : Option β}
    (r : ROpt objs g id nl p x) (hn : nl ≤ nl') : ROpt objs g id nl' p x := r.mono (fun _ _ x => x) hn

/-- **a step that changed only the syntax graph** (lines, blocks, comment blocks, the `FileSyntax` object; lines may have
    been allocated): the file represents the model with the new tree and the counter `lines.length + 1` -/
theorem RepFAt.ofSyn {h h' : Edit.Heap} {o : Edit.File} {e : Modfile.Edit.EFile} (R : RepFAt h o e) (st : SameTyped h h')
    (hlen : h.lines.length ≤ h'.lines.length) {syn' : Modfile.FileSyntax} (hs : RepSyn h' o.Syntax syn')
    (ht : BlockTokOK syn'.stmts) (hG : LinesG h') :
    RepFAt h' o { f := { e.f with syn := syn' }, next := h'.lines.length + 1 } where
  syn := hs
  tok := ht
  linesG := hG
  next := rfl
  module := by rw [st.modules]; exact R.module.congrLen hlen
  go := by rw [st.gos]; exact R.go.congrLen hlen
  toolchain := by rw [st.toolchains]; exact R.toolchain.congrLen hlen
  godebug := by rw [st.godebugs]; exact R.godebug.congrLen hlen
  require := by rw [st.requires]; exact R.require.congrLen hlen
  exclude := by rw [st.excludes]; exact R.exclude.congrLen hlen
  replace := by rw [st.replaces]; exact R.replace.congrLen hlen
  retract := by rw [st.retracts]; exact R.retract.congrLen hlen
  tool := by rw [st.tools]; exact R.tool.congrLen hlen

theorem RepWAt.ofSyn {h h' : Edit.Heap} {o : Edit.WorkFile} {e : Modfile.Edit.EWork} (R : RepWAt h o e) (st : SameTyped h h')
    (hlen : h.lines.length ≤ h'.lines.length) {syn' : Modfile.FileSyntax} (hs : RepSyn h' o.Syntax syn')
    (ht : BlockTokOK syn'.stmts) (hG : LinesG h') :
    RepWAt h' o { f := { e.f with syn := syn' }, next := h'.lines.length + 1 } where
  syn := hs
  tok := ht
  linesG := hG
  next := rfl
  go := by rw [st.gos]; exact R.go.congrLen hlen
  toolchain := by rw [st.toolchains]; exact R.toolchain.congrLen hlen
  godebug := by rw [st.godebugs]; exact R.godebug.congrLen hlen
  use := by rw [st.uses]; exact R.use.congrLen hlen
  replace := by rw [st.replaces]; exact R.replace.congrLen hlen

/-- the `File` / `WorkFile` objects themselves are not part of the representation: `mods` / `works` may change freely -/
theorem RepFAt.congrMods {h : Edit.Heap} {o : Edit.File} {e : Modfile.Edit.EFile} (R : RepFAt h o e) (ms : List Edit.File) :
    RepFAt { h with mods := ms } o e :=
  ⟨RepSyn.congr (h := h) (h' := { h with mods := ms }) rfl rfl rfl rfl R.syn, R.tok,
   LinesG.congr (h := h) (h' := { h with mods := ms }) R.linesG rfl, R.next, R.module, R.go, R.toolchain, R.godebug, R.require,
   R.exclude, R.replace, R.retract, R.tool⟩

theorem RepWAt.congrWorks {h : Edit.Heap} {o : Edit.WorkFile} {e : Modfile.Edit.EWork} (R : RepWAt h o e) (ws : List Edit.WorkFile) :
    RepWAt { h with works := ws } o e :=
  ⟨RepSyn.congr (h := h) (h' := { h with works := ws }) rfl rfl rfl rfl R.syn, R.tok,
   LinesG.congr (h := h) (h' := { h with works := ws }) R.linesG rfl, R.next, R.go, R.toolchain, R.godebug, R.use, R.replace⟩

/-! one typed component is replaced (object list, pointer field of the `File` object, model list) -/

theorem RepFAt.withModule {h : Edit.Heap} {o : Edit.File} {e : Modfile.Edit.EFile} (R : RepFAt h o e) {l' : List Edit.Module} {p' : Int} {x' : Option Modfile.Module}
    (hr : ROpt l' moduleG (·.lineId) h.lines.length p' x') :
    RepFAt { h with modules := l' } { o with Module := p' } { e with f := { e.f with module := x' } } where
  syn := RepSyn.congr (h := h) (h' := { h with modules := l' }) rfl rfl rfl rfl R.syn
  tok := R.tok
  linesG := LinesG.congr (h := h) (h' := { h with modules := l' }) R.linesG rfl
  next := R.next
  module := hr
  go := R.go
  toolchain := R.toolchain
  godebug := R.godebug
  require := R.require
  exclude := R.exclude
  replace := R.replace
  retract := R.retract
  tool := R.tool

theorem RepFAt.withGo {h : Edit.Heap} {o : Edit.File} {e : Modfile.Edit.EFile} (R : RepFAt h o e) {l' : List Edit.Go} {p' : Int} {x' : Option Modfile.Go}
    (hr : ROpt l' goG (·.lineId) h.lines.length p' x') :
    RepFAt { h with gos := l' } { o with Go := p' } { e with f := { e.f with go := x' } } where
  syn := RepSyn.congr (h := h) (h' := { h with gos := l' }) rfl rfl rfl rfl R.syn
  tok := R.tok
  linesG := LinesG.congr (h := h) (h' := { h with gos := l' }) R.linesG rfl
  next := R.next
  module := R.module
  go := hr
  toolchain := R.toolchain
  godebug := R.godebug
  require := R.require
  exclude := R.exclude
  replace := R.replace
  retract := R.retract
  tool := R.tool

theorem RepFAt.withToolchain {h : Edit.Heap} {o : Edit.File} {e : Modfile.Edit.EFile} (R : RepFAt h o e) {l' : List Edit.Toolchain} {p' : Int} {x' : Option Modfile.Toolchain}
    (hr : ROpt l' toolchainG (·.lineId) h.lines.length p' x') :
    RepFAt { h with toolchains := l' } { o with Toolchain := p' } { e with f := { e.f with toolchain := x' } } where
  syn := RepSyn.congr (h := h) (h' := { h with toolchains := l' }) rfl rfl rfl rfl R.syn
  tok := R.tok
  linesG := LinesG.congr (h := h) (h' := { h with toolchains := l' }) R.linesG rfl
  next := R.next
  module := R.module
  go := R.go
  toolchain := hr
  godebug := R.godebug
  require := R.require
  exclude := R.exclude
  replace := R.replace
  retract := R.retract
  tool := R.tool

theorem RepFAt.withGodebug {h : Edit.Heap} {o : Edit.File} {e : Modfile.Edit.EFile} (R : RepFAt h o e) {l' : List Edit.Godebug} {ps' : List Int} {xs' : List Modfile.Godebug}
    (hr : REnts l' godebugG (·.lineId) h.lines.length ps' xs') :
    RepFAt { h with godebugs := l' } { o with Godebug := ps' } { e with f := { e.f with godebug := xs' } } where
  syn := RepSyn.congr (h := h) (h' := { h with godebugs := l' }) rfl rfl rfl rfl R.syn
  tok := R.tok
  linesG := LinesG.congr (h := h) (h' := { h with godebugs := l' }) R.linesG rfl
  next := R.next
  module := R.module
  go := R.go
  toolchain := R.toolchain
  godebug := hr
  require := R.require
  exclude := R.exclude
  replace := R.replace
  retract := R.retract
  tool := R.tool

theorem RepFAt.withRequire {h : Edit.Heap} {o : Edit.File} {e : Modfile.Edit.EFile} (R : RepFAt h o e) {l' : List Edit.Require} {ps' : List Int} {xs' : List Modfile.Require}
    (hr : REnts l' requireG (·.lineId) h.lines.length ps' xs') :
    RepFAt { h with requires := l' } { o with Require := ps' } { e with f := { e.f with require := xs' } } where
  syn := RepSyn.congr (h := h) (h' := { h with requires := l' }) rfl rfl rfl rfl R.syn
  tok := R.tok
  linesG := LinesG.congr (h := h) (h' := { h with requires := l' }) R.linesG rfl
  next := R.next
  module := R.module
  go := R.go
  toolchain := R.toolchain
  godebug := R.godebug
  require := hr
  exclude := R.exclude
  replace := R.replace
  retract := R.retract
  tool := R.tool

theorem RepFAt.withExclude {h : Edit.Heap} {o : Edit.File} {e : Modfile.Edit.EFile} (R : RepFAt h o e) {l' : List Edit.Exclude} {ps' : List Int} {xs' : List Modfile.Exclude}
    (hr : REnts l' excludeG (·.lineId) h.lines.length ps' xs') :
    RepFAt { h with excludes := l' } { o with Exclude := ps' } { e with f := { e.f with exclude := xs' } } where
  syn := RepSyn.congr (h := h) (h' := { h with excludes := l' }) rfl rfl rfl rfl R.syn
  tok := R.tok
  linesG := LinesG.congr (h := h) (h' := { h with excludes := l' }) R.linesG rfl
  next := R.next
  module := R.module
  go := R.go
  toolchain := R.toolchain
  godebug := R.godebug
  require := R.require
  exclude := hr
  replace := R.replace
  retract := R.retract
  tool := R.tool

theorem RepFAt.withReplace {h : Edit.Heap} {o : Edit.File} {e : Modfile.Edit.EFile} (R : RepFAt h o e) {l' : List Edit.Replace} {ps' : List Int} {xs' : List Modfile.Replace}
    (hr : REnts l' replaceG (·.lineId) h.lines.length ps' xs') :
    RepFAt { h with replaces := l' } { o with Replace := ps' } { e with f := { e.f with replace := xs' } } where
  syn := RepSyn.congr (h := h) (h' := { h with replaces := l' }) rfl rfl rfl rfl R.syn
  tok := R.tok
  linesG := LinesG.congr (h := h) (h' := { h with replaces := l' }) R.linesG rfl
  next := R.next
  module := R.module
  go := R.go
  toolchain := R.toolchain
  godebug := R.godebug
  require := R.require
  exclude := R.exclude
  replace := hr
  retract := R.retract
  tool := R.tool

theorem RepFAt.withRetract {h : Edit.Heap} {o : Edit.File} {e : Modfile.Edit.EFile} (R : RepFAt h o e) {l' : List Edit.Retract} {ps' : List Int} {xs' : List Modfile.Retract}
    (hr : REnts l' retractG (·.lineId) h.lines.length ps' xs') :
    RepFAt { h with retracts := l' } { o with Retract := ps' } { e with f := { e.f with retract := xs' } } where
  syn := RepSyn.congr (h := h) (h' := { h with retracts := l' }) rfl rfl rfl rfl R.syn
  tok := R.tok
  linesG := LinesG.congr (h := h) (h' := { h with retracts := l' }) R.linesG rfl
  next := R.next
  module := R.module
  go := R.go
  toolchain := R.toolchain
  godebug := R.godebug
  require := R.require
  exclude := R.exclude
  replace := R.replace
  retract := hr
  tool := R.tool

theorem RepFAt.withTool {h : Edit.Heap} {o : Edit.File} {e : Modfile.Edit.EFile} (R : RepFAt h o e) {l' : List Edit.Tool} {ps' : List Int} {xs' : List Modfile.Tool}
    (hr : REnts l' toolG (·.lineId) h.lines.length ps' xs') :
    RepFAt { h with tools := l' } { o with Tool := ps' } { e with f := { e.f with tool := xs' } } where
  syn := RepSyn.congr (h := h) (h' := { h with tools := l' }) rfl rfl rfl rfl R.syn
  tok := R.tok
  linesG := LinesG.congr (h := h) (h' := { h with tools := l' }) R.linesG rfl
  next := R.next
  module := R.module
  go := R.go
  toolchain := R.toolchain
  godebug := R.godebug
  require := R.require
  exclude := R.exclude
  replace := R.replace
  retract := R.retract
  tool := hr

theorem RepWAt.withGo {h : Edit.Heap} {o : Edit.WorkFile} {e : Modfile.Edit.EWork} (R : RepWAt h o e) {l' : List Edit.Go} {p' : Int} {x' : Option Modfile.Go}
    (hr : ROpt l' goG (·.lineId) h.lines.length p' x') :
    RepWAt { h with gos := l' } { o with Go := p' } { e with f := { e.f with go := x' } } where
  syn := RepSyn.congr (h := h) (h' := { h with gos := l' }) rfl rfl rfl rfl R.syn
  tok := R.tok
  linesG := LinesG.congr (h := h) (h' := { h with gos := l' }) R.linesG rfl
  next := R.next
  go := hr
  toolchain := R.toolchain
  godebug := R.godebug
  use := R.use
  replace := R.replace

theorem RepWAt.withToolchain {h : Edit.Heap} {o : Edit.WorkFile} {e : Modfile.Edit.EWork} (R : RepWAt h o e) {l' : List Edit.Toolchain} {p' : Int} {x' : Option Modfile.Toolchain}
    (hr : ROpt l' toolchainG (·.lineId) h.lines.length p' x') :
    RepWAt { h with toolchains := l' } { o with Toolchain := p' } { e with f := { e.f with toolchain := x' } } where
  syn := RepSyn.congr (h := h) (h' := { h with toolchains := l' }) rfl rfl rfl rfl R.syn
  tok := R.tok
  linesG := LinesG.congr (h := h) (h' := { h with toolchains := l' }) R.linesG rfl
  next := R.next
  go := R.go
  toolchain := hr
  godebug := R.godebug
  use := R.use
  replace := R.replace

theorem RepWAt.withGodebug {h : Edit.Heap} {o : Edit.WorkFile} {e : Modfile.Edit.EWork} (R : RepWAt h o e) {l' : List Edit.Godebug} {ps' : List Int} {xs' : List Modfile.Godebug}
    (hr : REnts l' godebugG (·.lineId) h.lines.length ps' xs') :
    RepWAt { h with godebugs := l' } { o with Godebug := ps' } { e with f := { e.f with godebug := xs' } } where
  syn := RepSyn.congr (h := h) (h' := { h with godebugs := l' }) rfl rfl rfl rfl R.syn
  tok := R.tok
  linesG := LinesG.congr (h := h) (h' := { h with godebugs := l' }) R.linesG rfl
  next := R.next
  go := R.go
  toolchain := R.toolchain
  godebug := hr
  use := R.use
  replace := R.replace

theorem RepWAt.withUse {h : Edit.Heap} {o : Edit.WorkFile} {e : Modfile.Edit.EWork} (R : RepWAt h o e) {l' : List Edit.Use} {ps' : List Int} {xs' : List Modfile.Use}
    (hr : REnts l' useG (·.lineId) h.lines.length ps' xs') :
    RepWAt { h with uses := l' } { o with Use := ps' } { e with f := { e.f with use := xs' } } where
  syn := RepSyn.congr (h := h) (h' := { h with uses := l' }) rfl rfl rfl rfl R.syn
  tok := R.tok
  linesG := LinesG.congr (h := h) (h' := { h with uses := l' }) R.linesG rfl
  next := R.next
  go := R.go
  toolchain := R.toolchain
  godebug := R.godebug
  use := hr
  replace := R.replace

theorem RepWAt.withReplace {h : Edit.Heap} {o : Edit.WorkFile} {e : Modfile.Edit.EWork} (R : RepWAt h o e) {l' : List Edit.Replace} {ps' : List Int} {xs' : List Modfile.Replace}
    (hr : REnts l' replaceG (·.lineId) h.lines.length ps' xs') :
    RepWAt { h with replaces := l' } { o with Replace := ps' } { e with f := { e.f with replace := xs' } } where
  syn := RepSyn.congr (h := h) (h' := { h with replaces := l' }) rfl rfl rfl rfl R.syn
  tok := R.tok
  linesG := LinesG.congr (h := h) (h' := { h with replaces := l' }) R.linesG rfl
  next := R.next
  go := R.go
  toolchain := R.toolchain
  godebug := R.godebug
  use := R.use
  replace := hr

/-! building blocks for typed lists -/

/-- a new object is allocated and its pointer appended (`f.Require = append(f.Require, &Require{…})`) -/
theorem REnts.push {α β : Type} {objs : List α} {g : β → α} {id : β → Nat} {nl : Nat} {ps : List Int} {xs : List β}
    (r : REnts objs g id nl ps xs) (y : β) (hy : id y ≤ nl) :
    REnts (objs ++ [g y]) g id nl (ps ++ [((objs.length + 1 : Nat) : Int)]) (xs ++ [y]) := by
  refine ⟨?_, ?_⟩
  · refine REntsL.append (r.rel.mono (fun p v x => heapGet_alloc_old _ x) (Nat.le_refl _)) ?_
    exact ⟨⟨heapGet_alloc_new _ _, hy⟩, trivial⟩
  · refine List.nodup_append.2 ⟨r.nodup, by simp, ?_⟩
    intro a ha b hb hab
    simp only [List.mem_singleton] at hb
    subst hab hb
    have := (r.rel.mem_alloc _ ha).2
    omega

/-- the object at position `i` is overwritten -/
theorem REnts.set {α β : Type} {objs : List α} {g : β → α} {id : β → Nat} {nl : Nat} {ps : List Int} {xs : List β}
    (r : REnts objs g id nl ps xs) {i : Nat} {p : Int} (hi : ps[i]? = some p) (y : β) (hy : id y ≤ nl) :
    REnts (objs.set (p.toNat - 1) (g y)) g id nl ps (xs.set i y) := ⟨r.rel.setAt r.nodup i p y hi hy, r.nodup⟩

theorem REnts.get {α β : Type} {objs : List α} {g : β → α} {id : β → Nat} {nl : Nat} {ps : List Int} {xs : List β}
    (r : REnts objs g id nl ps xs) {i : Nat} {p : Int} {x : β} (hi : ps[i]? = some p) (hx : xs[i]? = some x) :
    heapGet objs p = .ok (g x) ∧ id x ≤ nl := r.rel.get i p x hi hx

theorem REnts.length {α β : Type} {objs : List α} {g : β → α} {id : β → Nat} {nl : Nat} {ps : List Int} {xs : List β}
    (r : REnts objs g id nl ps xs) : ps.length = xs.length := r.rel.length

theorem REnts.nil {α β : Type} (objs : List α) (g : β → α) (id : β → Nat) (nl : Nat) : REnts objs g id nl [] [] :=
  ⟨trivial, List.nodup_nil⟩


end ModVerif.Tie.FnEditRep
