/-
  C12 helper lemmas, part 1: `path.Clean` / `path.Dir` / `filepath.Join` on the component level.

  `pathClean p = render (isRooted p) (comps p)`, the component list `comps p` is canonical (`Canon`), a
  canonical list is a fixed point of `cleanComps`, hence `comps (pathClean p) = comps p`;
  `pathDir (render r cs) = render r cs.dropLast`; `fpJoin dir n = render (isRooted dir) (comps dir ++ splitOn n)`
  for a name made of normal elements.  Core Lean only.
-/
import ModVerif.Spec.ZipSpec
namespace ModVerif.Proofs.ZipB
open ModVerif ModVerif.PathClean ModVerif.Zip ModVerif.ZipSpec

/-! ### splitOn / joinWith with the slash -/

/-- join with slashes -/
abbrev J (cs : List Bytes) : Bytes := joinWith [47] cs

theorem splitOn_ne_nil (sep : UInt8) : ∀ s : Bytes, splitOn sep s ≠ []
  | [] => by simp [splitOn]
  | c :: rest => by
    unfold splitOn
    split
    · simp
    · split <;> simp

theorem splitOn_sep_cons (sep : UInt8) (x : Bytes) : splitOn sep (sep :: x) = [] :: splitOn sep x := by
  simp [splitOn]

theorem splitOn_append_sep (sep : UInt8) (b : Bytes) : ∀ a : Bytes,
    splitOn sep (a ++ sep :: b) = splitOn sep a ++ splitOn sep b
  | [] => by simp [splitOn]
  | c :: a => by
    have ih := splitOn_append_sep sep b a
    simp only [List.cons_append, splitOn]
    split
    · simp [ih]
    · rw [ih]
      cases h : splitOn sep a with
      | nil => exact absurd h (splitOn_ne_nil sep a)
      | cons s ss => simp

theorem splitOn_noSep (sep : UInt8) : ∀ x : Bytes, sep ∉ x → splitOn sep x = [x]
  | [], _ => rfl
  | c :: cs, hx => by
    have hc : (c == sep) = false := by
      simp; intro e; exact hx (by rw [e]; exact List.mem_cons_self)
    have ih := splitOn_noSep sep cs (fun h => hx (List.mem_cons_of_mem _ h))
    unfold splitOn; simp [hc, ih]

/-- the pieces of a split do not contain the separator -/
theorem not_mem_of_mem_splitOn (sep : UInt8) : ∀ (b s : Bytes), s ∈ splitOn sep b → sep ∉ s
  | [], s, hs => by
    simp [splitOn] at hs; subst hs; simp
  | x :: rest, s, hs => by
    unfold splitOn at hs
    by_cases h : x == sep
    · simp [h] at hs
      rcases hs with rfl | hs
      · simp
      · exact not_mem_of_mem_splitOn sep rest s hs
    · simp only [h] at hs
      have hx : x ≠ sep := by simpa using h
      cases hsp : splitOn sep rest with
      | nil => exact absurd hsp (splitOn_ne_nil sep rest)
      | cons a as =>
        rw [hsp] at hs
        simp at hs
        rcases hs with rfl | hs
        · have := not_mem_of_mem_splitOn sep rest a (by rw [hsp]; exact List.mem_cons_self)
          intro hm
          rcases List.mem_cons.mp hm with e | hm
          · exact hx e.symm
          · exact this hm
        · exact not_mem_of_mem_splitOn sep rest s (by rw [hsp]; exact List.mem_cons_of_mem _ hs)

theorem J_cons_cons (c d : Bytes) (rest : List Bytes) : J (c :: d :: rest) = c ++ 47 :: J (d :: rest) := by
  simp [J, joinWith]

theorem J_concat (b : Bytes) : ∀ init : List Bytes, init ≠ [] → J (init ++ [b]) = J init ++ 47 :: b
  | [], h => absurd rfl h
  | [x], _ => by simp [J, joinWith]
  | x :: y :: rest, _ => by
    have ih := J_concat b (y :: rest) (by simp)
    simp only [List.cons_append] at ih ⊢
    rw [J_cons_cons, ih, J_cons_cons]
    simp

theorem J_splitOn : ∀ p : Bytes, J (splitOn 47 p) = p
  | [] => by simp [splitOn, J, joinWith]
  | c :: rest => by
    have ih := J_splitOn rest
    unfold splitOn
    split
    · rename_i hc
      have hc : c = 47 := by simpa using hc
      cases h : splitOn 47 rest with
      | nil => exact absurd h (splitOn_ne_nil 47 rest)
      | cons s ss => rw [h] at ih; rw [J_cons_cons, ih, hc]; rfl
    · cases h : splitOn 47 rest with
      | nil => exact absurd h (splitOn_ne_nil 47 rest)
      | cons s ss =>
        rw [h] at ih
        simp only []
        cases ss with
        | nil => simp [J, joinWith] at ih ⊢; exact ih
        | cons t ts => rw [J_cons_cons] at ih ⊢; rw [← ih]; rfl

theorem splitOn_J : ∀ cs : List Bytes, cs ≠ [] → (∀ c ∈ cs, (47 : UInt8) ∉ c) → splitOn 47 (J cs) = cs
  | [], h, _ => absurd rfl h
  | [x], _, hx => by
    show splitOn 47 x = [x]
    exact splitOn_noSep 47 x (hx x List.mem_cons_self)
  | x :: y :: rest, _, hx => by
    have ih := splitOn_J (y :: rest) (by simp) (fun i hi => hx i (List.mem_cons_of_mem _ hi))
    rw [J_cons_cons, splitOn_append_sep, ih, splitOn_noSep 47 x (hx x List.mem_cons_self)]
    rfl

/-- a joined list of two or more slash-free elements contains a slash; one element is itself -/
theorem J_injective {a b : List Bytes} (ha : a ≠ []) (hb : b ≠ []) (ha' : ∀ c ∈ a, (47 : UInt8) ∉ c)
    (hb' : ∀ c ∈ b, (47 : UInt8) ∉ c) (h : J a = J b) : a = b := by
  rw [← splitOn_J a ha ha', ← splitOn_J b hb hb', h]

/-! ### the four rules of Clean on a component list -/

theorem step_normal (r : Bool) (st : List Bytes) (c : Bytes) (h1 : c ≠ []) (h2 : c ≠ [46]) (h3 : c ≠ dotdot) :
    step r st c = c :: st := by
  unfold step
  have e1 : (c == []) = false := by simpa using h1
  have e2 : (c == [46]) = false := by simpa using h2
  have e3 : (c == dotdot) = false := by simpa using h3
  simp [e1, e2, e3]

theorem foldl_step_normal (r : Bool) : ∀ (cs st : List Bytes),
    (∀ c ∈ cs, c ≠ [] ∧ c ≠ [46] ∧ c ≠ dotdot) → cs.foldl (step r) st = cs.reverse ++ st
  | [], _, _ => rfl
  | c :: cs, st, h => by
    have ⟨h1, h2, h3⟩ := h c List.mem_cons_self
    simp only [List.foldl_cons, step_normal r st c h1 h2 h3, List.reverse_cons, List.append_assoc,
      List.singleton_append]
    exact foldl_step_normal r cs (c :: st) (fun d hd => h d (List.mem_cons_of_mem _ hd))

/-- invariant of the stack (top first) -/
structure StackOK (r : Bool) (st : List Bytes) : Prop where
  elem : ∀ c ∈ st, c ≠ [] ∧ c ≠ [46] ∧ (47 : UInt8) ∉ c
  dd : st.Pairwise (fun a b => a = dotdot → b = dotdot)
  rooted : r = true → dotdot ∉ st

theorem dotdot_noSlash : (47 : UInt8) ∉ dotdot := by decide

theorem stackOK_step (r : Bool) (st : List Bytes) (c : Bytes) (h : StackOK r st) (hc : (47 : UInt8) ∉ c) :
    StackOK r (step r st c) := by
  unfold step
  by_cases e1 : c = []
  · simp [e1]; exact h
  by_cases e2 : c = [46]
  · simp [e2]; exact h
  have b1 : (c == []) = false := by simpa using e1
  have b2 : (c == [46]) = false := by simpa using e2
  by_cases e3 : c = dotdot
  · subst e3
    simp only [b1, b2, Bool.false_eq_true, if_false, beq_self_eq_true, if_true]
    cases st with
    | nil =>
      simp only
      cases r with
      | true => simp; exact ⟨by simp, List.Pairwise.nil, by simp⟩
      | false =>
        simp
        exact ⟨by intro c hc; rw [List.mem_singleton.mp hc]; exact ⟨by decide, by decide, by decide⟩,
               List.pairwise_singleton _ _, by simp⟩
    | cons top rest =>
      simp only
      by_cases et : top = dotdot
      · subst et
        simp only [beq_self_eq_true, if_true]
        cases r with
        | true => simp; exact h
        | false =>
          simp
          refine ⟨?_, ?_, by simp⟩
          · intro c hc
            rcases List.mem_cons.mp hc with rfl | hc
            · exact ⟨by decide, by decide, by decide⟩
            · exact h.elem c hc
          · refine List.pairwise_cons.mpr ⟨?_, h.dd⟩
            intro b hb _
            rcases List.mem_cons.mp hb with rfl | hb
            · rfl
            · exact (List.pairwise_cons.mp h.dd).1 b hb rfl
      · have bt : (top == dotdot) = false := by simpa using et
        simp only [bt, Bool.false_eq_true, if_false]
        refine ⟨fun c hc => h.elem c (List.mem_cons_of_mem _ hc), (List.pairwise_cons.mp h.dd).2, ?_⟩
        intro hr hm
        exact h.rooted hr (List.mem_cons_of_mem _ hm)
  · have b3 : (c == dotdot) = false := by simpa using e3
    simp only [b1, b2, b3, Bool.false_eq_true, if_false]
    refine ⟨?_, ?_, ?_⟩
    · intro d hd
      rcases List.mem_cons.mp hd with rfl | hd
      · exact ⟨e1, e2, hc⟩
      · exact h.elem d hd
    · exact List.pairwise_cons.mpr ⟨fun b _ hcd => absurd hcd e3, h.dd⟩
    · intro hr hm
      rcases List.mem_cons.mp hm with e | hm
      · exact e3 e.symm
      · exact h.rooted hr hm

theorem stackOK_foldl (r : Bool) : ∀ (cs st : List Bytes), StackOK r st → (∀ c ∈ cs, (47 : UInt8) ∉ c) →
    StackOK r (cs.foldl (step r) st)
  | [], _, h, _ => h
  | c :: cs, st, h, hc =>
    stackOK_foldl r cs _ (stackOK_step r st c h (hc c List.mem_cons_self))
      (fun d hd => hc d (List.mem_cons_of_mem _ hd))

/-- canonical component lists: what `Clean` keeps.  Elements are non-empty, not `.`, slash-free; `..`
    elements only at the front, and none for a rooted path. -/
structure Canon (r : Bool) (cs : List Bytes) : Prop where
  elem : ∀ c ∈ cs, c ≠ [] ∧ c ≠ [46] ∧ (47 : UInt8) ∉ c
  dd : cs.Pairwise (fun a b => b = dotdot → a = dotdot)
  rooted : r = true → dotdot ∉ cs

theorem canon_nil (r : Bool) : Canon r [] := ⟨by simp, List.Pairwise.nil, by simp⟩

theorem canon_of_stackOK {r : Bool} {st : List Bytes} (h : StackOK r st) : Canon r st.reverse :=
  ⟨fun c hc => h.elem c (List.mem_reverse.mp hc), List.pairwise_reverse.mpr h.dd,
   fun hr hm => h.rooted hr (List.mem_reverse.mp hm)⟩

theorem canon_cleanComps (r : Bool) (cs : List Bytes) (hc : ∀ c ∈ cs, (47 : UInt8) ∉ c) :
    Canon r (cleanComps r cs) :=
  canon_of_stackOK (stackOK_foldl r cs [] ⟨by simp, List.Pairwise.nil, by simp⟩ hc)

theorem canon_comps (p : Bytes) : Canon (isRooted p) (comps p) :=
  canon_cleanComps _ _ (fun c hc => not_mem_of_mem_splitOn 47 p c hc)

theorem canon_sublist {r : Bool} {cs ds : List Bytes} (h : Canon r cs) (hs : ds.Sublist cs) : Canon r ds :=
  ⟨fun c hc => h.elem c (hs.subset hc), h.dd.sublist hs, fun hr hm => h.rooted hr (hs.subset hm)⟩

theorem canon_append_normal {r : Bool} {cs ns : List Bytes} (h : Canon r cs) (hn : ∀ c ∈ ns, NormalElem c) :
    Canon r (cs ++ ns) := by
  refine ⟨?_, ?_, ?_⟩
  · intro c hc
    rcases List.mem_append.mp hc with hc | hc
    · exact h.elem c hc
    · exact ⟨(hn c hc).1, (hn c hc).2.1, (hn c hc).2.2.2⟩
  · refine List.pairwise_append.mpr ⟨h.dd, ?_, ?_⟩
    · exact List.Pairwise.imp_of_mem (R := fun _ _ => True)
        (fun {a b} _ hb _ hbd => absurd hbd (hn b hb).2.2.1) (List.pairwise_of_forall (fun _ _ => trivial))
    · intro a _ b hb hbd
      exact absurd hbd (hn b hb).2.2.1
  · intro hr hm
    rcases List.mem_append.mp hm with hm | hm
    · exact h.rooted hr hm
    · exact (hn _ hm).2.2.1 rfl

/-- a canonical list is a fixed point of the rules -/
theorem foldl_step_canon (r : Bool) : ∀ (cs st : List Bytes), Canon r (st.reverse ++ cs) →
    cs.foldl (step r) st = cs.reverse ++ st
  | [], _, _ => rfl
  | c :: cs, st, h => by
    have hce := h.elem c (by simp)
    have hstep : step r st c = c :: st := by
      by_cases e3 : c = dotdot
      · subst e3
        have hr : r = false := by
          cases r with
          | false => rfl
          | true => exact absurd (by simp) (h.rooted rfl)
        have hall : ∀ a ∈ st, a = dotdot := by
          intro a ha
          have := (List.pairwise_append.mp h.dd).2.2 a (List.mem_reverse.mpr ha) dotdot List.mem_cons_self
          exact this rfl
        subst hr
        unfold step
        cases st with
        | nil => simp [dotdot]
        | cons top rest =>
          have := hall top List.mem_cons_self
          subst this
          simp [dotdot]
      · exact step_normal r st c hce.1 hce.2.1 e3
    simp only [List.foldl_cons, hstep, List.reverse_cons, List.append_assoc, List.singleton_append]
    exact foldl_step_canon r cs (c :: st) (by simpa using h)

theorem cleanComps_canon {r : Bool} {cs : List Bytes} (h : Canon r cs) : cleanComps r cs = cs := by
  unfold cleanComps
  rw [foldl_step_canon r cs [] (by simpa using h)]
  simp

theorem cleanComps_append (r : Bool) (as bs : List Bytes) :
    cleanComps r (as ++ bs) = (bs.foldl (step r) (cleanComps r as).reverse).reverse := by
  simp [cleanComps, List.foldl_append]

/-- appending normal elements: they are kept -/
theorem cleanComps_append_normal (r : Bool) (as ns : List Bytes) (hn : ∀ c ∈ ns, NormalElem c) :
    cleanComps r (as ++ ns) = cleanComps r as ++ ns := by
  rw [cleanComps_append, foldl_step_normal r ns _ (fun c hc => ⟨(hn c hc).1, (hn c hc).2.1, (hn c hc).2.2.1⟩)]
  simp

theorem cleanComps_append_empty (r : Bool) (as : List Bytes) : cleanComps r (as ++ [[]]) = cleanComps r as := by
  rw [cleanComps_append]
  simp [step]

theorem cleanComps_cons_empty (r : Bool) (as : List Bytes) : cleanComps r ([] :: as) = cleanComps r as := by
  simp [cleanComps, step]

/-! ### Clean as a function of (rooted, components) -/

/-- what `path.Clean` writes for the kept components -/
def render (r : Bool) (cs : List Bytes) : Bytes :=
  if r then 47 :: J cs else if cs.isEmpty then [46] else J cs

theorem pathClean_eq_render (p : Bytes) : pathClean p = render (isRooted p) (comps p) := by
  unfold pathClean render
  by_cases hp : p = []
  · subst hp; decide
  · have : (p == []) = false := by simpa using hp
    simp only [this, Bool.false_eq_true, if_false]

theorem isRooted_J_canon {cs : List Bytes} (h : Canon false cs) : isRooted (J cs) = false := by
  cases cs with
  | nil => rfl
  | cons c rest =>
    have hc := h.elem c List.mem_cons_self
    cases c with
    | nil => exact absurd rfl hc.1
    | cons x xs =>
      have hx : x ≠ 47 := fun e => hc.2.2 (by rw [e]; exact List.mem_cons_self)
      cases rest with
      | nil =>
        show isRooted (x :: xs) = false
        unfold isRooted
        split
        · rename_i heq; injection heq with h1 _; exact absurd h1 hx
        · rfl
      | cons d ds =>
        rw [J_cons_cons]
        show isRooted (x :: (xs ++ 47 :: J (d :: ds))) = false
        unfold isRooted
        split
        · rename_i heq; injection heq with h1 _; exact absurd h1 hx
        · rfl

theorem isRooted_render {r : Bool} {cs : List Bytes} (h : Canon r cs) : isRooted (render r cs) = r := by
  unfold render
  cases r with
  | true => rfl
  | false =>
    simp only [Bool.false_eq_true, if_false]
    split
    · rfl
    · exact isRooted_J_canon h

theorem comps_render {r : Bool} {cs : List Bytes} (h : Canon r cs) : comps (render r cs) = cs := by
  unfold comps
  rw [isRooted_render h]
  unfold render
  cases r with
  | true =>
    simp only [if_true]
    rw [splitOn_sep_cons, cleanComps_cons_empty]
    cases hcs : cs with
    | nil => decide
    | cons c rest =>
      rw [← hcs, splitOn_J cs (by simp [hcs]) (fun c hc => (h.elem c hc).2.2)]
      exact cleanComps_canon h
  | false =>
    simp only [Bool.false_eq_true, if_false]
    cases hcs : cs with
    | nil => decide
    | cons c rest =>
      rw [← hcs]
      have : cs.isEmpty = false := by simp [hcs]
      simp only [this, Bool.false_eq_true, if_false]
      rw [splitOn_J cs (by simp [hcs]) (fun c hc => (h.elem c hc).2.2)]
      exact cleanComps_canon h

/-- `Clean` is idempotent on the component level -/
theorem comps_pathClean (p : Bytes) : comps (pathClean p) = comps p := by
  rw [pathClean_eq_render]; exact comps_render (canon_comps p)

theorem isRooted_pathClean (p : Bytes) : isRooted (pathClean p) = isRooted p := by
  rw [pathClean_eq_render]; exact isRooted_render (canon_comps p)

theorem pathClean_render {r : Bool} {cs : List Bytes} (h : Canon r cs) : pathClean (render r cs) = render r cs := by
  rw [pathClean_eq_render, isRooted_render h, comps_render h]

theorem pathClean_idem (p : Bytes) : pathClean (pathClean p) = pathClean p := by
  rw [pathClean_eq_render p]; exact pathClean_render (canon_comps p)

theorem render_injective {r : Bool} {a b : List Bytes} (ha : Canon r a) (hb : Canon r b)
    (h : render r a = render r b) : a = b := by
  rw [← comps_render ha, ← comps_render hb, h]

/-! ### Split and Dir -/

theorem lastElem_noSlash (b : Bytes) (hb : (47 : UInt8) ∉ b) : lastElem b = b := by
  unfold lastElem
  have : b.reverse.takeWhile (· != 47) = b.reverse := by
    have h := List.takeWhile_append_of_pos (p := fun x : UInt8 => x != 47) (l₁ := b.reverse) (l₂ := []) (by
      intro x hx
      have : x ≠ 47 := fun e => hb (by rw [← e]; exact List.mem_reverse.mp hx)
      simpa using this)
    simpa using h
  rw [this]; simp

theorem lastElem_append (a b : Bytes) (hb : (47 : UInt8) ∉ b) : lastElem (a ++ 47 :: b) = b := by
  unfold lastElem
  have hrev : (a ++ 47 :: b).reverse = b.reverse ++ 47 :: a.reverse := by simp
  rw [hrev]
  have : (b.reverse ++ 47 :: a.reverse).takeWhile (· != 47) = b.reverse := by
    rw [List.takeWhile_append_of_pos]
    · simp
    · intro x hx
      have : x ≠ 47 := fun e => hb (by rw [← e]; exact List.mem_reverse.mp hx)
      simpa using this
  rw [this]; simp

theorem pathSplit_noSlash (b : Bytes) (hb : (47 : UInt8) ∉ b) : (pathSplit b).1 = [] := by
  unfold pathSplit
  simp [lastElem_noSlash b hb]

theorem pathSplit_append (a b : Bytes) (hb : (47 : UInt8) ∉ b) : (pathSplit (a ++ 47 :: b)).1 = a ++ [47] := by
  unfold pathSplit
  simp only [lastElem_append a b hb]
  have : (a ++ 47 :: b).length - b.length = (a ++ [47]).length := by simp; omega
  rw [this]
  have : a ++ 47 :: b = (a ++ [47]) ++ b := by simp
  rw [this, List.take_left']
  rfl

theorem isRooted_append_ne_nil (a b : Bytes) (ha : a ≠ []) : isRooted (a ++ b) = isRooted a := by
  cases a with
  | nil => exact absurd rfl ha
  | cons x xs =>
    show isRooted (x :: (xs ++ b)) = isRooted (x :: xs)
    unfold isRooted
    split <;> split <;> simp_all

/-- `path.Dir` removes the last kept component -/
theorem pathDir_render {r : Bool} {cs : List Bytes} (h : Canon r cs) :
    pathDir (render r cs) = render r cs.dropLast := by
  unfold pathDir
  rcases List.eq_nil_or_concat cs with rfl | ⟨init, b, hcs⟩
  · cases r <;> decide
  · rw [List.concat_eq_append] at hcs
    subst hcs
    have hb := (h.elem b (by simp)).2.2
    have hinit : Canon r init := canon_sublist h (List.sublist_append_left init [b])
    simp only [List.dropLast_concat]
    by_cases hi : init = []
    · subst hi
      cases r with
      | true =>
        have : render true ([] ++ [b]) = [] ++ 47 :: b := by simp [render, J, joinWith]
        rw [this, pathSplit_append [] b hb]
        decide
      | false =>
        have : render false ([] ++ [b]) = b := by simp [render, J, joinWith]
        rw [this, pathSplit_noSlash b hb]
        decide
    · have hne : (init ++ [b]).isEmpty = false := by simp
      have hsplit : splitOn 47 (J init) = init := splitOn_J init hi (fun c hc => (hinit.elem c hc).2.2)
      cases r with
      | true =>
        have : render true (init ++ [b]) = (47 :: J init) ++ 47 :: b := by
          simp only [render, if_true, J_concat b init hi]; simp
        rw [this, pathSplit_append _ b hb, pathClean_eq_render]
        have hr : isRooted ((47 :: J init) ++ [47]) = true := rfl
        rw [hr]
        congr 1
        unfold comps
        rw [hr, splitOn_append_sep, splitOn_sep_cons, hsplit]
        show cleanComps true ([] :: (init ++ [[]])) = init
        rw [cleanComps_cons_empty, cleanComps_append_empty]
        exact cleanComps_canon hinit
      | false =>
        have : render false (init ++ [b]) = J init ++ 47 :: b := by
          simp only [render, Bool.false_eq_true, if_false, hne, J_concat b init hi]
        rw [this, pathSplit_append _ b hb, pathClean_eq_render]
        have hJne : J init ≠ [] := by
          intro e
          have := hsplit
          rw [e] at this
          cases init with
          | nil => exact hi rfl
          | cons c rest =>
            simp [splitOn] at this
            exact (hinit.elem c List.mem_cons_self).1 this.1
        have hr : isRooted (J init ++ [47]) = false := by
          rw [isRooted_append_ne_nil _ _ hJne]; exact isRooted_J_canon hinit
        rw [hr]
        congr 1
        unfold comps
        rw [hr, splitOn_append_sep, hsplit]
        show cleanComps false (init ++ [[]]) = init
        rw [cleanComps_append_empty]
        exact cleanComps_canon hinit

/-! ### filepath.Join with a name made of normal elements -/

/-- the elements of `n` are normal: `n` is a clean relative path without `..` -/
def NormalName (n : Bytes) : Prop := ∀ c ∈ splitOn 47 n, NormalElem c

theorem normalName_of_cfpSound {cfp : Bytes → Bool} (h : CfpSound cfp) {n : Bytes} (hn : cfp n = true) :
    NormalName n := by
  intro c hc
  have := h n hn c hc
  exact ⟨this.1, this.2.1, this.2.2, not_mem_of_mem_splitOn 47 n c hc⟩

theorem normalName_ne_nil {n : Bytes} (h : NormalName n) : n ≠ [] := by
  intro e; subst e
  exact (h [] (by simp [splitOn])).1 rfl

theorem normalName_not_rooted {n : Bytes} (h : NormalName n) : isRooted n = false := by
  cases n with
  | nil => rfl
  | cons c rest =>
    unfold isRooted
    split
    · rename_i heq
      injection heq with h1 _
      subst h1
      exact absurd rfl (h [] (by simp [splitOn])).1
    · rfl

theorem canon_normalName {r : Bool} {n : Bytes} (h : NormalName n) : Canon r (splitOn 47 n) := by
  have := canon_append_normal (canon_nil r) h
  simpa using this

theorem comps_normalName {n : Bytes} (h : NormalName n) : comps n = splitOn 47 n := by
  unfold comps
  exact cleanComps_canon (canon_normalName h)

/-- a name made of normal elements is clean -/
theorem pathClean_normalName {n : Bytes} (h : NormalName n) : pathClean n = n := by
  rw [pathClean_eq_render, normalName_not_rooted h, comps_normalName h]
  unfold render
  have : (splitOn 47 n).isEmpty = false := by
    cases hs : splitOn 47 n with
    | nil => exact absurd hs (splitOn_ne_nil 47 n)
    | cons _ _ => rfl
  simp only [Bool.false_eq_true, if_false, this]
  exact J_splitOn n

/-- `filepath.Join(dir, n)` keeps the components of `dir` and appends those of `n`. -/
theorem fpJoin_eq_render (dir : Bytes) {n : Bytes} (h : NormalName n) :
    fpJoin dir n = render (isRooted dir) (comps dir ++ splitOn 47 n) := by
  unfold fpJoin
  by_cases hd : dir = []
  · subst hd
    simp only [beq_self_eq_true, if_true]
    rw [pathClean_eq_render, normalName_not_rooted h, comps_normalName h]
    rfl
  · have hd' : (dir == []) = false := by simpa using hd
    have hn' : (n == []) = false := by simpa using normalName_ne_nil h
    simp only [hd', hn', Bool.false_eq_true, if_false]
    rw [pathClean_eq_render]
    have hr : isRooted (dir ++ [47] ++ n) = isRooted dir := by
      rw [List.append_assoc]; exact isRooted_append_ne_nil _ _ hd
    rw [hr]
    congr 1
    unfold comps
    rw [hr]
    have : dir ++ [47] ++ n = dir ++ 47 :: n := by simp
    rw [this, splitOn_append_sep, cleanComps_append_normal _ _ _ h]

theorem canon_join (dir : Bytes) {n : Bytes} (h : NormalName n) :
    Canon (isRooted dir) (comps dir ++ splitOn 47 n) :=
  canon_append_normal (canon_comps dir) h

theorem comps_fpJoin (dir : Bytes) {n : Bytes} (h : NormalName n) :
    comps (fpJoin dir n) = comps dir ++ splitOn 47 n := by
  rw [fpJoin_eq_render dir h]; exact comps_render (canon_join dir h)

theorem isRooted_fpJoin (dir : Bytes) {n : Bytes} (h : NormalName n) :
    isRooted (fpJoin dir n) = isRooted dir := by
  rw [fpJoin_eq_render dir h]; exact isRooted_render (canon_join dir h)

theorem pathDir_fpJoin (dir : Bytes) {n : Bytes} (h : NormalName n) :
    pathDir (fpJoin dir n) = render (isRooted dir) (comps dir ++ (splitOn 47 n).dropLast) := by
  rw [fpJoin_eq_render dir h, pathDir_render (canon_join dir h),
    List.dropLast_append_of_ne_nil (splitOn_ne_nil 47 n)]

theorem canon_join_dropLast (dir : Bytes) {n : Bytes} (h : NormalName n) :
    Canon (isRooted dir) (comps dir ++ (splitOn 47 n).dropLast) :=
  canon_append_normal (canon_comps dir) (fun c hc => h c (List.dropLast_subset _ hc))

/-- two names made of normal elements with the same destination are equal -/
theorem fpJoin_injective (dir : Bytes) {n m : Bytes} (hn : NormalName n) (hm : NormalName m)
    (h : fpJoin dir n = fpJoin dir m) : n = m := by
  have := congrArg comps h
  rw [comps_fpJoin dir hn, comps_fpJoin dir hm] at this
  have := List.append_cancel_left this
  rw [← J_splitOn n, ← J_splitOn m, this]

/-! ### confinement -/

theorem isUnder_refl (d : Bytes) : IsUnder d d := ⟨rfl, [], by simp, by simp⟩

theorem isUnder_fpJoin (dir : Bytes) {n : Bytes} (h : NormalName n) : IsUnder dir (fpJoin dir n) :=
  ⟨isRooted_fpJoin dir h, splitOn 47 n, comps_fpJoin dir h, fun hm => (h _ hm).2.2.1 rfl⟩

theorem isUnder_pathDir_fpJoin (dir : Bytes) {n : Bytes} (h : NormalName n) :
    IsUnder dir (pathDir (fpJoin dir n)) := by
  rw [pathDir_fpJoin dir h]
  exact ⟨isRooted_render (canon_join_dropLast dir h), (splitOn 47 n).dropLast,
    comps_render (canon_join_dropLast dir h), fun hm => (h _ (List.dropLast_subset _ hm)).2.2.1 rfl⟩

/-- being under `dir` and being under `Clean(dir)` are the same thing -/
theorem isUnder_clean_iff (d p : Bytes) : IsUnder (pathClean d) p ↔ IsUnder d p := by
  unfold IsUnder
  rw [comps_pathClean, isRooted_pathClean]

end ModVerif.Proofs.ZipB
