/-
  Helper lemmas for the tie of the regenerated `dirhash.DirFiles` / `HashDir`, part 3: paths.

  * `clean_eq_pathClean` : the dirhash model's `clean` and the shared `PathClean.pathClean` (which the run-time
                     vocabulary uses for `filepath.Clean`) are the same function.  The two component loops differ in
                     one unreachable case (`..` on top of a `..` in a rooted path);
  * `joinPath_eq_fpJoin` : `Dirhash.joinPath a b = GoRt.fpJoin a b` unless both are empty (`filepath.Join("", "")` is
                     `""` in the model and `"."` in the vocabulary; DirFiles never joins an empty relative path);
  * `fpJoin_step`  : one step of the walk: `fpJoin P n` for a normal element `n` appends `n` to the components of `P`;
  * `render_append`: the path of a file below the root is the root, a slash and the relative path.

  Core Lean only.
-/
import ModVerif.Basic.GoRtWalk
import ModVerif.Model.Dirhash
import ModVerif.Proofs.DirhashZip
import ModVerif.Proofs.ZipBPath
namespace ModVerif.TieFnDirhashDir
open ModVerif ModVerif.PathClean ModVerif.ZipSpec ModVerif.Proofs.ZipB

/-! ### `Dirhash.clean` = `PathClean.pathClean` -/

/-- invariant of both component loops: no empty element on the stack, and no `..` for a rooted path -/
def StackInv (r : Bool) (st : List Bytes) : Prop := (∀ c ∈ st, c ≠ []) ∧ (r = true → dotdot ∉ st)

theorem cleanStep_eq_step (r : Bool) (st : List Bytes) (c : Bytes) (h : StackInv r st) :
    Dirhash.cleanStep r st c = step r st c ∧ StackInv r (step r st c) := by
  unfold Dirhash.cleanStep step
  by_cases h1 : c = []
  · subst h1; simpa using h
  · have e1 : (c == []) = false := by simpa using h1
    have e1' : c.isEmpty = false := by simpa using h1
    by_cases h2 : c = [46]
    · subst h2; simpa using h
    · have e2 : (c == [46]) = false := by simpa using h2
      simp only [e1, e1', e2, Bool.or_self, Bool.false_eq_true, if_false]
      by_cases h3 : c = dotdot
      · subst h3
        have e3 : (Dirhash.dotdot : Bytes) = dotdot := rfl
        simp only [e3, beq_self_eq_true, if_true]
        cases st with
        | nil =>
          cases r with
          | true => exact ⟨rfl, by simp [StackInv]⟩
          | false => exact ⟨rfl, by simp [StackInv, dotdot]⟩
        | cons top below =>
          by_cases ht : top = dotdot
          · subst ht
            cases r with
            | true => exact absurd List.mem_cons_self (h.2 rfl)
            | false =>
              simp only [beq_self_eq_true, if_true, Bool.false_eq_true, if_false, true_and]
              exact ⟨fun c hc => by
                rcases List.mem_cons.1 hc with rfl | hc
                · simp [dotdot]
                · exact h.1 c hc, by simp⟩
          · have et : (top == dotdot) = false := by simpa using ht
            simp only [et, Bool.false_eq_true, if_false, true_and]
            exact ⟨fun c hc => h.1 c (List.mem_cons_of_mem _ hc),
              fun hr hm => h.2 hr (List.mem_cons_of_mem _ hm)⟩
      · have e3 : (c == dotdot) = false := by simpa using h3
        have e3' : (c == Dirhash.dotdot) = false := e3
        simp only [e3, e3', Bool.false_eq_true, if_false, true_and]
        exact ⟨fun d hd => by
          rcases List.mem_cons.1 hd with rfl | hd
          · exact h1
          · exact h.1 d hd, fun hr hm => by
          rcases List.mem_cons.1 hm with e | hm
          · exact h3 e.symm
          · exact h.2 hr hm⟩

theorem foldl_cleanStep_eq (r : Bool) : ∀ (cs st : List Bytes), StackInv r st →
    cs.foldl (Dirhash.cleanStep r) st = cs.foldl (step r) st ∧ StackInv r (cs.foldl (step r) st)
  | [], _, h => ⟨rfl, h⟩
  | c :: cs, st, h => by
    have h1 := cleanStep_eq_step r st c h
    simp only [List.foldl_cons, h1.1]
    exact foldl_cleanStep_eq r cs _ h1.2

theorem J_eq_nil_iff : ∀ cs : List Bytes, (∀ c ∈ cs, c ≠ []) → (J cs = [] ↔ cs = [])
  | [], _ => by simp [J, joinWith]
  | [x], h => by simpa [J, joinWith] using h x (by simp)
  | x :: y :: rest, _ => by rw [J_cons_cons]; simp

theorem head_eq_isRooted (p : Bytes) : (p.head? == some Dirhash.slash) = isRooted p := by
  cases p with
  | nil => rfl
  | cons c rest =>
    unfold isRooted
    by_cases hc : c = 47
    · subst hc; rfl
    · have : (some c == some Dirhash.slash) = false := by simpa [Dirhash.slash] using hc
      simp only [List.head?_cons, this]
      split
      · rename_i heq; injection heq with h1 _; exact absurd h1 hc
      · rfl

/-- ★ the model's `filepath.Clean` is the shared `path.Clean` -/
theorem clean_eq_pathClean (p : Bytes) : Dirhash.clean p = pathClean p := by
  unfold Dirhash.clean pathClean
  by_cases hp : p = []
  · subst hp; rfl
  · have e1 : p.isEmpty = false := by simpa using hp
    have e2 : (p == []) = false := by simpa using hp
    simp only [e1, e2, Bool.false_eq_true, if_false, head_eq_isRooted]
    have hf := foldl_cleanStep_eq (isRooted p) (splitOn 47 p) [] ⟨by simp, by simp⟩
    have hs : Dirhash.slash = 47 := rfl
    simp only [hs, hf.1]
    show (if isRooted p = true then 47 :: J (comps p) else if (J (comps p)).isEmpty = true then [46] else J (comps p)) = _
    cases hr : isRooted p with
    | true => rfl
    | false =>
      simp only [Bool.false_eq_true, if_false]
      have hne : ∀ c ∈ comps p, c ≠ [] := by
        intro c hc
        unfold comps cleanComps at hc
        exact hf.2.1 c (List.mem_reverse.1 hc)
      have : (J (comps p)).isEmpty = (comps p).isEmpty := by
        rw [Bool.eq_iff_iff]
        simp only [List.isEmpty_iff]
        exact J_eq_nil_iff _ hne
      rw [this]

/-- ★ the model's `filepath.Join` is the vocabulary's, unless both arguments are empty -/
theorem joinPath_eq_fpJoin (a b : Bytes) (h : a ≠ [] ∨ b ≠ []) : Dirhash.joinPath a b = GoRt.fpJoin a b := by
  unfold Dirhash.joinPath GoRt.fpJoin GoRt.pathClean
  by_cases ha : a = []
  · subst ha
    have hb : b ≠ [] := by simpa using h
    have e : b.isEmpty = false := by simpa using hb
    simp [e, clean_eq_pathClean]
  · have e : a.isEmpty = false := by simpa using ha
    have e' : (a == []) = false := by simpa using ha
    by_cases hb : b = []
    · subst hb; simp [e, e', clean_eq_pathClean]
    · have f : b.isEmpty = false := by simpa using hb
      have f' : (b == []) = false := by simpa using hb
      simp [e, e', f, f', clean_eq_pathClean, Dirhash.slash]

/-! ### the paths of a walk -/

theorem normalName_single {n : Bytes} (h : NormalElem n) : splitOn 47 n = [n] ∧ NormalName n := by
  have hs : splitOn 47 n = [n] := splitOn_noSep 47 n h.2.2.2
  refine ⟨hs, ?_⟩
  intro c hc
  rw [hs] at hc
  rcases List.mem_cons.1 hc with rfl | hc
  · exact h
  · simp at hc

/-- one step of the walk: `filepath.Join(P, n)` for a normal element `n` -/
theorem fpJoin_step (P : Bytes) {n : Bytes} (h : NormalElem n) :
    GoRt.fpJoin P n = render (isRooted P) (comps P ++ [n]) ∧
    isRooted (GoRt.fpJoin P n) = isRooted P ∧ comps (GoRt.fpJoin P n) = comps P ++ [n] := by
  obtain ⟨hs, hn⟩ := normalName_single h
  have e : GoRt.fpJoin P n = Zip.fpJoin P n := rfl
  rw [e]
  refine ⟨?_, isRooted_fpJoin P hn, ?_⟩
  · rw [fpJoin_eq_render P hn, hs]
  · rw [comps_fpJoin P hn, hs]

theorem J_append : ∀ (a b : List Bytes), a ≠ [] → b ≠ [] → J (a ++ b) = J a ++ 47 :: J b
  | [], _, h, _ => absurd rfl h
  | [x], [], _, h => absurd rfl h
  | [x], y :: ys, _, _ => by
    show J (x :: y :: ys) = _
    rw [J_cons_cons]; rfl
  | x :: x' :: xs, b, _, hb => by
    have ih := J_append (x' :: xs) b (by simp) hb
    simp only [List.cons_append] at ih ⊢
    rw [J_cons_cons, ih, J_cons_cons]
    simp

/-- below a root that is neither `/` nor `.`: root, slash, relative path -/
theorem render_append (r : Bool) {base q : List Bytes} (hb : base ≠ []) (hq : q ≠ []) :
    render r (base ++ q) = render r base ++ 47 :: J q := by
  unfold render
  have e1 : (base ++ q).isEmpty = false := by simp [hb]
  have e2 : base.isEmpty = false := by simpa using hb
  cases r with
  | true => simp [J_append base q hb hq]
  | false => simp [e1, e2, J_append base q hb hq]

theorem render_false_nil_append {q : List Bytes} (hq : q ≠ []) : render false ([] ++ q) = J q := by
  unfold render
  have e : q.isEmpty = false := by simpa using hq
  simp [e]

theorem render_eq_dot_iff {base : List Bytes} (h : Canon false base) : render false base = [46] ↔ base = [] := by
  constructor
  · intro e
    have := comps_render h
    rw [e] at this
    rw [← this]; decide
  · rintro rfl; rfl

end ModVerif.TieFnDirhashDir
