/-
  Helper lemmas for Tie/FnRuleAdd.lean, part P: the fuel bound `TreeFuel` as a COMPUTABLE check `treeFuelB` on the parsed
  tree (`treeFuel_of_B`), so that the hypothesis of `parseToFile_tie` / `ParseWork_tie` can be decided for a concrete
  input by kernel evaluation.
  Owner: rule-add.
-/
import ModVerif.Proofs.TieFnRuleAddO
set_option linter.unusedSimpArgs false
set_option linter.unusedVariables false
namespace ModVerif.Tie.FnRuleAddP
open ModVerif ModVerif.Modfile ModVerif.Tie.FnRuleAddH ModVerif.Tie.FnRuleAddM ModVerif.Tie.FnRuleAddO
open ModVerif.Tie.FnRuleLeafA (comLen)
open ModVerif.Tie.FnRuleLeafB (tokSum)
open ModVerif.Proofs.ModfileC20 (linesOf)

/-- twice the length of the version the fixer returns for the first two arguments, if it returns one, is at most `F` -/
def verOKB (F : Nat) (fx : Option Fixer) (args : List Bytes) : Bool :=
  match args with
  | a0 :: a1 :: _ =>
    match parseString a0 with
    | some (s, _) =>
      match parseVersion s a1 fx with
      | (_, .ok v) => decide (2 * v.length ≤ F)
      | _ => true
    | none => true
  | _ => true

theorem verOKB_spec {F : Nat} {fx : Option Fixer} {args : List Bytes} (h : verOKB F fx args = true) :
    ∀ a0 a1 rest s a0' a1' v, args = a0 :: a1 :: rest → parseString a0 = some (s, a0') →
      parseVersion s a1 fx = (a1', .ok v) → 2 * v.length ≤ F := by
  intro a0 a1 rest s a0' a1' v e1 e2 e3
  subst e1
  simp only [verOKB, e2, e3, decide_eq_true_eq] at h
  exact h

def lineFuelB (F : Nat) (bc : Option Comments) (fx : Option Fixer) (l : Line) (args : List Bytes) : Bool :=
  decide (32 * tokSum l.token + 1 ≤ F) && decide (comLen l.comments + (bc.map comLen).getD 0 + 3 ≤ F) && verOKB F fx args

theorem lineFuelB_spec {F : Nat} {bc : Option Comments} {fx : Option Fixer} {l : Line} {args : List Bytes}
    (h : lineFuelB F bc fx l args = true) : LineFuel F bc fx l args := by
  simp only [lineFuelB, Bool.and_eq_true, decide_eq_true_eq] at h
  exact ⟨h.1.1, h.1.2, verOKB_spec h.2⟩

def stmtFuelB (F : Nat) (fx : Option Fixer) : Expr → Bool
  | .line l => (match l.token with | _ :: args => lineFuelB F none fx l args | [] => true)
  | .lineBlock b => b.lines.all (fun l => lineFuelB F (some b.comments) fx l l.token)
  | _ => true

/-- **the fuel bound as a check on the parsed tree** -/
def treeFuelB (F fuel : Nat) (fx : Option Fixer) (fs : FileSyntax) : Bool :=
  decide (1 ≤ F) && decide (F + maxBlock fs.stmts + fs.stmts.length + 2 ≤ fuel) &&
  decide (F + (linesOf fs.stmts).length + 1 ≤ fuel) &&
  (linesOf fs.stmts).all (fun l => decide (32 * tokSum l.token + 1 ≤ F)) && fs.stmts.all (stmtFuelB F fx)

theorem treeFuel_of_B {F fuel : Nat} {fx : Option Fixer} {fs : FileSyntax} (h : treeFuelB F fuel fx fs = true) : TreeFuel F fuel fx fs := by
  simp only [treeFuelB, Bool.and_eq_true, decide_eq_true_eq, List.all_eq_true] at h
  obtain ⟨⟨⟨⟨h1, h2⟩, h3⟩, h4⟩, h5⟩ := h
  refine ⟨h1, h2, h3, h4, ?_, ?_⟩
  · intro l hl verb args htok
    have := h5 _ hl
    simp only [stmtFuelB, htok] at this
    exact lineFuelB_spec this
  · intro b hb l hl
    have := h5 _ hb
    simp only [stmtFuelB, List.all_eq_true] at this
    exact lineFuelB_spec (this l hl)

/-- the check for an input: vacuous on a syntax error -/
def inputFuelB (F fuel : Nat) (name data : Bytes) (fx : Option Fixer) : Bool :=
  match parse name data with
  | .ok fs => treeFuelB F fuel fx fs
  | .error _ => true

theorem treeFuel_of_input {F fuel : Nat} {name data : Bytes} {fx : Option Fixer} (h : inputFuelB F fuel name data fx = true) :
    ∀ fs, parse name data = .ok fs → TreeFuel F fuel fx fs := by
  intro fs hp
  simp only [inputFuelB, hp] at h
  exact treeFuel_of_B h

end ModVerif.Tie.FnRuleAddP
