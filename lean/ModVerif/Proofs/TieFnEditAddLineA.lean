/-
  Helper lemmas for Tie/FnEditAddLine.lean, part A: the elementary representation of a syntax graph of the EDIT unit
  (Generated/FnEdit.lean, heap of objects) by a model statement list, frame lemmas, and the list lemmas behind the
  slice surgery of `FileSyntax.addLine` (`append(nil); copy(s[i+2:], s[i+1:]); s[i+1] = new`) and the two-pointer
  compaction of `FileSyntax.Cleanup`.

  A line pointer IS the model line id (`RLine`: `p = l.id`).  Nothing here needs the typed lists of `*File`.
-/
import ModVerif.Proofs.TieFnEditRep
import ModVerif.Proofs.GoRtLemmas
set_option linter.unusedSimpArgs false
set_option linter.unusedVariables false
namespace ModVerif.TieFnEditAddLine
open ModVerif ModVerif.GoRt
open ModVerif.Generated.Edit
open ModVerif.Tie.FnEditRep
open ModVerif.Modfile.Edit (treeIds)

/-! ### heap objects of model nodes (definitions: Proofs/TieFnEditRep.lean) -/

theorem blockG_setLine (b : Modfile.LineBlock) (ps qs : List Int) :
    { blockG b ps with Line := qs } = blockG b qs := rfl

theorem lineG_new (id : Nat) (tokens : List Bytes) :
    ({ (default : Line) with Token := tokens } : Line) = lineG (Modfile.Edit.mkLine id tokens false) := rfl

theorem lineG_newIn (id : Nat) (tokens : List Bytes) :
    ({ (default : Line) with Token := tokens, InBlock := true } : Line) = lineG (Modfile.Edit.mkLine id tokens true) := rfl

@[simp] theorem blockG_RParen_Before (b : Modfile.LineBlock) (ps : List Int) :
    (blockG b ps).RParen.Comments.Before = b.rparen.comments.before.map comG := rfl

/-! ### representation relations: unfolding lemmas -/

@[simp] theorem RLines_nil (h : Heap) : RLines h [] [] = True := rfl
@[simp] theorem RLines_cons (h : Heap) (p : Int) (ps : List Int) (l : Modfile.Line) (ls : List Modfile.Line) :
    RLines h (p :: ps) (l :: ls) = (RLine h p l ∧ RLines h ps ls) := rfl
@[simp] theorem RLines_nil_cons (h : Heap) (l : Modfile.Line) (ls : List Modfile.Line) : RLines h [] (l :: ls) = False := rfl
@[simp] theorem RLines_cons_nil (h : Heap) (p : Int) (ps : List Int) : RLines h (p :: ps) [] = False := rfl
@[simp] theorem RStmts_nil (h : Heap) : RStmts h [] [] = True := rfl
@[simp] theorem RStmts_cons (h : Heap) (e : Expr) (es : List Expr) (s : Modfile.Expr) (ss : List Modfile.Expr) :
    RStmts h (e :: es) (s :: ss) = (RExpr h e s ∧ RStmts h es ss) := rfl
@[simp] theorem RStmts_nil_cons (h : Heap) (s : Modfile.Expr) (ss : List Modfile.Expr) : RStmts h [] (s :: ss) = False := rfl
@[simp] theorem RStmts_cons_nil (h : Heap) (e : Expr) (es : List Expr) : RStmts h (e :: es) [] = False := rfl

/-- splitting a represented list at a split of the pointer list -/
theorem RStmts_split {h : Heap} : ∀ {es fs : List Expr} {ss : List Modfile.Expr}, RStmts h (es ++ fs) ss →
    ∃ s1 s2, ss = s1 ++ s2 ∧ RStmts h es s1 ∧ RStmts h fs s2
  | [], fs, ss, hr => ⟨[], ss, rfl, by simp, by simpa using hr⟩
  | e :: es, fs, [], hr => by simp at hr
  | e :: es, fs, s :: ss, hr => by
    simp only [List.cons_append, RStmts_cons] at hr
    obtain ⟨s1, s2, rfl, h1, h2⟩ := RStmts_split hr.2
    exact ⟨s :: s1, s2, rfl, by simp [hr.1, h1], h2⟩

theorem RLines_split {h : Heap} : ∀ {ps qs : List Int} {ls : List Modfile.Line}, RLines h (ps ++ qs) ls →
    ∃ l1 l2, ls = l1 ++ l2 ∧ RLines h ps l1 ∧ RLines h qs l2
  | [], qs, ls, hr => ⟨[], ls, rfl, by simp, by simpa using hr⟩
  | p :: ps, qs, [], hr => by simp at hr
  | p :: ps, qs, l :: ls, hr => by
    simp only [List.cons_append, RLines_cons] at hr
    obtain ⟨l1, l2, rfl, h1, h2⟩ := RLines_split hr.2
    exact ⟨l :: l1, l2, rfl, by simp [hr.1, h1], h2⟩

/-! ### ids and block pointers -/

def lineIds (ls : List Modfile.Line) : List Nat := ls.map (·.id)

/-- the ids of all lines below a statement list, in source order -/
def stmtIds : List Modfile.Expr → List Nat
  | [] => []
  | .line l :: ss => l.id :: stmtIds ss
  | .lineBlock b :: ss => lineIds b.lines ++ stmtIds ss
  | _ :: ss => stmtIds ss

theorem stmtIds_append : ∀ (a b : List Modfile.Expr), stmtIds (a ++ b) = stmtIds a ++ stmtIds b
  | [], b => rfl
  | .line l :: a, b => by simp [stmtIds, stmtIds_append a b]
  | .lineBlock x :: a, b => by simp [stmtIds, stmtIds_append a b]
  | .commentBlock x :: a, b => by simp [stmtIds, stmtIds_append a b]
  | .lparen x :: a, b => by simp [stmtIds, stmtIds_append a b]
  | .rparen x :: a, b => by simp [stmtIds, stmtIds_append a b]

theorem blockPtrs_append : ∀ (a b : List Expr), blockPtrs (a ++ b) = blockPtrs a ++ blockPtrs b
  | [], b => rfl
  | .LineBlock p :: a, b => by simp [blockPtrs, blockPtrs_append a b]
  | .Line p :: a, b => by simp [blockPtrs, blockPtrs_append a b]
  | .CommentBlock p :: a, b => by simp [blockPtrs, blockPtrs_append a b]
  | .LParen p :: a, b => by simp [blockPtrs, blockPtrs_append a b]
  | .RParen p :: a, b => by simp [blockPtrs, blockPtrs_append a b]
  | .FileSyntax p :: a, b => by simp [blockPtrs, blockPtrs_append a b]
  | .nil :: a, b => by simp [blockPtrs, blockPtrs_append a b]

theorem treeIds_eq_stmtIds : ∀ (ss : List Modfile.Expr), treeIds ss = stmtIds ss
  | [] => rfl
  | s :: ss => by
    rw [Modfile.Edit.treeIds_cons, treeIds_eq_stmtIds ss]
    cases s <;> simp [treeIds, Modfile.Edit.loc, Modfile.Edit.locStmt, stmtIds, lineIds, List.map_map, Function.comp_def]

theorem BlockTokOK_cons {s : Modfile.Expr} {ss : List Modfile.Expr} (h : BlockTokOK (s :: ss)) : BlockTokOK ss :=
  fun b hb => h b (List.mem_cons_of_mem _ hb)

theorem BlockTokOK_head {b : Modfile.LineBlock} {ss : List Modfile.Expr} (h : BlockTokOK (.lineBlock b :: ss)) : b.token ≠ [] :=
  h b List.mem_cons_self

theorem BlockTokOK_append {a b : List Modfile.Expr} (ha : BlockTokOK a) (hb : BlockTokOK b) : BlockTokOK (a ++ b) :=
  fun x hx => (List.mem_append.1 hx).elim (ha x) (hb x)

/-- loop fuel: one per statement plus one per block line -/
def nodeCount : List Modfile.Expr → Nat
  | [] => 0
  | .lineBlock b :: ss => 1 + b.lines.length + nodeCount ss
  | _ :: ss => 1 + nodeCount ss

/-! ### pointers are allocated -/

theorem RLine_bound {h : Heap} {p : Int} {l : Modfile.Line} (hr : RLine h p l) : 0 < p ∧ p.toNat ≤ h.lines.length :=
  ⟨heapGet_pos hr.1, heapGet_le_length hr.1⟩

theorem RLine_id_bound {h : Heap} {p : Int} {l : Modfile.Line} (hr : RLine h p l) : 0 < l.id ∧ l.id ≤ h.lines.length := by
  have := RLine_bound hr
  have := hr.2
  omega

theorem RLines_id_bound {h : Heap} : ∀ {ps : List Int} {ls : List Modfile.Line}, RLines h ps ls →
    ∀ i ∈ lineIds ls, 0 < i ∧ i ≤ h.lines.length
  | [], [], _, i, hi => by simp [lineIds] at hi
  | p :: ps, l :: ls, hr, i, hi => by
    simp only [RLines_cons] at hr
    simp only [lineIds, List.map_cons, List.mem_cons] at hi
    rcases hi with rfl | hi
    · exact RLine_id_bound hr.1
    · exact RLines_id_bound hr.2 i hi
  | [], _ :: _, hr, _, _ => by simp at hr
  | _ :: _, [], hr, _, _ => by simp at hr

theorem RLines_ptrs {h : Heap} : ∀ {ps : List Int} {ls : List Modfile.Line}, RLines h ps ls →
    ps = (lineIds ls).map (fun (n : Nat) => (n : Int))
  | [], [], _ => rfl
  | p :: ps, l :: ls, hr => by
    simp only [RLines_cons] at hr
    simp only [lineIds, List.map_cons, List.map_map]
    rw [hr.1.2, RLines_ptrs hr.2]; simp [lineIds]
  | [], _ :: _, hr => by simp at hr
  | _ :: _, [], hr => by simp at hr

theorem RStmts_id_bound {h : Heap} : ∀ {es : List Expr} {ss : List Modfile.Expr}, RStmts h es ss →
    ∀ i ∈ stmtIds ss, 0 < i ∧ i ≤ h.lines.length
  | [], [], _, i, hi => by simp [stmtIds] at hi
  | e :: es, s :: ss, hr, i, hi => by
    simp only [RStmts_cons] at hr
    cases s with
    | line l =>
      cases e <;> simp only [RExpr] at hr <;> try exact hr.1.elim
      simp only [stmtIds, List.mem_cons] at hi
      rcases hi with rfl | hi
      · exact RLine_id_bound hr.1
      · exact RStmts_id_bound hr.2 i hi
    | lineBlock b =>
      cases e <;> simp only [RExpr] at hr <;> try exact hr.1.elim
      obtain ⟨⟨ps, _, hps⟩, hr2⟩ := hr
      simp only [stmtIds, List.mem_append] at hi
      rcases hi with hi | hi
      · exact RLines_id_bound hps i hi
      · exact RStmts_id_bound hr2 i hi
    | commentBlock c => simp only [stmtIds] at hi; exact RStmts_id_bound hr.2 i hi
    | lparen c => simp only [stmtIds] at hi; exact RStmts_id_bound hr.2 i hi
    | rparen c => simp only [stmtIds] at hi; exact RStmts_id_bound hr.2 i hi
  | [], _ :: _, hr, _, _ => by simp at hr
  | _ :: _, [], hr, _, _ => by simp at hr

theorem RStmts_block_bound {h : Heap} : ∀ {es : List Expr} {ss : List Modfile.Expr}, RStmts h es ss →
    ∀ p ∈ blockPtrs es, 0 < p ∧ p.toNat ≤ h.blocks.length
  | [], [], _, i, hi => by simp [blockPtrs] at hi
  | e :: es, s :: ss, hr, i, hi => by
    simp only [RStmts_cons] at hr
    cases e with
    | LineBlock p =>
      cases s <;> simp only [RExpr] at hr <;> try exact hr.1.elim
      obtain ⟨⟨ps, hb, _⟩, hr2⟩ := hr
      simp only [blockPtrs, List.mem_cons] at hi
      rcases hi with rfl | hi
      · exact ⟨heapGet_pos hb, heapGet_le_length hb⟩
      · exact RStmts_block_bound hr2 i hi
    | Line p => simp only [blockPtrs] at hi; exact RStmts_block_bound hr.2 i hi
    | CommentBlock p => simp only [blockPtrs] at hi; exact RStmts_block_bound hr.2 i hi
    | LParen p => simp only [blockPtrs] at hi; exact RStmts_block_bound hr.2 i hi
    | RParen p => simp only [blockPtrs] at hi; exact RStmts_block_bound hr.2 i hi
    | FileSyntax p => simp only [blockPtrs] at hi; exact RStmts_block_bound hr.2 i hi
    | nil => simp only [blockPtrs] at hi; exact RStmts_block_bound hr.2 i hi
  | [], _ :: _, hr, _, _ => by simp at hr
  | _ :: _, [], hr, _, _ => by simp at hr

/-! ### frame lemmas: the relations read `cbs`, `lines`, `blocks` only -/

theorem RLine_congr {h h' : Heap} (hl : h'.lines = h.lines) {p : Int} {l : Modfile.Line} :
    RLine h' p l ↔ RLine h p l := by unfold RLine; rw [hl]

theorem RLines_congr {h h' : Heap} (hl : h'.lines = h.lines) : ∀ {ps : List Int} {ls : List Modfile.Line},
    RLines h' ps ls ↔ RLines h ps ls
  | [], [] => by simp
  | p :: ps, l :: ls => by simp only [RLines_cons, RLine_congr hl, RLines_congr hl (ps := ps) (ls := ls)]
  | [], _ :: _ => by simp
  | _ :: _, [] => by simp

theorem RExpr_congr {h h' : Heap} (hc : h'.cbs = h.cbs) (hl : h'.lines = h.lines) (hb : h'.blocks = h.blocks)
    {e : Expr} {s : Modfile.Expr} : RExpr h' e s ↔ RExpr h e s := by
  cases e <;> cases s <;> simp only [RExpr, hc, hb, RLine_congr hl, RLines_congr hl]

theorem RStmts_congr {h h' : Heap} (hc : h'.cbs = h.cbs) (hl : h'.lines = h.lines) (hb : h'.blocks = h.blocks) :
    ∀ {es : List Expr} {ss : List Modfile.Expr}, RStmts h' es ss ↔ RStmts h es ss
  | [], [] => by simp
  | e :: es, s :: ss => by simp only [RStmts_cons, RExpr_congr hc hl hb, RStmts_congr hc hl hb (es := es) (ss := ss)]
  | [], _ :: _ => by simp
  | _ :: _, [] => by simp

/-- `h'` keeps `cbs`, the block objects, and every line object whose id is not `q`; more objects may exist -/
structure LinesBut (q : Nat) (h h' : Heap) : Prop where
  cbs : h'.cbs = h.cbs
  blocks : ∀ (p : Int) (v : LineBlock), heapGet h.blocks p = .ok v → heapGet h'.blocks p = .ok v
  lines : ∀ (p : Int) (v : Line), p ≠ (q : Int) → heapGet h.lines p = .ok v → heapGet h'.lines p = .ok v

theorem RLine_linesBut {q : Nat} {h h' : Heap} (hx : LinesBut q h h') {p : Int} {l : Modfile.Line}
    (hr : RLine h p l) (hq : l.id ≠ q) : RLine h' p l :=
  ⟨hx.lines p _ (by rw [hr.2]; omega) hr.1, hr.2⟩

theorem RLines_linesBut {q : Nat} {h h' : Heap} (hx : LinesBut q h h') : ∀ {ps : List Int} {ls : List Modfile.Line},
    RLines h ps ls → q ∉ lineIds ls → RLines h' ps ls
  | [], [], _, _ => by simp
  | p :: ps, l :: ls, hr, hq => by
    simp only [RLines_cons] at hr ⊢
    simp only [lineIds, List.map_cons, List.mem_cons, not_or] at hq
    exact ⟨RLine_linesBut hx hr.1 (fun e => hq.1 e.symm), RLines_linesBut hx hr.2 hq.2⟩
  | [], _ :: _, hr, _ => by simp at hr
  | _ :: _, [], hr, _ => by simp at hr

/-- `h'` keeps `cbs` and every block object except the one at `q`; line objects are kept (more may exist) -/
structure BlocksBut (q : Int) (h h' : Heap) : Prop where
  cbs : h'.cbs = h.cbs
  lines : ∀ (p : Int) (v : Line), heapGet h.lines p = .ok v → heapGet h'.lines p = .ok v
  blocks : ∀ (p : Int) (v : LineBlock), p ≠ q → heapGet h.blocks p = .ok v → heapGet h'.blocks p = .ok v

theorem RLine_keep {h h' : Heap} (hx : ∀ (p : Int) (v : Line), heapGet h.lines p = .ok v → heapGet h'.lines p = .ok v)
    {p : Int} {l : Modfile.Line} (hr : RLine h p l) : RLine h' p l := ⟨hx p _ hr.1, hr.2⟩

theorem RLines_keep {h h' : Heap} (hx : ∀ (p : Int) (v : Line), heapGet h.lines p = .ok v → heapGet h'.lines p = .ok v) :
    ∀ {ps : List Int} {ls : List Modfile.Line}, RLines h ps ls → RLines h' ps ls
  | [], [], _ => by simp
  | p :: ps, l :: ls, hr => by
    simp only [RLines_cons] at hr ⊢
    exact ⟨RLine_keep hx hr.1, RLines_keep hx hr.2⟩
  | [], _ :: _, hr => by simp at hr
  | _ :: _, [], hr => by simp at hr

theorem RStmts_blocksBut {q : Int} {h h' : Heap} (hx : BlocksBut q h h') : ∀ {es : List Expr} {ss : List Modfile.Expr},
    RStmts h es ss → q ∉ blockPtrs es → RStmts h' es ss
  | [], [], _, _ => by simp
  | e :: es, s :: ss, hr, hq => by
    simp only [RStmts_cons] at hr ⊢
    cases e with
    | LineBlock p =>
      simp only [blockPtrs, List.mem_cons, not_or] at hq
      refine ⟨?_, RStmts_blocksBut hx hr.2 hq.2⟩
      cases s <;> simp only [RExpr] at hr ⊢ <;> try exact hr.1
      obtain ⟨ps, hb, hps⟩ := hr.1
      exact ⟨ps, hx.blocks p _ (fun e => hq.1 e.symm) hb, RLines_keep hx.lines hps⟩
    | Line p =>
      simp only [blockPtrs] at hq
      refine ⟨?_, RStmts_blocksBut hx hr.2 hq⟩
      cases s <;> simp only [RExpr] at hr ⊢ <;> try exact hr.1
      exact RLine_keep hx.lines hr.1
    | CommentBlock p =>
      simp only [blockPtrs] at hq
      refine ⟨?_, RStmts_blocksBut hx hr.2 hq⟩
      cases s <;> simp only [RExpr] at hr ⊢ <;> try exact hr.1
      rw [hx.cbs]; exact hr.1
    | LParen p => cases s <;> simp only [RExpr] at hr <;> exact hr.1.elim
    | RParen p => cases s <;> simp only [RExpr] at hr <;> exact hr.1.elim
    | FileSyntax p => cases s <;> simp only [RExpr] at hr <;> exact hr.1.elim
    | nil => cases s <;> simp only [RExpr] at hr <;> exact hr.1.elim
  | [], _ :: _, hr, _ => by simp at hr
  | _ :: _, [], hr, _ => by simp at hr

theorem RStmts_linesBut {q : Nat} {h h' : Heap} (hx : LinesBut q h h') : ∀ {es : List Expr} {ss : List Modfile.Expr},
    RStmts h es ss → q ∉ stmtIds ss → RStmts h' es ss
  | [], [], _, _ => by simp
  | e :: es, s :: ss, hr, hq => by
    simp only [RStmts_cons] at hr ⊢
    cases s with
    | line l =>
      simp only [stmtIds, List.mem_cons, not_or] at hq
      refine ⟨?_, RStmts_linesBut hx hr.2 hq.2⟩
      cases e <;> simp only [RExpr] at hr ⊢ <;> try exact hr.1
      exact RLine_linesBut hx hr.1 (fun e => hq.1 e.symm)
    | lineBlock b =>
      simp only [stmtIds, List.mem_append, not_or] at hq
      refine ⟨?_, RStmts_linesBut hx hr.2 hq.2⟩
      cases e <;> simp only [RExpr] at hr ⊢ <;> try exact hr.1
      obtain ⟨ps, hb, hps⟩ := hr.1
      exact ⟨ps, hx.blocks _ _ hb, RLines_linesBut hx hps hq.1⟩
    | commentBlock c =>
      simp only [stmtIds] at hq
      refine ⟨?_, RStmts_linesBut hx hr.2 hq⟩
      cases e <;> simp only [RExpr] at hr ⊢ <;> try exact hr.1
      rw [hx.cbs]; exact hr.1
    | lparen c => cases e <;> simp only [RExpr] at hr <;> exact hr.1.elim
    | rparen c => cases e <;> simp only [RExpr] at hr <;> exact hr.1.elim
  | [], _ :: _, hr, _ => by simp at hr
  | _ :: _, [], hr, _ => by simp at hr

/-! ### list surgery -/

/-- `s = append(s, z); copy(s[k+2:], s[k+1:]); s[k+1] = v` inserts `v` after position `k` -/
theorem insert_via_copy {α : Type} (a : List α) (s : α) (b : List α) (z v : α) {i : Int} (hi : i = (a.length : Int)) :
    (do let src ← sliceFrom ((a ++ s :: b) ++ [z]) (i + 1)
        let d ← copyAtL ((a ++ s :: b) ++ [z]) (i + 2) src
        setIdxL d (i + 1) v) = (.ok (a ++ s :: v :: b) : M (List α)) := by
  subst hi
  have e1 : ((a.length : Int) + 1) = ((a.length + 1 : Nat) : Int) := by omega
  have e2 : ((a.length : Int) + 2) = ((a.length + 2 : Nat) : Int) := by omega
  have hL : (a ++ s :: b) ++ [z] = a ++ (s :: (b ++ [z])) := by simp
  have hlenL : (a ++ (s :: (b ++ [z]))).length = a.length + b.length + 2 := by simp; omega
  rw [hL, e1, e2, sliceFrom_natCast (by rw [hlenL]; omega)]
  have hd : (a ++ (s :: (b ++ [z]))).drop (a.length + 1) = b ++ [z] := by
    rw [List.drop_length_add_append]; rfl
  simp only [bind_ok, hd]
  unfold copyAtL
  have hc : ¬ ((((a.length + 2 : Nat) : Int)) < 0 ∨ (((a.length + 2 : Nat) : Int)) > ((a ++ (s :: (b ++ [z]))).length : Int)) := by
    rw [hlenL]; omega
  simp only [hc, if_false, Int.toNat_natCast]
  have hn : min ((a ++ (s :: (b ++ [z]))).length - (a.length + 2)) (b ++ [z]).length = b.length := by
    rw [hlenL]; simp only [List.length_append, List.length_cons, List.length_nil]; omega
  rw [hn]
  have ht : (b ++ [z]).take b.length = b := by simp
  have hdr : (a ++ (s :: (b ++ [z]))).drop (a.length + 2 + b.length) = [] := by
    apply List.drop_eq_nil_of_le; rw [hlenL]; omega
  rw [ht, hdr]
  have htk : (a ++ (s :: (b ++ [z]))).take (a.length + 2) = a ++ s :: (b ++ [z]).take 1 := by
    rw [List.take_length_add_append]; rfl
  rw [htk]
  simp only [pure, Except.pure, bind_ok, List.append_nil]
  unfold setIdxL
  have hlen : ((a ++ s :: List.take 1 (b ++ [z])) ++ b).length = a.length + 2 + b.length := by
    cases b <;> simp <;> omega
  have hc2 : (0 : Int) ≤ ((a.length + 1 : Nat) : Int) ∧ ((a.length + 1 : Nat) : Int) < len ((a ++ s :: List.take 1 (b ++ [z])) ++ b) := by
    rw [len_eq, hlen]; omega
  simp only [hc2, and_self, if_true, Int.toNat_natCast, pure, Except.pure]
  congr 1
  cases b with
  | nil => simp [List.set_append]
  | cons b0 b => simp [List.set_append]

/-- the two-pointer compaction: after writing `v` at the write index -/
theorem set_compact {α : Type} (out : List α) (rest : List α) (v : α) (hr : rest ≠ []) :
    (out ++ rest).set out.length v = (out ++ [v]) ++ rest.drop 1 := by
  cases rest with
  | nil => exact absurd rfl hr
  | cons r rs => simp [List.set_append]

theorem bind_eq_ok {α β : Type} {x : M α} {f : α → M β} {r : β} (h : (x >>= f) = .ok r) : ∃ a, x = .ok a ∧ f a = .ok r := by
  cases x with
  | error e => cases h
  | ok a => exact ⟨a, rfl, h⟩

/-- `insert_via_copy`, step by step -/
theorem insert_via_copy_steps {α : Type} (a : List α) (s : α) (b : List α) (z v : α) {i : Int} (hi : i = (a.length : Int)) :
    ∃ src d, sliceFrom ((a ++ s :: b) ++ [z]) (i + 1) = .ok src ∧ copyAtL ((a ++ s :: b) ++ [z]) (i + 2) src = .ok d ∧
      setIdxL d (i + 1) v = .ok (a ++ s :: v :: b) := by
  obtain ⟨src, h1, h2⟩ := bind_eq_ok (insert_via_copy a s b z v hi)
  obtain ⟨d, h3, h4⟩ := bind_eq_ok h2
  exact ⟨src, d, h1, h3, h4⟩

end ModVerif.TieFnEditAddLine
