/-
  EditMore, part 23 — **C16 `comments_survive`, SetRequire** (`setRequire_comments`): the line of the first existing
  requirement of a requested path keeps its non-blank `Before` comments and its `Suffix` comments as `setIndirect`
  rewrites them, through the loop, the added entries, SortBlocks and Cleanup.
-/
import ModVerif.Proofs.EditMoreComA
set_option linter.unusedSimpArgs false
namespace ModVerif.Modfile.Edit
open ModVerif ModVerif.Modfile

theorem find?_filter_keep {α : Type} (P Q : α → Bool) : ∀ (l : List α) (w : α), l.find? P = some w →
    (∀ a, P a = true → Q a = true) → (l.filter Q).find? P = some w := by
  intro l
  induction l with
  | nil => intro w h; simp at h
  | cons y ys ih =>
    intro w h hq
    by_cases hp : P y = true
    · have : w = y := by simp [List.find?, hp] at h; exact h.symm
      subst this
      simp [List.filter, hq w hp, List.find?, hp]
    · simp only [Bool.not_eq_true] at hp
      simp only [List.find?, hp] at h
      by_cases hqy : Q y = true
      · simp only [List.filter, hqy, List.find?, hp]
        exact ih w h hq
      · simp only [Bool.not_eq_true] at hqy
        simp only [List.filter, hqy]
        exact ih w h hq

theorem setRequireLoop_keepsEq (next : Nat) (rs : List Require) : ∀ (need : List Want) (syn : FileSyntax) (rs' : List Require)
    (need' : List Want) (syn' : FileSyntax), TreeWF syn.stmts next → setRequireLoop rs need syn = .ok (rs', need', syn') →
    KeepsEq (rs.map (·.lineId)) syn.stmts syn'.stmts := by
  induction rs with
  | nil =>
    intro need syn rs' need' syn' _ h
    simp only [setRequireLoop, Except.ok.injEq, Prod.mk.injEq] at h
    rcases h with ⟨_, _, rfl⟩
    exact KeepsEq.refl _ _
  | cons r rs ih =>
    intro need syn rs' need' syn' hw h
    unfold setRequireLoop at h
    cases hf : need.find? (fun a => a.path == r.mod.path) with
    | some w =>
      simp only [hf, bind, Except.bind] at h
      cases hd : deref r.lineId with
      | error err => simp [hd] at h
      | ok i =>
        have hi : i = r.lineId := by unfold deref at hd; split at hd <;> simp at hd; exact hd.symm
        subst hi
        simp only [hd] at h
        cases hr : setRequireLoop rs (need.filter (fun a => a.path != r.mod.path))
            (syn.updateLine r.lineId (fun l => setIndirectLine w.indirect (setVersionLine w.vers l))) with
        | error err => simp [hr] at h
        | ok res =>
          rcases res with ⟨rs'', need'', syn''⟩
          simp only [hr, pure, Except.pure, Except.ok.injEq, Prod.mk.injEq] at h
          rcases h with ⟨_, _, rfl⟩
          have := (keepsEq_updateLine syn r.lineId _ hw.nodup).trans (ih _ _ _ _ _ (hw.setReq r.lineId w.vers w.indirect) hr)
          simpa using this
    | none =>
      simp only [hf, bind, Except.bind] at h
      cases hd : deref r.lineId with
      | error err => simp [hd] at h
      | ok i =>
        have hi : i = r.lineId := by unfold deref at hd; split at hd <;> simp at hd; exact hd.symm
        subst hi
        simp only [hd] at h
        cases hr : setRequireLoop rs (need.filter (fun a => !a.path.isEmpty)) (markRemoved syn r.lineId) with
        | error err => simp [hr] at h
        | ok res =>
          rcases res with ⟨rs'', need'', syn''⟩
          simp only [hr, pure, Except.pure, Except.ok.injEq, Prod.mk.injEq] at h
          rcases h with ⟨_, _, rfl⟩
          have k1 : KeepsEq [r.lineId] syn.stmts (markRemoved syn r.lineId).stmts :=
            keepsEq_updateLine syn r.lineId (fun l => { l with token := [], comments := { l.comments with suffix := [] } }) hw.nodup
          have := k1.trans (ih _ _ _ _ _ (hw.markRemoved r.lineId) hr)
          simpa using this

/-- the loop of SetRequire on the line of the FIRST requirement of a requested path -/
theorem setRequireLoop_comments (r : Require) (t : List Require) (w : Want) (next : Nat) (hrp : r.mod.path ≠ []) :
    ∀ (d : List Require) (need : List Want) (syn : FileSyntax) (rs' : List Require) (need' : List Want) (syn' : FileSyntax),
      TreeWF syn.stmts next → (∀ r' ∈ d, r'.mod.path ≠ r.mod.path) → ((d ++ r :: t).map (·.lineId)).Nodup →
      need.find? (fun a => a.path == r.mod.path) = some w →
      setRequireLoop (d ++ r :: t) need syn = .ok (rs', need', syn') →
      ∀ x0 ∈ viewX syn.stmts, x0.id = r.lineId → ∀ a ver, x0.toks = [B "require", a, ver] →
        ∃ x1 ∈ viewX syn'.stmts, x1.id = r.lineId ∧ x1.toks = [B "require", a, w.vers] ∧ BeforeKept x0.before x1.before ∧
          x1.suffix = sfxAfter w.indirect x0.suffix := by
  intro d
  induction d with
  | nil =>
    intro need syn rs' need' syn' hw _ hnd hf h x0 hx0 hid0 a ver htoks
    simp only [List.nil_append] at h hnd
    unfold setRequireLoop at h
    simp only [hf, bind, Except.bind] at h
    cases hd : deref r.lineId with
    | error err => simp [hd] at h
    | ok i =>
      have hi : i = r.lineId := by unfold deref at hd; split at hd <;> simp at hd; exact hd.symm
      subst hi
      simp only [hd] at h
      cases hr : setRequireLoop t (need.filter (fun a => a.path != r.mod.path))
          (syn.updateLine r.lineId (fun l => setIndirectLine w.indirect (setVersionLine w.vers l))) with
      | error err => simp [hr] at h
      | ok res =>
        rcases res with ⟨rs'', need'', syn''⟩
        simp only [hr, pure, Except.pure, Except.ok.injEq, Prod.mk.injEq] at h
        rcases h with ⟨_, _, rfl⟩
        rcases viewX_setReq syn next r.lineId w.vers w.indirect hw x0 hx0 hid0 a ver htoks with ⟨x1, hx1, e1, e2, e3, e4⟩
        have hk := setRequireLoop_keepsEq next t _ _ _ _ _ (hw.setReq r.lineId w.vers w.indirect) hr
        refine ⟨x1, hk x1 hx1 ?_, e1, e2, e3, e4⟩
        rw [e1]
        simp only [List.map_cons, List.nodup_cons] at hnd
        exact hnd.1
  | cons r0 d ih =>
    intro need syn rs' need' syn' hw hd' hnd hf h x0 hx0 hid0 a ver htoks
    have hne0 : r0.mod.path ≠ r.mod.path := hd' r0 List.mem_cons_self
    have hd'' : ∀ r' ∈ d, r'.mod.path ≠ r.mod.path := fun r' hr' => hd' r' (List.mem_cons_of_mem _ hr')
    simp only [List.cons_append, List.map_cons, List.nodup_cons] at hnd
    have hidne : x0.id ≠ r0.lineId := by
      rw [hid0]
      intro e
      apply hnd.1
      rw [← e]
      exact List.mem_map.2 ⟨r, List.mem_append_right _ List.mem_cons_self, rfl⟩
    simp only [List.cons_append] at h
    unfold setRequireLoop at h
    cases hf0 : need.find? (fun a => a.path == r0.mod.path) with
    | some w0 =>
      simp only [hf0, bind, Except.bind] at h
      cases hdr : deref r0.lineId with
      | error err => simp [hdr] at h
      | ok i =>
        have hi : i = r0.lineId := by unfold deref at hdr; split at hdr <;> simp at hdr; exact hdr.symm
        subst hi
        simp only [hdr] at h
        cases hr : setRequireLoop (d ++ r :: t) (need.filter (fun a => a.path != r0.mod.path))
            (syn.updateLine r0.lineId (fun l => setIndirectLine w0.indirect (setVersionLine w0.vers l))) with
        | error err => simp [hr] at h
        | ok res =>
          rcases res with ⟨rs'', need'', syn''⟩
          simp only [hr, pure, Except.pure, Except.ok.injEq, Prod.mk.injEq] at h
          rcases h with ⟨_, _, rfl⟩
          have hx0' := keepsEq_updateLine syn r0.lineId (fun l => setIndirectLine w0.indirect (setVersionLine w0.vers l)) hw.nodup
            x0 hx0 (by simpa using hidne)
          have hf' : (need.filter (fun a => a.path != r0.mod.path)).find? (fun a => a.path == r.mod.path) = some w := by
            apply find?_filter_keep _ _ _ _ hf
            intro a ha
            have : a.path = r.mod.path := eq_of_beq ha
            simp only [bne_iff_ne, ne_eq, this]
            exact Ne.symm hne0
          exact ih _ _ _ _ _ (hw.setReq r0.lineId w0.vers w0.indirect) hd'' hnd.2 hf' hr x0 hx0' hid0 a ver htoks
    | none =>
      simp only [hf0, bind, Except.bind] at h
      cases hdr : deref r0.lineId with
      | error err => simp [hdr] at h
      | ok i =>
        have hi : i = r0.lineId := by unfold deref at hdr; split at hdr <;> simp at hdr; exact hdr.symm
        subst hi
        simp only [hdr] at h
        cases hr : setRequireLoop (d ++ r :: t) (need.filter (fun a => !a.path.isEmpty)) (markRemoved syn r0.lineId) with
        | error err => simp [hr] at h
        | ok res =>
          rcases res with ⟨rs'', need'', syn''⟩
          simp only [hr, pure, Except.pure, Except.ok.injEq, Prod.mk.injEq] at h
          rcases h with ⟨_, _, rfl⟩
          have hx0' : x0 ∈ viewX (markRemoved syn r0.lineId).stmts :=
            keepsEq_updateLine syn r0.lineId (fun l => { l with token := [], comments := { l.comments with suffix := [] } }) hw.nodup
              x0 hx0 (by simpa using hidne)
          have hf' : (need.filter (fun a => !a.path.isEmpty)).find? (fun a => a.path == r.mod.path) = some w := by
            apply find?_filter_keep _ _ _ _ hf
            intro a ha
            have : a.path = r.mod.path := eq_of_beq ha
            rw [this]
            cases hp : r.mod.path with
            | nil => exact absurd hp hrp
            | cons _ _ => rfl
          exact ih _ _ _ _ _ (hw.markRemoved r0.lineId) hd'' hnd.2 hf' hr x0 hx0' hid0 a ver htoks


theorem viewX_of_view {stmts : List Expr} {v : VLine} (h : v ∈ view stmts) :
    ∃ x ∈ viewX stmts, x.id = v.id ∧ x.toks = v.toks ∧ x.suffix = v.suffix := by
  rcases mem_view.1 h with ⟨p, hp, hl, rfl⟩
  exact ⟨mkX p, mem_viewX.2 ⟨p, hp, hl, rfl⟩, rfl, rfl, rfl⟩

theorem Inv.require_ids_nodup {e : EFile} (hi : Inv e) (hlive : ∀ r ∈ e.f.require, liveRq r = true) :
    (e.f.require.map (·.lineId)).Nodup := by
  have h := hi.mtch
  rw [entries_require] at h
  have := seg_nodup h
  rw [entsOf_ids (·.lineId) liveRq entRq (fun _ => rfl), liveIds_all liveRq (·.lineId) _ hlive] at this
  exact this

/-- the line of a live requirement is never in the kill list of SortBlocks -/
theorem Inv.require_not_killed {e : EFile} (hi : Inv e) (r : Require) (hr : r ∈ e.f.require) (hl : liveRq r = true) :
    r.lineId ∉ kill3 e.f := by
  intro hk
  have hpos : r.lineId ≠ 0 := hi.require_pos r hr hl
  have hrq : entRq r ∈ entsOf liveRq entRq e.f.require := (mem_entsOf liveRq entRq).2 ⟨r, hr, hl, rfl⟩
  rcases kill3_src e.f _ hk with ⟨z, hz, hzid⟩ | ⟨z, hz, hzid⟩ | ⟨z, hz, hzid⟩
  · have hzl : liveX z = true := by
      cases hzl : liveX z with
      | true => rfl
      | false => exact absurd ((hi.tinv.wfX z hz).2 hzl) (by show ¬ z.lineId = 0; rw [hzid]; exact hpos)
    have hm := hi.mtch
    rw [entries_exclude] at hm
    exact seg_disjoint hm (en := entRq r) (en' := entX z) (Or.inl (List.mem_append_right _ hrq))
      ((mem_entsOf liveX entX).2 ⟨z, hz, hzl, rfl⟩) hzid.symm
  · have hzl : liveRp z = true := by
      cases hzl : liveRp z with
      | true => rfl
      | false => exact absurd ((hi.tinv.wfR z hz).2 hzl) (by show ¬ z.lineId = 0; rw [hzid]; exact hpos)
    have hm := hi.mtch
    rw [entries_replace] at hm
    refine seg_disjoint hm (en := entRq r) (en' := entRp z) (Or.inl ?_) ((mem_entsOf liveRp entRp).2 ⟨z, hz, hzl, rfl⟩) hzid.symm
    exact List.mem_append_left _ (List.mem_append_right _ hrq)
  · have hzl : liveT z = true := by
      cases hzl : liveT z with
      | true => rfl
      | false => exact absurd ((hi.tinv.wfT z hz).2 hzl) (by show ¬ z.lineId = 0; rw [hzid]; exact hpos)
    have hm := hi.mtch
    rw [entries_tool] at hm
    refine seg_disjoint hm (en := entRq r) (en' := entT z) (Or.inl ?_) ((mem_entsOf liveT entT).2 ⟨z, hz, hzl, rfl⟩) hzid.symm
    exact List.mem_append_left _ (List.mem_append_left _ (List.mem_append_left _ (List.mem_append_right _ hrq)))

/-- **C16 `comments_survive`, SetRequire.**  For the FIRST existing requirement of a requested path, the line after
    SetRequire and Cleanup carries the requested version, every non-blank `Before` comment of the old line (the only
    comment ever dropped is the blank-line placeholder removed by `setVersion`), and the old `Suffix` comments as
    `setIndirect` rewrites them (`sfxAfter`: only the indirect marker of the first comment changes). -/
theorem setRequire_comments (e e' : EFile) (req : List Want) (perm : List Want → List Want) (hperm : ∀ l, (perm l).Perm l)
    (hg : GoodWant req) (hi : Inv e) (hlive : ∀ r ∈ e.f.require, liveRq r = true) (hset : NoNestedIndirectMarker e)
    (h : setRequire e req perm = .ok e')
    (d : List Require) (r : Require) (t : List Require) (hsplit : e.f.require = d ++ r :: t)
    (hfirst : ∀ r' ∈ d, r'.mod.path ≠ r.mod.path) (w : Want) (hw : w ∈ req) (hwp : w.path = r.mod.path)
    (x0 : XLine) (hx0 : x0 ∈ viewX e.f.syn.stmts) (hid0 : x0.id = r.lineId) :
    ∃ x' ∈ viewX (cleanup e').f.syn.stmts, x'.toks = [B "require", autoQuote r.mod.path, w.vers] ∧
      BeforeKept x0.before x'.before ∧ (sfxAfter w.indirect x0.suffix).Sublist x'.suffix := by
  have hr : r ∈ e.f.require := by rw [hsplit]; exact List.mem_append_right _ List.mem_cons_self
  have hlr := hlive r hr
  have hrp : r.mod.path ≠ [] := by intro e0; simp [liveRq, e0] at hlr
  have htoks : x0.toks = [B "require", autoQuote r.mod.path, r.mod.version] :=
    (hi.acc_of_id hx0 (mem_entries_require hr hlr) hid0.symm).1
  have hfind : req.find? (fun a => a.path == r.mod.path) = some w := by
    have hpw : (fun a : Want => a.path == r.mod.path) w = true := by simp [hwp]
    cases hf : req.find? (fun a => a.path == r.mod.path) with
    | none => exact absurd hpw (by simpa using (List.find?_eq_none.1 hf) w hw)
    | some w' =>
      have hw' := List.mem_of_find?_eq_some hf
      have hp' : w'.path = r.mod.path := by
        have := List.find?_some hf
        exact eq_of_beq this
      -- distinct paths: the two are the same element
      have : w' = w := by
        have hpw' := List.pairwise_iff_getElem.1 hg.1
        rcases List.mem_iff_getElem.1 hw' with ⟨i, hi', rfl⟩
        rcases List.mem_iff_getElem.1 hw with ⟨j, hj', rfl⟩
        rcases Nat.lt_trichotomy i j with hlt | heq | hgt
        · exact absurd (hp'.trans hwp.symm) (hpw' i j hi' hj' hlt)
        · subst heq; rfl
        · exact absurd (hwp.trans hp'.symm) (hpw' j i hj' hi' hgt)
      rw [this]
  unfold setRequire at h
  rw [needMap_distinct true req [] (by simpa using hg.1)] at h
  simp only [bind, Except.bind, List.nil_append] at h
  cases hr' : setRequireLoop e.f.require req e.f.syn with
  | error err => simp [hr'] at h
  | ok res =>
    rcases res with ⟨rq, need', syn'⟩
    simp only [hr', pure, Except.pure, Except.ok.injEq] at h
    subst h
    rcases setRequireLoop_abs _ _ _ _ _ _ hg hr' with ⟨_, hsub⟩
    rcases setRequireLoop_inv (A := segA_require e.f) (C := segC_require e.f) e.next e.f.require [] req e.f.syn rq need' syn'
      hg hlive hi.tree (by simp only [List.nil_append]; rw [← entries_require]; exact hi.mtch) hset hr' with ⟨hw', hm'⟩
    have hi1 : Inv (⟨{ e.f with require := rq, syn := syn' }, e.next⟩ : EFile) := by
      refine ⟨hw', ?_, hi.tinv.of_same rfl rfl rfl (Nat.le_refl _)⟩
      simp only [List.nil_append] at hm'
      rw [entries_require]; exact hm'
    have hne : ∀ w ∈ perm need', w.path ≠ [] := fun w hw => hg.2 w (hsub.subset ((hperm need').subset hw))
    have hnd := hi.require_ids_nodup hlive
    rw [hsplit] at hnd hr'
    rcases setRequireLoop_comments r t w e.next hrp d req e.f.syn rq need' syn' hi.tree hfirst hnd hfind hr' x0 hx0 hid0 _ _ htoks
      with ⟨x1, hx1, e1, e2, e3, e4⟩
    have k2 := foldl_addNewRequire_keeps e.next (perm need') _ hi1 hne (Nat.le_refl _)
    have hlt : x1.id < e.next := by rw [e1, ← hid0]; exact hi.x_lt hx0
    rcases k2 x1 hx1 hlt (by simp) with ⟨x2, hx2, h12⟩
    have k3 := keeps_sortBlocks ((perm need').foldl (fun e w => addNewRequire e w.path w.vers w.indirect)
      (⟨{ e.f with require := rq, syn := syn' }, e.next⟩ : EFile))
    rcases foldl_addNewRequire_fields (perm need') (⟨{ e.f with require := rq, syn := syn' }, e.next⟩ : EFile) with ⟨f1, f2, f3⟩
    rw [kill3_congr (g := e.f) f1 f2 f3] at k3
    rcases k3 x2 hx2 (by rw [h12.1, e1]; exact hi.require_not_killed r hr hlr) with ⟨x3, hx3, h23⟩
    rcases keeps_cleanupStmts _ x3 hx3 (by simp) with ⟨x4, hx4, h34⟩
    have hle := XLine.le_trans (XLine.le_trans h12 h23) h34
    refine ⟨x4, hx4, by rw [hle.2.1, e2], e3.trans_sub hle.2.2.1, ?_⟩
    rw [← e4]; exact hle.2.2.2

end ModVerif.Modfile.Edit
