/-
  `LoadOK` (the hypothesis of `FnEditRep.load_rep`) for EVERY strictly parsed go.mod file (no version fixer, as the driver
  parses): the statements of a parsed tree are comment blocks, lines and line blocks (`parse_kind`, the kind analogue of
  `EditMore.parse_flags`; kept by `addStmts`), the line ids are `0, 1, …` in source order (`parse_ids_range`, from
  `parseFileLoop_ids` and `assignComments_keys`, kept by `addStmts_keys`), and `Edit.ParsedOK` (Proofs/EditMoreStartC.lean)
  gives: one verb per block, every typed entry is matched by a line of the tree.
-/
import ModVerif.Proofs.TieFnEditRep
import ModVerif.Proofs.EditMoreStartC
import ModVerif.Proofs.EditMoreStartW
set_option linter.unusedSimpArgs false
set_option linter.unusedVariables false
namespace ModVerif.Tie.FnEditLoadParse
open ModVerif ModVerif.Modfile ModVerif.Proofs.ModfileC20 ModVerif.Proofs.EditMore ModVerif.Modfile.Edit

/-! ### statement kinds -/

theorem kind_setComments (x : Expr) (c : Comments) (h : StmtKind x) : StmtKind (x.setComments c) := by
  cases x <;> first | exact h | trivial

theorem parseStmtLoop_kind : ∀ (fuel : Nat) (i : Input) (s e : Position) (ts : List Bytes) (x : Expr) (i' : Input),
    parseStmtLoop fuel i s e ts = .ok (x, i') → StmtKind x := by
  intro fuel
  induction fuel with
  | zero => intro i s e ts x i' h; simp [parseStmtLoop] at h
  | succ n ih =>
    intro i s e ts x i' h
    unfold parseStmtLoop at h
    cases h1 : lex i with
    | error e1 => simp [h1, bind, Except.bind] at h
    | ok v =>
      simp only [h1, bind, Except.bind] at h
      split at h
      · simp only [Except.ok.injEq, Prod.mk.injEq] at h
        obtain ⟨rfl, _⟩ := h
        trivial
      · split at h
        · split at h
          · unfold parseLineBlock at h
            split at h
            · cases h
            · rename_i w hw
              simp only [Except.ok.injEq, Prod.mk.injEq] at h
              obtain ⟨rfl, _⟩ := h
              trivial
          · split at h
            · cases h2 : lex v.2 with
              | error e2 => simp [h2] at h
              | ok w =>
                simp only [h2] at h
                split at h
                · cases h3 : lex w.2 with
                  | error e3 => simp [h3] at h
                  | ok u =>
                    simp only [h3, Except.ok.injEq, Prod.mk.injEq] at h
                    obtain ⟨rfl, _⟩ := h
                    trivial
                · exact ih _ _ _ _ _ _ h
            · exact ih _ _ _ _ _ _ h
        · exact ih _ _ _ _ _ _ h

theorem parseStmt_kind {fuel : Nat} {i : Input} {x : Expr} {i' : Input} (h : parseStmt fuel i = .ok (x, i')) :
    StmtKind x := by
  unfold parseStmt at h
  cases h1 : lex i with
  | error e1 => simp [h1, bind, Except.bind] at h
  | ok v =>
    simp only [h1, bind, Except.bind] at h
    exact parseStmtLoop_kind _ _ _ _ _ _ _ h

theorem parseFileLoop_kind : ∀ (fuel : Nat) (i : Input) (stmtsRev : List Expr) (cb : Option CommentBlock)
    (stmts : List Expr) (i' : Input), parseFileLoop fuel i stmtsRev cb = .ok (stmts, i') →
    (∀ x ∈ stmtsRev, StmtKind x) → ∀ x ∈ stmts, StmtKind x := by
  intro fuel
  induction fuel with
  | zero => intro i sr cb stmts i' h; simp [parseFileLoop] at h
  | succ n ih =>
    intro i sr cb stmts i' h hsr
    have hcons : ∀ y, StmtKind y → ∀ x ∈ y :: sr, StmtKind x := by
      intro y hy x hx
      rcases List.mem_cons.1 hx with rfl | hx
      · exact hy
      · exact hsr x hx
    unfold parseFileLoop at h
    split at h
    · cases h1 : lex i with
      | error e1 => simp [h1, bind, Except.bind] at h
      | ok v =>
        simp only [h1, bind, Except.bind] at h
        split at h
        · exact ih _ _ _ _ _ h (hcons (.commentBlock _) trivial)
        · exact ih _ _ _ _ _ h hsr
    · cases h1 : lex i with
      | error e1 => simp [h1, bind, Except.bind] at h
      | ok v =>
        simp only [h1, bind, Except.bind] at h
        exact ih _ _ _ _ _ h hsr
    · split at h
      · simp only [Except.ok.injEq, Prod.mk.injEq] at h
        obtain ⟨rfl, _⟩ := h
        intro x hx
        exact hcons (.commentBlock _) trivial x (List.mem_reverse.1 hx)
      · simp only [Except.ok.injEq, Prod.mk.injEq] at h
        obtain ⟨rfl, _⟩ := h
        intro x hx
        exact hsr x (List.mem_reverse.1 hx)
    · cases hp : parseStmt (n + 1) i with
      | error e1 => simp [hp, bind, Except.bind] at h
      | ok v =>
        have hf := parseStmt_kind (show parseStmt (n + 1) i = .ok (v.1, v.2) by rw [hp])
        simp only [hp, bind, Except.bind] at h
        split at h
        · exact ih _ _ _ _ _ h (hcons _ (kind_setComments _ _ hf))
        · exact ih _ _ _ _ _ h (hcons _ hf)

theorem parseFile_kind {data : Bytes} {stmts : List Expr} {i' : Input} (h : parseFile data = .ok (stmts, i')) :
    ∀ x ∈ stmts, StmtKind x := by
  unfold parseFile at h
  cases hr : readToken (newInput data) with
  | error e => simp [hr, bind, Except.bind] at h
  | ok i0 =>
    simp only [hr, bind, Except.bind] at h
    exact parseFileLoop_kind _ _ _ _ _ _ h (by intro x hx; cases hx)

theorem preStmt_kind (s : Expr) (line : List Comment) (h : StmtKind s) : StmtKind (preStmt s line).1 := by
  cases s with
  | lineBlock b => unfold preStmt; trivial
  | line x => simp [preStmt, Expr.setComments, StmtKind]
  | commentBlock x => simp [preStmt, Expr.setComments, StmtKind]
  | lparen x => exact h.elim
  | rparen x => exact h.elim

theorem postStmt_kind (s : Expr) (suf : List Comment) (h : StmtKind s) : StmtKind (postStmt s suf).1 := by
  cases s with
  | lineBlock b => unfold postStmt; trivial
  | line x => simp [postStmt, Expr.setComments, StmtKind]
  | commentBlock x => simp [postStmt, Expr.setComments, StmtKind]
  | lparen x => exact h.elim
  | rparen x => exact h.elim

theorem preStmts_kind : ∀ (ss : List Expr) (line : List Comment), (∀ x ∈ ss, StmtKind x) →
    ∀ x ∈ (preStmts ss line).1, StmtKind x := by
  intro ss
  induction ss with
  | nil => intro line _ x hx; simp [preStmts] at hx
  | cons s rest ih =>
    intro line h x hx
    unfold preStmts at hx
    simp only [List.mem_cons] at hx
    rcases hx with rfl | hx
    · exact preStmt_kind _ _ (h s List.mem_cons_self)
    · exact ih _ (fun y hy => h y (List.mem_cons_of_mem _ hy)) x hx

theorem postStmtsRev_kind : ∀ (ss : List Expr) (suf : List Comment), (∀ x ∈ ss, StmtKind x) →
    ∀ x ∈ (postStmtsRev ss suf).1, StmtKind x := by
  intro ss
  induction ss with
  | nil => intro line _ x hx; simp [postStmtsRev] at hx
  | cons s rest ih =>
    intro line h x hx
    unfold postStmtsRev at hx
    simp only [List.mem_cons] at hx
    rcases hx with rfl | hx
    · exact postStmt_kind _ _ (h s List.mem_cons_self)
    · exact ih _ (fun y hy => h y (List.mem_cons_of_mem _ hy)) x hx

theorem assignComments_kind (f : FileSyntax) (cs : List Comment) (h : ∀ x ∈ f.stmts, StmtKind x) :
    ∀ x ∈ (assignComments f cs).stmts, StmtKind x := by
  unfold assignComments
  simp only
  intro x hx
  refine postStmtsRev_kind _ _ ?_ x (List.mem_reverse.1 hx)
  intro y hy
  exact preStmts_kind _ _ h y (List.mem_reverse.1 hy)

/-- **the statements of a parsed tree are comment blocks, lines and line blocks** -/
theorem parse_kind {name data : Bytes} {t : FileSyntax} (h : parse name data = .ok t) : ∀ x ∈ t.stmts, StmtKind x := by
  unfold parse at h
  cases hp : parseFile data with
  | error e => simp [hp, bind, Except.bind] at h
  | ok v =>
    simp only [hp, bind, Except.bind, Except.ok.injEq] at h
    subst h
    exact assignComments_kind _ _ (parseFile_kind (show parseFile data = .ok (v.1, v.2) by rw [hp]))

theorem addStmts_kind (fix : Option Fixer) (strict : Bool) : ∀ (xs : List Expr) (st : AddState), (∀ x ∈ xs, StmtKind x) →
    ∀ x ∈ (addStmts fix strict st xs).2, StmtKind x := by
  intro xs
  induction xs with
  | nil => intro st _ x hx; simp [addStmts] at hx
  | cons x0 rest ih =>
    intro st h x hx
    have h0 := h x0 List.mem_cons_self
    have hrest := fun st' => ih st' (fun y hy => h y (List.mem_cons_of_mem _ hy))
    unfold addStmts at hx
    cases x0 with
    | line l =>
      cases htok : l.token with
      | nil =>
        simp only [htok, List.mem_cons] at hx
        rcases hx with rfl | hx
        · trivial
        · exact hrest _ x hx
      | cons verb args =>
        simp only [htok, List.mem_cons] at hx
        rcases hx with rfl | hx
        · trivial
        · exact hrest _ x hx
    | lineBlock b =>
      simp only at hx
      split at hx
      · split at hx
        · simp only [List.mem_cons] at hx
          rcases hx with rfl | hx
          · trivial
          · exact hrest _ x hx
        · simp only [List.mem_cons] at hx
          rcases hx with rfl | hx
          · trivial
          · exact hrest _ x hx
      · simp only [List.mem_cons] at hx
        rcases hx with rfl | hx
        · trivial
        · exact hrest _ x hx
    | commentBlock c =>
      simp only [List.mem_cons] at hx
      rcases hx with rfl | hx
      · trivial
      · exact hrest _ x hx
    | lparen c => exact h0.elim
    | rparen c => exact h0.elim

/-! ### line ids in source order -/

theorem parseFile_ids_range {data : Bytes} {stmts : List Expr} {i' : Input} (h : parseFile data = .ok (stmts, i')) :
    Proofs.ModfileC20.idsOf stmts = List.range (Proofs.ModfileC20.idsOf stmts).length := by
  unfold parseFile at h
  cases hr : readToken (newInput data) with
  | error e => simp [hr, bind, Except.bind] at h
  | ok i0 =>
    simp only [hr, bind, Except.bind] at h
    obtain ⟨_, hids⟩ := parseFileLoop_ids _ _ _ _ _ _ h
    have h0 : i0.nextId = 0 := by rw [readToken_nextId hr]; rfl
    rw [hids, h0]
    have e : Proofs.ModfileC20.idsOf ([] : List Expr).reverse = [] := rfl
    rw [e]
    simp [List.range_eq_range']

/-- **the line ids of a parsed tree are `0, 1, …` in source order** -/
theorem parse_ids_range {name data : Bytes} {t : FileSyntax} (h : parse name data = .ok t) :
    (linesOf t.stmts).map (·.id) = List.range ((linesOf t.stmts).map (·.id)).length := by
  unfold parse at h
  cases hp : parseFile data with
  | error e => simp [hp, bind, Except.bind] at h
  | ok v =>
    simp only [hp, bind, Except.bind, Except.ok.injEq] at h
    subst h
    have hk := assignComments_keys { name := name, stmts := v.1 } v.2.commentsRev.reverse
    have hn := parseFile_ids_range (show parseFile data = .ok (v.1, v.2) by rw [hp])
    have : (linesOf (assignComments { name := name, stmts := v.1 } v.2.commentsRev.reverse).stmts).map (·.id) =
        Proofs.ModfileC20.idsOf v.1 := by
      have := congrArg (List.map Prod.fst) hk
      simpa [List.map_map, lineKey, Proofs.ModfileC20.idsOf, Function.comp_def] using this
    rw [this]; exact hn

/-! ### `LoadOK` of a strictly parsed file -/

theorem mem_entsAll {f : File} {seg : List Ent} (hs : seg ∈ segs f) {en : Ent} (he : en ∈ seg) : en ∈ entsAll f :=
  List.mem_flatten.2 ⟨seg, hs, he⟩

theorem typed_in_tree {f : File} (P : ParsedOK f) {en : Ent} (he : en ∈ entsAll f) : en.id ∈ treeIds f.syn.stmts := by
  obtain ⟨v, hv, hid, _⟩ := P.mtch.cover en he
  rw [← hid]; exact view_id_mem_treeIds hv

/-- **every strictly parsed go.mod file (no fixer: the driver's parse) can be loaded: `load_rep` applies** -/
theorem parseStrict_loadOK {name data : Bytes} {f : File} (h : parseStrict name data none = .ok f) : Tie.FnEditRep.LoadOK f := by
  have P : ParsedOK f := parseToFile_ok h
  have hshape_ids : Tie.FnEditRep.StmtShape f.syn.stmts ∧
      treeIds f.syn.stmts = List.range (treeIds f.syn.stmts).length := by
    unfold parseStrict parseToFile at h
    cases hp : parse name data with
    | error e => simp [hp] at h
    | ok fs =>
      simp only [hp] at h
      cases hA : addStmts none true { file := { syn := fs } } fs.stmts with
      | mk st stmts =>
        simp only [hA, fixRetract] at h
        split at h
        · simp only [Except.ok.injEq] at h
          subst h
          refine ⟨?_, ?_⟩
          · intro e he
            have hk := addStmts_kind none true fs.stmts { file := { syn := fs } } (parse_kind hp)
            rw [hA] at hk
            have := hk e he
            cases e with
            | commentBlock c => exact Or.inl ⟨c, rfl⟩
            | line l => exact Or.inr (Or.inl ⟨l, rfl⟩)
            | lineBlock b => exact Or.inr (Or.inr ⟨b, rfl⟩)
            | lparen _ => exact this.elim
            | rparen _ => exact this.elim
          · have hids : treeIds stmts = treeIds fs.stmts := by
              rw [treeIds_eq_linesOf, treeIds_eq_linesOf]
              have := addStmts_keys none true fs.stmts { file := { syn := fs } }
              rw [hA] at this
              have := congrArg (List.map Prod.fst) this
              simpa [List.map_map, lineKey, Function.comp_def] using this
            show treeIds stmts = List.range (treeIds stmts).length
            rw [hids, treeIds_eq_linesOf]
            exact parse_ids_range hp
        · cases h
  refine
    { shape := hshape_ids.1, ids := hshape_ids.2
      tok := fun b hb => by obtain ⟨v, hv⟩ := P.blockTok b hb; rw [hv]; simp
      module := fun m hm => typed_in_tree P (en := entM m) (mem_entsAll (seg := f.module.toList.map entM) (by simp [segs]) (by simp [hm]))
      go := fun m hm => typed_in_tree P (en := entGo m) (mem_entsAll (seg := f.go.toList.map entGo) (by simp [segs]) (by simp [hm]))
      toolchain := fun m hm => typed_in_tree P (en := entTc m) (mem_entsAll (seg := f.toolchain.toList.map entTc) (by simp [segs]) (by simp [hm]))
      godebug := fun x hx => typed_in_tree P (en := entG x) (mem_entsAll (seg := f.godebug.map entG) (by simp [segs]) (List.mem_map.2 ⟨x, hx, rfl⟩))
      require := fun x hx => typed_in_tree P (en := entRq x) (mem_entsAll (seg := f.require.map entRq) (by simp [segs]) (List.mem_map.2 ⟨x, hx, rfl⟩))
      exclude := fun x hx => typed_in_tree P (en := entX x) (mem_entsAll (seg := f.exclude.map entX) (by simp [segs]) (List.mem_map.2 ⟨x, hx, rfl⟩))
      replace := fun x hx => typed_in_tree P (en := entRp x) (mem_entsAll (seg := f.replace.map entRp) (by simp [segs]) (List.mem_map.2 ⟨x, hx, rfl⟩))
      retract := fun x hx => typed_in_tree P (en := entRt x) (mem_entsAll (seg := f.retract.map entRt) (by simp [segs]) (List.mem_map.2 ⟨x, hx, rfl⟩))
      tool := fun x hx => typed_in_tree P (en := entT x) (mem_entsAll (seg := f.tool.map entT) (by simp [segs]) (List.mem_map.2 ⟨x, hx, rfl⟩)) }

/-- **the session start: the heap the driver loads from any strictly parsed go.mod represents the model's `Edit.load`** -/
theorem parseStrict_load_rep {name data : Bytes} {f : File} (h : parseStrict name data none = .ok f) :
    Tie.FnEditRep.RepF (Drv.GenEdit.load f).1 (Drv.GenEdit.load f).2 (Modfile.Edit.load f) :=
  Tie.FnEditRep.load_rep f (parseStrict_loadOK h)

example : (parseStrict (B "go.mod") (B "module m\n\nrequire (\n\ta.b/c v1.0.0\n)\n") none).toOption.isSome = true := by decide +kernel


/-! ### go.work -/

theorem workStmts_kind (fix : Option Fixer) : ∀ (xs : List Expr) (st : WorkState), (∀ x ∈ xs, StmtKind x) →
    ∀ x ∈ (workStmts fix st xs).2, StmtKind x := by
  intro xs
  induction xs with
  | nil => intro st _ x hx; simp [workStmts] at hx
  | cons x0 rest ih =>
    intro st h x hx
    have h0 := h x0 List.mem_cons_self
    have hrest := fun st' => ih st' (fun y hy => h y (List.mem_cons_of_mem _ hy))
    unfold workStmts at hx
    cases x0 with
    | line l =>
      cases htok : l.token with
      | nil =>
        simp only [htok, List.mem_cons] at hx
        rcases hx with rfl | hx
        · trivial
        · exact hrest _ x hx
      | cons verb args =>
        simp only [htok, List.mem_cons] at hx
        rcases hx with rfl | hx
        · trivial
        · exact hrest _ x hx
    | lineBlock b =>
      simp only at hx
      split at hx
      · split at hx
        · simp only [List.mem_cons] at hx
          rcases hx with rfl | hx
          · trivial
          · exact hrest _ x hx
        · simp only [List.mem_cons] at hx
          rcases hx with rfl | hx
          · trivial
          · exact hrest _ x hx
      · simp only [List.mem_cons] at hx
        rcases hx with rfl | hx
        · trivial
        · exact hrest _ x hx
    | commentBlock c =>
      simp only [List.mem_cons] at hx
      rcases hx with rfl | hx
      · trivial
      · exact hrest _ x hx
    | lparen c => exact h0.elim
    | rparen c => exact h0.elim

theorem mem_entsAllW {f : WorkFile} {seg : List Ent} (hs : seg ∈ segsW f) {en : Ent} (he : en ∈ seg) : en ∈ entsAllW f :=
  List.mem_flatten.2 ⟨seg, hs, he⟩

theorem typed_in_treeW {f : WorkFile} (P : ParsedWorkOK f) {en : Ent} (he : en ∈ entsAllW f) : en.id ∈ treeIds f.syn.stmts := by
  obtain ⟨v, hv, hid, _⟩ := P.mtch.cover en he
  rw [← hid]; exact view_id_mem_treeIds hv

/-- **every parsed go.work file (no fixer) can be loaded** -/
theorem parseWork_loadOK {name data : Bytes} {f : WorkFile} (h : parseWork name data none = .ok f) : Tie.FnEditRep.LoadWorkOK f := by
  have P : ParsedWorkOK f := parseWork_ok h
  have hshape_ids : Tie.FnEditRep.StmtShape f.syn.stmts ∧
      treeIds f.syn.stmts = List.range (treeIds f.syn.stmts).length := by
    unfold parseWork at h
    cases hp : parse name data with
    | error e => simp [hp] at h
    | ok fs =>
      simp only [hp] at h
      cases hA : workStmts none { file := { syn := fs } } fs.stmts with
      | mk st stmts =>
        simp only [hA] at h
        split at h
        · simp only [Except.ok.injEq] at h
          subst h
          refine ⟨?_, ?_⟩
          · intro e he
            have hk := workStmts_kind none fs.stmts { file := { syn := fs } } (parse_kind hp)
            rw [hA] at hk
            have := hk e he
            cases e with
            | commentBlock c => exact Or.inl ⟨c, rfl⟩
            | line l => exact Or.inr (Or.inl ⟨l, rfl⟩)
            | lineBlock b => exact Or.inr (Or.inr ⟨b, rfl⟩)
            | lparen _ => exact this.elim
            | rparen _ => exact this.elim
          · have hids : treeIds stmts = treeIds fs.stmts := by
              rw [treeIds_eq_linesOf, treeIds_eq_linesOf]
              have := workStmts_keys none fs.stmts { file := { syn := fs } }
              rw [hA] at this
              have := congrArg (List.map Prod.fst) this
              simpa [List.map_map, lineKey, Function.comp_def] using this
            show treeIds stmts = List.range (treeIds stmts).length
            rw [hids, treeIds_eq_linesOf]
            exact parse_ids_range hp
        · cases h
  refine
    { shape := hshape_ids.1, ids := hshape_ids.2
      tok := fun b hb => by obtain ⟨v, hv⟩ := P.blockTok b hb; rw [hv]; simp
      go := fun m hm => typed_in_treeW P (en := entGo m) (mem_entsAllW (seg := f.go.toList.map entGo) (by simp [segsW]) (by simp [hm]))
      toolchain := fun m hm => typed_in_treeW P (en := entTc m) (mem_entsAllW (seg := f.toolchain.toList.map entTc) (by simp [segsW]) (by simp [hm]))
      godebug := fun x hx => typed_in_treeW P (en := entG x) (mem_entsAllW (seg := f.godebug.map entG) (by simp [segsW]) (List.mem_map.2 ⟨x, hx, rfl⟩))
      use := fun x hx => typed_in_treeW P (en := entU x) (mem_entsAllW (seg := f.use.map entU) (by simp [segsW]) (List.mem_map.2 ⟨x, hx, rfl⟩))
      replace := fun x hx => typed_in_treeW P (en := entRp x) (mem_entsAllW (seg := f.replace.map entRp) (by simp [segsW]) (List.mem_map.2 ⟨x, hx, rfl⟩)) }

/-- **the go.work session start** -/
theorem parseWork_load_rep {name data : Bytes} {f : WorkFile} (h : parseWork name data none = .ok f) :
    Tie.FnEditRep.RepW (Drv.GenEdit.loadWork f).1 (Drv.GenEdit.loadWork f).2 (Modfile.Edit.loadWork f) :=
  Tie.FnEditRep.loadWork_rep f (parseWork_loadOK h)


end ModVerif.Tie.FnEditLoadParse
