/-
  Tie proof, zip/zip.go `checkZip` (Generated/FnZip.lean: `checkZip`, closure `checkZip_addError`, loop `checkZip_loop1`)
  against the hand model `Zip.checkZip` / `Zip.zipStep` (Model/Zip.lean).

  Representation: the report is `embCFZ txt cf` (like `embCF` of the checkFiles tie, with the message texts of checkZip:
  `reasonTextZ`, and the text `txt` of the size error — checkZip has two of them); the collision map is tie-zip's `ofCC`;
  an archive entry `Zip.Entry` is the driver's `toZEntry`.
-/
import ModVerif.Generated.FnZip
import ModVerif.Model.Zip
import ModVerif.Drv.GenZipIO
import ModVerif.Proofs.TieFnZipCfMain
namespace ModVerif.TieFnZipIOUnzip
open ModVerif ModVerif.GoRt ModVerif.GoRtZip ModVerif.TieFnZip ModVerif.TieFnZipCf
open ModVerif.Generated.Zip (pathInfo FileError CheckedFiles)
open ModVerif.Drv.GenZipIO (toZEntry)

/-! ### representation -/

/-- the message text of a reason as `checkZip` produces it (format literals; sentinel errors by their Go names) -/
def reasonTextZ : Zip.Reason → String
  | .noPrefix => "path does not have prefix %q"
  | .goModNotRoot => "go.mod file not in module root directory"
  | .goModSize => "go.mod file too large (max size is %d bytes)"
  | .licenseSize => "LICENSE file too large (max size is %d bytes)"
  | r => reasonText r

def embFEZ (e : Bytes × Zip.Reason) : FileError := { Path := e.1, Err := some (reasonTextZ e.2) }

/-- literal of the size error of the loop -/
def totalSizeText : String := "total uncompressed size of module contents too large (max size is %d bytes)"
/-- literal of the size error for an archive file that is too large -/
def zipTooLargeText : String := "module zip file is too large (%d bytes; limit is %d bytes)"

/-- the model's report as the generated `CheckedFiles`; `txt` = text of the size error -/
def embCFZ (txt : String) (cf : Zip.CheckedFiles) : CheckedFiles :=
  { Valid := cf.valid, Omitted := cf.omitted.map embFEZ, Invalid := cf.invalid.map embFEZ,
    SizeError := if cf.sizeError then some txt else none }

theorem embCFZ_default (txt : String) : embCFZ txt {} = (default : CheckedFiles) := rfl

/-- the model's error kind as the text `CheckedFiles.Err` returns -/
def errKindText (txt : String) : Zip.ErrKind → String
  | .size => txt
  | .invalid => "FileErrorList"

theorem checkedFiles_Err_emb (txt : String) (cf : Zip.CheckedFiles) :
    Generated.Zip.CheckedFiles_Err (embCFZ txt cf) = cf.err.map (errKindText txt) := by
  unfold Generated.Zip.CheckedFiles_Err Zip.CheckedFiles.err embCFZ
  cases hs : cf.sizeError with
  | true => simp [Id.run, errKindText, pure]
  | false =>
    cases hi : cf.invalid with
    | nil => simp [Id.run, len_eq, pure]
    | cons a t =>
      have := len_nonneg (List.map embFEZ t)
      simp [Id.run, errKindText, pure]
      omega

/-- the carried variables of the loop as a function of the model's state -/
def zrun {X : Type} (L : CheckedFiles → List (Bytes × pathInfo) → Int → M X) (s : Zip.ZSt) : M X :=
  L (embCFZ totalSizeText s.cf) (ofCC s.cc) s.size

section
variable (cv : Bytes → Bytes) (cfp : Bytes → Option String) (ef : Bytes → Bytes → Bool)
  (mc : Bytes → Bytes → Option String) (sf : Int → Int)

/-- a call of `addError` followed by the next iteration -/
theorem zae_run {X : Type} (txt : String) (r : Zip.Reason) (h : reasonTextZ r = txt) (s : Zip.ZSt) (e : Zip.Entry)
    (fuel : Nat) (L : CheckedFiles → List (Bytes × pathInfo) → Int → M X) :
    (Generated.Zip.checkZip_addError cv cfp ef mc sf fuel (toZEntry e) (some txt) (embCFZ totalSizeText s.cf) >>=
        fun t => L t.2 (ofCC s.cc) s.size) =
      zrun L (s.addError e.name r) := by
  subst h
  unfold Generated.Zip.checkZip_addError zrun Zip.ZSt.addError
  simp [embCFZ, embFEZ, toZEntry]

end

theorem idxL_map_toZEntry (done : List Zip.Entry) (e : Zip.Entry) (rest : List Zip.Entry) :
    idxL ((done ++ e :: rest).map toZEntry) (done.length : Int) = .ok (toZEntry e) := by
  rw [idxL_natCast (by simp)]
  simp

theorem lt_len_map_toZEntry (done : List Zip.Entry) (e : Zip.Entry) (rest : List Zip.Entry) :
    decide ((done.length : Int) < len ((done ++ e :: rest).map toZEntry)) = true := by
  simp [len_eq]; omega

theorem not_lt_len_map_toZEntry (es : List Zip.Entry) :
    decide ((es.length : Int) < len (es.map toZEntry)) = false := by
  simp [len_eq]

/-- `strings.HasSuffix(s, "/")` -/
theorem hasSuffix_slash (s : Bytes) : hasSuffix s [47] = Zip.hasSlashSuffix s := by
  unfold hasSuffix hasSuffixB Zip.hasSlashSuffix
  rw [List.getLast?_eq_head?_reverse]
  cases s.reverse with
  | nil => rfl
  | cons c t =>
    simp only [List.reverse_cons, List.reverse_nil, List.nil_append, isPrefixOfB, Bool.and_true, List.head?_cons]
    by_cases h : c = 47
    · subst h; rfl
    · have h1 : ((47 : UInt8) == c) = false := by rw [beq_eq_false_iff_ne]; exact fun e => h e.symm
      have h2 : (some c == some (47 : UInt8)) = false := by
        rw [beq_eq_false_iff_ne]; intro e; cases e; exact h rfl
      rw [h1, h2]

/-- `int64(zf.UncompressedSize64)` for a 64-bit value -/
theorem toI64_declSize (n : Nat) (h : n < 2 ^ 64) : toI64 (n : Int) = Zip.int64OfU64 n := by
  unfold toI64 Zip.int64OfU64 two64 two63
  have h' : (n : Int) < 18446744073709551616 := by
    have : (2 : Nat) ^ 64 = 18446744073709551616 := by decide
    omega
  have hm : (n : Int) % 18446744073709551616 = n := Int.emod_eq_of_lt (by omega) h'
  simp only [hm]
  have h63 : (2 : Nat) ^ 63 = 9223372036854775808 := by decide
  have h64 : (2 : Int) ^ 64 = 18446744073709551616 := by decide
  by_cases hc : n < 2 ^ 63
  · rw [if_pos hc, if_pos (by omega)]
  · rw [if_neg hc, if_neg (by omega), h64]

theorem sliceTo_dropLast {α : Type} (v : List α) (h : v ≠ []) : sliceTo v (len v - 1) = .ok v.dropLast := by
  have hl : 1 ≤ v.length := by cases v with | nil => exact absurd rfl h | cons _ _ => simp
  rw [sliceTo_of_range (by rw [len_eq]; omega) (by rw [len_eq]; omega), List.dropLast_eq_take]
  congr 2
  rw [len_eq]; omega

/-- the collision checker reports one of its three reasons (or the model's out-of-fuel marker) -/
theorem ccStep_collision (tf : Bytes → Bytes) (cc : Zip.CC) (p : Bytes) (d : Bool) (e : Zip.Reason)
    (h : (Zip.ccStep tf cc p d).2 = some e) : reasonTextZ e = reasonText e := by
  unfold Zip.ccStep at h
  split at h
  · split at h
    · cases h; rfl
    · split at h
      · cases h; rfl
      · split at h
        · cases h; rfl
        · cases h
  · cases h

theorem ccCheck_collision (tf : Bytes → Bytes) : ∀ (n : Nat) (cc : Zip.CC) (p : Bytes) (d : Bool) (e : Zip.Reason),
    (Zip.ccCheck tf n cc p d).2 = some e → reasonTextZ e = reasonText e := by
  intro n
  induction n with
  | zero => intro cc p d e h; cases h; rfl
  | succ n ih =>
    intro cc p d e h
    unfold Zip.ccCheck at h
    cases hs : Zip.ccStep tf cc p d with
    | mk cc' o =>
      rw [hs] at h
      cases o with
      | some e' =>
        simp only at h
        cases h
        exact ccStep_collision tf cc p d e (by rw [hs])
      | none =>
        simp only at h
        split at h
        · exact ih _ _ _ e h
        · cases h

section
variable (cv : Bytes → Bytes) (ef : Bytes → Bytes → Bool) (mc : Bytes → Bytes → Option String) (sf : Int → Int)

/-- the end of the loop body: the two per-file size limits, then the entry is valid -/
def tailZ {X : Type} (E : Zip.Env) (L : CheckedFiles → List (Bytes × pathInfo) → Int → M X) (cf : CheckedFiles)
    (m : List (Bytes × pathInfo)) (size : Int) (e : Zip.Entry) (nm : Bytes) (sz : Int) (fuel : Nat) : M X :=
  if (decide (nm = ([103, 111, 46, 109, 111, 100] : Bytes)) && decide (sz > (16777216 : Int))) = true then
    (Generated.Zip.checkZip_addError cv (cfpOf E) ef mc sf fuel (toZEntry e)
      (some "go.mod file too large (max size is %d bytes)") cf >>= fun t => L t.2 m size)
  else if (decide (nm = ([76, 73, 67, 69, 78, 83, 69] : Bytes)) && decide (sz > (16777216 : Int))) = true then
    (Generated.Zip.checkZip_addError cv (cfpOf E) ef mc sf fuel (toZEntry e)
      (some "LICENSE file too large (max size is %d bytes)") cf >>= fun t => L t.2 m size)
  else L { cf with Valid := cf.Valid ++ [e.name] } m size

/-- the model's counterpart of `tailZ` -/
def zipSizedTail (s2 : Zip.ZSt) (e : Zip.Entry) (nm : Bytes) (sz : Int) : Zip.ZSt :=
  if nm == Zip.goModName && sz > Zip.MaxGoMod then s2.addError e.name .goModSize
  else if nm == Zip.licenseName && sz > Zip.MaxLICENSE then s2.addError e.name .licenseSize
  else s2.pushValid e.name

theorem tailZ_run {X : Type} (E : Zip.Env) (s2 : Zip.ZSt) (e : Zip.Entry) (nm : Bytes) (sz : Int) (fuel : Nat)
    (L : CheckedFiles → List (Bytes × pathInfo) → Int → M X) :
    tailZ cv ef mc sf E L (embCFZ totalSizeText s2.cf) (ofCC s2.cc) s2.size e nm sz fuel =
      zrun L (zipSizedTail s2 e nm sz) := by
  unfold tailZ zipSizedTail
  have bA : (decide (nm = ([103, 111, 46, 109, 111, 100] : Bytes)) && decide (sz > (16777216 : Int))) =
      (nm == Zip.goModName && decide (sz > (Zip.MaxGoMod : Int))) := by
    rw [maxGoMod_cast, Bool.beq_eq_decide_eq]; rfl
  have bB : (decide (nm = ([76, 73, 67, 69, 78, 83, 69] : Bytes)) && decide (sz > (16777216 : Int))) =
      (nm == Zip.licenseName && decide (sz > (Zip.MaxLICENSE : Int))) := by
    rw [maxLICENSE_cast, Bool.beq_eq_decide_eq]; rfl
  rw [bA, bB]
  by_cases hA : (nm == Zip.goModName && decide (sz > (Zip.MaxGoMod : Int))) = true
  · rw [if_pos hA, if_pos hA]
    exact zae_run cv (cfpOf E) ef mc sf _ .goModSize rfl s2 e fuel L
  rw [if_neg hA, if_neg hA]
  by_cases hB : (nm == Zip.licenseName && decide (sz > (Zip.MaxLICENSE : Int))) = true
  · rw [if_pos hB, if_pos hB]
    exact zae_run cv (cfpOf E) ef mc sf _ .licenseSize rfl s2 e fuel L
  rw [if_neg hB, if_neg hB]
  rfl

theorem maxZipFile_cast : ((Zip.MaxZipFile : Nat) : Int) = 524288000 := by decide

/-- the size accounting, then `tailZ` -/
theorem acc_run {X : Type} (E : Zip.Env) (s1 : Zip.ZSt) (e : Zip.Entry) (nm : Bytes) (sz : Int) (fuel : Nat)
    (L : CheckedFiles → List (Bytes × pathInfo) → Int → M X) :
    (if (decide (sz ≥ 0) && decide ((524288000 : Int) - s1.size ≥ sz)) = true then
        tailZ cv ef mc sf E L (embCFZ totalSizeText s1.cf) (ofCC s1.cc) (s1.size + sz) e nm sz fuel
      else if (embCFZ totalSizeText s1.cf).SizeError.isNone = true then
        tailZ cv ef mc sf E L { (embCFZ totalSizeText s1.cf) with
            SizeError := some "total uncompressed size of module contents too large (max size is %d bytes)" }
          (ofCC s1.cc) s1.size e nm sz fuel
      else tailZ cv ef mc sf E L (embCFZ totalSizeText s1.cf) (ofCC s1.cc) s1.size e nm sz fuel) =
      zrun L (zipSizedTail (s1.account sz) e nm sz) := by
  have key := fun s2 => tailZ_run cv ef mc sf E s2 e nm sz fuel L
  by_cases hA : (decide (sz ≥ 0) && decide ((524288000 : Int) - s1.size ≥ sz)) = true
  · rw [if_pos hA]
    have hacc : s1.account sz = { s1 with size := s1.size + sz } := by
      unfold Zip.ZSt.account
      have hA' : 0 ≤ sz ∧ (Zip.MaxZipFile : Int) - s1.size ≥ sz := by
        rw [maxZipFile_cast]; simpa using hA
      rw [if_pos hA']
    rw [hacc]
    exact key { s1 with size := s1.size + sz }
  rw [if_neg hA]
  have hnacc : ¬ (0 ≤ sz ∧ (Zip.MaxZipFile : Int) - s1.size ≥ sz) := by
    intro h
    rw [maxZipFile_cast] at h
    apply hA; simpa using h
  by_cases hB : s1.cf.sizeError = true
  · have hnone : ((embCFZ totalSizeText s1.cf).SizeError.isNone) = false := by simp [embCFZ, hB]
    simp only [hnone, Bool.false_eq_true, if_false]
    have hacc : s1.account sz = s1 := by
      unfold Zip.ZSt.account
      rw [if_neg hnacc]
      obtain ⟨⟨v, om, iv, se⟩, cc, ms⟩ := s1
      simp only at hB
      subst hB
      rfl
    rw [hacc]
    exact key _
  · have hB' : s1.cf.sizeError = false := by simpa using hB
    have hnone : ((embCFZ totalSizeText s1.cf).SizeError.isNone) = true := by simp [embCFZ, hB']
    simp only [hnone, if_true]
    have hacc : s1.account sz = { s1 with cf := { s1.cf with sizeError := true } } := by
      unfold Zip.ZSt.account
      rw [if_neg hnacc]
    rw [hacc]
    exact key { s1 with cf := { s1.cf with sizeError := true } }

/-- the three checks on the name below the prefix, then `C` = everything after the call of the collision checker -/
theorem named_run {X : Type} (E : Zip.Env) (K : Nat) (hsf : FoldsTo sf K) (hE : E.toFold = Zip.strToFold)
    (hrel : ∀ p, E.cfp p = true → PathClean.isAbs p = false)
    (s : Zip.ZSt) (e : Zip.Entry) (nm : Bytes) (d : Bool) (fuel : Nat) (hfuel : 3 * nm.length + K + 5 ≤ fuel)
    (L : CheckedFiles → List (Bytes × pathInfo) → Int → M X)
    (C : Option String × List (Bytes × pathInfo) → M X)
    (hC : ∀ (cc' : Zip.CC) (o : Option Zip.Reason), (∀ r, o = some r → reasonTextZ r = reasonText r) →
      C (o.map reasonText, ofCC cc') =
        zrun L (match o with
          | some r => (s.setCC cc').addError e.name r
          | none => if d then s.setCC cc' else Zip.zipSized (s.setCC cc') e nm)) :
    (if (!decide (GoRt.pathClean nm = nm)) = true then
        (Generated.Zip.checkZip_addError cv (cfpOf E) ef mc sf fuel (toZEntry e) (some "errPathNotClean")
          (embCFZ totalSizeText s.cf) >>= fun t => L t.2 (ofCC s.cc) s.size)
      else if (!(cfpOf E nm).isNone) = true then
        (Generated.Zip.checkZip_addError cv (cfpOf E) ef mc sf fuel (toZEntry e) (cfpOf E nm)
          (embCFZ totalSizeText s.cf) >>= fun t => L t.2 (ofCC s.cc) s.size)
      else (Generated.Zip.collisionChecker_check sf fuel (ofCC s.cc) nm d >>= C)) =
      zrun L (Zip.zipNamed E s e nm d) := by
  unfold Zip.zipNamed
  have b1 : (!decide (GoRt.pathClean nm = nm)) = (PathClean.pathClean nm != nm) := by
    show _ = !(PathClean.pathClean nm == nm)
    rw [Bool.beq_eq_decide_eq]; rfl
  have b2 : (!(cfpOf E nm).isNone) = !E.cfp nm := by
    unfold cfpOf; cases E.cfp nm <;> rfl
  rw [b1, b2]
  by_cases h1 : (PathClean.pathClean nm != nm) = true
  · rw [if_pos h1, if_pos h1]
    exact zae_run cv (cfpOf E) ef mc sf _ .notClean rfl s e fuel L
  rw [if_neg h1, if_neg h1]
  by_cases h2 : (!E.cfp nm) = true
  · rw [if_pos h2, if_pos h2]
    have hc : cfpOf E nm = some "filepath" := by
      unfold cfpOf
      cases hcf : E.cfp nm with
      | true => rw [hcf] at h2; cases h2
      | false => rfl
    rw [hc]
    exact zae_run cv (cfpOf E) ef mc sf _ .filePath rfl s e fuel L
  rw [if_neg h2, if_neg h2]
  have hcfp : E.cfp nm = true := by simpa using h2
  have hcr : Proofs.ZipA.CleanRel nm := by
    constructor
    · have : ¬ (PathClean.pathClean nm ≠ nm) := by simpa using h1
      exact Classical.not_not.mp this
    · exact hrel nm hcfp
  rw [check_cleanRel sf K hsf fuel s.cc nm d hcr hfuel, bind_ok, hE]
  have hcol : ∀ r, (Zip.ccCheckTop Zip.strToFold s.cc nm d).2 = some r → reasonTextZ r = reasonText r :=
    fun r hr => ccCheck_collision _ _ _ _ _ r hr
  rw [hC _ _ hcol]
  generalize Zip.ccCheckTop Zip.strToFold s.cc nm d = r
  obtain ⟨cc', o⟩ := r
  cases o <;> rfl

end

section
variable (cv : Bytes → Bytes) (ef : Bytes → Bytes → Bool) (mc : Bytes → Bytes → Option String) (sf : Int → Int)

/-- go.mod placement, then `A` = the size accounting and what follows -/
theorem sized_run {X : Type} (E : Zip.Env) (hef : ∀ s, ef s Zip.goModName = Zip.equalFoldGoMod s)
    (s : Zip.ZSt) (e : Zip.Entry) (nm : Bytes) (fuel : Nat)
    (L : CheckedFiles → List (Bytes × pathInfo) → Int → M X) (A : M X)
    (hA : A = zrun L (zipSizedTail (s.account (Zip.int64OfU64 e.declSize)) e nm (Zip.int64OfU64 e.declSize))) :
    (if ef (GoRt.pathBase nm) ([103, 111, 46, 109, 111, 100] : Bytes) = true then
        if (!decide (GoRt.pathBase nm = nm)) = true then
          (Generated.Zip.checkZip_addError cv (cfpOf E) ef mc sf fuel (toZEntry e)
            (some "go.mod file not in module root directory") (embCFZ totalSizeText s.cf) >>= fun t =>
          L t.2 (ofCC s.cc) s.size)
        else if (!decide (nm = ([103, 111, 46, 109, 111, 100] : Bytes))) = true then
          (Generated.Zip.checkZip_addError cv (cfpOf E) ef mc sf fuel (toZEntry e)
            (some "errGoModCase") (embCFZ totalSizeText s.cf) >>= fun t =>
          L t.2 (ofCC s.cc) s.size)
        else A
      else A) = zrun L (Zip.zipSized s e nm) := by
  have hef' : ef (GoRt.pathBase nm) ([103, 111, 46, 109, 111, 100] : Bytes) =
      Zip.equalFoldGoMod (PathClean.pathBase nm) := hef _
  have b1 : (!decide (GoRt.pathBase nm = nm)) = (PathClean.pathBase nm != nm) := by
    show _ = !(PathClean.pathBase nm == nm)
    rw [Bool.beq_eq_decide_eq]; rfl
  have b2 : (!decide (nm = ([103, 111, 46, 109, 111, 100] : Bytes))) = (nm != Zip.goModName) := by
    show _ = !(nm == Zip.goModName)
    rw [Bool.beq_eq_decide_eq]; rfl
  rw [hef', b1, b2]
  unfold Zip.zipSized
  cases hb : Zip.equalFoldGoMod (PathClean.pathBase nm) with
  | false =>
    simp only [Bool.false_eq_true, if_false, Bool.false_and]
    exact hA
  | true =>
    simp only [if_true, Bool.true_and]
    by_cases h1 : (PathClean.pathBase nm != nm) = true
    · rw [if_pos h1, if_pos h1]
      exact zae_run cv (cfpOf E) ef mc sf _ .goModNotRoot rfl s e fuel L
    rw [if_neg h1, if_neg h1]
    by_cases h2 : (nm != Zip.goModName) = true
    · rw [if_pos h2, if_pos h2]
      exact zae_run cv (cfpOf E) ef mc sf _ .goModCase rfl s e fuel L
    rw [if_neg h2, if_neg h2]
    exact hA

theorem loopZ_step (E : Zip.Env) (K : Nat) (hsf : FoldsTo sf K) (hE : E.toFold = Zip.strToFold)
    (hef : ∀ s, ef s Zip.goModName = Zip.equalFoldGoMod s)
    (hrel : ∀ p, E.cfp p = true → PathClean.isAbs p = false)
    (z : ZReader) (pfx : Bytes) (done : List Zip.Entry) (e : Zip.Entry) (rest : List Zip.Entry) (fuel : Nat)
    (s : Zip.ZSt) (hsz : e.declSize < 2 ^ 64) (hfuel : 3 * e.name.length + K + 5 ≤ fuel) :
    zrun (Generated.Zip.checkZip_loop1 cv (cfpOf E) ef mc sf ((done ++ e :: rest).map toZEntry) z pfx
        (fuel + 1) (done.length : Int)) s =
      zrun (Generated.Zip.checkZip_loop1 cv (cfpOf E) ef mc sf ((done ++ e :: rest).map toZEntry) z pfx
        fuel ((done.length + 1 : Nat) : Int)) (Zip.zipStep E pfx s e) := by
  conv => lhs; unfold zrun
  rw [Generated.Zip.checkZip_loop1]
  have hi : ((done.length + 1 : Nat) : Int) = (done.length : Int) + 1 := by omega
  have hN : (toZEntry e).Name = e.name := rfl
  have hU : toI64 (toZEntry e).UncompressedSize64 = Zip.int64OfU64 e.declSize := toI64_declSize _ hsz
  simp only [lt_len_map_toZEntry, if_true, idxL_map_toZEntry, bind_ok, hi, hN, hU]
  generalize Generated.Zip.checkZip_loop1 cv (cfpOf E) ef mc sf ((done ++ e :: rest).map toZEntry) z pfx fuel
    ((done.length : Int) + 1) = L
  unfold Zip.zipStep
  have b1 : (!hasPrefix e.name pfx) = !isPrefixOfB pfx e.name := rfl
  rw [b1]
  by_cases h1 : (!isPrefixOfB pfx e.name) = true
  · rw [if_pos h1, if_pos h1]
    exact zae_run cv (cfpOf E) ef mc sf _ .noPrefix rfl s e fuel L
  rw [if_neg h1, if_neg h1]
  have hp : isPrefixOfB pfx e.name = true := by simpa using h1
  have hlen := isPrefixOfB_length _ _ hp
  rw [show len pfx = ((pfx.length : Nat) : Int) from rfl, sliceFrom_natCast hlen]
  simp only [bind_ok]
  have hnl : (e.name.drop pfx.length).length ≤ e.name.length := by simp
  generalize e.name.drop pfx.length = name at hnl ⊢
  have b2 : decide (name = []) = (name == []) := by rw [Bool.beq_eq_decide_eq]
  simp only [b2, hasSuffix_slash]
  by_cases h2 : (name == []) = true
  · rw [if_pos h2, if_pos h2]; rfl
  rw [if_neg h2, if_neg h2]
  have hne : name ≠ [] := by simpa using h2
  by_cases h3 : Zip.hasSlashSuffix name = true
  · rw [if_pos h3, if_pos h3, sliceTo_dropLast _ hne, bind_ok]
    simp only [h3, if_true]
    apply named_run cv ef mc sf E K hsf hE hrel s e name.dropLast true fuel (by simp; omega) L
    intro cc' o ho
    cases o with
    | some r =>
      simp only [Option.map_some, Option.isNone_some, Bool.not_false, if_true]
      rw [← ho r rfl]
      exact zae_run cv (cfpOf E) ef mc sf _ r rfl (s.setCC cc') e fuel L
    | none => rfl
  · rw [if_neg h3, if_neg h3]
    simp only [h3, Bool.false_eq_true, if_false]
    apply named_run cv ef mc sf E K hsf hE hrel s e name false fuel (by omega) L
    intro cc' o ho
    cases o with
    | some r =>
      simp only [Option.map_some, Option.isNone_some, Bool.not_false, if_true]
      rw [← ho r rfl]
      exact zae_run cv (cfpOf E) ef mc sf _ r rfl (s.setCC cc') e fuel L
    | none =>
      simp only [Option.map_none, Option.isNone_none, Bool.not_true, Bool.false_eq_true, if_false]
      exact sized_run cv ef mc sf E hef (s.setCC cc') e name fuel L _
        (acc_run cv ef mc sf E (s.setCC cc') e name (Zip.int64OfU64 e.declSize) fuel L)

end

section
variable (cv : Bytes → Bytes) (ef : Bytes → Bytes → Bool) (mc : Bytes → Bytes → Option String) (sf : Int → Int)

/-- the loop from position `done.length` on: the fold of `zipStep` -/
theorem loopZ_from (E : Zip.Env) (K : Nat) (hsf : FoldsTo sf K) (hE : E.toFold = Zip.strToFold)
    (hef : ∀ s, ef s Zip.goModName = Zip.equalFoldGoMod s)
    (hrel : ∀ p, E.cfp p = true → PathClean.isAbs p = false) (z : ZReader) (pfx : Bytes) (B : Nat) :
    ∀ (rest done : List Zip.Entry) (fuel : Nat) (s : Zip.ZSt),
    (∀ e ∈ rest, e.declSize < 2 ^ 64 ∧ 3 * e.name.length + K + 5 ≤ B) → rest.length + 1 + B ≤ fuel →
    zrun (Generated.Zip.checkZip_loop1 cv (cfpOf E) ef mc sf ((done ++ rest).map toZEntry) z pfx fuel
        (done.length : Int)) s =
      .ok (((done ++ rest).length : Int), embCFZ totalSizeText (rest.foldl (Zip.zipStep E pfx) s).cf,
        ofCC (rest.foldl (Zip.zipStep E pfx) s).cc, (rest.foldl (Zip.zipStep E pfx) s).size) := by
  intro rest
  induction rest with
  | nil =>
    intro done fuel s _ hf
    obtain ⟨fuel, rfl⟩ : ∃ k, fuel = k + 1 := ⟨fuel - 1, by omega⟩
    unfold zrun
    rw [Generated.Zip.checkZip_loop1]
    simp only [List.append_nil, not_lt_len_map_toZEntry, Bool.false_eq_true, if_false, List.foldl_nil]
    rfl
  | cons e rest ih =>
    intro done fuel s hB hf
    obtain ⟨fuel, rfl⟩ : ∃ k, fuel = k + 1 := ⟨fuel - 1, by omega⟩
    have hfB := hB e List.mem_cons_self
    simp only [List.length_cons] at hf
    rw [loopZ_step cv ef mc sf E K hsf hE hef hrel z pfx done e rest fuel s hfB.1 (by omega)]
    have e' : done ++ e :: rest = (done ++ [e]) ++ rest := by simp
    have hl : ((done.length + 1 : Nat) : Int) = ((done ++ [e]).length : Int) := by simp
    rw [e', hl, ih (done ++ [e]) fuel (Zip.zipStep E pfx s e)
      (fun g hg => hB g (List.mem_cons_of_mem _ hg)) (by omega)]
    rfl

end

/-! ### the whole function -/

/-- longest entry name -/
def maxNameLen : List Zip.Entry → Nat
  | [] => 0
  | e :: es => max e.name.length (maxNameLen es)

theorem le_maxNameLen : ∀ (es : List Zip.Entry) (e : Zip.Entry), e ∈ es → e.name.length ≤ maxNameLen es
  | [], _, h => by cases h
  | x :: es, e, h => by
    rcases List.mem_cons.mp h with rfl | h
    · exact Nat.le_max_left _ _
    · exact Nat.le_trans (le_maxNameLen es e h) (Nat.le_max_right _ _)

theorem maxNameLen_le_sum : ∀ es : List Zip.Entry, maxNameLen es ≤ (es.map fun e => e.name.length).sum
  | [] => Nat.le_refl _
  | e :: es => by
    have := maxNameLen_le_sum es
    simp only [maxNameLen, List.map_cons, List.sum_cons]
    omega

/-- fuel that is enough for `checkZip` (and for `Unzip`) on the entry list -/
def fuelBoundZ (K : Nat) (es : List Zip.Entry) : Nat := es.length + 3 * maxNameLen es + K + 6

/-- the error `checkZip` returns when the module path / version is rejected -/
def modErr (cv : Bytes → Bytes) (mc : Bytes → Bytes → Option String) (p v : Bytes) : Option String :=
  if cv v ≠ v then some "version %q is not canonical (should be %q)" else mc p v

theorem modErr_none_iff (cv : Bytes → Bytes) (mc : Bytes → Bytes → Option String) (p v : Bytes) :
    modErr cv mc p v = none ↔ (cv v = v ∧ mc p v = none) := by
  unfold modErr
  by_cases h : cv v = v <;> simp [h]

/-- the archive file as the driver builds it from the model's arguments -/
def osFileOf (zs : Nat) (es : List Zip.Entry) : OsFile :=
  { size := zs, statErr := none, entries := es.map toZEntry, readerErr := none }

/-- text of the size error `checkZip` reports for archive size `zs` -/
def sizeTextOf (zs : Nat) : String := if zs > Zip.MaxZipFile then zipTooLargeText else totalSizeText

/-- the reader `checkZip` returns -/
def readerOf (zs : Nat) (es : List Zip.Entry) : ZReader :=
  if zs > Zip.MaxZipFile then default else { File := es.map toZEntry }

section
variable (cv : Bytes → Bytes) (ef : Bytes → Bytes → Bool) (mc : Bytes → Bytes → Option String) (sf : Int → Int)

theorem checkZip_bad (cfp : Bytes → Option String) (p v : Bytes) (f : OsFile) (fuel : Nat)
    (h : modErr cv mc p v ≠ none) :
    Generated.Zip.checkZip cv cfp ef mc sf fuel ⟨p, v⟩ f = .ok (default, default, modErr cv mc p v) := by
  unfold Generated.Zip.checkZip modErr at *
  by_cases h1 : cv v = v
  · have h2 : mc p v ≠ none := by simpa [h1] using h
    cases hm : mc p v with
    | none => exact absurd hm h2
    | some t => simp [h1]
  · simp [h1]

theorem checkZip_eq (E : Zip.Env) (K : Nat) (hsf : FoldsTo sf K) (hE : E.toFold = Zip.strToFold)
    (hef : ∀ s, ef s Zip.goModName = Zip.equalFoldGoMod s)
    (hrel : ∀ p, E.cfp p = true → PathClean.isAbs p = false) (p v : Bytes)
    (hmod : modErr cv mc p v = none ↔ E.modOK p v = true)
    (zs : Nat) (es : List Zip.Entry) (hsz : ∀ e ∈ es, e.declSize < 2 ^ 64) (fuel : Nat)
    (hfuel : fuelBoundZ K es ≤ fuel) :
    Generated.Zip.checkZip cv (cfpOf E) ef mc sf fuel ⟨p, v⟩ (osFileOf zs es) =
      match Zip.checkZip E p v zs es with
      | .ok cf => .ok (readerOf zs es, embCFZ (sizeTextOf zs) cf, cf.err.map (errKindText (sizeTextOf zs)))
      | .error _ => .ok (default, default, modErr cv mc p v) := by
  unfold Zip.checkZip
  by_cases hm : E.modOK p v = true
  · have hme := hmod.mpr hm
    obtain ⟨h1, h2⟩ := (modErr_none_iff cv mc p v).mp hme
    simp only [hm, Bool.not_true, Bool.false_eq_true, if_false]
    unfold Generated.Zip.checkZip
    simp only [h1, h2, decide_true, Bool.not_true, Bool.false_eq_true, if_false, Option.isNone_none,
      Generated.Zip.osStat, osFileOf]
    by_cases hz : zs > Zip.MaxZipFile
    · have hz' : (zs : Int) > 524288000 := by
        have := maxZipFile_cast
        omega
      simp only [hz', decide_true, if_true, hz, sizeTextOf, readerOf]
      rfl
    · have hz' : ¬ ((zs : Int) > 524288000) := by
        have := maxZipFile_cast
        omega
      simp only [hz', decide_false, Bool.false_eq_true, if_false, hz, sizeTextOf, readerOf, zipNewReader,
        Option.isNone_none, Bool.not_true]
      have hl := loopZ_from cv ef mc sf E K hsf hE hef hrel { File := es.map toZEntry } (p ++ [64] ++ v ++ [47])
        (3 * maxNameLen es + K + 5) es [] fuel {}
        (fun e he => ⟨hsz e he, by have := le_maxNameLen es e he; omega⟩)
        (by unfold fuelBoundZ at hfuel; omega)
      unfold zrun at hl
      simp only [List.nil_append, List.length_nil] at hl
      have hl' : Generated.Zip.checkZip_loop1 cv (cfpOf E) ef mc sf (List.map toZEntry es) { File := es.map toZEntry }
          (p ++ [64] ++ v ++ [47]) fuel 0 default [] 0 = _ := hl
      rw [hl']
      simp only [bind_ok, Zip.zipPrefix, checkedFiles_Err_emb]
      rfl
  · have hm' : E.modOK p v = false := by simpa using hm
    have hne : modErr cv mc p v ≠ none := fun h => hm (hmod.mp h)
    simp only [hm', Bool.not_false, if_true]
    exact checkZip_bad cv ef mc sf _ p v _ fuel hne

end

end ModVerif.TieFnZipIOUnzip
