/-
  `path.Clean` / `path.Dir` on clean relative paths: the parent directory of a clean relative path
  `a/b` is `a`, again clean and relative; the recursion of the collision checker therefore ends within
  `length + 1` steps.
-/
import ModVerif.Spec.ZipSpec
import ModVerif.Proofs.ZipSubmodule
import ModVerif.Proofs.ZipAChain
namespace ModVerif.Proofs.ZipA
open ModVerif ModVerif.PathClean ModVerif.Zip ModVerif.ZipSpec ModVerif.Proofs.Zip

/-! ### splitOn / joinWith -/

theorem splitOn_ne_nil (sep : UInt8) : ∀ p : Bytes, splitOn sep p ≠ [] := by
  intro p
  induction p with
  | nil => simp [splitOn]
  | cons c t ih =>
    unfold splitOn
    split
    · simp
    · split <;> simp

theorem splitOn_cons_ne (sep c : UInt8) (t : Bytes) (h : c ≠ sep) :
    ∃ s ss, splitOn sep t = s :: ss ∧ splitOn sep (c :: t) = (c :: s) :: ss := by
  cases hs : splitOn sep t with
  | nil => exact absurd hs (splitOn_ne_nil sep t)
  | cons s ss =>
    refine ⟨s, ss, rfl, ?_⟩
    rw [splitOn]
    simp only [beq_iff_eq, h, if_false]
    rw [hs]

theorem splitOn_cons_sep (sep : UInt8) (t : Bytes) : splitOn sep (sep :: t) = [] :: splitOn sep t := by
  rw [splitOn]; simp

theorem splitOn_append_sep (sep : UInt8) (b : Bytes) : ∀ a : Bytes,
    splitOn sep (a ++ sep :: b) = splitOn sep a ++ splitOn sep b := by
  intro a
  induction a with
  | nil => rw [List.nil_append, splitOn_cons_sep]; rfl
  | cons c t ih =>
    by_cases hc : c = sep
    · subst hc
      rw [List.cons_append, splitOn_cons_sep, splitOn_cons_sep, ih]; rfl
    · obtain ⟨s, ss, h1, h2⟩ := splitOn_cons_ne sep c t hc
      obtain ⟨s', ss', h1', h2'⟩ := splitOn_cons_ne sep c (t ++ sep :: b) hc
      rw [List.cons_append, h2', h2]
      rw [ih, h1] at h1'
      simp only [List.cons_append, List.cons.injEq] at h1'
      rw [← h1'.1, ← h1'.2]; rfl

theorem splitOn_noSep (sep : UInt8) : ∀ a : Bytes, sep ∉ a → splitOn sep a = [a] := by
  intro a
  induction a with
  | nil => intro _; rfl
  | cons c t ih =>
    intro h
    have hc : c ≠ sep := fun e => h (by rw [e]; exact List.mem_cons_self)
    obtain ⟨s, ss, h1, h2⟩ := splitOn_cons_ne sep c t hc
    rw [ih (fun hm => h (List.mem_cons_of_mem _ hm))] at h1
    simp only [List.cons.injEq] at h1
    rw [h2, ← h1.1, ← h1.2]

theorem mem_splitOn_noSep (sep : UInt8) : ∀ (p : Bytes), ∀ c ∈ splitOn sep p, sep ∉ c := by
  intro p
  induction p with
  | nil => intro c hc; simp [splitOn] at hc; subst hc; simp
  | cons x t ih =>
    intro c hc
    by_cases hx : x = sep
    · subst hx
      rw [splitOn_cons_sep] at hc
      rcases List.mem_cons.mp hc with rfl | hc
      · simp
      · exact ih c hc
    · obtain ⟨s, ss, h1, h2⟩ := splitOn_cons_ne sep x t hx
      rw [h2] at hc
      rcases List.mem_cons.mp hc with rfl | hc
      · intro hm
        rcases List.mem_cons.mp hm with e | hm
        · exact hx e.symm
        · exact ih s (by rw [h1]; exact List.mem_cons_self) hm
      · exact ih c (by rw [h1]; exact List.mem_cons_of_mem _ hc)

theorem joinWith_cons_cons (sep x y : Bytes) (t : List Bytes) :
    joinWith sep (x :: y :: t) = x ++ sep ++ joinWith sep (y :: t) := by
  simp [joinWith]

theorem joinWith_splitOn (sep : UInt8) : ∀ p : Bytes, joinWith [sep] (splitOn sep p) = p := by
  intro p
  induction p with
  | nil => rfl
  | cons c t ih =>
    by_cases hc : c = sep
    · subst hc
      rw [splitOn_cons_sep]
      cases hs : splitOn c t with
      | nil => exact absurd hs (splitOn_ne_nil c t)
      | cons s ss => rw [joinWith_cons_cons, ← hs, ih]; rfl
    · obtain ⟨s, ss, h1, h2⟩ := splitOn_cons_ne sep c t hc
      rw [h2]
      rw [h1] at ih
      cases ss with
      | nil => simp only [joinWith] at ih ⊢; rw [ih]
      | cons y ys =>
        rw [joinWith_cons_cons] at ih ⊢
        rw [← ih]; simp

theorem splitOn_joinWith (sep : UInt8) : ∀ cs : List Bytes, cs ≠ [] → (∀ c ∈ cs, sep ∉ c) →
    splitOn sep (joinWith [sep] cs) = cs := by
  intro cs
  induction cs with
  | nil => intro h; exact absurd rfl h
  | cons x t ih =>
    intro _ hall
    cases t with
    | nil => simp only [joinWith]; exact splitOn_noSep sep x (hall x List.mem_cons_self)
    | cons y ys =>
      rw [joinWith_cons_cons]
      have : x ++ [sep] ++ joinWith [sep] (y :: ys) = x ++ sep :: joinWith [sep] (y :: ys) := by simp
      rw [this, splitOn_append_sep, splitOn_noSep sep x (hall x List.mem_cons_self),
        ih (by simp) (fun c hc => hall c (List.mem_cons_of_mem _ hc))]
      rfl

/-! ### the stack of `path.Clean` -/

theorem step_length (r : Bool) (S : List Bytes) (c : Bytes) : (step r S c).length ≤ S.length + 1 := by
  unfold step
  repeat' split
  all_goals simp
  all_goals omega

/-- a step that makes the stack longer has pushed the element, which is neither empty nor `.` -/
theorem step_push (r : Bool) (S : List Bytes) (c : Bytes) (h : (step r S c).length = S.length + 1) :
    step r S c = c :: S ∧ c ≠ [] ∧ c ≠ [46] := by
  unfold step at h ⊢
  by_cases h1 : (c == []) = true
  · rw [if_pos h1] at h; omega
  rw [if_neg h1] at h ⊢
  by_cases h2 : (c == [46]) = true
  · rw [if_pos h2] at h; omega
  rw [if_neg h2] at h ⊢
  have hc1 : c ≠ [] := by simpa using h1
  have hc2 : c ≠ [46] := by simpa using h2
  by_cases h3 : (c == dotdot) = true
  · rw [if_pos h3] at h ⊢
    have hc : c = dotdot := by simpa using h3
    subst hc
    cases S with
    | nil =>
      cases r
      · exact ⟨rfl, hc1, hc2⟩
      · simp at h
    | cons top rest =>
      simp only at h ⊢
      by_cases h4 : (top == dotdot) = true
      · rw [if_pos h4] at h ⊢
        cases r
        · exact ⟨rfl, hc1, hc2⟩
        · simp at h
      · rw [if_neg h4] at h; simp only [List.length_cons] at h; omega
  · rw [if_neg h3]; exact ⟨rfl, hc1, hc2⟩

theorem foldl_step_length (r : Bool) : ∀ (cs S : List Bytes),
    (cs.foldl (step r) S).length ≤ S.length + cs.length := by
  intro cs
  induction cs with
  | nil => intro S; simp
  | cons c t ih =>
    intro S
    have h1 := ih (step r S c)
    have h2 := step_length r S c
    simp only [List.foldl_cons, List.length_cons]
    omega

/-- if cleaning dropped nothing, then no prefix loses anything either, and every element was pushed. -/
theorem foldl_step_full (r : Bool) : ∀ (xs ys S : List Bytes),
    ((xs ++ ys).foldl (step r) S).length = S.length + (xs ++ ys).length →
    xs.foldl (step r) S = xs.reverse ++ S ∧ ∀ c ∈ xs, c ≠ [] ∧ c ≠ [46] := by
  intro xs
  induction xs with
  | nil => intro ys S _; exact ⟨rfl, fun c hc => by cases hc⟩
  | cons c t ih =>
    intro ys S h
    simp only [List.cons_append, List.foldl_cons, List.length_cons] at h
    have h1 := foldl_step_length r (t ++ ys) (step r S c)
    have h2 := step_length r S c
    have hlen : (step r S c).length = S.length + 1 := by omega
    obtain ⟨hp, hc1, hc2⟩ := step_push r S c hlen
    rw [hp] at h
    obtain ⟨g1, g2⟩ := ih ys (c :: S) (by rw [h]; simp; omega)
    refine ⟨?_, ?_⟩
    · simp only [List.foldl_cons, hp, g1, List.reverse_cons, List.append_assoc, List.singleton_append]
    · intro x hx
      rcases List.mem_cons.mp hx with rfl | hx
      · exact ⟨hc1, hc2⟩
      · exact g2 x hx

theorem step_mem (r : Bool) (S : List Bytes) (x c : Bytes) (h : c ∈ step r S x) :
    c ∈ S ∨ c = x ∨ c = dotdot := by
  unfold step at h
  by_cases h1 : (x == []) = true
  · rw [if_pos h1] at h; exact Or.inl h
  rw [if_neg h1] at h
  by_cases h2 : (x == [46]) = true
  · rw [if_pos h2] at h; exact Or.inl h
  rw [if_neg h2] at h
  by_cases h3 : (x == dotdot) = true
  · rw [if_pos h3] at h
    cases S with
    | nil =>
      cases r
      · simp at h; exact Or.inr (Or.inr h)
      · simp at h
    | cons top rest =>
      simp only at h
      by_cases h4 : (top == dotdot) = true
      · rw [if_pos h4] at h
        cases r
        · simp only [Bool.false_eq_true, if_false] at h
          rcases List.mem_cons.mp h with h | h
          · exact Or.inr (Or.inr h)
          · exact Or.inl h
        · simp only [if_true] at h; exact Or.inl h
      · rw [if_neg h4] at h; exact Or.inl (List.mem_cons_of_mem _ h)
  · rw [if_neg h3] at h
    rcases List.mem_cons.mp h with h | h
    · exact Or.inr (Or.inl h)
    · exact Or.inl h

theorem foldl_step_mem (r : Bool) : ∀ (cs S : List Bytes), ∀ c ∈ cs.foldl (step r) S,
    c ∈ S ∨ c ∈ cs ∨ c = dotdot := by
  intro cs
  induction cs with
  | nil => intro S c hc; exact Or.inl hc
  | cons x t ih =>
    intro S c hc
    simp only [List.foldl_cons] at hc
    rcases ih _ c hc with h | h | h
    · rcases step_mem r S x c h with h | h | h
      · exact Or.inl h
      · exact Or.inr (Or.inl (by rw [h]; exact List.mem_cons_self))
      · exact Or.inr (Or.inr h)
    · exact Or.inr (Or.inl (List.mem_cons_of_mem _ h))
    · exact Or.inr (Or.inr h)

theorem isRooted_cons (x : UInt8) (t : Bytes) : isRooted (x :: t) = (x == 47) := by
  by_cases h : x = 47
  · subst h; rfl
  · have : (x == 47) = false := by simpa using h
    rw [this]
    unfold isRooted
    split
    · rename_i heq; simp at heq; exact absurd heq.1 h
    · rfl

theorem takeWhile_all {α : Type} (q : α → Bool) : ∀ (xs : List α), (∀ x ∈ xs, q x = true) → xs.takeWhile q = xs := by
  intro xs
  induction xs with
  | nil => intro _; rfl
  | cons x t ih =>
    intro h
    simp only [List.takeWhile, h x List.mem_cons_self]
    rw [ih (fun z hz => h z (List.mem_cons_of_mem _ hz))]

theorem mem_takeWhile {α : Type} (q : α → Bool) : ∀ (xs : List α) (x : α), x ∈ xs.takeWhile q → q x = true := by
  intro xs
  induction xs with
  | nil => intro x h; cases h
  | cons y t ih =>
    intro x h
    by_cases hy : q y = true
    · simp only [List.takeWhile, hy] at h
      rcases List.mem_cons.mp h with rfl | h
      · exact hy
      · exact ih x h
    · simp [List.takeWhile, hy] at h

/-! ### clean relative paths -/

/-- clean, relative and not "." -/
structure CleanRel (p : Bytes) : Prop where
  clean : pathClean p = p
  rel : isAbs p = false

/-- the elements of a clean relative path other than "." are kept as they are by `path.Clean` -/
theorem cleanRel_split (p : Bytes) (h : CleanRel p) (hdot : p ≠ [46]) :
    (splitOn 47 p).foldl (step false) [] = (splitOn 47 p).reverse := by
  have hc := h.clean
  have hr : isRooted p = false := h.rel
  unfold pathClean at hc
  by_cases hp : p = []
  · subst hp; simp at hc
  have hp' : (p == []) = false := by simpa using hp
  rw [hp'] at hc
  simp only [Bool.false_eq_true, if_false, hr] at hc
  by_cases he : (comps p).isEmpty = true
  · rw [if_pos he] at hc; exact absurd hc.symm hdot
  rw [if_neg he] at hc
  have hne : comps p ≠ [] := by intro e; rw [e] at he; simp at he
  have hns : ∀ c ∈ comps p, (47 : UInt8) ∉ c := by
    intro c hc'
    unfold comps cleanComps at hc'
    rw [List.mem_reverse] at hc'
    rcases foldl_step_mem _ _ _ c hc' with h | h | h
    · cases h
    · exact mem_splitOn_noSep 47 p c h
    · rw [h]; decide
  have := splitOn_joinWith 47 (comps p) hne hns
  rw [hc] at this
  have h2 : comps p = ((splitOn 47 p).foldl (step false) []).reverse := by
    unfold comps cleanComps; rw [hr]
  rw [h2] at this
  have := congrArg List.reverse this
  simpa using this.symm

theorem takeWhile_append_stop {α : Type} (q : α → Bool) : ∀ (xs : List α) (y : α) (ys : List α),
    (∀ x ∈ xs, q x = true) → q y = false → (xs ++ y :: ys).takeWhile q = xs := by
  intro xs
  induction xs with
  | nil => intro y ys _ hy; simp [hy]
  | cons x t ih =>
    intro y ys hall hy
    simp only [List.cons_append, List.takeWhile, hall x List.mem_cons_self]
    rw [ih y ys (fun z hz => hall z (List.mem_cons_of_mem _ hz)) hy]

theorem lastElem_split (a b : Bytes) (hb : (47 : UInt8) ∉ b) : lastElem (a ++ 47 :: b) = b := by
  unfold lastElem
  have : (a ++ 47 :: b).reverse = b.reverse ++ 47 :: a.reverse := by simp
  rw [this, takeWhile_append_stop _ b.reverse 47 a.reverse]
  · simp
  · intro x hx; simp; intro e; subst e; exact hb (List.mem_reverse.mp hx)
  · simp

theorem pathSplit_split (a b : Bytes) (hb : (47 : UInt8) ∉ b) : pathSplit (a ++ 47 :: b) = (a ++ [47], b) := by
  unfold pathSplit
  rw [lastElem_split a b hb]
  have e : a ++ 47 :: b = (a ++ [47]) ++ b := by simp
  have hl : (a ++ 47 :: b).length - b.length = (a ++ [47]).length := by simp; omega
  simp only [hl]
  congr 1
  rw [e]; exact List.take_left' rfl

theorem lastElem_noSlash (p : Bytes) (h : (47 : UInt8) ∉ p) : lastElem p = p := by
  unfold lastElem
  rw [takeWhile_all]
  · simp
  · intro x hx; simp; intro e; subst e; exact h (List.mem_reverse.mp hx)

theorem pathDir_noSlash (p : Bytes) (h : (47 : UInt8) ∉ p) : pathDir p = [46] := by
  unfold pathDir pathSplit
  rw [lastElem_noSlash p h]
  simp [pathClean]

/-- every path has no slash, or splits at its last slash -/
theorem last_slash (p : Bytes) : (47 : UInt8) ∉ p ∨ ∃ a b, p = a ++ 47 :: b ∧ (47 : UInt8) ∉ b := by
  obtain ⟨h1, h2, h3⟩ := pathSplit_spec p
  have hns : (47 : UInt8) ∉ (pathSplit p).2 := by
    rw [h2]; unfold lastElem
    intro hm
    rw [List.mem_reverse] at hm
    have := mem_takeWhile _ _ _ hm
    simp at this
  rcases h3 with h3 | ⟨a, ha⟩
  · left; rw [h1, h3]; simpa using hns
  · right; exact ⟨a, (pathSplit p).2, by rw [ha] at h1; simpa using h1, hns⟩

/-- the parent of a clean relative path `a/b` is `a`, which is again clean, relative and not "." -/
theorem pathDir_cleanRel (a b : Bytes) (hb : (47 : UInt8) ∉ b) (h : CleanRel (a ++ 47 :: b)) :
    pathDir (a ++ 47 :: b) = a ∧ CleanRel a ∧ a ≠ [46] ∧ a ≠ [] := by
  have hs := cleanRel_split _ h (by intro e; have := congrArg (fun l => (47 : UInt8) ∈ l) e; simp at this)
  rw [splitOn_append_sep, splitOn_noSep 47 b hb] at hs
  have hlen : ((splitOn 47 a ++ [b]).foldl (step false) []).length = ([] : List Bytes).length + (splitOn 47 a ++ [b]).length := by
    rw [hs]; simp
  obtain ⟨g1, g2⟩ := foldl_step_full false (splitOn 47 a) [b] [] hlen
  simp only [List.append_nil] at g1
  have hane : a ≠ [] := by
    intro e; subst e
    exact (g2 [] (by simp [splitOn])).1 rfl
  have hadot : a ≠ [46] := by
    intro e; subst e
    exact (g2 [46] (by decide)).2 rfl
  have hroot : isRooted a = false := by
    have hr : isRooted (a ++ 47 :: b) = false := h.rel
    cases a with
    | nil => exact absurd rfl hane
    | cons x t => rw [isRooted_cons]; rw [List.cons_append, isRooted_cons] at hr; exact hr
  have hcomps : comps a = splitOn 47 a := by
    unfold comps cleanComps; rw [hroot, g1]; simp
  have hclean : pathClean a = a := by
    unfold pathClean
    have : (a == []) = false := by simpa using hane
    rw [this]
    simp only [Bool.false_eq_true, if_false, hroot, hcomps]
    have hne : (splitOn 47 a).isEmpty = false := by
      cases hsp : splitOn 47 a with
      | nil => exact absurd hsp (splitOn_ne_nil 47 a)
      | cons _ _ => rfl
    rw [hne]; simp only [Bool.false_eq_true, if_false]
    exact joinWith_splitOn 47 a
  refine ⟨?_, ⟨hclean, hroot⟩, hadot, hane⟩
  unfold pathDir
  rw [pathSplit_split a b hb]
  show pathClean (a ++ [47]) = a
  have hroot' : isRooted (a ++ [47]) = false := by
    cases a with
    | nil => exact absurd rfl hane
    | cons x t => rw [List.cons_append, isRooted_cons]; rw [isRooted_cons] at hroot; exact hroot
  have hcomps' : comps (a ++ [47]) = splitOn 47 a := by
    unfold comps cleanComps
    rw [hroot', splitOn_append_sep]
    have : splitOn 47 ([] : Bytes) = [[]] := rfl
    rw [this, List.foldl_append, g1]
    simp [step]
  unfold pathClean
  have : (a ++ [47] == []) = false := by simp
  rw [this]
  simp only [Bool.false_eq_true, if_false, hroot', hcomps']
  have hne : (splitOn 47 a).isEmpty = false := by
    cases hsp : splitOn 47 a with
    | nil => exact absurd hsp (splitOn_ne_nil 47 a)
    | cons _ _ => rfl
  rw [hne]; simp only [Bool.false_eq_true, if_false]
  exact joinWith_splitOn 47 a

/-- for a clean relative path the bound `length + 1` of the collision checker suffices -/
theorem fuelOK_cleanRel : ∀ (n : Nat) (p : Bytes), CleanRel p → p.length < n → fuelOK n p := by
  intro n
  induction n with
  | zero => intro p _ h; omega
  | succ n ih =>
    intro p hp hlen
    unfold fuelOK
    intro hd
    rcases last_slash p with h | ⟨a, b, rfl, hb⟩
    · rw [pathDir_noSlash p h] at hd; simp at hd
    · obtain ⟨h1, h2, _, _⟩ := pathDir_cleanRel a b hb hp
      rw [h1]
      apply ih a h2
      simp at hlen; omega

end ModVerif.Proofs.ZipA
