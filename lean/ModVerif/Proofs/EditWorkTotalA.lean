/-
  EditWorkTotal, part 1 — **C15 `nilDeref_unreachable`, go.work**: on a state satisfying the go.work tree invariant `InvW`
  every go.work operation (SetUse included, on live `use` entries with distinct non-empty directories) terminates normally
  (`applyWork_noPanic_all`: a success or one of the documented returned errors — never the model's `nilDeref`, Go's nil
  `Syntax` dereference on a cleared entry); hence every session whose operations have statically valid arguments
  (`StaticValidW`: non-empty keys; SetUse directly after a Cleanup) runs to completion from every state satisfying `InvW`,
  in particular from every `parseWork`-accepted well-formed file.  The go.work counterpart of Proofs/EditPanicRun.lean
  (no marker clause to forget here: `InvW` has none).
-/
import ModVerif.Proofs.EditWorkKeepB
import ModVerif.Proofs.EditRefineNoPanic
import ModVerif.Proofs.EditMarkerInv
import ModVerif.Proofs.EditMoreStartW
set_option linter.unusedSimpArgs false
namespace ModVerif.Modfile.Edit
open ModVerif ModVerif.Modfile

/-! ### typed entries of a state satisfying `InvW` point at real lines -/

theorem InvW.entry_id_pos {e : EWork} (hi : InvW e) : ∀ en ∈ entriesW e.f, en.id ≠ 0 := by
  intro en hen
  rcases hi.mtch.cover en hen with ⟨v, hv, hid, _⟩
  rw [← hid]; exact hi.tree.pos _ (view_id_mem_treeIds hv)

theorem InvW.godebug_pos {e : EWork} (hi : InvW e) : ∀ x ∈ e.f.godebug, liveG x = true → x.lineId ≠ 0 := fun _ hx hl =>
  hi.entry_id_pos _ (mem_entriesW_godebug hx hl)
theorem InvW.use_pos {e : EWork} (hi : InvW e) : ∀ x ∈ e.f.use, liveU x = true → x.lineId ≠ 0 := fun _ hx hl =>
  hi.entry_id_pos _ (mem_entriesW_use hx hl)
theorem InvW.replace_pos {e : EWork} (hi : InvW e) : ∀ x ∈ e.f.replace, liveRp x = true → x.lineId ≠ 0 := fun _ hx hl =>
  hi.entry_id_pos _ (mem_entriesW_replace hx hl)

/-! ### SetUse never dereferences a cleared entry -/

/-- the loop of SetUse dereferences the `Syntax` pointer of every `use` entry that is not asked for; all of them point at
    a line -/
theorem setUseLoop_total (us : List Use) (h : ∀ u ∈ us, u.lineId ≠ 0) :
    ∀ (need : List (Bytes × Bytes)) (syn : FileSyntax), ∃ r, setUseLoop us need syn = .ok r := by
  induction us with
  | nil => intro need syn; exact ⟨_, rfl⟩
  | cons d ds ih =>
    intro need syn
    have ih' := ih (fun u hu => h u (List.mem_cons_of_mem _ hu))
    unfold setUseLoop
    cases hf : need.find? (fun a => a.1 == d.path) with
    | some w =>
      rcases ih' (need.filter (fun a => a.1 != d.path)) syn with ⟨⟨ds', need', syn'⟩, hr⟩
      simp only [bind, Except.bind, hr]
      exact ⟨_, rfl⟩
    | none =>
      rcases ih' need (markRemoved syn d.lineId) with ⟨⟨ds', need', syn'⟩, hr⟩
      simp only [bind, Except.bind, deref_ok (h d List.mem_cons_self), hr]
      exact ⟨_, rfl⟩

/-- SetUse never panics on live `use` entries -/
theorem setUse_total (e : EWork) (dirs : List (Bytes × Bytes)) (perm : List (Bytes × Bytes) → List (Bytes × Bytes))
    (hi : InvW e) (hlive : ∀ u ∈ e.f.use, liveU u = true) : ∃ e', setUse e dirs perm = .ok e' := by
  unfold setUse
  rcases setUseLoop_total e.f.use (fun u hu => hi.use_pos u hu (hlive u hu)) (useNeedMap dirs []) e.f.syn with ⟨⟨us, need, syn⟩, hr⟩
  simp only [bind, Except.bind, hr]
  exact ⟨_, rfl⟩

/-! ### every go.work operation -/

/-- a go.work operation (one of the fourteen `applyWork` knows) -/
def IsWorkOp : Op → Prop
  | .addGo _ | .dropGo | .addToolchain _ | .dropToolchain | .addGodebug _ _ | .dropGodebug _ | .addUse _ _ | .addNewUse _ _
  | .dropUse _ | .setUse _ _ | .addReplace _ _ _ _ | .dropReplace _ _ | .sortBlocks | .cleanup => True
  | _ => False

def isWorkOpB : Op → Bool
  | .addGo _ | .dropGo | .addToolchain _ | .dropToolchain | .addGodebug _ _ | .dropGodebug _ | .addUse _ _ | .addNewUse _ _
  | .dropUse _ | .setUse _ _ | .addReplace _ _ _ _ | .dropReplace _ _ | .sortBlocks | .cleanup => true
  | _ => false

theorem isWorkOpB_sound (op : Op) (h : isWorkOpB op = true) : IsWorkOp op := by
  cases op <;> first | trivial | cases h

theorem isWorkOpB_all {ops : List Op} (h : ops.all isWorkOpB = true) : ∀ op ∈ ops, IsWorkOp op := fun op hop =>
  isWorkOpB_sound op (List.all_eq_true.1 h op hop)

/-- **no panic — every go.work operation** on a state satisfying `InvW`, arguments valid in the state (`ValidArgsWAll`:
    non-empty keys; SetUse on live `use` entries) -/
theorem applyWork_noPanic_all (e : EWork) (op : Op) (hv : ValidArgsWAll e op) (hw : IsWorkOp op) (hi : InvW e) :
    NoPanic (applyWork e op) := by
  cases op with
  | addGo v =>
    simp only [applyWork, workAddGoStmt]
    split
    · exact ⟨_, rfl, fun err h => by cases h; rfl⟩
    · split <;> exact NoPanic.ok _
  | dropGo => exact NoPanic.ok _
  | addToolchain n =>
    simp only [applyWork, workAddToolchainStmt]
    split
    · exact ⟨_, rfl, fun err h => by cases h; rfl⟩
    · split <;> exact NoPanic.ok _
  | dropToolchain => exact NoPanic.ok _
  | addGodebug k v =>
    have hk : k ≠ [] := hv
    simp only [applyWork, workAddGodebug, addGodebugCore, bind, Except.bind]
    rcases firstRest_total (fun g : Godebug => g.key == k) (·.lineId) (fun g => { g with value := v }) clearedGodebug e.f.godebug
      (fun x hx hm => hi.godebug_pos x hx (ne_nil_of_beq hk hm)) true with ⟨⟨l', first, dead⟩, hr⟩
    simp only [hr]
    cases first <;> exact NoPanic.ok _
  | dropGodebug k =>
    have hk : k ≠ [] := hv
    simp only [applyWork, workDropGodebug, bind, Except.bind]
    rcases clearAll_total (fun g : Godebug => g.key == k) (·.lineId) clearedGodebug e.f.godebug
      (fun x hx hm => hi.godebug_pos x hx (ne_nil_of_beq hk hm)) with ⟨⟨l', dead⟩, hr⟩
    simp only [hr]; exact NoPanic.ok _
  | addUse d m =>
    have hd : d ≠ [] := hv
    simp only [applyWork, addUse, bind, Except.bind]
    rcases firstRest_total (fun u : Use => u.path == d) (·.lineId) (fun u => { u with modulePath := m }) clearedUse e.f.use
      (fun x hx hm => hi.use_pos x hx (ne_nil_of_beq hd hm)) true with ⟨⟨l', first, dead⟩, hr⟩
    simp only [hr]
    cases first <;> exact NoPanic.ok _
  | addNewUse d m => exact NoPanic.ok _
  | dropUse d =>
    have hd : d ≠ [] := hv
    simp only [applyWork, dropUse, bind, Except.bind]
    rcases clearAll_total (fun u : Use => u.path == d) (·.lineId) clearedUse e.f.use
      (fun x hx hm => hi.use_pos x hx (ne_nil_of_beq hd hm)) with ⟨⟨l', dead⟩, hr⟩
    simp only [hr]; exact NoPanic.ok _
  | setUse w r =>
    rcases setUse_total e w (permOf r) hi hv.2 with ⟨e', he'⟩
    exact ⟨.ok e', by simp only [applyWork, he'], fun err h => by cases h⟩
  | addReplace a b c d =>
    have ha : a ≠ [] := hv
    simp only [applyWork, workAddReplace, addReplaceCore, bind, Except.bind]
    rcases firstRest_total (fun r : Replace => r.old.path == a && (b.isEmpty || r.old.version == b)) (·.lineId)
      (fun r => { r with old := { path := a, version := b }, new := { path := c, version := d } }) clearedReplace e.f.replace
      (fun x hx hm => hi.replace_pos x hx (by simp only [Bool.and_eq_true] at hm; exact ne_nil_of_beq ha hm.1)) true
      with ⟨⟨l', first, dead⟩, hr⟩
    simp only [hr]
    cases first <;> exact NoPanic.ok _
  | dropReplace a b =>
    have ha : a ≠ [] := hv
    simp only [applyWork, workDropReplace, dropReplaceCore, bind, Except.bind]
    rcases clearAll_total (fun r : Replace => r.old.path == a && r.old.version == b) (·.lineId) clearedReplace e.f.replace
      (fun x hx hm => hi.replace_pos x hx (by simp only [Bool.and_eq_true] at hm; exact ne_nil_of_beq ha hm.1)) with ⟨⟨l', dead⟩, hr⟩
    simp only [hr]; exact NoPanic.ok _
  | sortBlocks => exact NoPanic.ok _
  | cleanup => exact NoPanic.ok _
  | addModule p => exact hw.elim
  | addRequire p v => exact hw.elim
  | addNewRequire p v i => exact hw.elim
  | dropRequire p => exact hw.elim
  | setRequire w r => exact hw.elim
  | setRequireSeparateIndirect w r => exact hw.elim
  | addExclude p v => exact hw.elim
  | dropExclude p v => exact hw.elim
  | addRetract a b c => exact hw.elim
  | dropRetract a b => exact hw.elim
  | addTool p => exact hw.elim
  | dropTool p => exact hw.elim

/-! ### sessions -/

/-- a session whose operations have valid arguments in the state in which they run (`RunValidW`) always runs to completion
    — no Go panic — and ends in a state satisfying `InvW` -/
theorem runOpsWork_total (ops : List Op) : ∀ (e : EWork) (res0 : List Bool) (i : Nat),
    RunValidW e ops → (∀ op ∈ ops, IsWorkOp op) → InvW e → ∃ e' res, runOps applyWork e ops res0 i = .done e' res ∧ InvW e' := by
  induction ops with
  | nil => intro e res0 i _ _ hi; exact ⟨e, res0.reverse, rfl, hi⟩
  | cons op ops ih =>
    intro e res0 i hv hm hi
    have hms : ∀ o ∈ ops, IsWorkOp o := fun o ho => hm o (List.mem_cons_of_mem _ ho)
    rcases applyWork_noPanic_all e op hv.1 (hm op List.mem_cons_self) hi with ⟨x, hx, herr⟩
    unfold runOps
    rw [hx]
    cases x with
    | ok e1 => exact ih e1 _ _ (hv.2.1 e1 hx) hms (applyWork_inv_all e e1 op hv.1 hi hx)
    | error err =>
      simp only [herr err rfl, if_true]
      exact ih e _ _ (hv.2.2 err hx (herr err rfl)) hms hi

/-- no operation of a session that runs to completion returned a panic (any `apply`): the result of every operation, in the
    state in which it ran, is not an error outside the documented returned ones -/
theorem done_no_panic_any {σ : Type} (apply : σ → Op → Option (Except EditErr σ)) (ops : List Op) :
    ∀ (e : σ) (res0 : List Bool) (i : Nat) (e' : σ) (res : List Bool),
    runOps apply e ops res0 i = .done e' res →
    ∀ (pre : List Op) (op : Op) (post : List Op), ops = pre ++ op :: post →
      ∃ e1 r1, runOps apply e pre res0 i = .done e1 r1 ∧
        ∀ err, err.isReturned = false → apply e1 op ≠ some (.error err) := by
  induction ops with
  | nil => intro e res0 i e' res _ pre op post h; cases pre <;> cases h
  | cons o ops ih =>
    intro e res0 i e' res h pre op post hsplit
    cases pre with
    | nil =>
      simp only [List.nil_append, List.cons.injEq] at hsplit
      rcases hsplit with ⟨rfl, rfl⟩
      refine ⟨e, res0.reverse, rfl, ?_⟩
      intro err herr hc
      unfold runOps at h
      rw [hc] at h
      simp [herr] at h
    | cons p pre =>
      simp only [List.cons_append, List.cons.injEq] at hsplit
      rcases hsplit with ⟨rfl, rfl⟩
      unfold runOps at h ⊢
      cases ha : apply e o with
      | none => simp [ha] at h
      | some r =>
        cases r with
        | ok e2 =>
          simp only [ha] at h ⊢
          exact ih e2 _ _ e' res h pre op post rfl
        | error err =>
          simp only [ha] at h ⊢
          by_cases hr : err.isReturned = true
          · simp only [hr, if_true] at h ⊢
            exact ih e _ _ e' res h pre op post rfl
          · simp only [Bool.not_eq_true] at hr
            simp [hr] at h

/-! ### a static form of `RunValidW`: SetUse directly after a Cleanup -/

/-- validity of the arguments that can be read off the operation list: as `ValidArgsW`; SetUse has distinct non-empty
    directories and comes directly after a Cleanup (`afterCleanup`) -/
def StaticArgsW (afterCleanup : Bool) : Op → Prop
  | .setUse w _ => GoodUse w ∧ afterCleanup = true
  | op => ValidArgsW op

def StaticValidW : Bool → List Op → Prop
  | _, [] => True
  | c, op :: ops => StaticArgsW c op ∧ StaticValidW (isCleanupOp op) ops

/-- after Cleanup every typed `use` is live (the state-dependent hypothesis of SetUse) -/
theorem workCleanup_use_live (e : EWork) : ∀ u ∈ (workCleanup e).f.use, liveU u = true := by
  intro u hu
  simp only [workCleanup] at hu
  exact (List.mem_filter.1 hu).2

theorem StaticValidW.runValidW (ops : List Op) : ∀ (c : Bool) (e : EWork), StaticValidW c ops →
    (c = true → ∀ u ∈ e.f.use, liveU u = true) → RunValidW e ops := by
  induction ops with
  | nil => intro c e _ _; trivial
  | cons op ops ih =>
    intro c e hs hc
    have hargs : ValidArgsWAll e op := by
      have := hs.1
      cases op <;> first
        | exact ⟨this.1, hc this.2⟩
        | exact this
    refine ⟨hargs, ?_, ?_⟩
    · intro e' ha
      refine ih (isCleanupOp op) e' hs.2 ?_
      intro hcl
      cases op <;> simp only [isCleanupOp] at hcl <;> try cases hcl
      simp only [applyWork, Option.some.injEq, Except.ok.injEq] at ha
      subst ha
      exact workCleanup_use_live e
    · intro err ha hr
      refine ih (isCleanupOp op) e hs.2 ?_
      intro hcl
      cases op <;> simp only [isCleanupOp] at hcl <;> try cases hcl
      simp [applyWork] at ha

def staticArgsWB (c : Bool) : Op → Bool
  | .setUse w _ => goodUseB w && c
  | op => validArgsWB op

theorem staticArgsWB_sound (c : Bool) (op : Op) (h : staticArgsWB c op = true) : StaticArgsW c op := by
  cases op <;> first
    | (simp only [staticArgsWB, Bool.and_eq_true] at h; exact ⟨goodUseB_sound _ h.1, h.2⟩)
    | (simp only [StaticArgsW]; exact validArgsWB_sound _ h)

def staticValidWB : Bool → List Op → Bool
  | _, [] => true
  | c, op :: ops => staticArgsWB c op && staticValidWB (isCleanupOp op) ops

theorem staticValidWB_sound (ops : List Op) : ∀ c : Bool, staticValidWB c ops = true → StaticValidW c ops := by
  induction ops with
  | nil => intro c _; trivial
  | cons op ops ih =>
    intro c h
    simp only [staticValidWB, Bool.and_eq_true] at h
    exact ⟨staticArgsWB_sound c op h.1, ih _ h.2⟩

/-- statically valid go.work sessions consist of go.work operations or operations `applyWork` rejects — the latter are
    excluded by `IsWorkOp`; conversely `ValidArgsW` says nothing about them, hence the separate hypothesis -/
theorem StaticValidW.tail {c : Bool} {op : Op} {ops : List Op} (h : StaticValidW c (op :: ops)) :
    StaticValidW (isCleanupOp op) ops := h.2

/-! ### the theorems -/

/-- **C15 `nilDeref_unreachable`, go.work, from a state**: from a state satisfying `InvW`, a session of go.work operations
    with statically valid arguments runs to completion, and `InvW` holds again after the final Cleanup -/
theorem nilDeref_unreachable_work_state (e : EWork) (ops : List Op) (hi : InvW e) (hv : StaticValidW false ops)
    (hw : ∀ op ∈ ops, IsWorkOp op) :
    ∃ e' res, runOps applyWork e ops [] 0 = .done e' res ∧ InvW e' ∧ InvW (workCleanup e') := by
  have hl := StaticValidW.runValidW ops false e hv (fun hc => by cases hc)
  rcases runOpsWork_total ops e [] 0 hl hw hi with ⟨e', res, h, hi'⟩
  exact ⟨e', res, h, hi', workCleanup_inv e' hi'⟩

/-- **C15 `nilDeref_unreachable`, go.work (full)**: for EVERY go.work text accepted by `parseWork` (no version fixer, as in
    `sessionWork`) with non-empty keys (`WorkKeys`; `NoBlockSuffix`: as in `parseWork_invW`) and every session of go.work
    operations with statically valid arguments, the run completes: every operation, in the state in which it runs,
    succeeds or returns a documented error — it never returns `nilDeref` (nor any other non-returned error) —, and the tree
    invariant holds after the final Cleanup. -/
theorem nilDeref_unreachable_work_parsed (name data : Bytes) (f : WorkFile) (ops : List Op)
    (hf : parseWork name data none = .ok f) (hk : WorkKeys f) (hs : NoBlockSuffix f.syn)
    (hv : StaticValidW false ops) (hw : ∀ op ∈ ops, IsWorkOp op) :
    ∃ e' res, runOps applyWork (loadWork f) ops [] 0 = .done e' res ∧
      (∀ (pre : List Op) (op : Op) (post : List Op), ops = pre ++ op :: post →
        ∃ e1 r1, runOps applyWork (loadWork f) pre [] 0 = .done e1 r1 ∧
          applyWork e1 op ≠ some (.error .nilDeref) ∧ applyWork e1 op ≠ some (.error .badStatement) ∧
          applyWork e1 op ≠ some (.error .conflictingVersions)) ∧
      InvW (workCleanup e') := by
  rcases nilDeref_unreachable_work_state (loadWork f) ops (parseWork_invW hf hk hs) hv hw with ⟨e', res, h, _, hi⟩
  refine ⟨e', res, h, ?_, hi⟩
  intro pre op post hsplit
  rcases done_no_panic_any applyWork ops (loadWork f) [] 0 e' res h pre op post hsplit with ⟨e1, r1, h1, h2⟩
  exact ⟨e1, r1, h1, h2 _ rfl, h2 _ rfl, h2 _ rfl⟩

end ModVerif.Modfile.Edit
