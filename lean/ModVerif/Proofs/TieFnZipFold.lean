/-
  Tie proof, zip/zip.go `strToFold`: the regenerated definition (Generated/FnZip.lean; three loops, the Go `goto Slow` is
  the `Ctl.ret` of the first loop) against the hand model `Zip.strToFold` (Model/Zip.lean).

  `unicode.SimpleFold` is an abstract parameter `simpleFold : Int → Int` of the generated code; the model uses the committed
  table `FoldTable.foldMin` (minimum of the SimpleFold orbit).  The bridge is `FoldsTo simpleFold K`: for every rune value
  the inner loop `for { r0 := r; r = simpleFold(r0); if r <= r0 { break } }` ends within `K` iterations with `foldMin r`
  (`orbitMinBy` is that loop on explicit fuel).  `foldsTo_foldMin`: the instance used by the driver (`Drv/GenZip.lean`,
  `simpleFold r := foldMin r`) satisfies it with `K = 1`, with no hypothesis (`foldMin r ≤ r` by evaluation of the table).
-/
import ModVerif.Generated.FnZip
import ModVerif.Model.Zip
import ModVerif.Proofs.GoRtLemmasZip
namespace ModVerif.TieFnZip
open ModVerif ModVerif.GoRt ModVerif.GoRtZip ModVerif.GoRtStr

/-! ### the inner loop: iterate `simpleFold` until it stops increasing -/

/-- the value the inner loop of `strToFold` ends with when it is started at `r`, if it ends within `k` iterations -/
def orbitMinBy (sf : Int → Int) : Nat → Int → Option Int
  | 0, _ => none
  | k + 1, r => if sf r ≤ r then some (sf r) else orbitMinBy sf k (sf r)

/-- started at any Unicode code point (`range` over a string only yields values below 0x110000), iterating `sf` until it
    stops increasing ends within `K` iterations, at the orbit minimum of the table -/
def FoldsTo (sf : Int → Int) (K : Nat) : Prop :=
  ∀ r : Nat, r < 0x110000 → orbitMinBy sf K (r : Int) = some ((FoldTable.foldMin r : Nat) : Int)

theorem loop3_eq (sf : Int → Int) : ∀ (k : Nat) (r m : Int) (fuel : Nat), orbitMinBy sf k r = some m → k ≤ fuel →
    Generated.Zip.strToFold_loop3 sf fuel r = .ok m := by
  intro k
  induction k with
  | zero => intro r m fuel h; simp [orbitMinBy] at h
  | succ k ih =>
    intro r m fuel h hf
    obtain ⟨f, rfl⟩ : ∃ f, fuel = f + 1 := ⟨fuel - 1, by omega⟩
    unfold Generated.Zip.strToFold_loop3
    unfold orbitMinBy at h
    by_cases hc : sf r ≤ r
    · rw [if_pos hc] at h
      simp only [Option.some.injEq] at h
      subst h
      simp only [hc, decide_true, if_true]; rfl
    · rw [if_neg hc] at h
      simp only [hc, decide_false, Bool.false_eq_true, if_false]
      exact ih (sf r) m f h (by omega)

/-! ### the rune range of `range` over a string -/

theorem decode_lt {s : Bytes} {r w : Nat} (h : Utf8.decode s = some (r, w)) : r < 0x110000 := by
  unfold Utf8.decode at h
  split at h
  · cases h
  · rename_i b0 rest
    have hb0 := b0.toNat_lt
    simp only at h
    split at h
    · simp only [Option.some.injEq, Prod.mk.injEq] at h; omega
    split at h
    · cases h
    split at h
    · split at h
      · rename_i b1 tl
        have hb1 := b1.toNat_lt
        obtain ⟨_, hv⟩ := ite_some_inv _ _ _ h
        simp only [Prod.mk.injEq] at hv; omega
      · cases h
    split at h
    · split at h
      · rename_i b1 b2 tl
        have hb1 := b1.toNat_lt
        have hb2 := b2.toNat_lt
        obtain ⟨_, hv⟩ := ite_some_inv _ _ _ h
        simp only [Prod.mk.injEq] at hv; omega
      · cases h
    split at h
    · split at h
      · rename_i b1 b2 b3 tl
        have hb1 := b1.toNat_lt
        have hb2 := b2.toNat_lt
        have hb3 := b3.toNat_lt
        obtain ⟨hc, hv⟩ := ite_some_inv _ _ _ h
        simp only [Bool.and_eq_true] at hc
        simp only [Prod.mk.injEq] at hv
        have h2 : b2.toNat ≤ 0xBF := by have := hc.1.2; simp [Utf8.isCont] at this; omega
        have h3 : b3.toNat ≤ 0xBF := by have := hc.2; simp [Utf8.isCont] at this; omega
        have h1 : b1.toNat ≤ 0xBF ∧ (b0.toNat = 0xF4 → b1.toNat ≤ 0x8F) := by
          have := hc.1.1
          by_cases hx : b0.toNat = 0xF4
          · simp [hx, Utf8.inRange] at this; omega
          · by_cases hy : b0.toNat = 0xF0
            · simp [hy, Utf8.inRange] at this; omega
            · simp [hx, hy, Utf8.inRange] at this; omega
        omega
      · cases h
    · cases h

theorem decodeRune_lt (s : Bytes) : (Utf8.decodeRune s).1 < 0x110000 := by
  unfold Utf8.decodeRune
  cases h : Utf8.decode s with
  | none => simp [Utf8.runeError]
  | some rw => obtain ⟨r, w⟩ := rw; exact decode_lt h

/-! ### the model's per-rune function -/

/-- what the slow path writes for one rune -/
def foldRune (r : Nat) : Bytes :=
  let m := FoldTable.foldMin r
  let m := if 65 ≤ m ∧ m ≤ 90 then m + 32 else m
  Utf8.encode m

/-- the fast-path test on one byte: ASCII and not an upper-case letter -/
def plainByte (c : UInt8) : Bool := c.toNat < 0x80 && !(65 ≤ c.toNat && c.toNat ≤ 90)

theorem strToFold_model (s : Bytes) :
    Zip.strToFold s = if s.all plainByte then s else (Utf8.runes s).flatMap foldRune := rfl

/-! ### the slow loop -/

theorem loop2_eq (sf : Int → Int) (K : Nat) (hsf : FoldsTo sf K) (s : Bytes) : ∀ (fuel k : Nat) (buf : Bytes),
    k ≤ s.length → s.length - k + K + 1 ≤ fuel →
    Generated.Zip.strToFold_loop2 sf s fuel (k : Int) buf =
      .ok ((s.length : Int), buf ++ (Utf8.runes (s.drop k)).flatMap foldRune) := by
  intro fuel
  induction fuel with
  | zero => intro k buf _ h; omega
  | succ f ih =>
    intro k buf hk hf
    unfold Generated.Zip.strToFold_loop2
    by_cases hlt : k < s.length
    · have hc : decide (((k : Nat) : Int) < len s) = true := by simp [len]; omega
      simp only [hc, if_true]
      obtain ⟨r, w, hd, hw1, hw2, hrunes, _⟩ := range_step s k hlt
      have hr : r < 0x110000 := by
        have := decodeRune_lt (s.drop k)
        rw [decodeRuneAt_natCast] at hd
        simp only [Prod.mk.injEq, Int.natCast_inj] at hd
        omega
      rw [hd]
      simp only []
      rw [loop3_eq sf K (r : Int) _ f (hsf r hr) (by omega)]
      simp only [bind, Except.bind]
      have hrec : ∀ b : Bytes, Generated.Zip.strToFold_loop2 sf s f ((k : Int) + (w : Int)) b =
          .ok ((s.length : Int), b ++ (Utf8.runes (s.drop (k + w))).flatMap foldRune) := by
        intro b
        have := ih (k + w) b hw2 (by omega)
        rwa [Int.natCast_add] at this
      rw [hrunes, List.flatMap_cons]
      by_cases hup : 65 ≤ FoldTable.foldMin r ∧ FoldTable.foldMin r ≤ 90
      · have hc2 : (decide ((65 : Int) ≤ ((FoldTable.foldMin r : Nat) : Int)) &&
            decide (((FoldTable.foldMin r : Nat) : Int) ≤ 90)) = true := by
          simp only [Bool.and_eq_true, decide_eq_true_eq]; omega
        simp only [hc2, if_true]
        rw [toI32_small _ (by omega) (by omega)]
        have : ((FoldTable.foldMin r : Nat) : Int) + 32 = ((FoldTable.foldMin r + 32 : Nat) : Int) := by simp
        rw [this, encodeRune_natCast, hrec]
        simp only [foldRune, hup, and_self, if_true, List.append_assoc]
      · have hc2 : (decide ((65 : Int) ≤ ((FoldTable.foldMin r : Nat) : Int)) &&
            decide (((FoldTable.foldMin r : Nat) : Int) ≤ 90)) = false := by
          rw [Bool.eq_false_iff]
          simp only [ne_eq, Bool.and_eq_true, decide_eq_true_eq]; omega
        simp only [hc2, Bool.false_eq_true, if_false]
        rw [encodeRune_natCast, hrec]
        simp only [foldRune, hup, if_false, List.append_assoc]
    · have hk' : k = s.length := by omega
      have hc : decide (((k : Nat) : Int) < len s) = false := by simp [len]; omega
      simp only [hc, Bool.false_eq_true, if_false]
      subst hk'
      simp [Utf8.runes, Utf8.runesAux]

/-! ### the fast loop -/

theorem plainByte_cond (c : UInt8) :
    (decide (((c.toNat : Nat) : Int) ≥ 128) ||
      (decide ((65 : Int) ≤ ((c.toNat : Nat) : Int)) && decide (((c.toNat : Nat) : Int) ≤ 90))) = !plainByte c := by
  unfold plainByte
  rw [Bool.eq_iff_iff]
  simp only [Bool.or_eq_true, Bool.and_eq_true, decide_eq_true_eq, Bool.not_eq_true', Bool.and_eq_false_iff,
    decide_eq_false_iff_not, Bool.not_eq_false']
  omega

theorem loop1_eq (sf : Int → Int) (K : Nat) (hsf : FoldsTo sf K) (s : Bytes) : ∀ (fuel k : Nat),
    k ≤ s.length → 2 * s.length - k + K + 2 ≤ fuel →
    Generated.Zip.strToFold_loop1 sf s fuel (k : Int) =
      .ok (if (s.drop k).all plainByte then Ctl.next (s.length : Int) else Ctl.ret ((Utf8.runes s).flatMap foldRune)) := by
  intro fuel
  induction fuel with
  | zero => intro k _ h; omega
  | succ f ih =>
    intro k hk hf
    unfold Generated.Zip.strToFold_loop1
    by_cases hlt : k < s.length
    · have hc : decide (((k : Nat) : Int) < len s) = true := by simp [len]; omega
      simp only [hc, if_true]
      rw [idx_natCast hlt]
      simp only [bind, Except.bind]
      rw [plainByte_cond]
      have hdrop : s.drop k = s[k] :: s.drop (k + 1) := List.drop_eq_getElem_cons hlt
      rw [hdrop, List.all_cons]
      cases hp : plainByte s[k] with
      | true =>
        simp only [Bool.not_true, Bool.false_eq_true, if_false, Bool.true_and]
        have := ih (k + 1) (by omega) (by omega)
        rwa [Int.natCast_add] at this
      | false =>
        simp only [Bool.not_false, if_true, Bool.false_and, Bool.false_eq_true, if_false]
        have := loop2_eq sf K hsf s f 0 [] (by omega) (by omega)
        simp only [Int.natCast_zero, List.drop_zero, List.nil_append] at this
        rw [this]; rfl
    · have hk' : k = s.length := by omega
      have hc : decide (((k : Nat) : Int) < len s) = false := by simp [len]; omega
      simp only [hc, Bool.false_eq_true, if_false]
      subst hk'
      simp

theorem strToFold_eq (sf : Int → Int) (K : Nat) (hsf : FoldsTo sf K) (fuel : Nat) (s : Bytes)
    (hf : 2 * s.length + K + 2 ≤ fuel) :
    Generated.Zip.strToFold sf fuel s = .ok (Zip.strToFold s) := by
  unfold Generated.Zip.strToFold
  show (Generated.Zip.strToFold_loop1 sf s fuel 0 >>= _) = _
  have := loop1_eq sf K hsf s fuel 0 (by omega) (by omega)
  simp only [Int.natCast_zero, List.drop_zero] at this
  rw [this, strToFold_model]
  cases s.all plainByte <;> rfl

/-! ### the driver's instance: jumping straight to the orbit minimum -/

/-- every entry of the committed table maps a rune to a smaller one (kernel evaluation over the 1454 entries) -/
theorem table_le : FoldTable.table.toList.all (fun kv => decide (kv.2 ≤ kv.1)) = true := by decide +kernel

theorem all_getElem? {α : Type} (t : Array α) (p : α → Bool) (h : t.toList.all p = true) (i : Nat) (x : α)
    (hi : t[i]? = some x) : p x = true := by
  rw [← Array.getElem?_toList] at hi
  exact List.all_eq_true.mp h x (List.mem_of_getElem? hi)

/-- a successful binary search returns the value of an entry with the key searched for.  (`change` instead of `unfold`:
    the equation lemmas of `FoldTable.search` cannot be generated — the elaborator runs out of recursion depth on the table.) -/
theorem search_mem (r : Nat) : ∀ (fuel lo hi v : Nat), FoldTable.search r fuel lo hi = some v →
    ∃ i : Nat, FoldTable.table[i]? = some (r, v)
  | 0, lo, hi, v, h => by
    change none = some v at h
    cases h
  | f + 1, lo, hi, v, h => by
    change (if lo ≥ hi then none else _) = some v at h
    split at h
    · cases h
    · simp only at h
      split at h
      · cases h
      · rename_i k w hm
        split at h
        · rename_i hk
          simp only [Option.some.injEq] at h
          have hk : k = r := by simpa using hk
          subst hk; subst h
          exact ⟨_, hm⟩
        · split at h
          · exact search_mem r f _ _ _ h
          · exact search_mem r f _ _ _ h

theorem foldMin_le (r : Nat) : FoldTable.foldMin r ≤ r := by
  unfold FoldTable.foldMin
  cases h : FoldTable.search r 16 0 FoldTable.table.size with
  | none => simp
  | some m =>
    obtain ⟨i, hi⟩ := search_mem r _ _ _ _ h
    have := all_getElem? _ _ table_le i _ hi
    simpa using this

/-- `simpleFold := foldMin` (the stand-in of the driver `Drv/GenZip.lean`): the loop ends after one iteration -/
theorem foldsTo_foldMin : FoldsTo (fun r : Int => Int.ofNat (FoldTable.foldMin r.toNat)) 1 := by
  intro r _
  have := foldMin_le r
  simp only [orbitMinBy, Int.toNat_natCast, Int.ofNat_eq_natCast]
  rw [if_pos (by omega)]

end ModVerif.TieFnZip
