/-
  C02, strictly accepted inputs, part b: the STRICT directive layer never accepts a token that spans two source
  lines.

  Per verb of `File.add` / `WorkFile.add` (via `add_eq`: one definition per verb): every argument position is
  either matched against a pattern whose matches do not start with a double quote (`goVersionRE`: starts with a
  digit; `toolchainRE`: starts with `d` or `g`; godebug: no quote character at all; the fixed tokens `=>`, `[`,
  `,`, `]`), or goes through `parseString` — directly or inside `parseVersion` —, which for a token starting with
  a double quote requires `strconv.Unquote` to succeed, and `Unquote` rejects a newline byte (`unquote_facts`);
  extra tokens are errors in strict mode (usage errors, `tokenAfterVersion`); the verb and a block header are fixed
  words; unknown verbs / blocks are errors.  Hence every token of an accepted line is `DG` (a text that starts with
  a double quote contains no newline), and by `parse_noMultiLineToken` no token of the source spans two lines:
  `strict_noMultiLineToken` (any fixer: the fixer only sees the value `parseString` returned) and
  `strict_noMultiLineToken_work`.  Then the C02 clauses for strictly accepted inputs without the source hypothesis.
-/
import ModVerif.Proofs.ModfileStrictTokLex
import ModVerif.Proofs.ModfileC20Unquote
import ModVerif.Proofs.ModfileC20Lax
import ModVerif.Proofs.ModfileFmtFixReplace
import ModVerif.Proofs.ModfileSrcDir
import ModVerif.Proofs.ModfileFmtCom
namespace ModVerif.Proofs.ModfileStrictTok
open ModVerif ModVerif.Modfile ModVerif.Proofs.ModfileC20 ModVerif.Proofs.ModfileFmtFix
open ModVerif.Proofs.ModfileSrc

/-! ### leaf facts -/

theorem dg_of_head_ne {t : Bytes} (h : t.head? ≠ some 34) : DG t := fun h' => absurd h' h

theorem head_of_prefix {p t : Bytes} {c : UInt8} (hp : p.head? = some c) (h : isPrefixOfB p t = true) :
    t.head? = some c := by
  cases p with
  | nil => cases hp
  | cons a as =>
    cases t with
    | nil => simp [isPrefixOfB] at h
    | cons b bs =>
      simp only [isPrefixOfB, Bool.and_eq_true, beq_iff_eq] at h
      simp only [List.head?_cons, Option.some.injEq] at hp ⊢
      rw [← h.1, hp]

theorem head_of_beq {a b : Bytes} (h : (a == b) = true) : a.head? = b.head? := by
  rw [eq_of_beq h]

/-- a token equal to a fixed word that does not start with a double quote -/
theorem dg_of_beq {a : Bytes} {s : String} (h : (a == B s) = true) (hs : (B s).head? ≠ some 34) : DG a :=
  dg_of_head_ne (by rw [head_of_beq h]; exact hs)

theorem dg_of_eq {a b : Bytes} (h : a = b) (hs : b.head? ≠ some 34) : DG a :=
  dg_of_head_ne (by rw [h]; exact hs)

/-- ★ `parseString` accepts only quote-good tokens: a token starting with `"` must be accepted by
    `strconv.Unquote`, which rejects a newline -/
theorem parseString_dg {t : Bytes} {r : Bytes × Bytes} (h : parseString t = some r) : DG t := by
  unfold parseString at h
  split at h
  · rename_i hp
    split at h
    · cases h
    · rename_i u hu
      intro hq hm
      exact (unquote_facts hu hq).2.1 10 hm rfl
  · rename_i hp
    apply dg_of_head_ne
    intro hq
    apply hp
    cases t with
    | nil => cases hq
    | cons b bs =>
      simp only [List.head?_cons, Option.some.injEq] at hq
      subst hq
      rfl

theorem parseVersion_dg {p t t' v : Bytes} {fix : Option Fixer} (h : parseVersion p t fix = (t', .ok v)) : DG t := by
  cases hps : parseString t with
  | none => simp [parseVersion, hps] at h
  | some r => exact parseString_dg hps

theorem goVersionRE_dg {a : Bytes} (h : goVersionRE a = true) : DG a := by
  apply dg_of_head_ne
  intro hq
  cases a with
  | nil => cases hq
  | cons c rest =>
    simp only [List.head?_cons, Option.some.injEq] at hq
    subst hq
    have : reNumNZ (34 :: rest) = none := by
      simp only [reNumNZ]
      rfl
    simp [goVersionRE, this] at h

theorem toolchainRE_dg {a : Bytes} (h : toolchainRE a = true) : DG a := by
  unfold toolchainRE at h
  simp only [Bool.or_eq_true, Bool.and_eq_true] at h
  rcases h with h | ⟨h, _⟩
  · exact dg_of_beq h (by decide +kernel)
  · exact dg_of_head_ne (by rw [head_of_prefix (c := 103) (by decide +kernel) h]; decide +kernel)

theorem addGodebug_dg {args : List Bytes} {kv : Bytes × Bytes} (h : addGodebug args = some kv) : ∀ t ∈ args, DG t := by
  unfold addGodebug at h
  split at h
  · rename_i a
    split at h
    · cases h
    · rename_i hc
      intro t ht
      simp only [List.mem_singleton] at ht
      subst ht
      apply dg_of_head_ne
      intro hq
      apply hc
      cases t with
      | nil => cases hq
      | cons b bs =>
        simp only [List.head?_cons, Option.some.injEq] at hq
        subst hq
        simp [GoStrings.containsAny]
  · cases h

theorem B_arrow_head : (B "=>").head? ≠ some 34 := by decide +kernel

/-- ★ a successful `parseReplace` validated every argument -/
theorem parseReplace_dg {id : Nat} {args args' : List Bytes} {fix : Option Fixer} {r : Replace}
    (h : parseReplace id args fix = (args', .ok r)) : ∀ t ∈ args, DG t := by
  obtain ⟨a0, s, a0', pm, nsTok, ns, nsTok', oldIn, oldOut, newIn, newOut, rfl, _, h0, _, hn, hold, hnew, _⟩ :=
    (parseReplace_decomp h).ex
  have hO : ∀ t ∈ oldIn, DG t := by
    rcases hold with ⟨rfl, _⟩ | ⟨a1, _, rfl, _, hv, _⟩
    · intro t ht; cases ht
    · intro t ht
      simp only [List.mem_singleton] at ht
      subst ht
      exact parseVersion_dg hv
  have hN : ∀ t ∈ newIn, DG t := by
    rcases hnew with ⟨rfl, _⟩ | ⟨a1, rfl, _, hv, _⟩
    · intro t ht; cases ht
    · intro t ht
      simp only [List.mem_singleton] at ht
      subst ht
      exact parseVersion_dg hv
  intro t ht
  simp only [List.mem_cons, List.mem_append] at ht
  rcases ht with rfl | ht | rfl | rfl | ht
  · exact parseString_dg h0
  · exact hO t ht
  · exact dg_of_head_ne B_arrow_head
  · exact parseString_dg hn
  · exact hN t ht

/-- ★ a successful `parseVersionInterval` without left-over tokens validated every token -/
theorem parseVersionInterval_dg {p : Bytes} {toks toks' : List Bytes} {fix : Option Fixer} {vi : VersionInterval}
    (h : parseVersionInterval p toks fix = (toks', .ok (vi, []))) : ∀ t ∈ toks, DG t := by
  rcases parseVersionInterval_shape h with ⟨t0, rfl, _, _, hv, _⟩ | ⟨t1, t2, rfl, hv1, hv2, _⟩
  · intro t ht
    simp only [List.mem_singleton] at ht
    subst ht
    exact parseVersion_dg hv
  · intro t ht
    simp only [List.mem_cons, List.not_mem_nil, or_false] at ht
    rcases ht with rfl | rfl | rfl | rfl | rfl
    · exact dg_of_head_ne (by decide +kernel)
    · exact parseVersion_dg hv1
    · exact dg_of_head_ne (by decide +kernel)
    · exact parseVersion_dg hv2
    · exact dg_of_head_ne (by decide +kernel)

/-! ### `File.add`, strict -/

theorem err_ne_nil' (st : AddState) (pos : Position) (k : RuleErrKind) : (st.err pos k).errsRev ≠ [] := by
  simp [AddState.err]

theorem addGo_dg {st : AddState} {line : Line} {args : List Bytes}
    (h : (addGo st line args true).1.errsRev = []) : ∀ t ∈ args, DG t := by
  unfold addGo at h
  simp only at h
  split at h
  · exact absurd h (err_ne_nil' _ _ _)
  · split at h
    · rename_i a
      split at h
      · rename_i hre
        intro t ht
        simp only [List.mem_singleton] at ht
        subst ht
        exact goVersionRE_dg hre
      · simp only [if_true] at h
        exact absurd h (err_ne_nil' _ _ _)
    · exact absurd h (err_ne_nil' _ _ _)

theorem addToolchain_dg {st : AddState} {line : Line} {args : List Bytes}
    (h : (addToolchain st line args).1.errsRev = []) : ∀ t ∈ args, DG t := by
  unfold addToolchain at h
  simp only at h
  split at h
  · exact absurd h (err_ne_nil' _ _ _)
  · split at h
    · rename_i a
      split at h
      · exact absurd h (err_ne_nil' _ _ _)
      · rename_i hre
        intro t ht
        simp only [List.mem_singleton] at ht
        subst ht
        exact toolchainRE_dg (by simpa using hre)
    · exact absurd h (err_ne_nil' _ _ _)

theorem addModule_dg {st : AddState} {block : Option Comments} {line : Line} {args : List Bytes}
    (h : (addModule st block line args).1.errsRev = []) : ∀ t ∈ args, DG t := by
  unfold addModule at h
  simp only at h
  split at h
  · exact absurd h (err_ne_nil' _ _ _)
  · split at h
    · rename_i a
      split at h
      · exact absurd h (err_ne_nil' _ _ _)
      · rename_i hps
        intro t ht
        simp only [List.mem_singleton] at ht
        subst ht
        exact parseString_dg hps
    · exact absurd h (err_ne_nil' _ _ _)

theorem addGodebugV_dg {st : AddState} {line : Line} {args : List Bytes}
    (h : (addGodebugV st line args).1.errsRev = []) : ∀ t ∈ args, DG t := by
  unfold addGodebugV at h
  simp only at h
  split at h
  · exact absurd h (err_ne_nil' _ _ _)
  · rename_i hg
    exact addGodebug_dg hg

theorem addReqExc_dg {st : AddState} {line : Line} {verb : Bytes} {args : List Bytes} {fix : Option Fixer}
    (h : (addReqExc st line verb args fix).1.errsRev = []) : ∀ t ∈ args, DG t := by
  unfold addReqExc at h
  simp only at h
  split at h
  · rename_i a0 a1
    split at h
    · exact absurd h (err_ne_nil' _ _ _)
    · rename_i hps
      split at h
      · exact absurd h (err_ne_nil' _ _ _)
      · rename_i hpv
        intro t ht
        simp only [List.mem_cons, List.not_mem_nil, or_false] at ht
        rcases ht with rfl | rfl
        · exact parseString_dg hps
        · exact parseVersion_dg hpv
  · exact absurd h (err_ne_nil' _ _ _)

theorem addReplaceV_dg {st : AddState} {line : Line} {args : List Bytes} {fix : Option Fixer}
    (h : (addReplaceV st line args fix).1.errsRev = []) : ∀ t ∈ args, DG t := by
  unfold addReplaceV at h
  simp only at h
  split at h
  · exact absurd h (err_ne_nil' _ _ _)
  · rename_i hpr
    exact parseReplace_dg hpr

theorem addRetractV_dg {st : AddState} {block : Option Comments} {line : Line} {args : List Bytes}
    (h : (addRetractV st block line args true).1.errsRev = []) : ∀ t ∈ args, DG t := by
  unfold addRetractV at h
  simp only at h
  split at h
  · simp only [if_true] at h
    exact absurd h (err_ne_nil' _ _ _)
  · rename_i args' vi rest hpv
    split at h
    · exact absurd h (err_ne_nil' _ _ _)
    · rename_i hr
      have : rest = [] := by
        cases rest with
        | nil => rfl
        | cons a b => simp at hr
      subst this
      exact parseVersionInterval_dg hpv

theorem addToolV_dg {st : AddState} {line : Line} {args : List Bytes}
    (h : (addToolV st line args).1.errsRev = []) : ∀ t ∈ args, DG t := by
  unfold addToolV at h
  simp only at h
  split at h
  · rename_i a
    split at h
    · exact absurd h (err_ne_nil' _ _ _)
    · rename_i hps
      intro t ht
      simp only [List.mem_singleton] at ht
      subst ht
      exact parseString_dg hps
  · exact absurd h (err_ne_nil' _ _ _)

/-- ★ a strict `File.add` step that reports no error saw only quote-good tokens: the verb is one of the nine
    fixed words and every argument was validated -/
theorem add_dg {st : AddState} {block : Option Comments} {line : Line} {verb : Bytes} {args : List Bytes}
    {fix : Option Fixer} (h : (File.add st block line verb args fix true).1.errsRev = []) :
    DG verb ∧ ∀ t ∈ args, DG t := by
  rw [add_eq] at h
  simp only [Bool.not_true, Bool.false_and, Bool.false_eq_true, if_false] at h
  split at h
  · rename_i hv; exact ⟨dg_of_beq hv (by decide +kernel), addGo_dg h⟩
  split at h
  · rename_i hv; exact ⟨dg_of_beq hv (by decide +kernel), addToolchain_dg h⟩
  split at h
  · rename_i hv; exact ⟨dg_of_beq hv (by decide +kernel), addModule_dg h⟩
  split at h
  · rename_i hv; exact ⟨dg_of_beq hv (by decide +kernel), addGodebugV_dg h⟩
  split at h
  · rename_i hv
    refine ⟨?_, addReqExc_dg h⟩
    simp only [Bool.or_eq_true] at hv
    rcases hv with hv | hv
    · exact dg_of_beq hv (by decide +kernel)
    · exact dg_of_beq hv (by decide +kernel)
  split at h
  · rename_i hv; exact ⟨dg_of_beq hv (by decide +kernel), addReplaceV_dg h⟩
  split at h
  · rename_i hv; exact ⟨dg_of_beq hv (by decide +kernel), addRetractV_dg h⟩
  split at h
  · rename_i hv; exact ⟨dg_of_beq hv (by decide +kernel), addToolV_dg h⟩
  · exact absurd h (err_ne_nil' _ _ _)

/-! ### the statement loops -/

theorem nil_of_ext {P : RuleErr → Prop} {a b : List RuleErr} (h : ErrsExt P a b) (hb : b = []) : a = [] := by
  obtain ⟨add, rfl, _⟩ := h
  exact (List.append_eq_nil_iff.1 hb).2

theorem addBlockLines_dg (block : Comments) (verb : Bytes) (fix : Option Fixer) :
    ∀ (ls : List Line) (st : AddState), (addBlockLines block verb fix true st ls).1.errsRev = [] →
    (ls ≠ [] → DG verb) ∧ ∀ l ∈ ls, ∀ t ∈ l.token, DG t := by
  intro ls
  induction ls with
  | nil => intro st _; exact ⟨fun h => absurd rfl h, fun l hl => by cases hl⟩
  | cons l rest ih =>
    intro st h
    unfold addBlockLines at h
    simp only at h
    have h1 : (File.add st (some block) l verb l.token fix true).1.errsRev = [] :=
      nil_of_ext (addBlockLines_errs (fun _ => True) block verb fix true rest _ (fun _ _ => trivial)) h
    obtain ⟨hv, ha⟩ := add_dg h1
    refine ⟨fun _ => hv, ?_⟩
    intro l' hl'
    rcases List.mem_cons.1 hl' with rfl | hl'
    · exact ha
    · exact (ih _ h).2 l' hl'

theorem stmtPos_true : ∀ (xs : List Expr), ∀ x ∈ xs, StmtPos (fun _ => True) x := by
  intro xs x _
  cases x with
  | line l => trivial
  | lineBlock b => exact ⟨trivial, fun _ _ => trivial⟩
  | _ => trivial

theorem verbIn_dg {verb : Bytes} {l : List String} (h : verbIn verb l = true)
    (hl : ∀ s ∈ l, (B s).head? ≠ some 34) : DG verb := by
  unfold verbIn at h
  rw [List.any_eq_true] at h
  obtain ⟨s, hs, he⟩ := h
  have : B s = verb := eq_of_beq he
  exact dg_of_eq this.symm (hl s hs)

/-- ★ a strict `addStmts` run that reports no error saw only quote-good tokens -/
theorem addStmts_dg (fix : Option Fixer) :
    ∀ (xs : List Expr) (st : AddState), (addStmts fix true st xs).1.errsRev = [] → ∀ s ∈ xs, StmtDG s := by
  intro xs
  induction xs with
  | nil => intro st _ s hs; cases hs
  | cons x rest ih =>
    intro st h
    unfold addStmts at h
    simp only at h
    have hrest := fun st' => addStmts_errs (fun _ => True) fix true rest st' (stmtPos_true rest)
    intro s hs
    rcases List.mem_cons.1 hs with rfl | hs
    · cases s with
      | line l =>
        cases htok : l.token with
        | nil => intro t ht; simp [allToks, htok] at ht
        | cons verb args =>
          simp only [htok] at h
          have h1 := nil_of_ext (hrest _) h
          obtain ⟨hv, ha⟩ := add_dg h1
          intro t ht
          simp only [allToks, htok, List.mem_cons] at ht
          rcases ht with rfl | ht
          · exact hv
          · exact ha t ht
      | lineBlock b =>
        simp only at h
        split at h
        · rename_i verb hbt
          split at h
          · rename_i hvi
            have h1 := nil_of_ext (hrest _) h
            have hl := (addBlockLines_dg b.comments verb fix b.lines st h1).2
            intro t ht
            simp only [allToks, hbt, List.mem_append, List.mem_singleton, List.mem_flatMap] at ht
            rcases ht with rfl | ⟨l, hl', ht⟩
            · exact verbIn_dg hvi (by decide +kernel)
            · exact hl l hl' t ht
          · simp only [if_true] at h
            exact absurd (nil_of_ext (hrest _) h) (err_ne_nil' _ _ _)
        · simp only [if_true] at h
          exact absurd (nil_of_ext (hrest _) h) (err_ne_nil' _ _ _)
      | commentBlock c => intro t ht; cases ht
      | lparen c => intro t ht; cases ht
      | rparen c => intro t ht; cases ht
    · exact ih _ h s hs

/-- ★★ `strict_noMultiLineToken`: an input the STRICT go.mod parser accepts (any version fixer) has no token that
    spans two source lines -/
theorem strict_noMultiLineToken {name x : Bytes} {fix : Option Fixer} {f : Modfile.File}
    (h : parseToFile name x fix true = .ok f) : NoMultiLineToken x := by
  unfold parseToFile at h
  cases hp : parse name x with
  | error e => simp [hp] at h
  | ok fs =>
    simp only [hp] at h
    cases ha : addStmts fix true { file := { syn := fs } } fs.stmts with
    | mk st stmts =>
      simp only [ha] at h
      split at h
      · rename_i hemp
        obtain ⟨add, hadd⟩ := fixRetract_mono
          ({ st with file := { st.file with syn := { fs with stmts := stmts } } } : AddState) fix
        have hnil : st.errsRev = [] := by
          have := List.isEmpty_iff.1 hemp
          rw [this] at hadd
          exact (List.append_eq_nil_iff.1 hadd.symm).2
        apply parse_noMultiLineToken hp
        apply addStmts_dg fix fs.stmts { file := { syn := fs } }
        rw [ha]; exact hnil
      · cases h

/-! ### go.work -/

theorem werr_ne_nil (st : WorkState) (pos : Position) (k : RuleErrKind) : (st.err pos k).errsRev ≠ [] := by
  simp [WorkState.err]

/-- a `WorkFile.add` step that reports no error saw only quote-good tokens -/
theorem workAdd_dg {st : WorkState} {line : Line} {verb : Bytes} {args : List Bytes} {fix : Option Fixer}
    (h : (WorkFile.add st line verb args fix).1.errsRev = []) : DG verb ∧ ∀ t ∈ args, DG t := by
  unfold WorkFile.add at h
  simp only at h
  split at h
  · rename_i hv
    refine ⟨dg_of_beq hv (by decide +kernel), ?_⟩
    split at h
    · exact absurd h (werr_ne_nil _ _ _)
    · split at h
      · rename_i a
        split at h
        · exact absurd h (werr_ne_nil _ _ _)
        · rename_i hre
          intro t ht
          simp only [List.mem_singleton] at ht
          subst ht
          exact goVersionRE_dg (by simpa using hre)
      · exact absurd h (werr_ne_nil _ _ _)
  split at h
  · rename_i hv
    refine ⟨dg_of_beq hv (by decide +kernel), ?_⟩
    split at h
    · exact absurd h (werr_ne_nil _ _ _)
    · split at h
      · rename_i a
        split at h
        · exact absurd h (werr_ne_nil _ _ _)
        · rename_i hre
          intro t ht
          simp only [List.mem_singleton] at ht
          subst ht
          exact toolchainRE_dg (by simpa using hre)
      · exact absurd h (werr_ne_nil _ _ _)
  split at h
  · rename_i hv
    refine ⟨dg_of_beq hv (by decide +kernel), ?_⟩
    split at h
    · exact absurd h (werr_ne_nil _ _ _)
    · rename_i hg
      exact addGodebug_dg hg
  split at h
  · rename_i hv
    refine ⟨dg_of_beq hv (by decide +kernel), ?_⟩
    split at h
    · rename_i a
      split at h
      · exact absurd h (werr_ne_nil _ _ _)
      · rename_i hps
        intro t ht
        simp only [List.mem_singleton] at ht
        subst ht
        exact parseString_dg hps
    · exact absurd h (werr_ne_nil _ _ _)
  split at h
  · rename_i hv
    refine ⟨dg_of_beq hv (by decide +kernel), ?_⟩
    split at h
    · exact absurd h (werr_ne_nil _ _ _)
    · rename_i hpr
      exact parseReplace_dg hpr
  · exact absurd h (werr_ne_nil _ _ _)

theorem workBlockLines_mono (verb : Bytes) (fix : Option Fixer) :
    ∀ (ls : List Line) (st : WorkState), (workBlockLines verb fix st ls).1.errsRev = [] → st.errsRev = [] := by
  intro ls
  induction ls with
  | nil => intro st h; exact h
  | cons l rest ih =>
    intro st h
    unfold workBlockLines at h
    simp only at h
    exact nil_of_ext (workAdd_errs st l verb l.token fix) (ih _ h)

theorem workStmts_mono (fix : Option Fixer) :
    ∀ (xs : List Expr) (st : WorkState), (workStmts fix st xs).1.errsRev = [] → st.errsRev = [] := by
  intro xs
  induction xs with
  | nil => intro st h; exact h
  | cons x rest ih =>
    intro st h
    unfold workStmts at h
    simp only at h
    have h1 := ih _ h
    cases x with
    | line l =>
      simp only at h1
      split at h1
      · exact nil_of_ext (workAdd_errs st l _ _ fix) h1
      · exact h1
    | lineBlock b =>
      simp only at h1
      split at h1
      · split at h1
        · exact workBlockLines_mono _ fix _ st h1
        · exact absurd h1 (werr_ne_nil _ _ _)
      · exact absurd h1 (werr_ne_nil _ _ _)
    | commentBlock c => exact h1
    | lparen c => exact h1
    | rparen c => exact h1

theorem workBlockLines_dg (verb : Bytes) (fix : Option Fixer) :
    ∀ (ls : List Line) (st : WorkState), (workBlockLines verb fix st ls).1.errsRev = [] →
    ∀ l ∈ ls, ∀ t ∈ l.token, DG t := by
  intro ls
  induction ls with
  | nil => intro st _ l hl; cases hl
  | cons l rest ih =>
    intro st h
    unfold workBlockLines at h
    simp only at h
    have h1 : (WorkFile.add st l verb l.token fix).1.errsRev = [] := workBlockLines_mono verb fix rest _ h
    intro l' hl'
    rcases List.mem_cons.1 hl' with rfl | hl'
    · exact (workAdd_dg h1).2
    · exact ih _ h l' hl'

/-- ★ a `workStmts` run that reports no error saw only quote-good tokens -/
theorem workStmts_dg (fix : Option Fixer) :
    ∀ (xs : List Expr) (st : WorkState), (workStmts fix st xs).1.errsRev = [] → ∀ s ∈ xs, StmtDG s := by
  intro xs
  induction xs with
  | nil => intro st _ s hs; cases hs
  | cons x rest ih =>
    intro st h
    unfold workStmts at h
    simp only at h
    have h1 := workStmts_mono fix rest _ h
    intro s hs
    rcases List.mem_cons.1 hs with rfl | hs
    · cases s with
      | line l =>
        cases htok : l.token with
        | nil => intro t ht; simp [allToks, htok] at ht
        | cons verb args =>
          simp only [htok] at h1
          obtain ⟨hv, ha⟩ := workAdd_dg h1
          intro t ht
          simp only [allToks, htok, List.mem_cons] at ht
          rcases ht with rfl | ht
          · exact hv
          · exact ha t ht
      | lineBlock b =>
        simp only at h1
        split at h1
        · rename_i verb hbt
          split at h1
          · rename_i hvi
            have hl := workBlockLines_dg verb fix b.lines st h1
            intro t ht
            simp only [allToks, hbt, List.mem_append, List.mem_singleton, List.mem_flatMap] at ht
            rcases ht with rfl | ⟨l, hl', ht⟩
            · exact verbIn_dg hvi (by decide +kernel)
            · exact hl l hl' t ht
          · exact absurd h1 (werr_ne_nil _ _ _)
        · exact absurd h1 (werr_ne_nil _ _ _)
      | commentBlock c => intro t ht; cases ht
      | lparen c => intro t ht; cases ht
      | rparen c => intro t ht; cases ht
    · exact ih _ h s hs

/-- ★★ `strict_noMultiLineToken_work`: an input `ParseWork` accepts has no token that spans two source lines -/
theorem strict_noMultiLineToken_work {name x : Bytes} {fix : Option Fixer} {f : WorkFile}
    (h : parseWork name x fix = .ok f) : NoMultiLineToken x := by
  unfold parseWork at h
  cases hp : parse name x with
  | error e => simp [hp] at h
  | ok fs =>
    simp only [hp] at h
    cases ha : workStmts fix { file := { syn := fs } } fs.stmts with
    | mk st stmts =>
      simp only [ha] at h
      split at h
      · rename_i hemp
        apply parse_noMultiLineToken hp
        apply workStmts_dg fix fs.stmts { file := { syn := fs } }
        rw [ha]; exact List.isEmpty_iff.1 hemp
      · cases h

/-- the syntax layer accepted what the strict directive layer accepted -/
theorem parse_of_parseToFile {name x : Bytes} {fix : Option Fixer} {strict : Bool} {f : Modfile.File}
    (h : parseToFile name x fix strict = .ok f) : ∃ t, parse name x = .ok t := by
  unfold parseToFile at h
  cases hp : parse name x with
  | error e => simp [hp] at h
  | ok fs => exact ⟨fs, rfl⟩

theorem parse_of_parseWork {name x : Bytes} {fix : Option Fixer} {f : WorkFile}
    (h : parseWork name x fix = .ok f) : ∃ t, parse name x = .ok t := by
  unfold parseWork at h
  cases hp : parse name x with
  | error e => simp [hp] at h
  | ok fs => exact ⟨fs, rfl⟩

end ModVerif.Proofs.ModfileStrictTok
