/-
  C18: the Unix-seconds → civil-date step (`civilFromUnix`) yields real calendar dates and is strictly
  monotone.  The days-to-civil arithmetic is split into: year of era (`yoeF_eq`, via the March-based
  year table `ys`), month/day within the year (`dateYD_valid`, `dateYD_lt`), eras (`key_lt`), time of day.
-/
import ModVerif.Proofs.PseudoTime
namespace ModVerif.Proofs.Pseudo
open ModVerif ModVerif.PseudoSpec
open ModVerif.Pseudo hiding isDigit isAlnum

/-! ### year of era -/

/-- number of days before the March-based year `y` of a 400-year era (the era starts on 1 March) -/
def ys (y : Nat) : Nat := 365 * y + y / 4 - y / 100

/-- 1 when the March-based year `y` of an era ends with a 29 February -/
def leapEnd (y : Nat) : Nat := if (y + 1) % 4 = 0 ∧ ((y + 1) % 100 ≠ 0 ∨ y = 399) then 1 else 0

/-- the year-of-era formula of the model -/
def yoeF (doe : Nat) : Nat := (doe - doe / 1460 + doe / 36524 - doe / 146096) / 365

theorem yoe_of_bounds (doe y : Nat) (hy : y < 400) (h1 : ys y ≤ doe) (h2 : doe < ys (y + 1)) :
    yoeF doe = y := by
  unfold yoeF
  unfold ys at h1 h2
  have hP : y / 100 = 0 ∨ y / 100 = 1 ∨ y / 100 = 2 ∨ y / 100 = 3 := by omega
  have hc : doe / 36524 = y / 100 := by
    rcases hP with h | h | h | h <;> omega
  have hf : doe / 146096 = 0 := by omega
  rw [hc, hf]
  rcases hP with h | h | h | h <;> omega

theorem exists_year_aux (doe : Nat) : ∀ k, doe < ys k → ∃ y, y < k ∧ ys y ≤ doe ∧ doe < ys (y + 1)
  | 0, h => by simp [ys] at h
  | k + 1, h => by
    by_cases hk : ys k ≤ doe
    · exact ⟨k, by omega, hk, h⟩
    · obtain ⟨y, a, b, c⟩ := exists_year_aux doe k (by omega)
      exact ⟨y, by omega, b, c⟩

theorem ys_succ (y : Nat) :
    ys (y + 1) = ys y + 365 + (if (y + 1) % 4 = 0 then 1 else 0) - (if (y + 1) % 100 = 0 then 1 else 0) := by
  unfold ys
  have q4 : (y + 1) / 4 = y / 4 + (if (y + 1) % 4 = 0 then 1 else 0) := by split <;> omega
  have q100 : (y + 1) / 100 = y / 100 + (if (y + 1) % 100 = 0 then 1 else 0) := by split <;> omega
  have hm : (y + 1) % 100 = 0 → (y + 1) % 4 = 0 := by omega
  rw [q4, q100]
  split <;> split <;> omega

/-- every day of an era lies in exactly one March-based year -/
theorem exists_year (doe : Nat) (h : doe < 146097) :
    ∃ y doy, y < 400 ∧ doe = ys y + doy ∧ doy < 365 + leapEnd y := by
  by_cases h6 : doe = 146096
  · exact ⟨399, 365, by decide, by rw [h6]; decide, by decide⟩
  · have h400 : ys 400 = 146096 := by decide
    obtain ⟨y, hy, h1, h2⟩ := exists_year_aux doe 400 (by omega)
    refine ⟨y, doe - ys y, hy, by omega, ?_⟩
    rw [ys_succ] at h2
    have hm : (y + 1) % 100 = 0 → (y + 1) % 4 = 0 := by omega
    unfold leapEnd
    split at h2 <;> split at h2 <;> split <;> omega

theorem yoeF_eq (y doy : Nat) (hy : y < 400) (hd : doy < 365 + leapEnd y) : yoeF (ys y + doy) = y := by
  by_cases h6 : y = 399 ∧ doy = 365
  · rw [h6.1, h6.2]; decide
  · apply yoe_of_bounds _ _ hy (by omega)
    unfold leapEnd at hd
    unfold ys
    split at hd <;> omega

theorem ys_doy_lt (y doy : Nat) (hy : y < 400) (hd : doy < 365 + leapEnd y) : ys y + doy < 146097 := by
  unfold leapEnd at hd
  unfold ys
  split at hd <;> omega

/-! ### month and day -/

/-- civil date from (era, March-based year of era, day of that year) -/
def dateYD (era : Int) (y doy : Nat) : Int × Nat × Nat :=
  let mp := (5 * doy + 2) / 153
  let d := doy - (153 * mp + 2) / 5 + 1
  let m := if mp < 10 then mp + 3 else mp - 9
  ((y : Int) + era * 400 + (if m ≤ 2 then 1 else 0), m, d)

/-- civil date from (era, day of era), as the model computes it -/
def dateOfDoe (era : Int) (doe : Nat) : Int × Nat × Nat :=
  let yoe := (doe - doe / 1460 + doe / 36524 - doe / 146096) / 365
  let doy := doe - (365 * yoe + yoe / 4 - yoe / 100)
  dateYD era yoe doy

theorem civilFromUnix_date (secs : Int) :
    ((civilFromUnix secs).1, (civilFromUnix secs).2.1, (civilFromUnix secs).2.2.1) =
      dateOfDoe ((secs / 86400 + 719468) / 146097)
        ((secs / 86400 + 719468) - (secs / 86400 + 719468) / 146097 * 146097).toNat := rfl

theorem civilFromUnix_tod (secs : Int) :
    ((civilFromUnix secs).2.2.2.1, (civilFromUnix secs).2.2.2.2.1, (civilFromUnix secs).2.2.2.2.2) =
      ((secs % 86400).toNat / 3600, (secs % 86400).toNat / 60 % 60, (secs % 86400).toNat % 60) := rfl

theorem dateOfDoe_eq (era : Int) (y doy : Nat) (hy : y < 400) (hd : doy < 365 + leapEnd y) :
    dateOfDoe era (ys y + doy) = dateYD era y doy := by
  have h := yoeF_eq y doy hy hd
  unfold yoeF at h
  unfold dateOfDoe
  simp only [h]
  have : ys y + doy - (365 * y + y / 4 - y / 100) = doy := by unfold ys; omega
  rw [this]

/-- the date of the day number `z` (days since 0000-03-01): decomposition into era, year, day of year -/
theorem date_decomp (z : Int) :
    ∃ (era : Int) (y doy : Nat), z = era * 146097 + ((ys y + doy : Nat) : Int) ∧ y < 400 ∧ doy < 365 + leapEnd y ∧
      dateOfDoe (z / 146097) (z - z / 146097 * 146097).toNat = dateYD era y doy := by
  have hdoe : (z - z / 146097 * 146097).toNat < 146097 := by omega
  obtain ⟨y, doy, hy, he, hd⟩ := exists_year _ hdoe
  refine ⟨z / 146097, y, doy, ?_, hy, hd, ?_⟩
  · rw [← he]; omega
  · rw [he]; exact dateOfDoe_eq _ y doy hy hd

theorem daysIn_eq (m Y : Nat) :
    daysIn m Y = if m = 2 then (if Y % 4 = 0 ∧ (Y % 100 ≠ 0 ∨ Y % 400 = 0) then 29 else 28)
      else if (m = 4 ∨ m = 6 ∨ m = 9 ∨ m = 11) then 30 else 31 := by
  unfold daysIn isLeap
  simp only [beq_iff_eq, Bool.and_eq_true, Bool.or_eq_true, bne_iff_ne, ne_eq, or_assoc]

/-- the computed day exists in the computed month of the computed year -/
theorem dateYD_valid (era : Int) (y doy : Nat) (_hy : y < 400) (hd : doy < 365 + leapEnd y)
    (hpos : 0 ≤ (dateYD era y doy).1) :
    1 ≤ (dateYD era y doy).2.2 ∧
    (dateYD era y doy).2.2 ≤ daysIn (dateYD era y doy).2.1 (dateYD era y doy).1.toNat := by
  refine ⟨by unfold dateYD; simp only; omega, ?_⟩
  rw [daysIn_eq]
  unfold dateYD at hpos ⊢
  simp only at hpos ⊢
  unfold leapEnd at hd
  have hmp : (5 * doy + 2) / 153 ≤ 11 := by split at hd <;> omega
  generalize hmpe : (5 * doy + 2) / 153 = mp at *
  have hcases : mp = 0 ∨ mp = 1 ∨ mp = 2 ∨ mp = 3 ∨ mp = 4 ∨ mp = 5 ∨ mp = 6 ∨ mp = 7 ∨ mp = 8 ∨ mp = 9 ∨
      mp = 10 ∨ mp = 11 := by omega
  rcases hcases with rfl | rfl | rfl | rfl | rfl | rfl | rfl | rfl | rfl | rfl | rfl | rfl
  all_goals simp only [Nat.reduceLT, Nat.reduceAdd, Nat.reduceSub, Nat.reduceLeDiff, Nat.reduceMul, Nat.reduceDiv,
    Nat.reduceEqDiff, if_true, if_false, or_false, or_true] at hpos ⊢
  all_goals first
    | (split at hd <;> omega)
    | (split at hd
       · rename_i hl
         rw [if_pos (by omega)]
         omega
       · split <;> omega)

/-! ### order -/

/-- lexicographic order on dates -/
def dateLt (a b : Int × Nat × Nat) : Prop :=
  a.1 < b.1 ∨ a.1 = b.1 ∧ (a.2.1 < b.2.1 ∨ a.2.1 = b.2.1 ∧ a.2.2 < b.2.2)

/-- (absolute March-based year, day of year) in lexicographic order ⇒ dates in lexicographic order -/
theorem dateYD_lt (era1 era2 : Int) (y1 y2 doy1 doy2 : Nat) (h1 : doy1 ≤ 365) (h2 : doy2 ≤ 365)
    (h : era1 * 400 + y1 < era2 * 400 + y2 ∨ (era1 * 400 + y1 = era2 * 400 + (y2 : Int) ∧ doy1 < doy2)) :
    dateLt (dateYD era1 y1 doy1) (dateYD era2 y2 doy2) := by
  unfold dateLt dateYD
  simp only
  have hm1 : (5 * doy1 + 2) / 153 ≤ 11 := by omega
  have hm2 : (5 * doy2 + 2) / 153 ≤ 11 := by omega
  have hmono : doy1 < doy2 → (5 * doy1 + 2) / 153 < (5 * doy2 + 2) / 153 ∨
      ((5 * doy1 + 2) / 153 = (5 * doy2 + 2) / 153) := by omega
  generalize hg1 : (5 * doy1 + 2) / 153 = mp1 at *
  generalize hg2 : (5 * doy2 + 2) / 153 = mp2 at *
  rcases h with h | ⟨he, hd⟩
  · split <;> split <;> split <;> split <;> omega
  · rcases hmono hd with hlt | heq
    · split <;> split <;> split <;> split <;> omega
    · subst heq
      split <;> split <;> omega

/-- the day number orders (absolute March-based year, day of year) lexicographically -/
theorem key_lt (era1 era2 : Int) (y1 y2 doy1 doy2 : Nat) (hy1 : y1 < 400) (hy2 : y2 < 400)
    (hd1 : doy1 < 365 + leapEnd y1) (hd2 : doy2 < 365 + leapEnd y2)
    (h : era1 * 146097 + ((ys y1 + doy1 : Nat) : Int) < era2 * 146097 + ((ys y2 + doy2 : Nat) : Int)) :
    era1 * 400 + y1 < era2 * 400 + y2 ∨ (era1 * 400 + y1 = era2 * 400 + (y2 : Int) ∧ doy1 < doy2) := by
  have b1 := ys_doy_lt y1 doy1 hy1 hd1
  have b2 := ys_doy_lt y2 doy2 hy2 hd2
  by_cases he : era1 = era2
  · subst he
    have hlt : ys y1 + doy1 < ys y2 + doy2 := by omega
    by_cases hy : y1 = y2
    · subst hy; right; exact ⟨rfl, by omega⟩
    · left
      have : y1 < y2 := by
        rcases Nat.lt_or_gt_of_ne hy with h' | h'
        · exact h'
        · exfalso
          unfold leapEnd at hd2
          unfold ys at hlt
          split at hd2 <;> omega
      omega
  · left
    have : era1 < era2 := by omega
    omega

theorem dateYD_doy_le (y doy : Nat) (hd : doy < 365 + leapEnd y) : doy ≤ 365 := by
  unfold leapEnd at hd; split at hd <;> omega

/-- the date is strictly monotone in the day number -/
theorem date_mono (z1 z2 : Int) (h : z1 < z2) :
    dateLt (dateOfDoe (z1 / 146097) (z1 - z1 / 146097 * 146097).toNat)
      (dateOfDoe (z2 / 146097) (z2 - z2 / 146097 * 146097).toNat) := by
  obtain ⟨e1, y1, d1, hz1, hy1, hd1, r1⟩ := date_decomp z1
  obtain ⟨e2, y2, d2, hz2, hy2, hd2, r2⟩ := date_decomp z2
  rw [r1, r2]
  apply dateYD_lt e1 e2 y1 y2 d1 d2 (dateYD_doy_le y1 d1 hd1) (dateYD_doy_le y2 d2 hd2)
  apply key_lt e1 e2 y1 y2 d1 d2 hy1 hy2 hd1 hd2
  rw [← hz1, ← hz2]; exact h

/-! ### the two theorems about `civilFromUnix` -/

theorem civilFromUnix_validDate_aux (secs : Int) (hpos : 0 ≤ (civilFromUnix secs).1) :
    1 ≤ (civilFromUnix secs).2.2.1 ∧
    (civilFromUnix secs).2.2.1 ≤ daysIn (civilFromUnix secs).2.1 (civilFromUnix secs).1.toNat := by
  have hdate := civilFromUnix_date secs
  obtain ⟨era, y, doy, _, hy, hd, r⟩ := date_decomp (secs / 86400 + 719468)
  rw [r] at hdate
  have e1 : (civilFromUnix secs).1 = (dateYD era y doy).1 := congrArg (·.1) hdate
  have e2 : (civilFromUnix secs).2.1 = (dateYD era y doy).2.1 := congrArg (·.2.1) hdate
  have e3 : (civilFromUnix secs).2.2.1 = (dateYD era y doy).2.2 := congrArg (·.2.2) hdate
  rw [e1] at hpos
  rw [e1, e2, e3]
  exact dateYD_valid era y doy hy hd hpos

theorem tod_lt (r1 r2 : Nat) (h : r1 < r2) (_h2 : r2 < 86400) :
    r1 / 3600 < r2 / 3600 ∨ r1 / 3600 = r2 / 3600 ∧
      (r1 / 60 % 60 < r2 / 60 % 60 ∨ r1 / 60 % 60 = r2 / 60 % 60 ∧ r1 % 60 < r2 % 60) := by
  omega

theorem civilFromUnix_mono_aux (s1 s2 : Int) (h : s1 < s2)
    (p1 : 0 ≤ (civilFromUnix s1).1) (p2 : 0 ≤ (civilFromUnix s2).1) :
    civilLt ((civilFromUnix s1).1.toNat, (civilFromUnix s1).2)
      ((civilFromUnix s2).1.toNat, (civilFromUnix s2).2) := by
  have hd1 := civilFromUnix_date s1
  have hd2 := civilFromUnix_date s2
  have ht1 := civilFromUnix_tod s1
  have ht2 := civilFromUnix_tod s2
  generalize civilFromUnix s1 = c1 at *
  generalize civilFromUnix s2 = c2 at *
  obtain ⟨Y1, M1, D1, hh1, mm1, ss1⟩ := c1
  obtain ⟨Y2, M2, D2, hh2, mm2, ss2⟩ := c2
  simp only [Prod.mk.injEq] at ht1 ht2
  simp only at p1 p2
  unfold civilLt
  simp only
  by_cases hday : s1 / 86400 = s2 / 86400
  · -- same day: equal dates, earlier time of day
    rw [hday] at hd1
    have hdd := hd1.trans hd2.symm
    simp only [Prod.mk.injEq] at hdd
    have hr : (s1 % 86400).toNat < (s2 % 86400).toNat := by omega
    have hr2 : (s2 % 86400).toNat < 86400 := by omega
    have := tod_lt _ _ hr hr2
    obtain ⟨a1, a2, a3⟩ := ht1
    obtain ⟨b1, b2, b3⟩ := ht2
    obtain ⟨c1, c2, c3⟩ := hdd
    subst a1 a2 a3 b1 b2 b3 c1 c2 c3
    omega
  · have hz : s1 / 86400 + 719468 < s2 / 86400 + 719468 := by omega
    have hm := date_mono _ _ hz
    rw [← hd1, ← hd2] at hm
    unfold dateLt at hm
    simp only at hm
    omega

/-! ### consequences for the stamp `formatUnix` -/

theorem civilFromUnix_range_aux (secs : Int) (h1 : -62135596800 ≤ secs) (h2 : secs ≤ 253402300799) :
    1 ≤ (civilFromUnix secs).1 ∧ (civilFromUnix secs).1 ≤ 9999 ∧
    1 ≤ (civilFromUnix secs).2.1 ∧ (civilFromUnix secs).2.1 ≤ 12 ∧
    1 ≤ (civilFromUnix secs).2.2.1 ∧ (civilFromUnix secs).2.2.1 ≤ 31 ∧
    (civilFromUnix secs).2.2.2.1 < 24 ∧ (civilFromUnix secs).2.2.2.2.1 < 60 ∧ (civilFromUnix secs).2.2.2.2.2 < 60 := by
  simp only [civilFromUnix]
  split <;> split <;> omega

theorem formatUnix_eq (secs : Int) (h1 : -62135596800 ≤ secs) (h2 : secs ≤ 253402300799) :
    formatUnix secs = fmtTime (civilFromUnix secs).1.toNat (civilFromUnix secs).2.1 (civilFromUnix secs).2.2.1
      (civilFromUnix secs).2.2.2.1 (civilFromUnix secs).2.2.2.2.1 (civilFromUnix secs).2.2.2.2.2 := by
  have hr := civilFromUnix_range_aux secs h1 h2
  unfold formatUnix
  generalize civilFromUnix secs = c at *
  obtain ⟨y, m, d, hh, mm, ss⟩ := c
  simp only at hr ⊢
  have hy : ¬ y < 0 := by omega
  simp only [hy, if_false]

theorem timeValid_formatUnix_aux (secs : Int) (h1 : -62135596800 ≤ secs) (h2 : secs ≤ 253402300799) :
    timeValid (formatUnix secs) = true := by
  have hr := civilFromUnix_range_aux secs h1 h2
  have hv := civilFromUnix_validDate_aux secs (by omega)
  rw [formatUnix_eq secs h1 h2]
  exact timeValid_fmtTime_aux (by omega) ⟨hr.2.2.1, hr.2.2.2.1⟩ hv hr.2.2.2.2.2.2.1 hr.2.2.2.2.2.2.2.1 hr.2.2.2.2.2.2.2.2

theorem formatUnix_mono_aux (s1 s2 : Int) (h11 : -62135596800 ≤ s1) (h12 : s1 ≤ 253402300799)
    (h21 : -62135596800 ≤ s2) (h22 : s2 ≤ 253402300799) (h : s1 < s2) :
    bytesLt (formatUnix s1) (formatUnix s2) = true := by
  have r1 := civilFromUnix_range_aux s1 h11 h12
  have r2 := civilFromUnix_range_aux s2 h21 h22
  have hm := civilFromUnix_mono_aux s1 s2 h (by omega) (by omega)
  rw [formatUnix_eq s1 h11 h12, formatUnix_eq s2 h21 h22]
  exact ((fmtTime_mono_aux ⟨by omega, by omega, by omega, by omega, by omega, by omega⟩
    ⟨by omega, by omega, by omega, by omega, by omega, by omega⟩).2).mpr hm

end ModVerif.Proofs.Pseudo
