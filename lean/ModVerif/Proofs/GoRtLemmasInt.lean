/-
  General facts about the integer part of the Go-to-Lean run-time vocabulary (`Basic/GoRt.lean`):
  `chk64`, `toU64`, `shl`, `shr`, `band`, `trailingZeros64` on values that are images of natural numbers.
  Used by the tie proofs of the integer kernels of sumdb/tlog (Proofs/TieFnTlogInt*.lean).
-/
import ModVerif.Basic.GoRt
namespace ModVerif.GoRt

theorem chk64_ok {x : Int} (h1 : -9223372036854775808 ≤ x) (h2 : x < 9223372036854775808) : chk64 x = .ok x := by
  simp [chk64, two63, h1, h2]; rfl

/-- a natural number below `2^63` passes the int64 check -/
theorem chk64_ofNat {n : Nat} (h : n < 2 ^ 63) : chk64 (Int.ofNat n) = .ok (Int.ofNat n) := by
  apply chk64_ok <;> simp <;> omega

theorem chk64_natCast {n : Nat} (h : n < 2 ^ 63) : chk64 (n : Int) = .ok (n : Int) := chk64_ofNat h

/-- outside the int64 range the check fails -/
theorem chk64_overflow {x : Int} (h : 9223372036854775808 ≤ x) : chk64 x = .error .overflow := by
  have : ¬ x < 9223372036854775808 := by omega
  simp [chk64, two63, this]; rfl

theorem toU64_of_range {x : Int} (h1 : 0 ≤ x) (h2 : x < 18446744073709551616) : toU64 x = x := by
  simp [toU64, two64]; omega

theorem toU64_natCast {n : Nat} (h : n < 2 ^ 64) : toU64 (n : Int) = (n : Int) :=
  toU64_of_range (by omega) (by omega)

theorem toU64_natCast_toNat {n : Nat} (h : n < 2 ^ 64) : (toU64 (n : Int)).toNat = n := by
  rw [toU64_natCast h]; simp

theorem shl_nonneg (a : Int) {k : Int} (h : 0 ≤ k) : shl a k = .ok (a * 2 ^ k.toNat) := by
  have : ¬ k < 0 := by omega
  simp [shl, this]; rfl

theorem shr_nonneg (a : Int) {k : Int} (h : 0 ≤ k) : shr a k = .ok (a / 2 ^ k.toNat) := by
  have : ¬ k < 0 := by omega
  simp [shr, this]; rfl

/-- `1 << k` for a natural `k` -/
theorem shl_one_natCast (k : Nat) : shl 1 (k : Int) = .ok (((2 ^ k : Nat) : Int)) := by
  rw [shl_nonneg _ (by omega)]; simp

/-- `a >> k` on natural numbers is `Nat` shift -/
theorem shr_natCast (a k : Nat) : shr (a : Int) (k : Int) = .ok (((a >>> k : Nat) : Int)) := by
  rw [shr_nonneg _ (by omega), Nat.shiftRight_eq_div_pow]
  simp

/-- `a >> 1` on a natural number -/
theorem shr_natCast_one (a : Nat) : shr (a : Int) 1 = .ok (((a / 2 : Nat) : Int)) := by
  rw [shr_nonneg _ (by omega)]; simp

/-- `a & b` on natural numbers below `2^64` is `Nat` and -/
theorem band_natCast {a b : Nat} (ha : a < 2 ^ 64) (hb : b < 2 ^ 64) : band (a : Int) (b : Int) = ((a &&& b : Nat) : Int) := by
  simp only [band, toU64_natCast_toNat ha, toU64_natCast_toNat hb]
  rfl

/-- `a & 1` is the parity -/
theorem band_natCast_one {a : Nat} (ha : a < 2 ^ 64) : band (a : Int) 1 = ((a % 2 : Nat) : Int) := by
  have := band_natCast ha (b := 1) (by omega)
  rw [Nat.and_one_is_mod] at this
  exact this

/-- `a / 2` on a natural number (Go division truncates; the operands are non-negative) -/
theorem quo_natCast_two (a : Nat) : quo (a : Int) 2 = .ok (((a / 2 : Nat) : Int)) := by
  simp only [quo, show ¬ ((2 : Int) = 0) by omega, ↓reduceIte]
  show Except.ok _ = _
  rw [Int.tdiv_eq_ediv_of_nonneg (by omega)]
  rfl

theorem tz64Aux_zero : ∀ f, tz64Aux f 0 = f := by
  intro f; induction f with
  | zero => rfl
  | succ f ih => simp [tz64Aux, ih]; omega

/-- `bits.TrailingZeros64` of a natural number: the fuel-64 count on the low 64 bits (64 for 0) -/
theorem trailingZeros64_natCast (n : Nat) : trailingZeros64 (n : Int) = ((tz64Aux 64 (n % 2 ^ 64) : Nat) : Int) := by
  have e : (toU64 (n : Int)).toNat = n % 2 ^ 64 := by
    simp only [toU64, two64]; omega
  simp only [trailingZeros64, e]
  by_cases h : n % 2 ^ 64 = 0
  · simp [h, tz64Aux_zero]
  · simp [h]

/-! ### slices of integers -/

theorem makeList_natCast {α : Type} (n : Nat) (z : α) : makeList (n : Int) z = .ok (List.replicate n z) := by
  have : ¬ ((n : Int) < 0) := by omega
  simp only [makeList, this, ↓reduceIte, Int.toNat_natCast]; rfl

theorem setIdxL_natCast {α : Type} {s : List α} {k : Nat} (h : k < s.length) (x : α) :
    setIdxL s (k : Int) x = .ok (s.set k x) := by
  have : (0 : Int) ≤ (k : Int) ∧ (k : Int) < len s := by simp only [len, Int.ofNat_eq_natCast]; omega
  simp only [setIdxL, this, and_self, ↓reduceIte, Int.toNat_natCast]; rfl

theorem idxL_natCast' {α : Type} {s : List α} {k : Nat} (h : k < s.length) : idxL s (k : Int) = .ok s[k] := by
  have : ¬ ((k : Int) < 0) := by omega
  simp only [idxL, this, ↓reduceIte, Int.toNat_natCast, List.getElem?_eq_getElem h]; rfl

/-- writing the last cell of a block of zeros in front of a list -/
theorem set_replicate_append {α : Type} (a : Nat) (z x : α) (rest : List α) :
    (List.replicate (a + 1) z ++ rest).set a x = List.replicate a z ++ x :: rest := by
  rw [List.replicate_succ', List.append_assoc, List.set_append_right _ _ (by simp)]
  simp

/-! ### the Except monad, as NON-definitional rewrite rules

  (`simp` closes a step made with a `rfl`-lemma by a definitional check in the kernel; next to `chk64` on symbolic
  arguments that check makes the kernel unfold integer comparisons with 2^63 and run out of stack.  These versions are
  applied as ordinary rewrites.) -/

theorem mbind_ok {α β : Type} (a : α) (f : α → M β) : (Except.ok a >>= f) = f a := id rfl

theorem mbind_error {α β : Type} (e : Err) (f : α → M β) : ((Except.error e : M α) >>= f) = .error e := id rfl

theorem mpure {α : Type} (a : α) : (pure a : M α) = .ok a := id rfl

theorem mthrow {α : Type} (e : Err) : (throw e : M α) = .error e := id rfl

end ModVerif.GoRt
