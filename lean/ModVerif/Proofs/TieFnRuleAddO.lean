/-
  Helper lemmas for Tie/FnRuleAdd.lean, part O: the whole of the regenerated `parseToFile` / `ParseWork` with the driver's
  `parseSynI` = the model's `parseToFile` / `parseWork` (`PTF_spec`, `PWK_spec`), under the explicit fuel bound
  `TreeFuel` on the parsed tree.
  Owner: rule-add.
-/
import ModVerif.Proofs.TieFnRuleAddM
import ModVerif.Proofs.TieFnRuleAddN
import ModVerif.Proofs.TieFnRuleAddK
import ModVerif.Proofs.TieFnRuleAddL
set_option linter.unusedSimpArgs false
set_option linter.unusedVariables false
namespace ModVerif.Tie.FnRuleAddO
open ModVerif ModVerif.GoRt ModVerif.Generated ModVerif.Tie.FnRuleRep ModVerif.Tie.FnRuleAddA ModVerif.Tie.FnRuleAddB ModVerif.Tie.FnRuleAddC
open ModVerif.Tie.FnRuleAddD ModVerif.Tie.FnRuleAddE ModVerif.Tie.FnRuleAddF ModVerif.Tie.FnRuleAddG ModVerif.Tie.FnRuleAddH ModVerif.Tie.FnRuleAddI
open ModVerif.Tie.FnRuleAddJ ModVerif.Tie.FnRuleAddK ModVerif.Tie.FnRuleAddL ModVerif.Tie.FnRuleAddM ModVerif.Tie.FnRuleAddN
open ModVerif.Tie.FnRuleLeafA (comLen)
open ModVerif.Tie.FnRuleLeafB (tokSum)
open ModVerif.Drv.GenRule (isPrintI unquoteI laxSubI deprecatedSubI fixG parseSynI idOf idsOf fileM workM encErr)
open ModVerif.Modfile.Edit (treeIds)
open ModVerif.Proofs.ModfileC20 (linesOf)

abbrev PTF := Rule.parseToFile deprecatedSubI Modfile.goVersionRE isPrintI laxSubI parseSynI Quote.quote Modfile.toolchainRE unquoteI
abbrev PWK := Rule.ParseWork Modfile.goVersionRE isPrintI parseSynI Quote.quote Modfile.toolchainRE unquoteI

/-- **the fuel bound, on the parsed tree**: `F` covers every line (`LineFuel`: 32 × its token lengths + 1, its comments and
    those of its block + 3, twice the length of every version the fixer returns for it), `fuel` covers `F` plus the
    loops (statements, the largest block, all lines) -/
structure TreeFuel (F fuel : Nat) (fx : Option Modfile.Fixer) (fs : Modfile.FileSyntax) : Prop where
  pos : 1 ≤ F
  loop : F + maxBlock fs.stmts + fs.stmts.length + 2 ≤ fuel
  lines : F + (linesOf fs.stmts).length + 1 ≤ fuel
  all : ∀ l ∈ linesOf fs.stmts, 32 * tokSum l.token + 1 ≤ F
  line : ∀ l, Modfile.Expr.line l ∈ fs.stmts → ∀ verb args, l.token = verb :: args → LineFuel F none fx l args
  block : ∀ b, Modfile.Expr.lineBlock b ∈ fs.stmts → ∀ l ∈ b.lines, LineFuel F (some b.comments) fx l l.token

/-- the error value of the regenerated code stands for the model's error list: an `ErrorList` whose entries are the
    model's errors (same positions, inner errors of the model's kinds), or the syntax error of the parser -/
def ErrValRep (e : Option String) (es : List Modfile.RuleErr) : Prop :=
  (∃ errs, e = Rule.errListErr errs ∧ ErrsRep errs es) ∨
  (∃ pos k, es = [⟨pos, .syn k⟩] ∧ e = some (encErr pos ("syn:" ++ Drv.Modfile.synKindName k)))

theorem stmtLeaf_of {ι : Int → Nat} {F fuel : Nat} {fx : Option Modfile.Fixer} {fs : Modfile.FileSyntax} (hT : TreeFuel F fuel fx fs)
    (hne : ∀ x ∈ fs.stmts, StmtNE x) : ∀ x ∈ fs.stmts, StmtLeaf ι F fx x := by
  intro x hx
  have h0 := hne x hx
  cases x with
  | line l =>
    obtain ⟨verb, args, htok⟩ : ∃ verb args, l.token = verb :: args := by
      cases hl : l.token with
      | nil => exact absurd hl h0
      | cons a b => exact ⟨a, b, rfl⟩
    exact ⟨verb, args, htok, AddLeaf_of (pre := [verb]) htok (hT.line l hx verb args htok)⟩
  | lineBlock b =>
    exact ⟨h0, fun verb _ bp l hl => AddLeaf_of (pre := []) rfl (hT.block b hx l hl)⟩
  | commentBlock c => trivial
  | lparen c => trivial
  | rparen c => trivial

theorem stmtLeafW_of {ι : Int → Nat} {F fuel : Nat} {fx : Option Modfile.Fixer} {fs : Modfile.FileSyntax} (hT : TreeFuel F fuel fx fs)
    (hne : ∀ x ∈ fs.stmts, StmtNE x) : ∀ x ∈ fs.stmts, StmtLeafW ι F fx x := by
  intro x hx
  have h0 := hne x hx
  cases x with
  | line l =>
    obtain ⟨verb, args, htok⟩ : ∃ verb args, l.token = verb :: args := by
      cases hl : l.token with
      | nil => exact absurd hl h0
      | cons a b => exact ⟨a, b, rfl⟩
    exact ⟨verb, args, htok, WorkLeaf_of (pre := [verb]) htok (hT.line l hx verb args htok)⟩
  | lineBlock b =>
    refine ⟨h0, fun verb _ l hl => WorkLeaf_of (pre := []) rfl ?_⟩
    have := hT.block b hx l hl
    exact ⟨this.toks, by have := this.coms; simp at this ⊢; omega, this.ver⟩
  | commentBlock c => trivial
  | lparen c => trivial
  | rparen c => trivial

/-- lines with pairwise different ids are determined by their id -/
theorem line_unique : ∀ {ls : List Modfile.Line}, (ls.map (·.id)).Nodup → ∀ {a b : Modfile.Line}, a ∈ ls → b ∈ ls → a.id = b.id → a = b
  | [], _, _, _, h, _, _ => by cases h
  | x :: xs, hn, a, b, ha, hb, e => by
    simp only [List.map_cons, List.nodup_cons] at hn
    rcases List.mem_cons.1 ha with rfl | ha' <;> rcases List.mem_cons.1 hb with rfl | hb'
    · rfl
    · exact absurd (List.mem_map.2 ⟨b, hb', e.symm⟩) hn.1
    · exact absurd (List.mem_map.2 ⟨a, ha', e⟩) hn.1
    · exact line_unique hn.2 ha' hb' e

/-- the todo list of `fixRetract` from the typed list and a fact about every entry -/
theorem todo_of {ι : Int → Nat} {h : Rule.Heap} {Q : Modfile.Line → Prop} :
    ∀ {ps : List Int} {rs : List Modfile.Retract}, REntsL h.retracts (retractR ι h.lines.length) ps rs →
      (∀ r ∈ rs, ∀ obj, retractR ι h.lines.length obj r → ∃ l, RLine ι h obj.Syntax l ∧ l.token ≠ [] ∧ Q l) → TodoOK ι h Q ps rs
  | [], [], _, _ => trivial
  | p :: ps, r :: rs, e, hP => by
    obtain ⟨obj, h1, h2⟩ := e.1
    obtain ⟨l, hl, hne, hQ⟩ := hP r List.mem_cons_self obj h2
    exact ⟨⟨obj, l, h1, h2, hl, hne, hQ⟩, todo_of e.2 (fun r' hr' => hP r' (List.mem_cons_of_mem _ hr'))⟩
  | [], _ :: _, e, _ => e.elim
  | _ :: _, [], e, _ => e.elim

theorem RepTyped.withSyn {ι : Int → Nat} {h : Rule.Heap} {o : Rule.File} {f : Modfile.File} (r : RepTyped ι h o f) (syn : Modfile.FileSyntax) :
    RepTyped ι h o { f with syn := syn } :=
  ⟨r.module, r.go, r.toolchain, r.godebug, r.require, r.exclude, r.replace, r.retract, r.tool⟩

theorem RepTypedW.withSyn {ι : Int → Nat} {h : Rule.Heap} {o : Rule.WorkFile} {f : Modfile.WorkFile} (r : RepTypedW ι h o f) (syn : Modfile.FileSyntax) :
    RepTypedW ι h o { f with syn := syn } :=
  ⟨r.go, r.toolchain, r.godebug, r.use, r.replace⟩

theorem ErrsRep.eq_nil_iff {errs : List Rule.Error} {ms : List Modfile.RuleErr} (r : ErrsRep errs ms) : errs = [] ↔ ms = [] := by
  have hl := r.length
  constructor
  · intro e; subst e; exact List.eq_nil_of_length_eq_zero (by simpa using hl.symm)
  · intro e; subst e; exact List.eq_nil_of_length_eq_zero (by simpa using hl)

theorem prefix_eq_of_length {α : Type} {a b : List α} (hp : a <+: b) (hl : ¬ (b.length > a.length)) : b = a := by
  obtain ⟨t, rfl⟩ := hp
  have : t = [] := List.eq_nil_of_length_eq_zero (by simp only [List.length_append] at hl; omega)
  simp [this]


/-- a syntax error of the parser: the regenerated `parseToFile` returns it as it is -/
theorem PTF_synErr {name data : Bytes} {e : Modfile.SynErr} (hp : Modfile.parse name data = .error e) (fx : Option Modfile.Fixer) (strict : Bool)
    (fuel : Nat) : PTF fuel name data (fixG fx) strict default =
      .ok (((0 : Int), some (encErr e.pos ("syn:" ++ Drv.Modfile.synKindName e.kind))), default) := by
  unfold PTF Rule.parseToFile
  simp [parseSynI, hp, bind, Except.bind, pure, Except.pure]

/-- the invariant of the retract entries before `fixRetract` -/
theorem retInv_of {ι : Int → Nat} {h : Rule.Heap} {fp : Int} {errs : List Rule.Error} {st : Modfile.AddState} {F M : Nat}
    (R : RepR ι h fp errs st) (hM : 8 * M + 1 ≤ F) {ls : List Modfile.Line}
    (hnew : RetNew M ls (linesOf st.file.syn.stmts) st.file.retract) (hnd : (ls.map (·.id)).Nodup) :
    ∀ o, heapGet h.mods fp = .ok o → RetInv ι h o (QF F) st := by
  intro o ho
  obtain ⟨o', ho', rt, es, hsa⟩ := R.obj
  rw [ho] at ho'; cases ho'
  have hnodL : ((linesOf st.file.syn.stmts).map (·.id)).Nodup := by rw [← treeIds_eq_linesOf]; exact hsa.nodupL
  refine ⟨todo_of rt.retract.rel ?_, hnew.1.nodup hnd, ?_⟩
  · intro r hr obj hR
    obtain ⟨l', hl', hid, hne, hsum⟩ := hnew.2 r hr
    have hmem : r.lineId ∈ treeIds st.file.syn.stmts := by
      rw [treeIds_eq_linesOf]; exact List.mem_map.2 ⟨l', hl', hid⟩
    obtain ⟨l'', hf⟩ := findLine_of_mem hmem
    have hR2 := RepSyn.findLine_at (ι := ι) ⟨es, hsa⟩ R.inj hR.2.2.2.pos hR.2.2.2.le (by rw [hR.2.2.2.id]; exact hf)
    have hl''mem : l'' ∈ linesOf st.file.syn.stmts := by
      unfold Modfile.FileSyntax.findLine at hf
      exact List.mem_of_find?_eq_some hf
    have hl''id : l''.id = r.lineId := by
      unfold Modfile.FileSyntax.findLine at hf
      simpa using List.find?_some hf
    have : l'' = l' := line_unique hnodL hl''mem hl' (by rw [hl''id, hid])
    subst this
    refine ⟨l'', hR2, hne, ?_⟩
    unfold QF
    have := tokSum_frSplit l''
    omega
  · intro r hr
    obtain ⟨l', hl', hid, _⟩ := hnew.2 r hr
    rw [treeIds_eq_linesOf]; exact List.mem_map.2 ⟨l', hl', hid⟩

/-- **the regenerated `parseToFile` (driver's `parseSynI`, from the empty heap) = the model's `parseToFile`** on a tree
    that parses -/
theorem PTF_spec {name data : Bytes} {fs : Modfile.FileSyntax} (hp : Modfile.parse name data = .ok fs) (fx : Option Modfile.Fixer) (strict : Bool)
    (F fuel : Nat) (hT : TreeFuel F fuel fx fs) :
    match Modfile.parseToFile name data fx strict with
    | .ok f => ∃ fp h, PTF fuel name data (fixG fx) strict default = .ok ((fp, none), h) ∧ fileM (idsOf name data) h fp = some f
    | .error es => ∃ e h, PTF fuel name data (fixG fx) strict default = .ok (((0 : Int), e), h) ∧ ErrValRep e es ∧ es ≠ [] := by
  obtain ⟨p0, h0, hrun0, hsyn0, hinj0⟩ := parseSynI_rep hp
  obtain ⟨es0, hsa0⟩ := hsyn0
  have hne := parse_ne hp
  have hnodup : ((linesOf fs.stmts).map (·.id)).Nodup := Proofs.ModfileC20.parse_ids_nodup hp
  -- the File object
  have ho1 : heapGet (h0.mods ++ [({ (default : Rule.File) with Syntax := p0 } : Rule.File)]) ((h0.mods.length + 1 : Nat) : Int) =
      .ok ({ (default : Rule.File) with Syntax := p0 } : Rule.File) := heapGet_alloc_new _ _
  have R1 : RepRS (idOf (idsOf name data)) { h0 with mods := h0.mods ++ [({ (default : Rule.File) with Syntax := p0 } : Rule.File)] }
      ((h0.mods.length + 1 : Nat) : Int) [] { file := { syn := fs } } (synTop fs ([] ++ fs.stmts)) := by
    refine ⟨⟨_, ho1, ⟨rfl, rfl, rfl, ⟨trivial, List.nodup_nil⟩, ⟨trivial, List.nodup_nil⟩, ⟨trivial, List.nodup_nil⟩,
      ⟨trivial, List.nodup_nil⟩, ⟨trivial, List.nodup_nil⟩, ⟨trivial, List.nodup_nil⟩⟩, ?_⟩, hinj0, trivial⟩
    have hS1 : RepSyn (idOf (idsOf name data)) { h0 with mods := h0.mods ++ [({ (default : Rule.File) with Syntax := p0 } : Rule.File)] } p0 fs :=
      RepSyn.congr (h := h0) (h' := { h0 with mods := h0.mods ++ [({ (default : Rule.File) with Syntax := p0 } : Rule.File)] }) rfl rfl rfl rfl ⟨es0, hsa0⟩
    exact hS1
  have hlenS : es0.length = fs.stmts.length := hsa0.stmts.length
  obtain ⟨ri, errs2, h2, hrun1, R2⟩ := PL1_spec (F := F) (fx := fx) (strict := strict) name p0 es0 fs.stmts [] [] _ [] _ fuel
    (by rw [hlenS]; exact hT.loop) R1
    (fun o ho => by
      have : o = ({ (default : Rule.File) with Syntax := p0 } : Rule.File) := by
        have h' : heapGet (h0.mods ++ [({ (default : Rule.File) with Syntax := p0 } : Rule.File)]) ((h0.mods.length + 1 : Nat) : Int) = .ok o := ho
        rw [ho1] at h'; cases h'; rfl
      subst this
      exact ⟨_, hsa0.file, rfl⟩)
    rfl (stmtLeaf_of hT hne)
  -- the model
  unfold Modfile.parseToFile
  simp only [hp]
  generalize hadd : Modfile.addStmts fx strict { file := { syn := fs } } fs.stmts = res at R2 ⊢
  obtain ⟨st1, stmts'⟩ := res
  simp only [List.nil_append] at R2 ⊢
  -- the state with the rewritten tree
  have R2' : RepR (idOf (idsOf name data)) h2 ((h0.mods.length + 1 : Nat) : Int) errs2
      { st1 with file := { st1.file with syn := { fs with stmts := stmts' } } } := by
    obtain ⟨o, ho, rt, rs⟩ := R2.obj
    exact ⟨⟨o, ho, RepTyped.withSyn rt _, rs⟩, R2.inj, R2.errs⟩
  -- fixRetract
  have hM : 8 * ((F - 1) / 8) + 1 ≤ F := by have := hT.pos; omega
  have hret := addStmts_retOK ((F - 1) / 8) fx strict fs.stmts { file := { syn := fs } }
    (fun l hl => by have := hT.all l hl; omega)
  rw [hadd] at hret
  obtain ⟨new, hnewE, hnew⟩ := hret
  simp only [List.nil_append] at hnewE
  have hretLen : st1.file.retract.length ≤ (linesOf fs.stmts).length := by
    rw [hnewE]
    have := hnew.1.length_le
    simpa using this
  obtain ⟨errs3, h3, hrun3, R3, hpre⟩ := FR_spec R2' fx (QF F) F fuel (by have := hT.lines; simp only []; omega)
    (retInv_of R2' hM (ls := linesOf fs.stmts) (by simpa only [hnewE] using hnew) hnodup)
    (fun fx' m _ _ _ => FixLeaf_of _ F m.mod.path fx')
  -- the generated wrapper
  have hrunAll : PTF fuel name data (fixG fx) strict default =
      (if decide (GoRt.len errs2 > 0) then
        (if decide (GoRt.len errs3 > GoRt.len errs2) then .ok (((0 : Int), Rule.errListErr errs3), h3)
         else .ok (((0 : Int), Rule.errListErr errs2), h3))
       else
        (if decide (GoRt.len errs3 > GoRt.len errs2) then .ok (((0 : Int), Rule.errListErr errs3), h3)
         else .ok ((((h0.mods.length + 1 : Nat) : Int), none), h3))) := by
    unfold PTF Rule.parseToFile
    have hrun1' : Rule.parseToFile_loop1 deprecatedSubI Modfile.goVersionRE isPrintI laxSubI parseSynI Quote.quote Modfile.toolchainRE unquoteI
        es0 name (fixG fx) strict p0 ((h0.mods.length + 1 : Nat) : Int) fuel 0
        { h0 with mods := h0.mods ++ [({ (default : Rule.File) with Syntax := p0 } : Rule.File)] } [] = .ok (ri, h2, errs2) := by
      have := hrun1; simp only [List.nil_append, List.length_nil, Int.natCast_zero] at this; exact this
    have hrun3' : Rule.File_fixRetract isPrintI Quote.quote unquoteI fuel ((h0.mods.length + 1 : Nat) : Int) (fixG fx) errs2 h2 = .ok (((), errs3), h3) := hrun3
    simp only [hrun0, Option.isNone_none, Bool.not_true, Bool.false_eq_true, if_false, heapAlloc, hsa0.file, fileG_Stmt, hrun1', hrun3',
      bind, Except.bind, pure, Except.pure]
  rw [hrunAll]
  -- the final case analysis
  have hE3 := R3.errs
  have hlen2 : GoRt.len errs2 = (errs2.length : Int) := len_eq _
  have hlen3 : GoRt.len errs3 = (errs3.length : Int) := len_eq _
  generalize Modfile.fixRetract { st1 with file := { st1.file with syn := { fs with stmts := stmts' } } } fx = st3 at R3 hE3 ⊢
  by_cases hemp : st3.errsRev.isEmpty = true
  · -- no errors at all
    have h3nil : errs3 = [] := (ErrsRep.eq_nil_iff hE3).2 (by simpa using hemp)
    have h2nil : errs2 = [] := by
      obtain ⟨t, ht⟩ := hpre; rw [h3nil] at ht; exact (List.append_eq_nil_iff.1 ht).1
    simp only [hemp, if_true, h2nil, h3nil, len_eq, List.length_nil, Int.natCast_zero, Int.lt_irrefl, gt_iff_lt, decide_false, Bool.false_eq_true, if_false]
    exact ⟨_, _, rfl, fileM_of_rep R3⟩
  · have hne3 : st3.errsRev.reverse ≠ [] := by simpa using hemp
    have h3ne : errs3 ≠ [] := fun e => hne3 ((ErrsRep.eq_nil_iff hE3).1 e)
    simp only [hemp, Bool.false_eq_true, if_false]
    have hgoal : ∀ e, e = Rule.errListErr errs3 → ∃ e' h, (Except.ok (((0 : Int), e), h3) : M ((Int × Option String) × Rule.Heap)) = .ok (((0 : Int), e'), h) ∧
        ErrValRep e' st3.errsRev.reverse ∧ st3.errsRev.reverse ≠ [] :=
      fun e he => ⟨e, h3, rfl, Or.inl ⟨errs3, he, hE3⟩, hne3⟩
    by_cases hgt : GoRt.len errs3 > GoRt.len errs2
    · simp only [hgt, decide_true, if_true, ite_self]
      exact hgoal _ rfl
    · have heq : errs3 = errs2 := prefix_eq_of_length hpre (by rw [hlen2, hlen3] at hgt; omega)
      have hpos : GoRt.len errs2 > 0 := by
        rw [hlen2, ← heq]
        have : errs3.length ≠ 0 := fun e => h3ne (List.eq_nil_of_length_eq_zero e)
        omega
      simp only [hgt, decide_false, Bool.false_eq_true, if_false, hpos, decide_true, if_true]
      exact hgoal _ (by rw [heq])


theorem PWK_synErr {name data : Bytes} {e : Modfile.SynErr} (hp : Modfile.parse name data = .error e) (fx : Option Modfile.Fixer)
    (fuel : Nat) : PWK fuel name data (fixG fx) default =
      .ok (((0 : Int), some (encErr e.pos ("syn:" ++ Drv.Modfile.synKindName e.kind))), default) := by
  unfold PWK Rule.ParseWork
  simp [parseSynI, hp, bind, Except.bind, pure, Except.pure]

/-- **the regenerated `ParseWork` (driver's `parseSynI`, from the empty heap) = the model's `parseWork`** on a tree that
    parses -/
theorem PWK_spec {name data : Bytes} {fs : Modfile.FileSyntax} (hp : Modfile.parse name data = .ok fs) (fx : Option Modfile.Fixer)
    (F fuel : Nat) (hT : TreeFuel F fuel fx fs) :
    match Modfile.parseWork name data fx with
    | .ok f => ∃ fp h, PWK fuel name data (fixG fx) default = .ok ((fp, none), h) ∧ workM (idsOf name data) h fp = some f
    | .error es => ∃ e h, PWK fuel name data (fixG fx) default = .ok (((0 : Int), e), h) ∧ ErrValRep e es ∧ es ≠ [] := by
  obtain ⟨p0, h0, hrun0, hsyn0, hinj0⟩ := parseSynI_rep hp
  obtain ⟨es0, hsa0⟩ := hsyn0
  have hne := parse_ne hp
  have ho1 : heapGet (h0.works ++ [({ (default : Rule.WorkFile) with Syntax := p0 } : Rule.WorkFile)]) ((h0.works.length + 1 : Nat) : Int) =
      .ok ({ (default : Rule.WorkFile) with Syntax := p0 } : Rule.WorkFile) := heapGet_alloc_new _ _
  have R1 : RepWS (idOf (idsOf name data)) { h0 with works := h0.works ++ [({ (default : Rule.WorkFile) with Syntax := p0 } : Rule.WorkFile)] }
      ((h0.works.length + 1 : Nat) : Int) [] { file := { syn := fs } } (synTop fs ([] ++ fs.stmts)) := by
    refine ⟨⟨_, ho1, ⟨rfl, rfl, ⟨trivial, List.nodup_nil⟩, ⟨trivial, List.nodup_nil⟩, ⟨trivial, List.nodup_nil⟩⟩, ?_⟩, hinj0, trivial⟩
    have hS1 : RepSyn (idOf (idsOf name data)) { h0 with works := h0.works ++ [({ (default : Rule.WorkFile) with Syntax := p0 } : Rule.WorkFile)] } p0 fs :=
      RepSyn.congr (h := h0) (h' := { h0 with works := h0.works ++ [({ (default : Rule.WorkFile) with Syntax := p0 } : Rule.WorkFile)] }) rfl rfl rfl rfl ⟨es0, hsa0⟩
    exact hS1
  have hlenS : es0.length = fs.stmts.length := hsa0.stmts.length
  obtain ⟨ri, errs2, h2, hrun1, R2⟩ := PW1_spec (F := F) (fx := fx) name p0 es0 fs.stmts [] [] _ [] _ fuel
    (by rw [hlenS]; exact hT.loop) R1
    (fun o ho => by
      have : o = ({ (default : Rule.WorkFile) with Syntax := p0 } : Rule.WorkFile) := by
        have h' : heapGet (h0.works ++ [({ (default : Rule.WorkFile) with Syntax := p0 } : Rule.WorkFile)]) ((h0.works.length + 1 : Nat) : Int) = .ok o := ho
        rw [ho1] at h'; cases h'; rfl
      subst this
      exact ⟨_, hsa0.file, rfl⟩)
    rfl (stmtLeafW_of hT hne)
  unfold Modfile.parseWork
  simp only [hp]
  generalize hadd : Modfile.workStmts fx { file := { syn := fs } } fs.stmts = res at R2 ⊢
  obtain ⟨st1, stmts'⟩ := res
  simp only [List.nil_append] at R2 ⊢
  have R2' : RepW (idOf (idsOf name data)) h2 ((h0.works.length + 1 : Nat) : Int) errs2
      { st1 with file := { st1.file with syn := { fs with stmts := stmts' } } } := by
    obtain ⟨o, ho, rt, rs⟩ := R2.obj
    exact ⟨⟨o, ho, RepTypedW.withSyn rt _, rs⟩, R2.inj, R2.errs⟩
  have hrunAll : PWK fuel name data (fixG fx) default =
      (if decide (GoRt.len errs2 > 0) then .ok (((0 : Int), Rule.errListErr errs2), h2)
       else .ok ((((h0.works.length + 1 : Nat) : Int), none), h2)) := by
    unfold PWK Rule.ParseWork
    have hrun1' : Rule.ParseWork_loop1 Modfile.goVersionRE isPrintI parseSynI Quote.quote Modfile.toolchainRE unquoteI
        es0 name (fixG fx) p0 ((h0.works.length + 1 : Nat) : Int) fuel 0
        { h0 with works := h0.works ++ [({ (default : Rule.WorkFile) with Syntax := p0 } : Rule.WorkFile)] } [] = .ok (ri, h2, errs2) := by
      have := hrun1; simp only [List.nil_append, List.length_nil, Int.natCast_zero] at this; exact this
    simp only [hrun0, Option.isNone_none, Bool.not_true, Bool.false_eq_true, if_false, heapAlloc, hsa0.file, fileG_Stmt, hrun1',
      bind, Except.bind, pure, Except.pure]
  rw [hrunAll]
  have hE := R2.errs
  have hlen2 : GoRt.len errs2 = (errs2.length : Int) := len_eq _
  by_cases hemp : st1.errsRev.isEmpty = true
  · have h2nil : errs2 = [] := (ErrsRep.eq_nil_iff hE).2 (by simpa using hemp)
    simp only [hemp, if_true, h2nil, len_eq, List.length_nil, Int.natCast_zero, Int.lt_irrefl, gt_iff_lt, decide_false, Bool.false_eq_true, if_false]
    exact ⟨_, _, rfl, workM_of_rep R2'⟩
  · have hne3 : st1.errsRev.reverse ≠ [] := by simpa using hemp
    have h2ne : errs2 ≠ [] := fun e => hne3 ((ErrsRep.eq_nil_iff hE).1 e)
    have hpos : GoRt.len errs2 > 0 := by
      rw [hlen2]
      have : errs2.length ≠ 0 := fun e => h2ne (List.eq_nil_of_length_eq_zero e)
      omega
    simp only [hemp, Bool.false_eq_true, if_false, hpos, decide_true, if_true]
    exact ⟨_, h2, rfl, Or.inl ⟨errs2, rfl, hE⟩, hne3⟩

end ModVerif.Tie.FnRuleAddO
