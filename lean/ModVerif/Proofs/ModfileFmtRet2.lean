/-
  C02 clause 3 with a version fixer and `retract` directives, part b: the second half of the round trip WITH the
  deferred `fixRetract` pass (the analogue of `EditReparse.reparse_of_first_run` for `fix = some fx` and files that
  have retract directives).
-/
import ModVerif.Proofs.ModfileFmtRet
import ModVerif.Proofs.ModfileEolDir4
namespace ModVerif.Proofs.ModfileFmtRet
open ModVerif ModVerif.Modfile ModVerif.Proofs.ModfileC20
open ModVerif.Proofs.ModfileFmtDir ModVerif.Proofs.ModfileEol ModVerif.Proofs.ModfileFmtTree

theorem parseString_retract : parseString (B "retract") = some (B "retract", B "retract") := by decide +kernel

/-- the split `keep ++ args` of a retract line recorded by the directive layer is the split `fixRetract` makes -/
theorem frArgs_of_split {l : Line} {keep args rest : List Bytes} {vi : VersionInterval}
    (htok : l.token = keep ++ args) (hk : keep = [] ∨ keep = [B "retract"])
    (hpv : parseVersionInterval [] args (some dontFixRetract) = (args, .ok (vi, rest)))
    (hv : VerOK vi.low) : frArgs l = (keep, args) := by
  rcases hk with rfl | rfl
  · simp only [List.nil_append] at htok
    cases args with
    | nil => simp [parseVersionInterval] at hpv
    | cons t0 r0 =>
      unfold frArgs
      rw [htok]
      simp only
      split
      · rename_i heq
        exfalso
        have heq : t0 = B "retract" := by simpa using heq
        have c1 : ¬ t0 = [40] := by rw [heq]; decide +kernel
        have c2 : ¬ t0 = [91] := by rw [heq]; decide +kernel
        rcases hv0 : parseVersion [] t0 (some dontFixRetract) with ⟨t', r⟩
        cases r with
        | error e => simp [parseVersionInterval, c1, c2, hv0] at hpv
        | ok v =>
          simp [parseVersionInterval, c1, c2, hv0] at hpv
          obtain ⟨_, e2, _⟩ := hpv
          obtain ⟨_, q, hq⟩ := pv_dont hv0
          rw [heq, parseString_retract] at hq
          simp only [Option.some.injEq, Prod.mk.injEq] at hq
          rw [← e2] at hv
          simp only at hv
          rw [← hq.1] at hv
          revert hv
          unfold VerOK
          decide +kernel
      · rfl
  · unfold frArgs
    rw [htok]
    simp

/-- ★ **Round trip from a first run, with a fixer and retract directives.**  `T`: any syntax tree of the shape `Format`
    prints faithfully.  If the directive layer with the fixer `fx` (idempotent on its image, never the empty string),
    run over `T`, reports no error, leaves every token as it is and yields a well-formed typed file, the module path
    is not empty when there is a retract directive, and both bounds of every retract interval are fixpoints of `fx` at
    the module path (they are: `fixRetract` wrote the fixer's results into the tree, and the fixer is idempotent on
    its image), then the strict parser WITH THE SAME FIXER accepts `Format T` — its deferred `fixRetract` pass finds
    every retract line by its identity (`parse_ids_nodup`), re-parses the interval with `fx`, which sees its own image,
    writes back the tokens that are there and reports the same interval — and reads the same directive values. -/
theorem reparse_of_first_run_fix (name : Bytes) (T : FileSyntax) (fx : Fixer) (st1 : AddState)
    (hfix : FixOK (some fx)) (hne : FixNE (some fx))
    (hwf : EWFStmts T.stmts) (hnl : ∀ s ∈ T.stmts, NlOK s) (hc : T.comments.before = [])
    (ha : addStmts (some fx) true { file := { syn := T } } T.stmts = (st1, T.stmts))
    (he : st1.errsRev = []) (hw : WellFormed st1.file)
    (hmod : (values st1.file).retract ≠ [] → ((values st1.file).module.getD []) ≠ [])
    (himg : ∀ vi ∈ (values st1.file).retract,
      fx ((values st1.file).module.getD []) vi.low = .ok vi.low ∧
      fx ((values st1.file).module.getD []) vi.high = .ok vi.high) :
    ∃ f', parseToFile name (format T) (some fx) true = .ok f' ∧ values f' = values st1.file := by
  obtain ⟨_, _, _, _, hrep⟩ := addStmts_replayE (some fx) hfix hne T.stmts _ st1 T.stmts ha he hw hwf hnl
  obtain ⟨t', hp', het'⟩ := reparse_ewf name T hwf hnl hc
  have hrel : t'.stmts.map eraseExpr = T.stmts.map normExprE := by
    have := congrArg FileSyntax.stmts het'
    simpa [eraseFile] using this
  have hsim0 : ModfileFmtDir.Sim ({ file := { syn := T } } : AddState) ({ file := { syn := t' } } : AddState) :=
    ⟨rfl, rfl, rfl⟩
  obtain ⟨st1', ha', hsim'⟩ := hrep _ t'.stmts hsim0 hrel
  have hvals := hsim'.vals
  have hw' : WellFormed st1'.file := wellFormed_of_values hvals hw
  -- what the second run recorded about its retract entries
  have htokin : RetTokIn [] (linesOf t'.stmts) st1'.file.retract := by
    have := addStmts_rettok (some fx) true t'.stmts { file := { syn := t' } } (by rw [ha'])
    rw [ha'] at this
    exact this
  have hnodup : NodupIds t'.stmts := parse_ids_nodup hp'
  -- the state `fixRetract` runs on
  have hfr : fixRetract { st1' with file := { st1'.file with syn := { t' with stmts := t'.stmts } } } (some fx) =
      { st1' with file := { st1'.file with syn := { t' with stmts := t'.stmts } } } := by
    unfold fixRetract
    simp only
    cases hret : st1'.file.retract with
    | nil => rfl
    | cons r0 rs0 =>
      simp only
      have hretne : (values st1.file).retract ≠ [] := by
        rw [hvals]
        simp [values, hret]
      have hpne := hmod hretne
      cases hm : st1'.file.module with
      | none =>
        exfalso
        apply hpne
        rw [hvals]
        simp [values, hm]
      | some m =>
        have hP : (values st1.file).module.getD [] = m.mod.path := by
          rw [hvals]
          simp [values, hm]
        simp only
        rw [← hP]
        have hemp : ((values st1.file).module.getD []).isEmpty = false := by
          cases hh : (values st1.file).module.getD [] with
          | nil => exact absurd hh hpne
          | cons _ _ => rfl
        simp only [hemp, Bool.false_eq_true, if_false]
        have hloop := fixRetractLoop_fixpoint ((values st1.file).module.getD []) fx (r0 :: rs0)
          { t' with stmts := t'.stmts } st1'.errsRev hnodup (by
            intro r hr
            have hr' : r ∈ st1'.file.retract := by rw [hret]; exact hr
            rcases htokin r hr' with h0 | ⟨l, hl, hid, keep, args, rest, htok, hk, hpv⟩
            · cases h0
            · have hvi : r.interval ∈ (values st1.file).retract := by
                rw [hvals]
                simp only [values]
                exact List.mem_map_of_mem hr'
              have hver := hw'.retract r hr'
              have hfa := frArgs_of_split htok hk hpv hver.1
              refine ⟨l, hl, hid, rest, ?_⟩
              rw [hfa]
              exact pvi_fix_of_dontFix _ fx args r.interval rest hpv (himg _ hvi).1 (himg _ hvi).2)
        rw [hloop]
  refine ⟨{ st1'.file with syn := { t' with stmts := t'.stmts } }, ?_, ?_⟩
  · unfold parseToFile
    simp only [hp', ha']
    rw [hfr]
    simp [hsim'.errs']
  · rw [values_syn, ← hvals]

end ModVerif.Proofs.ModfileFmtRet
