/-
  C02 stage 4 for go.work files, part b: one `WorkFile.add` step, all verbs together (`work_add_step`), and
  the block-line loop `workBlockLines` (error monotonicity and replay).
  (Port of ModfileFmtDir3 / ModfileFmtDir4.)
-/
import ModVerif.Proofs.ModfileFmtWork
namespace ModVerif.Proofs.ModfileFmtWork
open ModVerif ModVerif.Modfile ModVerif.Proofs.ModfileFmtLex ModVerif.Proofs.ModfileFmtLine
open ModVerif.Proofs.ModfileFmtFix ModVerif.Proofs.ModfileFmtTree ModVerif.Proofs.ModfileFmtParse
open ModVerif.Proofs.ModfileFmtDir

/-- ★ one `WorkFile.add` step without error -/
theorem work_add_step (st st1 : WorkState) (l : Line) (verb : Bytes) (args args1 : List Bytes)
    (fix : Option Fixer) (h : WorkFile.add st l verb args fix = (st1, args1)) (he : st1.errsRev = [])
    (hfix : FixOK fix) (hne : FixNE fix) (hwf : WorkWellFormed st1.file)
    (horig : ∀ t ∈ args, TokText t) :
    WStepOK st st1 verb args1 fix ∧ WorkWellFormed st.file ∧ ArgsTok args1 ∧ args1 ≠ [] := by
  by_cases h1 : verb = B "go"
  · subst h1
    obtain ⟨hs, a, rfl, rfl, hre, hf⟩ := work_add_go st st1 l args args1 fix h he
    rw [hf] at hwf
    refine ⟨hs, ⟨hwf.use, hwf.replace⟩, ?_, by simp⟩
    intro t ht
    simp at ht; subst ht
    exact ⟨horig _ (by simp), goVersionRE_not_paren hre⟩
  by_cases h2 : verb = B "toolchain"
  · subst h2
    obtain ⟨hs, a, rfl, rfl, hre, hf⟩ := work_add_toolchain st st1 l args args1 fix h he
    rw [hf] at hwf
    refine ⟨hs, ⟨hwf.use, hwf.replace⟩, ?_, by simp⟩
    intro t ht
    simp at ht; subst ht
    exact ⟨horig _ (by simp), toolchainRE_not_paren hre⟩
  by_cases h4 : verb = B "godebug"
  · subst h4
    obtain ⟨hs, k, v, rfl, hg, hf⟩ := work_add_godebug st st1 l args args1 fix h he
    rw [hf] at hwf
    refine ⟨hs, ⟨hwf.use, hwf.replace⟩, ?_, ?_⟩
    · intro t ht
      exact ⟨horig t ht, addGodebug_not_paren hg t ht⟩
    · intro e; subst e; simp [addGodebug] at hg
  by_cases h5 : verb = B "use"
  · subst h5
    obtain ⟨hs, a, s, rfl, hps, rfl, hf⟩ := work_add_use st st1 l args args1 fix h he
    have hnew := hwf.use { path := s, lineId := l.id } (by rw [hf]; simp)
    rw [hf] at hwf
    refine ⟨hs, ⟨fun u hu => hwf.use u (mem_snoc_left hu), hwf.replace⟩, ?_, by simp⟩
    intro t ht
    simp at ht; subst ht
    exact pathOK_tok hnew
  by_cases h7 : verb = B "replace"
  · subst h7
    obtain ⟨r, hf, hargs, hrest⟩ := work_add_replace st st1 l args args1 fix h he hfix hne
    have hnew := hwf.replace r (by rw [hf]; simp)
    obtain ⟨hs, hvo, hvn⟩ := hrest (fun _ => ⟨hnew.2.1, hnew.2.2.2⟩)
    rw [hf] at hwf
    refine ⟨hs, ⟨hwf.use, fun r' hr => hwf.replace r' (mem_snoc_left hr)⟩, ?_, by rw [hargs]; simp [replaceToks]⟩
    rw [hargs]
    intro t ht
    simp only [replaceToks, List.mem_append, List.mem_singleton] at ht
    rcases ht with (((ht | ht) | ht) | ht) | ht
    · subst ht; exact pathOK_tok hnew.1
    · split at ht
      · simp at ht
      · rename_i hv; simp at ht; subst ht; exact verOK_tok (hvo hv)
    · subst ht; exact B_arrow_tok
    · subst ht; exact pathOK_tok hnew.2.2.1
    · split at ht
      · simp at ht
      · rename_i hv; simp at ht; subst ht; exact verOK_tok (hvn hv)
  · -- unknown directive: an error
    exfalso
    have e1 : (verb == B "go") = false := by simpa using h1
    have e2 : (verb == B "toolchain") = false := by simpa using h2
    have e4 : (verb == B "godebug") = false := by simpa using h4
    have e5 : (verb == B "use") = false := by simpa using h5
    have e7 : (verb == B "replace") = false := by simpa using h7
    unfold WorkFile.add at h
    simp only [e1, e2, e4, e5, e7, Bool.false_eq_true, if_false, Prod.mk.injEq] at h
    obtain ⟨rfl, _⟩ := h
    exact absurd he (work_err_ne_nil _ _ _)

/-! ### errors only accumulate -/

theorem workBlockLines_errs_mono (verb : Bytes) (fix : Option Fixer) :
    ∀ (ls : List Line) (st : WorkState), st.errsRev <:+ (workBlockLines verb fix st ls).1.errsRev := by
  intro ls
  induction ls with
  | nil => intro st; exact List.suffix_refl _
  | cons l ls ih =>
    intro st
    simp only [workBlockLines]
    exact (work_add_errs_mono st l verb l.token fix).trans (ih _)

theorem workStmts_errs_mono (fix : Option Fixer) :
    ∀ (ss : List Expr) (st : WorkState), st.errsRev <:+ (workStmts fix st ss).1.errsRev := by
  intro ss
  induction ss with
  | nil => intro st; exact List.suffix_refl _
  | cons x xs ih =>
    intro st
    simp only [workStmts]
    refine List.IsSuffix.trans ?_ (ih _)
    cases x with
    | line l =>
      simp only
      split
      · exact work_add_errs_mono st l _ _ fix
      · exact List.suffix_refl _
    | lineBlock b =>
      simp only
      split
      · split
        · exact workBlockLines_errs_mono _ fix b.lines st
        · exact List.suffix_cons _ _
      · exact List.suffix_cons _ _
    | commentBlock x => exact List.suffix_refl _
    | lparen x => exact List.suffix_refl _
    | rparen x => exact List.suffix_refl _

/-! ### block lines -/

theorem workBlockLines_replay (verb : Bytes) (fix : Option Fixer) (hfix : FixOK fix)
    (hne : FixNE fix) : ∀ (ls : List Line) (allow : Bool) (st st1 : WorkState) (ls1 : List Line),
    workBlockLines verb fix st ls = (st1, ls1) → st1.errsRev = [] → WorkWellFormed st1.file →
    WFBlkLines allow ls →
    WFBlkLines allow ls1 ∧ ls1.length = ls.length ∧ WorkWellFormed st.file ∧ st.errsRev = [] ∧
    ∀ (st' : WorkState) (ls' : List Line), WSim st st' → ls'.map eraseLine = ls1.map normLine →
      ∃ st1', workBlockLines verb fix st' ls' = (st1', ls') ∧ WSim st1 st1' := by
  intro ls
  induction ls with
  | nil =>
    intro allow st st1 ls1 h he hwf _
    simp only [workBlockLines, Prod.mk.injEq] at h
    obtain ⟨rfl, rfl⟩ := h
    refine ⟨trivial, rfl, hwf, he, ?_⟩
    intro st' ls' hsim hrel
    have : ls' = [] := by simpa using hrel
    subst this
    exact ⟨st', rfl, hsim⟩
  | cons l ls ih =>
    intro allow st st1 ls1 h he hwf hwfl
    obtain ⟨hl, hls⟩ := hwfl
    simp only [workBlockLines] at h
    cases hstep : WorkFile.add st l verb l.token fix with
    | mk stm toks =>
      cases hrest : workBlockLines verb fix stm ls with
      | mk st2 ls2 =>
        simp only [hstep, hrest, Prod.mk.injEq] at h
        obtain ⟨rfl, rfl⟩ := h
        obtain ⟨hwl2, hlen2, hwfm, hem, hreplay2⟩ := ih true stm st2 ls2 hrest he hwf hls
        obtain ⟨hsok, hwf0, hargs, hane⟩ := work_add_step st stm l verb l.token toks fix hstep hem hfix hne
          hwfm hl.tok
        refine ⟨⟨?_, hwl2⟩, by simp [hlen2], hwf0, hsok.errs, ?_⟩
        · refine ⟨hane, fun t ht => (hargs t ht).1, ?_, hl.before, hl.suffix, hl.after, hl.inBlock⟩
          cases toks with
          | nil => exact absurd rfl hane
          | cons t0 tr =>
            simp only [List.head?_cons, ne_eq, Option.some.injEq]
            exact (hargs t0 (by simp)).2.2
        · intro st' ls' hsim hrel
          cases ls' with
          | nil => simp at hrel
          | cons l' ls'' =>
            simp only [List.map_cons, List.cons.injEq] at hrel
            obtain ⟨hl', hrel'⟩ := hrel
            have htok' : l'.token = toks := by
              have := congrArg Line.token hl'
              simpa [eraseLine, normLine] using this
            have hsuf' : l'.comments.suffix = [] := by
              have := congrArg (fun x : Line => x.comments.suffix) hl'
              simp only [eraseLine, normLine, eraseCs, normCs, hl.suffix, List.map_nil] at this
              simpa using this
            obtain ⟨stm', hadd', hsim'⟩ := hsok.replay st' l' hsim hsuf'
            obtain ⟨st2', hrest', hsim2⟩ := hreplay2 stm' ls'' hsim' hrel'
            refine ⟨st2', ?_, hsim2⟩
            simp only [workBlockLines, htok', hadd', hrest']
            congr 2
            cases l'
            simp only at htok'
            subst htok'
            rfl

end ModVerif.Proofs.ModfileFmtWork
