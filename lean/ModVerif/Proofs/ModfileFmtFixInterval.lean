/-
  C02 clause 3, leaf fixpoints, part 3: the tokens `parseVersionInterval` writes back have one of two shapes
  (`v rest…` or `[ low , high ] rest…`) and parse to the same interval again.
-/
import ModVerif.Proofs.ModfileFmtFixVersion
namespace ModVerif.Proofs.ModfileFmtFix
open ModVerif ModVerif.Modfile ModVerif.SemverSpec
open ModVerif.Proofs.ModfileFmtQuote ModVerif.Proofs.ModfileFmtLex

/-- the shape of a successful `parseVersionInterval`, on the input and on the output tokens -/
theorem parseVersionInterval_shape {p : Bytes} {toks toks' rest : List Bytes} {fix : Option Fixer} {vi : VersionInterval}
    (h : parseVersionInterval p toks fix = (toks', .ok (vi, rest))) :
    (∃ t0, toks = t0 :: rest ∧ t0 ≠ [40] ∧ t0 ≠ [91] ∧ parseVersion p t0 fix = (vi.low, .ok vi.low) ∧
        vi.high = vi.low ∧ toks' = vi.low :: rest) ∨
    (∃ t1 t2, toks = [91] :: t1 :: [44] :: t2 :: [93] :: rest ∧
        parseVersion p t1 fix = (vi.low, .ok vi.low) ∧ parseVersion p t2 fix = (vi.high, .ok vi.high) ∧
        toks' = [91] :: vi.low :: [44] :: vi.high :: [93] :: rest) := by
  unfold parseVersionInterval at h
  split at h
  · cases h
  · rename_i t0 rest0
    split at h
    · cases h
    · rename_i h40
      split at h
      · rename_i h91
        left
        split at h
        · cases h
        · rename_i t0' v hpv
          simp only [Prod.mk.injEq, Except.ok.injEq] at h
          obtain ⟨h1, h2, h3⟩ := h
          have e := parseVersion_ok_tok hpv
          subst e
          subst h3
          subst h2
          refine ⟨t0, rfl, by simpa using h40, by simpa using h91, hpv, rfl, h1.symm⟩
      · rename_i h91
        have e91 : t0 = [91] := by simpa using h91
        subst e91
        right
        split at h
        · cases h
        · rename_i t1 rest1
          split at h
          · cases h
          · rename_i t1' low hpv1
            have e1 := parseVersion_ok_tok hpv1
            subst e1
            split at h
            · cases h
            · rename_i c rest2
              split at h
              · cases h
              · rename_i hc
                have ec : c = [44] := by simpa using hc
                subst ec
                split at h
                · cases h
                · rename_i t2 rest3
                  split at h
                  · cases h
                  · rename_i t2' high hpv2
                    have e2 := parseVersion_ok_tok hpv2
                    subst e2
                    split at h
                    · cases h
                    · rename_i r rest4
                      split at h
                      · cases h
                      · rename_i hr
                        have er : r = [93] := by simpa using hr
                        subst er
                        simp only [Prod.mk.injEq, Except.ok.injEq] at h
                        obtain ⟨h1, h2, h3⟩ := h
                        subst h3
                        subst h2
                        exact ⟨t1, t2, rfl, hpv1, hpv2, h1.symm⟩

example : parseVersionInterval [] [B "[", B "v1", B ",", B "v2.0", B "]", B "x"] none =
    ([B "[", B "v1.0.0", B ",", B "v2.0.0", B "]", B "x"], .ok ({ low := B "v1.0.0", high := B "v2.0.0" }, [B "x"])) := by
  decide +kernel

/-- a single version that is a fixpoint of `parseVersion` is a fixpoint of `parseVersionInterval` -/
theorem parseVersionInterval_single {p v : Bytes} {rest : List Bytes} {fix : Option Fixer}
    (h40 : v ≠ [40]) (h91 : v ≠ [91]) (hv : parseVersion p v fix = (v, .ok v)) :
    parseVersionInterval p (v :: rest) fix = (v :: rest, .ok ({ low := v, high := v }, rest)) := by
  have e40 : (v == [40]) = false := by simpa using h40
  have e91 : (v != [91]) = true := by simpa using h91
  simp only [parseVersionInterval, e40, e91, hv]
  simp

example : (B "v1.0.0") ≠ [40] ∧ (B "v1.0.0") ≠ [91] ∧
    parseVersion [] (B "v1.0.0") none = (B "v1.0.0", .ok (B "v1.0.0")) := by decide +kernel

/-- a bracketed pair of fixpoints of `parseVersion` is a fixpoint of `parseVersionInterval` -/
theorem parseVersionInterval_pair {p lo hi : Bytes} {rest : List Bytes} {fix : Option Fixer}
    (hlo : parseVersion p lo fix = (lo, .ok lo)) (hhi : parseVersion p hi fix = (hi, .ok hi)) :
    parseVersionInterval p ([91] :: lo :: [44] :: hi :: [93] :: rest) fix =
      ([91] :: lo :: [44] :: hi :: [93] :: rest, .ok ({ low := lo, high := hi }, rest)) := by
  have e1 : (([91] : Bytes) == [40]) = false := by decide
  have e2 : (([91] : Bytes) != [91]) = false := by decide
  have e3 : (([44] : Bytes) != [44]) = false := by decide
  have e4 : (([93] : Bytes) != [93]) = false := by decide
  simp only [parseVersionInterval, e1, e2, e3, e4, hlo, hhi]
  simp

example : parseVersion [] (B "v1.0.0") none = (B "v1.0.0", .ok (B "v1.0.0")) ∧
    parseVersion [] (B "v2.0.0") none = (B "v2.0.0", .ok (B "v2.0.0")) := by decide +kernel

/-- generic form: the output tokens parse to the same interval whenever the two bounds are fixpoints of
    `parseVersion` and the lower bound is not a lone `(` or `[` -/
theorem parseVersionInterval_fix_gen {p : Bytes} {toks toks' rest : List Bytes} {fix : Option Fixer} {vi : VersionInterval}
    (h : parseVersionInterval p toks fix = (toks', .ok (vi, rest)))
    (h40 : vi.low ≠ [40]) (h91 : vi.low ≠ [91])
    (hlo : parseVersion p vi.low fix = (vi.low, .ok vi.low))
    (hhi : parseVersion p vi.high fix = (vi.high, .ok vi.high)) :
    parseVersionInterval p toks' fix = (toks', .ok (vi, rest)) := by
  rcases parseVersionInterval_shape h with ⟨t0, _, _, _, _, hh, ht⟩ | ⟨t1, t2, _, _, _, ht⟩
  · rw [ht, parseVersionInterval_single h40 h91 hlo]
    cases vi
    simp only at hh
    subst hh
    rfl
  · rw [ht, parseVersionInterval_pair hlo hhi]

example : parseVersionInterval [] [B "v1"] (some dontFixRetract) = ([B "v1"], .ok ({ low := B "v1", high := B "v1" }, [])) ∧
    (B "v1") ≠ [40] ∧ (B "v1") ≠ [91] ∧
    parseVersion [] (B "v1") (some dontFixRetract) = (B "v1", .ok (B "v1")) := by decide +kernel

/-- the side condition of the property on a fixer and the interval it produced -/
def IntervalFixOK (fix : Option Fixer) (vi : VersionInterval) : Prop :=
  fix = none ∨ (∃ fx, fix = some fx ∧ (∀ p' v0 w, fx p' v0 = .ok w → fx p' w = .ok w) ∧
    Semver.isValid vi.low = true ∧ Semver.isValid vi.high = true)

/-- under the side condition both bounds are valid versions and fixpoints of `parseVersion` -/
theorem parseVersionInterval_bounds {p : Bytes} {toks toks' rest : List Bytes} {fix : Option Fixer} {vi : VersionInterval}
    (h : parseVersionInterval p toks fix = (toks', .ok (vi, rest))) (hfix : IntervalFixOK fix vi) :
    Semver.isValid vi.low = true ∧ Semver.isValid vi.high = true ∧
    parseVersion p vi.low fix = (vi.low, .ok vi.low) ∧ parseVersion p vi.high fix = (vi.high, .ok vi.high) := by
  have key : ∀ {tok v : Bytes}, parseVersion p tok fix = (v, .ok v) → (fix ≠ none → Semver.isValid v = true) →
      Semver.isValid v = true ∧ parseVersion p v fix = (v, .ok v) := by
    intro tok v hpv hval
    rcases hfix with rfl | ⟨fx, rfl, hidem, _, _⟩
    · obtain ⟨_, h2, h3⟩ := parseVersion_none_fix hpv
      exact ⟨h2, h3 p⟩
    · have hv := hval (by simp)
      exact ⟨hv, (parseVersion_some_fix hpv hv hidem).2⟩
  have hvlo : fix ≠ none → Semver.isValid vi.low = true := by
    intro hne
    rcases hfix with rfl | ⟨fx, _, _, h1, _⟩
    · exact absurd rfl hne
    · exact h1
  have hvhi : fix ≠ none → Semver.isValid vi.high = true := by
    intro hne
    rcases hfix with rfl | ⟨fx, _, _, _, h2⟩
    · exact absurd rfl hne
    · exact h2
  rcases parseVersionInterval_shape h with ⟨t0, _, _, _, hpv, hh, _⟩ | ⟨t1, t2, _, hpv1, hpv2, _⟩
  · obtain ⟨a, b⟩ := key hpv hvlo
    rw [hh]
    exact ⟨a, a, b, b⟩
  · obtain ⟨a, b⟩ := key hpv1 hvlo
    obtain ⟨c, d⟩ := key hpv2 hvhi
    exact ⟨a, c, b, d⟩

example : parseVersionInterval [] [B "v1"] none = ([B "v1.0.0"], .ok ({ low := B "v1.0.0", high := B "v1.0.0" }, [])) ∧
    IntervalFixOK none { low := B "v1.0.0", high := B "v1.0.0" } := ⟨by decide +kernel, Or.inl rfl⟩

/-- ★ the tokens `parseVersionInterval` writes back parse to the same interval and the same remaining
    arguments, and they have one of two shapes -/
theorem parseVersionInterval_fix {p : Bytes} {toks toks' rest : List Bytes} {fix : Option Fixer} {vi : VersionInterval}
    (h : parseVersionInterval p toks fix = (toks', .ok (vi, rest)))
    (hfix : fix = none ∨ (∃ fx, fix = some fx ∧ (∀ p' v0 w, fx p' v0 = .ok w → fx p' w = .ok w) ∧
      Semver.isValid vi.low = true ∧ Semver.isValid vi.high = true)) :
    parseVersionInterval p toks' fix = (toks', .ok (vi, rest)) ∧
    ((toks' = [vi.low] ++ rest ∧ vi.high = vi.low) ∨ toks' = [91] :: vi.low :: [44] :: vi.high :: [93] :: rest) ∧
    Semver.isValid vi.low = true ∧ Semver.isValid vi.high = true := by
  obtain ⟨vlo, vhi, flo, fhi⟩ := parseVersionInterval_bounds h hfix
  obtain ⟨d, t, hd, _⟩ := valid_head vlo
  refine ⟨parseVersionInterval_fix_gen h (by rw [hd]; simp) (by rw [hd]; simp) flo fhi, ?_, vlo, vhi⟩
  rcases parseVersionInterval_shape h with ⟨t0, _, _, _, _, hh, ht⟩ | ⟨t1, t2, _, _, _, ht⟩
  · exact Or.inl ⟨by simpa using ht, hh⟩
  · exact Or.inr ht

example : parseVersionInterval (B "m") [B "[", B "v1.0.0", B ",", B "v1.2.3", B "]"] (some dontFixRetract) =
      ([B "[", B "v1.0.0", B ",", B "v1.2.3", B "]"], .ok ({ low := B "v1.0.0", high := B "v1.2.3" }, [])) ∧
    ((some dontFixRetract : Option Fixer) = none ∨ (∃ fx, some dontFixRetract = some fx ∧
      (∀ p' v0 w, fx p' v0 = .ok w → fx p' w = .ok w) ∧
      Semver.isValid (B "v1.0.0") = true ∧ Semver.isValid (B "v1.2.3") = true)) :=
  ⟨by decide +kernel, Or.inr ⟨_, rfl, dontFixRetract_idem, by decide +kernel, by decide +kernel⟩⟩

/-- the fixer of `retract` lines in `File.add` ignores the path: the re-parse works with every path -/
theorem parseVersionInterval_fix_dontFix {p : Bytes} {toks toks' rest : List Bytes} {vi : VersionInterval}
    (h : parseVersionInterval p toks (some dontFixRetract) = (toks', .ok (vi, rest)))
    (hlo : Semver.isValid vi.low = true) (hhi : Semver.isValid vi.high = true) (p' : Bytes) :
    parseVersionInterval p' toks' (some dontFixRetract) = (toks', .ok (vi, rest)) := by
  have flo := (parseVersion_dontFix (p := p) (tok := vi.low) (tok' := vi.low) (v := vi.low)
    (by simp only [parseVersion, valid_parseString hlo, dontFixRetract]) ⟨_, valid_parseString hlo⟩).2 p'
  have fhi := (parseVersion_dontFix (p := p) (tok := vi.high) (tok' := vi.high) (v := vi.high)
    (by simp only [parseVersion, valid_parseString hhi, dontFixRetract]) ⟨_, valid_parseString hhi⟩).2 p'
  obtain ⟨d, t, hd, _⟩ := valid_head hlo
  rcases parseVersionInterval_shape h with ⟨t0, _, _, _, _, hh, ht⟩ | ⟨t1, t2, _, _, _, ht⟩
  · rw [ht, parseVersionInterval_single (by rw [hd]; simp) (by rw [hd]; simp) flo]
    cases vi
    simp only at hh
    subst hh
    rfl
  · rw [ht, parseVersionInterval_pair flo fhi]

example : parseVersionInterval [] [B "v1.0.0"] (some dontFixRetract) =
      ([B "v1.0.0"], .ok ({ low := B "v1.0.0", high := B "v1.0.0" }, [])) ∧
    Semver.isValid (B "v1.0.0") = true := by decide +kernel

end ModVerif.Proofs.ModfileFmtFix
