/-
  EditStartFix, part A — the universal start-state lemma for files parsed WITH a version fixer (C15 `typed_eq_tree` (b)).
  `File.add` in strict mode, for ANY `fix : Option Fixer` whose fixer never returns the empty version (`FixOK`): a call
  that reports no error appends exactly one typed entry and the tokens written back are its rendering (`Step`); then the
  statement loops.  The proofs are those of Proofs/EditMoreStart{A,B}.lean with `parseVersion_none` replaced by
  `parseVersion_fix`: `parseVersion` writes the RAW fixed version into the token and returns the same bytes, so the only
  thing a fixer can break is the replace rendering (`replaceToks` omits an empty version).
-/
import ModVerif.Proofs.EditMoreStartC
set_option linter.unusedSimpArgs false
namespace ModVerif.Modfile.Edit.SFix
open ModVerif ModVerif.Modfile ModVerif.Modfile.Edit ModVerif.Proofs.ModfileC20 ModVerif.Proofs.EditMore

/-- the hypothesis on a `VersionFixer`: it never returns the empty version -/
def FixerOK (fx : Fixer) : Prop := ∀ p v r, fx p v = .ok r → r ≠ []

/-- … for an optional fixer -/
def FixOK (fix : Option Fixer) : Prop := ∀ fx, fix = some fx → FixerOK fx

theorem fixOK_none : FixOK none := fun _ h => by cases h
theorem fixOK_some {fx : Fixer} (h : FixerOK fx) : FixOK (some fx) := fun _ e => by cases e; exact h

theorem parseVersion_fix {fix : Option Fixer} (hfx : FixOK fix) (p tok tok' v : Bytes)
    (h : parseVersion p tok fix = (tok', .ok v)) : tok' = v ∧ v ≠ [] := by
  cases fix with
  | none => exact parseVersion_none p tok tok' v h
  | some fx =>
    unfold parseVersion at h
    split at h
    · simp at h
    · simp only at h
      split at h
      · simp at h
      · simp at h
      · rename_i fixed hf
        simp only [Prod.mk.injEq, Except.ok.injEq] at h
        obtain ⟨rfl, rfl⟩ := h
        exact ⟨rfl, hfx fx rfl _ _ _ hf⟩

theorem parseReplace_spec {fix : Option Fixer} (hfx : FixOK fix) (lineId : Nat) (args args' : List Bytes) (r : Replace)
    (h : parseReplace lineId args fix = (args', .ok r)) : B "replace" :: args' = replaceToks r ∧ r.lineId = lineId := by
  rcases args with _ | ⟨a0, _ | ⟨a1, _ | ⟨a2, _ | ⟨a3, _ | ⟨a4, _ | ⟨a5, rr⟩⟩⟩⟩⟩⟩
  · simp [parseReplace] at h
  · simp [parseReplace] at h
  · by_cases h1 : a1 = B "=>" <;> simp [parseReplace, h1] at h
  · -- a0 => a2
    by_cases h1 : a1 = B "=>"
    · subst h1
      simp [parseReplace] at h
      split at h
      · simp at h
      · rename_i s a0' hs
        split at h
        · simp at h
        · split at h
          · simp at h
          · rename_i ns nsTok' hns
            have e0 := parseString_tok _ _ _ hs
            have e2 := parseString_tok _ _ _ hns
            subst e0 e2
            split at h
            · split at h <;> simp at h
            · split at h
              · simp at h
              · simp only [Prod.mk.injEq, Except.ok.injEq] at h
                obtain ⟨rfl, rfl⟩ := h
                exact ⟨by simp [replaceToks], rfl⟩
    · simp [parseReplace, h1] at h
  · by_cases h1 : a1 = B "=>"
    · -- a0 => a2 a3
      subst h1
      simp [parseReplace] at h
      split at h
      · simp at h
      · rename_i s a0' hs
        split at h
        · simp at h
        · split at h
          · simp at h
          · rename_i ns nsTok' hns
            have e0 := parseString_tok _ _ _ hs
            have e2 := parseString_tok _ _ _ hns
            subst e0 e2
            split at h
            · simp at h
            · rename_i nvTok' nv hnv
              obtain ⟨e3, hne⟩ := parseVersion_fix hfx _ _ _ _ hnv
              subst e3
              split at h
              · simp at h
              · simp only [Prod.mk.injEq, Except.ok.injEq] at h
                obtain ⟨rfl, rfl⟩ := h
                refine ⟨?_, rfl⟩
                have : nvTok'.isEmpty = false := by cases nvTok' with
                  | nil => exact absurd rfl hne
                  | cons _ _ => rfl
                simp [replaceToks, this]
    · -- a0 a1 => a3
      simp [parseReplace, h1] at h
      split at h
      · rename_i h2
        subst h2
        split at h
        · simp at h
        · rename_i s a0' hs
          have e0 := parseString_tok _ _ _ hs
          subst e0
          split at h
          · simp at h
          · rename_i pm hpm
            cases hv : parseVersion s a1 fix with
            | mk a1' res =>
              cases res with
              | error e => simp [hv] at h
              | ok v =>
                obtain ⟨e1, hne⟩ := parseVersion_fix hfx _ _ _ _ hv
                subst e1
                have hvne : a1'.isEmpty = false := by cases a1' with
                  | nil => exact absurd rfl hne
                  | cons _ _ => rfl
                simp only [hv] at h
                by_cases hcp : Module.checkPathMajor a1' pm = false
                · simp [hcp] at h
                · have hcp' : Module.checkPathMajor a1' pm = true := by simpa using hcp
                  simp [hcp'] at h
                  split at h
                  · simp at h
                  · rename_i ns nsTok' hns
                    have e2 := parseString_tok _ _ _ hns
                    subst e2
                    split at h
                    · split at h <;> simp at h
                    · split at h
                      · simp at h
                      · simp only [Prod.mk.injEq, Except.ok.injEq] at h
                        obtain ⟨rfl, rfl⟩ := h
                        exact ⟨by simp [replaceToks, hvne], rfl⟩
      · simp at h
  · by_cases h1 : a1 = B "=>"
    · subst h1
      simp [parseReplace] at h
    · -- a0 a1 => a3 a4
      simp [parseReplace, h1] at h
      split at h
      · rename_i h2
        subst h2
        split at h
        · simp at h
        · rename_i s a0' hs
          have e0 := parseString_tok _ _ _ hs
          subst e0
          split at h
          · simp at h
          · rename_i pm hpm
            cases hv : parseVersion s a1 fix with
            | mk a1' res =>
              cases res with
              | error e => simp [hv] at h
              | ok v =>
                obtain ⟨e1, hne⟩ := parseVersion_fix hfx _ _ _ _ hv
                subst e1
                have hvne : a1'.isEmpty = false := by cases a1' with
                  | nil => exact absurd rfl hne
                  | cons _ _ => rfl
                simp only [hv] at h
                by_cases hcp : Module.checkPathMajor a1' pm = false
                · simp [hcp] at h
                · have hcp' : Module.checkPathMajor a1' pm = true := by simpa using hcp
                  simp [hcp'] at h
                  split at h
                  · simp at h
                  · rename_i ns nsTok' hns
                    have e2 := parseString_tok _ _ _ hns
                    subst e2
                    split at h
                    · simp at h
                    · rename_i nvTok' nv hnv
                      obtain ⟨e3, hne3⟩ := parseVersion_fix hfx _ _ _ _ hnv
                      subst e3
                      have hnvne : nvTok'.isEmpty = false := by cases nvTok' with
                        | nil => exact absurd rfl hne3
                        | cons _ _ => rfl
                      split at h
                      · simp at h
                      · simp only [Prod.mk.injEq, Except.ok.injEq] at h
                        obtain ⟨rfl, rfl⟩ := h
                        exact ⟨by simp [replaceToks, hvne, hnvne], rfl⟩
      · simp at h
  · by_cases h1 : a1 = B "=>" <;> simp [parseReplace, h1] at h <;> omega

theorem addReqExc_step {fix : Option Fixer} (hfx : FixOK fix) {st st' : AddState} {line : Line} {verb : Bytes} {args args' : List Bytes}
    (hverb : verb = B "require" ∨ verb = B "exclude")
    (h : addReqExc st line verb args fix = (st', args')) (he : st'.errsRev = []) : Step st st' line (verb :: args') := by
  unfold addReqExc at h
  dsimp only at h
  split at h
  · rename_i a0 a1
    split at h
    · cases h; exact absurd he (err_ne _ _ _)
    · rename_i s a0' hs
      have := parseString_tok _ _ _ hs
      subst this
      split at h
      · cases h; exact absurd he (err_ne _ _ _)
      · rename_i a1' v hv
        obtain ⟨e1, _⟩ := parseVersion_fix hfx _ _ _ _ hv
        subst e1
        split at h
        · cases h; exact absurd he (err_ne _ _ _)
        · split at h
          · cases h; exact absurd he (err_ne _ _ _)
          · split at h
            · rename_i hr
              have hr' : verb = B "require" := by simpa using hr
              subst hr'
              cases h
              exact ⟨he, ⟨entRq ⟨⟨s, a1'⟩, isIndirect line, line.id⟩, 4, by omega, by simp [segs],
                rfl, ⟨rfl, (isIndirect_eq line).symm⟩⟩, by simp⟩
            · rename_i hr
              have hx : verb = B "exclude" := by
                rcases hverb with h1 | h1
                · rw [h1] at hr; simp at hr
                · exact h1
              subst hx
              cases h
              exact ⟨he, ⟨entX ⟨⟨s, a1'⟩, line.id⟩, 5, by omega, by simp [segs], rfl, rfl⟩, by simp⟩
  · cases h; exact absurd he (err_ne _ _ _)

theorem addReplaceV_step {fix : Option Fixer} (hfx : FixOK fix) {st st' : AddState} {line : Line} {args args' : List Bytes}
    (h : addReplaceV st line args fix = (st', args')) (he : st'.errsRev = []) : Step st st' line (B "replace" :: args') := by
  unfold addReplaceV at h
  dsimp only at h
  split at h
  · cases h; exact absurd he (err_ne _ _ _)
  · rename_i a' r hr
    obtain ⟨e1, e2⟩ := parseReplace_spec hfx _ _ _ _ hr
    cases h
    refine ⟨he, ⟨entRp r, 6, by omega, by simp [segs], e2, e1⟩, ?_⟩
    rw [e1]; simp [replaceToks]

/-- **`File.add` in strict mode with a fixer that never returns the empty version**: a call that reports no error adds exactly one typed entry, and the
    rewritten tokens of the line are the rendering `Edit.entries` expects of that entry -/
theorem add_step {fix : Option Fixer} (hfx : FixOK fix) {st st' : AddState} {block : Option Comments} {line : Line} {verb : Bytes} {args args' : List Bytes}
    (h : File.add st block line verb args fix true = (st', args')) (he : st'.errsRev = []) :
    Step st st' line (verb :: args') := by
  rw [add_eq] at h
  simp only [Bool.not_true, Bool.false_and, Bool.false_eq_true, if_false] at h
  split at h
  · rename_i hv; rw [eq_of_beq hv]; exact addGo_step h he
  split at h
  · rename_i hv; rw [eq_of_beq hv]; exact addToolchain_step h he
  split at h
  · rename_i hv; rw [eq_of_beq hv]; exact addModule_step h he
  split at h
  · rename_i hv; rw [eq_of_beq hv]; exact addGodebugV_step h he
  split at h
  · rename_i hv
    refine addReqExc_step hfx ?_ h he
    simpa using hv
  split at h
  · rename_i hv; rw [eq_of_beq hv]; exact addReplaceV_step hfx h he
  split at h
  · rename_i hv; rw [eq_of_beq hv]; exact addRetractV_step h he
  split at h
  · rename_i hv; rw [eq_of_beq hv]; exact addToolV_step h he
  · cases h; exact absurd he (err_ne _ _ _)

theorem addBlockLines_step {fix : Option Fixer} (hfx : FixOK fix) (block : Comments) (verb : Bytes) : ∀ (ls : List Line) (st st' : AddState) (ls' : List Line),
    addBlockLines block verb fix true st ls = (st', ls') → st'.errsRev = [] →
    st.errsRev = [] ∧ ∃ es, (entsAll st'.file).Perm (entsAll st.file ++ es) ∧ Paired es (ls'.map (blockV verb)) ∧
      ∀ l ∈ ls', l.token ≠ [] := by
  intro ls
  induction ls with
  | nil =>
    intro st st' ls' h he
    simp only [addBlockLines, Prod.mk.injEq] at h
    obtain ⟨rfl, rfl⟩ := h
    exact ⟨he, [], by simp, trivial, fun _ h => by cases h⟩
  | cons l rest ih =>
    intro st st' ls' h he
    unfold addBlockLines at h
    cases hA : File.add st (some block) l verb l.token fix true with
    | mk st1 toks =>
      cases hB : addBlockLines block verb fix true st1 rest with
      | mk st2 ls2 =>
        simp only [hA, hB, Prod.mk.injEq] at h
        obtain ⟨rfl, rfl⟩ := h
        rcases ih st1 st2 ls2 hB he with ⟨he1, es, hp, hpair, hne⟩
        have hstep := add_step hfx hA he1
        rcases hstep.perm with ⟨en, hp1, hid, hacc⟩
        refine ⟨hstep.errs, en :: es, ?_, ⟨⟨hid.symm, hacc⟩, hpair⟩, ?_⟩
        · refine hp.trans ?_
          have := hp1.append_right es
          simpa [List.append_assoc] using this
        · intro x hx
          rcases List.mem_cons.1 hx with rfl | hx
          · have := hstep.len
            intro e
            have e' : toks = [] := e
            subst e'
            simp at this
          · exact hne x hx

theorem addStmts_step {fix : Option Fixer} (hfx : FixOK fix) : ∀ (xs : List Expr) (st st' : AddState) (xs' : List Expr),
    addStmts fix true st xs = (st', xs') → st'.errsRev = [] →
    st.errsRev = [] ∧ ∃ es, (entsAll st'.file).Perm (entsAll st.file ++ es) ∧ Paired es (view xs') ∧
      ∀ b, Expr.lineBlock b ∈ xs' → ∃ v, b.token = [v] := by
  intro xs
  induction xs with
  | nil =>
    intro st st' xs' h he
    simp only [addStmts, Prod.mk.injEq] at h
    obtain ⟨rfl, rfl⟩ := h
    exact ⟨he, [], by simp, trivial, fun _ h => by cases h⟩
  | cons x rest ih =>
    intro st st' xs' h he
    unfold addStmts at h
    -- the tail, given the state after the head
    have tail : ∀ (st1 : AddState) (x' : Expr),
        (addStmts fix true st1 rest).1 = st' → xs' = x' :: (addStmts fix true st1 rest).2 →
        (st1.errsRev = [] → st.errsRev = [] ∧ ∃ es1, (entsAll st1.file).Perm (entsAll st.file ++ es1) ∧ Paired es1 (view [x']) ∧
          ∀ b, x' = Expr.lineBlock b → ∃ v, b.token = [v]) →
        st.errsRev = [] ∧ ∃ es, (entsAll st'.file).Perm (entsAll st.file ++ es) ∧ Paired es (view xs') ∧
          ∀ b, Expr.lineBlock b ∈ xs' → ∃ v, b.token = [v] := by
      intro st1 x' h1 h2 hhead
      cases hB : addStmts fix true st1 rest with
      | mk st2 xs2 =>
        rw [hB] at h1 h2
        simp only at h1 h2
        subst h1 h2
        rcases ih st1 st2 xs2 hB he with ⟨he1, es, hp, hpair, hblk⟩
        rcases hhead he1 with ⟨he0, es1, hp1, hpair1, hblk1⟩
        refine ⟨he0, es1 ++ es, ?_, ?_, ?_⟩
        · refine hp.trans ?_
          have := hp1.append_right es
          simpa [List.append_assoc] using this
        · rw [view_cons]; exact hpair1.append hpair
        · intro b hb
          rcases List.mem_cons.1 hb with hb | hb
          · exact hblk1 b hb.symm
          · exact hblk b hb
    cases x with
    | line l =>
      cases htok : l.token with
      | nil =>
        simp only [htok] at h
        refine tail st (.line l) (Prod.mk.inj h).1 (Prod.mk.inj h).2.symm ?_
        intro he1
        refine ⟨he1, [], by simp, ?_, fun b hb => by cases hb⟩
        have : view [Expr.line l] = [] := by simp [view, loc, locStmt, liveLoc, htok]
        rw [this]; trivial
      | cons verb args =>
        simp only [htok] at h
        cases hA : File.add st none l verb args fix true with
        | mk st1 args' =>
          simp only [hA] at h
          refine tail st1 (.line { l with token := verb :: args' }) (Prod.mk.inj h).1 (Prod.mk.inj h).2.symm ?_
          intro he1
          have hstep := add_step hfx hA he1
          rcases hstep.perm with ⟨en, hp1, hid, hacc⟩
          refine ⟨hstep.errs, [en], hp1, ?_, fun b hb => by cases hb⟩
          have : view [Expr.line { l with token := verb :: args' }] = [⟨l.id, verb :: args', l.comments.suffix⟩] := by
            simp [view, loc, locStmt, liveLoc, mkV]
          rw [this]
          exact ⟨⟨hid.symm, hacc⟩, trivial⟩
    | lineBlock b =>
      simp only at h
      have herr : ∀ (p : Position) (k : RuleErrKind), (addStmts fix true (st.err p k) rest).1 = st' → False := by
        intro p k h1
        cases hB : addStmts fix true (st.err p k) rest with
        | mk st2 xs2 =>
          rw [hB] at h1; simp only at h1; subst h1
          exact err_ne _ _ _ (ih _ _ _ hB he).1
      split at h
      · rename_i verb hbt
        split at h
        · cases hA : addBlockLines b.comments verb fix true st b.lines with
          | mk st1 ls1 =>
            simp only [hA] at h
            refine tail st1 (.lineBlock { b with lines := ls1 }) (Prod.mk.inj h).1 (Prod.mk.inj h).2.symm ?_
            intro he1
            rcases addBlockLines_step hfx b.comments verb b.lines st st1 ls1 hA he1 with ⟨he0, es, hp, hpair, hne⟩
            refine ⟨he0, es, hp, ?_, ?_⟩
            · have : view [Expr.lineBlock { b with lines := ls1 }] = ls1.map (blockV verb) := by
                rw [view_block]
                simp only [hbt]
                rw [List.filter_eq_self.2]
                · rfl
                · intro l hl
                  have := hne l hl
                  cases hlt : l.token with
                  | nil => exact absurd hlt this
                  | cons _ _ => rfl
              rw [this]; exact hpair
            · intro b' hb'
              simp only [Expr.lineBlock.injEq] at hb'
              subst hb'
              exact ⟨verb, hbt⟩
        · simp only [if_true] at h
          exact (herr _ _ (Prod.mk.inj h).1).elim
      · simp only [if_true] at h
        exact (herr _ _ (Prod.mk.inj h).1).elim
    | commentBlock c =>
      simp only at h
      refine tail st (.commentBlock c) (Prod.mk.inj h).1 (Prod.mk.inj h).2.symm ?_
      intro he1
      exact ⟨he1, [], by simp, by rw [view_nil_of_other _ (by simp) (by simp)]; trivial, fun b hb => by cases hb⟩
    | lparen c =>
      simp only at h
      refine tail st (.lparen c) (Prod.mk.inj h).1 (Prod.mk.inj h).2.symm ?_
      intro he1
      exact ⟨he1, [], by simp, by rw [view_nil_of_other _ (by simp) (by simp)]; trivial, fun b hb => by cases hb⟩
    | rparen c =>
      simp only at h
      refine tail st (.rparen c) (Prod.mk.inj h).1 (Prod.mk.inj h).2.symm ?_
      intro he1
      exact ⟨he1, [], by simp, by rw [view_nil_of_other _ (by simp) (by simp)]; trivial, fun b hb => by cases hb⟩

end ModVerif.Modfile.Edit.SFix
