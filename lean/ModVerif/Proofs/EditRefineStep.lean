/-
  EditRefine, part 7 — one step of a go.mod session: `applyMod` refines `EditSpec.step`, and which errors the
  operations can return.
-/
import ModVerif.Proofs.EditRefineBulk
set_option linter.unusedSimpArgs false
namespace ModVerif.Modfile.Edit
open ModVerif ModVerif.Modfile ModVerif.EditSpec

/-! ### the only errors that are RETURNED (not panics) come from the three validity checks -/

/-- the computation never fails with a returned error (only with a panic) -/
def NoRet {α : Type} (x : Except EditErr α) : Prop := ∀ err, x = .error err → err.isReturned = false

theorem NoRet.ok {α : Type} (a : α) : NoRet (Except.ok a : Except EditErr α) := fun _ h => by cases h
theorem NoRet.pure {α : Type} (a : α) : NoRet (pure a : Except EditErr α) := fun _ h => by cases h

theorem NoRet.bind {α β : Type} {x : Except EditErr α} {f : α → Except EditErr β} (hx : NoRet x) (hf : ∀ a, NoRet (f a)) :
    NoRet (x >>= f) := by
  cases x with
  | error err => intro err' h; cases h; exact hx err rfl
  | ok a => exact hf a

theorem NoRet.deref (i : Nat) : NoRet (deref i) := by
  intro err h
  unfold Edit.deref at h
  split at h <;> cases h
  rfl

theorem NoRet.firstRest {α : Type} (m : α → Bool) (id : α → Nat) (upd : α → α) (cleared : α) (l : List α) :
    ∀ need, NoRet (firstRest m id upd cleared l need) := by
  induction l with
  | nil => intro need; exact NoRet.ok _
  | cons x xs ih =>
    intro need
    unfold Edit.firstRest
    split
    · refine NoRet.bind (NoRet.deref _) (fun i => NoRet.bind (ih false) ?_)
      rintro ⟨rest, first, dead⟩
      dsimp only
      split <;> exact NoRet.pure _
    · refine NoRet.bind (ih need) ?_
      rintro ⟨rest, first, dead⟩
      exact NoRet.pure _

theorem NoRet.clearAll {α : Type} (m : α → Bool) (id : α → Nat) (cleared : α) (l : List α) :
    NoRet (clearAll m id cleared l) := by
  induction l with
  | nil => exact NoRet.ok _
  | cons x xs ih =>
    unfold Edit.clearAll
    split
    · refine NoRet.bind (NoRet.deref _) (fun i => NoRet.bind ih ?_)
      rintro ⟨rest, dead⟩
      exact NoRet.pure _
    · refine NoRet.bind ih ?_
      rintro ⟨rest, dead⟩
      exact NoRet.pure _

theorem NoRet.addGodebugCore (syn : FileSyntax) (gd : List Godebug) (next : Nat) (k v : Bytes) :
    NoRet (addGodebugCore syn gd next k v) := by
  unfold Edit.addGodebugCore
  refine NoRet.bind (NoRet.firstRest _ _ _ _ _ _) ?_
  rintro ⟨gd', first, dead⟩
  dsimp only
  split <;> exact NoRet.pure _

theorem NoRet.addGodebug (e : EFile) (k v : Bytes) : NoRet (addGodebug e k v) := by
  unfold Edit.addGodebug
  refine NoRet.bind (NoRet.addGodebugCore _ _ _ _ _) ?_
  rintro ⟨syn, gd, next⟩
  exact NoRet.pure _

theorem NoRet.dropGodebug (e : EFile) (k : Bytes) : NoRet (dropGodebug e k) := by
  unfold Edit.dropGodebug
  refine NoRet.bind (NoRet.clearAll _ _ _ _) ?_
  rintro ⟨gd, dead⟩
  exact NoRet.pure _

theorem NoRet.addRequire (e : EFile) (p v : Bytes) : NoRet (addRequire e p v) := by
  unfold Edit.addRequire
  refine NoRet.bind (NoRet.firstRest _ _ _ _ _ _) ?_
  rintro ⟨rq, first, dead⟩
  dsimp only
  split <;> exact NoRet.pure _

theorem NoRet.dropRequire (e : EFile) (p : Bytes) : NoRet (dropRequire e p) := by
  unfold Edit.dropRequire
  refine NoRet.bind (NoRet.clearAll _ _ _ _) ?_
  rintro ⟨gd, dead⟩
  exact NoRet.pure _

theorem NoRet.dropExclude (e : EFile) (p v : Bytes) : NoRet (dropExclude e p v) := by
  unfold Edit.dropExclude
  refine NoRet.bind (NoRet.clearAll _ _ _ _) ?_
  rintro ⟨gd, dead⟩
  exact NoRet.pure _

theorem NoRet.addReplaceCore (syn : FileSyntax) (rp : List Replace) (next : Nat) (a b c d : Bytes) :
    NoRet (addReplaceCore syn rp next a b c d) := by
  unfold Edit.addReplaceCore
  refine NoRet.bind (NoRet.firstRest _ _ _ _ _ _) ?_
  rintro ⟨rp', first, dead⟩
  dsimp only
  split <;> exact NoRet.pure _

theorem NoRet.addReplace (e : EFile) (a b c d : Bytes) : NoRet (addReplace e a b c d) := by
  unfold Edit.addReplace
  refine NoRet.bind (NoRet.addReplaceCore _ _ _ _ _ _ _) ?_
  rintro ⟨syn, rp, next⟩
  exact NoRet.pure _

theorem NoRet.dropReplaceCore (syn : FileSyntax) (rp : List Replace) (a b : Bytes) : NoRet (dropReplaceCore syn rp a b) := by
  unfold Edit.dropReplaceCore
  refine NoRet.bind (NoRet.clearAll _ _ _ _) ?_
  rintro ⟨rp', dead⟩
  exact NoRet.pure _

theorem NoRet.dropReplace (e : EFile) (a b : Bytes) : NoRet (dropReplace e a b) := by
  unfold Edit.dropReplace
  refine NoRet.bind (NoRet.dropReplaceCore _ _ _ _) ?_
  rintro ⟨syn, rp⟩
  exact NoRet.pure _

theorem NoRet.dropRetract (e : EFile) (vi : VersionInterval) : NoRet (dropRetract e vi) := by
  unfold Edit.dropRetract
  refine NoRet.bind (NoRet.clearAll _ _ _ _) ?_
  rintro ⟨gd, dead⟩
  exact NoRet.pure _

theorem NoRet.dropTool (e : EFile) (p : Bytes) : NoRet (dropTool e p) := by
  unfold Edit.dropTool
  refine NoRet.bind (NoRet.clearAll _ _ _ _) ?_
  rintro ⟨gd, dead⟩
  exact NoRet.pure _

theorem NoRet.needMap (strict : Bool) (ws : List Want) : ∀ acc, NoRet (needMap strict ws acc) := by
  induction ws with
  | nil => intro acc; exact NoRet.ok _
  | cons w ws ih =>
    intro acc
    unfold Edit.needMap
    split
    · split
      · intro err h; cases h; rfl
      · exact ih _
    · exact ih _

theorem NoRet.setRequireLoop (rs : List Require) : ∀ need syn, NoRet (setRequireLoop rs need syn) := by
  induction rs with
  | nil => intro need syn; exact NoRet.ok _
  | cons r rs ih =>
    intro need syn
    unfold Edit.setRequireLoop
    split
    · refine NoRet.bind (NoRet.deref _) (fun i => NoRet.bind (ih _ _) ?_)
      rintro ⟨a, b, c⟩
      exact NoRet.pure _
    · refine NoRet.bind (NoRet.deref _) (fun i => NoRet.bind (ih _ _) ?_)
      rintro ⟨a, b, c⟩
      exact NoRet.pure _

theorem NoRet.setRequire (e : EFile) (req : List Want) (perm : List Want → List Want) : NoRet (setRequire e req perm) := by
  unfold Edit.setRequire
  refine NoRet.bind (NoRet.needMap _ _ _) (fun need => NoRet.bind (NoRet.setRequireLoop _ _ _) ?_)
  rintro ⟨a, b, c⟩
  exact NoRet.pure _

theorem NoRet.sepLoop (ctx : SepCtx) (need : List Want) (rs : List Require) :
    ∀ have_ syn next, NoRet (sepLoop ctx need rs have_ syn next) := by
  induction rs with
  | nil => intro have_ syn next; exact NoRet.ok _
  | cons r rs ih =>
    intro have_ syn next
    unfold Edit.sepLoop
    split
    · split
      · refine NoRet.bind (NoRet.deref _) (fun i => NoRet.bind (ih _ _ _) ?_)
        rintro ⟨a, b, c, d⟩
        exact NoRet.pure _
      · refine NoRet.bind (NoRet.deref _) (fun i => ?_)
        dsimp only
        refine NoRet.bind (ih _ _ _) ?_
        rintro ⟨a, b, c, d⟩
        exact NoRet.pure _
    · refine NoRet.bind (NoRet.deref _) (fun i => NoRet.bind (ih _ _ _) ?_)
      rintro ⟨a, b, c, d⟩
      exact NoRet.pure _

theorem NoRet.sepTail (e : EFile) (req : List Want) (perm : List Want → List Want) (ctx : SepCtx) (stmts : List Expr) :
    NoRet (sepTail e req perm ctx stmts) := by
  unfold Edit.sepTail
  refine NoRet.bind (NoRet.needMap _ _ _) (fun need => NoRet.bind (NoRet.sepLoop _ _ _ _ _ _) ?_)
  rintro ⟨a, b, c, d⟩
  exact NoRet.pure _

theorem NoRet.setRequireSeparateIndirect (e : EFile) (req : List Want) (perm : List Want → List Want) :
    NoRet (setRequireSeparateIndirect e req perm) :=
  setRSI_ind e req perm NoRet (fun err h => by cases h; rfl) (fun ctx stmts => NoRet.sepTail e req perm ctx stmts)

/-! ### one step -/

/-- the arguments are valid in the sense of the property: keys non-empty, bulk lists with pairwise distinct
    non-empty paths -/
def ValidArgs : Op → Prop
  | .addGodebug k _ => k ≠ []
  | .addRequire p _ => p ≠ []
  | .addNewRequire p _ _ => p ≠ []
  | .setRequire w _ => GoodWant w
  | .setRequireSeparateIndirect w _ => GoodWant w
  | .addExclude p _ => p ≠ []
  | .addReplace op _ _ _ => op ≠ []
  | .addTool p => p ≠ []
  | .addUse d _ => d ≠ []
  | .addNewUse d _ => d ≠ []
  | .setUse w _ => (w.map Prod.fst).Pairwise (· ≠ ·) ∧ ∀ x ∈ w, x.1 ≠ []
  | _ => True

theorem GoodWant.toSpec {w : List Want} (h : GoodWant w) :
    (w.map fun x => (⟨x.path, x.vers, x.indirect⟩ : Req)).Pairwise (fun a b => a.path ≠ b.path) := by
  rw [List.pairwise_map]; exact h.1

theorem ValidArgs.toSpec {op : Op} (h : ValidArgs op) : ValidOp op.toSpec := by
  cases op <;> simp only [Op.toSpec, ValidOp] <;> first | trivial | exact GoodWant.toSpec h | exact h.1

theorem permOf_perm {α : Type} (rev : Bool) (l : List α) : (permOf rev l).Perm l := by
  unfold permOf; cases rev
  · exact List.Perm.refl _
  · exact List.reverse_perm l

theorem Rel.of_eq {f g : AbsFile} (h : f = g) : Rel f g := h ▸ Rel.refl f

/-- the bulk-setter case: both sides are `removeDups` of files that differ only in a `require` list which is, on
    both sides, a permutation of the requested list -/
theorem rel_bulk (f : AbsFile) (l : List Req) (want : List Req) (hl : l.Perm want)
    (hW : want.Pairwise (fun a b => a.path ≠ b.path)) :
    Rel (EditSpec.removeDups { f with require := l })
        (EditSpec.removeDups { f with require := setExact Req.path want f.require }) :=
  Rel.removeDups { Rel.refl f with require := KeyEq.of_perm hl (setExact_perm Req.path want f.require hW) hW }

/-- **One operation of the model refines one step of the specification** (typed lists; retraction rationales
    compared separately): success ⇒ `stepOk` and the new abstract file is the specified one; a returned error ⇒
    `stepOk` is false (and the file is unchanged by `runOps`). -/
theorem applyMod_refines (e : EFile) (op : Op) (hv : ValidArgs op) (hi : TInv e) :
    (∀ e', applyMod e op = some (.ok e') →
      stepOk mV (absLive e.f) op.toSpec = true ∧ Rel (absLive e'.f) (step mV (absLive e.f) op.toSpec) ∧ TInv e') ∧
    (∀ err, applyMod e op = some (.error err) → err.isReturned = true → stepOk mV (absLive e.f) op.toSpec = false) := by
  cases op with
  | addModule p =>
    simp only [applyMod, Option.some.injEq, Except.ok.injEq, Op.toSpec, EditSpec.step, EditSpec.stepOk]
    refine ⟨?_, (by intro err h; cases h)⟩
    rintro e' rfl
    rcases addModuleStmt_abs e p hi with ⟨h1, h2⟩
    exact ⟨trivial, Rel.of_eq h1, h2⟩
  | addGo v =>
    simp only [applyMod, Option.some.injEq, Op.toSpec, EditSpec.step, EditSpec.stepOk, mV]
    rcases addGoStmt_abs e v hi with ⟨h1, h2⟩
    refine ⟨?_, fun err h _ => h2 err h⟩
    intro e' he
    rcases h1 e' he with ⟨h3, h4, h5⟩
    exact ⟨h3, Rel.of_eq (by simp [h3, h4]), h5⟩
  | dropGo =>
    simp only [applyMod, Option.some.injEq, Except.ok.injEq, Op.toSpec, EditSpec.step, EditSpec.stepOk]
    refine ⟨?_, (by intro err h; cases h)⟩
    rintro e' rfl
    rcases dropGoStmt_abs e hi with ⟨h1, h2⟩
    exact ⟨trivial, Rel.of_eq h1, h2⟩
  | addToolchain n =>
    simp only [applyMod, Option.some.injEq, Op.toSpec, EditSpec.step, EditSpec.stepOk, mV]
    rcases addToolchainStmt_abs e n hi with ⟨h1, h2⟩
    refine ⟨?_, fun err h _ => h2 err h⟩
    intro e' he
    rcases h1 e' he with ⟨h3, h4, h5⟩
    exact ⟨h3, Rel.of_eq (by simp [h3, h4]), h5⟩
  | dropToolchain =>
    simp only [applyMod, Option.some.injEq, Except.ok.injEq, Op.toSpec, EditSpec.step, EditSpec.stepOk]
    refine ⟨?_, (by intro err h; cases h)⟩
    rintro e' rfl
    rcases dropToolchainStmt_abs e hi with ⟨h1, h2⟩
    exact ⟨trivial, Rel.of_eq h1, h2⟩
  | addGodebug k v =>
    simp only [applyMod, Option.some.injEq, Op.toSpec, EditSpec.step, EditSpec.stepOk]
    refine ⟨?_, fun err h hr => by rw [NoRet.addGodebug e k v err h] at hr; cases hr⟩
    intro e' he
    rcases addGodebug_abs e e' k v hv hi he with ⟨h1, h2⟩
    exact ⟨trivial, Rel.of_eq h1, h2⟩
  | dropGodebug k =>
    simp only [applyMod, Option.some.injEq, Op.toSpec, EditSpec.step, EditSpec.stepOk]
    refine ⟨?_, fun err h hr => by rw [NoRet.dropGodebug e k err h] at hr; cases hr⟩
    intro e' he
    rcases dropGodebug_abs e e' k hi he with ⟨h1, h2⟩
    exact ⟨trivial, Rel.of_eq h1, h2⟩
  | addRequire p v =>
    simp only [applyMod, Option.some.injEq, Op.toSpec, EditSpec.step, EditSpec.stepOk]
    refine ⟨?_, fun err h hr => by rw [NoRet.addRequire e p v err h] at hr; cases hr⟩
    intro e' he
    rcases addRequire_abs e e' p v hv hi he with ⟨h1, h2⟩
    exact ⟨trivial, Rel.of_eq h1, h2⟩
  | addNewRequire p v i =>
    simp only [applyMod, Option.some.injEq, Except.ok.injEq, Op.toSpec, EditSpec.step, EditSpec.stepOk]
    refine ⟨?_, (by intro err h; cases h)⟩
    rintro e' rfl
    rcases addNewRequire_abs e p v i hv hi with ⟨h1, h2, _⟩
    exact ⟨trivial, Rel.of_eq h1, h2⟩
  | dropRequire p =>
    simp only [applyMod, Option.some.injEq, Op.toSpec, EditSpec.step, EditSpec.stepOk]
    refine ⟨?_, fun err h hr => by rw [NoRet.dropRequire e p err h] at hr; cases hr⟩
    intro e' he
    rcases dropRequire_abs e e' p hi he with ⟨h1, h2⟩
    exact ⟨trivial, Rel.of_eq h1, h2⟩
  | setRequire w rev =>
    simp only [applyMod, Option.some.injEq, Op.toSpec, EditSpec.step, EditSpec.stepOk]
    refine ⟨?_, fun err h hr => by rw [NoRet.setRequire e w _ err h] at hr; cases hr⟩
    intro e' he
    rcases setRequire_abs e e' w (permOf rev) (permOf_perm rev) hv hi he with ⟨h1, h2, h3⟩
    refine ⟨trivial, ?_, h3⟩
    rw [h2]
    exact rel_bulk (absLive e.f) _ _ h1 (GoodWant.toSpec hv)
  | setRequireSeparateIndirect w rev =>
    simp only [applyMod, Option.some.injEq, Op.toSpec, EditSpec.step, EditSpec.stepOk]
    refine ⟨?_, fun err h hr => by rw [NoRet.setRequireSeparateIndirect e w _ err h] at hr; cases hr⟩
    intro e' he
    rcases setRequireSeparateIndirect_abs e e' w (permOf rev) (permOf_perm rev) hv hi he with ⟨h1, h2, h3⟩
    refine ⟨trivial, ?_, h3⟩
    rw [h2]
    exact rel_bulk (absLive e.f) _ _ h1 (GoodWant.toSpec hv)
  | addExclude p v =>
    simp only [applyMod, Option.some.injEq, Op.toSpec, EditSpec.step, EditSpec.stepOk, mV]
    rcases addExclude_abs e p v hv hi with ⟨h1, h2⟩
    refine ⟨?_, fun err h _ => h2 err h⟩
    intro e' he
    rcases h1 e' he with ⟨h3, h4, h5⟩
    exact ⟨h3, Rel.of_eq (by simp [h3, h4]), h5⟩
  | dropExclude p v =>
    simp only [applyMod, Option.some.injEq, Op.toSpec, EditSpec.step, EditSpec.stepOk]
    refine ⟨?_, fun err h hr => by rw [NoRet.dropExclude e p v err h] at hr; cases hr⟩
    intro e' he
    rcases dropExclude_abs e e' p v hi he with ⟨h1, h2⟩
    exact ⟨trivial, Rel.of_eq h1, h2⟩
  | addReplace a b c d =>
    simp only [applyMod, Option.some.injEq, Op.toSpec, EditSpec.step, EditSpec.stepOk]
    refine ⟨?_, fun err h hr => by rw [NoRet.addReplace e a b c d err h] at hr; cases hr⟩
    intro e' he
    rcases addReplace_abs e e' a b c d hv hi he with ⟨h1, h2⟩
    exact ⟨trivial, Rel.of_eq h1, h2⟩
  | dropReplace a b =>
    simp only [applyMod, Option.some.injEq, Op.toSpec, EditSpec.step, EditSpec.stepOk]
    refine ⟨?_, fun err h hr => by rw [NoRet.dropReplace e a b err h] at hr; cases hr⟩
    intro e' he
    rcases dropReplace_abs e e' a b hi he with ⟨h1, h2⟩
    exact ⟨trivial, Rel.of_eq h1, h2⟩
  | addRetract lo hi' why =>
    simp only [applyMod, Option.some.injEq, Op.toSpec, EditSpec.step, EditSpec.stepOk, mV]
    rcases addRetract_abs e { low := lo, high := hi' } why hi with ⟨h1, h2⟩
    refine ⟨?_, fun err h _ => h2 err h⟩
    intro e' he
    rcases h1 e' he with ⟨h3, h4, h5⟩
    refine ⟨h3, ?_, h5⟩
    simp only at h3
    simp only [h3, Bool.not_true, Bool.false_eq_true, if_false]
    exact h4
  | dropRetract lo hi' =>
    simp only [applyMod, Option.some.injEq, Op.toSpec, EditSpec.step, EditSpec.stepOk]
    refine ⟨?_, fun err h hr => by rw [NoRet.dropRetract e _ err h] at hr; cases hr⟩
    intro e' he
    rcases dropRetract_abs e e' lo hi' hi he with ⟨h1, h2⟩
    exact ⟨trivial, Rel.of_eq h1, h2⟩
  | addTool p =>
    simp only [applyMod, Option.some.injEq, Except.ok.injEq, Op.toSpec, EditSpec.step, EditSpec.stepOk]
    refine ⟨?_, (by intro err h; cases h)⟩
    rintro e' rfl
    rcases addTool_abs e p hv hi with ⟨h1, h2⟩
    exact ⟨trivial, Rel.of_eq h1, h2⟩
  | dropTool p =>
    simp only [applyMod, Option.some.injEq, Op.toSpec, EditSpec.step, EditSpec.stepOk]
    refine ⟨?_, fun err h hr => by rw [NoRet.dropTool e p err h] at hr; cases hr⟩
    intro e' he
    rcases dropTool_abs e e' p hi he with ⟨h1, h2⟩
    exact ⟨trivial, Rel.of_eq h1, h2⟩
  | sortBlocks =>
    simp only [applyMod, Option.some.injEq, Except.ok.injEq, Op.toSpec, EditSpec.step, EditSpec.stepOk]
    refine ⟨?_, (by intro err h; cases h)⟩
    rintro e' rfl
    rcases sortBlocks_abs e hi with ⟨h1, h2⟩
    exact ⟨trivial, Rel.of_eq h1, h2⟩
  | cleanup =>
    simp only [applyMod, Option.some.injEq, Except.ok.injEq, Op.toSpec, EditSpec.step, EditSpec.stepOk]
    refine ⟨?_, (by intro err h; cases h)⟩
    rintro e' rfl
    rcases cleanup_abs e hi with ⟨h1, h2⟩
    exact ⟨trivial, Rel.of_eq h1, h2⟩
  | addUse d m => exact ⟨fun e' h => by simp [applyMod] at h, fun err h => by simp [applyMod] at h⟩
  | addNewUse d m => exact ⟨fun e' h => by simp [applyMod] at h, fun err h => by simp [applyMod] at h⟩
  | dropUse d => exact ⟨fun e' h => by simp [applyMod] at h, fun err h => by simp [applyMod] at h⟩
  | setUse w rev => exact ⟨fun e' h => by simp [applyMod] at h, fun err h => by simp [applyMod] at h⟩

end ModVerif.Modfile.Edit
