/-
  Helper lemmas for Tie/FnRuleLeaf.lean, part A: the leaf functions of the regenerated directive layer
  (Generated/FnRule.lean) that read one line / one token: MustQuote, AutoQuote, IsDirectoryPath (transported from the ties
  of Generated/FnModfile.lean: the definitions are the same text in another namespace), parseString, parseVersion,
  modulePathMajor, isIndirect, parseDirectiveComment, parseDeprecation.

  Parameters of the regenerated code are instantiated as the driver Drv/GenRule.lean runs them: `isPrintI`, `Quote.quote`,
  `unquoteI`, `deprecatedSubI`, the fixer `fixG fx` for a model fixer `fx`.
-/
import ModVerif.Proofs.TieFnRuleRep
import ModVerif.Tie.FnModfile
import ModVerif.Tie.FnModule
set_option linter.unusedSimpArgs false
set_option linter.unusedVariables false
namespace ModVerif.Tie.FnRuleLeafA
open ModVerif ModVerif.GoRt ModVerif.Generated ModVerif.Tie.FnRuleRep
open ModVerif.Drv.GenModfile (isPrintI unquoteI)
open ModVerif.Drv.GenRule (fixG deprecatedSubI)
open ModVerif.TieFnModfile (parseStringErr)

/-! ### transport from Generated/FnModfile.lean -/

theorem MustQuote_loop1_eq (isPrint : Int → Bool) (s : Bytes) : ∀ (fuel : Nat) (i : Int),
    Rule.MustQuote_loop1 isPrint s fuel i = Modfile.MustQuote_loop1 isPrint s fuel i
  | 0, _ => rfl
  | fuel + 1, i => by
    unfold Rule.MustQuote_loop1 Modfile.MustQuote_loop1
    simp only [MustQuote_loop1_eq isPrint s fuel]

theorem MustQuote_eq (isPrint : Int → Bool) (fuel : Nat) (s : Bytes) :
    Rule.MustQuote isPrint fuel s = Modfile.MustQuote isPrint fuel s := by
  unfold Rule.MustQuote Modfile.MustQuote
  simp only [MustQuote_loop1_eq]
  rfl

theorem AutoQuote_eq (isPrint : Int → Bool) (quote : Bytes → Bytes) (fuel : Nat) (s : Bytes) :
    Rule.AutoQuote isPrint quote fuel s = Modfile.AutoQuote isPrint quote fuel s := by
  unfold Rule.AutoQuote Modfile.AutoQuote
  simp only [MustQuote_eq]

theorem IsDirectoryPath_eq (ns : Bytes) : Rule.IsDirectoryPath ns = Modfile.IsDirectoryPath ns := rfl

theorem AutoQuote_spec (s : Bytes) (fuel : Nat) (hf : s.length + 1 ≤ fuel) :
    Rule.AutoQuote isPrintI Quote.quote fuel s = .ok (ModVerif.Modfile.autoQuote s) := by
  rw [AutoQuote_eq]; exact Tie.FnModfile.AutoQuote_tie s fuel hf

/-! ### parseString -/

/-- what parseString returns besides the heap: value, error, rewritten token -/
def psOut (s : Bytes) : (Bytes × Option String) × Bytes :=
  match ModVerif.Modfile.parseString s with
  | some (t, tok) => ((t, none), tok)
  | none => (([], parseStringErr s), s)

theorem parseString_spec (s : Bytes) (fuel : Nat) (hf : 4 * s.length + 1 ≤ fuel) (w : Rule.Heap) :
    Rule.parseString isPrintI Quote.quote unquoteI fuel s w = .ok (psOut s, w) := by
  unfold Rule.parseString psOut ModVerif.Modfile.parseString parseStringErr
  simp only [hasPrefix, GoRt.containsAny]
  by_cases hp : isPrefixOfB [34] s = true
  · cases hu : Quote.unquote s with
    | none => simp only [hp, if_true, unquoteI, hu]; rfl
    | some t =>
      have := TieFnModfile.unquote_length hu
      simp only [hp, if_true, unquoteI, hu, Option.isNone_none, Bool.not_true, Bool.false_eq_true, if_false]
      rw [AutoQuote_spec t fuel (by omega)]
      rfl
  · by_cases hc : GoStrings.containsAny s [34, 39, 96] = true
    · simp only [hp, hc, Bool.false_eq_true, if_false, if_true]; rfl
    · simp only [hp, hc, Bool.false_eq_true, if_false]
      rw [AutoQuote_spec s fuel (by omega)]
      rfl

theorem psOut_some {s t tok : Bytes} (h : ModVerif.Modfile.parseString s = some (t, tok)) : psOut s = ((t, none), tok) := by
  simp [psOut, h]
theorem psOut_none {s : Bytes} (h : ModVerif.Modfile.parseString s = none) : psOut s = (([], parseStringErr s), s) := by
  simp [psOut, h]

theorem parseStringErr_ne_none (s : Bytes) : (parseStringErr s).isNone = false := rfl

/-- the value of a successful parseString is at most four times as long as the token -/
theorem parseString_length {s t tok : Bytes} (h : ModVerif.Modfile.parseString s = some (t, tok)) : t.length ≤ 4 * s.length := by
  unfold ModVerif.Modfile.parseString at h
  split at h
  · split at h
    · cases h
    · next t' hu =>
      simp only [Option.some.injEq, Prod.mk.injEq] at h
      have := TieFnModfile.unquote_length hu
      rw [← h.1]; exact this
  · split at h
    · cases h
    · simp only [Option.some.injEq, Prod.mk.injEq] at h
      rw [← h.1]; omega

/-! ### parseVersion -/

/-- the error value of the regenerated parseVersion for each of the model's four error kinds (with the driver's fixer
    strings) -/
def parseVersionErr (s : Bytes) : ModVerif.Modfile.RuleErrKind → Option String
  | .versionString => wrapErr "Error" (wrapErr "InvalidVersionError" (parseStringErr s))
  | .fixModuleError => some "Error|fix-mod"
  | .fixError => some "fix-plain"
  | .versionNotCanonical => some "Error|InvalidVersionError|must be of the form v1.2.3"
  | _ => none

/-- value, error, rewritten token -/
def pvOut (path s : Bytes) (fx : Option ModVerif.Modfile.Fixer) : (Bytes × Option String) × Bytes :=
  match ModVerif.Modfile.parseVersion path s fx with
  | (tok, .ok v) => ((v, none), tok)
  | (tok, .error k) => (([], parseVersionErr s k), tok)

theorem parseVersionErr_versionString (s : Bytes) : errAbs (parseVersionErr s .versionString) .versionString := by
  show errAbs (wrapErr "Error" (wrapErr "InvalidVersionError" (parseStringErr s))) _
  unfold parseStringErr
  by_cases h : isPrefixOfB [34] s = true
  · simp only [h, if_true]
    exact ⟨"Error|InvalidVersionError|invalid syntax", by decide +kernel, by simp [errStrs]⟩
  · simp only [h, Bool.false_eq_true, if_false]
    exact ⟨"Error|InvalidVersionError|unquoted string cannot contain quote", by decide +kernel, by simp [errStrs]⟩

/-- **the error of the regenerated parseVersion is an error of the model's kind** -/
theorem parseVersion_errAbs {path s : Bytes} {fx : Option ModVerif.Modfile.Fixer} {tok : Bytes} {k : ModVerif.Modfile.RuleErrKind}
    (h : ModVerif.Modfile.parseVersion path s fx = (tok, .error k)) : errAbs (parseVersionErr s k) k := by
  have hk : k = .versionString ∨ k = .fixModuleError ∨ k = .fixError ∨ k = .versionNotCanonical := by
    unfold ModVerif.Modfile.parseVersion at h
    split at h
    · simp only [Prod.mk.injEq, Except.error.injEq] at h; exact Or.inl h.2.symm
    · split at h
      · split at h
        · simp only [Prod.mk.injEq, Except.error.injEq] at h; exact Or.inr (Or.inl h.2.symm)
        · simp only [Prod.mk.injEq, Except.error.injEq] at h; exact Or.inr (Or.inr (Or.inl h.2.symm))
        · simp only [Prod.mk.injEq] at h; cases h.2
      · simp only at h
        split at h
        · simp only [Prod.mk.injEq, Except.error.injEq] at h; exact Or.inr (Or.inr (Or.inr h.2.symm))
        · simp only [Prod.mk.injEq] at h; cases h.2
  rcases hk with rfl | rfl | rfl | rfl
  · exact parseVersionErr_versionString s
  · exact ⟨_, rfl, by simp [errStrs]⟩
  · exact ⟨_, rfl, by simp [errStrs]⟩
  · exact ⟨_, rfl, by simp [errStrs]⟩

theorem errIs_mod : errIs "ModuleError" (some "ModuleError|fix-mod") = true := by decide +kernel
theorem errIs_plain : errIs "ModuleError" (some "fix-plain") = false := by decide +kernel
theorem errInner_mod : wrapErr "Error" (errInner "ModuleError" (some "ModuleError|fix-mod")) = some "Error|fix-mod" := by decide +kernel
theorem wrapErr_canon : wrapErr "Error" (wrapErr "InvalidVersionError" (some "must be of the form v1.2.3")) =
    some "Error|InvalidVersionError|must be of the form v1.2.3" := by decide +kernel

theorem parseVersion_spec (verb path s : Bytes) (fx : Option ModVerif.Modfile.Fixer) (fuel : Nat) (hf : 8 * s.length + 1 ≤ fuel)
    (w : Rule.Heap) :
    Rule.parseVersion isPrintI Quote.quote unquoteI fuel verb path s (fixG fx) w = .ok (pvOut path s fx, w) := by
  unfold Rule.parseVersion pvOut ModVerif.Modfile.parseVersion
  rw [parseString_spec s fuel (by omega) w]
  simp only [bind, Except.bind]
  cases hps : ModVerif.Modfile.parseString s with
  | none =>
    simp only [psOut_none hps, parseStringErr_ne_none, Bool.not_false, if_true, parseVersionErr]
    rfl
  | some p =>
    obtain ⟨t, tok1⟩ := p
    have hlen := parseString_length hps
    simp only [psOut_some hps, Option.isNone_none, Bool.not_true, Bool.false_eq_true, if_false]
    cases fx with
    | none =>
      simp only [fixG, Option.map_none, Option.isSome_none, Bool.false_eq_true, if_false]
      rw [Tie.FnModule.CanonicalVersion_tie t fuel (by omega)]
      simp only [bind, Except.bind]
      by_cases hcv : Semver.canonicalVersion t = []
      · simp only [hcv, decide_true, if_true, List.isEmpty_nil, parseVersionErr, wrapErr_canon]
        rfl
      · have : (Semver.canonicalVersion t).isEmpty = false := by
          cases hc : Semver.canonicalVersion t with
          | nil => exact absurd hc hcv
          | cons a b => rfl
        simp only [hcv, decide_false, Bool.false_eq_true, if_false, this]
        rfl
    | some g =>
      simp only [fixG, Option.map_some, Option.isSome_some, if_true, pure, Except.pure]
      cases hg : g path t with
      | ok fixed =>
        simp only [Option.isNone_none, Bool.not_true, Bool.false_eq_true, if_false]
      | error e =>
        cases e with
        | plain =>
          simp only [Option.isNone_some, Bool.not_false, if_true, errIs_plain, Bool.false_eq_true, if_false, parseVersionErr]
        | moduleError =>
          simp only [Option.isNone_some, Bool.not_false, if_true, errIs_mod, errInner_mod, parseVersionErr]

/-- the token is rewritten exactly as the model rewrites it; the value of a success is the new token -/
theorem pvOut_ok {path s : Bytes} {fx : Option ModVerif.Modfile.Fixer} {tok v : Bytes}
    (h : ModVerif.Modfile.parseVersion path s fx = (tok, .ok v)) : pvOut path s fx = ((v, none), tok) := by
  simp [pvOut, h]
theorem pvOut_error {path s : Bytes} {fx : Option ModVerif.Modfile.Fixer} {tok : Bytes} {k : ModVerif.Modfile.RuleErrKind}
    (h : ModVerif.Modfile.parseVersion path s fx = (tok, .error k)) : pvOut path s fx = (([], parseVersionErr s k), tok) := by
  simp [pvOut, h]

theorem parseVersionErr_isSome {path s : Bytes} {fx : Option ModVerif.Modfile.Fixer} {tok : Bytes} {k : ModVerif.Modfile.RuleErrKind}
    (h : ModVerif.Modfile.parseVersion path s fx = (tok, .error k)) : (parseVersionErr s k).isNone = false := by
  obtain ⟨x, hx, _⟩ := parseVersion_errAbs h
  rw [hx]; rfl

/-! ### modulePathMajor -/

theorem modulePathMajor_spec (path : Bytes) (fuel : Nat) (hf : path.length + 1 ≤ fuel) :
    Rule.modulePathMajor fuel path = .ok (match ModVerif.Modfile.modulePathMajor path with
      | some major => (major, none)
      | none => ([], some "invalid module path")) := by
  unfold Rule.modulePathMajor ModVerif.Modfile.modulePathMajor
  rw [Tie.FnModule.SplitPathVersion_tie path fuel hf]
  simp only [bind, Except.bind]
  obtain ⟨a, major, ok⟩ := Module.splitPathVersion path
  cases ok <;> rfl

/-! ### isIndirect -/

theorem B_indirect : B "indirect" = [105, 110, 100, 105, 114, 101, 99, 116] := by decide +kernel
theorem B_indirect2 : B "indirect;" = [105, 110, 100, 105, 114, 101, 99, 116, 59] := by decide +kernel
theorem idxL_zero_cons {α : Type} (a : α) (t : List α) : idxL (a :: t) 0 = .ok a := rfl
theorem idxL_one_cons {α : Type} (a b : α) (t : List α) : idxL (a :: b :: t) 1 = .ok b := rfl

def indOf : List Bytes → Bool
  | [f0] => f0 == B "indirect"
  | f0 :: _ :: _ => f0 == B "indirect;"
  | [] => false

theorem isIndirect_spec {w : Rule.Heap} {p : Int} {l : ModVerif.Modfile.Line} (hg : heapGet w.lines p = .ok (lineG l)) :
    Rule.isIndirect p w = .ok (ModVerif.Modfile.isIndirect l, w) := by
  obtain ⟨id, ⟨bef, suf, aft⟩, st, tok, ib, en⟩ := l
  cases suf with
  | nil =>
    unfold Rule.isIndirect ModVerif.Modfile.isIndirect
    simp [hg, bind, Except.bind, lineG_Comments, comsG_Suffix, len_eq]
  | cons c rest =>
    have h0 : ¬ (len (comG c :: List.map comG rest) = 0) := by simp [len_eq]; omega
    cases hfe : GoRt.fields (GoRt.trimPrefix c.token [47, 47]) with
    | nil =>
      have hfe' : GoStrings.fields (GoStrings.trimPrefix c.token [47, 47]) = [] := hfe
      unfold Rule.isIndirect ModVerif.Modfile.isIndirect
      simp only [hg, bind, Except.bind, lineG_Comments, comsG_Suffix, List.map_cons, h0, decide_false, Bool.false_eq_true, if_false,
        idxL_zero_cons, comG_Token, hfe, hfe']
      simp [len_eq, pure, Except.pure]
    | cons a t =>
      cases t with
      | nil =>
        have hfe' : GoStrings.fields (GoStrings.trimPrefix c.token [47, 47]) = [a] := hfe
        unfold Rule.isIndirect ModVerif.Modfile.isIndirect
        simp only [hg, bind, Except.bind, lineG_Comments, comsG_Suffix, List.map_cons, h0, decide_false, Bool.false_eq_true, if_false,
          idxL_zero_cons, comG_Token, hfe, hfe']
        simp [len_eq, pure, Except.pure, idxL_zero_cons, B_indirect]
      | cons b t =>
        have hfe' : GoStrings.fields (GoStrings.trimPrefix c.token [47, 47]) = a :: b :: t := hfe
        have h1 : ¬ (len (a :: b :: t) = 1) := by simp [len_eq]; omega
        have h2 : len (a :: b :: t) > 1 := by simp [len_eq]; omega
        unfold Rule.isIndirect ModVerif.Modfile.isIndirect
        simp only [hg, bind, Except.bind, lineG_Comments, comsG_Suffix, List.map_cons, h0, decide_false, Bool.false_eq_true, if_false,
          idxL_zero_cons, comG_Token, hfe, hfe', h1, h2, decide_true, if_true, pure, Except.pure, B_indirect2]
        congr 2
        rw [Bool.eq_iff_iff]; simp

end ModVerif.Tie.FnRuleLeafA
