/-
  Helper lemmas for Tie/FnRuleLeaf.lean, part A: the leaf functions of the regenerated directive layer
  (Generated/FnRule.lean) that read one line / one token: MustQuote, AutoQuote, IsDirectoryPath (transported from the ties
  of Generated/FnModfile.lean: the definitions are the same text in another namespace), parseString, parseVersion,
  modulePathMajor, isIndirect, parseDirectiveComment, parseDeprecation.

  Parameters of the regenerated code are instantiated as the driver Drv/GenRule.lean runs them: `isPrintI`, `Quote.quote`,
  `unquoteI`, `deprecatedSubI`, the fixer `fixG fx` for a model fixer `fx`.
-/
import ModVerif.Proofs.TieFnRuleRep
import ModVerif.Tie.FnModfile
import ModVerif.Tie.FnModule
set_option linter.unusedSimpArgs false
set_option linter.unusedVariables false
namespace ModVerif.Tie.FnRuleLeafA
open ModVerif ModVerif.GoRt ModVerif.Generated ModVerif.Tie.FnRuleRep
open ModVerif.Drv.GenModfile (isPrintI unquoteI)
open ModVerif.Drv.GenRule (fixG deprecatedSubI)
open ModVerif.TieFnModfile (parseStringErr)

/-! ### transport from Generated/FnModfile.lean -/

theorem MustQuote_loop1_eq (isPrint : Int → Bool) (s : Bytes) : ∀ (fuel : Nat) (i : Int),
    Rule.MustQuote_loop1 isPrint s fuel i = Modfile.MustQuote_loop1 isPrint s fuel i
  | 0, _ => rfl
  | fuel + 1, i => by
    unfold Rule.MustQuote_loop1 Modfile.MustQuote_loop1
    simp only [MustQuote_loop1_eq isPrint s fuel]

theorem MustQuote_eq (isPrint : Int → Bool) (fuel : Nat) (s : Bytes) :
    Rule.MustQuote isPrint fuel s = Modfile.MustQuote isPrint fuel s := by
  unfold Rule.MustQuote Modfile.MustQuote
  simp only [MustQuote_loop1_eq]
  rfl

theorem AutoQuote_eq (isPrint : Int → Bool) (quote : Bytes → Bytes) (fuel : Nat) (s : Bytes) :
    Rule.AutoQuote isPrint quote fuel s = Modfile.AutoQuote isPrint quote fuel s := by
  unfold Rule.AutoQuote Modfile.AutoQuote
  simp only [MustQuote_eq]

theorem IsDirectoryPath_eq (ns : Bytes) : Rule.IsDirectoryPath ns = Modfile.IsDirectoryPath ns := rfl

theorem AutoQuote_spec (s : Bytes) (fuel : Nat) (hf : s.length + 1 ≤ fuel) :
    Rule.AutoQuote isPrintI Quote.quote fuel s = .ok (ModVerif.Modfile.autoQuote s) := by
  rw [AutoQuote_eq]; exact Tie.FnModfile.AutoQuote_tie s fuel hf

/-! ### parseString -/

/-- what parseString returns besides the heap: value, error, rewritten token -/
def psOut (s : Bytes) : (Bytes × Option String) × Bytes :=
  match ModVerif.Modfile.parseString s with
  | some (t, tok) => ((t, none), tok)
  | none => (([], parseStringErr s), s)

theorem parseString_spec (s : Bytes) (fuel : Nat) (hf : 4 * s.length + 1 ≤ fuel) (w : Rule.Heap) :
    Rule.parseString isPrintI Quote.quote unquoteI fuel s w = .ok (psOut s, w) := by
  unfold Rule.parseString psOut ModVerif.Modfile.parseString parseStringErr
  simp only [hasPrefix, GoRt.containsAny]
  by_cases hp : isPrefixOfB [34] s = true
  · cases hu : Quote.unquote s with
    | none => simp only [hp, if_true, unquoteI, hu]; rfl
    | some t =>
      have := TieFnModfile.unquote_length hu
      simp only [hp, if_true, unquoteI, hu, Option.isNone_none, Bool.not_true, Bool.false_eq_true, if_false]
      rw [AutoQuote_spec t fuel (by omega)]
      rfl
  · by_cases hc : GoStrings.containsAny s [34, 39, 96] = true
    · simp only [hp, hc, Bool.false_eq_true, if_false, if_true]; rfl
    · simp only [hp, hc, Bool.false_eq_true, if_false]
      rw [AutoQuote_spec s fuel (by omega)]
      rfl

theorem psOut_some {s t tok : Bytes} (h : ModVerif.Modfile.parseString s = some (t, tok)) : psOut s = ((t, none), tok) := by
  simp [psOut, h]
theorem psOut_none {s : Bytes} (h : ModVerif.Modfile.parseString s = none) : psOut s = (([], parseStringErr s), s) := by
  simp [psOut, h]

theorem parseStringErr_ne_none (s : Bytes) : (parseStringErr s).isNone = false := rfl

/-- the value of a successful parseString is at most four times as long as the token -/
theorem parseString_length {s t tok : Bytes} (h : ModVerif.Modfile.parseString s = some (t, tok)) : t.length ≤ 4 * s.length := by
  unfold ModVerif.Modfile.parseString at h
  split at h
  · split at h
    · cases h
    · next t' hu =>
      simp only [Option.some.injEq, Prod.mk.injEq] at h
      have := TieFnModfile.unquote_length hu
      rw [← h.1]; exact this
  · split at h
    · cases h
    · simp only [Option.some.injEq, Prod.mk.injEq] at h
      rw [← h.1]; omega

/-! ### parseVersion -/

/-- the error value of the regenerated parseVersion for each of the model's four error kinds (with the driver's fixer
    strings) -/
def parseVersionErr (s : Bytes) : ModVerif.Modfile.RuleErrKind → Option String
  | .versionString => wrapErr "Error" (wrapErr "InvalidVersionError" (parseStringErr s))
  | .fixModuleError => some "Error|fix-mod"
  | .fixError => some "fix-plain"
  | .versionNotCanonical => some "Error|InvalidVersionError|must be of the form v1.2.3"
  | _ => none

/-- value, error, rewritten token -/
def pvOut (path s : Bytes) (fx : Option ModVerif.Modfile.Fixer) : (Bytes × Option String) × Bytes :=
  match ModVerif.Modfile.parseVersion path s fx with
  | (tok, .ok v) => ((v, none), tok)
  | (tok, .error k) => (([], parseVersionErr s k), tok)

theorem parseVersionErr_versionString (s : Bytes) : errAbs (parseVersionErr s .versionString) .versionString := by
  show errAbs (wrapErr "Error" (wrapErr "InvalidVersionError" (parseStringErr s))) _
  unfold parseStringErr
  by_cases h : isPrefixOfB [34] s = true
  · simp only [h, if_true]
    exact ⟨"Error|InvalidVersionError|invalid syntax", by decide +kernel, by simp [errStrs]⟩
  · simp only [h, Bool.false_eq_true, if_false]
    exact ⟨"Error|InvalidVersionError|unquoted string cannot contain quote", by decide +kernel, by simp [errStrs]⟩

/-- **the error of the regenerated parseVersion is an error of the model's kind** -/
theorem parseVersion_errAbs {path s : Bytes} {fx : Option ModVerif.Modfile.Fixer} {tok : Bytes} {k : ModVerif.Modfile.RuleErrKind}
    (h : ModVerif.Modfile.parseVersion path s fx = (tok, .error k)) : errAbs (parseVersionErr s k) k := by
  have hk : k = .versionString ∨ k = .fixModuleError ∨ k = .fixError ∨ k = .versionNotCanonical := by
    unfold ModVerif.Modfile.parseVersion at h
    split at h
    · simp only [Prod.mk.injEq, Except.error.injEq] at h; exact Or.inl h.2.symm
    · split at h
      · split at h
        · simp only [Prod.mk.injEq, Except.error.injEq] at h; exact Or.inr (Or.inl h.2.symm)
        · simp only [Prod.mk.injEq, Except.error.injEq] at h; exact Or.inr (Or.inr (Or.inl h.2.symm))
        · simp only [Prod.mk.injEq] at h; cases h.2
      · simp only at h
        split at h
        · simp only [Prod.mk.injEq, Except.error.injEq] at h; exact Or.inr (Or.inr (Or.inr h.2.symm))
        · simp only [Prod.mk.injEq] at h; cases h.2
  rcases hk with rfl | rfl | rfl | rfl
  · exact parseVersionErr_versionString s
  · exact ⟨_, rfl, by simp [errStrs]⟩
  · exact ⟨_, rfl, by simp [errStrs]⟩
  · exact ⟨_, rfl, by simp [errStrs]⟩

theorem errIs_mod : errIs "ModuleError" (some "ModuleError|fix-mod") = true := by decide +kernel
theorem errIs_plain : errIs "ModuleError" (some "fix-plain") = false := by decide +kernel
theorem errInner_mod : wrapErr "Error" (errInner "ModuleError" (some "ModuleError|fix-mod")) = some "Error|fix-mod" := by decide +kernel
theorem wrapErr_canon : wrapErr "Error" (wrapErr "InvalidVersionError" (some "must be of the form v1.2.3")) =
    some "Error|InvalidVersionError|must be of the form v1.2.3" := by decide +kernel

theorem parseVersion_spec (verb path s : Bytes) (fx : Option ModVerif.Modfile.Fixer) (fuel : Nat) (hf : 8 * s.length + 1 ≤ fuel)
    (w : Rule.Heap) :
    Rule.parseVersion isPrintI Quote.quote unquoteI fuel verb path s (fixG fx) w = .ok (pvOut path s fx, w) := by
  unfold Rule.parseVersion pvOut ModVerif.Modfile.parseVersion
  rw [parseString_spec s fuel (by omega) w]
  simp only [bind, Except.bind]
  cases hps : ModVerif.Modfile.parseString s with
  | none =>
    simp only [psOut_none hps, parseStringErr_ne_none, Bool.not_false, if_true, parseVersionErr]
    rfl
  | some p =>
    obtain ⟨t, tok1⟩ := p
    have hlen := parseString_length hps
    simp only [psOut_some hps, Option.isNone_none, Bool.not_true, Bool.false_eq_true, if_false]
    cases fx with
    | none =>
      simp only [fixG, Option.map_none, Option.isSome_none, Bool.false_eq_true, if_false]
      rw [Tie.FnModule.CanonicalVersion_tie t fuel (by omega)]
      simp only [bind, Except.bind]
      by_cases hcv : Semver.canonicalVersion t = []
      · simp only [hcv, decide_true, if_true, List.isEmpty_nil, parseVersionErr, wrapErr_canon]
        rfl
      · have : (Semver.canonicalVersion t).isEmpty = false := by
          cases hc : Semver.canonicalVersion t with
          | nil => exact absurd hc hcv
          | cons a b => rfl
        simp only [hcv, decide_false, Bool.false_eq_true, if_false, this]
        rfl
    | some g =>
      simp only [fixG, Option.map_some, Option.isSome_some, if_true, pure, Except.pure]
      cases hg : g path t with
      | ok fixed =>
        simp only [Option.isNone_none, Bool.not_true, Bool.false_eq_true, if_false]
      | error e =>
        cases e with
        | plain =>
          simp only [Option.isNone_some, Bool.not_false, if_true, errIs_plain, Bool.false_eq_true, if_false, parseVersionErr]
        | moduleError =>
          simp only [Option.isNone_some, Bool.not_false, if_true, errIs_mod, errInner_mod, parseVersionErr]

/-- the token is rewritten exactly as the model rewrites it; the value of a success is the new token -/
theorem pvOut_ok {path s : Bytes} {fx : Option ModVerif.Modfile.Fixer} {tok v : Bytes}
    (h : ModVerif.Modfile.parseVersion path s fx = (tok, .ok v)) : pvOut path s fx = ((v, none), tok) := by
  simp [pvOut, h]
theorem pvOut_error {path s : Bytes} {fx : Option ModVerif.Modfile.Fixer} {tok : Bytes} {k : ModVerif.Modfile.RuleErrKind}
    (h : ModVerif.Modfile.parseVersion path s fx = (tok, .error k)) : pvOut path s fx = (([], parseVersionErr s k), tok) := by
  simp [pvOut, h]

theorem parseVersionErr_isSome {path s : Bytes} {fx : Option ModVerif.Modfile.Fixer} {tok : Bytes} {k : ModVerif.Modfile.RuleErrKind}
    (h : ModVerif.Modfile.parseVersion path s fx = (tok, .error k)) : (parseVersionErr s k).isNone = false := by
  obtain ⟨x, hx, _⟩ := parseVersion_errAbs h
  rw [hx]; rfl

/-! ### modulePathMajor -/

theorem modulePathMajor_spec (path : Bytes) (fuel : Nat) (hf : path.length + 1 ≤ fuel) :
    Rule.modulePathMajor fuel path = .ok (match ModVerif.Modfile.modulePathMajor path with
      | some major => (major, none)
      | none => ([], some "invalid module path")) := by
  unfold Rule.modulePathMajor ModVerif.Modfile.modulePathMajor
  rw [Tie.FnModule.SplitPathVersion_tie path fuel hf]
  simp only [bind, Except.bind]
  obtain ⟨a, major, ok⟩ := Module.splitPathVersion path
  cases ok <;> rfl

/-! ### isIndirect -/

theorem B_indirect : B "indirect" = [105, 110, 100, 105, 114, 101, 99, 116] := by decide +kernel
theorem B_indirect2 : B "indirect;" = [105, 110, 100, 105, 114, 101, 99, 116, 59] := by decide +kernel
theorem idxL_zero_cons {α : Type} (a : α) (t : List α) : idxL (a :: t) 0 = .ok a := rfl
theorem idxL_one_cons {α : Type} (a b : α) (t : List α) : idxL (a :: b :: t) 1 = .ok b := rfl

def indOf : List Bytes → Bool
  | [f0] => f0 == B "indirect"
  | f0 :: _ :: _ => f0 == B "indirect;"
  | [] => false

theorem isIndirect_spec {w : Rule.Heap} {p : Int} {l : ModVerif.Modfile.Line} (hg : heapGet w.lines p = .ok (lineG l)) :
    Rule.isIndirect p w = .ok (ModVerif.Modfile.isIndirect l, w) := by
  obtain ⟨id, ⟨bef, suf, aft⟩, st, tok, ib, en⟩ := l
  cases suf with
  | nil =>
    unfold Rule.isIndirect ModVerif.Modfile.isIndirect
    simp [hg, bind, Except.bind, lineG_Comments, comsG_Suffix, len_eq]
  | cons c rest =>
    have h0 : ¬ (len (comG c :: List.map comG rest) = 0) := by simp [len_eq]; omega
    cases hfe : GoRt.fields (GoRt.trimPrefix c.token [47, 47]) with
    | nil =>
      have hfe' : GoStrings.fields (GoStrings.trimPrefix c.token [47, 47]) = [] := hfe
      unfold Rule.isIndirect ModVerif.Modfile.isIndirect
      simp only [hg, bind, Except.bind, lineG_Comments, comsG_Suffix, List.map_cons, h0, decide_false, Bool.false_eq_true, if_false,
        idxL_zero_cons, comG_Token, hfe, hfe']
      simp [len_eq, pure, Except.pure]
    | cons a t =>
      cases t with
      | nil =>
        have hfe' : GoStrings.fields (GoStrings.trimPrefix c.token [47, 47]) = [a] := hfe
        unfold Rule.isIndirect ModVerif.Modfile.isIndirect
        simp only [hg, bind, Except.bind, lineG_Comments, comsG_Suffix, List.map_cons, h0, decide_false, Bool.false_eq_true, if_false,
          idxL_zero_cons, comG_Token, hfe, hfe']
        simp [len_eq, pure, Except.pure, idxL_zero_cons, B_indirect]
        by_cases ha : a = [105, 110, 100, 105, 114, 101, 99, 116] <;> simp [ha]
      | cons b t =>
        have hfe' : GoStrings.fields (GoStrings.trimPrefix c.token [47, 47]) = a :: b :: t := hfe
        have h1 : ¬ (len (a :: b :: t) = 1) := by simp [len_eq]; omega
        have h2 : len (a :: b :: t) > 1 := by simp [len_eq]; omega
        unfold Rule.isIndirect ModVerif.Modfile.isIndirect
        simp only [hg, bind, Except.bind, lineG_Comments, comsG_Suffix, List.map_cons, h0, decide_false, Bool.false_eq_true, if_false,
          idxL_zero_cons, comG_Token, hfe, hfe', h1, h2, decide_true, if_true, pure, Except.pure, B_indirect2]
        congr 2
        rw [Bool.eq_iff_iff]; simp

/-! ### parseDirectiveComment, parseDeprecation -/

/-- the `//` comments of a group, without the marker, trimmed -/
def dcLines (cs : List ModVerif.Modfile.Comment) : List Bytes :=
  cs.filterMap fun c => if isPrefixOfB [47, 47] c.token then some (GoStrings.trimSpace (c.token.drop 2)) else none

theorem dcLines_cons (c : ModVerif.Modfile.Comment) (cs : List ModVerif.Modfile.Comment) :
    dcLines (c :: cs) = (if isPrefixOfB [47, 47] c.token then [GoStrings.trimSpace (c.token.drop 2)] else []) ++ dcLines cs := by
  unfold dcLines
  by_cases h : isPrefixOfB [47, 47] c.token = true <;> simp [List.filterMap_cons, h]

theorem loop2_spec (cs : List ModVerif.Modfile.Comment) (w : Rule.Heap) : ∀ (fuel k : Nat) (acc : List Bytes),
    k ≤ cs.length → cs.length - k < fuel →
    Rule.parseDirectiveComment_loop2 (cs.map comG) w fuel (k : Int) acc = .ok ((cs.length : Int), acc ++ dcLines (cs.drop k))
  | 0, _, _, _, hf => by omega
  | fuel + 1, k, acc, hk, hf => by
    unfold Rule.parseDirectiveComment_loop2
    by_cases hlt : k < cs.length
    · have h1 : (k : Int) < len (cs.map comG) := by simp [len_eq]; omega
      have h2 : ¬ ((k : Int) < 0) := by omega
      have hget : (cs.map comG)[k]? = some (comG cs[k]) := by simp [List.getElem?_eq_getElem hlt]
      have hd : cs.drop k = cs[k] :: cs.drop (k + 1) := List.drop_eq_getElem_cons hlt
      have ih := fun acc' => loop2_spec cs w fuel (k + 1) acc' (by omega) (by omega)
      have hk1 : ((k : Int) + 1) = ((k + 1 : Nat) : Int) := by omega
      have hidx : idxL (cs.map comG) (k : Int) = .ok (comG cs[k]) := by
        simp only [idxL, h2, if_false, Int.toNat_natCast, hget]; rfl
      simp only [h1, decide_true, if_true, hidx, bind, Except.bind, pure, Except.pure, comG_Token, hasPrefix,
        hk1, ih, hd, dcLines_cons]
      by_cases hp : isPrefixOfB [47, 47] cs[k].token = true
      · simp [hp, GoRt.trimSpace, GoRt.trimPrefix]
      · simp [hp]
    · have hke : k = cs.length := by omega
      have h1 : ¬ ((k : Int) < len (cs.map comG)) := by simp [len_eq]; omega
      simp only [h1, decide_false, Bool.false_eq_true, if_false, pure, Except.pure]
      subst hke
      simp [dcLines]

theorem loop1_spec (c1 c2 : List ModVerif.Modfile.Comment) (w : Rule.Heap) (fuel : Nat) (hf : c1.length + c2.length + 3 ≤ fuel) :
    Rule.parseDirectiveComment_loop1 [c1.map comG, c2.map comG] w fuel 0 [] = .ok (2, dcLines c1 ++ dcLines c2) := by
  obtain ⟨f, rfl⟩ : ∃ f, fuel = f + 3 := ⟨fuel - 3, by omega⟩
  have e1 := loop2_spec c1 w (f + 2) 0 [] (by omega) (by omega)
  have e2 := loop2_spec c2 w (f + 1) 0 (dcLines c1) (by omega) (by omega)
  have e1' : Rule.parseDirectiveComment_loop2 (c1.map comG) w (f + 2) 0 [] = .ok ((c1.length : Int), dcLines c1) := by
    simpa using e1
  have e2' : Rule.parseDirectiveComment_loop2 (c2.map comG) w (f + 1) 0 (dcLines c1) = .ok ((c2.length : Int), dcLines c1 ++ dcLines c2) := by
    simpa using e2
  unfold Rule.parseDirectiveComment_loop1
  have h0 : (0 : Int) < len [c1.map comG, c2.map comG] := by simp [len_eq]
  simp only [h0, decide_true, if_true, idxL_zero_cons, bind, Except.bind, e1']
  unfold Rule.parseDirectiveComment_loop1
  have h1 : (0 : Int) + 1 < len [c1.map comG, c2.map comG] := by simp [len_eq]
  have h1' : idxL [c1.map comG, c2.map comG] ((0 : Int) + 1) = .ok (c2.map comG) := rfl
  simp only [h1, decide_true, if_true, h1', bind, Except.bind, e2']
  unfold Rule.parseDirectiveComment_loop1
  have h2 : ¬ ((0 : Int) + 1 + 1 < len [c1.map comG, c2.map comG]) := by simp [len_eq]
  simp [h2, pure, Except.pure]

/-- the comments `parseDirectiveComment` reads -/
def dcChoose (bc : Option ModVerif.Modfile.Comments) (lc : ModVerif.Modfile.Comments) : ModVerif.Modfile.Comments :=
  match bc with
  | some bc => if lc.before.isEmpty && lc.suffix.isEmpty then bc else lc
  | none => lc

theorem parseDirectiveComment_model (bc : Option ModVerif.Modfile.Comments) (lc : ModVerif.Modfile.Comments) :
    ModVerif.Modfile.parseDirectiveComment bc lc = GoStrings.join (dcLines (dcChoose bc lc).before ++ dcLines (dcChoose bc lc).suffix) [10] := by
  unfold ModVerif.Modfile.parseDirectiveComment dcChoose dcLines
  cases bc <;> simp [List.filterMap_append]

/-- number of comments `parseDirectiveComment` may walk over -/
def comLen (c : ModVerif.Modfile.Comments) : Nat := c.before.length + c.suffix.length

/-- the block argument: nil, or a block object of the heap -/
def BlockArg (w : Rule.Heap) (block : Int) : Option ModVerif.Modfile.Comments → Prop
  | none => block = 0
  | some c => ∃ B, heapGet w.blocks block = .ok B ∧ B.Comments = comsG c

theorem BlockArg.ofBlock {w : Rule.Heap} {block : Int} {b : ModVerif.Modfile.LineBlock} {ps : List Int}
    (h : heapGet w.blocks block = .ok (blockG b ps)) : BlockArg w block (some b.comments) := ⟨_, h, rfl⟩

theorem parseDirectiveComment_spec {w : Rule.Heap} {block p : Int} {l : ModVerif.Modfile.Line} {bc : Option ModVerif.Modfile.Comments}
    (hg : heapGet w.lines p = .ok (lineG l)) (hb : BlockArg w block bc) (fuel : Nat)
    (hf : comLen l.comments + (bc.map comLen).getD 0 + 3 ≤ fuel) :
    Rule.parseDirectiveComment fuel block p w = .ok (ModVerif.Modfile.parseDirectiveComment bc l.comments, w) := by
  rw [parseDirectiveComment_model]
  unfold Rule.parseDirectiveComment
  have hgl : Rule.Expr_getComments (Rule.Expr.Line p) w = .ok (comsG l.comments) := by
    simp [Rule.Expr_getComments, hg, bind, Except.bind, pure, Except.pure]
  cases bc with
  | none =>
    have hb0 : block = 0 := hb
    subst hb0
    simp only [comLen, Option.map_none, Option.getD_none] at hf
    simp only [decide_true, Bool.not_true, Bool.false_eq_true, if_false, bind, Except.bind, pure, Except.pure, hgl, comsG_Before,
      comsG_Suffix, dcChoose]
    rw [loop1_spec _ _ w fuel (by omega)]
    rfl
  | some c =>
    obtain ⟨B, hB, hBc⟩ := hb
    have hne : ¬ (block = 0) := by
      intro h0; have := heapGet_pos hB; omega
    have hgb : Rule.Expr_getComments (Rule.Expr.LineBlock block) w = .ok (comsG c) := by
      simp [Rule.Expr_getComments, hB, hBc, bind, Except.bind, pure, Except.pure]
    simp only [comLen, Option.map_some, Option.getD_some] at hf
    simp only [hne, decide_false, Bool.not_false, if_true, bind, Except.bind, pure, Except.pure, hgl, comsG_Before, comsG_Suffix, dcChoose]
    by_cases h1 : l.comments.before = []
    · by_cases h2 : l.comments.suffix = []
      · simp only [h1, h2, List.map_nil, len_eq, List.length_nil, Int.natCast_zero, decide_true, if_true, List.isEmpty_nil, Bool.and_self, hgb,
          comsG_Before, comsG_Suffix]
        rw [loop1_spec _ _ w fuel (by omega)]
        rfl
      · have h2' : ¬ ((l.comments.suffix.map comG).length : Int) = 0 := by
          cases hs : l.comments.suffix with
          | nil => exact absurd hs h2
          | cons a t => simp; omega
        have h2'' : l.comments.suffix.isEmpty = false := by
          cases hs : l.comments.suffix with
          | nil => exact absurd hs h2
          | cons a t => rfl
        simp only [h1, List.map_nil, len_eq, List.length_nil, Int.natCast_zero, decide_true, if_true, h2', decide_false, Bool.false_eq_true,
          if_false, hgl, comsG_Before, comsG_Suffix, List.isEmpty_nil, h2'', Bool.and_false]
        have e := loop1_spec l.comments.before l.comments.suffix w fuel (by omega)
        rw [h1] at e
        simp only [List.map_nil] at e
        rw [e]
        rfl
    · have h1' : ¬ ((l.comments.before.map comG).length : Int) = 0 := by
        cases hs : l.comments.before with
        | nil => exact absurd hs h1
        | cons a t => simp; omega
      have h1'' : l.comments.before.isEmpty = false := by
        cases hs : l.comments.before with
        | nil => exact absurd hs h1
        | cons a t => rfl
      simp only [len_eq, h1', decide_false, Bool.false_eq_true, if_false, hgl, comsG_Before, comsG_Suffix, h1'', Bool.false_and]
      rw [loop1_spec _ _ w fuel (by omega)]
      rfl

theorem parseDeprecation_spec {w : Rule.Heap} {block p : Int} {l : ModVerif.Modfile.Line} {bc : Option ModVerif.Modfile.Comments}
    (hg : heapGet w.lines p = .ok (lineG l)) (hb : BlockArg w block bc) (fuel : Nat)
    (hf : comLen l.comments + (bc.map comLen).getD 0 + 3 ≤ fuel) :
    Rule.parseDeprecation deprecatedSubI fuel block p w = .ok (ModVerif.Modfile.parseDeprecation bc l.comments, w) := by
  cases hd : ModVerif.Modfile.deprecatedRE (ModVerif.Modfile.parseDirectiveComment bc l.comments) with
  | none =>
    unfold Rule.parseDeprecation ModVerif.Modfile.parseDeprecation
    rw [parseDirectiveComment_spec hg hb fuel hf]
    simp [bind, Except.bind, deprecatedSubI, hd, pure, Except.pure]
  | some m =>
    unfold Rule.parseDeprecation ModVerif.Modfile.parseDeprecation
    rw [parseDirectiveComment_spec hg hb fuel hf]
    simp [bind, Except.bind, deprecatedSubI, hd, pure, Except.pure, idxL_one_cons]

end ModVerif.Tie.FnRuleLeafA
