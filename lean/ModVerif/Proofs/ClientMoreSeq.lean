/-
  ClientMore, part 8 — `concurrent_results_eq_sequential` at the abstract level: with an honest server the result every
  goroutine receives is a function of its request alone, so every interleaving — in particular the sequential one —
  returns the same results; and two terminal states in which the same goroutines ran hold equivalent stored heads.
-/
import ModVerif.Proofs.ClientMoreMax
import ModVerif.Proofs.ParCacheInv
namespace ModVerif.ParCache
variable {V : Type}

/-- the value recorded for a key was produced by the closure of some caller of that key -/
theorem ran_from (key : Nat → Nat) (fval : Nat → V) (s : St V) (h : Reachable key fval s) :
    ∀ k v, s.ran k = some v → ∃ i, key i = k ∧ fval i = v := by
  induction h with
  | init => intro k v h; simp [init] at h
  | @step s s' i hr hs ih =>
    intro k v hv
    unfold step at hs
    by_cases hpc : s.pc i = .runF
    · simp only [hpc, Option.some.injEq] at hs
      subst hs
      simp only at hv
      by_cases hk : k = key i
      · subst hk
        simp only [upd_same] at hv
        cases hran : s.ran (key i) with
        | none => simp only [hran, Option.some.injEq] at hv; exact ⟨i, rfl, hv⟩
        | some w => simp only [hran, Option.some.injEq] at hv; subst hv; exact ih _ _ hran
      · rw [upd_other _ _ _ _ hk] at hv; exact ih k v hv
    · have hran : s'.ran = s.ran := by
        cases hpc' : s.pc i <;> simp only [hpc'] at hs hpc <;> (try exact absurd trivial hpc) <;>
          (try split at hs) <;> (try simp at hs) <;> (try subst hs) <;> (try rfl)
      rw [hran] at hv; exact ih k v hv

/-- **With an honest server — the fetch result depends only on the key — every caller that has returned got the
server's answer for its key, in every interleaving.** -/
theorem results_deterministic (key : Nat → Nat) (F : Nat → V) (fval : Nat → V) (hF : ∀ i, fval i = F (key i))
    (s : St V) (h : Reachable key fval s) (i : Nat) (hi : s.pc i = .returned) : s.got i = some (F (key i)) := by
  have hI := inv_reachable key fval s h
  obtain ⟨h1, h2, _⟩ := hI.returned_ok i hi
  obtain ⟨v, hv⟩ := Option.isSome_iff_exists.mp h2
  obtain ⟨j, hj, hjv⟩ := ran_from key fval s h _ v hv
  rw [h1, hv, ← hjv, hF j, hj]

/-- … hence any two interleavings (in particular a concurrent and the sequential one) agree on the result of every
caller that returned in both. -/
theorem results_eq_any_two (key : Nat → Nat) (F : Nat → V) (fval : Nat → V) (hF : ∀ i, fval i = F (key i))
    (s1 s2 : St V) (h1 : Reachable key fval s1) (h2 : Reachable key fval s2) (i : Nat)
    (hi1 : s1.pc i = .returned) (hi2 : s2.pc i = .returned) : s1.got i = s2.got i := by
  rw [results_deterministic key F fval hF s1 h1 i hi1, results_deterministic key F fval hF s2 h2 i hi2]

end ModVerif.ParCache

namespace ModVerif.ClientLatest
variable {M T : Type} [DecidableEq M] [DecidableEq T]

/-- the result of a goroutine's `mergeLatest` with an honest server: success, or `ErrGONOSUMDB` for a private path -/
def honestResult (priv : Nat → Bool) (t : Nat) : Result := if priv t then .gonosumdb else .ok

/-- **With an honest server the result of every goroutine is a function of its request alone**, whatever the
interleaving. -/
theorem honest_result_deterministic (P : Params M T) (le : T → T → Prop) (Ch : T → Prop) (cl : Nat → Nat)
    (presented : Nat → Option M) (priv : Nat → Bool) (c0 : Option M) (hH : Honest P le Ch presented c0)
    (s : St M T) (h : HReachable P cl presented priv c0 s) (t : Nat) (x : Result) (hx : (s.th t).pc = .done x) :
    x = honestResult priv t := by
  obtain ⟨_, _, hres⟩ := honest_all_succeed_inv P le Ch cl presented priv c0 hH s h
  unfold honestResult
  cases hp : priv t with
  | false => simpa using (hres t x hx).1 hp
  | true => simpa using (hres t x hx).2 hp

/-- **Two terminal states of honest runs in which the same goroutines ran** (for instance a concurrent run and the
sequential run of the same lookups) **return the same results and hold equivalent heads**: the stored heads are each a
prefix of the other, and so are the in-memory heads of every client whose goroutines read the same configuration
contents — here stated for the stored head, which is a greatest element of the same set in both. -/
theorem terminal_states_agree (P : Params M T) (le : T → T → Prop) (Ch : T → Prop) (cl : Nat → Nat)
    (presented : Nat → Option M) (priv : Nat → Bool) (c0 : Option M) (hH : Honest P le Ch presented c0)
    (s1 s2 : St M T) (h1 : HReachable P cl presented priv c0 s1) (h2 : HReachable P cl presented priv c0 s2)
    (q1 : Quiescent s1) (q2 : Quiescent s2)
    (hsame : ∀ t, (s1.th t).pc = .entry ↔ (s2.th t).pc = .entry) :
    (∀ t, (s1.th t).pc = (s2.th t).pc) ∧
    le (cfgTree P s1.config) (cfgTree P s2.config) ∧ le (cfgTree P s2.config) (cfgTree P s1.config) := by
  have hseen : ∀ x, Seen P presented priv c0 s1 x ↔ Seen P presented priv c0 s2 x := by
    intro x
    simp only [Seen, Started]
    constructor
    · rintro (h | h | ⟨t, m, ⟨hp, hne⟩, hm, hq⟩)
      · exact Or.inl h
      · exact Or.inr (Or.inl h)
      · exact Or.inr (Or.inr ⟨t, m, ⟨hp, fun e => hne ((hsame t).mpr e)⟩, hm, hq⟩)
    · rintro (h | h | ⟨t, m, ⟨hp, hne⟩, hm, hq⟩)
      · exact Or.inl h
      · exact Or.inr (Or.inl h)
      · exact Or.inr (Or.inr ⟨t, m, ⟨hp, fun e => hne ((hsame t).mp e)⟩, hm, hq⟩)
  obtain ⟨_, _, m1, _, _⟩ := latest_ends_at_max_inv P le Ch cl presented priv c0 hH s1 h1 q1
  obtain ⟨_, _, m2, _, _⟩ := latest_ends_at_max_inv P le Ch cl presented priv c0 hH s2 h2 q2
  refine ⟨fun t => ?_, m2.2 _ ((hseen _).mp m1.1), m1.2 _ ((hseen _).mpr m2.1)⟩
  rcases q1 t with e1 | ⟨x1, e1⟩
  · rw [e1, (hsame t).mp e1]
  · rcases q2 t with e2 | ⟨x2, e2⟩
    · rw [(hsame t).mpr e2, e2]
    · rw [e1, e2, honest_result_deterministic P le Ch cl presented priv c0 hH s1 h1 t x1 e1,
        honest_result_deterministic P le Ch cl presented priv c0 hH s2 h2 t x2 e2]

end ModVerif.ClientLatest
