/-
  Tie proofs for sumdb/tlog/note.go (Generated/FnTlogNote.lean vs Model/TlogNote.lean), part 1:
  FormatTree, ParseTree (strings.SplitN, strings.Count, the line tests).
-/
import ModVerif.Generated.FnTlogNote
import ModVerif.Model.TlogNote
import ModVerif.Proofs.GoRtLemmasNote
namespace ModVerif.TieFnTlogNote
open ModVerif ModVerif.GoRt ModVerif.GoRtTile ModVerif.GoRtNote

abbrev GTree := Generated.TlogNote.Tree Bytes

/-- `base64.StdEncoding.DecodeString` as the model decodes (the instantiation of Drv/GenTlog.lean, `GenTlogNote.b64decI`) -/
def b64decI (s : Bytes) : Bytes × Option String :=
  match Base64.decodeStd s with
  | some b => (b, none)
  | none => ([], some "illegal base64 data")

/-- the model's tree head in the generated structure -/
def toGen (t : TlogNote.Tree) : GTree := { N := t.n, Hash := t.hash }

/-- the result of the model's `parseTree` in the result type of the generated one -/
def ptOut : Option TlogNote.Tree → GTree × Option String
  | some t => (toGen t, none)
  | none => ((default : GTree), some "errMalformedTree")

theorem treePrefix_eq : Generated.tlog_treePrefix = TlogNote.treePrefix := by decide +kernel

/-! ### FormatTree -/

theorem FormatTree_eq (n : Int) (h : Bytes) :
    Generated.TlogNote.FormatTree TlogNote.hashString ({ N := n, Hash := h } : GTree) =
      TlogNote.formatTree { n := n, hash := h } := by
  have e : ([103, 111, 46, 115, 117, 109, 32, 100, 97, 116, 97, 98, 97, 115, 101, 32, 116, 114, 101, 101, 10] : Bytes)
      = TlogNote.treePrefix := treePrefix_eq
  simp only [Generated.TlogNote.FormatTree, TlogNote.formatTree, e, itoa_eq]

/-! ### strings.Count(text, "\n") -/

theorem count_nl (s : Bytes) : count s [10] = ((TlogNote.countNL s : Nat) : Int) := by
  rw [GoRtStr.count_single, TlogNote.countNL, List.count_eq_length_filter]

/-! ### strings.SplitN(text, "\n", k) -/

theorem splitN_ne_nil : ∀ (k : Nat) (s : Bytes), TlogNote.splitN (k + 1) s ≠ []
  | 0, s => by simp [TlogNote.splitN]
  | k + 1, s => by
    unfold TlogNote.splitN
    split <;> simp

theorem splitN_cons (k : Nat) (x : UInt8) (xs : Bytes) :
    TlogNote.splitN (k + 2) (x :: xs) =
      if x == 10 then [] :: TlogNote.splitN (k + 1) xs else prependHead [x] (TlogNote.splitN (k + 2) xs) := by
  by_cases hx : x = 10
  · subst hx
    simp [TlogNote.splitN, span_eq]
  · have h1 : (x != 10) = true := by simpa using hx
    have h2 : (x == 10) = false := by simpa using hx
    rw [if_neg (by simp [h2])]
    conv => lhs; unfold TlogNote.splitN
    conv => rhs; unfold TlogNote.splitN
    simp only [span_eq, List.takeWhile_cons, List.dropWhile_cons, h1, if_true]
    cases hd : xs.dropWhile (· != 10) with
    | nil => simp [prependHead]
    | cons a rest => simp [prependHead]

theorem splitN_nil (k : Nat) : TlogNote.splitN (k + 1) [] = [[]] := by
  cases k with
  | zero => rfl
  | succ k => simp [TlogNote.splitN, span_eq]

theorem splitNAux_eq : ∀ (s : Bytes) (f k : Nat) (cur : Bytes), s.length < f →
    splitNAux [10] f (k + 1) s cur = prependHead cur.reverse (TlogNote.splitN (k + 1) s) := by
  intro s
  induction s with
  | nil =>
    intro f k cur hf
    obtain ⟨f, rfl⟩ : ∃ g, f = g + 1 := ⟨f - 1, by omega⟩
    simp [splitNAux, splitN_nil, prependHead]
  | cons x xs ih =>
    intro f k cur hf
    obtain ⟨f, rfl⟩ : ∃ g, f = g + 1 := ⟨f - 1, by omega⟩
    simp only [List.length_cons] at hf
    rw [splitNAux]
    cases k with
    | zero => simp [TlogNote.splitN, prependHead]
    | succ k =>
      have hk : ¬ (k + 1 = 0) := by omega
      simp only [hk, if_false, GoRtStr.isPrefixOfB_single, List.length_cons, List.length_nil, Nat.zero_add,
        List.drop_succ_cons, List.drop_zero]
      rw [splitN_cons]
      by_cases hx : x = 10
      · subst hx
        simp only [beq_self_eq_true, if_true]
        rw [ih f k [] (by omega)]
        simp only [List.reverse_nil]
        rw [prependHead_nil _ (splitN_ne_nil k xs)]
        simp [prependHead]
      · have h2 : (x == 10) = false := by simpa using hx
        have h3 : ((10 : UInt8) == x) = false := by simpa using fun e : (10 : UInt8) = x => hx e.symm
        simp only [h2, h3, Bool.false_eq_true, if_false]
        rw [ih f (k + 1) (x :: cur) (by omega), prependHead_prependHead _ _ _ (splitN_ne_nil (k + 1) xs)]
        simp

/-- `strings.SplitN(s, "\n", k)` for a positive literal `k` is the model's `splitN` -/
theorem splitN_eq (s : Bytes) (k : Nat) : splitN s [10] ((k + 1 : Nat) : Int) = TlogNote.splitN (k + 1) s := by
  have h : ¬ (((k + 1 : Nat) : Int) ≤ 0) := by omega
  simp only [splitN, h, if_false, Int.toNat_natCast]
  rw [splitNAux_eq s _ k [] (by omega)]
  simp only [List.reverse_nil]
  exact prependHead_nil _ (splitN_ne_nil k s)

theorem length_prependHead (p : Bytes) (l : List Bytes) (h : l ≠ []) : (prependHead p l).length = l.length := by
  cases l with
  | nil => exact absurd rfl h
  | cons a t => rfl

theorem countNL_cons (x : UInt8) (xs : Bytes) :
    TlogNote.countNL (x :: xs) = (if x == 10 then 1 else 0) + TlogNote.countNL xs := by
  by_cases h : (x == 10) = true <;> simp [TlogNote.countNL, h] <;> omega

/-- at least `k` newlines give `k + 1` pieces -/
theorem length_splitN : ∀ (s : Bytes) (k : Nat), k ≤ TlogNote.countNL s → (TlogNote.splitN (k + 1) s).length = k + 1 := by
  intro s
  induction s with
  | nil =>
    intro k hk
    have : k = 0 := by simp [TlogNote.countNL] at hk; exact hk
    subst this; rfl
  | cons x xs ih =>
    intro k hk
    cases k with
    | zero => rfl
    | succ k =>
      rw [splitN_cons]
      rw [countNL_cons] at hk
      by_cases hx : (x == 10) = true
      · simp only [hx, if_true] at hk ⊢
        simp only [List.length_cons]
        rw [ih k (by omega)]
      · simp only [hx, Bool.false_eq_true, if_false] at hk ⊢
        rw [length_prependHead _ _ (splitN_ne_nil _ _)]
        exact ih (k + 1) (by omega)

theorem splitN4_shape (s : Bytes) (h : 3 ≤ TlogNote.countNL s) :
    ∃ a b c d, TlogNote.splitN 4 s = [a, b, c, d] := by
  have := length_splitN s 3 h
  match hl : TlogNote.splitN 4 s, this with
  | [a, b, c, d], _ => exact ⟨a, b, c, d, rfl⟩

/-! ### ParseTree -/

theorem ParseTree_eq (text : Bytes) :
    Generated.TlogNote.ParseTree b64decI id text = .ok (ptOut (TlogNote.parseTree text)) := by
  unfold Generated.TlogNote.ParseTree TlogNote.parseTree
  simp only [hasPrefix, treePrefix_eq, count_nl]
  have e1 : decide (((TlogNote.countNL text : Nat) : Int) < 3) = decide (TlogNote.countNL text < 3) :=
    decide_eq_decide.mpr (by omega)
  have e2 : decide (len text > 1000000) = decide (text.length > 1000000) :=
    decide_eq_decide.mpr (by simp only [len_eq]; omega)
  simp only [e1, e2]
  by_cases hc : (!isPrefixOfB TlogNote.treePrefix text || decide (TlogNote.countNL text < 3) ||
      decide (text.length > 1000000)) = true
  · simp only [hc, ↓reduceIte]; rfl
  · simp only [hc, ↓reduceIte]
    have h3 : 3 ≤ TlogNote.countNL text := by
      simp only [Bool.or_eq_true, decide_eq_true_eq, not_or] at hc; omega
    obtain ⟨a, b, c, d, hs⟩ := splitN4_shape text h3
    have e4 : splitN text [10] 4 = [a, b, c, d] := by
      have := splitN_eq text 3; rw [hs] at this; exact this
    simp only [e4, hs]
    have i1 : idxL [a, b, c, d] 1 = .ok b := idxL_natCast (v := [a, b, c, d]) (k := 1) (by simp)
    have i2 : idxL [a, b, c, d] 2 = .ok c := idxL_natCast (v := [a, b, c, d]) (k := 2) (by simp)
    simp only [i1, i2, bind_ok, formatInt_ten]
    cases hp : Decimal.parseInt64 b with
    | none =>
      have := parseInt_none b hp
      simp only [this, Bool.not_false, Bool.true_or, if_true, bind_ok, pure_eq_ok]
      rfl
    | some n =>
      rw [parseInt_some b n hp]
      simp only [Option.isNone_none, Bool.not_true, Bool.false_or]
      by_cases hn : n < 0
      · simp only [hn, decide_true, if_true, bind_ok, Bool.true_or, pure_eq_ok]; rfl
      · simp only [hn, decide_false, Bool.false_eq_true, if_false, bind_ok, pure_eq_ok, Bool.false_or]
        by_cases hb : b = Decimal.formatInt n
        · have hb' : (b != Decimal.formatInt n) = false := by simpa using hb
          have hb2 : decide (b = Decimal.formatInt n) = true := by simpa using hb
          simp only [hb2, hb', Bool.not_true, Bool.false_eq_true, if_false]
          unfold b64decI
          cases hd : Base64.decodeStd c with
          | none => simp only [Option.isNone_some, Bool.not_false, Bool.true_or, if_true]; rfl
          | some h =>
            simp only [Option.isNone_none, Bool.not_true, Bool.false_or, len_eq, Tlog.HashSize]
            by_cases hl : h.length = 32
            · have hl' : (h.length != 32) = false := by simpa using hl
              have hl2 : (((h.length : Nat) : Int) = 32) := by omega
              simp only [hl2, decide_true, Bool.not_true, Bool.false_eq_true, if_false, hl']
              rfl
            · have hl' : (h.length != 32) = true := by simpa using hl
              have hl2 : ¬ (((h.length : Nat) : Int) = 32) := by omega
              simp only [hl2, decide_false, Bool.not_false, if_true, hl']
              rfl
        · have hb' : (b != Decimal.formatInt n) = true := by simpa using hb
          have hb2 : decide (b = Decimal.formatInt n) = false := by simpa using hb
          simp only [hb2, Bool.not_false, if_true, hb']
          rfl

end ModVerif.TieFnTlogNote
