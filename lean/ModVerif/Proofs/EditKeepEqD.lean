/-
  EditKeepEq, part D — sessions, with EQUALITY of the end-of-line comments: one operation (`applyMod_untouchedS`), whole
  sessions (`untouched_lines_survive_eq`, static form `untouched_lines_survive_static_eq`), the two bulk setters
  (`setRequire_comments_eq`, `setRequireSeparateIndirect_comments_eq`) and C16 `comments_survive_session_eq`.
  Proofs/EditMoreKeepF.lean, EditMoreCom{B,D}.lean and EditWorkSession.lean restated on `KeepsS` (parts A–C); the tree
  invariant (`Inv.tree.noBlockSuffix`: no block carries an end-of-line comment of its own) is what every Cleanup needs.
-/
import ModVerif.Proofs.EditKeepEqC
import ModVerif.Proofs.EditWorkSession
set_option linter.unusedSimpArgs false
namespace ModVerif.Modfile.Edit
open ModVerif ModVerif.Modfile

/-- every go.mod operation, on the lines that existed before it -/
theorem applyMod_opKeepsS (e e' : EFile) (op : Op) (hv : ValidArgsAll e op) (hi : Inv e) (h : applyMod e op = some (.ok e')) :
    OpKeepsS e e' op := by
  cases op with
  | addModule p => simp only [applyMod, Option.some.injEq, Except.ok.injEq] at h; subst h; exact addModule_keepsS e p hi
  | addGo v => simp only [applyMod, Option.some.injEq] at h; exact addGo_keepsS e e' v hi h
  | dropGo => simp only [applyMod, Option.some.injEq, Except.ok.injEq] at h; subst h; exact dropGo_keepsS e
  | addToolchain n => simp only [applyMod, Option.some.injEq] at h; exact addToolchain_keepsS e e' n hi h
  | dropToolchain => simp only [applyMod, Option.some.injEq, Except.ok.injEq] at h; subst h; exact dropToolchain_keepsS e
  | addGodebug k v => simp only [applyMod, Option.some.injEq] at h; exact addGodebug_keepsS e e' k v hv hi h
  | dropGodebug k => simp only [applyMod, Option.some.injEq] at h; exact dropGodebug_keepsS e e' k hv h
  | addRequire p v => simp only [applyMod, Option.some.injEq] at h; exact addRequire_keepsS e e' p v hv hi h
  | addNewRequire p v i =>
    simp only [applyMod, Option.some.injEq, Except.ok.injEq] at h; subst h; exact addNewRequire_keepsS e p v i hi _
  | dropRequire p => simp only [applyMod, Option.some.injEq] at h; exact dropRequire_keepsS e e' p hv h
  | setRequire w r =>
    simp only [applyMod, Option.some.injEq] at h
    exact setRequire_keepsS e e' w (permOf r) (permOf_perm r) hv.1 hi hv.2.1 hv.2.2 h r
  | setRequireSeparateIndirect w r =>
    simp only [applyMod, Option.some.injEq] at h
    exact setRequireSeparateIndirect_keepsS e e' w (permOf r) hv.1 hi hv.2.1 h r
  | addExclude p v => simp only [applyMod, Option.some.injEq] at h; exact addExclude_keepsS e e' p v hi h
  | dropExclude p v => simp only [applyMod, Option.some.injEq] at h; exact dropExclude_keepsS e e' p v hv h
  | addReplace a b c d => simp only [applyMod, Option.some.injEq] at h; exact addReplace_keepsS e e' a b c d hv hi h
  | dropReplace a b => simp only [applyMod, Option.some.injEq] at h; exact dropReplace_keepsS e e' a b hv h
  | addRetract lo hi' why => simp only [applyMod, Option.some.injEq] at h; exact addRetract_keepsS e e' _ why hi h _
  | dropRetract lo hi' => simp only [applyMod, Option.some.injEq] at h; exact dropRetract_keepsS e e' lo hi' hv h
  | addTool p => simp only [applyMod, Option.some.injEq, Except.ok.injEq] at h; subst h; exact addTool_keepsS e p hi
  | dropTool p => simp only [applyMod, Option.some.injEq] at h; exact dropTool_keepsS e e' p hv h
  | sortBlocks => simp only [applyMod, Option.some.injEq, Except.ok.injEq] at h; subst h; exact sortBlocks_keepsS e
  | cleanup => simp only [applyMod, Option.some.injEq, Except.ok.injEq] at h; subst h; exact cleanup_keepsS e _ hi
  | addUse d m => simp [applyMod] at h
  | addNewUse d m => simp [applyMod] at h
  | dropUse d => simp [applyMod] at h
  | setUse w rev => simp [applyMod] at h

/-- **one operation leaves every line it does not name as it is**: a live line whose tokens are not those of the
    directive the operation names (`Targets`), and which the documented de-duplication of SortBlocks does not remove
    (`kill3`), is still there after the operation, with the same tokens, at least the same `Before` comments and exactly
    the same `Suffix` comments -/
theorem applyMod_untouchedS (e e' : EFile) (op : Op) (hv : ValidArgsAll e op) (hi : Inv e) (h : applyMod e op = some (.ok e'))
    (x : XLine) (hx : x ∈ viewX e.f.syn.stmts) (hnt : ¬Targets op x.toks) (hk : Sorts op = true → x.id ∉ kill3 e.f) :
    ∃ x' ∈ viewX e'.f.syn.stmts, x.leS x' := by
  rcases applyMod_opKeepsS e e' op hv hi h with ⟨S, hS, hsrc⟩
  refine hS x hx (hi.x_lt hx) ?_
  intro hs
  rcases hsrc _ hs with ⟨h1, h2⟩ | ⟨en, hen, hid, ht⟩
  · exact hk h1 h2
  · exact hnt (ht _ _ (hi.acc_of_id hx hen hid))

theorem runOps_untouchedS (ops : List Op) : ∀ (e : EFile) (res0 : List Bool) (i : Nat) (e' : EFile) (res : List Bool),
    RunValid e ops → Inv e → runOps applyMod e ops res0 i = .done e' res →
    ∀ x ∈ viewX e.f.syn.stmts, Spared x.toks x.id e ops → ∃ x' ∈ viewX e'.f.syn.stmts, x.leS x' := by
  induction ops with
  | nil =>
    intro e res0 i e' res _ _ h x hx _
    simp only [runOps, SessionResult.done.injEq] at h
    rw [← h.1]; exact ⟨x, hx, x.leS_refl⟩
  | cons op ops ih =>
    intro e res0 i e' res hv hi h x hx hsp
    unfold runOps at h
    cases ha : applyMod e op with
    | none => simp [ha] at h
    | some r =>
      cases r with
      | ok e1 =>
        simp only [ha] at h
        rcases applyMod_untouchedS e e1 op hv.1 hi ha x hx hsp.1 hsp.2.1 with ⟨y, hy, hxy⟩
        have hsp1 : Spared y.toks y.id e1 ops := by rw [hxy.1, hxy.2.1]; exact hsp.2.2.1 e1 ha
        rcases ih e1 _ _ e' res (hv.2.1 e1 ha) (applyMod_inv_all e e1 op hv.1 hi ha) h y hy hsp1 with ⟨z, hz, hyz⟩
        exact ⟨z, hz, XLine.leS_trans hxy hyz⟩
      | error err =>
        simp only [ha] at h
        by_cases hr : err.isReturned = true
        · simp only [hr, if_true] at h
          exact ih e _ _ e' res (hv.2.2 err ha hr) hi h x hx (hsp.2.2.2 err ha hr)
        · simp only [Bool.not_eq_true] at hr
          simp [hr] at h

/-- **C08 `untouched_lines_survive`.**  In a session of go.mod operations with valid arguments from a state satisfying the
    invariant, a directive line that no operation names and that no SortBlocks removes as a duplicate (`Spared`) is still
    in the tree after the final Cleanup: same line id, same full tokens, its `Before` comments are a sublist of the final ones (Cleanup
    may add the whole-line comments of a collapsed block) and its `Suffix` comments are EXACTLY the final ones. -/
theorem untouched_lines_survive_eq (e e' : EFile) (ops : List Op) (res : List Bool) (hi : Inv e) (hv : RunValid e ops)
    (h : runOps applyMod e ops [] 0 = .done e' res) (x : XLine) (hx : x ∈ viewX e.f.syn.stmts) (hsp : Spared x.toks x.id e ops) :
    ∃ x' ∈ viewX (cleanup e').f.syn.stmts, x'.id = x.id ∧ x'.toks = x.toks ∧ x.before.Sublist x'.before ∧
      x'.suffix = x.suffix := by
  rcases runOps_untouchedS ops e [] 0 e' res hv hi h x hx hsp with ⟨y, hy, hxy⟩
  rcases keepsS_cleanupStmts e'.f.syn.stmts (runOps_inv_all ops e [] 0 e' res hv hi h).tree.noBlockSuffix y hy (by simp) with ⟨z, hz, hyz⟩
  exact ⟨z, hz, XLine.leS_trans hxy hyz⟩

/-- the run-following condition `Spared` follows from a static one: no operation names the tokens, and the line is not of
    a de-duplicated kind -/
theorem runOps_untouched_staticS (ops : List Op) : ∀ (e : EFile) (res0 : List Bool) (i : Nat) (e' : EFile) (res : List Bool),
    RunValid e ops → Inv e → runOps applyMod e ops res0 i = .done e' res →
    ∀ x ∈ viewX e.f.syn.stmts, (∀ op ∈ ops, ¬Targets op x.toks) → NotDedupVerb x.toks → ∃ x' ∈ viewX e'.f.syn.stmts, x.leS x' := by
  induction ops with
  | nil =>
    intro e res0 i e' res _ _ h x hx _ _
    simp only [runOps, SessionResult.done.injEq] at h
    rw [← h.1]; exact ⟨x, hx, x.leS_refl⟩
  | cons op ops ih =>
    intro e res0 i e' res hv hi h x hx hnt hnd
    unfold runOps at h
    cases ha : applyMod e op with
    | none => simp [ha] at h
    | some r =>
      cases r with
      | ok e1 =>
        simp only [ha] at h
        rcases applyMod_untouchedS e e1 op hv.1 hi ha x hx (hnt op List.mem_cons_self)
          (fun _ => hi.not_killed_of_verb hx hnd) with ⟨y, hy, hxy⟩
        rcases ih e1 _ _ e' res (hv.2.1 e1 ha) (applyMod_inv_all e e1 op hv.1 hi ha) h y hy
          (by rw [hxy.2.1]; exact fun o ho => hnt o (List.mem_cons_of_mem _ ho)) (by rw [hxy.2.1]; exact hnd) with ⟨z, hz, hyz⟩
        exact ⟨z, hz, XLine.leS_trans hxy hyz⟩
      | error err =>
        simp only [ha] at h
        by_cases hr : err.isReturned = true
        · simp only [hr, if_true] at h
          exact ih e _ _ e' res (hv.2.2 err ha hr) hi h x hx (fun o ho => hnt o (List.mem_cons_of_mem _ ho)) hnd
        · simp only [Bool.not_eq_true] at hr
          simp [hr] at h

/-- **C08 `untouched_lines_survive`, static form.**  In a go.mod session with valid arguments from a state satisfying the
    invariant, a line whose tokens no operation of the session names (`Targets` depends on the operation and the tokens
    only, not on the state) and that is not an `exclude` / `replace` / `tool` line is still in the tree after the final
    Cleanup, with its id, its tokens, its `Before` comments (sublist) and exactly its `Suffix` comments. -/
theorem untouched_lines_survive_static_eq (e e' : EFile) (ops : List Op) (res : List Bool) (hi : Inv e) (hv : RunValid e ops)
    (h : runOps applyMod e ops [] 0 = .done e' res) (x : XLine) (hx : x ∈ viewX e.f.syn.stmts)
    (hnt : ∀ op ∈ ops, ¬Targets op x.toks) (hnd : NotDedupVerb x.toks) :
    ∃ x' ∈ viewX (cleanup e').f.syn.stmts, x'.id = x.id ∧ x'.toks = x.toks ∧ x.before.Sublist x'.before ∧
      x'.suffix = x.suffix := by
  rcases runOps_untouched_staticS ops e [] 0 e' res hv hi h x hx hnt hnd with ⟨y, hy, hxy⟩
  rcases keepsS_cleanupStmts e'.f.syn.stmts (runOps_inv_all ops e [] 0 e' res hv hi h).tree.noBlockSuffix y hy (by simp) with ⟨z, hz, hyz⟩
  exact ⟨z, hz, XLine.leS_trans hxy hyz⟩

/-- **C16 `comments_survive`, SetRequire.**  For the FIRST existing requirement of a requested path, the line after
    SetRequire and Cleanup carries the requested version, every non-blank `Before` comment of the old line (the only
    comment ever dropped is the blank-line placeholder removed by `setVersion`), and EXACTLY the old `Suffix` comments as
    `setIndirect` rewrites them (`sfxAfter`: only the indirect marker of the first comment changes). -/
theorem setRequire_comments_eq (e e' : EFile) (req : List Want) (perm : List Want → List Want) (hperm : ∀ l, (perm l).Perm l)
    (hg : GoodWant req) (hi : Inv e) (hlive : ∀ r ∈ e.f.require, liveRq r = true) (hset : NoNestedIndirectMarker e)
    (h : setRequire e req perm = .ok e')
    (d : List Require) (r : Require) (t : List Require) (hsplit : e.f.require = d ++ r :: t)
    (hfirst : ∀ r' ∈ d, r'.mod.path ≠ r.mod.path) (w : Want) (hw : w ∈ req) (hwp : w.path = r.mod.path)
    (x0 : XLine) (hx0 : x0 ∈ viewX e.f.syn.stmts) (hid0 : x0.id = r.lineId) :
    ∃ x' ∈ viewX (cleanup e').f.syn.stmts, x'.toks = [B "require", autoQuote r.mod.path, w.vers] ∧
      BeforeKept x0.before x'.before ∧ x'.suffix = sfxAfter w.indirect x0.suffix := by
  have hnb := (setRequire_inv e e' req perm hperm hg hi hlive hset h).tree.noBlockSuffix
  have hr : r ∈ e.f.require := by rw [hsplit]; exact List.mem_append_right _ List.mem_cons_self
  have hlr := hlive r hr
  have hrp : r.mod.path ≠ [] := by intro e0; simp [liveRq, e0] at hlr
  have htoks : x0.toks = [B "require", autoQuote r.mod.path, r.mod.version] :=
    (hi.acc_of_id hx0 (mem_entries_require hr hlr) hid0.symm).1
  have hfind : req.find? (fun a => a.path == r.mod.path) = some w := by
    have hpw : (fun a : Want => a.path == r.mod.path) w = true := by simp [hwp]
    cases hf : req.find? (fun a => a.path == r.mod.path) with
    | none => exact absurd hpw (by simpa using (List.find?_eq_none.1 hf) w hw)
    | some w' =>
      have hw' := List.mem_of_find?_eq_some hf
      have hp' : w'.path = r.mod.path := by
        have := List.find?_some hf
        exact eq_of_beq this
      -- distinct paths: the two are the same element
      have : w' = w := by
        have hpw' := List.pairwise_iff_getElem.1 hg.1
        rcases List.mem_iff_getElem.1 hw' with ⟨i, hi', rfl⟩
        rcases List.mem_iff_getElem.1 hw with ⟨j, hj', rfl⟩
        rcases Nat.lt_trichotomy i j with hlt | heq | hgt
        · exact absurd (hp'.trans hwp.symm) (hpw' i j hi' hj' hlt)
        · subst heq; rfl
        · exact absurd (hwp.trans hp'.symm) (hpw' j i hj' hi' hgt)
      rw [this]
  unfold setRequire at h
  rw [needMap_distinct true req [] (by simpa using hg.1)] at h
  simp only [bind, Except.bind, List.nil_append] at h
  cases hr' : setRequireLoop e.f.require req e.f.syn with
  | error err => simp [hr'] at h
  | ok res =>
    rcases res with ⟨rq, need', syn'⟩
    simp only [hr', pure, Except.pure, Except.ok.injEq] at h
    subst h
    rcases setRequireLoop_abs _ _ _ _ _ _ hg hr' with ⟨_, hsub⟩
    rcases setRequireLoop_inv (A := segA_require e.f) (C := segC_require e.f) e.next e.f.require [] req e.f.syn rq need' syn'
      hg hlive hi.tree (by simp only [List.nil_append]; rw [← entries_require]; exact hi.mtch) hset hr' with ⟨hw', hm'⟩
    have hi1 : Inv (⟨{ e.f with require := rq, syn := syn' }, e.next⟩ : EFile) := by
      refine ⟨hw', ?_, hi.tinv.of_same rfl rfl rfl (Nat.le_refl _)⟩
      simp only [List.nil_append] at hm'
      rw [entries_require]; exact hm'
    have hne : ∀ w ∈ perm need', w.path ≠ [] := fun w hw => hg.2 w (hsub.subset ((hperm need').subset hw))
    have hnd := hi.require_ids_nodup hlive
    rw [hsplit] at hnd hr'
    rcases setRequireLoop_comments r t w e.next hrp d req e.f.syn rq need' syn' hi.tree hfirst hnd hfind hr' x0 hx0 hid0 _ _ htoks
      with ⟨x1, hx1, e1, e2, e3, e4⟩
    have k2 := foldl_addNewRequire_keepsS e.next (perm need') _ hi1 hne (Nat.le_refl _)
    have hlt : x1.id < e.next := by rw [e1, ← hid0]; exact hi.x_lt hx0
    rcases k2 x1 hx1 hlt (by simp) with ⟨x2, hx2, h12⟩
    have k3 := keepsS_sortBlocks ((perm need').foldl (fun e w => addNewRequire e w.path w.vers w.indirect)
      (⟨{ e.f with require := rq, syn := syn' }, e.next⟩ : EFile))
    rcases foldl_addNewRequire_fields (perm need') (⟨{ e.f with require := rq, syn := syn' }, e.next⟩ : EFile) with ⟨f1, f2, f3⟩
    rw [kill3_congr (g := e.f) f1 f2 f3] at k3
    rcases k3 x2 hx2 (by rw [h12.1, e1]; exact hi.require_not_killed r hr hlr) with ⟨x3, hx3, h23⟩
    rcases keepsS_cleanupStmts _ hnb x3 hx3 (by simp) with ⟨x4, hx4, h34⟩
    have hle := XLine.leS_trans (XLine.leS_trans h12 h23) h34
    refine ⟨x4, hx4, by rw [hle.2.1, e2], e3.trans_sub hle.2.2.1, hle.2.2.2.trans e4⟩

/-- **C16 `comments_survive`, SetRequireSeparateIndirect.**  As `setRequire_comments`; the line may have been moved to
    another block (under a fresh line id) — it keeps its comments all the same (end-of-line comments: exactly). -/
theorem setRequireSeparateIndirect_comments_eq (e e' : EFile) (req : List Want) (perm : List Want → List Want)
    (hperm : ∀ l, (perm l).Perm l) (hg : GoodWant req) (hi : Inv e) (hlive : ∀ r ∈ e.f.require, liveRq r = true)
    (hset : NoNestedIndirectMarker e) (h : setRequireSeparateIndirect e req perm = .ok e')
    (d : List Require) (r : Require) (t : List Require) (hsplit : e.f.require = d ++ r :: t)
    (hfirst : ∀ r' ∈ d, r'.mod.path ≠ r.mod.path) (w : Want) (hw : w ∈ req) (hwp : w.path = r.mod.path)
    (x0 : XLine) (hx0 : x0 ∈ viewX e.f.syn.stmts) (hid0 : x0.id = r.lineId) :
    ∃ x' ∈ viewX (cleanup e').f.syn.stmts, x'.toks = [B "require", autoQuote r.mod.path, w.vers] ∧
      BeforeKept x0.before x'.before ∧ x'.suffix = sfxAfter w.indirect x0.suffix := by
  have hnb := (setRequireSeparateIndirect_inv e e' req perm hperm hg hi hlive hset h).tree.noBlockSuffix
  have hr : r ∈ e.f.require := by rw [hsplit]; exact List.mem_append_right _ List.mem_cons_self
  have hlr := hlive r hr
  have htoks : x0.toks = [B "require", autoQuote r.mod.path, r.mod.version] :=
    (hi.acc_of_id hx0 (mem_entries_require hr hlr) hid0.symm).1
  have hfind : req.find? (fun a => a.path == r.mod.path) = some w := by
    have hpw : (fun a : Want => a.path == r.mod.path) w = true := by simp [hwp]
    cases hf : req.find? (fun a => a.path == r.mod.path) with
    | none => exact absurd hpw (by simpa using (List.find?_eq_none.1 hf) w hw)
    | some w' =>
      have hw' := List.mem_of_find?_eq_some hf
      have hp' : w'.path = r.mod.path := by
        have := List.find?_some hf
        exact eq_of_beq this
      have : w' = w := by
        have hpw' := List.pairwise_iff_getElem.1 hg.1
        rcases List.mem_iff_getElem.1 hw' with ⟨i, hi', rfl⟩
        rcases List.mem_iff_getElem.1 hw with ⟨j, hj', rfl⟩
        rcases Nat.lt_trichotomy i j with hlt | heq | hgt
        · exact absurd (hp'.trans hwp.symm) (hpw' i j hi' hj' hlt)
        · subst heq; rfl
        · exact absurd (hwp.trans hp'.symm) (hpw' j i hj' hi' hgt)
      rw [this]
  have hidlt : ∀ r' ∈ e.f.require, r'.lineId < e.next := fun r' hr' =>
    hi.mtch.ids_lt hi.tree (entRq r') (mem_entries_require hr' (hlive r' hr'))
  have hnd := hi.require_ids_nodup hlive
  rw [setRSI_eq] at h
  cases h1 : sepStage1 e.f.syn.stmts (scanStmts e.f.syn.stmts 0 {}) with
  | error err => simp [h1] at h
  | ok r1 =>
    rcases r1 with ⟨s1, dI, dO, lI, sh⟩
    simp only [h1] at h
    cases h2 : sepStage2 s1 dI lI sh with
    | error err => simp [h2] at h
    | ok r2 =>
      rcases r2 with ⟨s2, iI, iO⟩
      simp only [h2] at h
      have hgood := sepStage_spec e.f.syn.stmts hi.tree.shape hi.view2 _ (scan_inv _) h1 h2
      have k0 := sepStage_keepsEq e.f.syn.stmts hi.tree.shape hi.view2 _ (scan_inv _) h1 h2
      have hx0s : x0 ∈ viewX s2 := k0 x0 hx0 (by simp)
      unfold sepTail at h
      rw [needMap_distinct false req [] (by simpa using hg.1)] at h
      simp only [bind, Except.bind, List.nil_append] at h
      generalize hctx : (SepCtx.mk (sepOneFlat e.f.syn.stmts (scanStmts e.f.syn.stmts 0 {})) dI iI dO iO (scanStmts e.f.syn.stmts 0 {}).lineToBlock) = ctx at h
      have hcd : ctx.directIdx = dI := by rw [← hctx]
      have hci : ctx.indirectIdx = iI := by rw [← hctx]
      cases hr' : sepLoop ctx req e.f.require [] { e.f.syn with stmts := s2 } e.next with
      | error err => simp [hr'] at h
      | ok res =>
        rcases res with ⟨rq, have', syn', next'⟩
        simp only [hr', pure, Except.pure, Except.ok.injEq] at h
        subst h
        have hw0 : TreeWF s2 e.next :=
          ⟨by rw [hgood.ids_eq]; exact hi.tree.nodup, by rw [hgood.ids_eq]; exact hi.tree.lt, by rw [hgood.ids_eq]; exact hi.tree.pos,
           hgood.shape.blockTok, hgood.shape.flagTop, hgood.shape.flagIn, hgood.shape.noBlockSuffix⟩
        have hset0 : ∀ r ∈ e.f.require, ∀ v ∈ view s2, v.id = r.lineId → MarkerSettable v.suffix := by
          intro r hr v hv; rw [hgood.view_eq] at hv; exact hset r hr v hv
        -- the whole loop, for the invariant of the result
        have hm0 : Match (segA_require e.f ++ (entsOf liveRq entRq ([] ++ e.f.require) ++ segC_require e.f)) (view s2) := by
          simp only [List.nil_append]; rw [← entries_require, hgood.view_eq]; exact hi.mtch
        rcases sepLoop_inv (A := segA_require e.f) (C := segC_require e.f) ctx req e.f.require [] [] { e.f.syn with stmts := s2 } e.next
          rq have' syn' next' hlive hw0 hi.tinv.pos hm0 (by rw [hcd]; exact hgood.direct) (by rw [hci]; exact hgood.indirect) hset0 hr'
          with ⟨hw', hle, hm', hbd', hbi'⟩
        have hi1 : Inv (⟨{ e.f with require := rq, syn := syn' }, next'⟩ : EFile) := by
          refine ⟨hw', ?_, hi.tinv.of_same rfl rfl rfl hle⟩
          simp only [List.nil_append] at hm'
          rw [entries_require]; exact hm'
        -- split at `r`
        rw [hsplit] at hr' hnd
        rcases sepLoop_split ctx req (r :: t) d [] _ e.next rq have' syn' next' hr' with ⟨d', hm, synm, nextm, rs'', q1, q2, _, q4⟩
        have hmd : Match (segA_require e.f ++ (entsOf liveRq entRq ([] ++ d) ++ (entsOf liveRq entRq (r :: t) ++ segC_require e.f))) (view s2) := by
          simp only [List.nil_append]
          rw [← List.append_assoc (entsOf liveRq entRq d), ← entsOf_append, ← hsplit, ← entries_require, hgood.view_eq]
          exact hi.mtch
        have hlived : ∀ r' ∈ d, liveRq r' = true := fun r' hr' => hlive r' (by rw [hsplit]; exact List.mem_append_left _ hr')
        have hsetd : ∀ r' ∈ d, ∀ v ∈ view s2, v.id = r'.lineId → MarkerSettable v.suffix :=
          fun r' hr' => hset0 r' (by rw [hsplit]; exact List.mem_append_left _ hr')
        rcases sepLoop_inv (A := segA_require e.f) (C := entsOf liveRq entRq (r :: t) ++ segC_require e.f) ctx req d [] []
          { e.f.syn with stmts := s2 } e.next d' hm synm nextm hlived hw0 hi.tinv.pos hmd (by rw [hcd]; exact hgood.direct)
          (by rw [hci]; exact hgood.indirect) hsetd q1 with ⟨hwm, hlem, _, hbdm, hbim⟩
        have hndd : ∀ r' ∈ d, r'.lineId ≠ r.lineId := by
          intro r' hr' e0
          simp only [List.map_append, List.map_cons] at hnd
          rcases List.nodup_append.1 hnd with ⟨_, _, n3⟩
          exact n3 _ (List.mem_map.2 ⟨r', hr', rfl⟩) _ List.mem_cons_self e0
        have hx0m : x0 ∈ viewX synm.stmts := by
          refine sepLoop_keepsEq ctx req d _ _ _ _ _ _ _ q1 x0 hx0s ?_
          intro hmem
          rcases List.mem_map.1 hmem with ⟨r', hr', e0⟩
          exact hndd r' hr' (e0.trans hid0)
        have hcm : hm.contains r.mod.path = false := by
          cases hcc : hm.contains r.mod.path with
          | false => rfl
          | true =>
            have hmem : r.mod.path ∈ hm := by simpa using hcc
            rcases q4 _ hmem with h0 | ⟨r', hr', e0⟩
            · cases h0
            · exact absurd e0 (hfirst r' hr')
        have hndt : ((r :: t).map (·.lineId)).Nodup := by
          simp only [List.map_append] at hnd
          exact (List.nodup_append.1 hnd).2.1
        have hltt : ∀ r' ∈ t, r'.lineId < nextm := fun r' hr' =>
          Nat.lt_of_lt_of_le (hidlt r' (by rw [hsplit]; exact List.mem_append_right _ (List.mem_cons_of_mem _ hr'))) hlem
        rcases sepLoop_first_comments ctx req r t w hm synm nextm rs'' have' syn' next'
          hwm hbdm hbim hfind hcm hndt hltt q2 x0 hx0m hid0 _ _ htoks with ⟨x1, hx1, hid1, e2, e3, e4⟩
        -- the missing entries, SortBlocks, Cleanup
        have k2 := foldl_addSepNew_keepsS ctx ((perm req).filter fun w => !have'.contains w.path)
          (⟨{ e.f with require := rq, syn := syn' }, next'⟩ : EFile)
        rcases k2 x1 hx1 (by simp) with ⟨x2, hx2, h12⟩
        have k3 := keepsS_sortBlocks (((perm req).filter fun w => !have'.contains w.path).foldl (addSepNew ctx)
          (⟨{ e.f with require := rq, syn := syn' }, next'⟩ : EFile))
        rcases foldl_addSepNew_fields ctx ((perm req).filter fun w => !have'.contains w.path)
          (⟨{ e.f with require := rq, syn := syn' }, next'⟩ : EFile) with ⟨f1, f2, f3⟩
        rw [kill3_congr (g := e.f) f1 f2 f3] at k3
        have hnk : x2.id ∉ kill3 e.f := by
          rw [h12.1]
          rcases hid1 with hh | hh
          · rw [hh]; exact hi.require_not_killed r hr hlr
          · intro hk
            have := hi.kill3_lt _ hk
            omega
        rcases k3 x2 hx2 hnk with ⟨x3, hx3, h23⟩
        rcases keepsS_cleanupStmts _ hnb x3 hx3 (by simp) with ⟨x4, hx4, h34⟩
        have hle' := XLine.leS_trans (XLine.leS_trans h12 h23) h34
        refine ⟨x4, hx4, by rw [hle'.2.1, e2], e3.trans_sub hle'.2.2.1, hle'.2.2.2.trans e4⟩

/-- **C16 `comments_survive` along a session, with equality of the end-of-line comments.**  Session
    `ops1 ++ [bulk setter, Cleanup] ++ ops2` from a state satisfying the invariant, every operation with valid arguments in the
    state in which it runs.  Let `x0` be a line of the starting tree that `ops1` spares (`Spared`), and let it be, in the state
    `e1` in which the setter runs, the line of the FIRST requirement `r` of a requested path (`w ∈ want`, `w.path = r.mod.path`).
    Then (1) in `e1` the line is still there with its id, its tokens, its `Before` comments (sublist: Cleanup prepends the
    whole-line comments of a collapsed block) and EXACTLY its `Suffix` comments (`x0.leS x1`); (2) if no operation of `ops2`
    names the rewritten line `require <path> <requested version>`, the tree after the final Cleanup has a line with exactly
    these tokens that carries every non-blank `Before` comment of `x0` and whose end-of-line comments are EXACTLY those of `x0`
    as `setIndirect` rewrites them (`sfxAfter`: only the indirect marker changes). -/
theorem comments_survive_session_eq (e e1 e' : EFile) (ops1 ops2 : List Op) (sep rev : Bool) (want : List Want)
    (res res1 : List Bool) (hi : Inv e) (hv : RunValid e (ops1 ++ bulkOp sep want rev :: .cleanup :: ops2))
    (h : runOps applyMod e (ops1 ++ bulkOp sep want rev :: .cleanup :: ops2) [] 0 = .done e' res)
    (h1 : runOps applyMod e ops1 [] 0 = .done e1 res1)
    (d : List Require) (r : Require) (t : List Require) (hsplit : e1.f.require = d ++ r :: t)
    (hfirst : ∀ r' ∈ d, r'.mod.path ≠ r.mod.path) (w : Want) (hw : w ∈ want) (hwp : w.path = r.mod.path)
    (x0 : XLine) (hx0 : x0 ∈ viewX e.f.syn.stmts) (hid0 : x0.id = r.lineId) (hsp1 : Spared x0.toks x0.id e ops1)
    (hsp2 : ∀ op ∈ ops2, ¬Targets op [B "require", autoQuote r.mod.path, w.vers]) :
    ∃ x1 ∈ viewX e1.f.syn.stmts, x0.leS x1 ∧
      ∃ x' ∈ viewX (cleanup e').f.syn.stmts, x'.toks = [B "require", autoQuote r.mod.path, w.vers] ∧
        BeforeKept x0.before x'.before ∧ x'.suffix = sfxAfter w.indirect x0.suffix := by
  rcases runOps_append applyMod ops1 _ e [] 0 e' res h with ⟨e1', r1', h1', h2⟩
  rw [h1] at h1'
  simp only [SessionResult.done.injEq] at h1'
  obtain ⟨rfl, rfl⟩ := h1'
  have hv1 := RunValid.left ops1 _ e hv
  have hv2 := RunValid.right ops1 _ e [] 0 e1 res1 hv h1
  have hi1 : Inv e1 := runOps_inv_all ops1 e [] 0 e1 res1 hv1 hi h1
  rcases runOps_untouchedS ops1 e [] 0 e1 res1 hv1 hi h1 x0 hx0 hsp1 with ⟨x1, hx1, h01⟩
  refine ⟨x1, hx1, h01, ?_⟩
  have hid1 : x1.id = r.lineId := h01.1.trans hid0
  -- the setter succeeds and keeps the comments of `x1`
  have hbulk : ∃ e2, applyMod e1 (bulkOp sep want rev) = some (.ok e2) ∧
      ∃ x2 ∈ viewX (cleanup e2).f.syn.stmts, x2.toks = [B "require", autoQuote r.mod.path, w.vers] ∧
        BeforeKept x1.before x2.before ∧ x2.suffix = sfxAfter w.indirect x1.suffix := by
    have hva := hv2.1
    cases sep with
    | false =>
      simp only [bulkOp, Bool.false_eq_true, if_false] at hva ⊢
      rcases setRequire_total e1 want (permOf rev) hva.1 hi1 hva.2.1 with ⟨e2, he2⟩
      exact ⟨e2, by simp [applyMod, he2],
        setRequire_comments_eq e1 e2 want (permOf rev) (permOf_perm rev) hva.1 hi1 hva.2.1 hva.2.2 he2 d r t hsplit hfirst w hw hwp
          x1 hx1 hid1⟩
    | true =>
      simp only [bulkOp, if_true] at hva ⊢
      rcases setRequireSeparateIndirect_total e1 want (permOf rev) hva.1 hi1 hva.2.1 with ⟨e2, he2⟩
      exact ⟨e2, by simp [applyMod, he2],
        setRequireSeparateIndirect_comments_eq e1 e2 want (permOf rev) (permOf_perm rev) hva.1 hi1 hva.2.1 hva.2.2 he2 d r t hsplit hfirst w hw hwp
          x1 hx1 hid1⟩
  rcases hbulk with ⟨e2, ha, x2, hx2, ht2, hb2, hs2⟩
  have hi2 : Inv e2 := applyMod_inv_all e1 e2 _ hv2.1 hi1 ha
  have hv3 : RunValid e2 (.cleanup :: ops2) := hv2.2.1 e2 ha
  have hv4 : RunValid (cleanup e2) ops2 := hv3.2.1 (cleanup e2) rfl
  have h3 : ∃ res0 i, runOps applyMod (cleanup e2) ops2 res0 i = .done e' res := by
    unfold runOps at h2
    simp only [ha] at h2
    unfold runOps at h2
    simp only [applyMod] at h2
    exact ⟨_, _, h2⟩
  rcases h3 with ⟨res0, i, h3⟩
  have hne : B "require" ≠ B "exclude" ∧ B "require" ≠ B "replace" ∧ B "require" ≠ B "tool" := by decide +kernel
  have hnd : NotDedupVerb x2.toks := by
    rw [ht2]
    refine ⟨?_, ?_, ?_⟩ <;> simp only [List.head?_cons, ne_eq, Option.some.injEq]
    · exact hne.1
    · exact hne.2.1
    · exact hne.2.2
  rcases runOps_untouched_staticS ops2 (cleanup e2) res0 i e' res hv4 (cleanup_inv e2 hi2) h3 x2 hx2
    (by rw [ht2]; exact hsp2) hnd with ⟨x3, hx3, h23⟩
  rcases keepsS_cleanupStmts e'.f.syn.stmts
    (runOps_inv_all ops2 (cleanup e2) res0 i e' res hv4 (cleanup_inv e2 hi2) h3).tree.noBlockSuffix x3 hx3 (by simp) with ⟨x4, hx4, h34⟩
  have h24 := XLine.leS_trans h23 h34
  exact ⟨x4, hx4, by rw [h24.2.1, ht2], (BeforeKept.of_sublist h01.2.2.1 hb2).trans_sub h24.2.2.1, by rw [h24.2.2.2, hs2, h01.2.2.2]⟩

end ModVerif.Modfile.Edit
