/-
  C02 stage 4, part e: one `File.add` step, all verbs together (`add_step`): on a strict, error-free step
  whose result is well-formed, the rewritten arguments are line tokens other than parentheses, the state
  before the step is well-formed too, and the step can be replayed on the rewritten arguments from any
  state with the same values.
-/
import ModVerif.Proofs.ModfileFmtDir2
namespace ModVerif.Proofs.ModfileFmtDir
open ModVerif ModVerif.Modfile ModVerif.Proofs.ModfileFmtLex ModVerif.Proofs.ModfileFmtLine
open ModVerif.Proofs.ModfileFmtFix

/-- the fixer never returns the empty string as a version -/
def FixNE (fix : Option Fixer) : Prop := ∀ fx, fix = some fx → ∀ p v, fx p v ≠ .ok []

theorem mem_snoc_left {α} {x : α} {l : List α} {y : α} (h : x ∈ l) : x ∈ l ++ [y] := List.mem_append_left _ h

theorem punct_tokText (c : UInt8) (hc : c ∈ punctBytes) : TokText [c] := tokOK_tokText (TokOK.punct c hc)

theorem goVersionRE_not_paren {a : Bytes} (h : goVersionRE a = true) : a ≠ [40] ∧ a ≠ [41] := by
  constructor <;> (intro e; subst e; revert h; decide)

theorem toolchainRE_not_paren {a : Bytes} (h : toolchainRE a = true) : a ≠ [40] ∧ a ≠ [41] := by
  constructor <;> (intro e; subst e; revert h; decide +kernel)

theorem addGodebug_not_paren {args : List Bytes} {k v : Bytes} (h : addGodebug args = some (k, v)) :
    ∀ t ∈ args, t ≠ [40] ∧ t ≠ [41] := by
  unfold addGodebug at h
  split at h
  · rename_i a
    split at h
    · cases h
    · intro t ht
      simp at ht
      subst ht
      constructor <;> (intro e; subst e; simp [GoStrings.cut] at h)
  · cases h

theorem B_arrow_tok : TokText (B "=>") ∧ B "=>" ≠ [40] ∧ B "=>" ≠ [41] := by
  refine ⟨?_, by decide +kernel, by decide +kernel⟩
  have : mustQuote (B "=>") = false := by decide +kernel
  exact tokOK_tokText (ModfileFmtQuote.autoQuote_unquoted_ident this (by decide +kernel))

/-- ★ one strict `File.add` step without error -/
theorem add_step (st st1 : AddState) (block : Option Comments) (l : Line) (verb : Bytes) (args args1 : List Bytes)
    (fix : Option Fixer) (h : File.add st block l verb args fix true = (st1, args1)) (he : st1.errsRev = [])
    (hfix : FixOK fix) (hne : FixNE fix) (hl : l.comments.suffix = []) (hwf : WellFormed st1.file)
    (horig : ∀ t ∈ args, TokText t) :
    StepOK st st1 verb args1 fix ∧ WellFormed st.file ∧ ArgsTok args1 ∧ args1 ≠ [] := by
  by_cases h1 : verb = B "go"
  · subst h1
    obtain ⟨hs, a, rfl, rfl, hre, hf⟩ := add_go st st1 block l args args1 fix h he
    rw [hf] at hwf
    refine ⟨hs, ⟨hwf.module, hwf.require, hwf.exclude, hwf.replace, hwf.retract, hwf.tool⟩, ?_, by simp⟩
    intro t ht
    simp at ht; subst ht
    exact ⟨horig _ (by simp), goVersionRE_not_paren hre⟩
  by_cases h2 : verb = B "toolchain"
  · subst h2
    obtain ⟨hs, a, rfl, rfl, hre, hf⟩ := add_toolchain st st1 block l args args1 fix h he
    rw [hf] at hwf
    refine ⟨hs, ⟨hwf.module, hwf.require, hwf.exclude, hwf.replace, hwf.retract, hwf.tool⟩, ?_, by simp⟩
    intro t ht
    simp at ht; subst ht
    exact ⟨horig _ (by simp), toolchainRE_not_paren hre⟩
  by_cases h3 : verb = B "module"
  · subst h3
    obtain ⟨hs, a, s, d, rfl, hps, rfl, hf⟩ := add_module st st1 block l args args1 fix h he
    have hp : PathOK s := by
      have := hwf.module _ (by rw [hf])
      exact this
    have hmnone : st.file.module = none := by
      -- the step succeeded, so no module had been set
      unfold File.add at h
      simp only [Bool.not_true, Bool.false_and, Bool.false_eq_true, if_false, beq_self_eq_true, if_true, verb_ne.2.1,
        verb_ne.2.2.1] at h
      split at h
      · simp only [Prod.mk.injEq] at h; obtain ⟨rfl, _⟩ := h; exact absurd he (err_ne_nil _ _ _)
      · rename_i hm
        cases hmm : st.file.module with
        | none => rfl
        | some m => rw [hmm] at hm; simp at hm
    rw [hf] at hwf
    have hmod : ∀ m, st.file.module = some m → PathOK m.mod.path := by
      intro m hm; rw [hmnone] at hm; cases hm
    refine ⟨hs, ⟨hmod, hwf.require, hwf.exclude, hwf.replace, hwf.retract, hwf.tool⟩, ?_, by simp⟩
    intro t ht
    simp at ht; subst ht
    exact pathOK_tok hp
  by_cases h4 : verb = B "godebug"
  · subst h4
    obtain ⟨hs, k, v, rfl, hg, hf⟩ := add_godebug st st1 block l args args1 fix h he
    rw [hf] at hwf
    refine ⟨hs, ⟨hwf.module, hwf.require, hwf.exclude, hwf.replace, hwf.retract, hwf.tool⟩, ?_, ?_⟩
    · intro t ht
      exact ⟨horig t ht, addGodebug_not_paren hg t ht⟩
    · intro e; subst e; simp [addGodebug] at hg
  by_cases h5 : verb = B "require"
  · subst h5
    obtain ⟨a0, a1, s, v, rfl, rfl, hf, hrest⟩ := add_require st st1 block l _ args1 fix h he hfix hl
    have hnew := hwf.require { mod := { path := s, version := v }, indirect := false, lineId := l.id } (by rw [hf]; simp)
    obtain ⟨hvok, hs⟩ := hrest (fun _ => hnew.2)
    rw [hf] at hwf
    refine ⟨hs, ⟨hwf.module, fun r hr => hwf.require r (mem_snoc_left hr), hwf.exclude, hwf.replace, hwf.retract,
      hwf.tool⟩, ?_, by simp⟩
    intro t ht
    simp at ht
    rcases ht with rfl | rfl
    · exact pathOK_tok hnew.1
    · exact verOK_tok hvok
  by_cases h6 : verb = B "exclude"
  · subst h6
    obtain ⟨a0, a1, s, v, rfl, rfl, hf, hrest⟩ := add_exclude st st1 block l _ args1 fix h he hfix hl
    have hnew := hwf.exclude { mod := { path := s, version := v }, lineId := l.id } (by rw [hf]; simp)
    obtain ⟨hvok, hs⟩ := hrest (fun _ => hnew.2)
    rw [hf] at hwf
    refine ⟨hs, ⟨hwf.module, hwf.require, fun r hr => hwf.exclude r (mem_snoc_left hr), hwf.replace, hwf.retract,
      hwf.tool⟩, ?_, by simp⟩
    intro t ht
    simp at ht
    rcases ht with rfl | rfl
    · exact pathOK_tok hnew.1
    · exact verOK_tok hvok
  by_cases h7 : verb = B "replace"
  · subst h7
    obtain ⟨r, hf, hargs, hrest⟩ := add_replace st st1 block l args args1 fix h he hfix hne
    have hnew := hwf.replace r (by rw [hf]; simp)
    obtain ⟨hs, hvo, hvn⟩ := hrest (fun _ => ⟨hnew.2.1, hnew.2.2.2⟩)
    rw [hf] at hwf
    refine ⟨hs, ⟨hwf.module, hwf.require, hwf.exclude, fun r' hr => hwf.replace r' (mem_snoc_left hr), hwf.retract,
      hwf.tool⟩, ?_, by rw [hargs]; simp [replaceToks]⟩
    rw [hargs]
    intro t ht
    simp only [replaceToks, List.mem_append, List.mem_singleton] at ht
    rcases ht with (((ht | ht) | ht) | ht) | ht
    · subst ht; exact pathOK_tok hnew.1
    · split at ht
      · simp at ht
      · rename_i hv; simp at ht; subst ht; exact verOK_tok (hvo hv)
    · subst ht; exact B_arrow_tok
    · subst ht; exact pathOK_tok hnew.2.2.1
    · split at ht
      · simp at ht
      · rename_i hv; simp at ht; subst ht; exact verOK_tok (hvn hv)
  by_cases h8 : verb = B "retract"
  · subst h8
    obtain ⟨vi, rat, hf, hrest⟩ := add_retract st st1 block l args args1 fix h he
    have hnew := hwf.retract { interval := vi, rationale := rat, lineId := l.id } (by rw [hf]; simp)
    obtain ⟨hs, hshape⟩ := hrest hnew.1 hnew.2
    rw [hf] at hwf
    refine ⟨hs, ⟨hwf.module, hwf.require, hwf.exclude, hwf.replace, fun r hr => hwf.retract r (mem_snoc_left hr),
      hwf.tool⟩, ?_, ?_⟩
    · rcases hshape with ⟨rfl, _⟩ | rfl
      · intro t ht; simp at ht; subst ht; exact verOK_tok hnew.1
      · intro t ht
        simp at ht
        rcases ht with rfl | rfl | rfl | rfl | rfl
        · exact ⟨punct_tokText 91 (by decide), by decide, by decide⟩
        · exact verOK_tok hnew.1
        · exact ⟨punct_tokText 44 (by decide), by decide, by decide⟩
        · exact verOK_tok hnew.2
        · exact ⟨punct_tokText 93 (by decide), by decide, by decide⟩
    · rcases hshape with ⟨rfl, _⟩ | rfl <;> simp
  by_cases h9 : verb = B "tool"
  · subst h9
    obtain ⟨hs, a, s, rfl, hps, rfl, hf⟩ := add_tool st st1 block l args args1 fix h he
    have hnew := hwf.tool { path := s, lineId := l.id } (by rw [hf]; simp)
    rw [hf] at hwf
    refine ⟨hs, ⟨hwf.module, hwf.require, hwf.exclude, hwf.replace, hwf.retract,
      fun t ht => hwf.tool t (mem_snoc_left ht)⟩, ?_, by simp⟩
    intro t ht
    simp at ht; subst ht
    exact pathOK_tok hnew
  · -- unknown directive: an error
    exfalso
    have e1 : (verb == B "go") = false := by simpa using h1
    have e2 : (verb == B "toolchain") = false := by simpa using h2
    have e3 : (verb == B "module") = false := by simpa using h3
    have e4 : (verb == B "godebug") = false := by simpa using h4
    have e5 : (verb == B "require") = false := by simpa using h5
    have e6 : (verb == B "exclude") = false := by simpa using h6
    have e7 : (verb == B "replace") = false := by simpa using h7
    have e8 : (verb == B "retract") = false := by simpa using h8
    have e9 : (verb == B "tool") = false := by simpa using h9
    unfold File.add at h
    simp only [Bool.not_true, Bool.false_and, Bool.false_eq_true, if_false, e1, e2, e3, e4, e5, e6, e7, e8, e9,
      Bool.or_self, Prod.mk.injEq] at h
    obtain ⟨rfl, _⟩ := h
    exact absurd he (err_ne_nil _ _ _)

end ModVerif.Proofs.ModfileFmtDir
