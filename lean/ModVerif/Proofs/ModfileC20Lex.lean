/-
  C20 `pos_consistent`, lexer level: the full position invariant (byte, line, rune-in-line) of the
  lexer state, its preservation by `readToken`, and what it says about the delivered token, about the
  recorded suffix comments and about the position of every lexer error.
-/
import ModVerif.Proofs.ModfilePos
import ModVerif.Proofs.ModfileC20Utf8
namespace ModVerif.Proofs.ModfileC20
open ModVerif ModVerif.Modfile ModVerif.Proofs.ModfileLex ModVerif.Proofs.ModfilePos ModVerif.Proofs.ModfileC20Utf8

/-- the bytes of `c` after its last newline byte -/
def lastLine (c : Bytes) : Bytes := (c.reverse.takeWhile (· != 10)).reverse

/-- A position that is consistent with the input: its byte offset lies inside the input, its line is one
    plus the number of newline bytes before the offset, and its rune-in-line is one plus the number of
    runes (Go's `utf8.RuneCountInString`) between the last newline before the offset and the offset. -/
structure PosOK (data : Bytes) (p : Position) : Prop where
  le : p.byte ≤ data.length
  line : p.line = 1 + (data.take p.byte).count 10
  lineRune : p.lineRune = 1 + GoStrings.runeCount (lastLine (data.take p.byte))

/-- a consistent position at which the input continues with `text` -/
def PosAt (data : Bytes) (p : Position) (text : Bytes) : Prop :=
  PosOK data p ∧ text <+: data.drop p.byte

/-- the lexer invariant without the pending token's start (which is a dummy before the first token) -/
structure LInv0 (data : Bytes) (i : Input) : Prop where
  base : Inv data i
  line : i.pos.line = 1 + i.consumedRev.count 10
  rune1 : 1 ≤ i.pos.lineRune
  aligned : Aligned ((i.consumedRev.takeWhile (· != 10)).reverse ++ i.remaining)
              (i.consumedRev.takeWhile (· != 10)).length (i.pos.lineRune - 1)
  comments : ∀ c ∈ i.commentsRev, PosAt data c.start c.token ∧ c.suffix = true

/-- the full lexer invariant -/
structure LInv (data : Bytes) (i : Input) : Prop extends LInv0 data i where
  tokpos : PosOK data i.token.pos

theorem LInv0.cur {data : Bytes} {i : Input} (h : LInv0 data i) : PosOK data i.pos := by
  have hb := h.base
  have htake : data.take i.pos.byte = i.consumedRev.reverse := by
    rw [← hb.split, hb.byte, ← List.length_reverse]
    exact List.take_left
  refine ⟨?_, ?_, ?_⟩
  · rw [← hb.split, hb.byte]; simp
  · rw [htake, h.line, List.count_reverse]
  · rw [htake]
    unfold lastLine
    rw [List.reverse_reverse]
    have := h.aligned.runeCount
    rw [← List.length_reverse, List.take_left] at this
    rw [this]
    have := h.rune1
    omega

theorem linv0_newInput (data : Bytes) : LInv0 data (newInput data) :=
  ⟨inv_newInput data, rfl, Nat.le_refl 1, Aligned.zero _, by intro c hc; cases hc⟩

theorem readRune_err {i : Input} {e : SynErr} (h : readRune i = .error e) : e.pos = i.pos := by
  unfold readRune at h
  split at h
  · cases h; rfl
  · cases h

theorem aligned_step (c rem : Bytes) (n : Nat) (hne : rem ≠ [])
    (ha : Aligned ((c.takeWhile (· != 10)).reverse ++ rem) (c.takeWhile (· != 10)).length n) :
    Aligned ((((rem.take (Utf8.decodeRune rem).2).reverse ++ c).takeWhile (· != 10)).reverse ++
        rem.drop (Utf8.decodeRune rem).2)
      (((rem.take (Utf8.decodeRune rem).2).reverse ++ c).takeWhile (· != 10)).length
      (if (Utf8.decodeRune rem).1 = 10 then 0 else n + 1) := by
  by_cases h10 : (Utf8.decodeRune rem).1 = 10
  · rw [decodeRune_eq_newline hne h10]
    simp only [h10, if_true]
    simp only [List.reverse_cons, List.reverse_nil, List.nil_append, List.cons_append]
    rw [List.takeWhile_cons_of_neg (by decide)]
    exact Aligned.zero _
  · simp only [h10, if_false]
    have hall : ∀ b ∈ (rem.take (Utf8.decodeRune rem).2).reverse, (b != 10) = true := by
      intro b hb
      have := decodeRune_ne_newline hne h10 b (List.mem_reverse.mp hb)
      simpa using this
    rw [List.takeWhile_append_of_pos hall]
    simp only [List.reverse_append, List.reverse_reverse, List.append_assoc, List.take_append_drop,
      List.length_append, List.length_reverse]
    have hw := decodeRune_width rem hne
    have hs := ha.snoc (by rw [← List.length_reverse, List.drop_left]; exact hne)
    rw [← List.length_reverse, List.drop_left] at hs
    have hlen : (rem.take (Utf8.decodeRune rem).2).length = (Utf8.decodeRune rem).2 := by
      rw [List.length_take]; omega
    rw [hlen, Nat.add_comm]
    rw [List.length_reverse] at hs
    exact hs

theorem linv0_readRune {data : Bytes} {i i' : Input} {r : Nat} (hi : LInv0 data i) (h : readRune i = .ok (r, i')) :
    LInv0 data i' := by
  have hbase := inv_readRune hi.base h
  unfold readRune at h
  split at h
  · cases h
  · rename_i a t hrem
    have hne : i.remaining ≠ [] := by rw [hrem]; simp
    have hw := decodeRune_width i.remaining hne
    have hnl := decodeRune_newline i.remaining hne
    have hal := aligned_step i.consumedRev i.remaining _ hne hi.aligned
    have hr1 := hi.rune1
    simp only [Except.ok.injEq, Prod.mk.injEq] at h
    obtain ⟨_, rfl⟩ := h
    refine ⟨hbase, ?_, ?_, ?_, hi.comments⟩
    · show (if ((Utf8.decodeRune i.remaining).1 == 10) = true then _ else _ : Position).line = _
      simp only [List.count_append, List.count_reverse, hnl, hi.line]
      by_cases h10 : (Utf8.decodeRune i.remaining).1 = 10
      · simp [h10]; omega
      · simp [h10]
    · show 1 ≤ (if ((Utf8.decodeRune i.remaining).1 == 10) = true then _ else _ : Position).lineRune
      split <;> simp
    · by_cases h10 : (Utf8.decodeRune i.remaining).1 = 10
      · simp only [h10, if_true] at hal
        simpa [h10] using hal
      · simp only [h10, if_false] at hal
        have : i.pos.lineRune - 1 + 1 = i.pos.lineRune + 1 - 1 := by omega
        rw [this] at hal
        simpa [h10] using hal


/-! ### outcome predicates: a state satisfying `P`, or an error at a position satisfying `Q` -/

def Res (P : Input → Prop) (Q : Position → Prop) : Except SynErr Input → Prop
  | .ok i => P i
  | .error e => Q e.pos

section res
variable {P : Input → Prop} {Q : Position → Prop}
  (hP : ∀ i r i', P i → readRune i = .ok (r, i') → P i') (hQ : ∀ i, P i → Q i.pos)
include hP hQ

theorem skipSpaces_res : ∀ (fuel : Nat) (i : Input), P i → Res P Q (skipSpaces fuel i) := by
  intro fuel
  induction fuel with
  | zero => intro i hp; exact hQ i hp
  | succ n ih =>
    intro i hp
    unfold skipSpaces
    split
    · exact hp
    · simp only
      split
      · cases h1 : readRune i with
        | error e => simp only [bind, Except.bind]; show Q e.pos; rw [readRune_err h1]; exact hQ i hp
        | ok v => simp only [bind, Except.bind]; exact ih v.2 (hP i v.1 v.2 hp (by rw [h1]))
      · exact hp

theorem consumeLine_res : ∀ (fuel : Nat) (i : Input), P i → Res P Q (consumeLine fuel i) := by
  intro fuel
  induction fuel with
  | zero => intro i hp; exact hQ i hp
  | succ n ih =>
    intro i hp
    unfold consumeLine
    split
    · exact hp
    · cases h1 : readRune i with
      | error e => simp only [bind, Except.bind]; show Q e.pos; rw [readRune_err h1]; exact hQ i hp
      | ok v =>
        simp only [bind, Except.bind]
        have hv := hP i v.1 v.2 hp (by rw [h1])
        split
        · exact hv
        · exact ih v.2 hv

theorem readIdent_res : ∀ (fuel : Nat) (i : Input), P i → Res P Q (readIdent fuel i) := by
  intro fuel
  induction fuel with
  | zero => intro i hp; exact hQ i hp
  | succ n ih =>
    intro i hp
    unfold readIdent
    split
    · split
      · exact hp
      · split
        · exact hQ i hp
        · cases h1 : readRune i with
          | error e => simp only [bind, Except.bind]; show Q e.pos; rw [readRune_err h1]; exact hQ i hp
          | ok v => simp only [bind, Except.bind]; exact ih v.2 (hP i v.1 v.2 hp (by rw [h1]))
    · exact hp

theorem readString_res (hT : ∀ i, P i → Q i.token.pos) (q : Nat) :
    ∀ (fuel : Nat) (i : Input), P i → Res P Q (readString q fuel i) := by
  intro fuel
  induction fuel with
  | zero => intro i hp; exact hQ i hp
  | succ n ih =>
    intro i hp
    unfold readString
    split
    · exact hT i hp
    · split
      · exact hQ i hp
      · cases h1 : readRune i with
        | error e => simp only [bind, Except.bind]; show Q e.pos; rw [readRune_err h1]; exact hQ i hp
        | ok v =>
          simp only [bind, Except.bind]
          have hv := hP i v.1 v.2 hp (by rw [h1])
          split
          · exact hv
          · split
            · split
              · exact hT v.2 hv
              · cases h2 : readRune v.2 with
                | error e => simp only; show Q e.pos; rw [readRune_err h2]; exact hQ v.2 hv
                | ok w => simp only; exact ih w.2 (hP v.2 w.1 w.2 hv (by rw [h2]))
            · exact ih v.2 hv

end res


/-! ### the full invariant through `readToken` -/

theorem readRune_token {i i' : Input} {r : Nat} (h : readRune i = .ok (r, i')) :
    i'.token = i.token ∧ i'.commentsRev = i.commentsRev ∧ i'.nextId = i.nextId := by
  unfold readRune at h
  split at h
  · cases h
  · simp only [Except.ok.injEq, Prod.mk.injEq] at h
    obtain ⟨_, rfl⟩ := h
    exact ⟨rfl, rfl, rfl⟩

theorem linv_readRune {data : Bytes} {i i' : Input} {r : Nat} (hi : LInv data i) (h : readRune i = .ok (r, i')) :
    LInv data i' :=
  ⟨linv0_readRune hi.toLInv0 h, by rw [(readRune_token h).1]; exact hi.tokpos⟩

theorem linv_startToken {data : Bytes} {i : Input} (hi : LInv0 data i) : LInv data (startToken i) :=
  ⟨⟨inv_startToken hi.base, hi.line, hi.rune1, hi.aligned, hi.comments⟩, hi.cur⟩

theorem linv_endToken {data : Bytes} {i : Input} (k : TokKind) (hi : LInv data i) : LInv data (endToken k i) :=
  ⟨⟨inv_endToken k hi.base, hi.line, hi.rune1, hi.aligned, hi.comments⟩, hi.tokpos⟩

/-- `raw` is `text`, possibly followed by the line end that `endToken` strips from comments -/
def RawOf (text raw : Bytes) : Prop := raw = text ∨ raw = text ++ [10] ∨ raw = text ++ [13, 10]

/-- what holds of the state right after a token has been delivered (full version) -/
structure TokOK2 (data : Bytes) (i : Input) : Prop where
  inv : LInv data i
  endPos : i.token.endPos = i.pos
  raw : RawOf i.token.text i.tokRev.reverse
  exact : i.token.kind.isComment = false → i.token.text = i.tokRev.reverse
  punct : ∀ c, i.token.kind = .punct c → i.token.text = [c]

theorem tokOK2_endToken {data : Bytes} {j : Input} (k : TokKind) (hj : LInv data j)
    (hp : ∀ c, k = .punct c → j.tokRev = [c]) : TokOK2 data (endToken k j) := by
  refine ⟨linv_endToken k hj, rfl, ?_, ?_, ?_⟩
  · show RawOf (if k.isComment then _ else j.tokRev).reverse j.tokRev.reverse
    split
    · split
      · rename_i r h; rw [h]; exact Or.inr (Or.inr (by simp))
      · rename_i r _ h; rw [h]; exact Or.inr (Or.inl (by simp))
      · exact Or.inl rfl
    · exact Or.inl rfl
  · intro hk
    show (if k.isComment then _ else j.tokRev).reverse = j.tokRev.reverse
    have hk : k.isComment = false := hk
    simp [hk]
  · intro c hc
    have hk : k = .punct c := hc
    show (if k.isComment then _ else j.tokRev).reverse = [c]
    subst hk
    simp [TokKind.isComment, hp c rfl]

theorem tokOK2_comments {data : Bytes} {i : Input} (c : Comment) (h : TokOK2 data i)
    (hc : PosAt data c.start c.token ∧ c.suffix = true) :
    TokOK2 data { i with commentsRev := c :: i.commentsRev } := by
  refine ⟨⟨⟨⟨h.inv.base.split, h.inv.base.byte, h.inv.base.tok⟩, h.inv.line, h.inv.rune1, h.inv.aligned, ?_⟩, h.inv.tokpos⟩,
    h.endPos, h.raw, h.exact, h.punct⟩
  intro c' hc'
  simp only [List.mem_cons] at hc'
  rcases hc' with rfl | hc'
  · exact hc
  · exact h.inv.comments c' hc'

theorem TokOK2.old {data : Bytes} {i : Input} (h : TokOK2 data i) : TokOK data i := by
  refine ⟨h.inv.base, ?_, h.endPos⟩
  rcases h.raw with h1 | h1 | h1 <;> rw [h1]
  · exact List.prefix_refl _
  · exact List.prefix_append _ _
  · exact List.prefix_append _ _

/-- the delivered token starts at a consistent position where the input continues with its text -/
theorem TokOK2.posAt {data : Bytes} {i : Input} (h : TokOK2 data i) : PosAt data i.token.pos i.token.text :=
  ⟨h.inv.tokpos, (tokOK_spec h.old).1⟩

theorem readComment_res {data : Bytes} {i : Input} (hi : LInv0 data i) :
    Res (TokOK2 data) (PosOK data) (readComment i) := by
  unfold readComment
  have hR : ∀ i r i', LInv data i → readRune i = .ok (r, i') → LInv data i' := fun _ _ _ hp hr => linv_readRune hp hr
  have hQ : ∀ i, LInv data i → PosOK data i.pos := fun _ hp => hp.cur
  have hs := linv_startToken hi
  simp only [bind, Except.bind]
  cases h1 : readRune (startToken i) with
  | error e => show PosOK data e.pos; rw [readRune_err h1]; exact hs.cur
  | ok v1 =>
    have hv1 := hR _ v1.1 v1.2 hs (by rw [h1])
    simp only
    cases h2 : readRune v1.2 with
    | error e => show PosOK data e.pos; rw [readRune_err h2]; exact hv1.cur
    | ok v2 =>
      have hv2 := hR _ v2.1 v2.2 hv1 (by rw [h2])
      simp only
      have h3 := consumeLine_res hR hQ (v2.2.remaining.length + 1) v2.2 hv2
      cases hc : consumeLine (v2.2.remaining.length + 1) v2.2 with
      | error e => rw [hc] at h3; exact h3
      | ok v3 =>
        rw [hc] at h3
        simp only
        have ht := tokOK2_endToken (data := data) (j := v3) .comment h3 (by intro c hc; cases hc)
        have ht2 := tokOK2_endToken (data := data) (j := v3) .eolComment h3 (by intro c hc; cases hc)
        split
        · exact ht
        · exact tokOK2_comments _ ht2 ⟨ht2.posAt, rfl⟩


theorem isPunct_lt {c : Nat} (h : isPunct c = true) : c < 128 := by
  simp [isPunct, punctRunes] at h
  omega

/-- reading an ASCII rune appends exactly its byte to the token being scanned -/
theorem readRune_ascii_tokRev {i i' : Input} {r : Nat} (h : readRune i = .ok (r, i')) (hr : i.peekRune < 128) :
    i'.tokRev = UInt8.ofNat i.peekRune :: i.tokRev := by
  unfold readRune at h
  unfold Input.peekRune at hr ⊢
  split at h
  · cases h
  · rename_i a t hrem
    simp only [Except.ok.injEq, Prod.mk.injEq] at h
    obtain ⟨_, rfl⟩ := h
    rw [hrem] at hr ⊢
    simp only at hr ⊢
    rcases decodeRune_cases a t with ⟨hlt, heq⟩ | ⟨hge, hr2, _⟩
    · rw [heq]
      simp
    · omega

theorem readToken_res {data : Bytes} {i : Input} (hi : LInv0 data i) :
    Res (TokOK2 data) (PosOK data) (readToken i) := by
  unfold readToken
  have hR0 : ∀ i r i', LInv0 data i → readRune i = .ok (r, i') → LInv0 data i' := fun _ _ _ hp hr => linv0_readRune hp hr
  have hQ0 : ∀ i, LInv0 data i → PosOK data i.pos := fun _ hp => hp.cur
  have hR : ∀ i r i', LInv data i → readRune i = .ok (r, i') → LInv data i' := fun _ _ _ hp hr => linv_readRune hp hr
  have hQ : ∀ i, LInv data i → PosOK data i.pos := fun _ hp => hp.cur
  have hT : ∀ i, LInv data i → PosOK data i.token.pos := fun _ hp => hp.tokpos
  have h0 := skipSpaces_res hR0 hQ0 (i.remaining.length + 1) i hi
  simp only [bind, Except.bind]
  cases hs : skipSpaces (i.remaining.length + 1) i with
  | error e => rw [hs] at h0; exact h0
  | ok i0 =>
    rw [hs] at h0
    simp only
    split
    · exact readComment_res h0
    · split
      · exact h0.cur
      · have hst := linv_startToken h0
        split
        · exact tokOK2_endToken _ hst (by intro c hc; cases hc)
        · split
          · rename_i hpun
            cases h1 : readRune (startToken i0) with
            | error e => show PosOK data e.pos; rw [readRune_err h1]; exact hst.cur
            | ok v1 =>
              have hv1 := hR _ v1.1 v1.2 hst (by rw [h1])
              simp only
              refine tokOK2_endToken _ hv1 ?_
              intro c hc
              have htr := readRune_ascii_tokRev (show readRune (startToken i0) = .ok (v1.1, v1.2) by rw [h1]) (isPunct_lt hpun)
              rw [htr]
              simp only [TokKind.punct.injEq] at hc
              rw [hc]; rfl
          · split
            · cases h1 : readRune (startToken i0) with
              | error e => show PosOK data e.pos; rw [readRune_err h1]; exact hst.cur
              | ok v1 =>
                have hv1 := hR _ v1.1 v1.2 hst (by rw [h1])
                simp only
                have h2 := readString_res hR hQ hT (startToken i0).peekRune (v1.2.remaining.length + 1) v1.2 hv1
                cases hrs : readString (startToken i0).peekRune (v1.2.remaining.length + 1) v1.2 with
                | error e => rw [hrs] at h2; exact h2
                | ok v2 =>
                  rw [hrs] at h2
                  exact tokOK2_endToken _ h2 (by intro c hc; cases hc)
            · split
              · exact hst.cur
              · have h2 := readIdent_res hR hQ ((startToken i0).remaining.length + 1) (startToken i0) hst
                cases hri : readIdent ((startToken i0).remaining.length + 1) (startToken i0) with
                | error e => rw [hri] at h2; exact h2
                | ok v2 =>
                  rw [hri] at h2
                  exact tokOK2_endToken _ h2 (by intro c hc; cases hc)


/-! ### every lexer state the parser can reach -/

theorem reach_tokOK2 {data : Bytes} {i : Input} (h : Reach data i) : TokOK2 data i := by
  induction h with
  | start h =>
    have := readToken_res (linv0_newInput data)
    rw [h] at this; exact this
  | lex _ h ih =>
    have := readToken_res ih.inv.toLInv0
    rw [h] at this; exact this
  | setId n _ ih =>
    exact ⟨⟨⟨⟨ih.inv.base.split, ih.inv.base.byte, ih.inv.base.tok⟩, ih.inv.line, ih.inv.rune1, ih.inv.aligned,
      ih.inv.comments⟩, ih.inv.tokpos⟩, ih.endPos, ih.raw, ih.exact, ih.punct⟩

/-- a consistent position before which the input ends with `text` (or with `text` and the line end
    `endToken` strips from a comment token) -/
def EndsAt (data : Bytes) (p : Position) (text : Bytes) : Prop :=
  PosOK data p ∧ ∃ raw, RawOf text raw ∧ raw <:+ data.take p.byte

/-- what the parser may assume about a token it takes from the lexer -/
structure TokFacts (data : Bytes) (tok : Token) : Prop where
  start : PosAt data tok.pos tok.text
  «end» : EndsAt data tok.endPos tok.text
  exactEnd : tok.kind.isComment = false → tok.text <:+ data.take tok.endPos.byte
  punct : ∀ c, tok.kind = .punct c → tok.text = [c]

theorem TokOK2.facts {data : Bytes} {i : Input} (h : TokOK2 data i) : TokFacts data i.token := by
  have hb := h.inv.base
  have htake : data.take i.pos.byte = i.consumedRev.reverse := by
    rw [← hb.split, hb.byte, ← List.length_reverse]
    exact List.take_left
  obtain ⟨pre, hpre, _⟩ := hb.tok
  have hsuf : i.tokRev.reverse <:+ data.take i.token.endPos.byte := by
    rw [h.endPos, htake, hpre, List.reverse_append]
    exact List.suffix_append _ _
  refine ⟨h.posAt, ⟨by rw [h.endPos]; exact h.inv.cur, _, h.raw, hsuf⟩, ?_, h.punct⟩
  intro hk
  rw [h.exact hk]; exact hsuf

theorem readToken_err_pos {data : Bytes} {i : Input} {e : SynErr} (h : Reach data i) (he : readToken i = .error e) :
    PosOK data e.pos := by
  have := readToken_res (reach_tokOK2 h).inv.toLInv0
  rw [he] at this; exact this

theorem readToken_first_err_pos {data : Bytes} {e : SynErr} (he : readToken (newInput data) = .error e) :
    PosOK data e.pos := by
  have := readToken_res (linv0_newInput data)
  rw [he] at this; exact this

end ModVerif.Proofs.ModfileC20
