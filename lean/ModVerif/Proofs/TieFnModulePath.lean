/-
  Tie proofs for the regenerated module.go functions, part 3: checkPath (the `range` loop that cuts the path at
  every '/' rune and calls checkElem on each element), CheckImportPath, CheckFilePath.
-/
import ModVerif.Proofs.TieFnModuleElem
import ModVerif.Proofs.ModulePath
namespace ModVerif.TieFnModule
open ModVerif ModVerif.GoRt ModVerif.GoRtStr

/-! ### splitOn -/

theorem splitOn_append_sep (sep : UInt8) (rest : Bytes) : ∀ (cur : Bytes), sep ∉ cur →
    splitOn sep (cur ++ sep :: rest) = cur :: splitOn sep rest
  | [], _ => by simp [splitOn]
  | c :: cur, h => by
    have hc : c ≠ sep := fun e => h (by simp [e])
    have h' : sep ∉ cur := fun e => h (by simp [e])
    obtain ⟨hd, tl, h1, h2⟩ := Module.splitOn_cons_ne sep c (cur ++ sep :: rest) hc
    rw [List.cons_append, h2]
    rw [splitOn_append_sep sep rest cur h'] at h1
    injection h1 with h1 h3
    rw [← h1, ← h3]

theorem splitOn_not_mem (sep : UInt8) : ∀ (cur : Bytes), sep ∉ cur → splitOn sep cur = [cur]
  | [], _ => rfl
  | c :: cur, h => by
    have hc : c ≠ sep := fun e => h (by simp [e])
    have h' : sep ∉ cur := fun e => h (by simp [e])
    obtain ⟨hd, tl, h1, h2⟩ := Module.splitOn_cons_ne sep c cur hc
    rw [h2]
    rw [splitOn_not_mem sep cur h'] at h1
    injection h1 with h1 h3
    rw [← h1, ← h3]

/-- the part of the element loop of checkPath that runs inside the `range` loop: every element but the last is
    checked, the last one is handed to the final `checkElem(path[elemStart:])` -/
def elemsInit (chk : Bytes → Except Module.PathErr Unit) : List Bytes → Except Module.PathErr Bytes
  | [] => .ok []
  | [e] => .ok e
  | e :: e' :: es =>
    match chk e with
    | .error x => .error x
    | .ok () => elemsInit chk (e' :: es)

theorem checkElems_eq_init (nl : Nat → Bool) (kind : Module.Kind) : ∀ (l : List Bytes), l ≠ [] →
    Module.checkElems nl kind l =
      (match elemsInit (Module.checkElem nl kind) l with
       | .error x => .error x
       | .ok last => Module.checkElem nl kind last)
  | [], h => absurd rfl h
  | [e], _ => by
    simp only [Module.checkElems, elemsInit]
    cases Module.checkElem nl kind e with
    | error x => rfl
    | ok u => cases u; rfl
  | e :: e' :: es, _ => by
    simp only [Module.checkElems, elemsInit]
    cases h : Module.checkElem nl kind e with
    | error x => rfl
    | ok u =>
      cases u
      have := checkElems_eq_init nl kind (e' :: es) (by simp)
      simp only [Module.checkElems] at this
      simp only [this]

/-! ### strings.Contains(path, "//") -/

theorem hasDoubleSlash_cons (x : UInt8) (xs : Bytes) :
    Module.hasDoubleSlash (x :: xs) = (isPrefixOfB [47, 47] (x :: xs) || Module.hasDoubleSlash xs) := by
  by_cases hx : x = 47
  · subst hx
    cases xs with
    | nil => simp [Module.hasDoubleSlash, isPrefixOfB]
    | cons y ys =>
      by_cases hy : y = 47
      · subst hy; simp [Module.hasDoubleSlash, isPrefixOfB]
      · have : (47 == y) = false := by simp; exact fun e => hy e.symm
        simp [isPrefixOfB, this]
        rw [Module.hasDoubleSlash]
        intro tl _ e; injection e with e _; exact hy e
  · have : (47 == x) = false := by simp; exact fun e => hx e.symm
    simp [isPrefixOfB, this]
    rw [Module.hasDoubleSlash]
    intro tl e; exact absurd e hx

theorem indexAux_dslash (s : Bytes) : ∀ (k : Nat), decide (0 ≤ indexAux [47, 47] s k) = Module.hasDoubleSlash s := by
  induction s with
  | nil => intro k; simp [indexAux, Module.hasDoubleSlash]
  | cons x xs ih =>
    intro k
    rw [indexAux, hasDoubleSlash_cons]
    by_cases hp : isPrefixOfB [47, 47] (x :: xs) = true
    · simp [hp]
    · simp only [hp, Bool.false_eq_true, if_false, ih (k + 1)]; simp

theorem contains_dslash (s : Bytes) : contains s [47, 47] = Module.hasDoubleSlash s := by
  simp only [contains, index]; exact indexAux_dslash s 0


/-! ### checkPath -/

/-- one step of `for i, r := range path { if r == '/' …`: the rune is '/' exactly when the byte is, and a rune
    other than '/' consumes no '/' byte -/
theorem range_step_slash (s : Bytes) (k : Nat) (hk : k < s.length) :
    ∃ r w : Nat, decodeRuneAt s (k : Int) = ((r : Int), (w : Int)) ∧ 1 ≤ w ∧ k + w ≤ s.length ∧
      ((r = 47 ∧ w = 1 ∧ s[k] = 47) ∨ (r ≠ 47 ∧ (47 : UInt8) ∉ (s.drop k).take w)) := by
  obtain ⟨r, w, hdec, hw1, hw2, _, hc⟩ := range_step s k hk
  refine ⟨r, w, hdec, hw1, hw2, ?_⟩
  rcases hc with ⟨h1, h2, h3⟩ | ⟨h1, h2, h3⟩
  · by_cases h47 : s[k] = 47
    · left; subst h3; rw [h2, h47]; exact ⟨rfl, rfl, rfl⟩
    · right
      constructor
      · intro e; apply h47; apply UInt8.toNat_inj.mp; rw [← h2, e]; rfl
      · subst h3
        intro hm
        rw [List.drop_eq_getElem_cons hk] at hm
        have e1 : (s[k] :: s.drop (k + 1)).take 1 = [s[k]] := rfl
        rw [e1] at hm
        exact h47 (List.mem_singleton.mp hm).symm
  · right
    constructor
    · omega
    · intro hm; have := h3 47 hm; simp at this

theorem take_add_drop {α : Type} (s : List α) (es k w : Nat) (h : es ≤ k) (hk : k ≤ s.length) :
    (s.take (k + w)).drop es = (s.take k).drop es ++ (s.drop k).take w := by
  rw [List.take_add, List.drop_append_of_le_length (by simp; omega)]

theorem take_drop_append_drop {α : Type} (s : List α) (es k : Nat) (h : es ≤ k) :
    (s.take k).drop es ++ s.drop k = s.drop es := by
  have : s.drop es = (s.drop es).take (k - es) ++ (s.drop es).drop (k - es) := (List.take_append_drop _ _).symm
  rw [this, List.drop_drop, List.drop_take]
  congr 2; omega

theorem checkPath_loop1_spec (ef : Bytes → Bytes → Bool) (il : Int → Bool) (path : Bytes) (kind : Module.Kind)
    (hfold : ∀ bad ∈ Module.badWindowsNames, ∀ s, ef bad s = Module.equalFoldAscii bad s) :
    ∀ (fuel k es : Nat), es ≤ k → k ≤ path.length → (47 : UInt8) ∉ (path.take k).drop es →
      2 * path.length + 24 ≤ fuel + k →
    ∃ res, Generated.Module.checkPath_loop1 ef il path (kindInt kind) fuel (k : Int) (es : Int) = .ok res ∧
      (match elemsInit (Module.checkElem (natLetter il) kind) (splitOn 47 (path.drop es)) with
       | .error x => res = Ctl.ret (some (msg x))
       | .ok last => ∃ es' : Nat, res = Ctl.next (len path, (es' : Int)) ∧ es' ≤ path.length ∧ path.drop es' = last) := by
  intro fuel
  induction fuel with
  | zero => intro k es _ hk _ hf; omega
  | succ f ih =>
    intro k es hes hk hcur hf
    unfold Generated.Module.checkPath_loop1
    by_cases hlt : k < path.length
    · obtain ⟨r, w, hdec, hw1, hw2, hc⟩ := range_step_slash path k hlt
      have hlt' : (k : Int) < len path := by simp [len_eq]; omega
      have hkw : (k : Int) + (w : Int) = ((k + w : Nat) : Int) := by simp
      simp only [hlt', decide_true, if_true, hdec]
      rcases hc with ⟨hr, hw, hb⟩ | ⟨hr, hb⟩
      · have hr' : (r : Int) = 47 := by omega
        subst hw
        have hsl : slice path (es : Int) (k : Int) = .ok ((path.take k).drop es) := slice_natCast hes (by omega)
        have hce := checkElem_spec ef il kind ((path.take k).drop es) f hfold (by simp; omega)
        have hsplit : splitOn 47 (path.drop es) = (path.take k).drop es :: splitOn 47 (path.drop (k + 1)) := by
          rw [← take_drop_append_drop path es k hes, List.drop_eq_getElem_cons hlt, hb]
          exact splitOn_append_sep 47 _ _ hcur
        obtain ⟨res, h1, h2⟩ := ih (k + 1) (k + 1) (Nat.le_refl _) hw2 (by simp) (by omega)
        have hk1 : (k : Int) + 1 = ((k + 1 : Nat) : Int) := by simp
        simp only [hr', decide_true, if_true, hsl, bind_ok, hce, hk1]
        rw [hsplit]
        obtain ⟨e', es', hne⟩ : ∃ e' es', splitOn 47 (path.drop (k + 1)) = e' :: es' := by
          cases h : splitOn 47 (path.drop (k + 1)) with
          | nil => exact absurd h (Module.splitOn_ne_nil _ _)
          | cons a b => exact ⟨a, b, rfl⟩
        rw [hne] at h2 ⊢
        simp only [elemsInit]
        cases hchk : Module.checkElem (natLetter il) kind ((path.take k).drop es) with
        | error x => exact ⟨_, by simp [errOf], rfl⟩
        | ok u =>
          cases u
          simp only [errOf, Option.isNone_none, Bool.not_true, Bool.false_eq_true, if_false, Int.natCast_add,
            Int.natCast_one] at h1 ⊢
          exact ⟨res, h1, h2⟩
      · have hne : ¬ ((r : Int) = 47) := by omega
        have hcur' : (47 : UInt8) ∉ (path.take (k + w)).drop es := by
          rw [take_add_drop path es k w hes (by omega)]
          simp only [List.mem_append, not_or]; exact ⟨hcur, hb⟩
        obtain ⟨res, h1, h2⟩ := ih (k + w) es (by omega) hw2 hcur' (by omega)
        simp only [hne, decide_false, Bool.false_eq_true, if_false, hkw]
        exact ⟨res, h1, h2⟩
    · have hk' : k = path.length := by omega
      subst hk'
      have hsp : splitOn 47 (path.drop es) = [path.drop es] := by
        apply splitOn_not_mem
        simpa using hcur
      refine ⟨Ctl.next (len path, (es : Int)), by simp [len_eq], ?_⟩
      rw [hsp]
      simp only [elemsInit]
      exact ⟨es, rfl, hes, rfl⟩


theorem checkPath_spec (ef : Bytes → Bytes → Bool) (il : Int → Bool) (kind : Module.Kind) (path : Bytes) (fuel : Nat)
    (hfold : ∀ bad ∈ Module.badWindowsNames, ∀ s, ef bad s = Module.equalFoldAscii bad s)
    (hf : 2 * path.length + 24 ≤ fuel) :
    Generated.Module.checkPath ef il fuel path (kindInt kind) =
      .ok (errOf (Module.checkPath (natLetter il) kind path)) := by
  unfold Generated.Module.checkPath Module.checkPath
  simp only [validUtf8]
  cases hv : Utf8.validString path
  · simp [errOf, msg]
  simp only [Bool.not_true, Bool.false_eq_true, if_false]
  by_cases h0 : path = []
  · subst h0; simp [errOf, msg]
  have h0' : path.isEmpty = false := by cases path <;> simp at h0 ⊢
  simp only [h0, decide_false, Bool.false_eq_true, if_false, h0']
  rw [idx_zero_eq_head path h0, bind_ok, first_byte_test path h0 (n := 45) 45 rfl]
  have hk2 : (!decide (kindInt kind = 2)) = (kind != Module.Kind.file) := by cases kind <;> rfl
  rw [hk2]
  by_cases h1 : (path.head? == some 45 && kind != Module.Kind.file) = true
  · simp [h1, errOf, msg]
  simp only [h1, Bool.false_eq_true, if_false, contains_dslash]
  by_cases h2 : Module.hasDoubleSlash path = true
  · simp [h2, errOf, msg]
  simp only [h2, Bool.false_eq_true, if_false]
  rw [idx_last path h0, bind_ok, last_byte_test path h0 (n := 47) 47 rfl]
  by_cases h3 : (path.getLast? == some 47) = true
  · simp [h3, errOf, msg]
  simp only [h3, Bool.false_eq_true, if_false]
  obtain ⟨res, hl, hres⟩ := checkPath_loop1_spec ef il path kind hfold fuel 0 0 (Nat.le_refl _) (by omega)
    (by simp) (by omega)
  simp only [Int.natCast_zero, List.drop_zero] at hl hres
  rw [hl, bind_ok, checkElems_eq_init _ _ _ (Module.splitOn_ne_nil 47 path)]
  cases hin : elemsInit (Module.checkElem (natLetter il) kind) (splitOn 47 path) with
  | error x =>
    rw [hin] at hres
    simp only at hres
    subst hres
    simp [errOf]
  | ok last =>
    rw [hin] at hres
    simp only at hres
    obtain ⟨es', rfl, hes', hlast⟩ := hres
    have hce := checkElem_spec ef il kind last fuel hfold (by rw [← hlast]; simp; omega)
    simp only [sliceFrom_natCast hes', hlast, bind_ok, hce]
    cases Module.checkElem (natLetter il) kind last with
    | error x => simp [errOf]
    | ok u => simp [errOf]

/-- `if err := checkPath(path, kind); err != nil { return &InvalidPathError{…, Err: err} }; return nil` -/
theorem wrap_errOf (r : Except Module.PathErr Unit) :
    (if (!(errOf r).isNone) = true then (pure (wrapErr "InvalidPathError" (errOf r)) : M (Option String))
      else pure none) = .ok (wrappedErrOf r) := by
  cases r with
  | error x => simp [errOf, wrappedErrOf, wrapErr]
  | ok u => simp [errOf, wrappedErrOf]

/-- `unicode.IsLetter` is consulted for file paths only -/
theorem checkElems_nonfile (nl nl' : Nat → Bool) (kind : Module.Kind) (hk : kind ≠ .file) :
    ∀ l : List Bytes, Module.checkElems nl kind l = Module.checkElems nl' kind l
  | [] => rfl
  | e :: es => by
    have he : Module.checkElem nl kind e = Module.checkElem nl' kind e := by
      cases kind
      · rfl
      · rfl
      · exact absurd rfl hk
    simp only [Module.checkElems, he, checkElems_nonfile nl nl' kind hk es]

theorem checkPath_nonfile (nl nl' : Nat → Bool) (kind : Module.Kind) (hk : kind ≠ .file) (p : Bytes) :
    Module.checkPath nl kind p = Module.checkPath nl' kind p := by
  simp only [Module.checkPath, checkElems_nonfile nl nl' kind hk]

theorem CheckImportPath_spec (ef : Bytes → Bytes → Bool) (il : Int → Bool) (path : Bytes) (fuel : Nat)
    (hfold : ∀ bad ∈ Module.badWindowsNames, ∀ s, ef bad s = Module.equalFoldAscii bad s)
    (hf : 2 * path.length + 24 ≤ fuel) :
    Generated.Module.CheckImportPath ef il fuel path =
      .ok (wrappedErrOf (Module.checkImportPath path)) := by
  unfold Generated.Module.CheckImportPath Module.checkImportPath
  rw [← checkPath_nonfile (natLetter il) _ .import_ (by decide)]
  have h := checkPath_spec ef il .import_ path fuel hfold hf
  simp only [kindInt] at h
  rw [h, bind_ok]
  exact wrap_errOf _

theorem CheckFilePath_spec (ef : Bytes → Bytes → Bool) (il : Int → Bool) (path : Bytes) (fuel : Nat)
    (hfold : ∀ bad ∈ Module.badWindowsNames, ∀ s, ef bad s = Module.equalFoldAscii bad s)
    (hf : 2 * path.length + 24 ≤ fuel) :
    Generated.Module.CheckFilePath ef il fuel path =
      .ok (wrappedErrOf (Module.checkFilePath (natLetter il) path)) := by
  unfold Generated.Module.CheckFilePath Module.checkFilePath
  have h := checkPath_spec ef il .file path fuel hfold hf
  simp only [kindInt] at h
  rw [h, bind_ok]
  exact wrap_errOf _

end ModVerif.TieFnModule
