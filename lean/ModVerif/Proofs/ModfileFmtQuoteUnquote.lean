/-
  C02 stage 2, part d: `strconv.Unquote(strconv.Quote(s)) = s` for EVERY byte string `s` (ill-formed UTF-8,
  control bytes, non-printable and astral runes included), and the consequences for `parseString`:
  the token `AutoQuote` makes parses back to the value and re-quotes to itself; `parseString` is
  idempotent on the token it returns.

  Each chunk `stepOut s` that `Quote` writes for the rune at the head of `s` is read back by `UnquoteChar`
  as a character whose bytes (`charBytes`) are exactly the input bytes of that rune.
-/
import ModVerif.Proofs.ModfileFmtQuoteString
namespace ModVerif.Proofs.ModfileFmtQuote
open ModVerif ModVerif.Modfile ModVerif.Proofs.ModfileLex ModVerif.Proofs.ModfileFmtUtf8
open ModVerif.Proofs.ModfileFmtTok ModVerif.Proofs.ModfileFmtLex

/-! ### hex digits -/

theorem unhex_lowerhex_fin : ∀ n : Fin 16, Quote.unhex (Quote.lowerhex n.val) = some n.val := by decide

theorem unhex_lowerhex {n : Nat} (hn : n < 16) : Quote.unhex (Quote.lowerhex n) = some n := unhex_lowerhex_fin ⟨n, hn⟩

theorem length_hexDigits (r : Nat) : ∀ k, (Quote.hexDigits r k).length = k := by
  intro k; induction k with
  | zero => rfl
  | succ k ih => simp [Quote.hexDigits, ih]

theorem foldlM_hexDigits (r : Nat) : ∀ (k v : Nat),
    (Quote.hexDigits r k).foldlM (fun v c => (Quote.unhex c).map fun x => v * 16 + x) v = some (v * 16 ^ k + r % 16 ^ k) := by
  intro k
  induction k with
  | zero => intro v; simp [Quote.hexDigits, Nat.mod_one]
  | succ k ih =>
    intro v
    simp only [Quote.hexDigits, List.foldlM_cons, unhex_lowerhex (Nat.mod_lt _ (by decide : 0 < 16)), Option.map_some,
      Option.bind_eq_bind, Option.bind_some, ih]
    congr 1
    rw [Nat.mod_pow_succ, Nat.pow_succ]
    generalize 16 ^ k = p
    generalize r / p % 16 = d
    generalize r % p = m
    rw [Nat.add_mul, Nat.mul_assoc, Nat.mul_comm 16 p, Nat.mul_comm d p]
    omega

theorem hexValue_hexDigits (r k : Nat) (hk : 0 < k) : Quote.hexValue (Quote.hexDigits r k) = some (r % 16 ^ k) := by
  obtain ⟨n, rfl⟩ : ∃ n, k = n + 1 := ⟨k - 1, by omega⟩
  have := foldlM_hexDigits r (n + 1) 0
  simp only [Nat.zero_mul, Nat.zero_add] at this
  rw [← this]
  simp [Quote.hexValue, Quote.hexDigits]


example : Quote.hexValue (Quote.hexDigits 0x20AC 4) = some 0x20AC := by decide

/-! ### `UnquoteChar` on the escapes `Quote` writes -/

theorem unquoteChar_simple (rest : Bytes) :
    Quote.unquoteChar (92 :: 97 :: rest) = some (7, false, rest) ∧
    Quote.unquoteChar (92 :: 98 :: rest) = some (8, false, rest) ∧
    Quote.unquoteChar (92 :: 102 :: rest) = some (12, false, rest) ∧
    Quote.unquoteChar (92 :: 110 :: rest) = some (10, false, rest) ∧
    Quote.unquoteChar (92 :: 114 :: rest) = some (13, false, rest) ∧
    Quote.unquoteChar (92 :: 116 :: rest) = some (9, false, rest) ∧
    Quote.unquoteChar (92 :: 118 :: rest) = some (11, false, rest) ∧
    Quote.unquoteChar (92 :: 92 :: rest) = some (92, false, rest) ∧
    Quote.unquoteChar (92 :: 34 :: rest) = some (34, false, rest) := by
  refine ⟨rfl, rfl, rfl, rfl, rfl, rfl, rfl, rfl, rfl⟩

theorem unquoteChar_x {a b : Nat} (ha : a < 16) (hb : b < 16) (rest : Bytes) :
    Quote.unquoteChar (92 :: 120 :: Quote.lowerhex a :: Quote.lowerhex b :: rest) = some (a * 16 + b, false, rest) := by
  have hv : Quote.hexValue [Quote.lowerhex a, Quote.lowerhex b] = some (a * 16 + b) := by
    simp [Quote.hexValue, unhex_lowerhex ha, unhex_lowerhex hb]
  simp [Quote.unquoteChar, hv]

example : Quote.unquoteChar (92 :: 120 :: Quote.lowerhex 7 :: Quote.lowerhex 15 :: [34]) = some (7 * 16 + 15, false, [34]) :=
  unquoteChar_x (by decide) (by decide) _

theorem unquoteChar_u {r : Nat} (hr : r < 65536) (hv : Quote.validRune r = true) (rest : Bytes) :
    Quote.unquoteChar (92 :: 117 :: (Quote.hexDigits r 4 ++ rest)) = some (r, true, rest) := by
  have hl := length_hexDigits r 4
  have ht : (Quote.hexDigits r 4 ++ rest).take 4 = Quote.hexDigits r 4 := by
    rw [List.take_append_of_le_length (by omega), List.take_of_length_le (by omega)]
  have hd : (Quote.hexDigits r 4 ++ rest).drop 4 = rest := by
    rw [List.drop_append_of_le_length (by omega), List.drop_of_length_le (by omega)]; rfl
  have hx : Quote.hexValue (Quote.hexDigits r 4) = some r := by
    rw [hexValue_hexDigits r 4 (by decide), Nat.mod_eq_of_lt (by omega)]
  simp [Quote.unquoteChar, ht, hd, hx, hv, hl]

theorem unquoteChar_U {r : Nat} (hv : Quote.validRune r = true) (rest : Bytes) :
    Quote.unquoteChar (92 :: 85 :: (Quote.hexDigits r 8 ++ rest)) = some (r, true, rest) := by
  have hl := length_hexDigits r 8
  have hr : r < 16 ^ 8 := by
    simp only [Quote.validRune, Bool.or_eq_true, Bool.and_eq_true, decide_eq_true_eq] at hv
    omega
  have ht : (Quote.hexDigits r 8 ++ rest).take 8 = Quote.hexDigits r 8 := by
    rw [List.take_append_of_le_length (by omega), List.take_of_length_le (by omega)]
  have hd : (Quote.hexDigits r 8 ++ rest).drop 8 = rest := by
    rw [List.drop_append_of_le_length (by omega), List.drop_of_length_le (by omega)]; rfl
  have hx : Quote.hexValue (Quote.hexDigits r 8) = some r := by
    rw [hexValue_hexDigits r 8 (by decide), Nat.mod_eq_of_lt hr]
  simp [Quote.unquoteChar, ht, hd, hx, hv, hl]


example : (0xAD : Nat) < 65536 ∧ Quote.validRune 0xAD = true ∧ Quote.validRune 0xE0001 = true := by decide

theorem charBytes_false (r : Nat) : Quote.charBytes r false = [UInt8.ofNat r] := by
  simp [Quote.charBytes]

theorem charBytes_true {r : Nat} (h : 0x80 ≤ r) : Quote.charBytes r true = Utf8.encode r := by
  have : ¬ r < 128 := by omega
  simp [Quote.charBytes, this]

/-- what `UnquoteChar` makes of `appendEscapedRune r`: the printable case is left to the caller -/
theorem unquoteChar_escaped (r : Nat) (hv : Quote.validRune r = true) (rest : Bytes) :
    (Quote.appendEscapedRune r = Utf8.encode r ∧ UnicodePrint.isPrint r = true ∧ r ≠ 34 ∧ r ≠ 92) ∨
    (∃ tl mb, Quote.appendEscapedRune r = 92 :: tl ∧
      Quote.unquoteChar (Quote.appendEscapedRune r ++ rest) = some (r, mb, rest) ∧
      (mb = true → 0x80 ≤ r) ∧ (mb = false → r < 0x80)) := by
  obtain ⟨s1, s2, s3, s4, s5, s6, s7, s8, s9⟩ := unquoteChar_simple rest
  delta Quote.appendEscapedRune
  by_cases h : (r == 34 || r == 92) = true
  · rw [if_pos h]
    right
    simp only [Bool.or_eq_true, beq_iff_eq] at h
    rcases h with h | h <;> subst h
    · exact ⟨_, false, rfl, s9, by simp, by simp⟩
    · exact ⟨_, false, rfl, s8, by simp, by simp⟩
  · rw [if_neg h]
    simp only [Bool.or_eq_true, beq_iff_eq, not_or] at h
    by_cases hp : UnicodePrint.isPrint r = true
    · rw [if_pos hp]
      exact Or.inl ⟨rfl, hp, h.1, h.2⟩
    · rw [if_neg hp]
      right
      by_cases h7 : (r == 7) = true
      · rw [if_pos h7]; simp only [beq_iff_eq] at h7; subst h7; exact ⟨_, false, rfl, s1, by simp, by simp⟩
      rw [if_neg h7]
      by_cases h8 : (r == 8) = true
      · rw [if_pos h8]; simp only [beq_iff_eq] at h8; subst h8; exact ⟨_, false, rfl, s2, by simp, by simp⟩
      rw [if_neg h8]
      by_cases h12 : (r == 12) = true
      · rw [if_pos h12]; simp only [beq_iff_eq] at h12; subst h12; exact ⟨_, false, rfl, s3, by simp, by simp⟩
      rw [if_neg h12]
      by_cases h10 : (r == 10) = true
      · rw [if_pos h10]; simp only [beq_iff_eq] at h10; subst h10; exact ⟨_, false, rfl, s4, by simp, by simp⟩
      rw [if_neg h10]
      by_cases h13 : (r == 13) = true
      · rw [if_pos h13]; simp only [beq_iff_eq] at h13; subst h13; exact ⟨_, false, rfl, s5, by simp, by simp⟩
      rw [if_neg h13]
      by_cases h9 : (r == 9) = true
      · rw [if_pos h9]; simp only [beq_iff_eq] at h9; subst h9; exact ⟨_, false, rfl, s6, by simp, by simp⟩
      rw [if_neg h9]
      by_cases h11 : (r == 11) = true
      · rw [if_pos h11]; simp only [beq_iff_eq] at h11; subst h11; exact ⟨_, false, rfl, s7, by simp, by simp⟩
      rw [if_neg h11]
      by_cases hx : (decide (r < 32) || r == 127) = true
      · rw [if_pos hx]
        simp only [Bool.or_eq_true, decide_eq_true_eq, beq_iff_eq] at hx
        have := unquoteChar_x (a := r / 16) (b := r % 16) (by omega) (by omega) rest
        have e : r / 16 * 16 + r % 16 = r := by omega
        rw [e] at this
        exact ⟨_, false, rfl, this, by simp, fun _ => by omega⟩
      rw [if_neg hx]
      simp only [Bool.or_eq_true, decide_eq_true_eq, beq_iff_eq, not_or] at hx
      have hge : 0x80 ≤ r := by
        have hnp : ¬ (0x20 ≤ r ∧ r ≤ 0x7E) := by
          intro hh
          apply hp
          unfold UnicodePrint.isPrint
          rw [if_pos (by omega)]
          simp only [Bool.or_eq_true, Bool.and_eq_true, decide_eq_true_eq]
          exact Or.inl hh
        omega
      rw [if_neg (by simp [hv])]
      by_cases hs : r < 65536
      · rw [if_pos hs]
        exact ⟨_, true, rfl, unquoteChar_u hs hv rest, fun _ => hge, by simp⟩
      · rw [if_neg hs]
        exact ⟨_, true, rfl, unquoteChar_U hv rest, fun _ => hge, by simp⟩


example : Quote.validRune 0x2028 = true := by decide

/-- an ASCII rune at a well-formed head is the head byte -/
theorem take_of_ascii_rune {s : Bytes} (hs : s ≠ []) (hr : (Utf8.decodeRune s).1 < 0x80) :
    s.take (Utf8.decodeRune s).2 = [UInt8.ofNat (Utf8.decodeRune s).1] := by
  obtain ⟨b, t, rfl, hb, hw⟩ := ascii_rune_head hs hr
  rw [hw, ← hb]
  simp

example : ([97] : Bytes) ≠ [] ∧ (Utf8.decodeRune [97]).1 < 0x80 := by decide

theorem unquoteChar_nonascii (c : UInt8) (x : Bytes) (hc : 128 ≤ c.toNat) :
    Quote.unquoteChar (c :: x) = some ((Utf8.decodeRune (c :: x)).1, true, (c :: x).drop (Utf8.decodeRune (c :: x)).2) := by
  have hc34 : c ≠ 34 := by intro h; subst h; revert hc; decide
  simp [Quote.unquoteChar, hc34, hc]

/-- one chunk of `Quote` read back by `UnquoteChar`: it does not start with `"` or a newline, it yields
    the input bytes of the chunk and leaves the rest -/
theorem unquoteChar_stepOut (s : Bytes) (hs : s ≠ []) (rest : Bytes) :
    ∃ h tl r mb, stepOut s = h :: tl ∧ h ≠ 34 ∧ h ≠ 10 ∧
      Quote.unquoteChar (stepOut s ++ rest) = some (r, mb, rest) ∧
      Quote.charBytes r mb = s.take (Utf8.decodeRune s).2 := by
  cases s with
  | nil => exact absurd rfl hs
  | cons c t =>
    simp only [stepOut]
    by_cases hb : badHead (c :: t) = true
    · rw [if_pos hb]
      have hw : (Utf8.decodeRune (c :: t)).2 = 1 := by
        simp only [badHead, Bool.and_eq_true, beq_iff_eq] at hb; exact hb.1
      have hc := c.toNat_lt
      have := unquoteChar_x (a := c.toNat / 16) (b := c.toNat % 16) (by omega) (by omega) rest
      have e : c.toNat / 16 * 16 + c.toNat % 16 = c.toNat := by omega
      rw [e] at this
      refine ⟨92, _, c.toNat, false, rfl, by decide, by decide, this, ?_⟩
      rw [charBytes_false, hw]; simp
    · rw [if_neg hb]
      have hd := decode_of_not_bad (s := c :: t) (by simpa using hb)
      have hv := validRune_of_decode (r := (Utf8.decodeRune (c :: t)).1) (w := (Utf8.decodeRune (c :: t)).2) hd
      have henc := encode_of_decode (r := (Utf8.decodeRune (c :: t)).1) (w := (Utf8.decodeRune (c :: t)).2) hd
      rcases unquoteChar_escaped (Utf8.decodeRune (c :: t)).1 hv rest with ⟨h1, hp, h34, h92⟩ | ⟨tl, mb, h1, h2, h3, h4⟩
      · -- printable: the input bytes themselves
        rw [h1, henc]
        have hwd := decodeRune_width (c :: t) hs
        obtain ⟨n, hn⟩ : ∃ n, (Utf8.decodeRune (c :: t)).2 = n + 1 := ⟨(Utf8.decodeRune (c :: t)).2 - 1, by omega⟩
        have htk : (c :: t).take (Utf8.decodeRune (c :: t)).2 = c :: t.take n := by rw [hn]; rfl
        by_cases hc : c.toNat < 0x80
        · have hdr := decodeRune_ascii c t hc
          have hw : (Utf8.decodeRune (c :: t)).2 = 1 := by rw [hdr]
          have hr : (Utf8.decodeRune (c :: t)).1 = c.toNat := by rw [hdr]
          rw [hr] at hp h34 h92
          have hc34 : c ≠ 34 := by intro h; subst h; exact h34 rfl
          have hc92 : c ≠ 92 := by intro h; subst h; exact h92 rfl
          have hc10 : c ≠ 10 := by intro h; subst h; revert hp; decide
          refine ⟨c, [], c.toNat, false, by rw [hw]; rfl, hc34, hc10, ?_, ?_⟩
          · rw [hw]
            have : ¬ (128 ≤ c.toNat) := by omega
            simp [Quote.unquoteChar, hc34, hc92, this]
          · rw [charBytes_false, hw]; simp
        · have hge := (decodeRune_nonascii c t (by omega)).1
          refine ⟨c, t.take n, (Utf8.decodeRune (c :: t)).1, true, htk, ?_, ?_, ?_, ?_⟩
          · intro h; subst h; exact hc (by decide)
          · intro h; subst h; exact hc (by decide)
          · have hctx : Utf8.decodeRune ((c :: t).take (Utf8.decodeRune (c :: t)).2 ++ rest) = Utf8.decodeRune (c :: t) :=
              decodeRune_of_decode (decode_take (r := (Utf8.decodeRune (c :: t)).1) (w := (Utf8.decodeRune (c :: t)).2) hd rest)
            have hlen := take_length_decodeRune (c :: t) hs
            have hdrop : ((c :: t).take (Utf8.decodeRune (c :: t)).2 ++ rest).drop (Utf8.decodeRune (c :: t)).2 = rest := by
              rw [List.drop_append, List.drop_of_length_le (by omega), hlen]; simp
            have hc34 : c ≠ 34 := by intro h; subst h; exact hc (by decide)
            have hge' : 128 ≤ c.toNat := by omega
            rw [htk] at hctx hdrop ⊢
            simp only [List.cons_append] at hctx hdrop ⊢
            rw [unquoteChar_nonascii c _ hge', hctx, hdrop]
          · rw [charBytes_true hge, henc]
      · rw [h1] at h2 ⊢
        refine ⟨92, tl, _, mb, rfl, by decide, by decide, h2, ?_⟩
        cases mb with
        | true => rw [charBytes_true (h3 rfl), henc]
        | false => rw [charBytes_false, take_of_ascii_rune hs (h4 rfl)]


example : ([0xFF, 97] : Bytes) ≠ [] := by simp

/-! ### the loops -/

theorem unquoteLoop_step (fuel : Nat) {h : UInt8} {tl rest acc : Bytes} {r : Nat} {mb : Bool}
    (h34 : h ≠ 34) (h10 : h ≠ 10) (hu : Quote.unquoteChar (h :: tl ++ rest) = some (r, mb, rest)) :
    Quote.unquoteLoop (fuel + 1) (h :: tl ++ rest) acc =
      Quote.unquoteLoop fuel rest ((Quote.charBytes r mb).reverse ++ acc) := by
  simp only [List.cons_append] at hu ⊢
  simp only [Quote.unquoteLoop, beq_iff_eq, h34, if_false, hu, h10]

example : (97 : UInt8) ≠ 34 ∧ (97 : UInt8) ≠ 10 ∧ Quote.unquoteChar (97 :: [] ++ [34]) = some (97, false, [34]) := by
  refine ⟨by decide, by decide, rfl⟩

theorem stepOut_length_pos (s : Bytes) (hs : s ≠ []) : 0 < (stepOut s).length := by
  obtain ⟨h, tl, _, _, he, _⟩ := unquoteChar_stepOut s hs []
  rw [he]; simp

theorem unquoteLoop_qbody : ∀ (f : Nat) (s : Bytes), s.length < f → ∀ (fuel2 : Nat) (acc : Bytes),
    (qbody f s).length < fuel2 →
    Quote.unquoteLoop fuel2 (qbody f s ++ [34]) acc = some (acc.reverse ++ s, []) := by
  intro f
  induction f with
  | zero => intro s h; omega
  | succ n ih =>
    intro s hl fuel2 acc hf
    obtain ⟨m, rfl⟩ : ∃ m, fuel2 = m + 1 := ⟨fuel2 - 1, by omega⟩
    cases s with
    | nil => simp [qbody, Quote.unquoteLoop]
    | cons c t =>
      have hs : c :: t ≠ [] := by simp
      have hw := decodeRune_width (c :: t) hs
      simp only [qbody, List.append_assoc] at hf ⊢
      obtain ⟨h, tl, r, mb, he, h34, h10, hu, hcb⟩ :=
        unquoteChar_stepOut (c :: t) hs (qbody n ((c :: t).drop (Utf8.decodeRune (c :: t)).2) ++ [34])
      have hpos := stepOut_length_pos (c :: t) hs
      rw [he] at hu ⊢
      rw [unquoteLoop_step m h34 h10 hu, ih _ (by simp only [List.length_drop]; omega) m _ (by
        simp only [List.length_append] at hf; omega)]
      rw [hcb]
      simp only [List.reverse_append, List.reverse_reverse, List.append_assoc, List.take_append_drop]

example : ([0xFF] : Bytes).length < 2 ∧ (qbody 2 [0xFF]).length < 5 := by decide

/-- ★ `strconv.Unquote(strconv.Quote(s)) = s` for every byte string -/
theorem unquote_quote (s : Bytes) : Quote.unquote (Quote.quote s) = some s := by
  rw [quote_eq_qbody]
  have hloop := unquoteLoop_qbody (s.length + 1) s (by omega) ((qbody (s.length + 1) s ++ [34]).length + 1) []
    (by simp only [List.length_append]; omega)
  obtain ⟨x, xs, hx⟩ : ∃ x xs, qbody (s.length + 1) s ++ [34] = x :: xs := by
    cases h : qbody (s.length + 1) s ++ [34] with
    | nil => simp at h
    | cons x xs => exact ⟨x, xs, rfl⟩
  have hmem : (34 : UInt8) ∈ x :: xs := by rw [← hx]; simp
  rw [hx] at hloop ⊢
  have hc : (x :: xs).contains 34 = true := by simpa using hmem
  simp only [Quote.unquote, hc, hloop]
  simp

/-! ### `parseString` -/

/-- every ASCII byte of a string is one of its runes -/
theorem ascii_byte_rune : ∀ (n : Nat) (s : Bytes), s.length ≤ n → ∀ b ∈ s, b.toNat < 0x80 → b.toNat ∈ Utf8.runes s := by
  intro n
  induction n with
  | zero =>
    intro s hl b hb
    have : s = [] := List.eq_nil_of_length_eq_zero (by omega)
    subst this; simp at hb
  | succ n ih =>
    intro s hl b hb hlt
    cases s with
    | nil => simp at hb
    | cons c t =>
      have hs : c :: t ≠ [] := by simp
      have hw := decodeRune_width (c :: t) hs
      rw [runes_step (c :: t) hs]
      rw [← List.take_append_drop (Utf8.decodeRune (c :: t)).2 (c :: t)] at hb
      rcases List.mem_append.1 hb with hb | hb
      · by_cases hc : c.toNat < 0x80
        · have hd := decodeRune_ascii c t hc
          rw [hd] at hb ⊢
          simp only [List.take_succ_cons, List.take_zero, List.mem_cons, List.not_mem_nil, or_false] at hb
          subst hb; simp
        · have := (decodeRune_nonascii c t (by omega)).2 b hb
          omega
      · exact List.mem_cons_of_mem _ (ih _ (by simp only [List.length_drop]; omega) b hb hlt)

example : ∀ b ∈ ([97, 0xC3, 0xA9] : Bytes), b.toNat < 0x80 → b.toNat ∈ Utf8.runes [97, 0xC3, 0xA9] := by decide

theorem parseString_unquoted {s : Bytes} (h : mustQuote s = false) : parseString s = some (s, autoQuote s) := by
  obtain ⟨hr, hne, _, _⟩ := mustQuote_false h
  have hall := mustQuoteRunes_false _ hr
  have hbyte : ∀ b ∈ s, b ≠ 34 ∧ b ≠ 39 ∧ b ≠ 96 := by
    intro b hb
    refine ⟨?_, ?_, ?_⟩ <;>
    · intro hh; subst hh
      have := (hall _ (ascii_byte_rune s.length s (Nat.le_refl _) _ hb (by decide))).1
      revert this; decide
  have hpre : isPrefixOfB [34] s = false := by
    cases s with
    | nil => exact absurd rfl hne
    | cons c t =>
      have := (hbyte c (by simp)).1
      simp [isPrefixOfB, this.symm]
  have hany : GoStrings.containsAny s [34, 39, 96] = false := by
    unfold GoStrings.containsAny
    rw [List.any_eq_false]
    intro b hb
    obtain ⟨h1, h2, h3⟩ := hbyte b hb
    simp [h1, h2, h3]
  simp [parseString, hpre, hany]

example : mustQuote [97, 47, 98] = false := by decide

/-- ★ the token `AutoQuote` makes parses back to the value, and re-quotes to itself -/
theorem parseString_autoQuote (s : Bytes) : parseString (autoQuote s) = some (s, autoQuote s) := by
  cases h : mustQuote s with
  | false =>
    have : autoQuote s = s := by simp [autoQuote, h]
    rw [this]
    have := parseString_unquoted h
    rwa [‹autoQuote s = s›] at this
  | true =>
    have hq : autoQuote s = Quote.quote s := by simp [autoQuote, h]
    rw [hq]
    have hpre : isPrefixOfB [34] (Quote.quote s) = true := by rw [quote_eq_qbody]; simp [isPrefixOfB]
    simp only [parseString, hpre, if_true, unquote_quote, hq]

/-- ★ `parseString` is idempotent on the token it returns -/
theorem parseString_idem {tok v tok' : Bytes} (h : parseString tok = some (v, tok')) :
    parseString tok' = some (v, tok') := by
  have : tok' = autoQuote v := by
    unfold parseString at h
    split at h
    · split at h
      · cases h
      · simp only [Option.some.injEq, Prod.mk.injEq] at h
        obtain ⟨rfl, rfl⟩ := h; rfl
    · split at h
      · cases h
      · simp only [Option.some.injEq, Prod.mk.injEq] at h
        obtain ⟨rfl, rfl⟩ := h; rfl
  subst this
  exact parseString_autoQuote v

example : parseString [97] = some ([97], [97]) := by decide

end ModVerif.Proofs.ModfileFmtQuote
