/-
  ClientMore, part 4 — termination of a goroutine that is scheduled alone (`solo_finish`: at most 10 steps, by a rank
  that every step of the goroutine decreases) and reachability of a terminal state from every honest state
  (`can_finish`).  No liveness claim is made for arbitrary schedules: the `ErrWriteConflict` loop and the `latestMu`
  retry loop terminate only under fairness.
-/
import ModVerif.Proofs.ClientMoreSeen
namespace ModVerif.ClientLatest
variable {M T : Type} [DecidableEq M] [DecidableEq T]

/-- every goroutine has returned or has not been started -/
def Quiescent (s : St M T) : Prop := ∀ t, (s.th t).pc = .entry ∨ ∃ x, (s.th t).pc = .done x

/-- upper bound on the number of steps goroutine `t` takes to return when it runs alone from state `s`
(`fresh`: its snapshot of `c.latest` is current; `cf`: the configuration still has the content it read) -/
def rank (cl : Nat → Nat) (s : St M T) (t : Nat) : Nat :=
  let l := s.th t
  match l.pc with
  | .done _ => 0
  | .writeConfig => if s.config = l.cfg then 1 else 6
  | .readLatestMsg => if s.config = l.cfg then 2 else 7
  | .memInstall .loop => if s.latest (cl t) = l.latest then 1 else if s.config = l.cfg then 4 else 9
  | .memCheck .loop =>
      if s.latest (cl t) = l.latest then (if s.config = l.cfg then 3 else 8) else (if s.config = l.cfg then 5 else 10)
  | .memRead .loop => if s.config = l.cfg then 4 else 9
  | .readConfig => 5
  | .memInstall .first => if s.latest (cl t) = l.latest then 6 else 8
  | .memCheck .first => if s.latest (cl t) = l.latest then 7 else 9
  | .memRead .first => 8
  | .start => 9
  | .entry => 10

theorem rank_le (cl : Nat → Nat) (s : St M T) (t : Nat) : rank cl s t ≤ 10 := by
  unfold rank
  rcases (s.th t).pc with _ | _ | (_ | _) | (_ | _) | (_ | _) | _ | _ | _ | rr <;> simp only <;> (repeat' split) <;> omega

theorem rank_zero (cl : Nat → Nat) (s : St M T) (t : Nat) (h : rank cl s t = 0) : ∃ x, (s.th t).pc = .done x := by
  unfold rank at h
  rcases hpc : (s.th t).pc with _ | _ | (_ | _) | (_ | _) | (_ | _) | _ | _ | _ | rr <;> simp only [hpc] at h <;>
    (try (repeat' split at h)) <;> (try omega)
  exact ⟨rr, rfl⟩

/-- every step of `t` decreases its rank (whatever the outcome of the step) -/
theorem rank_step (P : Params M T) (cl : Nat → Nat) (presented : Nat → Option M) (priv : Nat → Bool)
    (s s' : St M T) (t : Nat) (r : Res) (h : step P cl presented priv s t r = some s') :
    rank cl s' t < rank cl s t := by
  step_cases
  all_goals (simp only [rank, upd_same, hpc]; (repeat' split) <;> (first | omega | simp_all))

/-- progress: with an honest server a goroutine that has not returned can always take a step with the answer `ok` -/
theorem step_ok_enabled (P : Params M T) (le : T → T → Prop) (Ch : T → Prop) (cl : Nat → Nat)
    (presented : Nat → Option M) (priv : Nat → Bool) (c0 : Option M) (hH : Honest P le Ch presented c0)
    (s : St M T) (t : Nat) (hC : ChainInv P Ch s) (hnd : ∀ x, (s.th t).pc ≠ .done x) :
    ∃ s', step P cl presented priv s t .ok = some s' := by
  have c2 := hC.th_tree t; have c3 := hC.th_latest t
  have hc := hH.chk_honest
  unfold step
  rcases hpc : (s.th t).pc with _ | _ | (_ | _) | (_ | _) | (_ | _) | _ | _ | _ | rr <;> simp only []
  all_goals (try (exact ⟨_, rfl⟩))
  all_goals (try (repeat' split) <;> (first | exact ⟨_, rfl⟩ | skip))
  all_goals (first | (exact absurd hpc (hnd _)) | skip)
  all_goals grind

theorem cfgOk_ok (s : St M T) (t : Nat) : CfgOk s t .ok := by
  intro _; simp

/-- **A goroutine scheduled alone returns within 10 steps** (honest server, every answer `ok`), without touching the
local state of any other goroutine. -/
theorem solo_finish (P : Params M T) (le : T → T → Prop) (Ch : T → Prop) (cl : Nat → Nat)
    (presented : Nat → Option M) (priv : Nat → Bool) (c0 : Option M) (hH : Honest P le Ch presented c0) (t : Nat) :
    ∀ (n : Nat) (s : St M T), HReachable P cl presented priv c0 s → rank cl s t ≤ n →
      ∃ k s', k ≤ n ∧ run P cl presented priv s (List.replicate k (t, Res.ok)) = some s' ∧
        HReachable P cl presented priv c0 s' ∧ (∃ x, (s'.th t).pc = .done x) ∧ ∀ t', t' ≠ t → s'.th t' = s.th t' := by
  intro n
  induction n with
  | zero =>
    intro s hr hn
    exact ⟨0, s, Nat.le_refl _, rfl, hr, rank_zero cl s t (by omega), fun _ _ => rfl⟩
  | succ n ih =>
    intro s hr hn
    by_cases hd : ∃ x, (s.th t).pc = .done x
    · exact ⟨0, s, by omega, rfl, hr, hd, fun _ _ => rfl⟩
    · have hnd : ∀ x, (s.th t).pc ≠ .done x := fun x hx => hd ⟨x, hx⟩
      obtain ⟨s1, hs1⟩ := step_ok_enabled P le Ch cl presented priv c0 hH s t
        (honest_invs P le Ch cl presented priv c0 hH s hr).1 hnd
      have hr1 : HReachable P cl presented priv c0 s1 := HReachable.step t .ok hr (cfgOk_ok s t) hs1
      have hlt := rank_step P cl presented priv s s1 t .ok hs1
      obtain ⟨k, s', hk, hrun, hr', hdone, hfr⟩ := ih s1 hr1 (by omega)
      refine ⟨k + 1, s', by omega, ?_, hr', hdone, ?_⟩
      · simp only [List.replicate_succ, run, hs1]; exact hrun
      · intro t' ht'
        rw [hfr t' ht', step_th_frame P cl presented priv s s1 t .ok hs1 t' ht']

theorem run_append (P : Params M T) (cl : Nat → Nat) (presented : Nat → Option M) (priv : Nat → Bool) :
    ∀ (a b : List (Nat × Res)) (s s1 s2 : St M T), run P cl presented priv s a = some s1 →
      run P cl presented priv s1 b = some s2 → run P cl presented priv s (a ++ b) = some s2 := by
  intro a
  induction a with
  | nil => intro b s s1 s2 h1 h2; simp [run] at h1; subst h1; simpa using h2
  | cons x a ih =>
    intro b s s1 s2 h1 h2
    obtain ⟨t, r⟩ := x
    simp only [run, List.cons_append] at h1 ⊢
    cases hs : step P cl presented priv s t r with
    | none => simp [hs] at h1
    | some s0 => simp only [hs] at h1 ⊢; exact ih b s0 s1 s2 h1 h2

/-- only finitely many goroutines have left `entry` -/
theorem finite_active (P : Params M T) (cl : Nat → Nat) (presented : Nat → Option M) (priv : Nat → Bool) (c0 : Option M)
    (s : St M T) (h : Reachable P cl presented priv c0 s) : ∃ l : List Nat, ∀ t, t ∉ l → (s.th t).pc = .entry := by
  induction h with
  | init => exact ⟨[], fun _ _ => rfl⟩
  | step t r _ hs ih =>
    obtain ⟨l, hl⟩ := ih
    refine ⟨t :: l, fun t' ht' => ?_⟩
    simp only [List.mem_cons, not_or] at ht'
    rw [step_th_frame P cl presented priv _ _ t r hs t' ht'.1]
    exact hl t' ht'.2

theorem finish_list (P : Params M T) (le : T → T → Prop) (Ch : T → Prop) (cl : Nat → Nat)
    (presented : Nat → Option M) (priv : Nat → Bool) (c0 : Option M) (hH : Honest P le Ch presented c0) :
    ∀ (l : List Nat) (s : St M T), HReachable P cl presented priv c0 s →
      ∃ sched s', (∀ x ∈ sched, x.2 = Res.ok) ∧ sched.length ≤ 10 * l.length ∧
        run P cl presented priv s sched = some s' ∧ HReachable P cl presented priv c0 s' ∧
        (∀ t ∈ l, ∃ x, (s'.th t).pc = .done x) ∧ ∀ t, t ∉ l → s'.th t = s.th t := by
  intro l
  induction l with
  | nil => intro s hr; exact ⟨[], s, by simp, by simp, rfl, hr, by simp, fun _ _ => rfl⟩
  | cons a l ih =>
    intro s hr
    obtain ⟨k, s1, hk, hrun1, hr1, hd1, hf1⟩ :=
      solo_finish P le Ch cl presented priv c0 hH a 10 s hr (rank_le cl s a)
    obtain ⟨sched, s2, hok, hlen, hrun2, hr2, hd2, hf2⟩ := ih s1 hr1
    refine ⟨List.replicate k (a, Res.ok) ++ sched, s2, ?_, ?_, run_append P cl presented priv _ _ s s1 s2 hrun1 hrun2,
      hr2, ?_, ?_⟩
    · intro x hx
      rcases List.mem_append.mp hx with h1 | h1
      · rw [(List.mem_replicate.mp h1).2]
      · exact hok x h1
    · simp only [List.length_append, List.length_replicate, List.length_cons]; omega
    · intro t ht
      by_cases htl : t ∈ l
      · exact hd2 t htl
      · have : t = a := by simpa [htl] using ht
        subst this
        rw [hf2 t htl]; exact hd1
    · intro t ht
      simp only [List.mem_cons, not_or] at ht
      rw [hf2 t ht.2, hf1 t ht.1]

/-- **From every state of an honest run a terminal state is reachable** (finish the goroutines that are under way one
after the other; every answer is `ok`, so the continuation is an honest run too). -/
theorem can_finish (P : Params M T) (le : T → T → Prop) (Ch : T → Prop) (cl : Nat → Nat)
    (presented : Nat → Option M) (priv : Nat → Bool) (c0 : Option M) (hH : Honest P le Ch presented c0)
    (s : St M T) (h : HReachable P cl presented priv c0 s) :
    ∃ sched s', (∀ x ∈ sched, x.2 = Res.ok) ∧ run P cl presented priv s sched = some s' ∧
      HReachable P cl presented priv c0 s' ∧ Quiescent s' := by
  obtain ⟨l, hl⟩ := finite_active P cl presented priv c0 s h.reachable
  obtain ⟨sched, s', hok, _, hrun, hr', hd, hf⟩ := finish_list P le Ch cl presented priv c0 hH l s h
  refine ⟨sched, s', hok, hrun, hr', fun t => ?_⟩
  by_cases ht : t ∈ l
  · exact Or.inr (hd t ht)
  · left; rw [hf t ht]; exact hl t ht

end ModVerif.ClientLatest
