/-
  Specification-side lemmas for C03 (RFC 6962 recursion of `Spec/RFC6962.lean`): the split point,
  fuel independence and the unfolding equations of `mth`, `path`, `proof`, `inclRootF`, `consRootsF`.
  Nothing here mentions the model.
-/
import ModVerif.Spec.RFC6962
namespace ModVerif.RFC6962

/-! ### the split point -/

theorem splitPoint_spec (n : Nat) (h : 2 ≤ n) :
    0 < splitPoint n ∧ splitPoint n < n ∧ n ≤ 2 * splitPoint n := by
  unfold splitPoint
  have hne : n - 1 ≠ 0 := by omega
  have h1 := Nat.log2_self_le hne
  have h2 := Nat.lt_log2_self (n := n - 1)
  rw [Nat.pow_succ] at h2
  refine ⟨Nat.two_pow_pos _, by omega, by omega⟩

theorem splitPoint_pos (n : Nat) : 0 < splitPoint n := Nat.two_pow_pos _

/-- the largest power of two below `m` is the one below `n` whenever `k < m ≤ n` -/
theorem splitPoint_mid (n m : Nat) (h1 : splitPoint n < m) (h2 : m ≤ n) : splitPoint m = splitPoint n := by
  have hn : 2 ≤ n := by have := splitPoint_pos n; omega
  have hs := splitPoint_spec n hn
  unfold splitPoint at *
  congr 1
  have hne : m - 1 ≠ 0 := by have := Nat.two_pow_pos (n - 1).log2; omega
  have a : (n - 1).log2 ≤ (m - 1).log2 := (Nat.le_log2 hne).mpr (by omega)
  have b : (m - 1).log2 < (n - 1).log2 + 1 := (Nat.log2_lt hne).mpr (by rw [Nat.pow_succ]; omega)
  omega

section
variable {H : Type} (node : H → H → H) (empty : H)

/-! ### mth -/

theorem mthF_fuel : ∀ f g (D : List H), D.length ≤ f → D.length ≤ g → mthF node empty f D = mthF node empty g D := by
  intro f
  induction f with
  | zero =>
    intro g D h1 _
    have : D = [] := List.eq_nil_of_length_eq_zero (by omega)
    subst this
    cases g <;> simp [mthF]
  | succ f ih =>
    intro g D h1 h2
    match D, g with
    | [], g => cases g <;> simp [mthF]
    | [x], g => cases g <;> simp [mthF]
    | x :: y :: r, 0 => simp at h2
    | x :: y :: r, g + 1 =>
      simp only [mthF]
      have hs := splitPoint_spec (x :: y :: r).length (by simp)
      rw [ih g _ (by rw [List.length_take]; omega) (by rw [List.length_take]; omega),
        ih g _ (by rw [List.length_drop]; omega) (by rw [List.length_drop]; omega)]

theorem mth_nil : mth node empty ([] : List H) = empty := by simp [mth, mthF]

theorem mth_singleton (x : H) : mth node empty [x] = x := by simp [mth, mthF]

/-- RFC 6962 §2.1: `MTH(D[n]) = HASH(0x01 || MTH(D[0:k]) || MTH(D[k:n]))` for `n > 1` -/
theorem mth_split (D : List H) (h : 2 ≤ D.length) :
    mth node empty D = node (mth node empty (D.take (splitPoint D.length))) (mth node empty (D.drop (splitPoint D.length))) := by
  have hs := splitPoint_spec D.length h
  match D, h with
  | x :: y :: r, _ =>
    unfold mth
    simp only [List.length_cons, mthF]
    rw [mthF_fuel node empty _ ((x :: y :: r).take (splitPoint (r.length + 1 + 1))).length _
        (by simp only [List.length_take, List.length_cons] at hs ⊢; omega) (Nat.le_refl _),
      mthF_fuel node empty _ ((x :: y :: r).drop (splitPoint (r.length + 1 + 1))).length _
        (by simp only [List.length_drop, List.length_cons] at hs ⊢; omega) (Nat.le_refl _)]

/-! ### path -/

theorem pathF_fuel : ∀ f g m (D : List H), D.length ≤ f → D.length ≤ g →
    pathF node empty f m D = pathF node empty g m D := by
  intro f
  induction f with
  | zero =>
    intro g m D h1 _
    cases g with
    | zero => rfl
    | succ g => simp only [pathF]; rw [if_pos (by omega)]
  | succ f ih =>
    intro g m D h1 h2
    cases g with
    | zero => simp only [pathF]; rw [if_pos (by omega)]
    | succ g =>
      simp only [pathF]
      by_cases hl : D.length ≤ 1
      · simp [hl]
      · have hs := splitPoint_spec D.length (by omega)
        simp only [hl, ↓reduceIte]
        rw [ih g m _ (by rw [List.length_take]; omega) (by rw [List.length_take]; omega),
          ih g (m - splitPoint D.length) _ (by rw [List.length_drop]; omega) (by rw [List.length_drop]; omega)]

theorem path_small (m : Nat) (D : List H) (h : D.length ≤ 1) : path node empty m D = [] := by
  unfold path
  cases hD : D.length with
  | zero => rfl
  | succ k => simp only [pathF]; rw [if_pos (by omega)]

theorem path_left (m : Nat) (D : List H) (h : 2 ≤ D.length) (hm : m < splitPoint D.length) :
    path node empty m D = path node empty m (D.take (splitPoint D.length)) ++ [mth node empty (D.drop (splitPoint D.length))] := by
  have hs := splitPoint_spec D.length h
  unfold path
  cases hD : D.length with
  | zero => omega
  | succ k =>
    simp only [pathF]
    rw [if_neg (by omega), ← hD, if_pos hm]
    rw [pathF_fuel node empty k (D.take (splitPoint D.length)).length _ _ (by rw [List.length_take]; omega) (Nat.le_refl _)]

theorem path_right (m : Nat) (D : List H) (h : 2 ≤ D.length) (hm : ¬ m < splitPoint D.length) :
    path node empty m D =
      path node empty (m - splitPoint D.length) (D.drop (splitPoint D.length)) ++ [mth node empty (D.take (splitPoint D.length))] := by
  have hs := splitPoint_spec D.length h
  unfold path
  cases hD : D.length with
  | zero => omega
  | succ k =>
    simp only [pathF]
    rw [if_neg (by omega), ← hD, if_neg hm]
    rw [pathF_fuel node empty k (D.drop (splitPoint D.length)).length _ _ (by rw [List.length_drop]; omega) (Nat.le_refl _)]

/-! ### subproof -/

/-- SUBPROOF with the canonical fuel -/
def subProof (m : Nat) (D : List H) (b : Bool) : List H := subProofF node empty (D.length + 1) m D b

theorem subProofF_fuel : ∀ f g m (D : List H) b, 1 ≤ m → m ≤ D.length → D.length < f → D.length < g →
    subProofF node empty f m D b = subProofF node empty g m D b := by
  intro f
  induction f with
  | zero => intro g m D b _ _ h1 _; omega
  | succ f ih =>
    intro g m D b hm1 hm2 h1 h2
    cases g with
    | zero => omega
    | succ g =>
      simp only [subProofF]
      by_cases hm : m = D.length
      · simp [hm]
      · simp only [hm, ↓reduceIte]
        have hs := splitPoint_spec D.length (by omega)
        by_cases hle : m ≤ splitPoint D.length
        · simp only [hle, ↓reduceIte]
          rw [ih g m _ b hm1 (by rw [List.length_take]; omega) (by rw [List.length_take]; omega)
            (by rw [List.length_take]; omega)]
        · simp only [hle, ↓reduceIte]
          rw [ih g (m - splitPoint D.length) _ false (by omega) (by rw [List.length_drop]; omega)
            (by rw [List.length_drop]; omega) (by rw [List.length_drop]; omega)]

theorem proof_eq_subProof (m : Nat) (D : List H) : proof node empty m D = subProof node empty m D true := rfl

theorem subProof_full (D : List H) (b : Bool) :
    subProof node empty D.length D b = if b then [] else [mth node empty D] := by
  simp [subProof, subProofF]

theorem subProof_left (m : Nat) (D : List H) (b : Bool) (h : 2 ≤ D.length) (hm1 : 1 ≤ m) (hne : m ≠ D.length)
    (hm : m ≤ splitPoint D.length) :
    subProof node empty m D b =
      subProof node empty m (D.take (splitPoint D.length)) b ++ [mth node empty (D.drop (splitPoint D.length))] := by
  have hs := splitPoint_spec D.length h
  unfold subProof
  conv => lhs; rw [subProofF]
  simp only [hne, ↓reduceIte, hm]
  rw [subProofF_fuel node empty _ ((D.take (splitPoint D.length)).length + 1) _ _ _ hm1
    (by rw [List.length_take]; omega) (by rw [List.length_take]; omega) (by omega)]

theorem subProof_right (m : Nat) (D : List H) (b : Bool) (h : 2 ≤ D.length) (hm2 : m ≤ D.length) (hne : m ≠ D.length)
    (hm : ¬ m ≤ splitPoint D.length) :
    subProof node empty m D b =
      subProof node empty (m - splitPoint D.length) (D.drop (splitPoint D.length)) false ++
        [mth node empty (D.take (splitPoint D.length))] := by
  have hs := splitPoint_spec D.length h
  unfold subProof
  conv => lhs; rw [subProofF]
  simp only [hne, ↓reduceIte, hm]
  rw [subProofF_fuel node empty _ ((D.drop (splitPoint D.length)).length + 1) _ _ _ (by omega)
    (by rw [List.length_drop]; omega) (by rw [List.length_drop]; omega) (by omega)]

end
end ModVerif.RFC6962
