/-
  Helper lemmas for Tie/FnEditSet.lean, `File.SetRequireSeparateIndirect`, part 10: `ensureBlock` on a represented file,
  facts about the scan (`ScanOK`), the membership tests through `lineToBlock` (`LtbOK`), `oneFlatUncommentedBlock`.
-/
import ModVerif.Proofs.TieFnEditSetL
set_option linter.unusedSimpArgs false
set_option linter.unusedVariables false
namespace ModVerif.Tie.FnEditSetM
open ModVerif ModVerif.GoRt ModVerif.Generated.Edit ModVerif.Tie.FnEditRep ModVerif.Tie.FnEditTreeA ModVerif.Tie.FnEditSetA
  ModVerif.Tie.FnEditSetB ModVerif.Tie.FnEditSetC ModVerif.Tie.FnEditSetD ModVerif.Tie.FnEditSetE ModVerif.Tie.FnEditSetF
  ModVerif.Tie.FnEditSetG ModVerif.Tie.FnEditSetH ModVerif.Tie.FnEditSetI ModVerif.Tie.FnEditSetJ ModVerif.Tie.FnEditSetK
  ModVerif.Tie.FnEditSetL
open ModVerif.Modfile.Edit (EFile Want treeIds Scan scanStmts scanBlockLines headIs hasComments SepCtx inBlockOrig)

/-! ### ensureBlock on a represented file -/

theorem RStmts_get_line {h : Heap} {es : List Expr} {ss : List Modfile.Expr} (r : RStmts h es ss) {i : Nat} {l : Modfile.Line}
    (hs : ss[i]? = some (Modfile.Expr.line l)) : ∃ q, es[i]? = some (Expr.Line q) ∧ RLine h q l := by
  have hlen := r.length
  have hlt : i < es.length := by rw [hlen]; exact (List.getElem?_eq_some_iff.1 hs).1
  have he : es[i]? = some es[i] := List.getElem?_eq_getElem hlt
  have := r.get i _ _ he hs
  generalize es[i] = x at he this
  cases x <;> simp only [RExpr] at this <;> try exact this.elim
  exact ⟨_, he, this⟩

theorem RStmts_get_block {h : Heap} {es : List Expr} {ss : List Modfile.Expr} (r : RStmts h es ss) {i : Nat} {b : Modfile.LineBlock}
    (hs : ss[i]? = some (Modfile.Expr.lineBlock b)) :
    ∃ p ps, es[i]? = some (Expr.LineBlock p) ∧ heapGet h.blocks p = .ok (blockG b ps) ∧ RLines h ps b.lines := by
  have hlen := r.length
  have hlt : i < es.length := by rw [hlen]; exact (List.getElem?_eq_some_iff.1 hs).1
  have he : es[i]? = some es[i] := List.getElem?_eq_getElem hlt
  have := r.get i _ _ he hs
  generalize es[i] = x at he this
  cases x <;> simp only [RExpr] at this <;> try exact this.elim
  obtain ⟨ps, h1, h2⟩ := this
  exact ⟨_, ps, he, h1, h2⟩

theorem RStmts_get_cb {h : Heap} {es : List Expr} {ss : List Modfile.Expr} (r : RStmts h es ss) {i : Nat} {c : Modfile.CommentBlock}
    (hs : ss[i]? = some (Modfile.Expr.commentBlock c)) : ∃ p, es[i]? = some (Expr.CommentBlock p) := by
  have hlen := r.length
  have hlt : i < es.length := by rw [hlen]; exact (List.getElem?_eq_some_iff.1 hs).1
  have he : es[i]? = some es[i] := List.getElem?_eq_getElem hlt
  have := r.get i _ _ he hs
  generalize es[i] = x at he this
  cases x <;> simp only [RExpr] at this <;> try exact this.elim
  exact ⟨_, he⟩

theorem RStmts_no_paren {h : Heap} {es : List Expr} {ss : List Modfile.Expr} (r : RStmts h es ss) {i : Nat} {s : Modfile.Expr}
    (hs : ss[i]? = some s) : (∀ x, s ≠ Modfile.Expr.lparen x) ∧ (∀ x, s ≠ Modfile.Expr.rparen x) := by
  have hlen := r.length
  have hlt : i < es.length := by rw [hlen]; exact (List.getElem?_eq_some_iff.1 hs).1
  have he : es[i]? = some es[i] := List.getElem?_eq_getElem hlt
  have := r.get i _ _ he hs
  constructor <;> intro x e <;> subst e <;> cases hx : es[i] <;> rw [hx] at this <;> exact this

theorem treeIds_set_wrap {stmts : List Modfile.Expr} {i : Nat} {l : Modfile.Line} (hs : stmts[i]? = some (Modfile.Expr.line l)) :
    treeIds (stmts.set i (Modfile.Expr.lineBlock { token := [B "require"], lines := [wrapLine l] })) = treeIds stmts := by
  obtain ⟨a, b, rfl, rfl⟩ := split_at hs
  rw [set_append_mid, treeIds_mid, treeIds_mid, Modfile.Edit.treeIds_block, treeIds_line]
  rfl

theorem ensureBlock_sim (isPrint : Int → Bool) (quote : Bytes → Bytes) (fuel : Nat) {h : Heap} {f : Int} {o : File} {e : EFile}
    (hm : heapGet h.mods f = .ok o) (R : RepFAt h o e) (i : Nat) {fo : FileSyntax} (hfile : heapGet h.files o.Syntax = .ok fo)
    (hline : ∀ l, e.f.syn.stmts[i]? = some (Modfile.Expr.line l) → l.token ≠ []) :
    match Modfile.Edit.ensureBlock e.f.syn.stmts i with
    | .ok stmts' =>
      ∃ h' bp es', File_SetRequireSeparateIndirect_ensureBlock isPrint quote fuel f (i : Int) h = .ok (bp, h') ∧
        RepFAt h' o (withStmts e stmts') ∧ heapGet h'.files o.Syntax = .ok { fo with Stmt := es' } ∧
        es'[i]? = some (Expr.LineBlock bp) ∧ 0 < bp ∧
        ((fo.Stmt[i]? = some (Expr.LineBlock bp) ∧ es' = fo.Stmt ∧ (∃ b, e.f.syn.stmts[i]? = some (Modfile.Expr.lineBlock b))) ∨
         (∃ q, fo.Stmt[i]? = some (Expr.Line q) ∧ es' = fo.Stmt.set i (Expr.LineBlock bp) ∧
            bp = ((h.blocks.length + 1 : Nat) : Int) ∧ (∃ l, e.f.syn.stmts[i]? = some (Modfile.Expr.line l)))) ∧
        h'.mods = h.mods ∧ h'.requires = h.requires ∧ h.blocks.length ≤ h'.blocks.length ∧
        treeIds stmts' = treeIds e.f.syn.stmts
    | .error _ => File_SetRequireSeparateIndirect_ensureBlock isPrint quote fuel f (i : Int) h = .error .panic := by
  obtain ⟨es, r⟩ := R.syn
  have hes : fo.Stmt = es := RepSynAt_stmt_eq r hfile
  have hlen := r.stmts.length
  unfold Modfile.Edit.ensureBlock
  cases hs : e.f.syn.stmts[i]? with
  | none =>
    simp only
    apply ensureBlock_bad isPrint quote fuel hm hfile
    intro p
    have : fo.Stmt[i]? = none := by
      rw [hes, List.getElem?_eq_none_iff, hlen]; exact List.getElem?_eq_none_iff.1 hs
    rw [this]; simp
  | some s =>
    cases s with
    | lineBlock b =>
      simp only
      obtain ⟨p, ps, he, hb, _⟩ := RStmts_get_block r.stmts hs
      obtain ⟨a, b', hab, hai⟩ := split_at he
      have hrun := ensureBlock_block isPrint quote fuel hm hfile a b' p (by rw [hes, hab])
      rw [hai] at hrun
      refine ⟨h, p, fo.Stmt, hrun, by simpa [withStmts_self] using R, ?_, by rw [hes]; exact he, heapGet_pos hb,
        Or.inl ⟨by rw [hes]; exact he, rfl, b, rfl⟩, rfl, rfl, Nat.le_refl _, trivial⟩
      rw [hfile]
    | line l =>
      simp only
      obtain ⟨q, he, hq, hqid⟩ := RStmts_get_line r.stmts hs
      obtain ⟨a, b', hab, hai⟩ := split_at he
      obtain ⟨sa, sb, hsab, hsai⟩ := split_at hs
      have hrun := ensureBlock_line isPrint quote fuel hm hfile a b' q (by rw [hes, hab]) hq (hline l hs)
      rw [hai] at hrun
      have r' : RepSynAt h o.Syntax e.f.syn (a ++ Expr.Line q :: b') := by rw [← hab]; exact r
      have r2 := RepSynAt_wrap r' hsab (by rw [hsai, hai])
      have hfo : fo = fileG e.f.syn (a ++ Expr.Line q :: b') := by
        have := r'.file; rw [hfile] at this; exact Except.ok.inj this
      have hset : e.f.syn.stmts.set i (Modfile.Expr.lineBlock { token := [B "require"], lines := [wrapLine l] }) =
          sa ++ Modfile.Expr.lineBlock { token := [B "require"], lines := [wrapLine l] } :: sb := by
        rw [hsab, ← hsai, set_append_mid]
      have hwl : ({ l with token := l.token.drop 1, inBlock := true } : Modfile.Line) = wrapLine l := rfl
      rw [hwl]
      refine ⟨_, _, a ++ Expr.LineBlock ((h.blocks.length + 1 : Nat) : Int) :: b', hrun, ?_, ?_, ?_, by omega,
        Or.inr ⟨q, by rw [hes]; exact he, ?_, rfl, l, rfl⟩, rfl, rfl, ?_, treeIds_set_wrap hs⟩
      · rw [hset, hfo]
        have hT : TypedEq h (wrapHeap h o.Syntax (fileG e.f.syn (a ++ Expr.Line q :: b'))
            (a ++ Expr.LineBlock ((h.blocks.length + 1 : Nat) : Int) :: b') q l) := ⟨rfl, rfl, rfl, rfl, rfl, rfl, rfl, rfl⟩
        have := RepFAt_rebuild R (h' := wrapHeap h o.Syntax (fileG e.f.syn (a ++ Expr.Line q :: b'))
            (a ++ Expr.LineBlock ((h.blocks.length + 1 : Nat) : Int) :: b') q l)
          (fs' := { e.f.syn with stmts := sa ++ Modfile.Expr.lineBlock { token := [B "require"], lines := [wrapLine l] } :: sb })
          (n' := e.next) (rq' := e.f.require) ⟨_, r2⟩ ?_ ?_ ?_ ?_ ?_ hT
        · exact this
        · intro b hbm
          simp only [List.mem_append, List.mem_cons] at hbm
          rcases hbm with h1 | h1 | h1
          · exact R.tok b (by rw [hsab]; exact List.mem_append_left _ h1)
          · simp only [Modfile.Expr.lineBlock.injEq] at h1; subst h1; simp
          · exact R.tok b (by rw [hsab]; exact List.mem_append_right _ (List.mem_cons_of_mem _ h1))
        · exact LinesG.setLine R.linesG _ _
        · simp [wrapHeap, R.next]
        · simp [wrapHeap]
        · simpa [wrapHeap] using R.require
      · exact heapGet_listSet_same _ hfile
      · rw [← hai]; exact getElem?_append_mid _ _ _
      · rw [hes, hab, ← hai, set_append_mid]
      · simp [wrapHeap]
    | commentBlock c =>
      simp only
      obtain ⟨p, he⟩ := RStmts_get_cb r.stmts hs
      apply ensureBlock_bad isPrint quote fuel hm hfile
      intro p'
      rw [hes, he]; simp
    | lparen x => exact absurd rfl ((RStmts_no_paren r.stmts hs).1 x)
    | rparen x => exact absurd rfl ((RStmts_no_paren r.stmts hs).2 x)

/-! ### facts about the scan -/

def IsReqLine (stmts : List Modfile.Expr) (i : Nat) : Prop := ∃ l, stmts[i]? = some (Modfile.Expr.line l) ∧ l.token ≠ []
def IsBlockM (stmts : List Modfile.Expr) (i : Nat) : Prop := ∃ b, stmts[i]? = some (Modfile.Expr.lineBlock b)
def Good (stmts : List Modfile.Expr) (i : Nat) : Prop := IsReqLine stmts i ∨ IsBlockM stmts i

structure ScanOK (stmts : List Modfile.Expr) (s : Scan) : Prop where
  lr : ∀ i, s.lastRequire = some i → Good stmts i
  ld : ∀ i, s.lastDirect = some i → Good stmts i
  li : ∀ i, s.lastIndirect = some i → Good stmts i
  cnt : 1 ≤ s.count → s.lastRequire ≠ none
  ltb : ∀ q ∈ s.lineToBlock, IsBlockM stmts q.2

theorem ScanOK.init (stmts : List Modfile.Expr) : ScanOK stmts {} where
  lr := fun _ h => by cases h
  ld := fun _ h => by cases h
  li := fun _ h => by cases h
  cnt := fun h => by simp at h
  ltb := fun _ h => by cases h

theorem ScanOK.step {all : List Modfile.Expr} {s s' : Scan} (h : ScanOK all s) (k : Nat) (hk : Good all k)
    (hlr : s'.lastRequire = s.lastRequire ∨ s'.lastRequire = some k)
    (hld : s'.lastDirect = s.lastDirect ∨ s'.lastDirect = some k)
    (hli : s'.lastIndirect = s.lastIndirect ∨ s'.lastIndirect = some k)
    (hcnt : s'.lastRequire = some k ∨ (s'.count = s.count ∧ s'.lastRequire = s.lastRequire))
    (hltb : ∀ q ∈ s'.lineToBlock, q ∈ s.lineToBlock ∨ (q.2 = k ∧ IsBlockM all k)) : ScanOK all s' := by
  refine ⟨?_, ?_, ?_, ?_, ?_⟩
  · intro i hi; rcases hlr with e | e <;> rw [e] at hi
    · exact h.lr i hi
    · cases hi; exact hk
  · intro i hi; rcases hld with e | e <;> rw [e] at hi
    · exact h.ld i hi
    · cases hi; exact hk
  · intro i hi; rcases hli with e | e <;> rw [e] at hi
    · exact h.li i hi
    · cases hi; exact hk
  · intro hc; rcases hcnt with e | ⟨e1, e2⟩
    · rw [e]; simp
    · rw [e2]; exact h.cnt (by omega)
  · intro q hq; rcases hltb q hq with e | ⟨e1, e2⟩
    · exact h.ltb q e
    · rw [e1]; exact e2

theorem scan_ok : ∀ (xs pre : List Modfile.Expr) (s : Scan), ScanOK (pre ++ xs) s → ScanOK (pre ++ xs) (scanStmts xs pre.length s)
  | [], pre, s, h => by simpa [scanStmts] using h
  | x :: xs, pre, s, h => by
    have ih := fun s' (h' : ScanOK (pre ++ x :: xs) s') => by
      have := scan_ok xs (pre ++ [x]) s' (by simpa using h')
      simpa using this
    have hk : (pre ++ x :: xs)[pre.length]? = some x := getElem?_append_mid pre x xs
    cases x with
    | line l =>
      unfold scanStmts
      by_cases ht : (l.token.isEmpty || !headIs l.token (B "require")) = true
      · simp only [ht, if_true]; exact ih s h
      · simp only [ht, Bool.false_eq_true, if_false]
        have hne : l.token ≠ [] := by
          intro e; rw [e] at ht; simp at ht
        have hg : Good (pre ++ Modfile.Expr.line l :: xs) pre.length := Or.inl ⟨l, hk, hne⟩
        apply ih
        by_cases hc : hasComments l.comments = true
        · simp only [hc, Bool.not_true, Bool.false_eq_true, if_false]
          exact h.step pre.length hg (Or.inr rfl) (Or.inl rfl) (Or.inl rfl) (Or.inl rfl) (fun q hq => Or.inl hq)
        · simp only [hc, Bool.not_false, if_true]
          by_cases hi : Modfile.isIndirect l = true
          · simp only [hi, if_true]
            exact h.step pre.length hg (Or.inr rfl) (Or.inl rfl) (Or.inr rfl) (Or.inl rfl) (fun q hq => Or.inl hq)
          · simp only [hi, Bool.false_eq_true, if_false]
            exact h.step pre.length hg (Or.inr rfl) (Or.inr rfl) (Or.inl rfl) (Or.inl rfl) (fun q hq => Or.inl hq)
    | lineBlock b =>
      unfold scanStmts
      by_cases ht : (b.token.isEmpty || !headIs b.token (B "require")) = true
      · simp only [ht, if_true]; exact ih s h
      · simp only [ht, Bool.false_eq_true, if_false]
        have hb : IsBlockM (pre ++ Modfile.Expr.lineBlock b :: xs) pre.length := ⟨b, hk⟩
        have hg : Good (pre ++ Modfile.Expr.lineBlock b :: xs) pre.length := Or.inr hb
        have hltb : ∀ q ∈ s.lineToBlock ++ b.lines.map (fun l => (l.id, pre.length)),
            q ∈ s.lineToBlock ∨ (q.2 = pre.length ∧ IsBlockM (pre ++ Modfile.Expr.lineBlock b :: xs) pre.length) := by
          intro q hq
          rcases List.mem_append.1 hq with hq | hq
          · exact Or.inl hq
          · obtain ⟨l, _, rfl⟩ := List.mem_map.1 hq; exact Or.inr ⟨rfl, hb⟩
        apply ih
        generalize scanBlockLines b.lines (!b.lines.isEmpty && !hasComments b.comments)
          (!b.lines.isEmpty && !hasComments b.comments) = sb
        obtain ⟨ad, ai⟩ := sb
        cases ad <;> cases ai <;> simp only [if_true, if_false, Bool.false_eq_true]
        · exact h.step pre.length hg (Or.inr rfl) (Or.inl rfl) (Or.inl rfl) (Or.inl rfl) hltb
        · exact h.step pre.length hg (Or.inr rfl) (Or.inl rfl) (Or.inr rfl) (Or.inl rfl) hltb
        · exact h.step pre.length hg (Or.inr rfl) (Or.inr rfl) (Or.inl rfl) (Or.inl rfl) hltb
        · exact h.step pre.length hg (Or.inr rfl) (Or.inr rfl) (Or.inr rfl) (Or.inl rfl) hltb
    | commentBlock c => unfold scanStmts; exact ih s h
    | lparen c => unfold scanStmts; exact ih s h
    | rparen c => unfold scanStmts; exact ih s h

/-! ### the membership tests through `lineToBlock` -/

theorem find_ltbG (es0 : List Expr) (lid : Nat) : ∀ (ml : List (Nat × Nat)),
    (ltbG es0 ml).find? (fun p => decide (p.1 = (lid : Int))) =
      (ml.find? (·.1 == lid)).map fun q => ((q.1 : Int), blockPtrAt es0 q.2)
  | [] => rfl
  | q :: ml => by
    simp only [ltbG, List.map_cons, List.find?_cons]
    by_cases e : q.1 = lid
    · simp [e]
    · have e1 : ((q.1 : Int) = (lid : Int)) = False := by simp; omega
      have e2 : (q.1 == lid) = false := by simpa using e
      simp only [e1, decide_false, e2]
      exact find_ltbG es0 lid ml

theorem blockPtr_index_inj : ∀ {es : List Expr} {i j : Nat} {p : Int}, (blockPtrs es).Nodup →
    es[i]? = some (Expr.LineBlock p) → es[j]? = some (Expr.LineBlock p) → i = j
  | [], i, j, p, _, hi, _ => by simp at hi
  | e :: es, 0, 0, p, _, _, _ => rfl
  | e :: es, 0, j + 1, p, hn, hi, hj => by
    simp only [List.getElem?_cons_zero, Option.some.injEq] at hi
    simp only [List.getElem?_cons_succ] at hj
    subst hi
    simp only [blockPtrs, List.nodup_cons] at hn
    obtain ⟨a, b, rfl, _⟩ := split_at hj
    rw [blockPtrs_mid_block] at hn
    exact absurd (List.mem_append_right _ List.mem_cons_self) hn.1
  | e :: es, i + 1, 0, p, hn, hi, hj => by
    simp only [List.getElem?_cons_zero, Option.some.injEq] at hj
    simp only [List.getElem?_cons_succ] at hi
    subst hj
    simp only [blockPtrs, List.nodup_cons] at hn
    obtain ⟨a, b, rfl, _⟩ := split_at hi
    rw [blockPtrs_mid_block] at hn
    exact absurd (List.mem_append_right _ List.mem_cons_self) hn.1
  | e :: es, i + 1, j + 1, p, hn, hi, hj => by
    simp only [List.getElem?_cons_succ] at hi hj
    have hn' : (blockPtrs es).Nodup := by
      cases e <;> simp only [blockPtrs, List.nodup_cons] at hn <;> first | exact hn | exact hn.2
    rw [blockPtr_index_inj hn' hi hj]

/-- where a block pointer `B` comes from: the block at index `k` of the scanned statement list, or a block created after the
    scan (then no line of the scan is mapped to index `k`) -/
def Origin (es0 : List Expr) (orig : Option Nat) (B : Int) : Prop :=
  match orig with
  | some k => es0[k]? = some (Expr.LineBlock B) ∨ (B ∉ blockPtrs es0 ∧ ¬ ∃ p, es0[k]? = some (Expr.LineBlock p))
  | none => B ∉ blockPtrs es0

theorem mem_blockPtrs_of_get {es : List Expr} {i : Nat} {p : Int} (h : es[i]? = some (Expr.LineBlock p)) : p ∈ blockPtrs es := by
  obtain ⟨a, b, rfl, _⟩ := split_at h
  rw [blockPtrs_mid_block]; exact List.mem_append_right _ List.mem_cons_self

theorem ltb_test (es0 : List Expr) (hn : (blockPtrs es0).Nodup) (ctx : SepCtx)
    (hml : ∀ q ∈ ctx.lineToBlock, ∃ p, es0[q.2]? = some (Expr.LineBlock p)) (orig : Option Nat) (B : Int) (hB : B ≠ 0)
    (hO : Origin es0 orig B) (lid : Nat) :
    decide ((mapGet (ltbG es0 ctx.lineToBlock) (lid : Int) (0 : Int)).1 = B) = inBlockOrig ctx lid orig := by
  generalize hx : (mapGet (ltbG es0 ctx.lineToBlock) (lid : Int) (0 : Int)).1 = x
  unfold GoRt.mapGet at hx
  rw [find_ltbG] at hx
  unfold inBlockOrig
  cases hf : ctx.lineToBlock.find? (·.1 == lid) with
  | none =>
    rw [hf] at hx
    simp only [Option.map_none] at hx
    subst hx
    have : ¬ ((0 : Int) = B) := fun e => hB e.symm
    cases orig <;> simp [this]
  | some q =>
    rw [hf] at hx
    simp only [Option.map_some] at hx
    obtain ⟨p, hp⟩ := hml q (List.mem_of_find?_eq_some hf)
    have hbq : blockPtrAt es0 q.2 = p := by simp [blockPtrAt, hp]
    rw [hbq] at hx
    subst hx
    have hpm := mem_blockPtrs_of_get hp
    cases orig with
    | none =>
      simp only [Origin] at hO
      have : ¬ (p = B) := fun e => hO (e ▸ hpm)
      simp [this]
    | some k =>
      simp only [Origin] at hO
      rcases hO with hO | ⟨hO1, hO2⟩
      · by_cases e : q.2 = k
        · have : p = B := by rw [e, hO] at hp; cases hp; rfl
          simp [this, e]
        · have : ¬ (p = B) := fun e' => e (blockPtr_index_inj hn hp (e' ▸ hO))
          simp [this, e]
      · have h1 : ¬ (p = B) := fun e => hO1 (e ▸ hpm)
        have h2 : ¬ (q.2 = k) := fun e => hO2 ⟨p, e ▸ hp⟩
        simp [h1, h2]

/-! ### oneFlatUncommentedBlock -/

theorem getComments_eq {h : Heap} {e : Expr} {s : Modfile.Expr} (r : RExpr h e s) :
    Expr_getComments e h = .ok (comsG s.comments) := by
  cases e <;> cases s <;> simp only [RExpr] at r <;> try exact r.elim
  · simp only [Expr_getComments, r, bind, Except.bind, pure, Except.pure]; rfl
  · simp only [Expr_getComments, r.1, bind, Except.bind, pure, Except.pure]; rfl
  · obtain ⟨ps, hb, _⟩ := r
    simp only [Expr_getComments, hb, bind, Except.bind, pure, Except.pure]; rfl

end ModVerif.Tie.FnEditSetM
