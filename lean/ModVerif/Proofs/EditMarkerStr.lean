/-
  EditMarker, part 1 — the string lemmas behind `setIndirect`, for EVERY byte string (ill-formed UTF-8 included).

  `strings.Fields` ignores leading and trailing white space, hence `fields (" " ++ trimSpace y) = fields y`
  (`fields_space_trimSpace`; built on the `trimSpace` algebra of Proofs/ModfileFmtTrim.lean: `trimSpace_infix` — what
  `TrimSpace` removes on either side is a concatenation of well-formed white-space encodings, also when the backward
  decoder of `TrimRight` runs over ill-formed bytes);  `trimSpace ("indirect; " ++ t) ≠ "indirect"`
  (`trimSpace_marker_ne`);  `fields ("indirect; " ++ t) = "indirect;" :: fields t` (`fields_marker`).
  With them: `setIndirect` applied to end-of-line comments on which it achieves what it is asked for (`MarkerSettable`)
  yields comments on which it again achieves what it is asked for (`markerSettable_sfxAfter`).
-/
import ModVerif.Proofs.EditMarkerFields
import ModVerif.Proofs.EditRefineInvBulk
set_option linter.unusedSimpArgs false
namespace ModVerif.Modfile.Edit
open ModVerif ModVerif.Modfile ModVerif.GoStrings
open ModVerif.Proofs.ModfileLex ModVerif.Proofs.ModfileFmtUtf8 ModVerif.Proofs.ModfileFmtTrim ModVerif.Proofs.ModfileEol

/-! ### the marker text -/

def markerSemi : Bytes := [105, 110, 100, 105, 114, 101, 99, 116, 59]
def markerWord : Bytes := [105, 110, 100, 105, 114, 101, 99, 116]

theorem B_indirect : B "indirect" = markerWord := by decide +kernel
theorem B_indirectSemi : B "indirect;" = markerSemi := by decide +kernel
theorem B_marker_long : B "// indirect; " = 47 :: 47 :: 32 :: (markerSemi ++ [32]) := by decide +kernel
theorem indirectTok_eq : indirectTok = 47 :: 47 :: 32 :: markerWord := by decide +kernel
theorem slashSlash_eq : slashSlash = [47, 47] := rfl

/-- ★ the second string lemma of lean/PENDING.md (C15 (a)): a text that starts with `indirect; ` never trims to the bare
    marker -/
theorem trimSpace_marker_ne (t : Bytes) : trimSpace (markerSemi ++ 32 :: t) ≠ markerWord := by
  intro h
  have hs : UnicodePrint.isSpace (Utf8.decodeRune (markerSemi ++ 32 :: t)).1 = false := by
    show UnicodePrint.isSpace (Utf8.decodeRune (105 :: _)).1 = false
    rw [decodeRune_ascii 105 _ (by decide)]; decide
  obtain ⟨e, heq, he⟩ := trimSpace_prefix_of_first _ hs
  rw [h] at heq
  have he' : e = 59 :: 32 :: t := by
    simp only [markerSemi, markerWord, List.cons_append, List.nil_append, List.cons.injEq, true_and] at heq
    exact heq.symm
  rw [he'] at he
  have := he.head_ascii (by decide)
  revert this; decide

/-! ### the marker as a field -/

theorem fields_marker (t : Bytes) : fields (markerSemi ++ 32 :: t) = markerSemi :: fields t :=
  fields_word_space markerSemi t (by decide) (by decide)

/-! ### `setIndirect` on the end-of-line comments -/

/-- the reading of `isIndirect` on the fields of the first comment -/
def indOf : List Bytes → Bool
  | [f0] => f0 == B "indirect"
  | f0 :: _ :: _ => f0 == B "indirect;"
  | [] => false

theorem isIndirectS_cons (c : Comment) (rest : List Comment) :
    isIndirectS (c :: rest) = indOf (fields (trimPrefix c.token [47, 47])) := by
  unfold isIndirectS isIndirect
  simp only
  generalize fields (trimPrefix c.token [47, 47]) = fs
  cases fs with
  | nil => rfl
  | cons a l => cases l <;> rfl

theorem isIndirectS_nil : isIndirectS [] = false := rfl

theorem sfxAfter_of_eq (b : Bool) (s : List Comment) (h : isIndirectS s = b) : sfxAfter b s = s := by
  unfold sfxAfter setIndirectLine
  have : (isIndirect ({ comments := { suffix := s } } : Line) == b) = true := by
    rw [isIndirect_eq]; simp [h]
  simp only [this, if_true]

theorem sfxAfter_true_cons (c : Comment) (rest : List Comment) (h : isIndirectS (c :: rest) = false) :
    sfxAfter true (c :: rest) =
      { c with token := if (trimSpace (trimPrefix c.token slashSlash)).isEmpty then indirectTok
                        else B "// indirect; " ++ trimSpace (trimPrefix c.token slashSlash) } :: rest := by
  unfold sfxAfter setIndirectLine
  have : (isIndirect ({ comments := { suffix := c :: rest } } : Line) == true) = false := by
    rw [isIndirect_eq]; simp [h]
  simp only [this, Bool.false_eq_true, if_false, if_true]

theorem sfxAfter_false_cons (c : Comment) (rest : List Comment) (h : isIndirectS (c :: rest) = true) :
    sfxAfter false (c :: rest) =
      if (trimSpace (trimPrefix c.token slashSlash) == B "indirect") = true then []
      else { c with token := slashSlash ++ c.token.drop ((index c.token (B "indirect;")).getD 0 + (B "indirect;").length) } :: rest := by
  unfold sfxAfter setIndirectLine
  have : (isIndirect ({ comments := { suffix := c :: rest } } : Line) == false) = false := by
    rw [isIndirect_eq]; simp [h]
  simp only [this, Bool.false_eq_true, if_false]
  split <;> rfl

theorem trimPrefix_slashes (x : Bytes) : trimPrefix (47 :: 47 :: x) [47, 47] = x := by
  simp [trimPrefix, isPrefixOfB]

theorem index_marker_long (t : Bytes) : index (47 :: 47 :: 32 :: (markerSemi ++ 32 :: t)) markerSemi = some 3 := by
  simp [index, indexAux, isPrefixOfB, markerSemi]

theorem indOf_marker (fs : List Bytes) (h : fs ≠ []) : indOf (markerSemi :: fs) = true := by
  cases fs with
  | nil => exact absurd rfl h
  | cons a l => simp [indOf, B_indirectSemi]

theorem isIndirectS_indirectTok (c : Comment) (rest : List Comment) :
    isIndirectS ({ c with token := indirectTok } :: rest) = true := by
  rw [isIndirectS_cons]
  show indOf (fields (trimPrefix indirectTok [47, 47])) = true
  decide +kernel

/-- ★★ **closure of `MarkerSettable` under `setIndirect`**: if `setIndirect` achieves what it is asked for on the comments
    `s`, it does so again on the comments it has rewritten -/
theorem markerSettable_sfxAfter (b : Bool) (s : List Comment) (h : MarkerSettable s) : MarkerSettable (sfxAfter b s) := by
  intro b'
  have hb := h b
  by_cases hbb : b' = b
  · subst hbb
    rw [sfxAfter_of_eq _ _ hb]; exact hb
  by_cases hs : isIndirectS s = b
  · rw [sfxAfter_of_eq _ _ hs]; exact h b'
  cases b with
  | true =>
    have hb' : b' = false := by cases b' <;> simp_all
    subst hb'
    have hs' : isIndirectS s = false := by simpa using hs
    cases s with
    | nil => decide +kernel
    | cons c rest =>
      rw [sfxAfter_true_cons c rest hs'] at hb ⊢
      by_cases ht : (trimSpace (trimPrefix c.token slashSlash)).isEmpty = true
      · simp only [ht, if_true] at hb ⊢
        rw [sfxAfter_false_cons _ _ hb]
        have : (trimSpace (trimPrefix indirectTok slashSlash) == B "indirect") = true := by decide +kernel
        simp only [this, if_true]
        rfl
      · simp only [ht, Bool.false_eq_true, if_false] at hb ⊢
        rw [sfxAfter_false_cons _ _ hb]
        simp only
        rw [B_marker_long, B_indirect, B_indirectSemi, slashSlash_eq]
        simp only [List.cons_append, List.append_assoc, List.singleton_append, List.nil_append]
        rw [trimPrefix_slashes, trimSpace_cons_space]
        have hne : (trimSpace (markerSemi ++ 32 :: trimSpace (trimPrefix c.token [47, 47])) == markerWord) = false := by
          cases hq : trimSpace (markerSemi ++ 32 :: trimSpace (trimPrefix c.token [47, 47])) == markerWord with
          | false => rfl
          | true => exact absurd (eq_of_beq hq) (trimSpace_marker_ne _)
        simp only [hne, Bool.false_eq_true, if_false]
        rw [index_marker_long]
        rw [isIndirectS_cons]
        simp only [Option.getD_some]
        have hdrop : (47 :: 47 :: 32 :: (markerSemi ++ 32 :: trimSpace (trimPrefix c.token [47, 47]))).drop (3 + markerSemi.length)
            = 32 :: trimSpace (trimPrefix c.token [47, 47]) := by
          simp [markerSemi]
        rw [hdrop]
        show indOf (fields (trimPrefix (47 :: 47 :: 32 :: trimSpace (trimPrefix c.token [47, 47])) [47, 47])) = false
        rw [trimPrefix_slashes, fields_space_trimSpace, ← isIndirectS_cons c rest]
        exact hs'
  | false =>
    have hb' : b' = true := by cases b' <;> simp_all
    subst hb'
    have hs' : isIndirectS s = true := by simpa using hs
    cases s with
    | nil => simp [isIndirectS_nil] at hs'
    | cons c rest =>
      rw [sfxAfter_false_cons c rest hs'] at hb ⊢
      by_cases hf : (trimSpace (trimPrefix c.token slashSlash) == B "indirect") = true
      · simp only [hf, if_true]
        exact sfxAfter_nil true
      · simp only [hf, Bool.false_eq_true, if_false] at hb ⊢
        rw [sfxAfter_true_cons _ _ hb]
        generalize hz : trimSpace (trimPrefix (slashSlash ++ List.drop ((index c.token (B "indirect;")).getD 0 + (B "indirect;").length) c.token) slashSlash) = text
        by_cases ht : text.isEmpty = true
        · simp only [ht, if_true]
          exact isIndirectS_indirectTok _ _
        · simp only [ht, Bool.false_eq_true, if_false]
          rw [isIndirectS_cons]
          simp only
          rw [B_marker_long]
          simp only [List.cons_append, List.append_assoc, List.singleton_append]
          rw [trimPrefix_slashes, fields_cons_space, fields_marker]
          apply indOf_marker
          rw [← hz]
          apply fields_trimSpace_ne_nil
          rw [hz]
          intro h0; rw [h0] at ht; simp at ht

/-- the empty comment list and the comments of a freshly marked line are settable -/
theorem markerSettable_nil : MarkerSettable [] := by decide +kernel

theorem markerSettable_sfxAfter_nil (b : Bool) : MarkerSettable (sfxAfter b []) :=
  markerSettable_sfxAfter b [] markerSettable_nil

/-- non-vacuity: comments on which `setIndirect` works, a rewritten marker included; and the recorded finding is not
    among them -/
example : MarkerSettable [{ token := B "// indirect; why" }] ∧ MarkerSettable [{ token := [47, 47, 0xc2, 0xa0, 32, 110, 32, 0xe3, 0x80] }] ∧
    ¬ MarkerSettable [{ token := B "// indirect; indirect" }] := by decide +kernel

end ModVerif.Modfile.Edit
