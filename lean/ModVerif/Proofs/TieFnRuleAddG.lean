/-
  Helper lemmas for Tie/FnRuleAdd.lean, part G: model-side facts for the statement loops of `parseToFile` / `ParseWork`:
  `FileSyntax.updateLine` at a line whose position in the statement list is known (line ids pairwise different) is the
  replacement of that line (`updateLine_line_at`, `updateLine_block_at`); the loops `addBlockLines` / `addStmts` and
  `workBlockLines` / `workStmts` one step at a time.
  Owner: rule-add.
-/
import ModVerif.Proofs.TieFnRuleAddF
set_option linter.unusedSimpArgs false
set_option linter.unusedVariables false
namespace ModVerif.Tie.FnRuleAddG
open ModVerif ModVerif.Modfile
open ModVerif.Modfile.Edit (treeIds mapLinesStmt loc locStmt)

/-- the lines of a statement -/
def stmtLines : Expr → List Line
  | .line l => [l]
  | .lineBlock b => b.lines
  | _ => []

theorem treeIds_one (x : Expr) : treeIds [x] = (stmtLines x).map (·.id) := by
  cases x <;> simp [treeIds, loc, locStmt, stmtLines, List.map_map, Function.comp_def]

theorem mem_treeIds {xs : List Expr} {id : Nat} : id ∈ treeIds xs ↔ ∃ x ∈ xs, ∃ l ∈ stmtLines x, l.id = id := by
  induction xs with
  | nil => simp [treeIds, loc]
  | cons x xs ih =>
    rw [Modfile.Edit.treeIds_cons, List.mem_append, ih, treeIds_one]
    simp only [List.mem_map, List.mem_cons, exists_eq_or_imp]

theorem mapLinesStmt_noop (f : Line → Line) (x : Expr) (h : ∀ l ∈ stmtLines x, f l = l) : mapLinesStmt f x = x := by
  cases x with
  | line l => simp only [mapLinesStmt]; rw [h l (by simp [stmtLines])]
  | lineBlock b =>
    simp only [mapLinesStmt]
    have : b.lines.map f = b.lines := by
      conv => rhs; rw [← List.map_id b.lines]
      exact List.map_congr_left (fun l hl => h l hl)
    rw [this]
  | commentBlock c => rfl
  | lparen c => rfl
  | rparen c => rfl

theorem map_mapLines_noop (f : Line → Line) (xs : List Expr) (h : ∀ x ∈ xs, ∀ l ∈ stmtLines x, f l = l) :
    xs.map (mapLinesStmt f) = xs := by
  conv => rhs; rw [← List.map_id xs]
  exact List.map_congr_left (fun x hx => mapLinesStmt_noop f x (h x hx))

/-- a function that changes only the line with the given id -/
theorem upd_other (id : Nat) (g : Line → Line) {l : Line} (h : l.id ≠ id) : (if l.id == id then g l else l) = l := by
  have : (l.id == id) = false := by simpa using h
  simp [this]

theorem upd_self (id : Nat) (g : Line → Line) {l : Line} (h : l.id = id) : (if l.id == id then g l else l) = g l := by
  simp [h]

/-- **`updateLine` at a top-level line whose position is known** -/
theorem updateLine_line_at (fs : FileSyntax) (A B : List Expr) (l : Line) (g : Line → Line)
    (hs : fs.stmts = A ++ .line l :: B) (hn : (treeIds fs.stmts).Nodup) :
    (fs.updateLine l.id g).stmts = A ++ .line (g l) :: B := by
  rw [Modfile.Edit.updateLine_stmts fs l.id g hn, hs]
  rw [hs, Modfile.Edit.treeIds_append, Modfile.Edit.treeIds_cons] at hn
  obtain ⟨_, hBn, hAB⟩ := List.nodup_append.1 hn
  obtain ⟨_, _, hlB⟩ := List.nodup_append.1 hBn
  have hl : l.id ∈ treeIds [Expr.line l] := by simp [treeIds_one, stmtLines]
  rw [List.map_append, List.map_cons]
  congr 1
  · refine map_mapLines_noop _ A (fun x hx m hm => upd_other _ _ ?_)
    intro e
    exact hAB _ (mem_treeIds.2 ⟨x, hx, m, hm, e⟩) _ (List.mem_append_left _ hl) rfl
  · congr 1
    · simp [mapLinesStmt]
    · refine map_mapLines_noop _ B (fun x hx m hm => upd_other _ _ ?_)
      intro e
      exact hlB _ hl _ (mem_treeIds.2 ⟨x, hx, m, hm, e⟩) rfl

/-- **`updateLine` at a line of a block, both positions known** -/
theorem updateLine_block_at (fs : FileSyntax) (A B : List Expr) (b : LineBlock) (LA LB : List Line) (l : Line) (g : Line → Line)
    (hs : fs.stmts = A ++ .lineBlock b :: B) (hb : b.lines = LA ++ l :: LB) (hn : (treeIds fs.stmts).Nodup) :
    (fs.updateLine l.id g).stmts = A ++ .lineBlock { b with lines := LA ++ g l :: LB } :: B := by
  rw [Modfile.Edit.updateLine_stmts fs l.id g hn, hs]
  rw [hs, Modfile.Edit.treeIds_append, Modfile.Edit.treeIds_cons] at hn
  obtain ⟨_, hBn, hAB⟩ := List.nodup_append.1 hn
  obtain ⟨hbn, _, hlB⟩ := List.nodup_append.1 hBn
  have hl : l.id ∈ treeIds [Expr.lineBlock b] := by simp [treeIds_one, stmtLines, hb]
  rw [List.map_append, List.map_cons]
  congr 1
  · refine map_mapLines_noop _ A (fun x hx m hm => upd_other _ _ ?_)
    intro e
    exact hAB _ (mem_treeIds.2 ⟨x, hx, m, hm, e⟩) _ (List.mem_append_left _ hl) rfl
  · congr 1
    · simp only [mapLinesStmt, hb, List.map_append, List.map_cons]
      rw [treeIds_one] at hbn
      simp only [stmtLines, hb, List.map_append, List.map_cons] at hbn
      obtain ⟨_, hLBn, hLAB⟩ := List.nodup_append.1 hbn
      have hlLB := (List.nodup_cons.1 hLBn).1
      have e1 : LA.map (fun x => if x.id == l.id then g x else x) = LA := by
        conv => rhs; rw [← List.map_id LA]
        refine List.map_congr_left (fun m hm => upd_other _ _ ?_)
        intro e
        exact hLAB _ (List.mem_map_of_mem hm) _ List.mem_cons_self e
      have e2 : LB.map (fun x => if x.id == l.id then g x else x) = LB := by
        conv => rhs; rw [← List.map_id LB]
        refine List.map_congr_left (fun m hm => upd_other _ _ ?_)
        intro e
        exact hlLB (by rw [← e]; exact List.mem_map_of_mem hm)
      rw [e1, e2]
      simp
    · refine map_mapLines_noop _ B (fun x hx m hm => upd_other _ _ ?_)
      intro e
      exact hlB _ hl _ (mem_treeIds.2 ⟨x, hx, m, hm, e⟩) rfl

end ModVerif.Tie.FnRuleAddG
