/-
  Closed fuel of the go.work session ties (agent edit-fuel5), helper part N: the bulk setter `WorkFile.SetUse`.
  `setUseLoop_WW` (the loop over the existing `use` entries keeps the entry count, does not increase the tree weight, and the
  directories still to be added are a sub-multiset of the requested ones: `needW`), `useNeedMap_needW`, `foldl_addNewUse_WW`,
  `setUsePre_WW`, `setUse_stepFuelW_le`, `setUse_WW`; then every go.work operation: `stepFuelW_le_all`, `applyWork_WW_all`,
  and the sessions `fuelOKW_of_WW_all`, `runW_WW_all`, `finalFuelW_of_WW_all`.
-/
import ModVerif.Proofs.TieFnEditFuelM
set_option linter.unusedSimpArgs false
set_option linter.unusedVariables false
namespace ModVerif.Tie.FnEditFuelN
open ModVerif ModVerif.Modfile ModVerif.Tie.FnEditFuelA ModVerif.Tie.FnEditFuelB ModVerif.Tie.FnEditFuelC
open ModVerif.Tie.FnEditFuelF ModVerif.Tie.FnEditFuelM
open ModVerif.Tie.FnEditSessionA ModVerif.Tie.FnEditSessionB ModVerif.Tie.FnEditSessionW
open ModVerif.TieFnEditAddLine (nodeCount)
open ModVerif.Tie.FnEditSortE (workSortFuel)
open ModVerif.Tie.FnEditWorkE (setUsePre setUse_eq)
open ModVerif.Modfile.Edit (EWork EditErr applyWork treeIds)

/-- what the directories still to be added will cost: `addNewUse_WW` per directory -/
def needW (l : List (Bytes × Bytes)) : Nat := (l.map fun w => 8 * w.1.length + 20).sum

@[simp] theorem needW_nil : needW [] = 0 := rfl
@[simp] theorem needW_cons (w : Bytes × Bytes) (l : List (Bytes × Bytes)) : needW (w :: l) = 8 * w.1.length + 20 + needW l := by
  simp [needW]
@[simp] theorem needW_append (a b : List (Bytes × Bytes)) : needW (a ++ b) = needW a + needW b := by
  simp [needW]

theorem needW_filter_le (q : Bytes × Bytes → Bool) : ∀ l : List (Bytes × Bytes), needW (l.filter q) ≤ needW l
  | [] => Nat.le_refl _
  | w :: l => by
    have := needW_filter_le q l
    simp only [List.filter_cons]
    split <;> simp only [needW_cons] <;> omega

theorem needW_replace (w : Bytes × Bytes) : ∀ acc : List (Bytes × Bytes),
    needW (acc.map fun a => if a.1 == w.1 then w else a) = needW acc
  | [] => rfl
  | a :: acc => by
    have ih := needW_replace w acc
    simp only [List.map_cons, needW_cons, ih]
    split
    · rename_i hq
      have : a.1 = w.1 := eq_of_beq hq
      rw [this]
    · rfl

theorem useNeedMap_needW : ∀ (ws acc : List (Bytes × Bytes)), needW (Edit.useNeedMap ws acc) ≤ needW acc + needW ws
  | [], acc => by simp [Edit.useNeedMap]
  | w :: ws, acc => by
    unfold Edit.useNeedMap
    split
    · have ih := useNeedMap_needW ws (acc.map fun a => if a.1 == w.1 then w else a)
      rw [needW_replace] at ih
      simp only [needW_cons]; omega
    · have ih := useNeedMap_needW ws (acc ++ [w])
      simp only [needW_append, needW_cons, needW_nil] at ih ⊢; omega

theorem setUseLoop_WW : ∀ (ds : List Use) (need : List (Bytes × Bytes)) (syn : FileSyntax) (r : List Use)
    (need' : List (Bytes × Bytes)) (syn' : FileSyntax), Edit.setUseLoop ds need syn = .ok (r, need', syn') →
    r.length = ds.length ∧ treeW syn'.stmts ≤ treeW syn.stmts ∧ needW need' ≤ needW need
  | [], need, syn, r, need', syn', h => by
    simp only [Edit.setUseLoop, Except.ok.injEq, Prod.mk.injEq] at h
    obtain ⟨rfl, rfl, rfl⟩ := h
    exact ⟨rfl, Nat.le_refl _, Nat.le_refl _⟩
  | d :: ds, need, syn, r, need', syn', h => by
    unfold Edit.setUseLoop at h
    split at h
    · simp only [bind, Except.bind] at h
      cases hr : Edit.setUseLoop ds (need.filter (·.1 != d.path)) syn with
      | error er => rw [hr] at h; cases h
      | ok t =>
        obtain ⟨a, b, c⟩ := t
        rw [hr] at h
        simp only [pure, Except.pure, Except.ok.injEq, Prod.mk.injEq] at h
        obtain ⟨rfl, rfl, rfl⟩ := h
        have ih := setUseLoop_WW ds _ syn a b c hr
        have := needW_filter_le (·.1 != d.path) need
        exact ⟨by simp [ih.1], ih.2.1, by omega⟩
    · simp only [bind, Except.bind] at h
      cases hd : Edit.deref d.lineId with
      | error er => rw [hd] at h; cases h
      | ok i =>
        rw [hd] at h
        simp only [] at h
        cases hr : Edit.setUseLoop ds need (Edit.markRemoved syn i) with
        | error er => rw [hr] at h; cases h
        | ok t =>
          obtain ⟨a, b, c⟩ := t
          rw [hr] at h
          simp only [pure, Except.pure, Except.ok.injEq, Prod.mk.injEq] at h
          obtain ⟨rfl, rfl, rfl⟩ := h
          have ih := setUseLoop_WW ds need _ a b c hr
          have := markRemoved_treeW syn i
          exact ⟨by simp [ih.1], by omega, ih.2.2⟩

theorem foldl_addNewUse_WW : ∀ (need : List (Bytes × Bytes)) (e : EWork),
    WW (need.foldl (fun e w => Edit.addNewUse e w.1 w.2) e) ≤ WW e + needW need
  | [], e => by simp
  | w :: need, e => by
    have h1 := addNewUse_WW e w.1 w.2
    have h2 := foldl_addNewUse_WW need (Edit.addNewUse e w.1 w.2)
    simp only [List.foldl_cons, needW_cons]; omega

/-- the state before the final SortBlocks of `WorkFile.SetUse` -/
theorem setUsePre_WW (e e2 : EWork) (ws : List (Bytes × Bytes)) (h : setUsePre e ws = .ok e2) : WW e2 ≤ WW e + needW ws := by
  unfold setUsePre at h
  simp only [bind, Except.bind] at h
  cases hr : Edit.setUseLoop e.f.use (Edit.useNeedMap ws []) e.f.syn with
  | error er => rw [hr] at h; cases h
  | ok t =>
    obtain ⟨us, need, syn⟩ := t
    rw [hr] at h
    simp only [pure, Except.pure, Except.ok.injEq] at h
    subst h
    obtain ⟨l1, l2, l3⟩ := setUseLoop_WW _ _ _ _ _ _ hr
    have l4 := useNeedMap_needW ws []
    simp only [needW_nil] at l4
    have l6 : ∀ (us : List Use) (syn : FileSyntax), us.length = e.f.use.length → treeW syn.stmts ≤ treeW e.f.syn.stmts →
        WW ({ e with f := { e.f with use := us, syn := syn } } : EWork) ≤ WW e := by
      intro us syn a b
      simp only [WW, goLenW]; omega
    exact Nat.le_trans (foldl_addNewUse_WW need _) (Nat.add_le_add (l6 us syn l1 l2) (by omega))

theorem needW_le_raw : ∀ ws : List (Bytes × Bytes), needW ws ≤ 20 * (ws.map fun x => x.1.length + x.2.length + 1).sum
  | [] => by simp
  | w :: ws => by have := needW_le_raw ws; simp only [needW_cons, List.map_cons, List.sum_cons]; omega

theorem length_le_raw : ∀ ws : List (Bytes × Bytes), ws.length ≤ (ws.map fun x => x.1.length + x.2.length + 1).sum
  | [] => by simp
  | w :: ws => by have := length_le_raw ws; simp only [List.length_cons, List.map_cons, List.sum_cons]; omega

theorem maxLen_le_raw : ∀ ws : List (Bytes × Bytes), maxLen ws ≤ (ws.map fun x => x.1.length + x.2.length + 1).sum
  | [] => by simp [maxLen]
  | w :: ws => by have := maxLen_le_raw ws; simp only [maxLen, List.map_cons, List.sum_cons]; omega

/-- **fuel demand of one `WorkFile.SetUse`** -/
theorem setUse_stepFuelW_le (e : EWork) (ws : List (Bytes × Bytes)) : stepFuelW e (.setUse ws) ≤ 3 * (WW e + GR (.setUse ws)) := by
  have hn := nodeCount_le_treeW e.f.syn.stmts
  have h1 := needW_le_raw ws
  have h2 := length_le_raw ws
  have h3 := maxLen_le_raw ws
  simp only [stepFuelW, GR, rawSize]
  cases hp : setUsePre e ws with
  | error er => simp only []; unfold WW; omega
  | ok e2 =>
    have h4 := setUsePre_WW e e2 ws hp
    have h5 := workSortFuel_le e2
    simp only []
    have h6 : nodeCount e.f.syn.stmts + e.f.use.length ≤ WW e := by unfold WW; omega
    omega

theorem permOf_false : (Edit.permOf false : List (Bytes × Bytes) → List (Bytes × Bytes)) = fun l => l := by
  funext l; simp [Edit.permOf]

/-- **growth of the potential under `WorkFile.SetUse`** -/
theorem setUse_WW (e e' : EWork) (ws : List (Bytes × Bytes)) (h : applyWork e (opM (.setUse ws)) = some (.ok e')) :
    WW e' ≤ WW e + GR (.setUse ws) := by
  simp only [opM, opR, applyWork, Option.some.injEq] at h
  rw [permOf_false, setUse_eq] at h
  cases hp : setUsePre e ws with
  | error er => rw [hp] at h; cases h
  | ok e2 =>
    rw [hp] at h
    simp only [Except.map, Except.ok.injEq] at h
    subst h
    have := setUsePre_WW e e2 ws hp
    have := workSortBlocks_WW e2
    have := needW_le_raw ws
    simp only [GR, rawSize]; omega

/-! ### every go.work operation -/

theorem stepFuelW_le_all (e : EWork) (op : EditSpec.Op) : stepFuelW e op ≤ 3 * (WW e + GR op) := by
  cases op
  case setUse ws => exact setUse_stepFuelW_le e ws
  all_goals exact stepFuelW_le e _ trivial

theorem applyWork_WW_all (e e' : EWork) (op : EditSpec.Op) (hn : (treeIds e.f.syn.stmts).Nodup)
    (h : applyWork e (opM op) = some (.ok e')) : WW e' ≤ WW e + GR op := by
  cases op
  case setUse ws => exact setUse_WW e e' ws h
  all_goals exact applyWork_WW e e' _ trivial hn h

/-- **the fuel of every step of the go.work model run from the initial potential and the raw operation sizes** -/
theorem fuelOKW_of_WW_all (fuel : Nat) : ∀ (ops : List EditSpec.Op) (e : EWork), Edit.InvW e → Edit.RunValidW e (ops.map opM) →
    3 * (WW e + opsR ops) ≤ fuel → FuelOKW fuel e ops
  | [], _, _, _, _ => trivial
  | op :: ops, e, hi, hv, hf => by
    obtain ⟨hargs, hvn, hvr⟩ := hv
    rw [opsR_cons] at hf
    refine ⟨?_, ?_, ?_⟩
    · have := stepFuelW_le_all e op; omega
    · intro e' hx
      have hw := applyWork_WW_all e e' op hi.tree.nodup hx
      exact fuelOKW_of_WW_all fuel ops e' (Edit.applyWork_inv_all e e' _ hargs hi hx) (hvn e' hx) (by omega)
    · intro err hx hr
      exact fuelOKW_of_WW_all fuel ops e hi (hvr err hx hr) (by omega)

/-- **the potential after a go.work run** -/
theorem runW_WW_all : ∀ (ops : List EditSpec.Op) (e : EWork) (acc : List Bool) (i : Nat) (e' : EWork) (res : List Bool),
    Edit.InvW e → Edit.RunValidW e (ops.map opM) →
    Edit.runOps applyWork e (ops.map opM) acc i = .done e' res → WW e' ≤ WW e + opsR ops
  | [], e, acc, i, e', res, _, _, h => by
    simp only [List.map_nil, Edit.runOps, Edit.SessionResult.done.injEq] at h
    rw [← h.1]; simp [opsR]
  | op :: ops, e, acc, i, e', res, hi, hv, h => by
    obtain ⟨hargs, hvn, hvr⟩ := hv
    simp only [List.map_cons, Edit.runOps] at h
    rw [opsR_cons]
    cases hx : applyWork e (opM op) with
    | none => rw [hx] at h; cases h
    | some x =>
      cases x with
      | ok e1 =>
        rw [hx] at h
        have hw := applyWork_WW_all e e1 op hi.tree.nodup hx
        have := runW_WW_all ops e1 _ _ e' res (Edit.applyWork_inv_all e e1 _ hargs hi hx) (hvn e1 hx) h
        omega
      | error err =>
        rw [hx] at h
        simp only [] at h
        split at h
        · rename_i hr
          have := runW_WW_all ops e _ _ e' res hi (hvr err hx hr) h
          omega
        · cases h

/-- the fuel of the final Cleanup of a go.work session -/
theorem finalFuelW_of_WW_all (fuel : Nat) (ops : List EditSpec.Op) (e : EWork) (hi : Edit.InvW e)
    (hv : Edit.RunValidW e (ops.map opM)) (hf : WW e + opsR ops + 1 ≤ fuel) : FinalFuelW fuel e ops := by
  intro e' res hx
  have h1 := runW_WW_all ops e [] 0 e' res hi hv hx
  have h2 := cleanupFuelW_le e'
  omega

end ModVerif.Tie.FnEditFuelN
