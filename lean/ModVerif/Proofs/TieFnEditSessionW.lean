/-
  Composition of the FnEdit ties, go.work (agent edit-session): `Drv.GenEdit.applyWorkOp` / `runWorkOps` against the model's
  `Edit.applyWork` / `Edit.runOps Edit.applyWork`, by plumbing the go.work operation ties of Tie/FnEditWork.lean and
  Tie/FnEditSort.lean over `RepW`.  The go.work counterpart of Proofs/TieFnEditSession{A,B,C,D,E}.lean in one file:

  * `NR` for the go.work operations, the returned errors of AddGoStmt / AddToolchainStmt;
  * `newUses` (the `Use` objects the driver allocates for SetUse) = `allocUses`, `allocUses_spec`: it keeps `RepW` and
    establishes edit-work's `DirsOK`;
  * `stepFuelW`, `OutW`, `applyWorkOp_out`; `StepOKW` / `RunOKW` / `RunRelW`, `runWorkOps_rel`; `FuelOKW`,
    `runOKW_of_valid` (from `Edit.InvW`, `Edit.RunValidW`); `workM_rep`, `dumpWork_strip`; Boolean tests; example harness.
-/
import ModVerif.Proofs.TieFnEditSessionD
import ModVerif.Proofs.TieFnEditSessionE
import ModVerif.Proofs.EditWorkKeepB
import ModVerif.Tie.FnEditWork
set_option linter.unusedSimpArgs false
set_option linter.unusedVariables false
namespace ModVerif.Tie.FnEditSessionW
open ModVerif ModVerif.GoRt ModVerif.Generated.Edit ModVerif.Tie.FnEditRep ModVerif.Tie.FnEditSessionA
open ModVerif.Modfile.Edit (EWork EditErr applyWork SessionResult)
open ModVerif.Drv.GenEdit (isPrintI quoteI applyWorkOp opNameD Run)
open ModVerif.TieFnEditAddLine (nodeCount)
open ModVerif.Tie.FnEditSortB (nodes)
open ModVerif.Tie.FnEditSortE (workSortFuel)
open ModVerif.Tie.FnEditSortG (workCleanSize)
open ModVerif.Tie.FnEditWorkE (DirsOK setUsePre)
open ModVerif.Tie.FnEditWorkEx (strip)
open ModVerif.Tie.FnEditStmtEx (optOK optOK_sound)

/-! ### errors -/

theorem NR_workAddGodebug (e : EWork) (k v : Bytes) : NR (Modfile.Edit.workAddGodebug e k v) := by
  unfold Modfile.Edit.workAddGodebug Modfile.Edit.addGodebugCore
  refine NR_bind (NR_bind (NR_firstRest _ _ _ _ _ _) fun _ => ?_) (fun _ => ?_) <;> repeat nr_step

theorem NR_workDropGodebug (e : EWork) (k : Bytes) : NR (Modfile.Edit.workDropGodebug e k) := by
  unfold Modfile.Edit.workDropGodebug
  refine NR_bind (NR_clearAll _ _ _ _) fun _ => ?_; repeat nr_step

theorem NR_addUse (e : EWork) (d m : Bytes) : NR (Modfile.Edit.addUse e d m) := by
  unfold Modfile.Edit.addUse
  refine NR_bind (NR_firstRest _ _ _ _ _ _) fun _ => ?_; repeat nr_step

theorem NR_dropUse (e : EWork) (d : Bytes) : NR (Modfile.Edit.dropUse e d) := by
  unfold Modfile.Edit.dropUse
  refine NR_bind (NR_clearAll _ _ _ _) fun _ => ?_; repeat nr_step

theorem NR_setUseLoop : ∀ (us : List Modfile.Use) (need : List (Bytes × Bytes)) (syn : Modfile.FileSyntax),
    NR (Modfile.Edit.setUseLoop us need syn)
  | [], _, _ => NR_ok _
  | d :: ds, need, syn => by
    have ih := NR_setUseLoop ds
    unfold Modfile.Edit.setUseLoop
    split
    · refine NR_bind (ih _ _) fun _ => ?_; repeat nr_step
    · refine NR_bind (NR_deref _) fun i => NR_bind (ih _ _) fun _ => ?_; repeat nr_step

theorem NR_setUse (e : EWork) (ws : List (Bytes × Bytes)) (perm : List (Bytes × Bytes) → List (Bytes × Bytes)) :
    NR (Modfile.Edit.setUse e ws perm) := by
  unfold Modfile.Edit.setUse
  refine NR_bind (NR_setUseLoop _ _ _) fun _ => ?_; repeat nr_step

theorem NR_workAddReplace (e : EWork) (a b c d : Bytes) : NR (Modfile.Edit.workAddReplace e a b c d) := by
  unfold Modfile.Edit.workAddReplace Modfile.Edit.addReplaceCore
  refine NR_bind (NR_bind (NR_firstRest _ _ _ _ _ _) fun _ => ?_) (fun _ => ?_) <;> repeat nr_step

theorem NR_workDropReplace (e : EWork) (a b : Bytes) : NR (Modfile.Edit.workDropReplace e a b) := by
  unfold Modfile.Edit.workDropReplace Modfile.Edit.dropReplaceCore
  refine NR_bind (NR_bind (NR_clearAll _ _ _ _) fun _ => ?_) (fun _ => ?_) <;> repeat nr_step

theorem workAddGoStmt_err {e : EWork} {v : Bytes} {err : EditErr} (h : Modfile.Edit.workAddGoStmt e v = .error err) :
    err.isReturned = true := by
  unfold Modfile.Edit.workAddGoStmt at h
  split at h
  · cases h; rfl
  · split at h <;> cases h

theorem workAddToolchainStmt_err {e : EWork} {n : Bytes} {err : EditErr} (h : Modfile.Edit.workAddToolchainStmt e n = .error err) :
    err.isReturned = true := by
  unfold Modfile.Edit.workAddToolchainStmt at h
  split at h
  · cases h; rfl
  · split at h <;> cases h

/-! ### the `Use` objects of SetUse -/

/-- `newUses` of `Drv.GenEdit.applyWorkOp` -/
def newUses (l : List (Bytes × Bytes)) (h : Heap) : List Int × Heap :=
  l.foldl (fun (acc : List Int × Heap) u =>
    let (p, ul) := heapAlloc acc.2.uses ({ Path := u.1, ModulePath := u.2, Syntax := 0 } : Use)
    (acc.1 ++ [p], { acc.2 with uses := ul })) ([], h)

def allocUses : List (Bytes × Bytes) → Heap → List Int × Heap
  | [], h => ([], h)
  | w :: ws, h =>
    let r := allocUses ws { h with uses := h.uses ++ [({ Path := w.1, ModulePath := w.2, Syntax := 0 } : Use)] }
    (((h.uses.length + 1 : Nat) : Int) :: r.1, r.2)

theorem newUses_aux : ∀ (l : List (Bytes × Bytes)) (acc : List Int) (h : Heap),
    l.foldl (fun (acc : List Int × Heap) u =>
      let (p, ul) := heapAlloc acc.2.uses ({ Path := u.1, ModulePath := u.2, Syntax := 0 } : Use)
      (acc.1 ++ [p], { acc.2 with uses := ul })) (acc, h) = (acc ++ (allocUses l h).1, (allocUses l h).2)
  | [], acc, h => by simp [allocUses]
  | w :: ws, acc, h => by
    rw [List.foldl_cons]
    refine (newUses_aux ws (acc ++ [((h.uses.length + 1 : Nat) : Int)])
      { h with uses := h.uses ++ [({ Path := w.1, ModulePath := w.2, Syntax := 0 } : Use)] }).trans ?_
    simp only [allocUses, List.append_assoc, List.singleton_append]

theorem newUses_eq (l : List (Bytes × Bytes)) (h : Heap) : newUses l h = allocUses l h := by
  unfold newUses
  rw [newUses_aux]
  simp

theorem RepW_allocUse {h : Heap} {fp : Int} {e : EWork} (R : RepW h fp e) (v : Use) :
    RepW { h with uses := h.uses ++ [v] } fp e := by
  obtain ⟨o, ho, RA⟩ := R
  exact ⟨o, ho, RA.withUse (l' := h.uses ++ [v]) (RA.use.mono (fun _ _ x => heapGet_alloc_old v x) (Nat.le_refl _))⟩

theorem allocUses_spec : ∀ (ws : List (Bytes × Bytes)) {h : Heap} {fp : Int} {e : EWork}, RepW h fp e →
    RepW (allocUses ws h).2 fp e ∧ DirsOK (allocUses ws h).2 (allocUses ws h).1 ws ∧
      (∀ p v, heapGet h.uses p = .ok v → heapGet (allocUses ws h).2.uses p = .ok v)
  | [], h, fp, e, R => ⟨R, trivial, fun _ _ x => x⟩
  | w :: ws, h, fp, e, R => by
    obtain ⟨h1, h2, h3⟩ := allocUses_spec ws (RepW_allocUse R ({ Path := w.1, ModulePath := w.2, Syntax := 0 } : Use))
    refine ⟨h1, ⟨⟨_, h3 _ _ (heapGet_alloc_new _ _), rfl, rfl⟩, h2⟩, fun p v hv => h3 p v (heapGet_alloc_old _ hv)⟩

/-! ### fuel of one operation -/

def maxLen : List (Bytes × Bytes) → Nat
  | [] => 0
  | w :: ws => max w.1.length (maxLen ws)

theorem le_maxLen : ∀ (ws : List (Bytes × Bytes)), ∀ w ∈ ws, w.1.length ≤ maxLen ws
  | [], _, h => by cases h
  | x :: xs, w, h => by
    simp only [maxLen]
    rcases List.mem_cons.1 h with rfl | h
    · omega
    · have := le_maxLen xs w h; omega

/-- fuel demand of one go.work operation in the model state `e` -/
def stepFuelW (e : EWork) : EditSpec.Op → Nat
  | .addGo _ => e.f.syn.stmts.length + 1
  | .addToolchain _ => e.f.syn.stmts.length + 1
  | .addGodebug _ _ => max (nodeCount e.f.syn.stmts + 3) (e.f.godebug.length + 1)
  | .dropGodebug _ => e.f.godebug.length + 1
  | .addUse d _ => max (nodeCount e.f.syn.stmts + 3) (e.f.use.length + d.length + 1)
  | .addNewUse d _ => max (nodeCount e.f.syn.stmts + 3) (d.length + 1)
  | .dropUse _ => e.f.use.length + 1
  | .setUse ws => max (max (nodeCount e.f.syn.stmts + 3 * ws.length + 3) (maxLen ws + ws.length + 1))
      (max (e.f.use.length + 1) (match setUsePre e ws with
        | .ok e2 => workSortFuel e2
        | .error _ => 0))
  | .addReplace a _ c _ => max (max (a.length + 1) (c.length + 1)) (max (e.f.replace.length + 1) (nodeCount e.f.syn.stmts + 3))
  | .dropReplace _ _ => e.f.replace.length + 1
  | .sortBlocks => workSortFuel e
  | .cleanup => max (workCleanSize e + 1) (nodes e.f.syn.stmts + 1)
  | _ => 0

/-! ### the correspondence of results -/

open ModVerif.Tie.FnEditSessionB (resW unitW)

def OutW (x : Option (Except EditErr EWork)) (a : M (Option Bool × Heap)) (h : Heap) (fp : Int) : Prop :=
  match x with
  | none => a = .ok (none, h)
  | some (.ok e') => ∃ h', a = .ok (some true, h') ∧ RepW h' fp e'
  | some (.error err) => (err.isReturned = true ∧ a = .ok (some false, h)) ∨ (err.isReturned = false ∧ a = .error .panic)

theorem outW_res_ok {r : M ((Option String) × Heap)} {h : Heap} {fp : Int} {e' : EWork}
    (T : ∃ h', r = .ok (none, h') ∧ RepW h' fp e') : OutW (some (.ok e')) (resW r) h fp := by
  obtain ⟨h', h1, h2⟩ := T
  exact ⟨h', by rw [h1]; rfl, h2⟩

theorem outW_unit_ok {r : M (Unit × Heap)} {h : Heap} {fp : Int} {e' : EWork}
    (T : ∃ h', r = .ok ((), h') ∧ RepW h' fp e') : OutW (some (.ok e')) (unitW r) h fp := by
  obtain ⟨h', h1, h2⟩ := T
  exact ⟨h', by rw [h1]; rfl, h2⟩

theorem outW_res_panic {r : M ((Option String) × Heap)} {h : Heap} {fp : Int} {x : Except EditErr EWork}
    (T : match x with
      | .ok e' => ∃ h', r = .ok (none, h') ∧ RepW h' fp e'
      | .error _ => r = .error .panic) (hx : NR x) : OutW (some x) (resW r) h fp := by
  cases x with
  | ok e' => exact outW_res_ok T
  | error err => exact Or.inr ⟨hx err rfl, by rw [show r = .error .panic from T]; rfl⟩

theorem outW_unit_panic {r : M (Unit × Heap)} {h : Heap} {fp : Int} {x : Except EditErr EWork}
    (T : match x with
      | .ok e' => ∃ h', r = .ok ((), h') ∧ RepW h' fp e'
      | .error _ => r = .error .panic) (hx : NR x) : OutW (some x) (unitW r) h fp := by
  cases x with
  | ok e' => exact outW_unit_ok T
  | error err => exact Or.inr ⟨hx err rfl, by rw [show r = .error .panic from T]; rfl⟩

theorem outW_res_ret {r : M ((Option String) × Heap)} {h : Heap} {fp : Int} {x : Except EditErr EWork}
    (T : match x with
      | .ok e' => ∃ h', r = .ok (none, h') ∧ RepW h' fp e'
      | .error _ => ∃ s, r = .ok (some s, h)) (hx : ∀ err, x = .error err → err.isReturned = true) :
    OutW (some x) (resW r) h fp := by
  cases x with
  | ok e' => exact outW_res_ok T
  | error err =>
    obtain ⟨s, h2⟩ := T
    exact Or.inl ⟨hx err rfl, by rw [h2]; rfl⟩

/-- the go / toolchain entries of a go.work point at a line -/
structure ScalarsLiveW (e : EWork) : Prop where
  go : ∀ g, e.f.go = some g → g.lineId ≠ 0
  toolchain : ∀ t, e.f.toolchain = some t → t.lineId ≠ 0

theorem scalarsLiveW_of_InvW {e : EWork} (hi : Modfile.Edit.InvW e) : ScalarsLiveW e :=
  ⟨(FnEditWork.scalarsLive_of_InvW hi).1, (FnEditWork.scalarsLive_of_InvW hi).2⟩

/-- **one go.work operation of the driver against one operation of the model** -/
theorem applyWorkOp_out {h : Heap} {fp : Int} {e : EWork} (R : RepW h fp e) (op : EditSpec.Op) (hs : ScalarsLiveW e)
    (fuel : Nat) (hf : stepFuelW e op ≤ fuel) :
    OutW (applyWork e (opM op)) (applyWorkOp fuel fp h op) h fp := by
  cases op with
  | addGo v =>
    simp only [stepFuelW] at hf
    exact outW_res_ret (FnEditWork.WorkFile_AddGoStmt_tie R v fuel hs.go hf) (fun _ => workAddGoStmt_err)
  | dropGo => exact outW_unit_ok (FnEditWork.WorkFile_DropGoStmt_tie R hs.go)
  | addToolchain n =>
    simp only [stepFuelW] at hf
    exact outW_res_ret (FnEditWork.WorkFile_AddToolchainStmt_tie R n fuel hs.toolchain hf) (fun _ => workAddToolchainStmt_err)
  | dropToolchain => exact outW_unit_ok (FnEditWork.WorkFile_DropToolchainStmt_tie R hs.toolchain)
  | addGodebug k v =>
    simp only [stepFuelW] at hf
    exact outW_res_panic (FnEditWork.WorkFile_AddGodebug_tie R k v fuel (by omega) (by omega)) (NR_workAddGodebug e k v)
  | dropGodebug k =>
    simp only [stepFuelW] at hf
    exact outW_res_panic (FnEditWork.WorkFile_DropGodebug_tie R k fuel hf) (NR_workDropGodebug e k)
  | addUse d m =>
    simp only [stepFuelW] at hf
    exact outW_res_panic (FnEditWork.WorkFile_AddUse_tie R d m fuel (by omega) (by omega)) (NR_addUse e d m)
  | addNewUse d m =>
    simp only [stepFuelW] at hf
    exact outW_unit_ok (FnEditWork.WorkFile_AddNewUse_tie R d m fuel (by omega) (by omega))
  | dropUse d =>
    simp only [stepFuelW] at hf
    exact outW_res_panic (FnEditWork.WorkFile_DropUse_tie R d fuel hf) (NR_dropUse e d)
  | setUse ws =>
    simp only [stepFuelW] at hf
    obtain ⟨R', hd, _⟩ := allocUses_spec ws R
    have T := FnEditWork.WorkFile_SetUse_tie R' (allocUses ws h).1 ws hd (maxLen ws) (le_maxLen ws) fuel (by omega) (by omega)
      (by omega) (by
        intro e2 he2
        rw [he2] at hf
        simp only [] at hf
        omega)
    rw [← newUses_eq] at T
    exact outW_unit_panic T (NR_setUse e ws _)
  | addReplace a b c d =>
    simp only [stepFuelW] at hf
    exact outW_res_panic (FnEditWork.WorkFile_AddReplace_tie R a b c d fuel (by omega) (by omega) (by omega) (by omega))
      (NR_workAddReplace e a b c d)
  | dropReplace a b =>
    simp only [stepFuelW] at hf
    exact outW_res_panic (FnEditWork.WorkFile_DropReplace_tie R a b fuel hf) (NR_workDropReplace e a b)
  | sortBlocks =>
    simp only [stepFuelW] at hf
    exact outW_unit_ok (FnEditSort.WorkFile_SortBlocks_tie R fuel hf)
  | cleanup =>
    simp only [stepFuelW] at hf
    exact outW_unit_ok (FnEditSort.WorkFile_Cleanup_tie R fuel (by omega) (by omega))
  | addModule p => exact (rfl : applyWorkOp fuel fp h (.addModule p) = .ok (none, h))
  | addRequire p v => exact (rfl : applyWorkOp fuel fp h (.addRequire p v) = .ok (none, h))
  | addNewRequire p v i => exact (rfl : applyWorkOp fuel fp h (.addNewRequire p v i) = .ok (none, h))
  | dropRequire p => exact (rfl : applyWorkOp fuel fp h (.dropRequire p) = .ok (none, h))
  | setRequire w => exact (rfl : applyWorkOp fuel fp h (.setRequire w) = .ok (none, h))
  | setRequireSeparateIndirect w => exact (rfl : applyWorkOp fuel fp h (.setRequireSeparateIndirect w) = .ok (none, h))
  | addExclude p v => exact (rfl : applyWorkOp fuel fp h (.addExclude p v) = .ok (none, h))
  | dropExclude p v => exact (rfl : applyWorkOp fuel fp h (.dropExclude p v) = .ok (none, h))
  | addRetract a b c => exact (rfl : applyWorkOp fuel fp h (.addRetract a b c) = .ok (none, h))
  | dropRetract a b => exact (rfl : applyWorkOp fuel fp h (.dropRetract a b) = .ok (none, h))
  | addTool p => exact (rfl : applyWorkOp fuel fp h (.addTool p) = .ok (none, h))
  | dropTool p => exact (rfl : applyWorkOp fuel fp h (.dropTool p) = .ok (none, h))

/-! ### an operation list -/

structure StepOKW (fuel : Nat) (e : EWork) (op : EditSpec.Op) : Prop where
  fuel : stepFuelW e op ≤ fuel
  scalars : ScalarsLiveW e

def RunOKW (fuel : Nat) : EWork → List EditSpec.Op → Prop
  | _, [] => True
  | e, op :: ops =>
    StepOKW fuel e op ∧
      (∀ e', applyWork e (opM op) = some (.ok e') → RunOKW fuel e' ops) ∧
      (∀ err, applyWork e (opM op) = some (.error err) → err.isReturned = true → RunOKW fuel e ops)

def RunRelW (fp : Int) (ops : List EditSpec.Op) (i : Nat) : SessionResult EWork → Run → Prop
  | .done e' res, r => ∃ h', r = .done h' res ∧ RepW h' fp e'
  | .panic j, r => ∃ op, i ≤ j ∧ ops[j - i]? = some op ∧ r = .panic (opNameD op)
  | .badOp, r => r = .badOp

theorem RunRelW.shift {fp : Int} {op : EditSpec.Op} {ops : List EditSpec.Op} {i : Nat} {x : SessionResult EWork} {r : Run}
    (h : RunRelW fp ops (i + 1) x r) : RunRelW fp (op :: ops) i x r := by
  cases x with
  | done e' res => exact h
  | badOp => exact h
  | panic j =>
    obtain ⟨o, h1, h2, h3⟩ := h
    refine ⟨o, by omega, ?_, h3⟩
    have : j - i = (j - (i + 1)) + 1 := by omega
    rw [this, List.getElem?_cons_succ]
    exact h2

/-- **`Drv.GenEdit.runWorkOps` against the model's `Edit.runOps Edit.applyWork`** -/
theorem runWorkOps_rel (fuel : Nat) (fp : Int) : ∀ (ops : List EditSpec.Op) (h : Heap) (e : EWork) (acc : List Bool) (i : Nat),
    RepW h fp e → RunOKW fuel e ops →
    RunRelW fp ops i (Modfile.Edit.runOps applyWork e (ops.map opM) acc i) (Drv.GenEdit.runWorkOps fuel fp h ops acc)
  | [], h, e, acc, i, R, _ => ⟨h, rfl, R⟩
  | op :: ops, h, e, acc, i, R, hok => by
    obtain ⟨hstep, hnext, hret⟩ := hok
    have O := applyWorkOp_out R op hstep.scalars fuel hstep.fuel
    simp only [List.map_cons, Modfile.Edit.runOps, Drv.GenEdit.runWorkOps]
    cases hx : applyWork e (opM op) with
    | none =>
      rw [hx] at O
      simp only [OutW] at O
      simp only [O]
      exact rfl
    | some x =>
      cases x with
      | ok e' =>
        rw [hx] at O
        obtain ⟨h', h1, R'⟩ := O
        simp only [h1]
        exact (runWorkOps_rel fuel fp ops h' e' (true :: acc) (i + 1) R' (hnext e' hx)).shift
      | error err =>
        rw [hx] at O
        rcases O with ⟨hr, h1⟩ | ⟨hr, h1⟩
        · simp only [h1, hr, if_true]
          exact (runWorkOps_rel fuel fp ops h e (false :: acc) (i + 1) R (hret err hx hr)).shift
        · simp only [h1, hr, Bool.false_eq_true, if_false]
          exact ⟨op, Nat.le_refl _, by simp, rfl⟩

def FuelOKW (fuel : Nat) : EWork → List EditSpec.Op → Prop
  | _, [] => True
  | e, op :: ops =>
    stepFuelW e op ≤ fuel ∧
      (∀ e', applyWork e (opM op) = some (.ok e') → FuelOKW fuel e' ops) ∧
      (∀ err, applyWork e (opM op) = some (.error err) → err.isReturned = true → FuelOKW fuel e ops)

/-- under the go.work invariant and the validity of the arguments, fuel is all that is left to ask for -/
theorem runOKW_of_valid (fuel : Nat) : ∀ (ops : List EditSpec.Op) (e : EWork), Modfile.Edit.InvW e →
    Modfile.Edit.RunValidW e (ops.map opM) → FuelOKW fuel e ops → RunOKW fuel e ops
  | [], _, _, _, _ => trivial
  | op :: ops, e, hi, hv, hf => by
    obtain ⟨hargs, hvn, hvr⟩ := hv
    obtain ⟨hf1, hfn, hfr⟩ := hf
    refine ⟨⟨hf1, scalarsLiveW_of_InvW hi⟩, ?_, ?_⟩
    · intro e' hx
      exact runOKW_of_valid fuel ops e' (Modfile.Edit.applyWork_inv_all e e' _ hargs hi hx) (hvn e' hx) (hfn e' hx)
    · intro err hx hr
      exact runOKW_of_valid fuel ops e hi (hvr err hx hr) (hfr err hx hr)

/-! ### Boolean tests -/

def stepOKWB (fuel : Nat) (e : EWork) (op : EditSpec.Op) : Bool :=
  decide (stepFuelW e op ≤ fuel) && optOK (·.lineId) e.f.go && optOK (·.lineId) e.f.toolchain

theorem stepOKWB_sound {fuel : Nat} {e : EWork} {op : EditSpec.Op} (h : stepOKWB fuel e op = true) : StepOKW fuel e op := by
  simp only [stepOKWB, Bool.and_eq_true, decide_eq_true_eq] at h
  exact ⟨h.1.1, optOK_sound h.1.2, optOK_sound h.2⟩

def runOKWB (fuel : Nat) : EWork → List EditSpec.Op → Bool
  | _, [] => true
  | e, op :: ops =>
    stepOKWB fuel e op &&
      (match applyWork e (opM op) with
       | some (.ok e') => runOKWB fuel e' ops
       | some (.error err) => if err.isReturned then runOKWB fuel e ops else true
       | none => true)

theorem runOKWB_sound (fuel : Nat) : ∀ (ops : List EditSpec.Op) (e : EWork), runOKWB fuel e ops = true → RunOKW fuel e ops
  | [], _, _ => trivial
  | op :: ops, e, h => by
    simp only [runOKWB, Bool.and_eq_true] at h
    refine ⟨stepOKWB_sound h.1, ?_, ?_⟩
    · intro e' hx
      have h2 := h.2
      rw [hx] at h2
      exact runOKWB_sound fuel ops e' h2
    · intro err hx hr
      have h2 := h.2
      rw [hx] at h2
      simp only [hr, if_true] at h2
      exact runOKWB_sound fuel ops e h2

def fuelOKWB (fuel : Nat) : EWork → List EditSpec.Op → Bool
  | _, [] => true
  | e, op :: ops =>
    decide (stepFuelW e op ≤ fuel) &&
      (match applyWork e (opM op) with
       | some (.ok e') => fuelOKWB fuel e' ops
       | some (.error err) => if err.isReturned then fuelOKWB fuel e ops else true
       | none => true)

theorem fuelOKWB_sound (fuel : Nat) : ∀ (ops : List EditSpec.Op) (e : EWork), fuelOKWB fuel e ops = true → FuelOKW fuel e ops
  | [], _, _ => trivial
  | op :: ops, e, h => by
    simp only [fuelOKWB, Bool.and_eq_true, decide_eq_true_eq] at h
    refine ⟨h.1, ?_, ?_⟩
    · intro e' hx
      have h2 := h.2
      rw [hx] at h2
      exact fuelOKWB_sound fuel ops e' h2
    · intro err hx hr
      have h2 := h.2
      rw [hx] at h2
      simp only [hr, if_true] at h2
      exact fuelOKWB_sound fuel ops e h2

def FinalFuelW (fuel : Nat) (e : EWork) (ops : List EditSpec.Op) : Prop :=
  ∀ e' res, Modfile.Edit.runOps applyWork e (ops.map opM) [] 0 = .done e' res → stepFuelW e' .cleanup ≤ fuel

def finalFuelWB (fuel : Nat) (e : EWork) (ops : List EditSpec.Op) : Bool :=
  match Modfile.Edit.runOps applyWork e (ops.map opM) [] 0 with
  | .done e' _ => decide (stepFuelW e' .cleanup ≤ fuel)
  | _ => true

theorem finalFuelWB_sound {fuel : Nat} {e : EWork} {ops : List EditSpec.Op} (h : finalFuelWB fuel e ops = true) :
    FinalFuelW fuel e ops := by
  intro e' res hx
  simp only [finalFuelWB, hx, decide_eq_true_eq] at h
  exact h

theorem of_parsedW {P : Modfile.WorkFile → Prop} (file : Bytes) (b : Modfile.WorkFile → Bool) (hb : ∀ f, b f = true → P f)
    (h : (match Modfile.parseWork (B "go.work") file none with
      | .ok f => b f
      | .error _ => true) = true) : ∀ f, Modfile.parseWork (B "go.work") file none = .ok f → P f := by
  intro f hp
  rw [hp] at h
  exact hb f h

/-! ### reading a represented go.work heap back -/

open ModVerif.Tie.FnEditSessionD (getAll_rep ropt_ne toOption_ok encSorted_congr)
open ModVerif.Drv.GenEdit (workM getAll)

theorem workM_rep {h : Heap} {fp : Int} {e : EWork} (R : RepW h fp e) : workM h fp = some (strip e.f) := by
  obtain ⟨o, ho, RA⟩ := R
  have hsyn := RA.syn.synM
  have hgd := getAll_rep RA.godebug.rel
  have hus := getAll_rep RA.use.rel
  have hrp := getAll_rep RA.replace.rel
  have hgo : (if (o.Go == 0) = true then some none else do
      let g ← (heapGet h.gos o.Go).toOption
      pure (some ({ version := g.Version, lineId := 0 } : Modfile.Go))) =
      some (e.f.go.map fun g => { g with lineId := 0 }) := by
    have hm := RA.go
    cases hmm : e.f.go with
    | none => rw [hmm] at hm; simp only [ROpt] at hm; simp [hm]
    | some m =>
      rw [hmm] at hm
      simp only [ropt_ne hm, Bool.false_eq_true, if_false, hm.1, toOption_ok, Option.map_some]
      rfl
  have htc : (if (o.Toolchain == 0) = true then some none else do
      let t ← (heapGet h.toolchains o.Toolchain).toOption
      pure (some ({ name := t.Name, lineId := 0 } : Modfile.Toolchain))) =
      some (e.f.toolchain.map fun t => { t with lineId := 0 }) := by
    have hm := RA.toolchain
    cases hmm : e.f.toolchain with
    | none => rw [hmm] at hm; simp only [ROpt] at hm; simp [hm]
    | some m =>
      rw [hmm] at hm
      simp only [ropt_ne hm, Bool.false_eq_true, if_false, hm.1, toOption_ok, Option.map_some]
      rfl
  unfold workM
  simp only [Option.bind_eq_bind, Option.pure_def, bind, pure] at hgo htc ⊢
  simp only [ho, toOption_ok, hsyn, hgo, htc, hgd, hus, hrp, Option.bind_eq_bind, Option.bind_some,
    Option.pure_def, bind, pure, List.map_map]
  rfl

open ModVerif.Drv.Edit.M (dumpWork encSorted)

theorem dumpWork_strip (f : Modfile.WorkFile) : dumpWork (strip f) = dumpWork f := by
  unfold dumpWork strip
  simp only [Option.map_map]
  rw [encSorted_congr f.godebug, encSorted_congr f.replace, encSorted_congr f.use]
  · rfl
  all_goals (rw [List.map_map]; rfl)

theorem strip_syn (f : Modfile.WorkFile) : (strip f).syn = f.syn := rfl

/-! ### the two sessions as values (example harness) -/

def genWorkSession (fuel : Nat) (file : Bytes) (ops : List EditSpec.Op) : Option (List Bool × Modfile.WorkFile) :=
  match Modfile.parseWork (B "go.work") file none with
  | .error _ => none
  | .ok f =>
    match Drv.GenEdit.runWorkOps fuel (Drv.GenEdit.loadWork f).2 (Drv.GenEdit.loadWork f).1 ops [] with
    | .done h res =>
      match WorkFile_Cleanup fuel (Drv.GenEdit.loadWork f).2 h with
      | .ok (_, h') => (workM h' (Drv.GenEdit.loadWork f).2).map fun g => (res, g)
      | .error _ => none
    | _ => none

def modelWorkSession (file : Bytes) (ops : List EditSpec.Op) : Option (List Bool × Modfile.WorkFile) :=
  match Modfile.parseWork (B "go.work") file none with
  | .error _ => none
  | .ok f =>
    match Modfile.Edit.runOps applyWork (Modfile.Edit.loadWork f) (ops.map opM) [] 0 with
    | .done e res => some (res, strip (Modfile.Edit.workCleanup e).f)
    | _ => none

end ModVerif.Tie.FnEditSessionW
