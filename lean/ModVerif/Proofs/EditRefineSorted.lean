/-
  EditRefine, part 16 — C16 `blocks_sorted` for exclude blocks under the semantic order: with the tree invariant every
  line of an exclude block has exactly two tokens (or is removed), and on those `lineExcludeLess` is a strict weak
  order, so `SortBlocks` leaves the block sorted by it.
-/
import ModVerif.Proofs.EditRefineInvRun
set_option linter.unusedSimpArgs false
namespace ModVerif.Modfile.Edit
open ModVerif ModVerif.Modfile ModVerif.EditSpec

/-- the sort key of a line of an exclude block: removed lines first, then (path, version) -/
def exKey (t : List Bytes) : Option (Bytes × Bytes) :=
  match t with
  | [p, v] => some (p, v)
  | _ => none

def optCmp : Option (Bytes × Bytes) → Option (Bytes × Bytes) → Int
  | none, none => 0
  | none, some _ => -1
  | some _, none => 1
  | some a, some b => excludeCmp a b

theorem optCmp_pre : PreCmp optCmp := by
  have h := (PreCmp.of_strict bytesCmp_strict).lex semver_preCmp
  refine ⟨?_, ?_, ?_⟩
  · intro x y; cases x <;> cases y <;> simp [optCmp]; exact h.range _ _
  · intro x y; cases x <;> cases y <;> simp [optCmp]; exact h.antisymm _ _
  · intro x y z; cases x <;> cases y <;> cases z <;> simp [optCmp]; exact h.le_trans _ _ _

/-- the global strict weak order that agrees with `lineExcludeLess` on removed and two-token lines -/
def exLess (a b : List Bytes) : Bool := decide (optCmp (exKey a) (exKey b) = -1)

theorem exLess_strictWeak : StrictWeak exLess := (optCmp_pre.comap exKey).strictWeak

def TwoOrNone (t : List Bytes) : Prop := t = [] ∨ t.length = 2

theorem lineExcludeLess_model_eq_spec (a b : List Bytes) : lineExcludeLess a b = EditSpec.lineExcludeLess a b := by
  unfold Edit.lineExcludeLess EditSpec.lineExcludeLess
  rcases a with _ | ⟨a1, _ | ⟨a2, _ | ⟨a3, as⟩⟩⟩ <;> rcases b with _ | ⟨b1, _ | ⟨b2, _ | ⟨b3, bs⟩⟩⟩ <;>
    simp [lineLess_eq_spec] <;> (try rfl)

theorem lineExcludeLess_on (a b : List Bytes) (ha : TwoOrNone a) (hb : TwoOrNone b) : lineExcludeLess a b = exLess a b := by
  rw [lineExcludeLess_model_eq_spec]
  rcases ha with rfl | ha <;> rcases hb with rfl | hb
  · simp [EditSpec.lineExcludeLess, EditSpec.lineLess, exLess, exKey, optCmp]
  · rcases b with _ | ⟨b1, _ | ⟨b2, _ | ⟨b3, bs⟩⟩⟩ <;> simp at hb
    simp [EditSpec.lineExcludeLess, EditSpec.lineLess, exLess, exKey, optCmp]
  · rcases a with _ | ⟨a1, _ | ⟨a2, _ | ⟨a3, as⟩⟩⟩ <;> simp at ha
    simp [EditSpec.lineExcludeLess, EditSpec.lineLess, exLess, exKey, optCmp]
  · rcases a with _ | ⟨a1, _ | ⟨a2, _ | ⟨a3, as⟩⟩⟩ <;> simp at ha
    rcases b with _ | ⟨b1, _ | ⟨b2, _ | ⟨b3, bs⟩⟩⟩ <;> simp at hb
    rw [lineExcludeLess_two]
    simp only [exLess, exKey, optCmp, excludeLess2]
    exact decide_eq_decide.2 Iff.rfl

/-- the stable sort only compares elements of the list -/
theorem insertLine_congr (less less' : List Bytes → List Bytes → Bool) (x : Line) (l : List Line)
    (h : ∀ y ∈ l, less y.token x.token = less' y.token x.token) : insertLine less x l = insertLine less' x l := by
  induction l with
  | nil => rfl
  | cons y ys ih =>
    simp only [insertLine, h y List.mem_cons_self, ih (fun z hz => h z (List.mem_cons_of_mem _ hz))]

theorem stableSort_congr (less less' : List Bytes → List Bytes → Bool) (l : List Line)
    (h : ∀ x ∈ l, ∀ y ∈ l, less x.token y.token = less' x.token y.token) : stableSort less l = stableSort less' l := by
  induction l with
  | nil => rfl
  | cons x xs ih =>
    show insertLine less x (stableSort less xs) = insertLine less' x (stableSort less' xs)
    rw [ih (fun a ha b hb => h a (List.mem_cons_of_mem _ ha) b (List.mem_cons_of_mem _ hb))]
    apply insertLine_congr
    intro y hy
    have hy' : y ∈ xs := (stableSort_perm less' xs).subset hy
    exact h y (List.mem_cons_of_mem _ hy') x List.mem_cons_self

/-- sorting a block of removed / two-token lines with `lineExcludeLess` yields a block sorted by it -/
theorem stableSort_exclude_sorted (l : List Line) (h : ∀ x ∈ l, TwoOrNone x.token) :
    Sorted (onToken lineExcludeLess) (stableSort lineExcludeLess l) := by
  have heq : stableSort lineExcludeLess l = stableSort exLess l :=
    stableSort_congr _ _ l (fun x hx y hy => lineExcludeLess_on _ _ (h x hx) (h y hy))
  rw [heq]
  have hs := (stableSort_sorted exLess_strictWeak l).1
  have hp := (stableSort_sorted exLess_strictWeak l).2
  refine (List.Pairwise.and_mem.1 hs).imp ?_
  intro a b hab
  rcases hab with ⟨ha, hb, hless⟩
  simp only [onToken] at hless ⊢
  rw [lineExcludeLess_on _ _ (h b (hp.subset hb)) (h a (hp.subset ha))]
  exact hless

theorem verbs_ne : B "module" ≠ B "exclude" ∧ B "go" ≠ B "exclude" ∧ B "toolchain" ≠ B "exclude" ∧ B "godebug" ≠ B "exclude" ∧
    B "require" ≠ B "exclude" ∧ B "replace" ≠ B "exclude" ∧ B "retract" ≠ B "exclude" ∧ B "tool" ≠ B "exclude" := by
  decide +kernel

/-- with the invariant, a live line whose verb is `exclude` has exactly three full tokens -/
theorem Inv.exclude_toks {e : EFile} (hi : Inv e) (v : VLine) (hv : v ∈ view e.f.syn.stmts)
    (hverb : v.toks.head? = some (B "exclude")) : v.toks.length = 3 := by
  rcases hi.line_entry v hv with ⟨en, hen, _, hacc⟩
  rcases verbs_ne with ⟨n1, n2, n3, n4, n5, n6, n7, n8⟩
  simp only [entries, List.mem_append, List.mem_map, Option.mem_toList, entsOf, List.mem_filter] at hen
  rcases hen with ⟨x, _, rfl⟩ | ⟨x, _, rfl⟩ | ⟨x, _, rfl⟩ | ⟨x, _, rfl⟩ | ⟨x, _, rfl⟩ | ⟨x, _, rfl⟩ | ⟨x, _, rfl⟩ |
    ⟨x, _, rfl⟩ | ⟨x, _, rfl⟩
  · simp only [entM] at hacc; rw [hacc] at hverb; simp at hverb; exact absurd hverb n1
  · simp only [entGo] at hacc; rw [hacc] at hverb; simp at hverb; exact absurd hverb n2
  · simp only [entTc] at hacc; rw [hacc] at hverb; simp at hverb; exact absurd hverb n3
  · simp only [entG] at hacc; rw [hacc] at hverb; simp at hverb; exact absurd hverb n4
  · simp only [entRq] at hacc; rw [hacc.1] at hverb; simp at hverb; exact absurd hverb n5
  · simp only [entX] at hacc; rw [hacc]; rfl
  · simp only [entRp, replaceToks] at hacc; rw [hacc] at hverb; simp at hverb; exact absurd hverb n6
  · simp only [entRt] at hacc
    rcases hacc with ⟨x', h1, _⟩ | ⟨x', y', h1, _⟩ <;> rw [h1] at hverb <;> simp at hverb <;> exact absurd hverb n7
  · simp only [entT] at hacc
    rcases hacc with ⟨x', h1, _⟩; rw [h1] at hverb; simp at hverb; exact absurd hverb n8

theorem Inv.exclude_block_lines {e : EFile} (hi : Inv e) (b : LineBlock) (hb : Expr.lineBlock b ∈ e.f.syn.stmts)
    (hverb : headIs b.token (B "exclude") = true) : ∀ l ∈ b.lines, TwoOrNone l.token := by
  intro l hl
  by_cases hlive : l.token = []
  · exact Or.inl hlive
  · right
    rcases hi.tree.blockTok b hb with ⟨w, hw⟩
    have hwv : w = B "exclude" := by rw [hw] at hverb; exact headIs_cons hverb
    have hp : (b.token, l) ∈ loc e.f.syn.stmts := by
      unfold loc
      exact List.mem_flatMap.2 ⟨_, hb, by simp only [locStmt]; exact List.mem_map.2 ⟨l, hl, rfl⟩⟩
    have hvl : liveLoc (b.token, l) = true := by
      simp only [liveLoc]
      cases ht : l.token with
      | nil => exact absurd ht hlive
      | cons _ _ => rfl
    have hv : mkV (b.token, l) ∈ view e.f.syn.stmts := mem_view.2 ⟨_, hp, hvl, rfl⟩
    have := hi.exclude_toks _ hv (by simp [mkV, hw, hwv])
    simpa [mkV, hw] using this

theorem dropKilled_block (kill : List Nat) (stmts : List Expr) (b' : LineBlock)
    (h : Expr.lineBlock b' ∈ dropKilled kill stmts) :
    ∃ b, Expr.lineBlock b ∈ stmts ∧ b'.token = b.token ∧ ∀ l ∈ b'.lines, l ∈ b.lines := by
  induction stmts with
  | nil => simp [dropKilled] at h
  | cons x xs ih =>
    cases x with
    | line l =>
      unfold dropKilled at h
      split at h
      · rcases ih h with ⟨b, hb, r⟩; exact ⟨b, List.mem_cons_of_mem _ hb, r⟩
      · rcases List.mem_cons.1 h with h1 | h1
        · cases h1
        · rcases ih h1 with ⟨b, hb, r⟩; exact ⟨b, List.mem_cons_of_mem _ hb, r⟩
    | lineBlock b0 =>
      unfold dropKilled at h
      simp only at h
      split at h
      · rcases ih h with ⟨b, hb, r⟩; exact ⟨b, List.mem_cons_of_mem _ hb, r⟩
      · rcases List.mem_cons.1 h with h1 | h1
        · simp only [Expr.lineBlock.injEq] at h1
          subst h1
          exact ⟨b0, List.mem_cons_self, rfl, fun l hl => (List.mem_filter.1 hl).1⟩
        · rcases ih h1 with ⟨b, hb, r⟩; exact ⟨b, List.mem_cons_of_mem _ hb, r⟩
    | commentBlock c =>
      unfold dropKilled at h
      rcases List.mem_cons.1 h with h1 | h1
      · cases h1
      · rcases ih h1 with ⟨b, hb, r⟩; exact ⟨b, List.mem_cons_of_mem _ hb, r⟩
    | lparen c =>
      unfold dropKilled at h
      rcases List.mem_cons.1 h with h1 | h1
      · cases h1
      · rcases ih h1 with ⟨b, hb, r⟩; exact ⟨b, List.mem_cons_of_mem _ hb, r⟩
    | rparen c =>
      unfold dropKilled at h
      rcases List.mem_cons.1 h with h1 | h1
      · cases h1
      · rcases ih h1 with ⟨b, hb, r⟩; exact ⟨b, List.mem_cons_of_mem _ hb, r⟩

/-- the go-version test of `SortBlocks` (`go ≥ 1.21`, as the code computes it) -/
def semOf (f : File) : Bool := EditSpec.useSemanticSortForExclude (f.go.map (·.version))

theorem sortBlocks_eq_sem (e : EFile) :
    sortBlocks e = { e with f := { e.f with
      exclude := e.f.exclude.filter (fun x => !(kill1 e.f).contains x.lineId),
      replace := e.f.replace.filter (fun x => !(kill2 e.f).contains x.lineId),
      tool := e.f.tool.filter (fun t => !(kill3 e.f).contains t.lineId),
      syn := { e.f.syn with stmts := sortStmts (semOf e.f) false (dropKilled (kill3 e.f) e.f.syn.stmts) } } } := by
  unfold sortBlocks Edit.removeDups semOf EditSpec.useSemanticSortForExclude
  cases e.f.go <;> rfl

/-- **blocks_sorted**: after `SortBlocks` on a file satisfying the tree invariant, EVERY block — exclude blocks under
    the semantic order included — is sorted by the comparator the code selects for it -/
theorem sortBlocks_blocks_sorted (e : EFile) (hi : Inv e) :
    ∀ b, Expr.lineBlock b ∈ (sortBlocks e).f.syn.stmts →
      Sorted (onToken (lessFor (semOf e.f) false b.token)) b.lines := by
  have heq := sortBlocks_eq_sem e
  generalize semOf e.f = sem at heq ⊢
  intro b hb
  rw [heq] at hb
  simp only at hb
  rcases sortStmts_block sem false _ b hb with ⟨b0, hb0, htok, hlines⟩
  by_cases hx : (headIs b.token (B "exclude") && sem) = true
  · -- an exclude block under the semantic order
    rcases dropKilled_block _ _ b0 hb0 with ⟨b00, hb00, htok0, hsub⟩
    have hverb : headIs b00.token (B "exclude") = true := by
      simp only [Bool.and_eq_true] at hx
      rw [← htok0, ← htok]; exact hx.1
    have hlt : ∀ l ∈ b0.lines, TwoOrNone l.token := fun l hl => hi.exclude_block_lines b00 hb00 hverb l (hsub l hl)
    have hless : lessFor sem false b.token = lineExcludeLess := by
      simp only [lessFor, hx, Bool.false_eq_true, if_false, if_true]
    rw [hless, hlines]
    have hless0 : lessFor sem false b0.token = lineExcludeLess := by rw [← htok]; exact hless
    rw [hless0]
    exact stableSort_exclude_sorted b0.lines hlt
  · simp only [Bool.not_eq_true] at hx
    have hsw := lessFor_strictWeak sem false b.token (Or.inr hx)
    rw [hlines, ← htok]
    exact (stableSort_sorted hsw _).1

end ModVerif.Modfile.Edit
