/-
  Groundwork for the stored-hash layout (C09): fuel independence and the recurrence of
  `storedHashIndex 0`, i.e. "each new record n adds 1 + trailingZeros(n+1) hashes".
-/
import ModVerif.Model.Tlog
import ModVerif.Spec.RFC6962
namespace ModVerif.Tlog
open ModVerif

/-- the second loop of StoredHashIndex does not depend on the fuel once it is at least `n` -/
theorem sumHalves_fuel : ∀ f g n, n ≤ f → n ≤ g → sumHalves f n = sumHalves g n := by
  intro f
  induction f with
  | zero =>
    intro g n h1 _
    have : n = 0 := by omega
    subst this
    cases g <;> simp [sumHalves]
  | succ f ih =>
    intro g n h1 h2
    cases g with
    | zero =>
      have : n = 0 := by omega
      subst this
      simp [sumHalves]
    | succ g =>
      simp only [sumHalves]
      split
      · rw [ih g (n / 2) (by omega) (by omega)]
      · rfl

/-- `S n = n + n/2 + n/4 + …` -/
def S (n : Nat) : Nat := sumHalves n n

theorem S_zero : S 0 = 0 := rfl

theorem S_pos (n : Nat) (h : 0 < n) : S n = n + S (n / 2) := by
  unfold S
  cases n with
  | zero => omega
  | succ m =>
    simp only [sumHalves, Nat.zero_lt_succ, ↓reduceIte, gt_iff_lt]
    rw [sumHalves_fuel m ((m + 1) / 2) ((m + 1) / 2) (by omega) (Nat.le_refl _)]

theorem storedHashIndex_zero_eq (n : Nat) : storedHashIndex 0 n = S n := by
  simp [storedHashIndex, descend, S]

/-- the 2-adic valuation of the specification does not depend on the fuel -/
theorem tzF_fuel : ∀ f g n, n ≤ f → n ≤ g → RFC6962.tzF f n = RFC6962.tzF g n := by
  intro f
  induction f with
  | zero =>
    intro g n h1 _
    have : n = 0 := by omega
    subst this
    cases g <;> simp [RFC6962.tzF]
  | succ f ih =>
    intro g n h1 h2
    cases g with
    | zero =>
      have : n = 0 := by omega
      subst this
      simp [RFC6962.tzF]
    | succ g =>
      simp only [RFC6962.tzF]
      split
      · rename_i hc
        rw [ih g (n / 2) (by omega) (by omega)]
      · rfl

theorem tz_odd (n : Nat) (h : n % 2 = 1) : RFC6962.tz n = 0 := by
  unfold RFC6962.tz
  cases n with
  | zero => omega
  | succ m => simp [RFC6962.tzF]; omega

theorem tz_double (m : Nat) (h : 0 < m) : RFC6962.tz (2 * m) = 1 + RFC6962.tz m := by
  unfold RFC6962.tz
  cases hm : 2 * m with
  | zero => omega
  | succ k =>
    have h2 : (k + 1) % 2 = 0 := by omega
    have h3 : (k + 1) / 2 = m := by omega
    simp only [RFC6962.tzF, h2, ne_eq, Nat.add_eq_zero_iff, Nat.succ_ne_self, and_false, not_false_eq_true, and_self,
      ↓reduceIte, h3]
    rw [tzF_fuel k m m (by omega) (Nat.le_refl _)]

/-- ★ "Each new record n adds 1 + trailingZeros(n+1) hashes" (comment in SplitStoredHashIndex):
    the leaf of record `n+1` is stored `1 + tz (n+1)` positions after the leaf of record `n`. -/
theorem S_succ : ∀ n, S (n + 1) = S n + 1 + RFC6962.tz (n + 1) := by
  intro n
  induction n using Nat.strongRecOn with
  | _ n ih =>
    rw [S_pos (n + 1) (by omega)]
    by_cases hodd : (n + 1) % 2 = 1
    · -- n even
      rw [tz_odd _ hodd]
      have h1 : (n + 1) / 2 = n / 2 := by omega
      rw [h1]
      cases n with
      | zero => simp [S_zero]
      | succ k => rw [S_pos (k + 1) (by omega)]; omega
    · -- n + 1 = 2 m
      have hm : ∃ m, n + 1 = 2 * m ∧ 0 < m := ⟨(n + 1) / 2, by omega, by omega⟩
      obtain ⟨m, hm1, hm2⟩ := hm
      have h1 : (n + 1) / 2 = m := by omega
      have hn : n = 2 * m - 1 := by omega
      rw [h1, hm1, tz_double m hm2]
      have ih' := ih (m - 1) (by omega)
      have hmm : m - 1 + 1 = m := by omega
      rw [hmm] at ih'
      have hS : S n = n + S (m - 1) := by
        rw [S_pos n (by omega)]
        have : n / 2 = m - 1 := by omega
        rw [this]
      rw [hS, ih']
      omega

theorem storedHashIndex_zero_succ (n : Nat) :
    storedHashIndex 0 (n + 1) = storedHashIndex 0 n + 1 + RFC6962.tz (n + 1) := by
  rw [storedHashIndex_zero_eq, storedHashIndex_zero_eq, S_succ]

/-- `storedHashIndex 0` is strictly increasing by at least one per record -/
theorem storedHashIndex_zero_lt_succ (n : Nat) : storedHashIndex 0 n < storedHashIndex 0 (n + 1) := by
  rw [storedHashIndex_zero_succ]; omega

end ModVerif.Tlog

namespace ModVerif.Tlog
open ModVerif

/-- bits.TrailingZeros64 is the 2-adic valuation on `0 < n < 2^64` -/
theorem tzAux_eq_tz : ∀ f n, 0 < n → n < 2 ^ f → tzAux f n = RFC6962.tz n := by
  intro f
  induction f with
  | zero => intro n h1 h2; simp at h2; omega
  | succ f ih =>
    intro n h1 h2
    simp only [tzAux]
    by_cases hodd : n % 2 = 1
    · simp [hodd, tz_odd n hodd]
    · have hm : n = 2 * (n / 2) := by omega
      have hne : (n % 2 == 1) = false := by simp; omega
      rw [hne]
      simp only [Bool.false_eq_true, ↓reduceIte]
      rw [ih (n / 2) (by omega) (by rw [Nat.pow_succ] at h2; omega)]
      conv => rhs; rw [hm]
      rw [tz_double (n / 2) (by omega)]

theorem trailingZeros64_eq_tz (n : Nat) (h1 : 0 < n) (h2 : n < 2 ^ 64) : trailingZeros64 n = RFC6962.tz n := by
  unfold trailingZeros64
  rw [Nat.mod_eq_of_lt h2]
  exact tzAux_eq_tz 64 n h1 h2

/-- the `i&1 != 0` loop of StoredHashCount counts the trailing zeros of `i + 1` -/
theorem trailingOnes_eq_tz : ∀ f i, i < 2 ^ f → trailingOnes f i = RFC6962.tz (i + 1) := by
  intro f
  induction f with
  | zero => intro i h; have : i = 0 := by simp at h; omega
            subst this; simp [trailingOnes, tz_odd]
  | succ f ih =>
    intro i h
    simp only [trailingOnes]
    by_cases hodd : i % 2 = 1
    · have hne : (i % 2 == 1) = true := by simp [hodd]
      rw [hne]
      simp only [↓reduceIte]
      rw [ih (i / 2) (by rw [Nat.pow_succ] at h; omega)]
      have : i + 1 = 2 * (i / 2 + 1) := by omega
      rw [this, tz_double _ (by omega)]
    · have hne : (i % 2 == 1) = false := by simp; omega
      rw [hne]
      simp only [Bool.false_eq_true, ↓reduceIte]
      rw [tz_odd (i + 1) (by omega)]

/-- ★ the documented count is the position of the next record's leaf hash -/
theorem storedHashCount_eq_index (n : Nat) (h : n ≤ 2 ^ 64) : storedHashCount n = storedHashIndex 0 n := by
  unfold storedHashCount
  cases n with
  | zero => simp [storedHashIndex_zero_eq, S_zero]
  | succ m =>
    have : (m + 1 == 0) = false := by simp
    simp only [this, Bool.false_eq_true, ↓reduceIte, Nat.add_sub_cancel]
    rw [trailingOnes_eq_tz 64 m (by omega), storedHashIndex_zero_succ]

/-- the layout of the specification has `S n` entries -/
theorem layout_length (n : Nat) : (RFC6962.layout n).length = S n := by
  induction n with
  | zero => simp [RFC6962.layout, S_zero]
  | succ n ih =>
    have : RFC6962.layout (n + 1) = RFC6962.layout n ++ RFC6962.layoutRec n := by
      simp [RFC6962.layout, List.range_succ, List.flatMap_append]
    rw [this, List.length_append, ih, S_succ]
    simp [RFC6962.layoutRec]
    omega

end ModVerif.Tlog

namespace ModVerif.Tlog
open ModVerif

theorem descend_eq : ∀ l k, descend l k = (k + 1) * 2 ^ l - 1 := by
  intro l
  induction l with
  | zero => intro k; simp [descend]
  | succ l ih =>
    intro k
    simp only [descend]
    rw [ih (2 * k + 1), Nat.pow_succ]
    have : (2 * k + 1 + 1) * 2 ^ l = (k + 1) * (2 ^ l * 2) := by
      rw [show 2 * k + 1 + 1 = (k + 1) * 2 by omega, Nat.mul_assoc, Nat.mul_comm 2 (2 ^ l)]
    rw [this]

/-- closed form: the hash of `(level, k)` is written `level` positions after the leaf of its last record -/
theorem storedHashIndex_eq (l k : Nat) : storedHashIndex l k = S ((k + 1) * 2 ^ l - 1) + l := by
  simp [storedHashIndex, S, descend_eq]

theorem le_tz_mul_pow : ∀ l m, 0 < m → l ≤ RFC6962.tz (m * 2 ^ l) := by
  intro l
  induction l with
  | zero => intro m _; exact Nat.zero_le _
  | succ l ih =>
    intro m hm
    have : m * 2 ^ (l + 1) = 2 * (m * 2 ^ l) := by rw [Nat.pow_succ]; ac_rfl
    rw [this, tz_double _ (Nat.mul_pos hm (Nat.two_pow_pos l))]
    have := ih m hm
    omega

theorem layout_succ (n : Nat) : RFC6962.layout (n + 1) = RFC6962.layout n ++ RFC6962.layoutRec n := by
  simp [RFC6962.layout, List.range_succ, List.flatMap_append]

/-- the layout only grows at the end -/
theorem layout_getElem?_mono (i : Nat) : ∀ n, i ≤ n → ∀ p, p < (RFC6962.layout i).length →
    (RFC6962.layout n)[p]? = (RFC6962.layout i)[p]? := by
  intro n hn
  induction n with
  | zero => intro p hp; have : i = 0 := by omega
            subst this; rfl
  | succ n ih =>
    intro p hp
    by_cases h : i = n + 1
    · subst h; rfl
    · have hle : i ≤ n := by omega
      rw [layout_succ, List.getElem?_append_left]
      · exact ih hle p hp
      · have := ih hle p hp
        rw [layout_length] at hp ⊢
        have hmono : S i ≤ S n := by
          clear ih this hp h hn
          induction n with
          | zero => have : i = 0 := by omega
                    subst this; exact Nat.le_refl _
          | succ n ih2 =>
            by_cases h' : i = n + 1
            · subst h'; exact Nat.le_refl _
            · have := ih2 (by omega); rw [S_succ]; omega
        omega

/-- the hashes written with record `i` sit at positions `S i .. S i + tz (i+1)` -/
theorem layout_get (n i l : Nat) (hi : i < n) (hl : l ≤ RFC6962.tz (i + 1)) :
    (RFC6962.layout n)[S i + l]? = some (l, i >>> l) := by
  have hlen : (RFC6962.layout (i + 1)).length = S i + 1 + RFC6962.tz (i + 1) := by
    rw [layout_length, S_succ]
  rw [layout_getElem?_mono (i + 1) n (by omega) (S i + l) (by omega)]
  rw [layout_succ, List.getElem?_append_right (by rw [layout_length]; omega), layout_length]
  have : S i + l - S i = l := by omega
  rw [this]
  simp only [RFC6962.layoutRec, List.getElem?_map]
  rw [List.getElem?_range (by omega)]
  rfl

/-- ★ `storedHashIndex` is the position of `(l, k)` in the specification's layout of any log that
    contains the complete subtree `(l, k)`. -/
theorem storedHashIndex_layout (n l k : Nat) (h : (k + 1) * 2 ^ l ≤ n) :
    (RFC6962.layout n)[storedHashIndex l k]? = some (l, k) := by
  rw [storedHashIndex_eq]
  have hpos : 0 < (k + 1) * 2 ^ l := Nat.mul_pos (by omega) (Nat.two_pow_pos l)
  have hi : (k + 1) * 2 ^ l - 1 < n := by omega
  have hl : l ≤ RFC6962.tz ((k + 1) * 2 ^ l - 1 + 1) := by
    rw [Nat.sub_add_cancel hpos]; exact le_tz_mul_pow l (k + 1) (by omega)
  rw [layout_get n _ l hi hl]
  congr 2
  rw [Nat.shiftRight_eq_div_pow]
  have h2 := Nat.two_pow_pos l
  apply Nat.div_eq_of_lt_le
  · have : k * 2 ^ l + 2 ^ l = (k + 1) * 2 ^ l := by rw [Nat.add_mul]; omega
    omega
  · have : (k + 1) * 2 ^ l = k * 2 ^ l + 2 ^ l := by rw [Nat.add_mul]; omega
    omega

end ModVerif.Tlog

namespace ModVerif.Tlog
open ModVerif

/-- `StoredHashIndex(0, n) ≤ 2n` ("StoredHashIndex(0, n) < 2*n" in the code's comment, for n > 0) -/
theorem S_le_two_mul : ∀ n, S n ≤ 2 * n := by
  intro n
  induction n using Nat.strongRecOn with
  | _ n ih =>
    cases n with
    | zero => simp [S_zero]
    | succ m =>
      rw [S_pos (m + 1) (by omega)]
      have := ih ((m + 1) / 2) (by omega)
      omega

/-- the "bad math" panic at the top of SplitStoredHashIndex is unreachable -/
theorem split_guard_unreachable (index : Nat) : ¬ storedHashIndex 0 (index / 2) > index := by
  rw [storedHashIndex_zero_eq]
  have := S_le_two_mul (index / 2)
  omega

end ModVerif.Tlog
