/-
  C09 groundwork on the specification side: fuel independence and the unfolding equation of the RFC 6962
  tree hash `mth`, contiguous slices of the leaf list, the leaves under a coordinate `(l, k)`, and the
  2-adic valuation `tz` as a divisibility statement.  (No reference to the store here.)
-/
import ModVerif.Model.Tlog
import ModVerif.Spec.RFC6962
import ModVerif.Proofs.TlogIndex
namespace ModVerif.TlogStore
open ModVerif ModVerif.Tlog ModVerif.RFC6962

/-! ### the split point -/

theorem splitPoint_eq (n l : Nat) (h1 : 2 ^ l < n) (h2 : n ≤ 2 ^ (l + 1)) : splitPoint n = 2 ^ l := by
  unfold splitPoint
  have hpos : n - 1 ≠ 0 := by have := Nat.two_pow_pos l; omega
  have a : (n - 1).log2 < l + 1 := (Nat.log2_lt hpos).mpr (by omega)
  have b : l ≤ (n - 1).log2 := (Nat.le_log2 hpos).mpr (by omega)
  have : (n - 1).log2 = l := by omega
  rw [this]

theorem splitPoint_pos (n : Nat) : 0 < splitPoint n := Nat.two_pow_pos _

theorem splitPoint_lt (n : Nat) (h : 2 ≤ n) : splitPoint n < n := by
  unfold splitPoint
  have hpos : n - 1 ≠ 0 := by omega
  have := (Nat.le_log2 hpos (k := (n - 1).log2)).mp (Nat.le_refl _)
  omega

/-- a power of two splits in the middle -/
theorem splitPoint_two_pow (l : Nat) : splitPoint (2 ^ (l + 1)) = 2 ^ l :=
  splitPoint_eq _ l (by rw [Nat.pow_succ]; have := Nat.two_pow_pos l; omega) (Nat.le_refl _)

/-! ### MTH -/

section
variable {H : Type} (node : H → H → H) (empty : H)

theorem mthF_fuel : ∀ f g (D : List H), D.length ≤ f → D.length ≤ g →
    mthF node empty f D = mthF node empty g D := by
  intro f
  induction f with
  | zero =>
    intro g D h1 _
    have : D = [] := List.eq_nil_of_length_eq_zero (by omega)
    subst this
    cases g <;> simp [mthF]
  | succ f ih =>
    intro g D h1 h2
    match D, h1, h2 with
    | [], _, _ => cases g <;> simp [mthF]
    | [a], _, _ => cases g <;> simp [mthF]
    | a :: b :: t, h1, h2 =>
      cases g with
      | zero => simp at h2
      | succ g =>
        simp only [mthF]
        have hl : 2 ≤ (a :: b :: t).length := by simp
        have hk := splitPoint_lt _ hl
        have hp := splitPoint_pos (a :: b :: t).length
        have hlen : (a :: b :: t).length = t.length + 2 := rfl
        congr 1
        · apply ih
          · rw [List.length_take]; omega
          · rw [List.length_take]; omega
        · apply ih
          · rw [List.length_drop]; omega
          · rw [List.length_drop]; omega

@[simp] theorem mth_nil : mth node empty ([] : List H) = empty := by simp [mth, mthF]

@[simp] theorem mth_singleton (h : H) : mth node empty [h] = h := by simp [mth, mthF]

/-- RFC 6962 §2.1: `MTH(D[n]) = HASH(0x01 || MTH(D[0:k]) || MTH(D[k:n]))` for `n ≥ 2` -/
theorem mth_split (D : List H) (h : 2 ≤ D.length) :
    mth node empty D =
      node (mth node empty (D.take (splitPoint D.length))) (mth node empty (D.drop (splitPoint D.length))) := by
  match D, h with
  | a :: b :: t, h =>
    have hk := splitPoint_lt _ h
    have hp := splitPoint_pos (a :: b :: t).length
    have hlen : (a :: b :: t).length = t.length + 2 := rfl
    unfold mth
    rw [show (a :: b :: t).length = t.length + 1 + 1 from rfl]
    simp only [mthF]
    rw [show t.length + 1 + 1 = (a :: b :: t).length from rfl]
    congr 1
    · apply mthF_fuel
      · rw [List.length_take]; omega
      · exact Nat.le_refl _
    · apply mthF_fuel
      · rw [List.length_drop]; omega
      · exact Nat.le_refl _

end

/-! ### slices -/

section
variable {α : Type}

/-- the elements `[lo, hi)` of a list -/
def slice (D : List α) (lo hi : Nat) : List α := (D.drop lo).take (hi - lo)

theorem slice_length (D : List α) (lo hi : Nat) (h : hi ≤ D.length) : (slice D lo hi).length = hi - lo := by
  simp [slice, List.length_take, List.length_drop]; omega

theorem take_slice (D : List α) (lo mid hi : Nat) (h2 : mid ≤ hi) :
    (slice D lo hi).take (mid - lo) = slice D lo mid := by
  simp only [slice, List.take_take]
  congr 1; omega

theorem drop_slice (D : List α) (lo mid hi : Nat) (h1 : lo ≤ mid) :
    (slice D lo hi).drop (mid - lo) = slice D mid hi := by
  simp only [slice, List.drop_take, List.drop_drop]
  congr 1
  · omega
  · congr 1; omega

theorem slice_append (D E : List α) (lo hi : Nat) (h : hi ≤ D.length) : slice (D ++ E) lo hi = slice D lo hi := by
  by_cases hlo : lo ≤ hi
  · simp only [slice]
    rw [List.drop_append_of_le_length (by omega), List.take_append_of_le_length]
    rw [List.length_drop]; omega
  · simp only [slice]
    have : hi - lo = 0 := by omega
    rw [this]; simp

theorem slice_zero (D : List α) (m : Nat) : slice D 0 m = D.take m := by simp [slice]

theorem leavesOf_eq_slice (D : List α) (l k : Nat) : leavesOf D l k = slice D (k * 2 ^ l) ((k + 1) * 2 ^ l) := by
  simp only [leavesOf, slice]
  congr 1
  rw [Nat.add_mul]; omega

theorem slice_one (D : List α) (n : Nat) (h : n < D.length) : slice D n (n + 1) = [D[n]] := by
  simp only [slice]
  rw [show n + 1 - n = 1 by omega]
  rw [List.drop_eq_getElem_cons h]
  rfl

theorem leavesOf_zero (D : List α) (n : Nat) (h : n < D.length) : leavesOf D 0 n = [D[n]] := by
  rw [leavesOf_eq_slice]
  simpa using slice_one D n h

theorem leavesOf_append (D E : List α) (l k : Nat) (h : (k + 1) * 2 ^ l ≤ D.length) :
    leavesOf (D ++ E) l k = leavesOf D l k := by
  rw [leavesOf_eq_slice, leavesOf_eq_slice, slice_append _ _ _ _ h]

end

section
variable {H : Type} (node : H → H → H) (empty : H)

/-- the tree hash of `[lo, hi)` splits at `mid` when `mid - lo` is the RFC split point of `hi - lo` -/
theorem mth_slice_split (D : List H) (lo mid hi : Nat) (h1 : lo < mid) (h2 : mid < hi) (h3 : hi ≤ D.length)
    (hk : splitPoint (hi - lo) = mid - lo) :
    mth node empty (slice D lo hi) = node (mth node empty (slice D lo mid)) (mth node empty (slice D mid hi)) := by
  have hl := slice_length D lo hi h3
  rw [mth_split node empty (slice D lo hi) (by omega), hl, hk, take_slice D lo mid hi (by omega),
    drop_slice D lo mid hi (by omega)]

/-- the hash of a complete subtree is the node hash of its two children -/
theorem mth_leavesOf_succ (D : List H) (l k : Nat) (h : (k + 1) * 2 ^ (l + 1) ≤ D.length) :
    mth node empty (leavesOf D (l + 1) k) =
      node (mth node empty (leavesOf D l (2 * k))) (mth node empty (leavesOf D l (2 * k + 1))) := by
  have hp := Nat.two_pow_pos l
  have e1 : k * 2 ^ (l + 1) = 2 * k * 2 ^ l := by rw [Nat.pow_succ]; ac_rfl
  have e2 : (k + 1) * 2 ^ (l + 1) = (2 * k + 1 + 1) * 2 ^ l := by
    rw [Nat.pow_succ, show 2 * k + 1 + 1 = (k + 1) * 2 by omega]; ac_rfl
  have e3 : (2 * k + 1) * 2 ^ l = 2 * k * 2 ^ l + 2 ^ l := by rw [Nat.add_mul]; omega
  have e4 : (2 * k + 1 + 1) * 2 ^ l = 2 * k * 2 ^ l + 2 ^ l + 2 ^ l := by rw [Nat.add_mul, e3]; omega
  rw [leavesOf_eq_slice, leavesOf_eq_slice, leavesOf_eq_slice, e1, e2]
  apply mth_slice_split
  · omega
  · omega
  · omega
  · rw [e4, e3]
    have : 2 * k * 2 ^ l + 2 ^ l + 2 ^ l - 2 * k * 2 ^ l = 2 ^ (l + 1) := by rw [Nat.pow_succ]; omega
    rw [this, splitPoint_two_pow]; omega

end

/-! ### `tz` as divisibility -/

/-- every positive number is an odd multiple of `2 ^ tz` -/
theorem tz_spec : ∀ m, 0 < m → ∃ q, m = q * 2 ^ tz m ∧ q % 2 = 1 := by
  intro m
  induction m using Nat.strongRecOn with
  | _ m ih =>
    intro hm
    by_cases hodd : m % 2 = 1
    · exact ⟨m, by rw [tz_odd m hodd]; simp, hodd⟩
    · have e : m = 2 * (m / 2) := by omega
      obtain ⟨q, hq1, hq2⟩ := ih (m / 2) (by omega) (by omega)
      refine ⟨q, ?_, hq2⟩
      rw [e, tz_double (m / 2) (by omega), show 1 + tz (m / 2) = tz (m / 2) + 1 by omega, Nat.pow_succ]
      conv => lhs; rw [hq1]
      ac_rfl

theorem two_pow_dvd_of_le_tz (m l : Nat) (hm : 0 < m) (hl : l ≤ tz m) : 2 ^ l ∣ m := by
  obtain ⟨q, hq, _⟩ := tz_spec m hm
  have : 2 ^ l ∣ 2 ^ tz m := Nat.pow_dvd_pow 2 hl
  rw [hq]
  exact Nat.dvd_trans this (Nat.dvd_mul_left _ _)

/-- `tz m` is the LARGEST such exponent -/
theorem le_tz_of_two_pow_dvd (m l : Nat) (hm : 0 < m) (hl : 2 ^ l ∣ m) : l ≤ tz m := by
  obtain ⟨c, hc⟩ := hl
  have hcpos : 0 < c := by
    rcases Nat.eq_zero_or_pos c with h | h
    · subst h; omega
    · exact h
  rw [hc, Nat.mul_comm]
  exact le_tz_mul_pow l c hcpos

/-- for `l ≤ tz (n+1)` the low `l` bits of `n` are ones: `(n >>> l + 1) * 2^l = n + 1` -/
theorem shiftRight_of_le_tz (n l : Nat) (hl : l ≤ tz (n + 1)) : (n >>> l + 1) * 2 ^ l = n + 1 := by
  obtain ⟨c, hc⟩ := two_pow_dvd_of_le_tz (n + 1) l (by omega) hl
  have hp := Nat.two_pow_pos l
  have hcpos : 0 < c := by
    rcases Nat.eq_zero_or_pos c with h | h
    · subst h; omega
    · exact h
  rw [Nat.shiftRight_eq_div_pow]
  have : n / 2 ^ l = c - 1 := by
    apply Nat.div_eq_of_lt_le
    · have : (c - 1) * 2 ^ l + 2 ^ l = c * 2 ^ l := by
        rw [← Nat.add_one_mul]; congr 1; omega
      rw [Nat.mul_comm] at hc; omega
    · rw [Nat.mul_comm] at hc
      rw [show c - 1 + 1 = c by omega]; omega
  rw [this, show c - 1 + 1 = c by omega, Nat.mul_comm]; omega

/-- for `l < tz (n+1)` bit `l` of `n` is one -/
theorem shiftRight_succ_of_lt_tz (n l : Nat) (hl : l < tz (n + 1)) : n >>> l = 2 * (n >>> (l + 1)) + 1 := by
  have a := shiftRight_of_le_tz n l (by omega)
  have b := shiftRight_of_le_tz n (l + 1) (by omega)
  have hp := Nat.two_pow_pos l
  have : (n >>> l + 1) * 2 ^ l = ((n >>> (l + 1) + 1) * 2) * 2 ^ l := by
    rw [a, ← b, Nat.pow_succ]; ac_rfl
  have := Nat.eq_of_mul_eq_mul_right hp this
  omega

end ModVerif.TlogStore
