/-
  EditReparseFix, part A — C15 `typed_eq_reparse` for a session that starts from a file strictly parsed WITH a version fixer.

  Of the proof of `typed_eq_reparse_run3` (EditGoodBlocksC) only TWO facts use that the start file was parsed with `none`:
  the start invariant (`parseStrict_inv`) and `GoodBlocks` of the parsed tree (`parseStrict_goodBlocks`).  With a fixer the
  first is `SFix.parseStrict_inv_fix` (needs `FixerOK`); the second is re-proved here for every fixer: the statement loop
  reports `unknown block type` whatever the fixer is, and `fixRetract` only rewrites tokens of LINES (`updateLine`), never
  the token of a block.  Everything after the start (`session_gb`, `reparse_of_inv`, `refines_abs_typed`) is a theorem about
  states.  The re-parse is WITHOUT a fixer: the versions of the typed file are already fixed, and the typed file is compared
  with what the plain strict parser reads back.
-/
import ModVerif.Proofs.EditGoodBlocksC
import ModVerif.Proofs.EditStartFixStub
set_option linter.unusedSimpArgs false
set_option linter.unusedVariables false
set_option linter.unnecessarySimpa false
namespace ModVerif.Modfile.Edit.SFix
open ModVerif ModVerif.Modfile ModVerif.Modfile.Edit ModVerif.EditSpec ModVerif.Proofs.ModfileC20

/-! ### `GoodBlocks` of a file parsed with a fixer -/

theorem addStmts_gb_fix {fix : Option Fixer} (hfx : FixOK fix) : ∀ (xs : List Expr) (st st' : AddState) (xs' : List Expr),
    addStmts fix true st xs = (st', xs') → st'.errsRev = [] → GB xs' := by
  intro xs
  induction xs with
  | nil =>
    intro st st' xs' h _
    simp only [addStmts, Prod.mk.injEq] at h
    rw [← h.2]; exact GB.nil
  | cons x rest ih =>
    intro st st' xs' h he
    unfold addStmts at h
    have tail : ∀ (st1 : AddState) (x' : Expr),
        (addStmts fix true st1 rest).1 = st' → xs' = x' :: (addStmts fix true st1 rest).2 → GBx x' → GB xs' := by
      intro st1 x' h1 h2 hhead
      cases hB : addStmts fix true st1 rest with
      | mk st2 xs2 =>
        rw [hB] at h1 h2
        simp only at h1 h2
        subst h1 h2
        exact gb_cons.2 ⟨hhead, ih st1 st2 xs2 hB he⟩
    cases x with
    | line l =>
      cases htok : l.token with
      | nil =>
        simp only [htok] at h
        exact tail st (.line l) (Prod.mk.inj h).1 (Prod.mk.inj h).2.symm trivial
      | cons verb args =>
        simp only [htok] at h
        cases hA : File.add st none l verb args fix true with
        | mk st1 args' =>
          simp only [hA] at h
          exact tail st1 (.line { l with token := verb :: args' }) (Prod.mk.inj h).1 (Prod.mk.inj h).2.symm trivial
    | lineBlock b =>
      simp only at h
      have herr : ∀ (p : Position) (k : RuleErrKind), (addStmts fix true (st.err p k) rest).1 = st' → False := by
        intro p k h1
        cases hB : addStmts fix true (st.err p k) rest with
        | mk st2 xs2 =>
          rw [hB] at h1; simp only at h1; subst h1
          have := (addStmts_step hfx rest _ st2 xs2 hB he).1
          simp [AddState.err] at this
      split at h
      · rename_i verb hbt
        split at h
        · rename_i hverb
          cases hA : addBlockLines b.comments verb fix true st b.lines with
          | mk st1 ls1 =>
            simp only [hA] at h
            refine tail st1 (.lineBlock { b with lines := ls1 }) (Prod.mk.inj h).1 (Prod.mk.inj h).2.symm ?_
            intro v hv
            simp only [hbt, List.cons.injEq, and_true] at hv
            rw [← hv]; exact hverb
        · simp only [if_true] at h
          exact (herr _ _ (Prod.mk.inj h).1).elim
      · simp only [if_true] at h
        exact (herr _ _ (Prod.mk.inj h).1).elim
    | commentBlock c =>
      simp only at h
      exact tail st (.commentBlock c) (Prod.mk.inj h).1 (Prod.mk.inj h).2.symm trivial
    | lparen c =>
      simp only at h
      exact tail st (.lparen c) (Prod.mk.inj h).1 (Prod.mk.inj h).2.symm trivial
    | rparen c =>
      simp only at h
      exact tail st (.rparen c) (Prod.mk.inj h).1 (Prod.mk.inj h).2.symm trivial

/-- `FileSyntax.updateLine` rewrites lines only: the tokens of the blocks stay -/
theorem gb_updateLine (fs : FileSyntax) (id : Nat) (g : Line → Line) (h : GB fs.stmts) : GB (fs.updateLine id g).stmts := by
  unfold FileSyntax.updateLine
  intro x hx
  simp only [List.mem_map] at hx
  obtain ⟨y, hy, rfl⟩ := hx
  have := h y hy
  cases y with
  | line l => simp only; split <;> trivial
  | lineBlock b => exact this
  | commentBlock c => trivial
  | lparen c => trivial
  | rparen c => trivial

theorem gb_fixRetractLoop (path : Bytes) (fx : Fixer) : ∀ (rs : List Retract) (fs : FileSyntax) (e : List RuleErr),
    GB fs.stmts → GB (fixRetractLoop path fx rs fs e).2.1.stmts := by
  intro rs
  induction rs with
  | nil => intro fs e h; exact h
  | cons r rest ih =>
    intro fs e h
    rw [fixRetractLoop_cons]
    cases hf : fs.findLine r.lineId with
    | none => exact ih _ _ h
    | some l => exact ih _ _ (gb_updateLine _ _ _ h)

theorem gb_fixRetract (st : AddState) (fix : Option Fixer) (h : GB st.file.syn.stmts) : GB (fixRetract st fix).file.syn.stmts := by
  unfold fixRetract
  cases fix with
  | none => exact h
  | some fx =>
    simp only
    cases hr : st.file.retract with
    | nil => exact h
    | cons r rs =>
      simp only
      have key : ∀ path : Bytes, GB (if path.isEmpty = true then
            st.err ((Option.map (fun x => x.start) (st.file.syn.findLine r.lineId)).getD { }) RuleErrKind.retractNoModule
          else { file := { st.file with retract := (fixRetractLoop path fx (r :: rs) st.file.syn st.errsRev).1,
                                        syn := (fixRetractLoop path fx (r :: rs) st.file.syn st.errsRev).2.1 },
                 errsRev := (fixRetractLoop path fx (r :: rs) st.file.syn st.errsRev).2.2 : AddState }).file.syn.stmts := by
        intro path
        split
        · exact h
        · exact gb_fixRetractLoop _ _ _ _ _ h
      split
      · exact key _
      · exact key _

/-- ★ **a go.mod strictly parsed with ANY fixer (never answering empty) has block verbs on all its blocks** -/
theorem parseStrict_goodBlocks_fix {fix : Option Fixer} (hfx : FixOK fix) {name data : Bytes} {f : File}
    (h : parseToFile name data fix true = .ok f) : GoodBlocks f.syn.stmts := by
  unfold parseToFile at h
  cases hp : parse name data with
  | error e => simp [hp] at h
  | ok fs =>
    simp only [hp] at h
    cases hA : addStmts fix true { file := { syn := fs } } fs.stmts with
    | mk st stmts =>
      simp only [hA] at h
      split at h
      · rename_i he
        simp only [Except.ok.injEq] at h
        subst h
        have he' : (fixRetract { st with file := { st.file with syn := { fs with stmts := stmts } } } fix).errsRev = [] := by
          simpa using he
        obtain ⟨add, hadd⟩ := fixRetract_mono { st with file := { st.file with syn := { fs with stmts := stmts } } } fix
        have he0 : st.errsRev = [] := by
          rw [he'] at hadd
          exact (List.append_eq_nil_iff.1 hadd.symm).2
        exact (gb_iff _).1 (gb_fixRetract _ fix (addStmts_gb_fix hfx fs.stmts _ st stmts hA he0))
      · cases h

/-! ### the session theorems -/

/-- `GoodBlocks` along a session from a file parsed with a fixer -/
theorem goodBlocks_run_fix {fix : Option Fixer} (hfx : FixOK fix) (name data : Bytes) (f : File) (ops : List Op) (e' : EFile)
    (res : List Bool)
    (hf : parseToFile name data fix true = .ok f) (hk : WellFormedKeys f) (hs : NoBlockSuffix f.syn)
    (hm : MarkersSettable f.syn.stmts) (hv : StaticValid false ops)
    (h : runOps applyMod (load f) ops [] 0 = .done e' res) :
    Inv (cleanup e') ∧ GoodBlocks (cleanup e').f.syn.stmts :=
  session_gb (load f) e' ops res (parseStrict_inv_fix hfx hf hk hs) ((markersSettable_load f).2 hm)
    ((goodBlocks_load f).2 (parseStrict_goodBlocks_fix hfx hf))
    (StaticValid.runValidLive ops false (load f) hv (fun hc => by cases hc)) h

/-- **typed_eq_reparse on the run, start file parsed with a fixer** (`typed_eq_reparse_run3`, start lemmas swapped) -/
theorem typed_eq_reparse_run_fix {fix : Option Fixer} (hfx : FixOK fix) (name name' data : Bytes) (f : File) (ops : List Op)
    (e' : EFile) (res : List Bool)
    (hf : parseToFile name data fix true = .ok f) (hk : WellFormedKeys f) (hs : NoBlockSuffix f.syn)
    (hm : MarkersSettable f.syn.stmts) (hv : StaticValid false ops)
    (h : runOps applyMod (load f) ops [] 0 = .done e' res)
    (hok : AbsOK (absOf (cleanup e').f)) (hcom : comShapeB (cleanup e').f.syn = true) :
    ∃ g, parseStrict name' (format (cleanup e').f.syn) none = .ok g ∧ AbsPerm (absOf g) (absOf (cleanup e').f) := by
  obtain ⟨hinv, hgb⟩ := goodBlocks_run_fix hfx name data f ops e' res hf hk hs hm hv h
  exact reparse_of_inv name' (cleanup e') hinv (cleanup_allLive e') (vok_of_absOK hok) (cleanup_linesLive e') hgb hcom

/-- … with the values condition on the STARTING file and the OPERATION LIST (`typed_eq_reparse_session4`, on the run) -/
theorem typed_eq_reparse_run_fix2 {fix : Option Fixer} (hfx : FixOK fix) (name name' data : Bytes) (f : File) (ops : List Op)
    (e' : EFile) (res : List Bool)
    (hf : parseToFile name data fix true = .ok f) (hk : WellFormedKeys f) (hs : NoBlockSuffix f.syn)
    (hm : MarkersSettable f.syn.stmts) (hstart : AbsOK (absOf f)) (hv : StaticValid false ops)
    (hmod : ∀ op ∈ ops, IsModOp op) (hargs : ∀ op ∈ ops, ArgsOK op.toSpec)
    (h : runOps applyMod (load f) ops [] 0 = .done e' res) (hcom : comShapeB (cleanup e').f.syn = true) :
    ∃ g, parseStrict name' (format (cleanup e').f.syn) none = .ok g ∧ AbsPerm (absOf g) (absOf (cleanup e').f) ∧
      Rel (absOf (cleanup e').f) (run stdValidity (absOf f) (ops.map Op.toSpec)) := by
  obtain ⟨h2, _⟩ := refines_abs_typed f ops e' res (parseStrict_startOK_fix hfx hf hk) (StaticValid.validArgs ops false hv hmod) h
  rw [mV_eq_std] at h2
  have hrun : AbsOKF (run stdValidity (absOf f) (ops.map Op.toSpec)) := by
    apply AbsOKF.run
    · exact (absOK_iff _).1 hstart
    · intro op hop
      obtain ⟨op', hop', rfl⟩ := List.mem_map.1 hop
      exact hargs op' hop'
  have hok : AbsOK (absOf (cleanup e').f) := (absOK_iff _).2 (AbsOKF.of_rel h2 hrun)
  obtain ⟨g, hg, hp⟩ := typed_eq_reparse_run_fix hfx name name' data f ops e' res hf hk hs hm hv h hok hcom
  exact ⟨g, hg, hp, h2⟩

end ModVerif.Modfile.Edit.SFix
